import Goyang.Lemmas.ConfigNsDev
/-
C12, tree-level commutation lemmas for closing the composition gap (`Built` instead of `Built'`):
creating an absent rpc input / output (`addImplicit` at a path) commutes with an earlier graft
(`updateAt path (merge …)`) and with an earlier `FixChoice`.

`updateAt` rewrites every child whose *name* matches the step (the model keeps `Dir` as a list), so the
purely structural lemmas (`updateAt_append`, `updateAt_same`, the two commutation lemmas) hold for all
trees; where the first match must be the only match (`updateAt_congr_unique`, the `FixChoice`
commutation) the hypotheses are `U` (children filed under pairwise different non-empty names) and
`PathOK` (no empty name on the path), which the augment stage maintains.
-/
set_option linter.unusedVariables false
set_option linter.unusedSimpArgs false
namespace Goyang.Lemmas.ConfigNsComm
open Goyang.Model Goyang.Spec.ConfigNs Goyang.Lemmas.ConfigNs
open Goyang.Spec.Find (addImplicit)
open Goyang.Lemmas.Tree (U PathOK U_mk)

/-! ### `updateAt`: composition -/

theorem updateAt_name_keep {g : Entry → Entry} (hg : ∀ x, (g x).name = x.name) (x : Entry) (q : Path) :
    (x.updateAt q g).name = x.name := by
  cases q with
  | nil => rw [updateAt_nil]; exact hg x
  | cons s q => cases x; cases s <;> rfl

theorem updateAt_d_cons (x : Entry) (s : Step) (q : Path) (g : Entry → Entry) : (x.updateAt (s :: q) g).d = x.d := by
  cases x; cases s <;> rfl

theorem updateAt_append (h : Entry → Entry) : ∀ (q r : Path) (x : Entry),
    x.updateAt (q ++ r) h = x.updateAt q (fun y => y.updateAt r h) := by
  intro q
  induction q with
  | nil => intro r x; rw [List.nil_append, updateAt_nil]
  | cons s q ih =>
    intro r x
    cases x with
    | mk d c i o =>
      cases s with
      | child k =>
        simp only [List.cons_append, Entry.updateAt]
        congr 1
        apply List.map_congr_left
        intro y _
        split
        · exact ih r y
        · rfl
      | input =>
        simp only [List.cons_append, Entry.updateAt]
        congr 1
        apply List.map_congr_left
        intro y _; exact ih r y
      | output =>
        simp only [List.cons_append, Entry.updateAt]
        congr 1
        apply List.map_congr_left
        intro y _; exact ih r y

/-- Two updates at the same place compose (the first one keeps names). -/
theorem updateAt_same {g : Entry → Entry} (hg : ∀ x, (g x).name = x.name) (h : Entry → Entry) : ∀ (q : Path) (x : Entry),
    (x.updateAt q g).updateAt q h = x.updateAt q (fun y => h (g y)) := by
  intro q
  induction q with
  | nil => intro x; simp only [updateAt_nil]
  | cons s q ih =>
    intro x
    cases x with
    | mk d c i o =>
      cases s with
      | child k =>
        simp only [Entry.updateAt, List.map_map]
        congr 1
        apply List.map_congr_left
        intro y _
        simp only [Function.comp]
        by_cases hy : (y.name == k) = true
        · simp only [hy, if_true, updateAt_name_keep hg y q]
          exact ih y
        · simp only [hy, if_false]
          simp [hy]
      | input =>
        simp only [Entry.updateAt, List.map_map]
        congr 1
        apply List.map_congr_left
        intro y _; exact ih y
      | output =>
        simp only [Entry.updateAt, List.map_map]
        congr 1
        apply List.map_congr_left
        intro y _; exact ih y

/-- An update below an updated place. -/
theorem updateAt_below {g : Entry → Entry} (hg : ∀ x, (g x).name = x.name) (h : Entry → Entry) (q r : Path) (x : Entry) :
    (x.updateAt q g).updateAt (q ++ r) h = x.updateAt q (fun y => (g y).updateAt r h) := by
  rw [updateAt_append h q r, updateAt_same hg]

/-- One step apart: the two updates touch different children / different fields. -/
theorem updateAt_comm_step {g h : Entry → Entry} (hg : ∀ x, (g x).name = x.name) (hh : ∀ x, (h x).name = x.name)
    {s1 s2 : Step} (hne : s1 ≠ s2) (p' q' : Path) (y : Entry) :
    (y.updateAt (s2 :: q') h).updateAt (s1 :: p') g = (y.updateAt (s1 :: p') g).updateAt (s2 :: q') h := by
  cases y with
  | mk d c i o =>
    cases s1 with
    | child k1 =>
      cases s2 with
      | child k2 =>
        have hk : k1 ≠ k2 := fun e => hne (by rw [e])
        simp only [Entry.updateAt, List.map_map]
        congr 1
        apply List.map_congr_left
        intro z _
        simp only [Function.comp]
        by_cases h1 : (z.name == k1) = true
        · have h2 : (z.name == k2) = false := by
            rw [Bool.eq_false_iff]; intro h2
            exact hk ((eq_of_beq h1).symm.trans (eq_of_beq h2))
          simp only [h1, h2, if_true, if_false, Bool.false_eq_true]
          simp [updateAt_name_keep hg z p', h2]
        · by_cases h2 : (z.name == k2) = true
          · simp only [h1, h2, if_true, if_false]
            simp [updateAt_name_keep hh z q', h1]
            intro hc; exact absurd (eq_of_beq h2) hc
          · simp only [h1, h2, if_false]
            simp [h1, h2]
      | input => simp only [Entry.updateAt]
      | output => simp only [Entry.updateAt]
    | input =>
      cases s2 with
      | child k2 => simp only [Entry.updateAt]
      | input => exact absurd rfl hne
      | output => simp only [Entry.updateAt]
    | output =>
      cases s2 with
      | child k2 => simp only [Entry.updateAt]
      | input => simp only [Entry.updateAt]
      | output => exact absurd rfl hne

/-- Updates at diverging paths commute. -/
theorem updateAt_comm_diverge {g h : Entry → Entry} (hg : ∀ x, (g x).name = x.name) (hh : ∀ x, (h x).name = x.name)
    {s1 s2 : Step} (hne : s1 ≠ s2) (c p' q' : Path) (x : Entry) :
    (x.updateAt (c ++ s2 :: q') h).updateAt (c ++ s1 :: p') g = (x.updateAt (c ++ s1 :: p') g).updateAt (c ++ s2 :: q') h := by
  rw [updateAt_append h c (s2 :: q'), updateAt_append g c (s1 :: p'),
    updateAt_same (fun y => updateAt_name_keep hh y _), updateAt_append g c (s1 :: p'),
    updateAt_append h c (s2 :: q'), updateAt_same (fun y => updateAt_name_keep hg y _)]
  congr 1
  funext y
  exact updateAt_comm_step hg hh hne p' q' y

/-- An update at `p` commutes with an update strictly below `p`, when `g` does so at one node. -/
theorem updateAt_comm_above {g h : Entry → Entry} (hg : ∀ x, (g x).name = x.name) (p : Path) (s : Step) (r' : Path)
    (hgs : ∀ x, g (x.updateAt (s :: r') h) = (g x).updateAt (s :: r') h) (x : Entry) :
    (x.updateAt (p ++ s :: r') h).updateAt p g = (x.updateAt p g).updateAt (p ++ s :: r') h := by
  rw [updateAt_append h p (s :: r'),
    updateAt_same (g := fun y => y.updateAt (s :: r') h) (fun y => by cases y; cases s <;> rfl),
    updateAt_append h p (s :: r'), updateAt_same hg]
  congr 1
  funext y
  exact hgs y

/-! ### `addImplicit` -/

/-- The step an implicit creation fills. -/
def slot (b : Bool) : Step := if b then .input else .output

/-- The node lacks the input (output). -/
def SlotEmpty (b : Bool) (e : Entry) : Prop := if b = true then e.inp = [] else e.out = []

theorem addImplicit_name (b : Bool) (x : Entry) : (addImplicit b x).name = x.name := by
  cases x; cases b <;> rfl

theorem addImplicit_dir (b : Bool) (x : Entry) : (addImplicit b x).dir = x.dir := by
  cases x; cases b <;> rfl

theorem addImplicit_child? (b : Bool) (x : Entry) (k : String) : (addImplicit b x).child? k = x.child? k := by
  unfold Entry.child?; rw [addImplicit_dir]

/-- `addImplicit` at a node commutes with an update that goes down through another step. -/
theorem addImplicit_comm_step (b : Bool) (s : Step) (hs : s ≠ slot b) (r' : Path) (h : Entry → Entry) (x : Entry) :
    addImplicit b (x.updateAt (s :: r') h) = (addImplicit b x).updateAt (s :: r') h := by
  cases x with
  | mk d c i o =>
    cases b with
    | true =>
      cases s with
      | child k => rfl
      | input => exact absurd rfl hs
      | output => rfl
    | false =>
      cases s with
      | child k => rfl
      | input => rfl
      | output => exact absurd rfl hs

/-- Through an empty slot no path leads anywhere. -/
theorem getAt_slot_none (b : Bool) (e : Entry) (he : SlotEmpty b e) (r : Path) : e.getAt (slot b :: r) = none := by
  cases e with
  | mk d c i o =>
    cases b with
    | true => simp only [SlotEmpty, if_true, Entry.inp] at he; subst he; rfl
    | false => simp only [SlotEmpty, Bool.false_eq_true, if_false, Entry.out] at he; subst he; rfl

/-- Below a filled slot the other steps lead where they led. -/
theorem addImplicit_getAt (b : Bool) (s : Step) (hs : s ≠ slot b) (r : Path) (e : Entry) :
    (addImplicit b e).getAt (s :: r) = e.getAt (s :: r) := by
  cases e with
  | mk d c i o =>
    cases b with
    | true =>
      cases s with
      | child k => rfl
      | input => exact absurd rfl hs
      | output => rfl
    | false =>
      cases s with
      | child k => rfl
      | input => rfl
      | output => exact absurd rfl hs

/-! ### the one node a proper path leads to -/

/-- Under `U`, an update along a proper existing path only depends on what the function does to the
node the path leads to. -/
theorem updateAt_congr_unique (f g : Entry → Entry) (e : Entry) (hfg : f e = g e) :
    ∀ (p : Path) (root : Entry), U root → PathOK p → root.getAt p = some e → root.updateAt p f = root.updateAt p g := by
  intro p
  induction p with
  | nil =>
    intro root _ _ hg
    simp only [Entry.getAt, Option.some.injEq] at hg; subst hg
    rw [updateAt_nil, updateAt_nil]; exact hfg
  | cons s p ih =>
    intro root hu hp hg
    cases root with
    | mk d c i o =>
      cases s with
      | child k =>
        obtain ⟨pre, y, post, hc, hy, hgy, hpre, hpost, hupd⟩ :=
          Tree.updateAt_child d c i o k p f e hu (hp k (by simp)) hg
        rw [hupd]
        have huy : U y := ((U_mk _ _ _ _).1 hu).2.1 y (by rw [hc]; simp)
        simp only [Entry.updateAt]
        rw [hc, Tree.map_if_split pre post y k _ hpre hpost hy, ih y huy hp.tail hgy]
      | input =>
        obtain ⟨y, hi, hgy, hupd⟩ := Tree.updateAt_input d c i o p f e hu hg
        rw [hupd]; subst hi
        have huy : U y := ((U_mk _ _ _ _).1 hu).2.2.1 y (by simp)
        simp only [Entry.updateAt, List.map_cons, List.map_nil]
        rw [ih y huy hp.tail hgy]
      | output =>
        obtain ⟨y, ho, hgy, hupd⟩ := Tree.updateAt_output d c i o p f e hu hg
        rw [hupd]; subst ho
        have huy : U y := ((U_mk _ _ _ _).1 hu).2.2.2 y (by simp)
        simp only [Entry.updateAt, List.map_cons, List.map_nil]
        rw [ih y huy hp.tail hgy]

theorem U_addImplicit_node (b : Bool) (e : Entry) (hu : U e) (he : SlotEmpty b e) : U (addImplicit b e) := by
  cases e with
  | mk d c i o =>
    rw [U_mk] at hu
    cases b with
    | true =>
      simp only [SlotEmpty, if_true, Entry.inp] at he; subst he
      show U (.mk d c [implicitIO (.mk d c [] o) true] o)
      rw [U_mk]
      refine ⟨⟨hu.1.1, by simp, hu.1.2.2⟩, hu.2.1, ?_, hu.2.2.2⟩
      intro x hx; simp only [List.mem_singleton] at hx; subst hx; exact Tree.U_implicitIO _ _
    | false =>
      simp only [SlotEmpty, Bool.false_eq_true, if_false, Entry.out] at he; subst he
      show U (.mk d c i [implicitIO (.mk d c i []) false])
      rw [U_mk]
      refine ⟨⟨hu.1.1, hu.1.2.1, by simp⟩, hu.2.1, hu.2.2.1, ?_⟩
      intro x hx; simp only [List.mem_singleton] at hx; subst hx; exact Tree.U_implicitIO _ _

/-- `U` survives the creation of an absent input / output. -/
theorem U_addImplicit (b : Bool) (root : Entry) (p : Path) (e : Entry) (hu : U root) (hp : PathOK p)
    (hg : root.getAt p = some e) (he : SlotEmpty b e) : U (root.updateAt p (addImplicit b)) :=
  Tree.U_updateAt (addImplicit b) e (U_addImplicit_node b e (Tree.U_getAt p root e hu hg) he) (addImplicit_name b e)
    p root hu hp hg

/-! ### stamps -/

theorem noStamp_implicitIO (parent : Entry) (b : Bool) : noStamp (implicitIO parent b) = true := by
  unfold implicitIO; simp [noStamp, noStampL]

theorem noStamp_addImplicit (b : Bool) (x : Entry) (h : noStamp x = true) : noStamp (addImplicit b x) = true := by
  cases x with
  | mk d c i o =>
    simp only [noStamp_mk, Bool.and_eq_true] at h
    cases b with
    | true =>
      show noStamp (.mk d c [implicitIO (.mk d c i o) true] o) = true
      simp only [noStamp_mk, Bool.and_eq_true]
      refine ⟨⟨⟨h.1.1.1, h.1.1.2⟩, ?_⟩, h.2⟩
      simp [noStampL, noStamp_implicitIO]
    | false =>
      show noStamp (.mk d c i [implicitIO (.mk d c i o) false]) = true
      simp only [noStamp_mk, Bool.and_eq_true]
      refine ⟨⟨⟨h.1.1.1, h.1.1.2⟩, h.1.2⟩, ?_⟩
      simp [noStampL, noStamp_implicitIO]

theorem noStampL_map (l : List Entry) (F : Entry → Entry) (hF : ∀ x ∈ l, noStamp x = true → noStamp (F x) = true)
    (h : noStampL l = true) : noStampL (l.map F) = true := by
  rw [noStampL_iff] at h ⊢
  intro y hy
  simp only [List.mem_map] at hy
  obtain ⟨x, hx, rfl⟩ := hy
  exact hF x hx (h x hx)

theorem noStamp_updateAt (g : Entry → Entry) (hg : ∀ x, noStamp x = true → noStamp (g x) = true) :
    ∀ (q : Path) (x : Entry), noStamp x = true → noStamp (x.updateAt q g) = true := by
  intro q
  induction q with
  | nil => intro x h; rw [updateAt_nil]; exact hg x h
  | cons s q ih =>
    intro x h
    cases x with
    | mk d c i o =>
      simp only [noStamp_mk, Bool.and_eq_true] at h
      cases s with
      | child k =>
        simp only [Entry.updateAt, noStamp_mk, Bool.and_eq_true]
        refine ⟨⟨⟨h.1.1.1, ?_⟩, h.1.2⟩, h.2⟩
        refine noStampL_map c _ (fun y _ hy => ?_) h.1.1.2
        split
        · exact ih y hy
        · exact hy
      | input =>
        simp only [Entry.updateAt, noStamp_mk, Bool.and_eq_true]
        exact ⟨⟨⟨h.1.1.1, h.1.1.2⟩, noStampL_map i _ (fun y _ hy => ih y hy) h.1.2⟩, h.2⟩
      | output =>
        simp only [Entry.updateAt, noStamp_mk, Bool.and_eq_true]
        exact ⟨⟨⟨h.1.1.1, h.1.1.2⟩, h.1.2⟩, noStampL_map o _ (fun y _ hy => ih y hy) h.2⟩

/-- Creating an absent input / output somewhere below the root leaves a stamp-free tree stamp-free. -/
theorem noStampBelow_updateAt_addImplicit (b : Bool) (q : Path) (x : Entry) (h : noStampBelow x = true) :
    noStampBelow (x.updateAt q (addImplicit b)) = true := by
  have hA := fun y hy => noStamp_updateAt (addImplicit b) (noStamp_addImplicit b) q y hy
  cases x with
  | mk d c i o =>
    -- the root's own stamp does not matter: erase it, use `noStamp`, and read the children off
    have h0 : noStamp (.mk { d with ns := none } c i o) = true := by
      simp only [noStampBelow, Entry.dir, Entry.inp, Entry.out, Bool.and_eq_true] at h
      simp only [noStamp_mk, Bool.and_eq_true]
      exact ⟨⟨⟨rfl, h.1.1⟩, h.1.2⟩, h.2⟩
    have h1 := hA _ h0
    cases q with
    | nil =>
      rw [updateAt_nil] at h1 ⊢
      cases b with
      | true =>
        have : noStamp (.mk { d with ns := none } c [implicitIO (.mk { d with ns := none } c i o) true] o) = true := h1
        simp only [noStamp_mk, Bool.and_eq_true] at this
        show noStampBelow (.mk d c [implicitIO (.mk d c i o) true] o) = true
        simp only [noStampBelow, Entry.dir, Entry.inp, Entry.out, Bool.and_eq_true]
        exact ⟨⟨this.1.1.2, by simp [noStampL, noStamp_implicitIO]⟩, this.2⟩
      | false =>
        have : noStamp (.mk { d with ns := none } c i [implicitIO (.mk { d with ns := none } c i o) false]) = true := h1
        simp only [noStamp_mk, Bool.and_eq_true] at this
        show noStampBelow (.mk d c i [implicitIO (.mk d c i o) false]) = true
        simp only [noStampBelow, Entry.dir, Entry.inp, Entry.out, Bool.and_eq_true]
        exact ⟨⟨this.1.1.2, this.1.2⟩, by simp [noStampL, noStamp_implicitIO]⟩
    | cons s q =>
      cases s with
      | child k =>
        simp only [Entry.updateAt, noStamp_mk, Bool.and_eq_true] at h1
        simp only [Entry.updateAt, noStampBelow, Entry.dir, Entry.inp, Entry.out, Bool.and_eq_true]
        exact ⟨⟨h1.1.1.2, h1.1.2⟩, h1.2⟩
      | input =>
        simp only [Entry.updateAt, noStamp_mk, Bool.and_eq_true] at h1
        simp only [Entry.updateAt, noStampBelow, Entry.dir, Entry.inp, Entry.out, Bool.and_eq_true]
        exact ⟨⟨h1.1.1.2, h1.1.2⟩, h1.2⟩
      | output =>
        simp only [Entry.updateAt, noStamp_mk, Bool.and_eq_true] at h1
        simp only [Entry.updateAt, noStampBelow, Entry.dir, Entry.inp, Entry.out, Bool.and_eq_true]
        exact ⟨⟨h1.1.1.2, h1.1.2⟩, h1.2⟩

/-! ### what `merge` does, as a function of the names already present -/

/-- The children `merge` appends and the duplicate errors it records, given the names taken. -/
def mkids (ns : Option String) (pos : Stmt) : List String → List Entry → List Entry × List Err
  | _, [] => ([], [])
  | taken, v :: vs =>
    if taken.any (· == v.name) then
      ((mkids ns pos taken vs).1, Err.at_ pos "duplicate-node" :: (mkids ns pos taken vs).2)
    else
      (stamp ns v :: (mkids ns pos (taken ++ [v.name]) vs).1, (mkids ns pos (taken ++ [v.name]) vs).2)

theorem child?_any (c : List Entry) (k : String) :
    ((c.find? (·.name == k)).isSome) = (c.map (·.name)).any (· == k) := by
  induction c with
  | nil => rfl
  | cons x xs ih =>
    simp only [List.find?_cons, List.map_cons, List.any_cons]
    cases hx : (x.name == k) with
    | true => simp
    | false => simpa using ih

theorem mstep_mk (ns : Option String) (pos : Stmt) (d : EData) (c i o : List Entry) (v : Entry) :
    mstep ns pos (.mk d c i o) v =
      if (c.map (·.name)).any (· == v.name) then .mk { d with errors := d.errors ++ [Err.at_ pos "duplicate-node"] } c i o
      else .mk d (c ++ [stamp ns v]) i o := by
  unfold mstep
  rw [stamp_name]
  have hany := child?_any c v.name
  cases hv : (Entry.mk d c i o).child? v.name with
  | some x =>
    have ht : (c.map (·.name)).any (· == v.name) = true := by
      rw [← hany]; simp only [Entry.child?, Entry.dir] at hv; rw [hv]; rfl
    rw [if_pos ht]; rfl
  | none =>
    have ht : (c.map (·.name)).any (· == v.name) = false := by
      rw [← hany]; simp only [Entry.child?, Entry.dir] at hv; rw [hv]; rfl
    rw [if_neg (by simp [ht])]; rfl

theorem foldl_mstep_struct (ns : Option String) (pos : Stmt) : ∀ (l : List Entry) (d : EData) (c i o : List Entry),
    l.foldl (mstep ns pos) (.mk d c i o) =
      .mk { d with errors := d.errors ++ (mkids ns pos (c.map (·.name)) l).2 }
        (c ++ (mkids ns pos (c.map (·.name)) l).1) i o := by
  intro l
  induction l with
  | nil => intro d c i o; simp [mkids]
  | cons v l ih =>
    intro d c i o
    rw [List.foldl_cons, mstep_mk]
    by_cases ht : (c.map (·.name)).any (· == v.name) = true
    · rw [if_pos ht, ih]
      simp only [mkids, ht, if_true, List.append_assoc, List.singleton_append]
    · rw [if_neg ht, ih]
      simp only [mkids, ht, Bool.false_eq_true, if_false, List.map_append, List.map_cons, List.map_nil, stamp_name,
        List.append_assoc, List.singleton_append]

/-- What `importErrors` adds. -/
def imp (oe : Entry) : List Err :=
  oe.d.errors ++ Entry.allErrorsL oe.dir ++ Entry.allErrorsL oe.inp ++ Entry.allErrorsL oe.out

/-- **The shape of `merge`**: own data with more errors, own children followed by the new ones. -/
theorem merge_struct (ns : Option String) (oe : Entry) (d : EData) (c i o : List Entry) :
    (Entry.mk d c i o).merge ns oe =
      .mk { d with errors := (d.errors ++ imp oe) ++ (mkids ns oe.d.node (c.map (·.name)) oe.dir).2 }
        (c ++ (mkids ns oe.d.node (c.map (·.name)) oe.dir).1) i o := by
  rw [merge_eq]
  simp only [Entry.importErrors, Entry.addErrs, Entry.withD]
  rw [foldl_mstep_struct]
  rfl

/-- The appended children have names that were free. -/
theorem mkids_fresh (ns : Option String) (pos : Stmt) : ∀ (l : List Entry) (taken : List String),
    ∀ x ∈ (mkids ns pos taken l).1, taken.any (· == x.name) = false := by
  intro l
  induction l with
  | nil => intro taken x hx; simp [mkids] at hx
  | cons v l ih =>
    intro taken x hx
    unfold mkids at hx
    split at hx
    · exact ih taken x hx
    · rename_i hf
      simp only [List.mem_cons] at hx
      rcases hx with rfl | hx
      · rw [stamp_name]; exact Bool.eq_false_iff.mpr hf
      · have := ih (taken ++ [v.name]) x hx
        simp only [List.any_append, Bool.or_eq_false_iff] at this
        exact this.1

/-- Mapping the merged entry's children by a function that keeps names and commutes with stamping maps
the appended children. -/
theorem mkids_map (ns : Option String) (pos : Stmt) (F : Entry → Entry) (hn : ∀ v, (F v).name = v.name)
    (hst : ∀ v, stamp ns (F v) = F (stamp ns v)) : ∀ (l : List Entry) (taken : List String),
    mkids ns pos taken (l.map F) = ((mkids ns pos taken l).1.map F, (mkids ns pos taken l).2) := by
  intro l
  induction l with
  | nil => intro taken; simp [mkids]
  | cons v l ih =>
    intro taken
    simp only [List.map_cons]
    unfold mkids
    rw [hn v]
    split
    · rw [ih]
    · rw [ih, hst]; simp

/-! ### an update below a graft target commutes with the graft -/

theorem map_if_id (c : List Entry) (k : String) (G : Entry → Entry) (h : ∀ x ∈ c, (x.name == k) = false) :
    c.map (fun x => if x.name == k then G x else x) = c := by
  conv => rhs; rw [← List.map_id c]
  apply List.map_congr_left
  intro x hx; simp [h x hx]

theorem map_if_names (c : List Entry) (k : String) (G : Entry → Entry) (hG : ∀ x, (G x).name = x.name) :
    (c.map (fun x => if x.name == k then G x else x)).map (·.name) = c.map (·.name) := by
  rw [List.map_map]
  apply List.map_congr_left
  intro x _
  simp only [Function.comp]
  split
  · exact hG x
  · rfl

/-- An update that goes down through rpc input / output, or through a child the target already had,
commutes with the graft at the target. -/
theorem merge_updateAt_old {g : Entry → Entry} (hg : ∀ x, (g x).name = x.name) (ns : Option String) (a te : Entry)
    (s : Step) (r' : Path) (hs : ∀ k, s = .child k → (te.child? k).isSome = true) :
    (te.merge ns a).updateAt (s :: r') g = (te.updateAt (s :: r') g).merge ns a := by
  cases te with
  | mk d c i o =>
    cases s with
    | input => rw [merge_struct]; simp only [Entry.updateAt]; rw [merge_struct]
    | output => rw [merge_struct]; simp only [Entry.updateAt]; rw [merge_struct]
    | child k =>
      have hk := hs k rfl
      simp only [Entry.child?, Entry.dir] at hk
      rw [child?_any] at hk
      rw [merge_struct]
      simp only [Entry.updateAt]
      rw [merge_struct, map_if_names c k _ (fun x => updateAt_name_keep hg x r'), List.map_append]
      congr 2
      apply map_if_id
      intro x hx
      have hf := mkids_fresh ns a.d.node a.dir (c.map (·.name)) x hx
      rw [Bool.eq_false_iff]
      intro hxk
      rw [eq_of_beq hxk, hk] at hf
      cases hf

theorem stamp_updateAt_addImplicit (ns : Option String) (b : Bool) (r' : Path) (v : Entry) :
    stamp ns (v.updateAt r' (addImplicit b)) = (stamp ns v).updateAt r' (addImplicit b) := by
  cases ns with
  | none => rfl
  | some n =>
    cases v with
    | mk d c i o =>
      cases r' with
      | nil => rw [updateAt_nil, updateAt_nil]; cases b <;> rfl
      | cons s r'' => cases s <;> rfl

/-- An update that goes down through a child the graft adds is an update of the grafted entry. -/
theorem merge_updateAt_new (ns : Option String) (b : Bool) (a te : Entry) (k : String) (r' : Path)
    (hk : te.child? k = none)
    (himp : imp (a.updateAt (.child k :: r') (addImplicit b)) = imp a) :
    (te.merge ns a).updateAt (.child k :: r') (addImplicit b) =
      te.merge ns (a.updateAt (.child k :: r') (addImplicit b)) := by
  cases te with
  | mk d c i o =>
    cases a with
    | mk da ca ia oa =>
      have hfree : ∀ x ∈ c, (x.name == k) = false := by
        intro x hx
        have := Tree.child?_none (.mk d c i o) k hk x hx
        rw [Bool.eq_false_iff]; intro h; exact this (eq_of_beq h)
      rw [merge_struct, merge_struct, himp]
      simp only [Entry.updateAt, Entry.d, Entry.dir]
      rw [mkids_map ns da.node (fun x => if x.name == k then x.updateAt r' (addImplicit b) else x)
        (fun v => by
          show (if v.name == k then v.updateAt r' (addImplicit b) else v).name = v.name
          split
          · exact updateAt_name_keep (addImplicit_name b) v r'
          · rfl)
        (fun v => by
          show stamp ns (if v.name == k then v.updateAt r' (addImplicit b) else v) =
            (if (stamp ns v).name == k then (stamp ns v).updateAt r' (addImplicit b) else stamp ns v)
          rw [stamp_name]
          split
          · exact stamp_updateAt_addImplicit ns b r' v
          · rfl)]
      rw [List.map_append, map_if_id c k _ hfree]

/-! ### recorded errors are untouched by an implicit creation -/

theorem allErrorsL_append (a b : List Entry) : Entry.allErrorsL (a ++ b) = Entry.allErrorsL a ++ Entry.allErrorsL b := by
  induction a with
  | nil => simp [Entry.allErrorsL]
  | cons x xs ih => simp [Entry.allErrorsL, ih]

/-- Same data, same errors in each of the three child lists. -/
def SameErrs (x y : Entry) : Prop :=
  y.d = x.d ∧ Entry.allErrorsL y.dir = Entry.allErrorsL x.dir ∧ Entry.allErrorsL y.inp = Entry.allErrorsL x.inp ∧
    Entry.allErrorsL y.out = Entry.allErrorsL x.out

theorem SameErrs.all {x y : Entry} (h : SameErrs x y) : y.allErrors = x.allErrors := by
  cases x; cases y
  obtain ⟨h1, h2, h3, h4⟩ := h
  simp only [Entry.d, Entry.dir, Entry.inp, Entry.out] at h1 h2 h3 h4
  simp only [Entry.allErrors, h1, h2, h3, h4]

theorem SameErrs.imp {x y : Entry} (h : SameErrs x y) : imp y = imp x := by
  obtain ⟨h1, h2, h3, h4⟩ := h
  unfold ConfigNsComm.imp
  rw [h1, h2, h3, h4]

theorem sameErrs_addImplicit (b : Bool) (e : Entry) (he : SlotEmpty b e) : SameErrs e (addImplicit b e) := by
  cases e with
  | mk d c i o =>
    cases b with
    | true =>
      simp only [SlotEmpty, if_true, Entry.inp] at he; subst he
      refine ⟨rfl, rfl, ?_, rfl⟩
      show Entry.allErrorsL [implicitIO (.mk d c [] o) true] = Entry.allErrorsL []
      simp [Entry.allErrorsL, Entry.allErrors, implicitIO]
    | false =>
      simp only [SlotEmpty, Bool.false_eq_true, if_false, Entry.out] at he; subst he
      refine ⟨rfl, rfl, rfl, ?_⟩
      show Entry.allErrorsL [implicitIO (.mk d c i []) false] = Entry.allErrorsL []
      simp [Entry.allErrorsL, Entry.allErrors, implicitIO]

/-- Under `U`, creating an absent input / output at a proper existing path records no error and drops
none. -/
theorem sameErrs_updateAt_addImplicit (b : Bool) (e : Entry) (he : SlotEmpty b e) (p : Path) (root : Entry)
    (hu : U root) (hp : PathOK p) (hg : root.getAt p = some e) : SameErrs root (root.updateAt p (addImplicit b)) := by
  refine Tree.updateAt_unique_ind SameErrs (addImplicit b) e (sameErrs_addImplicit b e he) ?_ ?_ ?_ p root hu hp hg
  · intro d pre y post i o y' _ h
    refine ⟨rfl, ?_, rfl, rfl⟩
    simp only [Entry.dir, allErrorsL_append, Entry.allErrorsL, h.all]
  · intro d c y o y' _ h
    refine ⟨rfl, rfl, ?_, rfl⟩
    simp only [Entry.inp, Entry.allErrorsL, h.all]
  · intro d c i y y' _ h
    refine ⟨rfl, rfl, rfl, ?_⟩
    simp only [Entry.out, Entry.allErrorsL, h.all]

/-! ### `FixChoice` -/

theorem fixChoice_mk (d : EData) (c i o : List Entry) : fixChoice (.mk d c i o) =
    .mk d (if wraps (.mk d c i o) then (c.map fixChoice).map wrap1 else c.map fixChoice)
      (i.map fixChoice) (o.map fixChoice) := by
  rw [fixChoice, fixChoiceL_eq_map, fixChoiceL_eq_map, fixChoiceL_eq_map, wrapCases_eq_map]
  rfl

theorem wrap1_isRpc (x : Entry) (h : x.d.kind ≠ .case_) : (wrap1 x).d.isRpc = false := by
  unfold wrap1; simp only [kind_beq, h, decide_false, Bool.false_eq_true, if_false]; rfl

theorem wrap1_mk (x : Entry) (h : x.d.kind ≠ .case_) :
    wrap1 x = .mk { name := x.d.name, kind := .case_, hasDir := true, config := x.d.config, node := x.d.node, nodeMod := x.d.nodeMod, nodeKw := "case" } [x] [] [] := by
  unfold wrap1; simp only [kind_beq, h, decide_false, Bool.false_eq_true, if_false]

/-- **Every rpc / action node of the fixed tree is the image of a node of the original tree**: the
nodes `FixChoice` inserts are plain cases. -/
theorem fix_preimage : ∀ (p : Path) (root0 e : Entry), (fixChoice root0).getAt p = some e → e.d.isRpc = true →
    ∃ p0 e0, root0.getAt p0 = some e0 ∧ liftPath root0 p0 = p ∧ e = fixChoice e0 ∧
      (∀ k, Step.child k ∈ p0 → Step.child k ∈ p)
  | [], root0, e, h, _ => by
    simp only [Entry.getAt, Option.some.injEq] at h
    exact ⟨[], root0, rfl, liftPath_nil _, h.symm, fun k hk => hk⟩
  | .input :: r, root0, e, h, hr => by
    rw [getAt_cons, fixChoice_next_input] at h
    cases hn : next root0 .input with
    | none => simp [hn] at h
    | some x =>
      simp only [hn, Option.map_some, Option.bind_some] at h
      obtain ⟨p0, e0, h1, h2, h3, h4⟩ := fix_preimage r x e h hr
      refine ⟨.input :: p0, e0, by rw [getAt_cons, hn]; exact h1, by simp only [liftPath_input, hn, h2], h3, ?_⟩
      intro k hk
      simp only [List.mem_cons] at hk
      rcases hk with hk | hk
      · cases hk
      · exact List.mem_cons_of_mem _ (h4 k hk)
  | .output :: r, root0, e, h, hr => by
    rw [getAt_cons, fixChoice_next_output] at h
    cases hn : next root0 .output with
    | none => simp [hn] at h
    | some x =>
      simp only [hn, Option.map_some, Option.bind_some] at h
      obtain ⟨p0, e0, h1, h2, h3, h4⟩ := fix_preimage r x e h hr
      refine ⟨.output :: p0, e0, by rw [getAt_cons, hn]; exact h1, by simp only [liftPath_output, hn, h2], h3, ?_⟩
      intro k hk
      simp only [List.mem_cons] at hk
      rcases hk with hk | hk
      · cases hk
      · exact List.mem_cons_of_mem _ (h4 k hk)
  | .child k :: r, root0, e, h, hr => by
    rw [getAt_cons, next_child, fixChoice_child?] at h
    cases hn : root0.child? k with
    | none => simp [hn] at h
    | some x =>
      simp only [hn, Option.map_some, Option.bind_some] at h
      have hxk : x.name = k := child?_name root0 x k hn
      by_cases hw : (wraps root0 && x.d.kind != .case_) = true
      · -- an inserted case stands between the choice and its member
        have hw' := hw
        simp only [Bool.and_eq_true, bne_iff_ne, ne_eq] at hw'
        obtain ⟨hw1, hw2⟩ := hw'
        have hk2 : (fixChoice x).d.kind ≠ .case_ := by rw [fixChoice_d]; exact hw2
        simp only [hw1, if_true] at h
        cases r with
        | nil =>
          simp only [Entry.getAt, Option.some.injEq] at h
          rw [← h, wrap1_isRpc _ hk2] at hr; cases hr
        | cons s' r' =>
          rw [getAt_cons, wrap1_mk _ hk2] at h
          cases s' with
          | input => simp [next, Entry.inp] at h
          | output => simp [next, Entry.out] at h
          | child k' =>
            simp only [next, Entry.child?, Entry.dir, List.find?_cons, List.find?_nil] at h
            have hfn : (fixChoice x).name = k := by rw [fixChoice_name]; exact hxk
            by_cases hkk : ((fixChoice x).name == k') = true
            · have hk' : k' = k := (eq_of_beq hkk).symm.trans hfn
              simp only [hkk, Option.bind_some] at h
              obtain ⟨p0, e0, h1, h2, h3, h4⟩ := fix_preimage r' x e h hr
              refine ⟨.child k :: p0, e0, by rw [getAt_cons, next_child, hn]; exact h1, ?_, h3, ?_⟩
              · rw [liftPath_child, hn]; simp only [hw, if_true, h2, hk']; rfl
              · intro k2 hk
                simp only [List.mem_cons] at hk
                rcases hk with hk | hk
                · rw [hk]; simp
                · exact List.mem_cons_of_mem _ (List.mem_cons_of_mem _ (h4 k2 hk))
            · simp [hkk] at h
      · have hnode : (if wraps root0 = true then wrap1 (fixChoice x) else fixChoice x) = fixChoice x := by
          by_cases hw1 : wraps root0 = true
          · simp only [hw1, if_true]
            apply wrap1_of_case
            rw [fixChoice_d]
            simp only [hw1, Bool.true_and, bne_iff_ne, ne_eq, Decidable.not_not] at hw
            exact hw
          · simp [hw1]
        rw [hnode] at h
        obtain ⟨p0, e0, h1, h2, h3, h4⟩ := fix_preimage r x e h hr
        refine ⟨.child k :: p0, e0, by rw [getAt_cons, next_child, hn]; exact h1, ?_, h3, ?_⟩
        · rw [liftPath_child, hn]; simp only [hw, if_false, h2]; rfl
        · intro k' hk
          simp only [List.mem_cons] at hk
          rcases hk with hk | hk
          · rw [hk]; simp
          · exact List.mem_cons_of_mem _ (h4 k' hk)
termination_by p => p.length
decreasing_by all_goals (first | (simp_wf; done) | (simp_wf; omega) | (simp_wf; subst_vars; simp only [List.length_cons]; omega))

theorem fixChoice_implicitIO (parent : Entry) (b : Bool) : fixChoice (implicitIO parent b) = implicitIO parent b := by
  unfold implicitIO
  rw [fixChoice_mk]
  simp

theorem fixChoice_addImplicit (b : Bool) (e : Entry) : addImplicit b (fixChoice e) = fixChoice (addImplicit b e) := by
  cases e with
  | mk d c i o =>
    cases b with
    | true =>
      show addImplicit true (fixChoice (.mk d c i o)) = fixChoice (.mk d c [implicitIO (.mk d c i o) true] o)
      rw [fixChoice_mk, fixChoice_mk]
      simp only [List.map_cons, List.map_nil, fixChoice_implicitIO]
      rfl
    | false =>
      show addImplicit false (fixChoice (.mk d c i o)) = fixChoice (.mk d c i [implicitIO (.mk d c i o) false])
      rw [fixChoice_mk, fixChoice_mk]
      simp only [List.map_cons, List.map_nil, fixChoice_implicitIO]
      rfl

theorem map_split_update (pre post : List Entry) (y : Entry) (k : String) (hf G : Entry → Entry)
    (hname : ∀ x, (hf x).name = x.name)
    (hpre : ∀ x ∈ pre, (x.name == k) = false) (hpost : ∀ x ∈ post, (x.name == k) = false) (hy : y.name = k) :
    ((pre ++ y :: post).map hf).map (fun x => if x.name == k then G x else x) =
      pre.map hf ++ G (hf y) :: post.map hf := by
  rw [List.map_append, List.map_cons]
  apply Tree.map_if_split
  · intro x hx
    simp only [List.mem_map] at hx
    obtain ⟨z, hz, rfl⟩ := hx
    rw [hname]; exact hpre z hz
  · intro x hx
    simp only [List.mem_map] at hx
    obtain ⟨z, hz, rfl⟩ := hx
    rw [hname]; exact hpost z hz
  · rw [hname]; exact hy

theorem updateAt_d_addImplicit (b : Bool) (y : Entry) (q : Path) : (y.updateAt q (addImplicit b)).d = y.d := by
  cases q with
  | nil => rw [updateAt_nil]; exact ConfigNsDev.addImplicit_d b y
  | cons s q => exact updateAt_d_cons y s q _

/-- **Creating an absent input / output commutes with `FixChoice`** (at the translated path), under `U`
for a proper existing path. -/
theorem fix_updateAt_addImplicit (b : Bool) : ∀ (p0 : Path) (root0 e0 : Entry), U root0 → PathOK p0 →
    root0.getAt p0 = some e0 →
    (fixChoice root0).updateAt (liftPath root0 p0) (addImplicit b) = fixChoice (root0.updateAt p0 (addImplicit b)) := by
  intro p0
  induction p0 with
  | nil =>
    intro root0 e0 _ _ _
    rw [liftPath_nil, updateAt_nil, updateAt_nil]
    exact fixChoice_addImplicit b root0
  | cons s p1 ih =>
    intro root0 e0 hu hp hg
    cases root0 with
    | mk d c i o =>
      cases s with
      | input =>
        obtain ⟨y, hi, hgy, hupd⟩ := Tree.updateAt_input d c i o p1 (addImplicit b) e0 hu hg
        subst hi
        have huy : U y := ((U_mk _ _ _ _).1 hu).2.2.1 y (by simp)
        rw [hupd, liftPath_input]
        simp only [next, Entry.inp, List.head?_cons]
        rw [fixChoice_mk, fixChoice_mk]
        simp only [Entry.updateAt, List.map_cons, List.map_nil]
        rw [ih y e0 huy hp.tail hgy]
        rfl
      | output =>
        obtain ⟨y, ho, hgy, hupd⟩ := Tree.updateAt_output d c i o p1 (addImplicit b) e0 hu hg
        subst ho
        have huy : U y := ((U_mk _ _ _ _).1 hu).2.2.2 y (by simp)
        rw [hupd, liftPath_output]
        simp only [next, Entry.out, List.head?_cons]
        rw [fixChoice_mk, fixChoice_mk]
        simp only [Entry.updateAt, List.map_cons, List.map_nil]
        rw [ih y e0 huy hp.tail hgy]
        rfl
      | child k =>
        obtain ⟨pre, y, post, hc, hy, hgy, hpre, hpost, hupd⟩ :=
          Tree.updateAt_child d c i o k p1 (addImplicit b) e0 hu (hp k (by simp)) hg
        subst hc
        have huy : U y := ((U_mk _ _ _ _).1 hu).2.1 y (by simp)
        have hch : (Entry.mk d (pre ++ y :: post) i o).child? k = some y := by
          simp only [Entry.getAt] at hg
          cases hcc : (Entry.mk d (pre ++ y :: post) i o).child? k with
          | none => simp [hcc] at hg
          | some z =>
            -- the first child named `k` is `y`
            simp only [Entry.child?, Entry.dir] at hcc
            rw [List.find?_append] at hcc
            have : pre.find? (fun x => x.name == k) = none := by
              rw [List.find?_eq_none]; intro x hx; simp [hpre x hx]
            rw [this] at hcc
            simp only [Option.none_or, List.find?_cons, hy, beq_self_eq_true] at hcc
            exact congrArg some (Option.some.inj hcc).symm ▸ rfl
        have ihy := ih y e0 huy hp.tail hgy
        have hyd : (y.updateAt p1 (addImplicit b)).d = y.d := updateAt_d_addImplicit b y p1
        rw [hupd, liftPath_child, hch]
        simp only []
        rw [fixChoice_mk, fixChoice_mk]
        have hw : wraps (.mk d (pre ++ y.updateAt p1 (addImplicit b) :: post) i o) = wraps (.mk d (pre ++ y :: post) i o) := rfl
        rw [hw]
        by_cases hwr : wraps (.mk d (pre ++ y :: post) i o) = true
        · simp only [hwr, if_true, Bool.true_and, List.map_map]
          by_cases hyk : y.d.kind = .case_
          · -- a case member is not wrapped
            have hne : (y.d.kind != .case_) = false := by simp [hyk]
            simp only [hne, Bool.false_eq_true, if_false, List.singleton_append, Entry.updateAt]
            rw [map_split_update pre post y k (wrap1 ∘ fixChoice) _
              (fun x => by simp [Function.comp, wrap1_name, fixChoice_name]) hpre hpost hy]
            simp only [Function.comp, List.map_append, List.map_cons]
            rw [wrap1_of_case (fixChoice y) (by rw [fixChoice_d]; exact hyk), ihy,
              wrap1_of_case (fixChoice (y.updateAt p1 (addImplicit b))) (by rw [fixChoice_d, hyd]; exact hyk)]
          · have hne : (y.d.kind != .case_) = true := by simp [hyk]
            simp only [hne, if_true, List.cons_append, List.nil_append, Entry.updateAt]
            rw [map_split_update pre post y k (wrap1 ∘ fixChoice) _
              (fun x => by simp [Function.comp, wrap1_name, fixChoice_name]) hpre hpost hy]
            simp only [Function.comp, List.map_append, List.map_cons]
            have hk1 : (fixChoice y).d.kind ≠ .case_ := by rw [fixChoice_d]; exact hyk
            have hk2 : (fixChoice (y.updateAt p1 (addImplicit b))).d.kind ≠ .case_ := by rw [fixChoice_d, hyd]; exact hyk
            rw [wrap1_mk _ hk1, wrap1_mk _ hk2]
            have hfn : ((fixChoice y).name == k) = true := by rw [fixChoice_name, hy]; simp
            simp only [Entry.updateAt, List.map_cons, List.map_nil, hfn, if_true, ihy, fixChoice_d, hyd]
        · have hwf : wraps (.mk d (pre ++ y :: post) i o) = false := by simpa using hwr
          simp only [hwf, Bool.false_eq_true, if_false, Bool.false_and, List.singleton_append, Entry.updateAt]
          rw [map_split_update pre post y k fixChoice _ fixChoice_name hpre hpost hy, ihy]
          simp only [List.map_append, List.map_cons]

end Goyang.Lemmas.ConfigNsComm
