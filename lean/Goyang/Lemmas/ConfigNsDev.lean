import Goyang.Lemmas.BridgeBuilt
import Goyang.Lemmas.Deviate
/-
C12, the deviation stage and the error-free run.

`BuiltX reg ae` is `Bridge.Built'` (conversion / graft / FixChoice + the stamp-free steps of the
augment loop) with the two steps of the deviation stage:
  `retouch` — `ApplyDeviate` writes the deviated copy of the target back (`updateAt path fun _ => node'`):
              same children, same stamp, same name, same recorded errors — only §7.20.3 data (config,
              default, mandatory, min/max, units, type) may differ; the provenance stays;
  `remove`  — `deviate not-supported` unlinks the target: the removed location and everything below it
              has no placer any more, every other location keeps its placer;
and with the flag `ae` ("an error may have been recorded on a root"): the constructor `rootErr` needs
`ae = true`.  `BuiltX reg false` is the class of forests of error-free runs.

Proved here: the provenance theorem for `BuiltX` (`builtX_namespace`); every `Built'` forest is
`BuiltX true`; the deviation stage of `processAll` keeps `BuiltX true` (`devStage_builtX`, all inputs);
a `BuiltX true` forest whose visible roots carry no error is `BuiltX false` (`builtX_clean`: on an
error-free run no error was ever recorded on a root — recorded errors are never removed).
-/
set_option linter.unusedVariables false
set_option linter.unusedSimpArgs false
namespace Goyang.Lemmas.ConfigNsDev
open Goyang.Model Goyang.Spec.ConfigNs Goyang.Lemmas.ConfigNs Goyang.Lemmas.Bridge
open Goyang.Spec.Find (addImplicit)

/-- `loc` is the removed location `(t, path)` or lies below it. -/
def Removed (t : Nat) (path : Path) (loc : Loc) : Prop := loc.1 = t ∧ path <+: loc.2

/-- `Bridge.Built'` with the steps of the deviation stage; `ae`: root errors allowed. -/
inductive BuiltX (reg : Registry) (ae : Bool) : Forest → (Loc → Option Nat) → Prop
  | init {f : Forest} :
      (∀ id t, f.tree? id = some t → noStampBelow t = true) →
      BuiltX reg ae f (fun loc => some loc.1)
  | graft {f : Forest} {prov prov' : Loc → Option Nat} {by_ t : Nat} {path : Path} {root te a : Entry} :
      BuiltX reg ae f prov →
      f.tree? t = some root → root.getAt path = some te →
      noStampL a.dir = true →
      (∀ loc, NewBelow t path te a loc → prov' loc = some by_) →
      (∀ loc, ¬ NewBelow t path te a loc → prov' loc = prov loc) →
      BuiltX reg ae (f.setTree t (root.updateAt path fun te => te.merge (some (ownerNs reg by_)) a)) prov'
  | fix {f : Forest} {prov prov' : Loc → Option Nat} :
      BuiltX reg ae f prov →
      (∀ id root p, f.tree? id = some root → (root.getAt p).isSome →
          prov' (id, liftPath root p) = prov (id, p)) →
      (∀ loc', (¬ ∃ root p, f.tree? loc'.1 = some root ∧ (root.getAt p).isSome ∧ loc'.2 = liftPath root p) →
          prov' loc' = none) →
      BuiltX reg ae (fixAll f) prov'
  | rootErr {f : Forest} {prov : Loc → Option Nat} {t : Nat} {root : Entry} (x : Err) :
      ae = true → BuiltX reg ae f prov → f.tree? t = some root →
      BuiltX reg ae (f.setTree t (root.addErr x)) prov
  | implicit {f : Forest} {prov : Loc → Option Nat} {t : Nat} {root e : Entry} {p : Path} (isInput : Bool) :
      BuiltX reg ae f prov → f.tree? t = some root → root.getAt p = some e →
      (if isInput = true then e.inp = [] else e.out = []) →
      BuiltX reg ae (f.setTree t (root.updateAt p (addImplicit isInput))) prov
  | congr {f f' : Forest} {prov : Loc → Option Nat} :
      BuiltX reg ae f prov → (∀ id, f'.tree? id = f.tree? id) → BuiltX reg ae f' prov
  /-- the deviated copy of the target is written back: children, stamp, name, errors as before -/
  | retouch {f : Forest} {prov : Loc → Option Nat} {t : Nat} {root node node' : Entry} {path : Path} :
      BuiltX reg ae f prov → f.tree? t = some root → root.getAt path = some node →
      node'.dir = node.dir → node'.inp = node.inp → node'.out = node.out →
      node'.d.ns = node.d.ns → node'.name = node.name → node'.d.errors = node.d.errors →
      BuiltX reg ae (f.setTree t (root.updateAt path fun _ => node')) prov
  /-- `deviate not-supported`: the target is unlinked from its parent -/
  | remove {f : Forest} {prov prov' : Loc → Option Nat} {t : Nat} {root : Entry} {path : Path} :
      BuiltX reg ae f prov → f.tree? t = some root → path ≠ [] → (root.getAt path).isSome = true →
      (∀ loc, Removed t path loc → prov' loc = none) →
      (∀ loc, ¬ Removed t path loc → prov' loc = prov loc) →
      BuiltX reg ae (f.setTree t (removeAt root path)) prov'

theorem Built'.toBuiltX {reg : Registry} {f : Forest} {prov : Loc → Option Nat} (h : Built' reg f prov) :
    BuiltX reg true f prov := by
  induction h with
  | init h => exact BuiltX.init h
  | graft _ h1 h2 h3 h4 h5 ih => exact BuiltX.graft ih h1 h2 h3 h4 h5
  | fix _ h1 h2 ih => exact BuiltX.fix ih h1 h2
  | rootErr x _ h1 ih => exact BuiltX.rootErr x rfl ih h1
  | implicit b _ h1 h2 h3 ih => exact BuiltX.implicit b ih h1 h2 h3
  | congr _ h1 ih => exact BuiltX.congr ih h1

theorem BuiltX.weaken {reg : Registry} {f : Forest} {prov : Loc → Option Nat} (h : BuiltX reg false f prov) :
    BuiltX reg true f prov := by
  induction h with
  | init h => exact BuiltX.init h
  | graft _ h1 h2 h3 h4 h5 ih => exact BuiltX.graft ih h1 h2 h3 h4 h5
  | fix _ h1 h2 ih => exact BuiltX.fix ih h1 h2
  | rootErr x hae _ h1 ih => cases hae
  | implicit b _ h1 h2 h3 ih => exact BuiltX.implicit b ih h1 h2 h3
  | congr _ h1 ih => exact BuiltX.congr ih h1
  | retouch _ h1 h2 h3 h4 h5 h6 h7 h8 ih => exact BuiltX.retouch ih h1 h2 h3 h4 h5 h6 h7 h8
  | remove _ h1 h2 h3 h4 h5 ih => exact BuiltX.remove ih h1 h2 h3 h4 h5

/-! ### the two deviation steps change no stamp at a surviving location -/

/-- `updateAt_next` for a function that keeps the names it is applied to (`Deviate.NameStable`). -/
theorem updateAt_next' (e : Entry) (s : Step) (p : Path) (g : Entry → Entry) (hs : Deviate.NameStable (s :: p) g)
    (s' : Step) :
    next (e.updateAt (s :: p) g) s' =
      if s' = s then (next e s).map (·.updateAt p g) else next e s' := by
  cases e with
  | mk d c i o =>
    cases s with
    | child k =>
      rw [Entry.updateAt]
      cases s' with
      | child k' =>
        simp only [next, Entry.child?, Entry.dir]
        rw [List.find?_map]
        have hcomp : ((fun x : Entry => x.name == k') ∘ fun x => if x.name == k then x.updateAt p g else x) =
            (fun x : Entry => x.name == k') := by
          funext x; simp only [Function.comp]
          rw [Deviate.childMap_name hs x]
        rw [hcomp]
        by_cases hk : k' = k
        · subst hk
          simp only [if_true]
          cases hf : c.find? (fun x => x.name == k') with
          | none => rfl
          | some x =>
            have : (x.name == k') = true := List.find?_some (p := fun x : Entry => x.name == k') hf
            have h2 : x.name = k' := eq_of_beq this
            simp [h2]
        · have hne : ¬ (Step.child k' = Step.child k) := by intro h; cases h; exact hk rfl
          simp only [hne, if_false]
          cases hf : c.find? (fun x => x.name == k') with
          | none => rfl
          | some x =>
            have h1 : (x.name == k') = true := List.find?_some (p := fun x : Entry => x.name == k') hf
            have : (x.name == k) = false := by
              rw [Bool.eq_false_iff]; intro h2
              exact hk ((eq_of_beq h1).symm.trans (eq_of_beq h2))
            have h3 : ¬ x.name = k := by intro h; simp [h] at this
            simp [h3]
      | input => simp [next, Entry.inp]
      | output => simp [next, Entry.out]
    | input =>
      rw [Entry.updateAt]
      cases s' with
      | child k' => simp [next, Entry.child?, Entry.dir]
      | input => simp [next, Entry.inp, List.head?_map]
      | output => simp [next, Entry.out]
    | output =>
      rw [Entry.updateAt]
      cases s' with
      | child k' => simp [next, Entry.child?, Entry.dir]
      | input => simp [next, Entry.inp]
      | output => simp [next, Entry.out, List.head?_map]

/-- Writing back a copy of the target that has the same children, stamp and name changes no stamp on
any walk. -/
theorem stampGo_retouch (node node' : Entry) (hd : node'.dir = node.dir) (hi : node'.inp = node.inp)
    (ho : node'.out = node.out) (hns : node'.d.ns = node.d.ns) (hname : node'.name = node.name) :
    ∀ (path : Path) (root : Entry) (q : Path) (acc : Option String), root.getAt path = some node →
      Entry.stampAt.go (root.updateAt path fun _ => node') q acc = Entry.stampAt.go root q acc := by
  intro path
  induction path with
  | nil =>
    intro root q acc h
    simp only [Entry.getAt, Option.some.injEq] at h; subst h
    rw [updateAt_nil]
    apply stampGo_congr_next
    intro s
    cases s with
    | child k => simp only [next, Entry.child?, hd]
    | input => simp only [next, hi]
    | output => simp only [next, ho]
  | cons s path ih =>
    intro root q acc h
    cases q with
    | nil => rw [stampGo_nil, stampGo_nil]
    | cons s' q =>
      have hst : Deviate.NameStable (s :: path) (fun _ => node') :=
        Deviate.NameStable.of_pathNamed
          (Deviate.pathNamed_step hname (Deviate.pathNamed_of_getAt (s :: path) root node h))
      rw [stampGo_cons, stampGo_cons, updateAt_next' root s path _ hst]
      by_cases hs : s' = s
      · subst hs
        simp only [if_true]
        rw [getAt_cons] at h
        cases hn : next root s' with
        | none => simp [hn] at h
        | some c =>
          simp only [hn, Option.bind_some] at h
          simp only [Option.map_some]
          have hcns : (c.updateAt path fun _ => node').d.ns = c.d.ns := by
            cases path with
            | nil =>
              simp only [Entry.getAt, Option.some.injEq] at h; subst h
              rw [updateAt_nil]; exact hns
            | cons a path => rw [Deviate.updateAt_d_of_ne_nil _ _ _ (by simp)]
          rw [hcns]
          exact ih c q _ h
      · simp only [hs, if_false]

theorem stampAt_retouch (root : Entry) (path : Path) (node node' : Entry) (h : root.getAt path = some node)
    (hd : node'.dir = node.dir) (hi : node'.inp = node.inp) (ho : node'.out = node.out)
    (hns : node'.d.ns = node.d.ns) (hname : node'.name = node.name) (q : Path) :
    (root.updateAt path fun _ => node').stampAt q = root.stampAt q := by
  unfold Entry.stampAt
  exact stampGo_retouch node node' hd hi ho hns hname path root q none h

theorem dropStep_sameCN (s : Step) : ∀ x, sameCN (Deviate.dropStep s x) x := by
  intro x; rw [sameCN, Deviate.dropStep_d]; exact ⟨rfl, rfl, rfl, rfl⟩

theorem dropStep_next {s s' : Step} (h : s' ≠ s) (pe : Entry) : next (Deviate.dropStep s pe) s' = next pe s' := by
  cases pe with
  | mk d c i o =>
    cases s with
    | child k =>
      cases s' with
      | child k' =>
        have hk : k' ≠ k := fun e => h (by rw [e])
        show (c.filter (·.name != k)).find? (·.name == k') = c.find? (·.name == k')
        rw [Deviate.find_filter_ne c hk]
      | input => rfl
      | output => rfl
    | input =>
      cases s' with
      | child k' => rfl
      | input => exact absurd rfl h
      | output => rfl
    | output =>
      cases s' with
      | child k' => rfl
      | input => rfl
      | output => exact absurd rfl h

/-- Unlinking the node at `path` changes no stamp on a walk to a location that is neither the removed
one nor below it. -/
theorem stampAt_removeAt (root : Entry) (path : Path) (hne : path ≠ []) (hex : (root.getAt path).isSome = true)
    (q : Path) (hq : ¬ path <+: q) : (removeAt root path).stampAt q = root.stampAt q := by
  obtain ⟨pd, s, rfl⟩ : ∃ pd s, path = pd ++ [s] :=
    ⟨path.dropLast, path.getLast hne, (List.dropLast_concat_getLast hne).symm⟩
  rw [Deviate.removeAt_eq]
  unfold Entry.stampAt
  by_cases hpre : pd <+: q
  · obtain ⟨r, rfl⟩ := hpre
    rw [ConfigNs.getAt_append] at hex
    cases hte : root.getAt pd with
    | none => simp [hte] at hex
    | some te =>
      rw [stampGo_updateAt_through root pd r _ (dropStep_sameCN s) te hte, stampGo_append root pd r none te hte]
      cases r with
      | nil => rw [stampGo_nil, stampGo_nil]
      | cons s' r =>
        have hs : s' ≠ s := by
          intro he; subst he
          exact hq ⟨r, by simp⟩
        rw [stampGo_cons, stampGo_cons, dropStep_next hs]
  · exact stampGo_updateAt_off root pd q _ (dropStep_sameCN s) hpre none

/-! ### provenance: the namespace is that of the placing module -/

/-- **C12's provenance theorem for `BuiltX`**: every location that some module's text placed (and that
no deviation removed) reports the namespace of that module (of the module it belongs to, for a
submodule) — through augments, `FixChoice` and deviations. -/
theorem builtX_namespace {reg : Registry} {ae : Bool} {f : Forest} {prov : Loc → Option Nat} (hb : BuiltX reg ae f prov) :
    ∀ (loc : Loc) (m : Nat), (f.tree? loc.1).isSome = true → prov loc = some m →
      namespaceAt reg f loc = ownerNs reg m := by
  induction hb with
  | init hfree =>
    intro loc m hsome hp
    obtain ⟨root, hroot⟩ := Option.isSome_iff_exists.mp hsome
    simp only [Option.some.injEq] at hp; subst hp
    rw [namespaceAt_tree reg _ loc root hroot]; unfold nsOfTree Entry.stampAt
    rw [stampGo_noStampBelow root loc.2 none (hfree _ _ hroot)]
  | @graft f prov prov' by_ t path root te a _ hroot hte hfree hnew hold ih =>
    intro loc m hsome hp
    obtain ⟨root', hroot'⟩ := Option.isSome_iff_exists.mp hsome
    by_cases hnb : NewBelow t path te a loc
    · rw [hnew loc hnb] at hp
      simp only [Option.some.injEq] at hp; subst hp
      obtain ⟨hl, k, r, hpath, hk, hak⟩ := hnb
      rw [tree?_setTree, if_pos hl, hroot] at hroot'
      simp only [Option.map_some, Option.some.injEq] at hroot'
      rw [namespaceAt_tree reg _ loc root' (by rw [tree?_setTree, if_pos hl, hroot]; simp [hroot'])]
      obtain ⟨v, hv⟩ := Option.isSome_iff_exists.mp hak
      have hvs : noStamp v = true := (noStampL_iff _).mp hfree v (List.mem_of_find?_eq_some hv)
      unfold nsOfTree
      rw [← hroot', hpath, graft_new root path te a _ k v r hte hk hv ((noStamp_iff v).mp hvs).2]
    · rw [hold loc hnb] at hp
      by_cases hl : loc.1 = t
      · have hroot0 : f.tree? loc.1 = some root := by rw [hl]; exact hroot
        have := ih loc m (by rw [hroot0]; rfl) hp
        rw [namespaceAt_tree reg _ loc root hroot0] at this
        rw [tree?_setTree, if_pos hl, hroot] at hroot'
        simp only [Option.map_some, Option.some.injEq] at hroot'
        rw [namespaceAt_tree reg _ loc root' (by rw [tree?_setTree, if_pos hl, hroot]; simp [hroot'])]
        rw [← this]; unfold nsOfTree
        rw [← hroot', graft_frame root path te a _ loc.2 hte (by
          rintro ⟨k, r, h1, h2, h3⟩; exact hnb ⟨hl, k, r, h1, h2, h3⟩)]
      · rw [tree?_setTree, if_neg hl] at hroot'
        have := ih loc m (by rw [hroot']; rfl) hp
        rw [namespaceAt_tree reg _ loc root' hroot'] at this
        rw [namespaceAt_tree reg _ loc root' (by rw [tree?_setTree, if_neg hl]; exact hroot')]
        exact this
  | @fix f prov prov' _ hkeep hnone ih =>
    intro loc m hsome hp
    obtain ⟨root', hroot'⟩ := Option.isSome_iff_exists.mp hsome
    by_cases hex : ∃ root p, f.tree? loc.1 = some root ∧ (root.getAt p).isSome ∧ loc.2 = liftPath root p
    · obtain ⟨root, p, hroot, hsome', hlp⟩ := hex
      have hp' : prov (loc.1, p) = some m := by
        rw [← hkeep loc.1 root p hroot hsome', ← hlp]; exact hp
      have := ih (loc.1, p) m (by simp only; rw [hroot]; rfl) hp'
      rw [namespaceAt_tree reg _ (loc.1, p) root hroot] at this
      rw [tree?_fixAll, hroot] at hroot'
      simp only [Option.map_some, Option.some.injEq] at hroot'
      rw [namespaceAt_tree reg _ loc root' (by rw [tree?_fixAll, hroot]; simp [hroot'])]
      rw [← this]; unfold nsOfTree
      rw [← hroot', hlp, stampAt_fix]
    · rw [hnone loc hex] at hp; cases hp
  | @rootErr f prov t root x _ _ hroot ih =>
    intro loc m hsome hp
    rw [namespaceAt_setTree_same reg f t root _ hroot (stampAt_addErr root x)]
    apply ih loc m _ hp
    rw [tree?_setTree] at hsome
    split at hsome
    · rename_i hl; rw [hl, hroot]; rfl
    · exact hsome
  | @implicit f prov t root e p b _ hroot hg hb ih =>
    intro loc m hsome hp
    rw [namespaceAt_setTree_same reg f t root _ hroot (stampAt_addImplicit root p e b hg hb)]
    apply ih loc m _ hp
    rw [tree?_setTree] at hsome
    split at hsome
    · rename_i hl; rw [hl, hroot]; rfl
    · exact hsome
  | @congr f f' prov _ heq ih =>
    intro loc m hsome hp
    rw [namespaceAt_congr reg f f' heq]
    exact ih loc m (by rw [← heq]; exact hsome) hp
  | @retouch f prov t root node node' path _ hroot hg hd hi ho hns hname _ ih =>
    intro loc m hsome hp
    rw [namespaceAt_setTree_same reg f t root _ hroot (stampAt_retouch root path node node' hg hd hi ho hns hname)]
    apply ih loc m _ hp
    rw [tree?_setTree] at hsome
    split at hsome
    · rename_i hl; rw [hl, hroot]; rfl
    · exact hsome
  | @remove f prov prov' t root path _ hroot hne hex hgone hkeep ih =>
    intro loc m hsome hp
    have hsome0 : (f.tree? loc.1).isSome = true := by
      rw [tree?_setTree] at hsome
      split at hsome
      · rename_i hl; rw [hl, hroot]; rfl
      · exact hsome
    by_cases hr : Removed t path loc
    · rw [hgone loc hr] at hp; cases hp
    · rw [hkeep loc hr] at hp
      have := ih loc m hsome0 hp
      rw [← this]
      by_cases hl : loc.1 = t
      · have hroot0 : f.tree? loc.1 = some root := by rw [hl]; exact hroot
        rw [namespaceAt_tree reg f loc root hroot0,
          namespaceAt_tree reg _ loc (removeAt root path) (by rw [tree?_setTree, if_pos hl, hroot]; rfl)]
        unfold nsOfTree
        rw [stampAt_removeAt root path hne hex loc.2 (fun hpre => hr ⟨hl, hpre⟩)]
      · unfold namespaceAt
        rw [tree?_setTree, if_neg hl]

/-! ### an error-free run records no error on a root -/

/-- No visible tree of the forest has an error recorded on its root entry. -/
def RootsClean (f : Forest) : Prop := ∀ id t, f.tree? id = some t → t.d.errors = []

theorem rootsClean_of_setTree (f : Forest) (t : Nat) (root r' : Entry) (hroot : f.tree? t = some root)
    (himp : r'.d.errors = [] → root.d.errors = []) (h : RootsClean (f.setTree t r')) : RootsClean f := by
  intro id tr htr
  by_cases hid : id = t
  · subst hid
    rw [hroot] at htr; cases htr
    exact himp (h id r' (by rw [tree?_setTree, if_pos rfl, hroot]; rfl))
  · exact h id tr (by rw [tree?_setTree, if_neg hid]; exact htr)

theorem updateAt_root_errors (root : Entry) (path : Path) (g : Entry → Entry)
    (hg : (g root).d.errors = [] → root.d.errors = []) (h : (root.updateAt path g).d.errors = []) :
    root.d.errors = [] := by
  cases path with
  | nil => rw [updateAt_nil] at h; exact hg h
  | cons s p => rw [Deviate.updateAt_d_of_ne_nil _ _ _ (by simp)] at h; exact h

theorem addImplicit_d (b : Bool) (e : Entry) : (addImplicit b e).d = e.d := by
  cases e; cases b <;> rfl

/-- **On an error-free run no error was recorded on a root.**  Errors recorded on a root entry are
never removed by a later step (a graft on the root appends, everything else leaves the root's own error
list alone), so a forest built with `rootErr` steps allowed whose visible roots are error-free at the
end was built without any. -/
theorem builtX_clean {reg : Registry} {f : Forest} {prov : Loc → Option Nat} (hb : BuiltX reg true f prov) :
    RootsClean f → BuiltX reg false f prov := by
  induction hb with
  | init h => intro _; exact BuiltX.init h
  | @graft f prov prov' by_ t path root te a _ h1 h2 h3 h4 h5 ih =>
    intro hc
    refine BuiltX.graft (ih (rootsClean_of_setTree f t root _ h1 ?_ hc)) h1 h2 h3 h4 h5
    intro he
    refine updateAt_root_errors root path _ ?_ he
    intro hm
    obtain ⟨xs, hxs⟩ := Tree.merge_root_errors root (some (ownerNs reg by_)) a
    rw [hxs] at hm
    simp only [List.append_eq_nil_iff] at hm
    exact hm.1.1
  | @fix f prov prov' _ h1 h2 ih =>
    intro hc
    refine BuiltX.fix (ih ?_) h1 h2
    intro id t ht
    have := hc id (fixChoice t) (by rw [tree?_fixAll, ht]; rfl)
    rw [fixChoice_d] at this; exact this
  | @rootErr f prov t root x _ _ hroot ih =>
    intro hc
    have := hc t (root.addErr x) (by rw [tree?_setTree, if_pos rfl, hroot]; rfl)
    cases root with
    | mk d c i o => simp [Entry.addErr, Entry.withD, Entry.d] at this
  | @implicit f prov t root e p b _ hroot hg hb ih =>
    intro hc
    refine BuiltX.implicit b (ih (rootsClean_of_setTree f t root _ hroot ?_ hc)) hroot hg hb
    intro he
    exact updateAt_root_errors root p _ (by rw [addImplicit_d]; exact id) he
  | @congr f f' prov _ heq ih =>
    intro hc
    exact BuiltX.congr (ih (fun id t ht => hc id t (by rw [heq]; exact ht))) heq
  | @retouch f prov t root node node' path _ hroot hg hd hi ho hns hname herr ih =>
    intro hc
    refine BuiltX.retouch (ih (rootsClean_of_setTree f t root _ hroot ?_ hc)) hroot hg hd hi ho hns hname herr
    intro he
    cases path with
    | nil =>
      simp only [Entry.getAt, Option.some.injEq] at hg; subst hg
      rw [updateAt_nil, herr] at he; exact he
    | cons s p => rw [Deviate.updateAt_d_of_ne_nil _ _ _ (by simp)] at he; exact he
  | @remove f prov prov' t root path _ hroot hne hex hgone hkeep ih =>
    intro hc
    refine BuiltX.remove (ih (rootsClean_of_setTree f t root _ hroot ?_ hc)) hroot hne hex hgone hkeep
    intro he
    obtain ⟨pd, s, rfl⟩ : ∃ pd s, path = pd ++ [s] :=
      ⟨path.dropLast, path.getLast hne, (List.dropLast_concat_getLast hne).symm⟩
    rw [Deviate.removeAt_eq] at he
    exact updateAt_root_errors root pd _ (by rw [Deviate.dropStep_d]; exact id) he

/-! ### the deviation stage -/

open Goyang.Spec.Find (Grown GrowStep) in
theorem builtX_grown {reg : Registry} {ae : Bool} {prov : Loc → Option Nat} {t : Nat} {root root' : Entry}
    (hg : Grown root root') :
    ∀ (f : Forest), BuiltX reg ae f prov → f.tree? t = some root → BuiltX reg ae (f.setTree t root') prov := by
  induction hg with
  | refl e =>
    intro f hb ht
    exact BuiltX.congr hb (tree?_setTree_self f t e ht)
  | @step a b c hs _ ih =>
    intro f hb ht
    have h1 : BuiltX reg ae (f.setTree t b) prov := by
      cases hs with
      | input p e hge _ hi => exact BuiltX.implicit (p := p) (e := e) true hb ht hge (by simpa using hi)
      | output p e hge _ ho => exact BuiltX.implicit (p := p) (e := e) false hb ht hge (by simpa using ho)
    have h2 : (f.setTree t b).tree? t = some b := by rw [tree?_setTree, if_pos rfl, ht]; rfl
    exact BuiltX.congr (ih _ h1 h2) (fun id => (tree?_setTree_twice f t b c id).symm)

/-- `Find` keeps the forest `BuiltX` with the same provenance, whatever it is asked. -/
theorem builtX_find {reg : Registry} {f : Forest} {prov : Loc → Option Nat} (hb : BuiltX reg true f prov)
    (start : Loc) (ctx : Nat) (name : String) : BuiltX reg true (find reg f start ctx name).2 prov := by
  rcases Find.frame reg f start ctx name with h | ⟨t, root, root', hr, hg, h⟩ | ⟨_, h⟩
  · rw [h]; exact hb
  · rw [h]; exact builtX_grown hg f hb hr
  · rw [h]
    unfold Goyang.Spec.Find.withPrefixError
    split
    · rename_i root hroot; exact BuiltX.rootErr _ rfl hb hroot
    · exact hb

/-- One deviate statement keeps the forest `BuiltX`: the deviated copy is written back (`retouch`),
and unlinked when it is a `not-supported` (`remove`). -/
theorem innerStep_builtX (reg : Registry) (opts : Opts) (m : Mod) (t : Nat) (path : Path)
    (acc : Forest × Entry × Bool × List Err) (ds : String × Entry)
    (hb : ∃ prov, BuiltX reg true acc.1 prov) (ht : Deviate.TargetInv t path acc)
    (hn : Deviate.PathNamed path acc.2.1) :
    ∃ prov, BuiltX reg true (Deviate.innerStep opts m t path acc ds).1 prov := by
  classical
  obtain ⟨f, node, detached, errs⟩ := acc
  obtain ⟨prov, hb⟩ := hb
  rw [Deviate.innerStep_forest]
  cases detached with
  | true => exact ⟨prov, hb⟩
  | false =>
    simp only [Bool.false_eq_true, if_false]
    have h1 := ht.1 rfl
    simp only at h1
    cases hroot : f.tree? t with
    | none => exact ⟨prov, hb⟩
    | some root =>
      rw [hroot] at h1
      simp only [Option.bind_some] at h1
      simp only []
      generalize hr : applyOneDeviate opts m.stmt ds.1 ds.2 (!path.isEmpty) node = r
      have hun := Deviate.applyOneDeviate_untouched opts m.stmt ds.1 ds.2 (!path.isEmpty) node
      have hnm := Deviate.applyOneDeviate_name opts m.stmt ds.1 ds.2 (!path.isEmpty) node
      rw [hr] at hun hnm
      simp only [Deviate.untouched, Prod.mk.injEq] at hun
      obtain ⟨u1, u2, u3, _, _, _, _, _, _, u10, u11, _⟩ := hun
      have hb1 : BuiltX reg true (f.setTree t (root.updateAt path fun _ => r.1)) prov :=
        BuiltX.retouch hb hroot h1 u1 u2 u3 u10 hnm u11
      cases hrem : r.2.1 with
      | false => simp only [Bool.false_eq_true, if_false]; exact ⟨prov, hb1⟩
      | true =>
        simp only [if_true]
        have hp : (!path.isEmpty) = true := by
          have := Deviate.applyOneDeviate_remove opts m.stmt ds.1 ds.2 (!path.isEmpty) node (by rw [hr]; exact hrem)
          exact this.1
        have hne : path ≠ [] := by intro he; simp [he] at hp
        have hst : Deviate.NameStable path (fun _ => r.1) := by
          apply Deviate.NameStable.of_pathNamed
          exact Deviate.pathNamed_step hnm hn
        have hex : ((root.updateAt path fun _ => r.1).getAt path).isSome = true := by
          rw [Deviate.getAt_updateAt_self _ path hst root, h1]; rfl
        have h2 : (f.setTree t (root.updateAt path fun _ => r.1)).tree? t = some (root.updateAt path fun _ => r.1) := by
          rw [tree?_setTree, if_pos rfl, hroot]; rfl
        refine ⟨fun loc => if Removed t path loc then none else prov loc, ?_⟩
        refine BuiltX.congr (BuiltX.remove hb1 h2 hne hex (fun loc h => by simp only [h, if_true])
          (fun loc h => by simp only [h, if_false])) ?_
        intro id
        exact (tree?_setTree_twice f t _ _ id).symm

theorem innerFold_builtX (reg : Registry) (opts : Opts) (m : Mod) (t : Nat) (path : Path) (ds : List (String × Entry)) :
    ∀ (acc : Forest × Entry × Bool × List Err), (∃ prov, BuiltX reg true acc.1 prov) → Deviate.TargetInv t path acc →
      Deviate.PathNamed path acc.2.1 →
      ∃ prov, BuiltX reg true (ds.foldl (Deviate.innerStep opts m t path) acc).1 prov := by
  induction ds with
  | nil => intro acc h _ _; exact h
  | cons d ds ih =>
    intro acc hb ht hn
    simp only [List.foldl_cons]
    apply ih
    · exact innerStep_builtX reg opts m t path acc d hb ht hn
    · exact Deviate.innerStep_target opts m t path acc d hn ht
    · rw [Deviate.innerStep_node]
      exact Deviate.pathNamed_step (Deviate.nodeStep_name _ _ _ _ _) hn

theorem outerStep_builtX (reg : Registry) (opts : Opts) (m : Mod) (acc : Forest × List Err)
    (dv : Stmt × List (String × Entry)) (hb : ∃ prov, BuiltX reg true acc.1 prov) :
    ∃ prov, BuiltX reg true (Deviate.outerStep reg opts m acc dv).1 prov := by
  obtain ⟨f, errs⟩ := acc
  obtain ⟨dstmt, deviates⟩ := dv
  obtain ⟨prov, hb⟩ := hb
  have hfind := builtX_find hb (m.seq, []) m.seq dstmt.arg
  unfold Deviate.outerStep
  dsimp only
  generalize find reg f (m.seq, []) m.seq dstmt.arg = r at hfind
  obtain ⟨target, f'⟩ := r
  dsimp only at hfind ⊢
  split
  · exact ⟨prov, hfind⟩
  · rename_i t path
    split
    · exact ⟨prov, hfind⟩
    · rename_i node0 hn0
      dsimp only
      have key := innerFold_builtX reg opts m t path deviates (f', node0, false, errs) ⟨prov, hfind⟩
        ⟨fun _ => hn0, fun h => by simp at h⟩
        (by
          cases hroot : f'.tree? t with
          | none => simp [hroot] at hn0
          | some root =>
            rw [hroot] at hn0
            exact Deviate.pathNamed_of_getAt path root node0 hn0)
      exact key

/-- All deviations of one module. -/
theorem applyDeviations_builtX (reg : Registry) (opts : Opts) (m : Mod) (devs : List (Stmt × List (String × Entry)))
    (f : Forest) (hb : ∃ prov, BuiltX reg true f prov) :
    ∃ prov, BuiltX reg true (applyDeviations reg opts m devs f).1 prov := by
  rw [Deviate.applyDeviations_eq]
  refine Tree.foldl_inv (fun acc : Forest × List Err => ∃ prov, BuiltX reg true acc.1 prov) _ devs (f, []) hb ?_
  intro acc dv _ h
  exact outerStep_builtX reg opts m acc dv h

/-- **The deviation stage of `processAll` keeps the forest `BuiltX`** (every registry, option set,
plugged-in stage and start forest). -/
theorem devStage_builtX (reg : Registry) (opts : Opts) (plug : Plug) (f0 : Forest)
    (hb : ∃ prov, BuiltX reg true f0 prov) :
    ∃ prov, BuiltX reg true (Tree.devStage reg opts plug f0).1 prov := by
  unfold Tree.devStage
  refine Tree.foldl_inv (fun acc : Forest × List Err × List String => ∃ prov, BuiltX reg true acc.1 prov) _ _ _ hb ?_
  rintro ⟨f, errs, done⟩ m _ hP
  dsimp only at hP ⊢
  split
  · exact hP
  · dsimp only
    exact applyDeviations_builtX reg opts m _ f hP

/-- **The final forest of `processAll`, whenever the run reaches the augment phase, is `BuiltX`** —
for every input, clean or not. -/
theorem final_builtX (reg : Registry) (opts : Opts) (plug : Plug) :
    ∃ prov, BuiltX reg true (Tree.devStage reg opts plug (Tree.preDev reg opts plug).forest).1 prov := by
  obtain ⟨prov, hb⟩ := (bi_preDev reg opts plug).built
  exact devStage_builtX reg opts plug _ ⟨prov, Built'.toBuiltX hb⟩

/-- **The forest of an error-free `processAll` run is `BuiltX` without any root error step.** -/
theorem processAll_builtX_clean (reg : Registry) (opts : Opts) (plug : Plug)
    (hclean : (processAll reg opts plug).errors = []) :
    ∃ prov, BuiltX reg false (processAll reg opts plug).forest prov := by
  obtain ⟨prov, hb⟩ := final_builtX reg opts plug
  obtain ⟨_, _, _, _, h5⟩ := Tree.processAll_clean reg opts plug hclean
  have hne := Tree.process_clean_no_errors reg opts plug hclean
  rw [h5] at hne ⊢
  refine ⟨prov, builtX_clean hb ?_⟩
  intro id t ht
  have := Tree.forestAll_tree? _ id t hne ht
  exact Tree.noErrors_own t this

/-! ### what a deviate statement does to the config of its target -/

section Cfg
open Goyang.Lemmas.Deviate

/-- The explicit config of a node. -/
def cfg (n : Entry) : Tri := n.d.config

theorem cfg_stMand (sd : EData) (n : Entry) : cfg (stMand sd n) = cfg n := by
  cases n; unfold stMand; split <;> rfl
theorem cfg_stUnits (sd : EData) (n : Entry) : cfg (stUnits sd n) = cfg n := by
  cases n; unfold stUnits; split <;> rfl
theorem cfg_stType (sd : EData) (n : Entry) : cfg (stType sd n) = cfg n := by
  cases n; unfold stType; split <;> rfl
theorem cfg_stMandDel (sd : EData) (n : Entry) : cfg (stMandDel sd n) = cfg n := by
  cases n; unfold stMandDel; split <;> rfl
theorem cfg_stDefAR (ms : Stmt) (a : Bool) (sd : EData) (n : Entry) : cfg (stDefAR ms a sd n).1 = cfg n := by
  cases n; unfold stDefAR; repeat' split
  all_goals rfl
theorem cfg_stDefDel (ms : Stmt) (sd : EData) (n : Entry) : cfg (stDefDel ms sd n).1 = cfg n := by
  cases n; unfold stDefDel; repeat' split
  all_goals rfl
theorem cfg_setMin (n : Entry) (v : Nat) : cfg (setMin n v) = cfg n := by cases n; rfl
theorem cfg_setMax (n : Entry) (v : Nat) : cfg (setMax n v) = cfg n := by cases n; rfl

theorem cfg_stCfg (sd : EData) (n : Entry) : cfg (stCfg sd n) = if sd.config != .unset then sd.config else cfg n := by
  cases n; unfold stCfg; split <;> rfl
theorem cfg_stCfgDel (sd : EData) (n : Entry) : cfg (stCfgDel sd n) = if sd.config != .unset then .unset else cfg n := by
  cases n; unfold stCfgDel; split <;> rfl

/-- **The config a deviate statement leaves on its target**: `add` / `replace` with a config
substatement write it; `delete` with one erases the node's config statement; everything else — and a
statement that reports an error — leaves the config alone. -/
theorem applyOneDeviate_config (opts : Opts) (ms : Stmt) (kind : String) (spec : Entry) (hp : Bool) (node : Entry) :
    (applyOneDeviate opts ms kind spec hp node).1.d.config =
      match kindOf kind with
      | .add | .replace => if spec.d.config != .unset then spec.d.config else node.d.config
      | .delete => if spec.d.config != .unset then .unset else node.d.config
      | _ => node.d.config := by
  rw [applyOneDeviate_eq_staged]
  show cfg (staged opts ms kind spec hp node).1 = _
  unfold staged
  cases kindOf kind with
  | add =>
    simp only [addReplace]
    generalize hR : (if spec.d.config != .unset then spec.d.config else node.d.config) = R
    repeat' split
    all_goals simp only [cfg_stMand, cfg_stUnits, cfg_stType, cfg_stDefAR, cfg_setMin, cfg_setMax, cfg_stCfg]
    all_goals exact hR
  | replace =>
    simp only [addReplace]
    generalize hR : (if spec.d.config != .unset then spec.d.config else node.d.config) = R
    repeat' split
    all_goals simp only [cfg_stMand, cfg_stUnits, cfg_stType, cfg_stDefAR, cfg_setMin, cfg_setMax, cfg_stCfg]
    all_goals exact hR
  | delete =>
    have h3 : cfg (delN3 ms spec node) = if spec.d.config != .unset then .unset else cfg node := by
      simp only [delN3, cfg_stMandDel, cfg_stDefDel, cfg_stCfgDel]
    rw [delete_eq]
    simp only []
    generalize hR : (if spec.d.config != .unset then Tri.unset else node.d.config) = R
    rw [show cfg node = node.d.config from rfl, hR] at h3
    repeat' split
    all_goals simp only [h3, cfg_setMin, cfg_setMax]
  | notSupported => simp only [notSupported]; split <;> rfl
  | other => rfl

end Cfg

/-! ### read-only at a node whose config a deviation wrote -/

theorem configsAlong_last : ∀ (p : Path) (root e : Entry), root.getAt p = some e →
    ∃ init, configsAlong root p = init ++ [ck e] := by
  intro p
  induction p with
  | nil =>
    intro root e h
    simp only [Entry.getAt, Option.some.injEq] at h; subst h
    exact ⟨[], rfl⟩
  | cons s p ih =>
    intro root e h
    rw [getAt_cons] at h
    cases hn : next root s with
    | none => simp [hn] at h
    | some c =>
      simp only [hn, Option.bind_some] at h
      obtain ⟨init, hi⟩ := ih c e h
      refine ⟨ck root :: init, ?_⟩
      rw [configsAlong]
      simp only [hn, hi, List.cons_append]

/-- `ReadOnly()` of a node that carries an explicit config (and is no rpc output) is that config. -/
theorem readOnlyAt_explicit (root : Entry) (p : Path) (e : Entry) (hg : root.getAt p = some e)
    (hc : e.d.config ≠ .unset) (hk : e.d.kind ≠ .output) : root.readOnlyAt p = (e.d.config == .false_) := by
  rw [readOnlyAt_exact]
  obtain ⟨init, hi⟩ := configsAlong_last p root e hg
  rw [hi]
  unfold readOnlyExact
  have hd : decisive (ck e) = true := by
    simp only [decisive, ck, Bool.or_eq_true, bne_iff_ne, ne_eq]
    exact Or.inr hc
  simp only [List.reverse_append, List.reverse_cons, List.reverse_nil, List.nil_append, List.singleton_append,
    List.find?_cons, hd, Option.map_some, Option.getD_some]
  simp only [verdict, ck, kind_beq, hk, decide_false, Bool.false_or]

end Goyang.Lemmas.ConfigNsDev
