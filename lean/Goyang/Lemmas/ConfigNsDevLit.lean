import Goyang.Lemmas.ConfigNsDev
import Goyang.Lemmas.ConfigNsBuilt
/-
C12: the literal class for runs WITH deviations.

`BuiltD reg` is `Spec.ConfigNs.Built` (conversion / graft / FixChoice) with the three steps the deviation
stage takes on an error-free run, each with a stated provenance — no `congr`, no `rootErr`:
  `implicit` — `Entry.Find` creates the input / output an rpc / action does not have (the path of a
               deviation names it): the created node is placed by whoever placed the rpc; every other
               location keeps its placer;
  `retouch`  — the deviated copy of the target is written back (children, stamp, name, errors as before);
  `remove`   — `deviate not-supported` unlinks the target: the removed locations lose their placer.

Proved here: `builtD_namespace` (the provenance theorem, the created input / output included);
`builtD_store` (the class is closed under storing a tree back unchanged — the literal forest, so the
`congr` escape is not needed); `devStage_bdv` (the deviation stage keeps "`BuiltD`, or some root carries
an error", every input); `processAll_builtD_clean` (the forest of an error-free run — deviations or not —
is `BuiltD`).
-/
set_option linter.unusedVariables false
set_option linter.unusedSimpArgs false
namespace Goyang.Lemmas.ConfigNsDevLit
open Goyang.Model Goyang.Spec.ConfigNs Goyang.Lemmas.ConfigNs Goyang.Lemmas.Bridge
open Goyang.Lemmas.ConfigNsDev (Removed)
open Goyang.Lemmas.ConfigNsBuilt (Dirty setTree_setTree setTree_comm fixAll_setTree dirty_setTree dirty_find)
open Goyang.Spec.Find (addImplicit Grown GrowStep)

/-- The step from an rpc / action to its input (`true`) or output (`false`). -/
def ioStep (isInput : Bool) : Step := if isInput then .input else .output

/-- `Spec.ConfigNs.Built` with the steps of the deviation stage of an error-free run. -/
inductive BuiltD (reg : Registry) : Forest → (Loc → Option Nat) → Prop
  | init {f : Forest} :
      (∀ id t, f.tree? id = some t → noStampBelow t = true) →
      BuiltD reg f (fun loc => some loc.1)
  | graft {f : Forest} {prov prov' : Loc → Option Nat} {by_ t : Nat} {path : Path} {root te a : Entry} :
      BuiltD reg f prov →
      f.tree? t = some root → root.getAt path = some te →
      noStampL a.dir = true →
      (∀ loc, NewBelow t path te a loc → prov' loc = some by_) →
      (∀ loc, ¬ NewBelow t path te a loc → prov' loc = prov loc) →
      BuiltD reg (f.setTree t (root.updateAt path fun te => te.merge (some (ownerNs reg by_)) a)) prov'
  | fix {f : Forest} {prov prov' : Loc → Option Nat} :
      BuiltD reg f prov →
      (∀ id root p, f.tree? id = some root → (root.getAt p).isSome →
          prov' (id, liftPath root p) = prov (id, p)) →
      (∀ loc', (¬ ∃ root p, f.tree? loc'.1 = some root ∧ (root.getAt p).isSome ∧ loc'.2 = liftPath root p) →
          prov' loc' = none) →
      BuiltD reg (fixAll f) prov'
  /-- `Find` creates the absent input / output of the rpc / action at `p`: placed by the rpc's placer -/
  | implicit {f : Forest} {prov prov' : Loc → Option Nat} {t : Nat} {root e : Entry} {p : Path} (isInput : Bool) :
      BuiltD reg f prov → f.tree? t = some root → root.getAt p = some e → e.d.isRpc = true →
      (if isInput = true then e.inp = [] else e.out = []) →
      prov' (t, p ++ [ioStep isInput]) = prov (t, p) →
      (∀ loc, loc ≠ (t, p ++ [ioStep isInput]) → prov' loc = prov loc) →
      BuiltD reg (f.setTree t (root.updateAt p (addImplicit isInput))) prov'
  /-- the deviated copy of the target is written back: children, stamp, name, errors as before -/
  | retouch {f : Forest} {prov : Loc → Option Nat} {t : Nat} {root node node' : Entry} {path : Path} :
      BuiltD reg f prov → f.tree? t = some root → root.getAt path = some node →
      node'.dir = node.dir → node'.inp = node.inp → node'.out = node.out →
      node'.d.ns = node.d.ns → node'.name = node.name → node'.d.errors = node.d.errors →
      BuiltD reg (f.setTree t (root.updateAt path fun _ => node')) prov
  /-- `deviate not-supported`: the target is unlinked from its parent -/
  | remove {f : Forest} {prov prov' : Loc → Option Nat} {t : Nat} {root : Entry} {path : Path} :
      BuiltD reg f prov → f.tree? t = some root → path ≠ [] → (root.getAt path).isSome = true →
      (∀ loc, Removed t path loc → prov' loc = none) →
      (∀ loc, ¬ Removed t path loc → prov' loc = prov loc) →
      BuiltD reg (f.setTree t (removeAt root path)) prov'

theorem Built.toBuiltD {reg : Registry} {f : Forest} {prov : Loc → Option Nat} (h : Built reg f prov) :
    BuiltD reg f prov := by
  induction h with
  | init h => exact BuiltD.init h
  | graft _ h1 h2 h3 h4 h5 ih => exact BuiltD.graft ih h1 h2 h3 h4 h5
  | fix _ h1 h2 ih => exact BuiltD.fix ih h1 h2

/-- Every `BuiltD` forest is `BuiltX` without root errors (for some provenance: `BuiltX` does not move
the placer of a created input / output). -/
theorem BuiltD.toBuiltX {reg : Registry} {f : Forest} {prov : Loc → Option Nat} (h : BuiltD reg f prov) :
    ∃ prov0, ConfigNsDev.BuiltX reg false f prov0 := by
  classical
  induction h with
  | init h => exact ⟨_, .init h⟩
  | @graft f prov prov' by_ t path root te a _ h1 h2 h3 h4 h5 ih =>
    obtain ⟨p0, ih⟩ := ih
    exact ⟨fun loc => if NewBelow t path te a loc then some by_ else p0 loc,
      .graft ih h1 h2 h3 (fun loc h => by simp only [h, if_true]) (fun loc h => by simp only [h, if_false])⟩
  | @fix f prov prov' _ h1 h2 ih =>
    obtain ⟨p0, ih⟩ := ih
    refine ⟨fun loc' => match f.tree? loc'.1 with
      | some root => if h : ∃ p, (root.getAt p).isSome ∧ loc'.2 = liftPath root p then p0 (loc'.1, h.choose) else none
      | none => none, .fix ih ?_ ?_⟩
    · intro id root p hr hs
      simp only [hr]
      have hex : ∃ p', (root.getAt p').isSome ∧ liftPath root p = liftPath root p' := ⟨p, hs, rfl⟩
      rw [dif_pos hex]
      have hsp := hex.choose_spec
      rw [← liftPath_inj p root hex.choose hs hsp.1 hsp.2]
    · intro loc' hno
      split
      · rename_i root hr
        rw [dif_neg]
        rintro ⟨p, hs, hl⟩
        exact hno ⟨root, p, hr, hs, hl⟩
      · rfl
  | implicit b _ h1 h2 _ h3 _ _ ih => obtain ⟨p0, ih⟩ := ih; exact ⟨p0, .implicit b ih h1 h2 h3⟩
  | retouch _ h1 h2 h3 h4 h5 h6 h7 h8 ih => obtain ⟨p0, ih⟩ := ih; exact ⟨p0, .retouch ih h1 h2 h3 h4 h5 h6 h7 h8⟩
  | @remove f prov prov' t root path _ h1 h2 h3 h4 h5 ih =>
    obtain ⟨p0, ih⟩ := ih
    exact ⟨fun loc => if Removed t path loc then none else p0 loc,
      .remove ih h1 h2 h3 (fun loc h => by simp only [h, if_true]) (fun loc h => by simp only [h, if_false])⟩

/-! ### storing a tree back unchanged: the literal forest -/

theorem builtD_store {reg : Registry} {f : Forest} {prov : Loc → Option Nat} (hb : BuiltD reg f prov) :
    ∀ (t : Nat) (root : Entry), f.tree? t = some root → BuiltD reg (f.setTree t root) prov := by
  induction hb with
  | @init f h =>
    intro t root ht
    refine BuiltD.init ?_
    intro id tr htr
    rw [tree?_setTree_self f t root ht] at htr
    exact h id tr htr
  | @graft f prov prov' by_ t0 path root0 te a hb0 h1 h2 h3 h4 h5 ih =>
    intro t root ht
    by_cases htt : t = t0
    · subst htt
      rw [tree?_setTree, if_pos rfl, h1] at ht
      simp only [Option.map_some, Option.some.injEq] at ht
      subst ht
      rw [setTree_setTree]
      exact BuiltD.graft hb0 h1 h2 h3 h4 h5
    · rw [tree?_setTree, if_neg htt] at ht
      rw [setTree_comm f t0 t _ _ (Ne.symm htt)]
      exact BuiltD.graft (ih t root ht) (by rw [tree?_setTree, if_neg (Ne.symm htt)]; exact h1) h2 h3 h4 h5
  | @fix f prov prov' hb0 h1 h2 ih =>
    intro t root ht
    rw [tree?_fixAll] at ht
    cases h0 : f.tree? t with
    | none => simp [h0] at ht
    | some root0 =>
      simp only [h0, Option.map_some, Option.some.injEq] at ht
      subst ht
      rw [fixAll_setTree]
      have hsame := tree?_setTree_self f t root0 h0
      refine BuiltD.fix (ih t root0 h0) ?_ ?_
      · intro id root p hr; rw [hsame] at hr; exact h1 id root p hr
      · intro loc' hno
        apply h2 loc'
        rintro ⟨root, p, hr, hs, hl⟩
        exact hno ⟨root, p, by rw [hsame]; exact hr, hs, hl⟩
  | @implicit f prov prov' t0 root0 e p b hb0 h1 h2 hr h3 h4 h5 ih =>
    intro t root ht
    by_cases htt : t = t0
    · subst htt
      rw [tree?_setTree, if_pos rfl, h1] at ht
      simp only [Option.map_some, Option.some.injEq] at ht
      subst ht
      rw [setTree_setTree]
      exact BuiltD.implicit b hb0 h1 h2 hr h3 h4 h5
    · rw [tree?_setTree, if_neg htt] at ht
      rw [setTree_comm f t0 t _ _ (Ne.symm htt)]
      exact BuiltD.implicit b (ih t root ht) (by rw [tree?_setTree, if_neg (Ne.symm htt)]; exact h1) h2 hr h3 h4 h5
  | @retouch f prov t0 root0 node node' path hb0 h1 h2 h3 h4 h5 h6 h7 h8 ih =>
    intro t root ht
    by_cases htt : t = t0
    · subst htt
      rw [tree?_setTree, if_pos rfl, h1] at ht
      simp only [Option.map_some, Option.some.injEq] at ht
      subst ht
      rw [setTree_setTree]
      exact BuiltD.retouch hb0 h1 h2 h3 h4 h5 h6 h7 h8
    · rw [tree?_setTree, if_neg htt] at ht
      rw [setTree_comm f t0 t _ _ (Ne.symm htt)]
      exact BuiltD.retouch (ih t root ht) (by rw [tree?_setTree, if_neg (Ne.symm htt)]; exact h1) h2 h3 h4 h5 h6 h7 h8
  | @remove f prov prov' t0 root0 path hb0 h1 h2 h3 h4 h5 ih =>
    intro t root ht
    by_cases htt : t = t0
    · subst htt
      rw [tree?_setTree, if_pos rfl, h1] at ht
      simp only [Option.map_some, Option.some.injEq] at ht
      subst ht
      rw [setTree_setTree]
      exact BuiltD.remove hb0 h1 h2 h3 h4 h5
    · rw [tree?_setTree, if_neg htt] at ht
      rw [setTree_comm f t0 t _ _ (Ne.symm htt)]
      exact BuiltD.remove (ih t root ht) (by rw [tree?_setTree, if_neg (Ne.symm htt)]; exact h1) h2 h3 h4 h5

/-! ### provenance: the namespace is that of the placing module -/

theorem next_ioStep_none (b : Bool) (e : Entry) (hb : if b = true then e.inp = [] else e.out = []) :
    next e (ioStep b) = none := by
  cases b with
  | true => simp only [if_true] at hb; simp [ioStep, next, hb]
  | false => simp only [Bool.false_eq_true, if_false] at hb; simp [ioStep, next, hb]

/-- Before the creation the walk to the (absent) input / output of the node at `p` ends at `p`. -/
theorem stampAt_absent_io (root : Entry) (p : Path) (e : Entry) (b : Bool) (hg : root.getAt p = some e)
    (hb : if b = true then e.inp = [] else e.out = []) : root.stampAt (p ++ [ioStep b]) = root.stampAt p := by
  unfold Entry.stampAt
  rw [stampGo_append root p [ioStep b] none e hg, stampGo_cons, next_ioStep_none b e hb]

/-- **C12's provenance theorem for `BuiltD`**: every location that some module's text placed — a
created rpc input / output counts as placed by the placer of its rpc — and that no deviation removed
reports the namespace of the module the placer belongs to. -/
theorem builtD_namespace {reg : Registry} {f : Forest} {prov : Loc → Option Nat} (hb : BuiltD reg f prov) :
    ∀ (loc : Loc) (m : Nat), (f.tree? loc.1).isSome = true → prov loc = some m →
      namespaceAt reg f loc = ownerNs reg m := by
  induction hb with
  | init hfree =>
    intro loc m hsome hp
    obtain ⟨root, hroot⟩ := Option.isSome_iff_exists.mp hsome
    simp only [Option.some.injEq] at hp; subst hp
    rw [namespaceAt_tree reg _ loc root hroot]; unfold nsOfTree Entry.stampAt
    rw [stampGo_noStampBelow root loc.2 none (hfree _ _ hroot)]
  | @graft f prov prov' by_ t path root te a _ hroot hte hfree hnew hold ih =>
    intro loc m hsome hp
    obtain ⟨root', hroot'⟩ := Option.isSome_iff_exists.mp hsome
    by_cases hnb : NewBelow t path te a loc
    · rw [hnew loc hnb] at hp
      simp only [Option.some.injEq] at hp; subst hp
      obtain ⟨hl, k, r, hpath, hk, hak⟩ := hnb
      rw [tree?_setTree, if_pos hl, hroot] at hroot'
      simp only [Option.map_some, Option.some.injEq] at hroot'
      rw [namespaceAt_tree reg _ loc root' (by rw [tree?_setTree, if_pos hl, hroot]; simp [hroot'])]
      obtain ⟨v, hv⟩ := Option.isSome_iff_exists.mp hak
      have hvs : noStamp v = true := (noStampL_iff _).mp hfree v (List.mem_of_find?_eq_some hv)
      unfold nsOfTree
      rw [← hroot', hpath, graft_new root path te a _ k v r hte hk hv ((noStamp_iff v).mp hvs).2]
    · rw [hold loc hnb] at hp
      by_cases hl : loc.1 = t
      · have hroot0 : f.tree? loc.1 = some root := by rw [hl]; exact hroot
        have := ih loc m (by rw [hroot0]; rfl) hp
        rw [namespaceAt_tree reg _ loc root hroot0] at this
        rw [tree?_setTree, if_pos hl, hroot] at hroot'
        simp only [Option.map_some, Option.some.injEq] at hroot'
        rw [namespaceAt_tree reg _ loc root' (by rw [tree?_setTree, if_pos hl, hroot]; simp [hroot'])]
        rw [← this]; unfold nsOfTree
        rw [← hroot', graft_frame root path te a _ loc.2 hte (by
          rintro ⟨k, r, h1, h2, h3⟩; exact hnb ⟨hl, k, r, h1, h2, h3⟩)]
      · rw [tree?_setTree, if_neg hl] at hroot'
        have := ih loc m (by rw [hroot']; rfl) hp
        rw [namespaceAt_tree reg _ loc root' hroot'] at this
        rw [namespaceAt_tree reg _ loc root' (by rw [tree?_setTree, if_neg hl]; exact hroot')]
        exact this
  | @fix f prov prov' _ hkeep hnone ih =>
    intro loc m hsome hp
    obtain ⟨root', hroot'⟩ := Option.isSome_iff_exists.mp hsome
    by_cases hex : ∃ root p, f.tree? loc.1 = some root ∧ (root.getAt p).isSome ∧ loc.2 = liftPath root p
    · obtain ⟨root, p, hroot, hsome', hlp⟩ := hex
      have hp' : prov (loc.1, p) = some m := by
        rw [← hkeep loc.1 root p hroot hsome', ← hlp]; exact hp
      have := ih (loc.1, p) m (by simp only; rw [hroot]; rfl) hp'
      rw [namespaceAt_tree reg _ (loc.1, p) root hroot] at this
      rw [tree?_fixAll, hroot] at hroot'
      simp only [Option.map_some, Option.some.injEq] at hroot'
      rw [namespaceAt_tree reg _ loc root' (by rw [tree?_fixAll, hroot]; simp [hroot'])]
      rw [← this]; unfold nsOfTree
      rw [← hroot', hlp, stampAt_fix]
    · rw [hnone loc hex] at hp; cases hp
  | @implicit f prov prov' t root e p b _ hroot hg hrpc hb hnew hold ih =>
    intro loc m hsome hp
    rw [namespaceAt_setTree_same reg f t root _ hroot (stampAt_addImplicit root p e b hg hb)]
    by_cases hl : loc = (t, p ++ [ioStep b])
    · subst hl
      rw [hnew] at hp
      have := ih (t, p) m (by simp only; rw [hroot]; rfl) hp
      rw [namespaceAt_tree reg f (t, p) root hroot] at this
      rw [namespaceAt_tree reg f (t, p ++ [ioStep b]) root hroot, ← this]
      unfold nsOfTree
      simp only
      rw [stampAt_absent_io root p e b hg hb]
    · rw [hold loc hl] at hp
      apply ih loc m _ hp
      rw [tree?_setTree] at hsome
      split at hsome
      · rename_i hl; rw [hl, hroot]; rfl
      · exact hsome
  | @retouch f prov t root node node' path _ hroot hg hd hi ho hns hname _ ih =>
    intro loc m hsome hp
    rw [namespaceAt_setTree_same reg f t root _ hroot
      (ConfigNsDev.stampAt_retouch root path node node' hg hd hi ho hns hname)]
    apply ih loc m _ hp
    rw [tree?_setTree] at hsome
    split at hsome
    · rename_i hl; rw [hl, hroot]; rfl
    · exact hsome
  | @remove f prov prov' t root path _ hroot hne hex hgone hkeep ih =>
    intro loc m hsome hp
    have hsome0 : (f.tree? loc.1).isSome = true := by
      rw [tree?_setTree] at hsome
      split at hsome
      · rename_i hl; rw [hl, hroot]; rfl
      · exact hsome
    by_cases hr : Removed t path loc
    · rw [hgone loc hr] at hp; cases hp
    · rw [hkeep loc hr] at hp
      have := ih loc m hsome0 hp
      rw [← this]
      by_cases hl : loc.1 = t
      · have hroot0 : f.tree? loc.1 = some root := by rw [hl]; exact hroot
        rw [namespaceAt_tree reg f loc root hroot0,
          namespaceAt_tree reg _ loc (removeAt root path) (by rw [tree?_setTree, if_pos hl, hroot]; rfl)]
        unfold nsOfTree
        rw [ConfigNsDev.stampAt_removeAt root path hne hex loc.2 (fun hpre => hr ⟨hl, hpre⟩)]
      · unfold namespaceAt
        rw [tree?_setTree, if_neg hl]

/-! ### the deviation stage -/

/-- The threaded alternative: `BuiltD`, or some root carries an error (and such an error stays). -/
def BDv (reg : Registry) (f : Forest) : Prop := (∃ prov, BuiltD reg f prov) ∨ Dirty f

theorem builtD_grown {reg : Registry} {t : Nat} {root root' : Entry} (hg : Grown root root') :
    ∀ (f : Forest) (prov : Loc → Option Nat), BuiltD reg f prov → f.tree? t = some root →
      ∃ prov', BuiltD reg (f.setTree t root') prov' := by
  classical
  induction hg with
  | refl e =>
    intro f prov hb ht
    exact ⟨prov, builtD_store hb t e ht⟩
  | @step a b c hs _ ih =>
    intro f prov hb ht
    have h1 : ∃ prov1, BuiltD reg (f.setTree t b) prov1 := by
      cases hs with
      | input p e hge hr hi =>
        exact ⟨fun loc => if loc = (t, p ++ [ioStep true]) then prov (t, p) else prov loc,
          BuiltD.implicit (p := p) (e := e) true hb ht hge hr (by simpa using hi) (by simp only [if_true])
            (fun loc h => by simp only [h, if_false])⟩
      | output p e hge hr ho =>
        exact ⟨fun loc => if loc = (t, p ++ [ioStep false]) then prov (t, p) else prov loc,
          BuiltD.implicit (p := p) (e := e) false hb ht hge hr (by simpa using ho) (by simp only [if_true])
            (fun loc h => by simp only [h, if_false])⟩
    obtain ⟨prov1, h1⟩ := h1
    have h2 : (f.setTree t b).tree? t = some b := by rw [tree?_setTree, if_pos rfl, ht]; rfl
    obtain ⟨prov2, h3⟩ := ih _ prov1 h1 h2
    rw [setTree_setTree] at h3
    exact ⟨prov2, h3⟩

/-- `Find` keeps the alternative, whatever it is asked. -/
theorem bdv_find {reg : Registry} {f : Forest} (h : BDv reg f) (start : Loc) (ctx : Nat) (name : String) :
    BDv reg (find reg f start ctx name).2 := by
  rcases h with ⟨prov, hb⟩ | hd
  · rcases Find.frame reg f start ctx name with h | ⟨t, root, root', hr, hg, h⟩ | ⟨_, h⟩
    · rw [h]; exact Or.inl ⟨prov, hb⟩
    · rw [h]; exact Or.inl (builtD_grown hg f prov hb hr)
    · rw [h]
      unfold Goyang.Spec.Find.withPrefixError
      split
      · rename_i root hroot; exact Or.inr (ConfigNsBuilt.dirty_addErr f _ root _ hroot)
      · exact Or.inl ⟨prov, hb⟩
  · exact Or.inr (dirty_find reg f start ctx name hd)

theorem dirty_retouch (f : Forest) (t : Nat) (root node node' : Entry) (path : Path) (hroot : f.tree? t = some root)
    (hg : root.getAt path = some node) (herr : node'.d.errors = node.d.errors) (h : Dirty f) :
    Dirty (f.setTree t (root.updateAt path fun _ => node')) := by
  refine dirty_setTree f t root _ hroot ?_ h
  intro he
  cases path with
  | nil =>
    simp only [Entry.getAt, Option.some.injEq] at hg; subst hg
    rw [updateAt_nil, herr]; exact he
  | cons s p => rw [Deviate.updateAt_d_of_ne_nil _ _ _ (by simp)]; exact he

theorem dirty_remove (f : Forest) (t : Nat) (root : Entry) (path : Path) (hroot : f.tree? t = some root)
    (hne : path ≠ []) (h : Dirty f) : Dirty (f.setTree t (removeAt root path)) := by
  refine dirty_setTree f t root _ hroot ?_ h
  intro he
  obtain ⟨pd, s, rfl⟩ : ∃ pd s, path = pd ++ [s] :=
    ⟨path.dropLast, path.getLast hne, (List.dropLast_concat_getLast hne).symm⟩
  rw [Deviate.removeAt_eq]
  exact ConfigNsBuilt.updateAt_errors_mono root pd _ (by rw [Deviate.dropStep_d]; exact id) he

/-- One deviate statement keeps the alternative. -/
theorem innerStep_bdv (reg : Registry) (opts : Opts) (m : Mod) (t : Nat) (path : Path)
    (acc : Forest × Entry × Bool × List Err) (ds : String × Entry)
    (hb : BDv reg acc.1) (ht : Deviate.TargetInv t path acc)
    (hn : Deviate.PathNamed path acc.2.1) :
    BDv reg (Deviate.innerStep opts m t path acc ds).1 := by
  classical
  obtain ⟨f, node, detached, errs⟩ := acc
  rw [Deviate.innerStep_forest]
  cases detached with
  | true => exact hb
  | false =>
    simp only [Bool.false_eq_true, if_false]
    have h1 := ht.1 rfl
    simp only at h1
    cases hroot : f.tree? t with
    | none => exact hb
    | some root =>
      rw [hroot] at h1
      simp only [Option.bind_some] at h1
      simp only []
      generalize hr : applyOneDeviate opts m.stmt ds.1 ds.2 (!path.isEmpty) node = r
      have hun := Deviate.applyOneDeviate_untouched opts m.stmt ds.1 ds.2 (!path.isEmpty) node
      have hnm := Deviate.applyOneDeviate_name opts m.stmt ds.1 ds.2 (!path.isEmpty) node
      rw [hr] at hun hnm
      simp only [Deviate.untouched, Prod.mk.injEq] at hun
      obtain ⟨u1, u2, u3, _, _, _, _, _, _, u10, u11, _⟩ := hun
      have h2 : (f.setTree t (root.updateAt path fun _ => r.1)).tree? t = some (root.updateAt path fun _ => r.1) := by
        rw [tree?_setTree, if_pos rfl, hroot]; rfl
      cases hrem : r.2.1 with
      | false =>
        simp only [Bool.false_eq_true, if_false]
        rcases hb with ⟨prov, hb⟩ | hd
        · exact Or.inl ⟨prov, BuiltD.retouch hb hroot h1 u1 u2 u3 u10 hnm u11⟩
        · exact Or.inr (dirty_retouch f t root node r.1 path hroot h1 u11 hd)
      | true =>
        simp only [if_true]
        have hp : (!path.isEmpty) = true := by
          have := Deviate.applyOneDeviate_remove opts m.stmt ds.1 ds.2 (!path.isEmpty) node (by rw [hr]; exact hrem)
          exact this.1
        have hne : path ≠ [] := by intro he; simp [he] at hp
        rcases hb with ⟨prov, hb⟩ | hd
        · left
          have hb1 : BuiltD reg (f.setTree t (root.updateAt path fun _ => r.1)) prov :=
            BuiltD.retouch hb hroot h1 u1 u2 u3 u10 hnm u11
          have hst : Deviate.NameStable path (fun _ => r.1) := by
            apply Deviate.NameStable.of_pathNamed
            exact Deviate.pathNamed_step hnm hn
          have hex : ((root.updateAt path fun _ => r.1).getAt path).isSome = true := by
            rw [Deviate.getAt_updateAt_self _ path hst root, h1]; rfl
          refine ⟨fun loc => if Removed t path loc then none else prov loc, ?_⟩
          have := BuiltD.remove hb1 h2 hne hex (prov' := fun loc => if Removed t path loc then none else prov loc)
            (fun loc h => by simp only [h, if_true]) (fun loc h => by simp only [h, if_false])
          rw [setTree_setTree] at this
          exact this
        · right
          have := dirty_remove _ t _ path h2 hne (dirty_retouch f t root node r.1 path hroot h1 u11 hd)
          rw [setTree_setTree] at this
          exact this

theorem innerFold_bdv (reg : Registry) (opts : Opts) (m : Mod) (t : Nat) (path : Path) (ds : List (String × Entry)) :
    ∀ (acc : Forest × Entry × Bool × List Err), BDv reg acc.1 → Deviate.TargetInv t path acc →
      Deviate.PathNamed path acc.2.1 →
      BDv reg (ds.foldl (Deviate.innerStep opts m t path) acc).1 := by
  induction ds with
  | nil => intro acc h _ _; exact h
  | cons d ds ih =>
    intro acc hb ht hn
    simp only [List.foldl_cons]
    apply ih
    · exact innerStep_bdv reg opts m t path acc d hb ht hn
    · exact Deviate.innerStep_target opts m t path acc d hn ht
    · rw [Deviate.innerStep_node]
      exact Deviate.pathNamed_step (Deviate.nodeStep_name _ _ _ _ _) hn

theorem outerStep_bdv (reg : Registry) (opts : Opts) (m : Mod) (acc : Forest × List Err)
    (dv : Stmt × List (String × Entry)) (hb : BDv reg acc.1) :
    BDv reg (Deviate.outerStep reg opts m acc dv).1 := by
  obtain ⟨f, errs⟩ := acc
  obtain ⟨dstmt, deviates⟩ := dv
  have hfind := bdv_find hb (m.seq, []) m.seq dstmt.arg
  unfold Deviate.outerStep
  dsimp only
  generalize find reg f (m.seq, []) m.seq dstmt.arg = r at hfind
  obtain ⟨target, f'⟩ := r
  dsimp only at hfind ⊢
  split
  · exact hfind
  · rename_i t path
    split
    · exact hfind
    · rename_i node0 hn0
      dsimp only
      have key := innerFold_bdv reg opts m t path deviates (f', node0, false, errs) hfind
        ⟨fun _ => hn0, fun h => by simp at h⟩
        (by
          cases hroot : f'.tree? t with
          | none => simp [hroot] at hn0
          | some root =>
            rw [hroot] at hn0
            exact Deviate.pathNamed_of_getAt path root node0 hn0)
      exact key

theorem applyDeviations_bdv (reg : Registry) (opts : Opts) (m : Mod) (devs : List (Stmt × List (String × Entry)))
    (f : Forest) (hb : BDv reg f) : BDv reg (applyDeviations reg opts m devs f).1 := by
  rw [Deviate.applyDeviations_eq]
  refine Tree.foldl_inv (fun acc : Forest × List Err => BDv reg acc.1) _ devs (f, []) hb ?_
  intro acc dv _ h
  exact outerStep_bdv reg opts m acc dv h

/-- **The deviation stage of `processAll` keeps "`BuiltD`, or some root carries an error"** (every
registry, option set, plugged-in stage and start forest). -/
theorem devStage_bdv (reg : Registry) (opts : Opts) (plug : Plug) (f0 : Forest) (hb : BDv reg f0) :
    BDv reg (Tree.devStage reg opts plug f0).1 := by
  unfold Tree.devStage
  refine Tree.foldl_inv (fun acc : Forest × List Err × List String => BDv reg acc.1) _ _ _ hb ?_
  rintro ⟨f, errs, done⟩ m _ hP
  dsimp only at hP ⊢
  split
  · exact hP
  · dsimp only
    exact applyDeviations_bdv reg opts m _ f hP

/-- **The forest of an error-free `processAll` run — deviations included — is `BuiltD`.** -/
theorem processAll_builtD_clean (reg : Registry) (opts : Opts) (plug : Plug)
    (hclean : (processAll reg opts plug).errors = []) :
    ∃ prov, BuiltD reg (processAll reg opts plug).forest prov := by
  obtain ⟨_, _, h3, _, h5⟩ := Tree.processAll_clean reg opts plug hclean
  obtain ⟨prov, hb⟩ := ConfigNsBuilt.preDev_built_of_clean reg opts plug h3
  have hne := Tree.process_clean_no_errors reg opts plug hclean
  rw [h5] at hne ⊢
  rcases devStage_bdv reg opts plug _ (Or.inl ⟨prov, Built.toBuiltD hb⟩) with h | ⟨t, root, hroot, herr⟩
  · exact h
  · exact absurd (Tree.noErrors_own root (Tree.forestAll_tree? _ t root hne hroot)) herr

end Goyang.Lemmas.ConfigNsDevLit
