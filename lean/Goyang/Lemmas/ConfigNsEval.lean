import Goyang.Lemmas.IncludeAugK
/-
C12: `processAll` in a form the kernel can evaluate on module sets WITH augments AND deviations.

`Entry.Find` (`Model.find`) splits the path with the legacy `String.splitOn`, which does not reduce in
the kernel.  `splitOn_slash` / `splitOn_slash_ofList` turn the split of a literal path into
`List.splitOn` over its characters (evaluated by `decide`).  Lemmas/IncludeAugK.lean has the augment part
of `processAll` with `findK` (the character-list split) in the place of `find`; here is the deviation
stage (`applyDeviationsK`, `devStageK`) and the two equations `processAll_errors_KD` /
`processAll_forest_KD`: after rewriting with them `decide +kernel` evaluates the run.
-/
namespace Goyang.Lemmas.ConfigNsEval
open Goyang.Model Goyang.Lemmas.Tree Goyang.Lemmas.IncludeAugK

/-- The split of a path at `/` is the split of its character list (evaluable: `decide` on a literal). -/
theorem splitOn_slash (s : String) : s.splitOn "/" = (s.toList.splitOn '/').map String.ofList := by
  rw [Lemmas.Find.slash_eq, Lemmas.Find.splitOn_char]

/-- The same for a path given by its characters. -/
theorem splitOn_slash_ofList (cs : List Char) :
    (String.ofList cs).splitOn "/" = (cs.splitOn '/').map String.ofList := by
  rw [splitOn_slash, String.toList_ofList]

/-- `Model.applyDeviations` with `findK` in the place of `find`. -/
def applyDeviationsK (reg : Registry) (opts : Opts) (m : Mod) (devs : List (Stmt × List (String × Entry)))
    (f : Forest) : Forest × List Err :=
  devs.foldl (fun (acc : Forest × List Err) dv =>
    let (f, errs) := acc
    let (dstmt, deviates) := dv
    let (target, f) := findK reg f (m.seq, []) m.seq dstmt.arg
    match target with
    | none => (f, errs ++ [Err.bare "deviate-no-target"])
    | some (t, path) =>
      match (f.tree? t).bind (·.getAt path) with
      | none => (f, errs ++ [Err.bare "deviate-no-target"])
      | some node0 =>
        let (f, _, _, errs) := deviates.foldl (fun (acc : Forest × Entry × Bool × List Err) ds =>
          let (f, node, detached, errs) := acc
          let (node', remove, es) := applyOneDeviate opts m.stmt ds.1 ds.2 (!path.isEmpty) node
          let es := if remove && detached then es ++ [Err.at_ m.stmt "deviate-already-removed"] else es
          let f := if detached then f else
            match f.tree? t with
            | none => f
            | some root =>
              let root := root.updateAt path fun _ => node'
              f.setTree t (if remove then removeAt root path else root)
          (f, node', detached || remove, errs ++ es))
          (f, node0, false, errs)
        (f, errs)) (f, [])

theorem applyDeviations_eqK (reg : Registry) (opts : Opts) (m : Mod) (devs : List (Stmt × List (String × Entry)))
    (f : Forest) : applyDeviations reg opts m devs f = applyDeviationsK reg opts m devs f := by
  have h : find = findK := by funext a b c d e; exact find_eqK a b c d e
  unfold applyDeviations applyDeviationsK
  rw [h]
  rfl

section Stages
variable (reg : Registry) (opts : Opts) (plug : Plug)

/-- `Tree.devStage` (the deviation stage of `processAll`) with `findK`. -/
def devStageK (f0 : Forest) : Forest × List Err × List String :=
  (keyOrder reg).foldl (fun (acc : Forest × List Err × List String) m =>
    let (f, errs, done) := acc
    if done.contains m.name then acc else
    let devs := (m.stmt.all "deviation").map fun dv =>
      (dv, (dv.all "deviate").filterMap fun ds =>
        if deviateKinds.contains ds.arg then some (ds.arg, (toEntry (envOf reg opts plug) (entryFuel reg) m [dv, m.stmt] ds [] {}).1) else none)
    let (f, es) := applyDeviationsK reg opts m devs f
    (f, errs ++ es, done ++ [m.name])) (f0, [], [])

theorem devStage_eqK (f0 : Forest) : devStage reg opts plug f0 = devStageK reg opts plug f0 := by
  have h : applyDeviations = applyDeviationsK := by funext a b c d e; exact applyDeviations_eqK a b c d e
  unfold devStage devStageK
  rw [h]

/-- `processAll` whose first two stages are clean, augments and deviations included: the errors in
evaluable form. -/
theorem processAll_errors_KD (h1 : stage1Errs reg plug = []) (h2 : forestErrs (forest0 reg opts plug) = []) :
    (processAll reg opts plug).errors =
      canonErrs (forestErrs (preDevK reg opts plug).forest ++ (devStageK reg opts plug (preDevK reg opts plug).forest).2.1) := by
  rw [processAll_errors_K reg opts plug h1 h2, devStage_eqK]

/-- … and the forest. -/
theorem processAll_forest_KD (h1 : stage1Errs reg plug = []) (h2 : forestErrs (forest0 reg opts plug) = []) :
    (processAll reg opts plug).forest = (devStageK reg opts plug (preDevK reg opts plug).forest).1 := by
  rw [processAll_forest_K reg opts plug h1 h2, devStage_eqK]

end Stages

end Goyang.Lemmas.ConfigNsEval
