import Goyang.Lemmas.ConfigNs
/-
C12, conversion part: every tree `toEntry` (Go: `ToEntry`) returns or keeps in its caches is free
of namespace stamps.  Induction on the fuel; the invariant is carried through every fold of the
conversion.  This file follows the text of `Goyang.Model.toEntry` (case analysis over its
branches), so it has to be adapted when that definition is extended; nothing else of C12 depends
on it (Props/C12Conv.lean states the consequences).
-/
namespace Goyang.Lemmas.ConfigNsToEntry
open Goyang.Model Goyang.Spec.ConfigNs Goyang.Lemmas.ConfigNs

theorem noStamp_errorEntry (root : Mod) (n : Stmt) (cls : String) : noStamp (errorEntry root n cls) = true := by
  simp [errorEntry, noStamp_mk, noStampL]

theorem noStamp_leafEntry (env : Env) (root : Mod) (scope : List Stmt) (n : Stmt) (b : Bool) :
    noStamp (leafEntry env root scope n b) = true := by
  unfold leafEntry
  simp only [noStamp_mk, noStampL]
  rfl


/-- Everything `toEntry` keeps in its state is stamp-free. -/
def StOK (st : TState) : Prop :=
  (∀ x ∈ st.cache, noStamp x.2 = true) ∧ (∀ x ∈ st.gcache, noStamp x.2 = true) ∧ (∀ x ∈ st.augs, noStampL x.2 = true)

def Inv (acc : Entry × TState) : Prop := noStamp acc.1 = true ∧ StOK acc.2

theorem foldl_inv {α β} (P : β → Prop) (f : β → α → β) (l : List α) (b : β) (hb : P b)
    (hf : ∀ b a, P b → P (f b a)) : P (l.foldl f b) := by
  induction l generalizing b with
  | nil => exact hb
  | cons a l ih => exact ih _ (hf b a hb)

theorem noStamp_withD' (e : Entry) (f : EData → EData) (he : noStamp e = true) (h : ∀ d, (f d).ns = d.ns) :
    noStamp (e.withD f) = true := by rw [noStamp_withD e f h]; exact he

theorem stOK_merged (st : TState) (m : List String) (h : StOK st) : StOK { st with merged := m } := h

theorem inv_of (e : Entry) (st : TState) (h1 : noStamp e = true) (h2 : StOK st) : Inv (e, st) := ⟨h1, h2⟩

/-- children added one by one, each converted by `te` and adjusted by `g` -/
theorem fold_add (te : Stmt → TState → Entry × TState) (hte : ∀ c st, StOK st → Inv (te c st))
    (g : Entry → Entry) (hg : ∀ x, noStamp x = true → noStamp (g x) = true) (l : List Stmt)
    (acc : Entry × TState) (hacc : Inv acc) :
    Inv (l.foldl (fun acc c => (acc.1.add c.arg (g (te c acc.2).1), (te c acc.2).2)) acc) := by
  apply foldl_inv Inv _ _ _ hacc
  intro acc c h
  have := hte c acc.2 h.2
  exact ⟨noStamp_add _ _ _ h.1 (hg _ this.1), this.2⟩

theorem fold_importErrors (te : Stmt → TState → Entry × TState) (hte : ∀ c st, StOK st → Inv (te c st))
    (l : List Stmt) (acc : Entry × TState) (hacc : Inv acc) :
    Inv (l.foldl (fun acc c => (acc.1.importErrors (te c acc.2).1, (te c acc.2).2)) acc) := by
  apply foldl_inv Inv _ _ _ hacc
  intro acc c h
  have := hte c acc.2 h.2
  exact ⟨by rw [noStamp_importErrors]; exact h.1, this.2⟩

theorem fold_merge (te : Stmt → TState → Entry × TState) (hte : ∀ c st, StOK st → Inv (te c st))
    (l : List Stmt) (acc : Entry × TState) (hacc : Inv acc) :
    Inv (l.foldl (fun acc c => (acc.1.merge none (te c acc.2).1, (te c acc.2).2)) acc) := by
  apply foldl_inv Inv _ _ _ hacc
  intro acc c h
  have := hte c acc.2 h.2
  exact ⟨noStamp_merge_none _ _ h.1 this.1, this.2⟩

theorem toEntry_noStamp (env : Env) : ∀ (fuel : Nat) (root : Mod) (scope : List Stmt) (n : Stmt)
    (visiting : List NodeId) (st : TState), StOK st → Inv (toEntry env fuel root scope n visiting st) := by
  intro fuel
  induction fuel with
  | zero =>
    intro root scope n visiting st hst
    rw [toEntry]
    exact ⟨noStamp_errorEntry _ _ _, hst⟩
  | succ fuel ih =>
    intro root scope n visiting st hst
    rw [toEntry]
    split
    · -- module cache hit
      rename_i e heq
      refine ⟨?_, hst⟩
      split at heq
      · exact hst.1 _ (List.mem_of_find?_eq_some heq)
      · cases heq
    · split
      · rename_i e heq
        refine ⟨?_, hst⟩
        split at heq
        · exact hst.2.1 _ (List.mem_of_find?_eq_some heq)
        · cases heq
      · extract_lets track visiting' le base sub addAll step
        have hte : ∀ c st, StOK st → Inv ((fun c st => toEntry env fuel root sub c visiting' st) c st) :=
          fun c st h => ih root sub c visiting' st h
        have hstep : ∀ acc f, Inv acc → Inv (step acc f) := by
          intro acc f hacc
          obtain ⟨e1, st1⟩ := acc
          have h1 : noStamp e1 = true := hacc.1
          have h2 : StOK st1 := hacc.2
          simp only [step]
          split
          all_goals try simp only [addAll]
          all_goals first
            | exact hacc
            | exact fold_add _ hte (fun x => x) (fun _ h => h) _ _ hacc
            | exact fold_add _ hte _ (fun x h => by rw [noStamp_withD _ _ (fun _ => rfl)]; exact h) _ _ hacc
            | exact fold_importErrors _ hte _ _ hacc
            | exact fold_merge _ hte _ _ hacc
            | ((repeat' split) <;> first
                | exact hacc
                | (refine inv_of _ _ ?_ h2
                   (repeat' split) <;> simp [noStamp_addErrs, noStamp_addErr, noStamp_withD, h1]))
            | (apply foldl_inv Inv _ _ _ hacc
               intro acc c h
               have hi := ih root sub c visiting' acc.2 h.2
               exact ⟨noStamp_add _ _ _ h.1 (noStamp_withD' _ _ hi.1 (fun _ => rfl)), hi.2⟩)
            | (apply foldl_inv Inv _ _ _ hacc
               intro acc c h
               have hi := ih root sub c visiting' acc.2 h.2
               refine inv_of _ _ ?_ hi.2
               split <;> simp [noStamp_importErrors, noStamp_addErr, h.1])
            | (apply foldl_inv Inv _ _ _ hacc
               intro acc a h
               (repeat' split) <;> first
                 | exact h
                 | exact inv_of _ _ (by simp [noStamp_addErr, h.1]) h.2
                 | exact inv_of _ _ (noStamp_merge_none _ _ h.1 (ih _ _ _ _ _ (stOK_merged _ _ h.2)).1) (ih _ _ _ _ _ (stOK_merged _ _ h.2)).2)
            | (split
               · exact hacc
               · rename_i i _
                 have hi := ih root sub i visiting' st1 h2
                 refine inv_of _ _ ?_ hi.2
                 cases e1 with
                 | mk d c inp o =>
                   simp only [noStamp_mk, Bool.and_eq_true] at h1 ⊢
                   simp [noStampL, noStamp_withD, hi.1, h1])
            | skip
          -- the augment statements of a (sub)module: converted and kept in the state
          split
          · exact hacc
          · refine inv_of _ _ h1 ?_
            generalize hg : List.foldl _ _ _ = r
            have hr : noStampL r.1 = true ∧ StOK r.2 := by
              rw [← hg]
              apply foldl_inv (fun (x : List Entry × TState) => noStampL x.1 = true ∧ StOK x.2) _ _ _ ⟨rfl, h2⟩
              intro acc a h
              have hi := ih root sub a visiting' acc.2 h.2
              refine ⟨?_, hi.2⟩
              rw [noStampL_append, h.1]; simp [noStampL, hi.1]
            refine ⟨hr.2.1, hr.2.2.1, ?_⟩
            intro x hx
            rcases List.mem_append.mp hx with h | h
            · exact hr.2.2.2 x h
            · simp only [List.mem_singleton] at h; subst h; exact hr.1
        split
        · exact inv_of _ _ (noStamp_errorEntry _ _ _) hst
        · split
          · exact inv_of _ _ (noStamp_leafEntry _ _ _ _ _) hst
          · split
            · split
              exact inv_of _ _ (noStamp_withD' _ _ (noStamp_leafEntry _ _ _ _ _) (fun _ => rfl)) hst
            · split
              · split
                · exact inv_of _ _ (noStamp_errorEntry _ _ _) hst
                · exact ih _ _ _ _ _ hst
              · -- directory node
                split
                rename_i base' kerrs hbase
                have hb : base'.ns = none := by
                  split at hbase
                  · split at hbase
                    cases hbase; rfl
                  · split at hbase
                    · cases hbase; rfl
                    · cases hbase; rfl
                extract_lets e0
                have he0 : noStamp e0 = true := by
                  simp only [e0, noStamp_mk, hb, noStampL]; rfl
                generalize hfold : List.foldl step (e0, st) (fieldOrder n.kw) = r
                have hr : Inv r := by
                  rw [← hfold]; exact foldl_inv Inv step _ _ ⟨he0, hst⟩ hstep
                obtain ⟨e, st'⟩ := r
                simp only
                split
                · refine inv_of _ _ hr.1 ⟨?_, hr.2.2.1, hr.2.2.2⟩
                  intro x hx
                  rcases List.mem_append.mp hx with h | h
                  · exact hr.2.1 x h
                  · simp only [List.mem_singleton] at h; subst h; exact hr.1
                · split
                  · refine inv_of _ _ hr.1 ⟨hr.2.1, ?_, hr.2.2.2⟩
                    intro x hx
                    rcases List.mem_append.mp hx with h | h
                    · exact hr.2.2.1 x h
                    · simp only [List.mem_singleton] at h; subst h; exact hr.1
                  · exact hr


/-- The conversion phase of `Process`: `toEntry` of every module and submodule in turn, starting
from empty caches, leaves only stamp-free trees (and stamp-free pending augments) in the state. -/
theorem conversion_stOK (env : Env) (fuel : Nat) (ms : List Mod) :
    StOK (ms.foldl (fun st m => (toEntry env fuel m [] m.stmt [] st).2) {}) := by
  apply foldl_inv StOK
  · refine ⟨?_, ?_, ?_⟩ <;> (intro x hx; exact absurd hx (List.not_mem_nil))
  · intro st m h
    exact (toEntry_noStamp env fuel m [] m.stmt [] st h).2

end Goyang.Lemmas.ConfigNsToEntry
