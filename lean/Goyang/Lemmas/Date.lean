import Goyang.Spec.Date
import Goyang.Lemmas.StrOrd
/-
For well-formed dates `YYYY-MM-DD`, Go's string order is the order of the dates.
-/
namespace Goyang.Lemmas.Date
open Goyang.Model Goyang.Spec Goyang.Lemmas.StrOrd

theorem char_eq_iff (a b : Char) : a = b ↔ a.toNat = b.toNat :=
  ⟨fun h => h ▸ rfl, char_eq_of_toNat_eq⟩

/-- Shape of a well-formed date string. -/
theorem parseDate_some {s : List Char} {x : Date} (h : parseDate s = some x) :
    ∃ y1 y2 y3 y4 m1 m2 d1 d2 : Char,
      s = [y1, y2, y3, y4, '-', m1, m2, '-', d1, d2] ∧
      [y1, y2, y3, y4, m1, m2, d1, d2].all isDigit = true ∧
      x = ⟨digitsVal [y1, y2, y3, y4], digitsVal [m1, m2], digitsVal [d1, d2]⟩ := by
  unfold parseDate at h
  split at h
  · rename_i y1 y2 y3 y4 s1 m1 m2 s2 d1 d2
    split at h
    · rename_i hc
      obtain ⟨rfl, rfl, hd⟩ := hc
      exact ⟨y1, y2, y3, y4, m1, m2, d1, d2, rfl, hd, (Option.some.inj h).symm⟩
    · cases h
  · cases h

/-- Comparing strings that start with equally long, digit-wise compared blocks. -/
theorem charsLt_cons (a b : Char) (as bs : List Char) :
    charsLt (a :: as) (b :: bs) = (decide (a.toNat < b.toNat) || (a == b && charsLt as bs)) := rfl

theorem block4 (R : Prop) {a1 a2 a3 a4 b1 b2 b3 b4 : Nat}
    (h1 : 48 ≤ a1 ∧ a1 ≤ 57) (h2 : 48 ≤ a2 ∧ a2 ≤ 57) (h3 : 48 ≤ a3 ∧ a3 ≤ 57) (h4 : 48 ≤ a4 ∧ a4 ≤ 57)
    (h5 : 48 ≤ b1 ∧ b1 ≤ 57) (h6 : 48 ≤ b2 ∧ b2 ≤ 57) (h7 : 48 ≤ b3 ∧ b3 ≤ 57) (h8 : 48 ≤ b4 ∧ b4 ≤ 57) :
    (a1 < b1 ∨ a1 = b1 ∧ (a2 < b2 ∨ a2 = b2 ∧ (a3 < b3 ∨ a3 = b3 ∧ (a4 < b4 ∨ a4 = b4 ∧ R)))) ↔
    (10 * (10 * (10 * (10 * 0 + (a1 - 48)) + (a2 - 48)) + (a3 - 48)) + (a4 - 48) <
        10 * (10 * (10 * (10 * 0 + (b1 - 48)) + (b2 - 48)) + (b3 - 48)) + (b4 - 48) ∨
      10 * (10 * (10 * (10 * 0 + (a1 - 48)) + (a2 - 48)) + (a3 - 48)) + (a4 - 48) =
        10 * (10 * (10 * (10 * 0 + (b1 - 48)) + (b2 - 48)) + (b3 - 48)) + (b4 - 48) ∧ R) := by
  by_cases hR : R <;> simp only [hR, and_true, and_false, or_false] <;> omega

theorem block2 (R : Prop) {a1 a2 b1 b2 : Nat}
    (h1 : 48 ≤ a1 ∧ a1 ≤ 57) (h2 : 48 ≤ a2 ∧ a2 ≤ 57) (h5 : 48 ≤ b1 ∧ b1 ≤ 57) (h6 : 48 ≤ b2 ∧ b2 ≤ 57) :
    (a1 < b1 ∨ a1 = b1 ∧ (a2 < b2 ∨ a2 = b2 ∧ R)) ↔
    (10 * (10 * 0 + (a1 - 48)) + (a2 - 48) < 10 * (10 * 0 + (b1 - 48)) + (b2 - 48) ∨
      10 * (10 * 0 + (a1 - 48)) + (a2 - 48) = 10 * (10 * 0 + (b1 - 48)) + (b2 - 48) ∧ R) := by
  by_cases hR : R <;> simp only [hR, and_true, and_false, or_false] <;> omega

theorem last2 {a1 a2 b1 b2 : Nat}
    (h1 : 48 ≤ a1 ∧ a1 ≤ 57) (h2 : 48 ≤ a2 ∧ a2 ≤ 57) (h5 : 48 ≤ b1 ∧ b1 ≤ 57) (h6 : 48 ≤ b2 ∧ b2 ≤ 57) :
    (a1 < b1 ∨ a1 = b1 ∧ a2 < b2) ↔
    10 * (10 * 0 + (a1 - 48)) + (a2 - 48) < 10 * (10 * 0 + (b1 - 48)) + (b2 - 48) := by
  omega

theorem charsLt_date {s t : List Char} {x y : Date} (hs : parseDate s = some x) (ht : parseDate t = some y) :
    charsLt s t = x.lt y := by
  obtain ⟨a1, a2, a3, a4, a5, a6, a7, a8, rfl, ha, rfl⟩ := parseDate_some hs
  obtain ⟨b1, b2, b3, b4, b5, b6, b7, b8, rfl, hb, rfl⟩ := parseDate_some ht
  simp only [List.all_cons, List.all_nil, Bool.and_true, Bool.and_eq_true, isDigit, decide_eq_true_eq] at ha hb
  rw [Bool.eq_iff_iff]
  simp only [charsLt, Date.lt, digitsVal, List.foldl, Bool.or_eq_true, Bool.and_eq_true, decide_eq_true_eq,
    beq_iff_eq, char_eq_iff, Bool.or_false, Bool.and_false, and_false]
  simp only [decide_eq_true_eq, Nat.lt_irrefl, false_or, true_and]
  obtain ⟨p1, p2, p3, p4, p5, p6, p7, p8⟩ := ha
  obtain ⟨q1, q2, q3, q4, q5, q6, q7, q8⟩ := hb
  rw [block4 _ p1 p2 p3 p4 q1 q2 q3 q4, block2 _ p5 p6 q5 q6, last2 p7 p8 q7 q8]
  simp

theorem date_eq_of_parse_eq {s t : List Char} {x : Date} (hs : parseDate s = some x) (ht : parseDate t = some x) :
    s = t := by
  rcases charsLt_total s t with h | h | h
  · rw [charsLt_date hs ht] at h; simp [Date.lt] at h
  · exact h
  · rw [charsLt_date ht hs] at h; simp [Date.lt] at h

end Goyang.Lemmas.Date
