import Goyang.Lemmas.DevExtMain
/-
C08, frame across module sets — part 5: the augment stage when the base registry `B` HAS top-level
augments.  The run with the deviation-only modules visits, in the augment loop, the modules of `B`
followed by the new modules (they sort last).  A new module has nothing pending, so it is dropped
from the loop's array the first time it is visited; with the swap-remove of `augmentPass` this means:
the first time the run without the new modules drops a module at index `i`, the run with them moves
the new modules into slot `i` one after the other and drops each (`drain_mid`), and arrives at the
array of the run without them; if no module of `B` is dropped in the first pass, the new modules are
dropped at the end of the pass (`drain_end`).  From then on the arrays are equal.  On the states the
two runs are related by `lift`: extra trees, extra empty rows of pending augments.
Core Lean only.
-/
namespace Goyang.Lemmas.DevExt
open Goyang.Model
open Goyang.Lemmas.Tree (envOf keyOrder tstate forest0 pending0 pstate0 preDev fixAll afterLoop leftoverPass allMods augOrder)
open Goyang.Lemmas.Fuel (augStep augFail augmentTree_eq augmentPass_succ augmentLoop_succ augmentPass_fuel_eq augStep_spec)

/-! ### states with extra trees and extra empty rows -/

/-- The state `s` with the trees `G` and the pending rows `P` appended. -/
def lift (G : List (Nat × Entry)) (P : List (Nat × List Entry)) (s : PState) : PState :=
  { forest := ext G s.forest, pending := s.pending ++ P }

/-- Extra rows: nothing pending, filed under new modules. -/
def PNew (ds : List Mod) (P : List (Nat × List Entry)) : Prop := ∀ p ∈ P, p.2 = [] ∧ ∃ d ∈ ds, d.seq = p.1

/-- The rows of the run without the new modules: filed under modules of `B`, and the context module of
every pending augment is a module of `B`. -/
def PInv (B : Registry) (s : PState) : Prop :=
  (∀ p ∈ s.pending, ∃ m ∈ B.mods, m.seq = p.1) ∧
  (∀ p ∈ s.pending, ∀ a ∈ p.2, ∃ m ∈ B.mods, m.seq = a.d.nodeMod)

theorem augFail_lift (G : List (Nat × Entry)) (P : List (Nat × List Entry)) (id : Nat) (hid : ∀ g ∈ G, g.1 ≠ id)
    (ae : Bool) (a : Entry) (s : PState) : augFail id ae a (lift G P s) = lift G P (augFail id ae a s) := by
  unfold augFail
  cases ae with
  | false => rfl
  | true =>
    simp only [if_true]
    show (match (ext G s.forest).tree? id with
      | some root => { lift G P s with forest := (ext G s.forest).setTree id (root.addErr (Err.at_ a.d.node "augment-not-found")) }
      | none => lift G P s) = _
    rw [tree?_ext G s.forest id hid]
    cases s.forest.tree? id with
    | none => rfl
    | some root =>
      simp only
      rw [setTree_ext G s.forest id _ hid]
      rfl

theorem augFold_sub (reg : Registry) (id : Nat) (ae : Bool) (ns : String) (l : List Entry)
    (acc : PState × List Entry × Nat × Nat) :
    ∀ x ∈ (l.foldl (augStep reg id ae ns) acc).2.1, x ∈ acc.2.1 ∨ x ∈ l := by
  induction l generalizing acc with
  | nil => intro x hx; exact Or.inl hx
  | cons a l ih =>
    intro x hx
    simp only [List.foldl_cons] at hx
    rcases ih _ x hx with h1 | h1
    · rcases (augStep_spec reg id ae ns acc a).2 with ⟨e, _, _⟩ | ⟨e, _, _⟩
      · rw [e] at h1
        rcases List.mem_append.mp h1 with h2 | h2
        · exact Or.inl h2
        · simp only [List.mem_singleton] at h2; subst h2; exact Or.inr (List.mem_cons_self ..)
      · rw [e] at h1; exact Or.inl h1
    · exact Or.inr (List.mem_cons_of_mem _ h1)

theorem augFold_pending (reg : Registry) (id : Nat) (ae : Bool) (ns : String) (l : List Entry)
    (acc : PState × List Entry × Nat × Nat) : (l.foldl (augStep reg id ae ns) acc).1.pending = acc.1.pending := by
  induction l generalizing acc with
  | nil => rfl
  | cons a l ih => simp only [List.foldl_cons]; rw [ih, (augStep_spec reg id ae ns acc a).1]

theorem pendingOf_mem (s : PState) (id : Nat) (a : Entry) (ha : a ∈ s.pendingOf id) : ∃ p ∈ s.pending, a ∈ p.2 := by
  unfold PState.pendingOf at ha
  cases hf : s.pending.find? (·.1 == id) with
  | none => rw [hf] at ha; cases ha
  | some p => rw [hf] at ha; exact ⟨p, List.mem_of_find?_eq_some hf, ha⟩

/-- `augmentTree` (in any registry) keeps `PInv`: what stays pending was pending. -/
theorem augmentTree_pinv (B reg : Registry) (id : Nat) (ae : Bool) (s : PState) (hs : PInv B s) :
    PInv B (augmentTree reg id ae s).1 := by
  rw [augmentTree_eq]
  have hp := augFold_pending reg id ae (namespaceAt reg s.forest (id, [])) (s.pendingOf id) (s, [], 0, 0)
  have hsub := augFold_sub reg id ae (namespaceAt reg s.forest (id, [])) (s.pendingOf id) (s, [], 0, 0)
  generalize (s.pendingOf id).foldl (augStep reg id ae (namespaceAt reg s.forest (id, []))) (s, [], 0, 0) = r at hp hsub
  obtain ⟨s', un, p, k⟩ := r
  simp only at hp hsub ⊢
  have hmem : ∀ q ∈ (s'.setPending id un).pending, ∃ p0 ∈ s.pending, q.1 = p0.1 ∧ (q.2 = p0.2 ∨ q.2 = un) := by
    intro q hq
    unfold PState.setPending at hq
    simp only [List.mem_map] at hq
    obtain ⟨p0, hp0, rfl⟩ := hq
    rw [hp] at hp0
    refine ⟨p0, hp0, ?_⟩
    obtain ⟨i0, l0⟩ := p0
    simp only
    split
    · exact ⟨rfl, Or.inr rfl⟩
    · exact ⟨rfl, Or.inl rfl⟩
  constructor
  · intro q hq
    obtain ⟨p0, hp0, e1, _⟩ := hmem q hq
    rw [e1]; exact hs.1 p0 hp0
  · intro q hq a ha
    obtain ⟨p0, hp0, _, e2⟩ := hmem q hq
    rcases e2 with e2 | e2
    · rw [e2] at ha; exact hs.2 p0 hp0 a ha
    · rw [e2] at ha
      rcases hsub a ha with h1 | h1
      · cases h1
      · obtain ⟨p1, hp1, ha1⟩ := pendingOf_mem s id a h1
        exact hs.2 p1 hp1 a ha1

section
variable {B X : Registry} {ds : List Mod} {dk : KeyMap} (h : DevExtCore B X ds dk)
include h

theorem new_ne_old {n t : Nat} (hn : ∃ d ∈ ds, d.seq = n) (ht : ∃ m ∈ B.mods, m.seq = t) : n ≠ t := by
  obtain ⟨d, hd, rfl⟩ := hn
  obtain ⟨m, hm, rfl⟩ := ht
  exact fun e => h.seqFresh m hm d hd e.symm

theorem augStep_lift {G : List (Nat × Entry)} (hG : NewTrees ds G) (P : List (Nat × List Entry)) (id : Nat)
    (hid : ∃ m ∈ B.mods, m.seq = id) (ae : Bool) (ns : String) (s : PState) (un : List Entry) (p k : Nat) (a : Entry)
    (ha : ∃ m ∈ B.mods, m.seq = a.d.nodeMod) :
    augStep X id ae ns (lift G P s, un, p, k) a =
      (lift G P (augStep B id ae ns (s, un, p, k) a).1, (augStep B id ae ns (s, un, p, k) a).2) := by
  have hidG : ∀ g ∈ G, g.1 ≠ id := hG.ne (old_of_mem h hid)
  unfold augStep
  simp only
  have hs : ∃ m' ∈ B.mods, m'.seq = ((id, []) : Loc).1 := hid
  simp only [show (lift G P s).forest = ext G s.forest from rfl, show (lift G P s).pending = s.pending ++ P from rfl]
  rw [find_ext h hG s.forest (id, []) a.d.nodeMod a.d.name hs (old_of_mem h ha)]
  have hold := find_tree_old s.forest (id, []) a.d.nodeMod a.d.name hs
  generalize find B s.forest (id, []) a.d.nodeMod a.d.name = r at hold
  obtain ⟨target, f'⟩ := r
  have e0 : ({ forest := ext G f', pending := s.pending ++ P } : PState) = lift G P { forest := f', pending := s.pending } := rfl
  cases target with
  | none =>
    simp only
    rw [e0, augFail_lift G P id hidG]
  | some loc =>
    obtain ⟨t, path⟩ := loc
    have ht : ∀ g ∈ G, g.1 ≠ t := hG.ne (old_of_mem h (hold t path rfl))
    simp only
    rw [tree?_ext G f' t ht]
    cases hn : (f'.tree? t).bind (·.getAt path) with
    | none =>
      simp only
      rw [e0, augFail_lift G P id hidG]
    | some te =>
      simp only
      split
      · rw [e0, augFail_lift G P id hidG]
      · cases f'.tree? t with
        | none =>
          simp only
          rw [e0, augFail_lift G P id hidG]
        | some root =>
          simp only
          rw [setTree_ext G f' t _ ht]
          rfl

theorem augFold_lift {G : List (Nat × Entry)} (hG : NewTrees ds G) (P : List (Nat × List Entry)) (id : Nat)
    (hid : ∃ m ∈ B.mods, m.seq = id) (ae : Bool) (ns : String) (l : List Entry)
    (hl : ∀ a ∈ l, ∃ m ∈ B.mods, m.seq = a.d.nodeMod) :
    ∀ (s : PState) (un : List Entry) (p k : Nat),
    l.foldl (augStep X id ae ns) (lift G P s, un, p, k) =
      (lift G P (l.foldl (augStep B id ae ns) (s, un, p, k)).1, (l.foldl (augStep B id ae ns) (s, un, p, k)).2) := by
  induction l with
  | nil => intro s un p k; rfl
  | cons a l ih =>
    intro s un p k
    simp only [List.foldl_cons]
    rw [augStep_lift h hG P id hid ae ns s un p k a (hl a (List.mem_cons_self ..))]
    obtain ⟨s', un', p', k'⟩ := augStep B id ae ns (s, un, p, k) a
    exact ih (fun x hx => hl x (List.mem_cons_of_mem _ hx)) s' un' p' k'

omit h in
theorem pendingOf_lift (G : List (Nat × Entry)) {P : List (Nat × List Entry)} (s : PState) (id : Nat)
    (hP : ∀ p ∈ P, p.1 ≠ id) : (lift G P s).pendingOf id = s.pendingOf id := by
  unfold PState.pendingOf lift
  simp only [List.find?_append]
  cases s.pending.find? (·.1 == id) with
  | some x => rfl
  | none =>
    simp only [Option.none_or]
    rw [List.find?_eq_none.mpr]
    intro p hp
    simpa using hP p hp

omit h in
theorem setPending_lift (G : List (Nat × Entry)) {P : List (Nat × List Entry)} (s : PState) (id : Nat) (l : List Entry)
    (hP : ∀ p ∈ P, p.1 ≠ id) : (lift G P s).setPending id l = lift G P (s.setPending id l) := by
  unfold PState.setPending lift
  simp only [List.map_append, PState.mk.injEq, List.append_cancel_left_eq, true_and]
  rw [List.map_congr_left (g := fun x => x)]
  · simp
  · intro p hp
    obtain ⟨i, x⟩ := p
    have : ¬ i = id := hP (i, x) hp
    simp [this]

/-- **`augmentTree` for a tree of `B`, on a state with extra trees and extra empty rows.** -/
theorem augmentTree_lift {G : List (Nat × Entry)} (hG : NewTrees ds G) {P : List (Nat × List Entry)} (hP : PNew ds P)
    (id : Nat) (hid : ∃ m ∈ B.mods, m.seq = id) (ae : Bool) (s : PState) (hs : PInv B s) :
    augmentTree X id ae (lift G P s) = (lift G P (augmentTree B id ae s).1, (augmentTree B id ae s).2) := by
  have hPid : ∀ p ∈ P, p.1 ≠ id := fun p hp => new_ne_old h (hP p hp).2 hid
  rw [augmentTree_eq, augmentTree_eq, pendingOf_lift G s id hPid]
  have ens : namespaceAt X (lift G P s).forest (id, []) = namespaceAt B s.forest (id, []) :=
    namespaceAt_ext h hG s.forest (id, []) hid
  rw [ens]
  have hl : ∀ a ∈ s.pendingOf id, ∃ m ∈ B.mods, m.seq = a.d.nodeMod := by
    intro a ha
    obtain ⟨p, hp, hap⟩ := pendingOf_mem s id a ha
    exact hs.2 p hp a hap
  rw [augFold_lift h hG P id hid ae _ (s.pendingOf id) hl s [] 0 0]
  simp only
  rw [setPending_lift G _ id _ hPid]

/-- A new module has nothing pending: `augmentTree` does nothing and reports nothing skipped. -/
theorem augmentTree_new (G : List (Nat × Entry)) {P : List (Nat × List Entry)} (hP : PNew ds P) (n : Nat)
    (hn : ∃ d ∈ ds, d.seq = n) (s : PState) (hs : PInv B s) :
    augmentTree X n false (lift G P s) = (lift G P s, 0, 0) := by
  have hp0 : (lift G P s).pendingOf n = [] := by
    unfold PState.pendingOf lift
    simp only [List.find?_append]
    have : s.pending.find? (·.1 == n) = none := by
      apply List.find?_eq_none.mpr
      intro p hp
      have := new_ne_old h hn (hs.1 p hp)
      simpa using fun e => this e.symm
    rw [this]
    simp only [Option.none_or]
    cases hf : P.find? (·.1 == n) with
    | none => rfl
    | some p => simp [(hP p (List.mem_of_find?_eq_some hf)).1]
  rw [augmentTree_eq, hp0]
  simp only [List.foldl_nil]
  have : (lift G P s).setPending n [] = lift G P s := by
    unfold PState.setPending lift
    simp only [PState.mk.injEq, true_and]
    rw [List.map_congr_left (g := id)]
    · simp
    · intro p hp
      obtain ⟨i, x⟩ := p
      rcases List.mem_append.mp hp with hp | hp
      · have := new_ne_old h hn (hs.1 (i, x) hp)
        have : ¬ i = n := fun e => this e.symm
        simp [this]
      · have : x = [] := (hP (i, x) hp).1
        subst this
        simp only [id]
        split <;> rfl
  rw [this]

end

end Goyang.Lemmas.DevExt
