import Goyang.Lemmas.DevExtAug
/-
C08, frame across module sets — part 6: the swap-remove array of `augmentPass` when modules without
pending augments stand at its end (`drain_end`, `drain_mid`), the pass and the loop of the run with
the new modules against the run without them (`pass_ext`, `loop_ext`).  Core Lean only.
-/
namespace Goyang.Lemmas.DevExt
open Goyang.Model
open Goyang.Lemmas.Fuel (augmentPass_succ augmentLoop_succ augmentPass_fuel_eq)

/-! ### lists -/

theorem dropLast_set_last {α} (l : List α) (i : Nat) (v : α) (hi : i + 1 = l.length) :
    (l.set i v).dropLast = l.dropLast := by
  induction l generalizing i with
  | nil => cases hi
  | cons x xs ih =>
    cases xs with
    | nil =>
      have : i = 0 := by simpa using hi
      subst this; rfl
    | cons y ys =>
      cases i with
      | zero => simp at hi
      | succ j =>
        simp only [List.set_cons_succ]
        rw [List.dropLast_cons_of_ne_nil (by simp), List.dropLast_cons_of_ne_nil (by simp), ih j (by simpa using hi)]

theorem getLast?_set_of_lt {α} (l : List α) (i : Nat) (v : α) (hi : i + 1 < l.length) :
    (l.set i v).getLast? = l.getLast? := by
  rw [List.getLast?_eq_getElem?, List.getLast?_eq_getElem?, List.length_set, List.getElem?_set_ne (by omega)]

theorem dropLast_set_congr {α} (l : List α) (i : Nat) (v w : α) (hvw : i + 1 < l.length → v = w) (hi : i < l.length) :
    (l.set i v).dropLast = (l.set i w).dropLast := by
  by_cases h1 : i + 1 < l.length
  · rw [hvw h1]
  · rw [dropLast_set_last l i v (by omega), dropLast_set_last l i w (by omega)]

/-! ### the array of a pass with idle modules at its end -/

section Drain
variable (reg : Registry) (s : PState) (Idle : Nat → Prop)
  (hidle : ∀ n, Idle n → augmentTree reg n false s = (s, 0, 0))
include hidle

/-- At the end of the array: idle modules are dropped one after the other. -/
theorem drain_end : ∀ (k : Nat) (N : List Nat), N.length = k → ∀ (Mx A : Array Nat), Mx.toList = A.toList ++ N →
    (∀ n ∈ N, Idle n) → ∀ (f p : Nat), k ≤ f → augmentPass reg f Mx A.size p s = (A, p, s) := by
  intro k
  induction k with
  | zero =>
    intro N hN Mx A hM _ f p _
    have : N = [] := List.eq_nil_of_length_eq_zero hN
    subst this
    have : Mx = A := Array.ext' (by simpa using hM)
    subst this
    cases f with
    | zero => rfl
    | succ g => rw [augmentPass_succ, dif_neg (Nat.lt_irrefl _)]
  | succ k ih =>
    intro N hN Mx A hM hI f p hf
    cases N with
    | nil => cases hN
    | cons n N1 =>
      have hsz : Mx.size = A.size + (N1.length + 1) := by
        have := congrArg List.length hM
        simpa using this
      obtain ⟨g, rfl⟩ : ∃ g, f = g + 1 := ⟨f - 1, by omega⟩
      have hi : A.size < Mx.size := by omega
      have hel : Mx[A.size] = n := by
        rw [← Array.getElem_toList (h := by simpa using hi)]
        simp [hM]
      rw [augmentPass_succ, dif_pos hi, hel, hidle n (hI n (List.mem_cons_self ..))]
      simp only [beq_self_eq_true, if_true, Nat.add_zero]
      -- the array after the swap-remove
      obtain ⟨b, hb, hbm⟩ : ∃ b, Mx.back? = some b ∧ b ∈ n :: N1 := by
        rw [← Array.getLast?_toList, hM, List.getLast?_append]
        have hne : (n :: N1) ≠ [] := by simp
        refine ⟨(n :: N1).getLast hne, ?_, List.getLast_mem hne⟩
        rw [List.getLast?_eq_some_getLast hne]; rfl
      apply ih ((b :: N1).dropLast) (by simpa using hN)
      · rw [Array.toList_pop, Array.toList_set, hM, hb]
        simp only [Option.getD_some]
        rw [List.set_append, if_neg (by simp)]
        simp only [Array.length_toList, Nat.sub_self, List.set_cons_zero]
        rw [List.dropLast_append_of_ne_nil (by simp)]
      · intro x hx
        have hx' := List.dropLast_subset _ hx
        rcases List.mem_cons.mp hx' with rfl | hx'
        · exact hI _ hbm
        · exact hI _ (List.mem_cons_of_mem _ hx')
      · omega

/-- In the middle of the array: an idle module in slot `i` (where the run without the idle modules has
just dropped a module) and idle modules at the end: the idle modules are moved into slot `i` one
after the other and dropped, and what remains is the array of the run without them. -/
theorem drain_mid : ∀ (k : Nat) (N : List Nat), N.length = k → ∀ (n : Nat) (Mx A : Array Nat) (i : Nat) (hi : i < A.size),
    Mx.toList = A.toList.set i n ++ N → Idle n → (∀ x ∈ N, Idle x) →
    ∀ (f f' p : Nat), A.size + k - i + 1 ≤ f → A.size - 1 - i + 1 ≤ f' →
      augmentPass reg f Mx i p s = augmentPass reg f' (A.set i (A.back?.getD 0) hi).pop i p s := by
  intro k
  induction k with
  | zero =>
    intro N hN n Mx A i hi hM hn _ f f' p hf hf'
    have : N = [] := List.eq_nil_of_length_eq_zero hN
    subst this
    simp only [List.append_nil] at hM
    have hsz : Mx.size = A.size := by
      have := congrArg List.length hM
      simpa using this
    obtain ⟨g, rfl⟩ : ∃ g, f = g + 1 := ⟨f - 1, by omega⟩
    have hiX : i < Mx.size := by omega
    have hel : Mx[i] = n := by
      rw [← Array.getElem_toList (h := by simpa using hiX)]
      simp [hM]
    rw [augmentPass_succ, dif_pos hiX, hel, hidle n hn]
    simp only [beq_self_eq_true, if_true, Nat.add_zero]
    have harr : (Mx.set i (Mx.back?.getD 0) hiX).pop = (A.set i (A.back?.getD 0) hi).pop := by
      apply Array.ext'
      rw [Array.toList_pop, Array.toList_set, Array.toList_pop, Array.toList_set, hM, List.set_set]
      apply dropLast_set_congr
      · intro h1
        rw [← Array.getLast?_toList, ← Array.getLast?_toList, hM, getLast?_set_of_lt _ _ _ (by simpa using h1)]
      · simpa using hi
    rw [harr]
    apply augmentPass_fuel_eq
    · simp only [Array.size_pop, Array.size_set]; omega
    · simp only [Array.size_pop, Array.size_set]; omega
  | succ k ih =>
    intro N hN n Mx A i hi hM hn hI f f' p hf hf'
    rcases List.eq_nil_or_concat N with rfl | ⟨N1, n', rfl⟩
    · cases hN
    · simp only [List.concat_eq_append] at hN hM hI
      have hN1 : N1.length = k := by simpa using hN
      have hsz : Mx.size = A.size + (k + 1) := by
        have := congrArg List.length hM
        simp only [Array.length_toList, List.length_append, List.length_set, List.length_cons, List.length_nil] at this
        omega
      obtain ⟨g, rfl⟩ : ∃ g, f = g + 1 := ⟨f - 1, by omega⟩
      have hiX : i < Mx.size := by omega
      have hel : Mx[i] = n := by
        rw [← Array.getElem_toList (h := by simpa using hiX)]
        simp only [hM]
        rw [List.getElem_append_left (by simpa using hi)]
        simp
      rw [augmentPass_succ, dif_pos hiX, hel, hidle n hn]
      simp only [beq_self_eq_true, if_true, Nat.add_zero]
      have hb : Mx.back? = some n' := by
        rw [← Array.getLast?_toList, hM, ← List.append_assoc, List.getLast?_concat]
      apply ih N1 hN1 n' _ A i hi
      · rw [Array.toList_pop, Array.toList_set, hM, hb]
        simp only [Option.getD_some]
        rw [List.set_append_left _ _ (by simpa using hi), List.set_set, ← List.append_assoc, List.dropLast_concat]
      · exact hI n' (by simp)
      · intro x hx; exact hI x (by simp [hx])
      · omega
      · exact hf'

end Drain

/-! ### what a pass and the loop keep -/

theorem swapRemove_mem (A : Array Nat) (i : Nat) (hi : i < A.size) :
    ∀ a ∈ (A.set i (A.back?.getD 0) hi).pop.toList, a ∈ A.toList := by
  intro a ha
  rw [Array.toList_pop, Array.toList_set] at ha
  have ha' := List.dropLast_subset _ ha
  rcases List.mem_or_eq_of_mem_set ha' with h1 | h1
  · exact h1
  · have hne : A.toList ≠ [] := by
      intro e
      have : A.size = 0 := by rw [← Array.length_toList, e]; rfl
      omega
    rw [← Array.getLast?_toList, List.getLast?_eq_some_getLast hne] at h1
    simp only [Option.getD_some] at h1
    rw [h1]
    exact List.getLast_mem hne

theorem augmentPass_keeps (B reg : Registry) : ∀ (f : Nat) (A : Array Nat) (i p : Nat) (s : PState), PInv B s →
    PInv B (augmentPass reg f A i p s).2.2 ∧ ∀ a ∈ (augmentPass reg f A i p s).1.toList, a ∈ A.toList := by
  intro f
  induction f with
  | zero => intro A i p s hs; exact ⟨hs, fun a ha => ha⟩
  | succ g ih =>
    intro A i p s hs
    rw [augmentPass_succ]
    split
    · next hi =>
      have hs' := augmentTree_pinv B reg A[i] false s hs
      split
      · obtain ⟨i1, i2⟩ := ih (A.set i (A.back?.getD 0) hi).pop i (p + (augmentTree reg A[i] false s).2.1) _ hs'
        exact ⟨i1, fun a ha => swapRemove_mem A i hi a (i2 a ha)⟩
      · exact ih A (i + 1) (p + (augmentTree reg A[i] false s).2.1) _ hs'
    · exact ⟨hs, fun a ha => ha⟩

theorem augmentLoop_keeps (B reg : Registry) : ∀ (f : Nat) (A : Array Nat) (s : PState), PInv B s →
    PInv B (augmentLoop reg f A s).2 ∧ ∀ a ∈ (augmentLoop reg f A s).1.toList, a ∈ A.toList := by
  intro f
  induction f with
  | zero => intro A s hs; exact ⟨hs, fun a ha => ha⟩
  | succ g ih =>
    intro A s hs
    rw [augmentLoop_succ]
    obtain ⟨k1, k2⟩ := augmentPass_keeps B reg (A.size + 1) A 0 0 s hs
    split
    · exact ⟨hs, fun a ha => ha⟩
    · split
      · exact ⟨k1, k2⟩
      · obtain ⟨i1, i2⟩ := ih _ _ k1
        exact ⟨i1, fun a ha => k2 a (i2 a ha)⟩

/-! ### the pass and the loop of the two runs -/

section
variable {B X : Registry} {ds : List Mod} {dk : KeyMap} (h : DevExtCore B X ds dk)
include h

/-- **One pass**: the array of the run with the new modules is that of the run without them followed
by new modules `N`; afterwards the arrays are equal. -/
theorem pass_ext {G : List (Nat × Entry)} (hG : NewTrees ds G) {P : List (Nat × List Entry)} (hP : PNew ds P) :
    ∀ (fB : Nat) (A Mx : Array Nat) (N : List Nat) (i p : Nat) (sB : PState) (fX : Nat),
      Mx.toList = A.toList ++ N → (∀ n ∈ N, ∃ d ∈ ds, d.seq = n) → (∀ a ∈ A.toList, ∃ m ∈ B.mods, m.seq = a) →
      PInv B sB → i ≤ A.size → A.size - i + 1 ≤ fB → A.size + N.length - i + 1 ≤ fX →
      augmentPass X fX Mx i p (lift G P sB) =
        ((augmentPass B fB A i p sB).1, (augmentPass B fB A i p sB).2.1, lift G P (augmentPass B fB A i p sB).2.2) := by
  intro fB
  induction fB with
  | zero => intros; omega
  | succ g ih =>
    intro A Mx N i p sB fX hM hN hA hs hiA hfB hfX
    have hsz : Mx.size = A.size + N.length := by
      have := congrArg List.length hM
      simpa using this
    by_cases hi : i < A.size
    · obtain ⟨gx, rfl⟩ : ∃ gx, fX = gx + 1 := ⟨fX - 1, by omega⟩
      have hiX : i < Mx.size := by omega
      have hel : Mx[i] = A[i] := by
        rw [← Array.getElem_toList (h := by simpa using hiX), ← Array.getElem_toList (h := by simpa using hi)]
        simp only [hM]
        rw [List.getElem_append_left (by simpa using hi)]
      have hold : ∃ m ∈ B.mods, m.seq = A[i] := hA _ (by simp)
      rw [augmentPass_succ, augmentPass_succ, dif_pos hiX]
      simp only [dif_pos hi]
      rw [hel, augmentTree_lift h hG hP A[i] hold false sB hs]
      have hs' := augmentTree_pinv B B A[i] false sB hs
      generalize augmentTree B A[i] false sB = r at hs'
      obtain ⟨sB', p', k'⟩ := r
      simp only at hs' ⊢
      have hidle : ∀ n, (∃ d ∈ ds, d.seq = n) → augmentTree X n false (lift G P sB') = (lift G P sB', 0, 0) :=
        fun n hn => augmentTree_new h G hP n hn sB' hs'
      by_cases hk : (k' == 0) = true
      · simp only [hk, if_true]
        have hdrain : augmentPass X gx (Mx.set i (Mx.back?.getD 0) hiX).pop i (p + p') (lift G P sB') =
            augmentPass X g (A.set i (A.back?.getD 0) hi).pop i (p + p') (lift G P sB') := by
          rcases List.eq_nil_or_concat N with rfl | ⟨N1, n', rfl⟩
          · have : Mx = A := Array.ext' (by simpa using hM)
            subst this
            apply augmentPass_fuel_eq
            · simp only [Array.size_pop, Array.size_set]; simp at hfX; omega
            · simp only [Array.size_pop, Array.size_set]; omega
          · simp only [List.concat_eq_append] at hN hM hfX hsz
            have hb : Mx.back? = some n' := by
              rw [← Array.getLast?_toList, hM, ← List.append_assoc, List.getLast?_concat]
            apply drain_mid X (lift G P sB') (fun n => ∃ d ∈ ds, d.seq = n) hidle N1.length N1 rfl n' _ A i hi
            · rw [Array.toList_pop, Array.toList_set, hM, hb]
              simp only [Option.getD_some]
              rw [← List.append_assoc, List.set_append_left _ _ (by simp; omega),
                List.set_append_left _ _ (by simpa using hi), List.dropLast_concat]
            · exact hN n' (by simp)
            · intro x hx; exact hN x (by simp [hx])
            · simp at hfX; omega
            · omega
        rw [hdrain]
        have := ih (A.set i (A.back?.getD 0) hi).pop (A.set i (A.back?.getD 0) hi).pop [] i (p + p') sB' g (by simp)
          (fun _ hn => by cases hn) (fun a ha => hA a (swapRemove_mem A i hi a ha)) hs'
          (by simp only [Array.size_pop, Array.size_set]; omega)
          (by simp only [Array.size_pop, Array.size_set]; omega)
          (by simp only [Array.size_pop, Array.size_set, List.length_nil]; omega)
        exact this
      · simp only [hk]
        exact ih A Mx N (i + 1) (p + p') sB' gx hM hN hA hs' (by omega) (by omega) (by omega)
    · have : i = A.size := by omega
      subst this
      rw [augmentPass_succ, dif_neg hi]
      exact drain_end X (lift G P sB) (fun n => ∃ d ∈ ds, d.seq = n) (fun n hn => augmentTree_new h G hP n hn sB hs)
        N.length N rfl Mx A hM hN fX p (by omega)

theorem loop_same {G : List (Nat × Entry)} (hG : NewTrees ds G) {P : List (Nat × List Entry)} (hP : PNew ds P) :
    ∀ (fuel : Nat) (A : Array Nat) (sB : PState), (∀ a ∈ A.toList, ∃ m ∈ B.mods, m.seq = a) → PInv B sB →
      augmentLoop X fuel A (lift G P sB) = ((augmentLoop B fuel A sB).1, lift G P (augmentLoop B fuel A sB).2) := by
  intro fuel
  induction fuel with
  | zero => intro A sB _ _; rfl
  | succ g ih =>
    intro A sB hA hs
    rw [augmentLoop_succ, augmentLoop_succ]
    have hp := pass_ext h hG hP (A.size + 1) A A [] 0 0 sB (A.size + 1) (by simp) (fun _ hn => by cases hn) hA hs
      (by omega) (by omega) (by simp)
    obtain ⟨k1, k2⟩ := augmentPass_keeps B B (A.size + 1) A 0 0 sB hs
    rw [hp]
    generalize augmentPass B (A.size + 1) A 0 0 sB = r at k1 k2
    obtain ⟨A', p', s'⟩ := r
    simp only at k1 k2 ⊢
    split
    · rfl
    · split
      · rfl
      · exact ih A' s' (fun a ha => hA a (k2 a ha)) k1

/-- **The loop**: the same array is left over, and the states are related as before. -/
theorem loop_ext {G : List (Nat × Entry)} (hG : NewTrees ds G) {P : List (Nat × List Entry)} (hP : PNew ds P)
    (fuel : Nat) (A Mx : Array Nat) (N : List Nat) (sB : PState) (hM : Mx.toList = A.toList ++ N)
    (hN : ∀ n ∈ N, ∃ d ∈ ds, d.seq = n) (hA : ∀ a ∈ A.toList, ∃ m ∈ B.mods, m.seq = a) (hs : PInv B sB) :
    augmentLoop X (fuel + 1) Mx (lift G P sB) =
      ((augmentLoop B (fuel + 1) A sB).1, lift G P (augmentLoop B (fuel + 1) A sB).2) := by
  have hsz : Mx.size = A.size + N.length := by
    have := congrArg List.length hM
    simpa using this
  rw [augmentLoop_succ, augmentLoop_succ]
  have hp := pass_ext h hG hP (A.size + 1) A Mx N 0 0 sB (Mx.size + 1) hM hN hA hs (by omega) (by omega) (by omega)
  obtain ⟨k1, k2⟩ := augmentPass_keeps B B (A.size + 1) A 0 0 sB hs
  rw [hp]
  by_cases hMe : Mx.isEmpty = true
  · have hM0 : Mx.size = 0 := by simpa using hMe
    have hA0 : A = #[] := by apply Array.eq_empty_of_size_eq_zero; omega
    have hMx0 : Mx = #[] := Array.eq_empty_of_size_eq_zero hM0
    subst hA0 hMx0
    rfl
  · simp only [hMe, Bool.false_eq_true, if_false]
    by_cases hAe : A.isEmpty = true
    · have hA0 : A = #[] := by apply Array.eq_empty_of_size_eq_zero; simpa using hAe
      subst hA0
      rfl
    · simp only [hAe, Bool.false_eq_true, if_false]
      generalize augmentPass B (A.size + 1) A 0 0 sB = r at k1 k2
      obtain ⟨A', p', s'⟩ := r
      simp only at k1 k2 ⊢
      split
      · rfl
      · exact loop_same h hG hP fuel A' s' (fun a ha => hA a (k2 a ha)) k1

end


end Goyang.Lemmas.DevExt
