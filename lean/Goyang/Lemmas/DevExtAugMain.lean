import Goyang.Lemmas.DevExtAugLoop
/-
C08, frame across module sets — part 7: the augment stage of `processAll` for a base registry WITH
top-level augments (`preDev_ext_aug`): the forest with which the run with the deviation-only modules
enters the deviation stage is that of the run without them plus trees of new modules.  Core Lean only.
-/
namespace Goyang.Lemmas.DevExt
open Goyang.Model
open Goyang.Lemmas.Tree (envOf keyOrder tstate forest0 pending0 pstate0 preDev fixAll afterLoop afterRounds leftoverPass allMods augOrder)

section
variable {B X : Registry} {ds : List Mod} {dk : KeyMap} (h : DevExtCore B X ds dk)
include h

/-! ### the state before the loop -/

theorem distinctModules_ext :
    X.distinctModules = B.distinctModules ++ ds.filter fun m => X.modules.any (·.2 == m.seq) := by
  unfold Registry.distinctModules
  rw [h.mods, List.filter_append]
  congr 1
  apply List.filter_congr
  intro m hm
  rw [h.modules, List.any_append]
  have : dk.any (·.2 == m.seq) = false := by
    apply List.any_eq_false.mpr
    intro kv hkv
    obtain ⟨d, hd, hds⟩ := h.tblD kv hkv
    have := h.seqFresh m hm d hd
    simpa [← hds] using fun e => this e.symm
  rw [this, Bool.or_false]

omit h in
theorem distinctSubs_nil (r : Registry) (hr : r.subModules = []) : r.distinctSubs = [] := by
  unfold Registry.distinctSubs
  rw [hr]
  simp

theorem allMods_ext : allMods X = allMods B ++ ds.filter fun m => X.modules.any (·.2 == m.seq) := by
  unfold allMods
  rw [distinctSubs_nil X h.subsX, distinctSubs_nil B h.subsB, distinctModules_ext h]
  simp

omit h in
theorem allMods_mem (r : Registry) (m : Mod) (hm : m ∈ allMods r) : m ∈ r.mods := by
  unfold allMods Registry.distinctModules Registry.distinctSubs at hm
  rcases List.mem_append.mp hm with hm | hm <;> exact (List.mem_filter.mp hm).1

/-- The row of pending augments filed under `id`. -/
def rowOf (augs : List (Nat × List Entry)) (id : Nat) : List Entry := ((augs.find? (·.1 == id)).map (·.2)).getD []

omit h in
theorem rowOf_append (a g : List (Nat × List Entry)) (hg : ∀ p ∈ g, p.2 = []) (id : Nat) :
    rowOf (a ++ g) id = rowOf a id := by
  unfold rowOf
  rw [List.find?_append]
  cases a.find? (·.1 == id) with
  | some x => rfl
  | none =>
    simp only [Option.none_or]
    cases hf : g.find? (·.1 == id) with
    | none => rfl
    | some r => simp [hg r (List.mem_of_find?_eq_some hf)]

omit h in
theorem rowOf_new (opts : Opts) (plug : Plug) (id : Nat) (hid : ∀ m ∈ B.mods, m.seq ≠ id) :
    rowOf (tstate B opts plug).augs id = [] := by
  unfold rowOf
  rw [List.find?_eq_none.mpr]
  · rfl
  · intro p hp
    obtain ⟨m, hm, e, _⟩ := Bridge.tstate_rows B opts plug p hp
    have := hid m hm
    simpa [e] using this

omit h in
theorem pinv_pstate0 (opts : Opts) (plug : Plug) : PInv B (pstate0 B opts plug) := by
  have hrow : ∀ m ∈ allMods B, ∀ a ∈ rowOf (tstate B opts plug).augs m.seq, ∃ m' ∈ B.mods, m'.seq = a.d.nodeMod := by
    intro m _ a ha
    unfold rowOf at ha
    cases hf : (tstate B opts plug).augs.find? (·.1 == m.seq) with
    | none => rw [hf] at ha; cases ha
    | some r =>
      rw [hf] at ha
      obtain ⟨m', hm', _, _, h3, _⟩ := Bridge.tstate_rows B opts plug r (List.mem_of_find?_eq_some hf)
      exact ⟨m', hm', (h3 a ha).symm⟩
  constructor
  · intro p hp
    simp only [pstate0, pending0, List.mem_map] at hp
    obtain ⟨m, hm, rfl⟩ := hp
    exact ⟨m, allMods_mem B m hm, rfl⟩
  · intro p hp a ha
    simp only [pstate0, pending0, List.mem_map] at hp
    obtain ⟨m, hm, rfl⟩ := hp
    exact hrow m hm a ha

/-- **The state with which the run with the new modules enters the augment loop.** -/
theorem pstate0_ext {plug : Plug} {opts : Opts} (hconv : ConvAgreeTop B X opts plug) :
    ∃ G P, NewTrees ds G ∧ PNew ds P ∧ pstate0 X opts plug = lift G P (pstate0 B opts plug) := by
  obtain ⟨G, hG, hc⟩ := (tstate_ext h hconv).cache
  obtain ⟨GA, hGA, ha⟩ := (tstate_ext h hconv).augs
  have hrow : ∀ id, rowOf (tstate X opts plug).augs id = rowOf (tstate B opts plug).augs id := by
    intro id; rw [ha]; exact rowOf_append _ _ hGA id
  refine ⟨G, (ds.filter fun m => X.modules.any (·.2 == m.seq)).map fun m => (m.seq, ([] : List Entry)), hG, ?_, ?_⟩
  · intro p hp
    obtain ⟨d, hd, rfl⟩ := List.mem_map.mp hp
    exact ⟨rfl, d, (List.mem_filter.mp hd).1, rfl⟩
  · unfold pstate0 lift forest0 pending0
    simp only [PState.mk.injEq]
    constructor
    · rw [hc]; rfl
    · rw [allMods_ext h, List.map_append]
      have p1 : (allMods B).map (fun m => (m.seq, rowOf (tstate X opts plug).augs m.seq)) =
          (allMods B).map (fun m => (m.seq, rowOf (tstate B opts plug).augs m.seq)) := by
        apply map_congr'
        intro m _
        exact congrArg (Prod.mk m.seq) (hrow m.seq)
      have p2 : (ds.filter fun m => X.modules.any (·.2 == m.seq)).map (fun m => (m.seq, rowOf (tstate X opts plug).augs m.seq)) =
          (ds.filter fun m => X.modules.any (·.2 == m.seq)).map (fun m => (m.seq, ([] : List Entry))) := by
        apply map_congr'
        intro d hd
        have hdd : d ∈ ds := (List.mem_filter.mp hd).1
        refine congrArg (Prod.mk d.seq) ?_
        rw [hrow]
        exact rowOf_new opts plug d.seq (fun m hm => h.seqFresh m hm d hdd)
      exact (congrArg (· ++ _) p1).trans (congrArg (_ ++ ·) p2)

/-! ### the order of the loop -/

/-- The new modules in the order of the augment loop. -/
def newAugOrder (X : Registry) (dk : KeyMap) : List Mod :=
  sortBy (fun (a b : Mod) => if a.fullName != b.fullName then a.fullName < b.fullName else !a.isSub && b.isSub)
    (dk.filterMap fun kv => X.byId kv.2)

theorem keyedNew_mem {d : Mod} (hd : d ∈ dk.filterMap fun kv => X.byId kv.2) : d ∈ ds := by
  obtain ⟨kv, hkv, hb⟩ := List.mem_filterMap.mp hd
  obtain ⟨d', hd', hds⟩ := h.tblD kv hkv
  unfold Registry.byId at hb
  rw [h.mods, List.find?_append] at hb
  cases hf : B.mods.find? (·.seq == kv.2) with
  | some m =>
    have hm := List.mem_of_find?_eq_some hf
    have hs : m.seq = kv.2 := by simpa using List.find?_some hf
    exact absurd (hs.trans hds.symm) (h.seqFresh m hm d' hd')
  | none =>
    rw [hf] at hb
    simp only [Option.none_or] at hb
    exact List.mem_of_find?_eq_some hb

theorem augOrder_ext : augOrder X = augOrder B ++ newAugOrder X dk := by
  unfold augOrder newAugOrder
  rw [h.subsX, h.subsB, List.append_nil, List.append_nil, h.modules, List.filterMap_append]
  have e1 : B.modules.filterMap (fun kv => X.byId kv.2) = B.modules.filterMap (fun kv => B.byId kv.2) := by
    apply filterMap_congr'
    intro kv hkv
    obtain ⟨m, hm, hms⟩ := h.tblB kv hkv
    rw [← hms]
    exact byId_ext h (Old.of_mem h hm)
  rw [e1]
  apply sortBy_append
  intro a ha b hb
  have haB : a ∈ B.mods := by
    obtain ⟨kv, _, hb'⟩ := List.mem_filterMap.mp ha
    exact Fuel.byId_mem hb'
  have hlt := h.nameLast a haB b (keyedNew_mem h hb)
  have hne : a.fullName ≠ b.fullName := fun e => String.lt_irrefl _ (e ▸ hlt)
  simp [hne, hlt]

omit h in
theorem augOrder_mem (r : Registry) (m : Mod) (hm : m ∈ augOrder r) : m ∈ r.mods := by
  unfold augOrder at hm
  obtain ⟨kv, _, hb⟩ := List.mem_filterMap.mp ((Tree.mem_sortBy _ m _).mp hm)
  exact Fuel.byId_mem hb

theorem newAugOrder_mem (d : Mod) (hd : d ∈ newAugOrder X dk) : d ∈ ds :=
  keyedNew_mem h ((Tree.mem_sortBy _ d _).mp hd)

/-! ### the stages -/

omit h in
theorem total_lift (G : List (Nat × Entry)) {P : List (Nat × List Entry)} (hP : PNew ds P) (s : PState) :
    (lift G P s).pending.foldl (fun n p => n + p.2.length) 0 = s.pending.foldl (fun n p => n + p.2.length) 0 := by
  show (s.pending ++ P).foldl _ 0 = _
  rw [List.foldl_append]
  generalize s.pending.foldl (fun n p => n + p.2.length) 0 = t
  induction P generalizing t with
  | nil => rfl
  | cons p P ih =>
    simp only [List.foldl_cons]
    rw [(hP p (List.mem_cons_self ..)).1]
    exact ih (fun q hq => hP q (List.mem_cons_of_mem _ hq)) t

omit h in
theorem fixAll_lift (G : List (Nat × Entry)) (P : List (Nat × List Entry)) (s : PState) :
    fixAll (lift G P s) = lift (G.map fun (x : Nat × Entry) => (x.1, fixChoice x.2)) P (fixAll s) := by
  unfold fixAll lift ext
  simp only [List.map_append]

omit h in
theorem newTrees_fix {G : List (Nat × Entry)} (hG : NewTrees ds G) :
    NewTrees ds (G.map fun (x : Nat × Entry) => (x.1, fixChoice x.2)) := by
  intro g hg
  obtain ⟨g0, hg0, rfl⟩ := List.mem_map.mp hg
  exact hG g0 hg0

theorem leftover_lift {G : List (Nat × Entry)} (hG : NewTrees ds G) {P : List (Nat × List Entry)} (hP : PNew ds P)
    (left : List Nat) (hleft : ∀ a ∈ left, ∃ m ∈ B.mods, m.seq = a) :
    ∀ (s : PState) (n : Nat), PInv B s →
    left.foldl (fun (acc : PState × Nat) id =>
        let (s, p, _) := augmentTree X id true acc.1
        (s, acc.2 + p)) (lift G P s, n) =
      (lift G P (left.foldl (fun (acc : PState × Nat) id =>
        let (s, p, _) := augmentTree B id true acc.1
        (s, acc.2 + p)) (s, n)).1,
       (left.foldl (fun (acc : PState × Nat) id =>
        let (s, p, _) := augmentTree B id true acc.1
        (s, acc.2 + p)) (s, n)).2) := by
  induction left with
  | nil => intro s n _; rfl
  | cons id left ih =>
    intro s n hs
    simp only [List.foldl_cons]
    rw [augmentTree_lift h hG hP id (hleft id (List.mem_cons_self ..)) true s hs]
    have hs' := augmentTree_pinv B B id true s hs
    generalize augmentTree B id true s = r at hs'
    obtain ⟨s', p', k'⟩ := r
    exact ih (fun a ha => hleft a (List.mem_cons_of_mem _ ha)) s' (n + p') hs'

/-- **The retry rounds of the two runs**: the same module list is left over and the states are related
as before (the new trees, like all the others, go through `FixChoice` after every productive round). -/
theorem rounds_lift {P : List (Nat × List Entry)} (hP : PNew ds P) (fuel n : Nat) (A : Array Nat)
    (hA : ∀ a ∈ A.toList, ∃ m ∈ B.mods, m.seq = a) (sB : PState) (hs : PInv B sB)
    {G : List (Nat × Entry)} (hG : NewTrees ds G) :
    (leftoverRounds X fuel n A (lift G P sB)).1 = (leftoverRounds B fuel n A sB).1 ∧
    (∀ a ∈ (leftoverRounds B fuel n A sB).1.toList, ∃ m ∈ B.mods, m.seq = a) ∧
    PInv B (leftoverRounds B fuel n A sB).2 ∧
    ∃ G', NewTrees ds G' ∧ (leftoverRounds X fuel n A (lift G P sB)).2 = lift G' P (leftoverRounds B fuel n A sB).2 := by
  have key := Rounds.rounds_rel B X
    (fun m₁ s₁ m₂ s₂ => m₂ = m₁ ∧ (∀ a ∈ m₁.toList, ∃ m ∈ B.mods, m.seq = a) ∧ PInv B s₁ ∧
      ∃ G', NewTrees ds G' ∧ s₂ = lift G' P s₁)
    (fun fuel m₁ s₁ m₂ s₂ hR => by
      obtain ⟨rfl, hA1, hs1, G1, hG1, rfl⟩ := hR
      obtain ⟨k1, k2⟩ := augmentLoop_keeps B B fuel m₂ s₁ hs1
      rw [loop_same h hG1 hP fuel m₂ s₁ hA1 hs1]
      exact ⟨rfl, fun a ha => hA1 a (k2 a ha), k1, G1, hG1, rfl⟩)
    (fun fuel m₁ s₁ m₂ s₂ hR => by
      obtain ⟨rfl, hA1, hs1, G1, hG1, rfl⟩ := hR
      rw [Rounds.loopCount_eq_zero, Rounds.loopCount_eq_zero]
      have hp := pass_ext h hG1 hP (m₂.size + 1) m₂ m₂ [] 0 0 s₁ (m₂.size + 1) (by simp)
        (fun _ hn => by cases hn) hA1 hs1 (by omega) (by omega) (by simp)
      rw [hp])
    (fun m₁ s₁ m₂ s₂ hR => by
      obtain ⟨rfl, hA1, hs1, G1, hG1, rfl⟩ := hR
      exact ⟨rfl, hA1, hs1, _, newTrees_fix hG1, fixAll_lift G1 P s₁⟩)
    fuel n A sB A (lift G P sB) ⟨rfl, hA, hs, G, hG, rfl⟩
  exact ⟨key.1, key.2.1, key.2.2.1, key.2.2.2⟩

/-- **The two runs agree before the deviation stage, whatever augments `B` has.** -/
theorem preDev_ext_aug {plug : Plug} {opts : Opts} (hconv : ConvAgreeTop B X opts plug) :
    ∃ G, NewTrees ds G ∧ (preDev X opts plug).forest = ext G (preDev B opts plug).forest := by
  obtain ⟨G, P, hG, hP, h0⟩ := pstate0_ext h hconv
  have hinv0 := pinv_pstate0 (B := B) opts plug
  have hA : ∀ a ∈ (((augOrder B).map (·.seq)).toArray).toList, ∃ m ∈ B.mods, m.seq = a := by
    intro a ha
    simp only [List.mem_map] at ha
    obtain ⟨m, hm, rfl⟩ := ha
    exact ⟨m, augOrder_mem B m hm, rfl⟩
  have hN : ∀ n ∈ (newAugOrder X dk).map (·.seq), ∃ d ∈ ds, d.seq = n := by
    intro n hn
    obtain ⟨d, hd, rfl⟩ := List.mem_map.mp hn
    exact ⟨d, newAugOrder_mem h d hd, rfl⟩
  -- the loop
  have hloop : afterLoop X opts plug = ((afterLoop B opts plug).1, lift G P (afterLoop B opts plug).2) := by
    unfold afterLoop
    have e1 : pending0 X opts plug = (pstate0 X opts plug).pending := rfl
    have e2 : pending0 B opts plug = (pstate0 B opts plug).pending := rfl
    rw [e1, e2, h0, total_lift G hP]
    exact loop_ext h hG hP _ _ _ ((newAugOrder X dk).map (·.seq)) _ (by rw [augOrder_ext h]; simp) hN hA hinv0
  obtain ⟨k1, k2⟩ := augmentLoop_keeps B B ((pending0 B opts plug).foldl (fun n p => n + p.2.length) 0 + 2)
    ((augOrder B).map (·.seq)).toArray (pstate0 B opts plug) hinv0
  have hleft : ∀ a ∈ (afterLoop B opts plug).1.toList, ∃ m ∈ B.mods, m.seq = a := fun a ha => hA a (k2 a ha)
  have hinvL : PInv B (fixAll (afterLoop B opts plug).2) := k1
  -- the retry rounds
  have hfuel : (pending0 X opts plug).foldl (fun n p => n + p.2.length) 0 =
      (pending0 B opts plug).foldl (fun n p => n + p.2.length) 0 := by
    have e1 : pending0 X opts plug = (pstate0 X opts plug).pending := rfl
    have e2 : pending0 B opts plug = (pstate0 B opts plug).pending := rfl
    rw [e1, e2, h0, total_lift G hP]
  obtain ⟨r1, r2, r3, G', hG', r4⟩ := rounds_lift h hP
    ((pending0 B opts plug).foldl (fun n p => n + p.2.length) 0 + 2)
    ((pending0 B opts plug).foldl (fun n p => n + p.2.length) 0 + 2)
    (afterLoop B opts plug).1 hleft (fixAll (afterLoop B opts plug).2) hinvL (newTrees_fix hG)
  have hrounds : afterRounds X opts plug = ((afterRounds B opts plug).1, lift G' P (afterRounds B opts plug).2) := by
    unfold afterRounds
    rw [hloop, hfuel]
    simp only
    rw [fixAll_lift]
    exact Prod.ext r1 r4
  -- the reporting sweep
  have hlo : leftoverPass X opts plug = (lift G' P (leftoverPass B opts plug).1, (leftoverPass B opts plug).2) := by
    unfold leftoverPass
    rw [hrounds]
    simp only
    rw [← Array.foldl_toList, ← Array.foldl_toList]
    exact leftover_lift h hG' hP _ r2 _ 0 r3
  unfold preDev
  rw [hlo]
  simp only
  split
  · rw [fixAll_lift]
    exact ⟨_, newTrees_fix hG', rfl⟩
  · exact ⟨_, hG', rfl⟩

end

end Goyang.Lemmas.DevExt
