import Goyang.Lemmas.Deviate
import Goyang.Lemmas.Tree
import Goyang.Lemmas.Fuel
/-
C08, frame across module sets — part 1: registries extended by deviation-only modules.

`DevExt B X ds dk`: the registry `X` is the registry `B` with the modules `ds` loaded after it
(`dk` = their rows of the module table).  This file: the definition, the registry lookups that the
resolver makes on behalf of a module of `B` answer the same in `X`, `sortBy` over an appended block
that sorts last, forests with extra trees (`ext G f`), and `find` / `namespaceAt` on them.
Core Lean only.
-/
namespace Goyang.Lemmas.DevExt
open Goyang.Model

/-! ### sorting a list whose second block sorts last -/

theorem insertBy_append {α} (lt : α → α → Bool) (x : α) (s1 s2 : List α) (h : ∀ y ∈ s2, lt x y = true) :
    insertBy lt x (s1 ++ s2) = insertBy lt x s1 ++ s2 := by
  induction s1 with
  | nil =>
    cases s2 with
    | nil => rfl
    | cons y ys => simp [insertBy, h y (List.mem_cons_self ..)]
  | cons a s1 ih =>
    simp only [List.cons_append, insertBy]
    split
    · rfl
    · simp [ih]

theorem sortBy_cons {α} (lt : α → α → Bool) (a : α) (l : List α) : sortBy lt (a :: l) = insertBy lt a (sortBy lt l) := rfl

theorem sortBy_append {α} (lt : α → α → Bool) (l1 l2 : List α) (h : ∀ a ∈ l1, ∀ b ∈ l2, lt a b = true) :
    sortBy lt (l1 ++ l2) = sortBy lt l1 ++ sortBy lt l2 := by
  induction l1 with
  | nil => rfl
  | cons a l1 ih =>
    rw [List.cons_append, sortBy_cons, sortBy_cons, ih (fun x hx => h x (List.mem_cons_of_mem _ hx)), insertBy_append]
    intro y hy
    exact h a (List.mem_cons_self ..) y ((Tree.mem_sortBy lt y l2).mp hy)

/-! ### the extension -/

/-- The keywords a deviation-only module may have at its top level. -/
def devOnlyKws : List String :=
  ["yang-version", "namespace", "prefix", "import", "organization", "contact", "description", "reference",
   "revision", "deviation"]

/-- A module statement with header statements, imports and deviations only. -/
def DeviationOnly (s : Stmt) : Prop := s.kw = "module" ∧ ∀ c ∈ s.subs, c.kw ∈ devOnlyKws

instance (s : Stmt) : Decidable (DeviationOnly s) := by unfold DeviationOnly; exact inferInstance

mutual
/-- No `uses` statement anywhere in the statement tree. -/
def noUses : Stmt → Bool
  | .mk kw _ _ _ _ _ subs => kw != "uses" && noUsesL subs
def noUsesL : List Stmt → Bool
  | [] => true
  | s :: ss => noUses s && noUsesL ss
end

theorem noUsesL_mem {l : List Stmt} (h : noUsesL l = true) {c : Stmt} (hc : c ∈ l) : noUses c = true := by
  induction l with
  | nil => cases hc
  | cons a l ih =>
    simp only [noUsesL, Bool.and_eq_true] at h
    rcases List.mem_cons.mp hc with rfl | hc
    · exact h.1
    · exact ih h.2 hc

theorem noUses_subs {t : Stmt} (ht : noUses t = true) : noUsesL t.subs = true := by
  cases t with
  | mk kw ha arg file line col subs =>
    simp only [noUses, Bool.and_eq_true] at ht
    exact ht.2

theorem noUses_sub {s t : Stmt} (h : Fuel.Sub s t) (ht : noUses t = true) : noUses s = true := by
  induction h with
  | refl => exact ht
  | step hm _ ih => exact ih (noUsesL_mem (noUses_subs ht) hm)

theorem noUses_kw {s : Stmt} (h : noUses s = true) : (s.kw == "uses") = false := by
  cases s with
  | mk kw ha arg file line col subs =>
    simp only [noUses, Bool.and_eq_true, bne_iff_ne, ne_eq] at h
    simp [Stmt.kw, h.1]

/-- `X` is `B` plus the modules `ds`, loaded after `B`; `dk` are their rows of the module table
(everything but the restriction on `uses`). -/
structure DevExtCore (B X : Registry) (ds : List Mod) (dk : KeyMap) : Prop where
  mods : X.mods = B.mods ++ ds
  modules : X.modules = B.modules ++ dk
  /-- no submodules (restriction of the present proof) -/
  subsX : X.subModules = []
  subsB : B.subModules = []
  /-- the sequence numbers of the new modules are new -/
  seqFresh : ∀ m ∈ B.mods, ∀ d ∈ ds, m.seq ≠ d.seq
  /-- the rows of `B` point to modules of `B`, the new rows to new modules -/
  tblB : ∀ kv ∈ B.modules, ∃ m ∈ B.mods, m.seq = kv.2
  tblD : ∀ kv ∈ dk, ∃ d ∈ ds, d.seq = kv.2
  /-- the new modules sort after the modules of `B`: by table key and by full name (restriction of
  the present proof: the conversion order, the augment loop's swap-remove order) -/
  keyLast : ∀ kb ∈ B.modules, ∀ kd ∈ dk, kb.1 < kd.1
  nameLast : ∀ m ∈ B.mods, ∀ d ∈ ds, m.fullName < d.fullName
  /-- nobody in `B` imports a new module, or belongs to one -/
  imports : ∀ m ∈ B.mods, ∀ i ∈ m.imports, X.findModule false i = B.findModule false i
  ownerEq : ∀ m ∈ B.mods, X.owner m = B.owner m
  /-- the new modules contain nothing but header statements, imports and deviations -/
  devOnly : ∀ d ∈ ds, DeviationOnly d.stmt

/-- `DevExtCore` plus: no `uses` in `B` (restriction of the proof of `frame_across_modules`: the fuel
of the grouping search). -/
structure DevExt (B X : Registry) (ds : List Mod) (dk : KeyMap) : Prop extends DevExtCore B X ds dk where
  noUsesB : ∀ m ∈ B.mods, noUses m.stmt = true

section
variable {B X : Registry} {ds : List Mod} {dk : KeyMap} (h : DevExtCore B X ds dk)
include h

/-- `id` is not the sequence number of a new module. -/
def Old (ds : List Mod) (id : Nat) : Prop := ∀ d ∈ ds, d.seq ≠ id

omit h in
theorem Old.of_mem {B X : Registry} {ds : List Mod} {dk : KeyMap} (h : DevExtCore B X ds dk) {m : Mod} (hm : m ∈ B.mods) :
    Old ds m.seq := fun d hd e => h.seqFresh m hm d hd e.symm

theorem byId_ext {id : Nat} (hid : Old ds id) : X.byId id = B.byId id := by
  unfold Registry.byId
  rw [h.mods, List.find?_append]
  cases hb : B.mods.find? (·.seq == id) with
  | some m => rfl
  | none =>
    simp only [Option.none_or]
    apply List.find?_eq_none.mpr
    intro d hd
    simpa using hid d hd

theorem findModuleByPrefix_ext {cm : Mod} (hcm : cm ∈ B.mods) (pfx : String) :
    X.findModuleByPrefix cm pfx = B.findModuleByPrefix cm pfx := by
  unfold Registry.findModuleByPrefix
  split
  · rfl
  · split
    · next i hi => exact h.imports cm hcm i (List.mem_of_find?_eq_some hi)
    · rfl

omit h in
theorem findModuleByPrefix_mem {r : Registry} {cm m : Mod} {pfx : String} (hcm : cm ∈ r.mods)
    (hm : r.findModuleByPrefix cm pfx = some m) : m ∈ r.mods := by
  unfold Registry.findModuleByPrefix at hm
  split at hm
  · cases hm; exact hcm
  · split at hm
    · exact Fuel.findModule_mem hm
    · cases hm

omit h in
theorem owner_mem' {r : Registry} {m o : Mod} (hm : m ∈ r.mods) (ho : r.owner m = some o) : o ∈ r.mods := by
  unfold Registry.owner at ho
  split at ho
  · exact Fuel.getModule_mem ho
  · cases ho; exact hm

/-! ### forests with extra trees -/

/-- The forest `f` with the trees `G` appended. -/
def ext (G : List (Nat × Entry)) (f : Forest) : Forest := { trees := f.trees ++ G }

omit h in
theorem tree?_ext (G : List (Nat × Entry)) (f : Forest) (t : Nat) (ht : ∀ g ∈ G, g.1 ≠ t) :
    (ext G f).tree? t = f.tree? t := by
  unfold Forest.tree? ext
  simp only [List.find?_append]
  cases f.trees.find? (·.1 == t) with
  | some x => rfl
  | none =>
    simp only [Option.none_or]
    rw [List.find?_eq_none.mpr]
    intro g hg
    simpa using ht g hg

omit h in
theorem setTree_ext (G : List (Nat × Entry)) (f : Forest) (t : Nat) (e : Entry) (ht : ∀ g ∈ G, g.1 ≠ t) :
    (ext G f).setTree t e = ext G (f.setTree t e) := by
  unfold Forest.setTree ext
  simp only [List.map_append, Forest.mk.injEq, List.append_cancel_left_eq]
  rw [List.map_congr_left (g := id)]
  · simp
  · intro g hg
    obtain ⟨i, x⟩ := g
    have : ¬ i = t := ht (i, x) hg
    simp [this]

/-! ### `find` without the registry -/

/-- The tree an absolute path starts in (`find`, first half). -/
def treeOf (reg : Registry) (start : Loc) (ctxMod : Nat) (first : String) : Option Nat :=
  let pfx := (splitPrefix first).1
  if pfx == "" then
    match reg.byId start.1 with
    | some sm => if sm.isSub then ((reg.owner sm).map (·.seq)).getD start.1 else start.1
    | none => some start.1
  else
  match reg.byId ctxMod with
  | none => none
  | some cm =>
    match reg.findModuleByPrefix cm pfx with
    | none => none
    | some m => (reg.owner m).map (·.seq)

/-- `find` for an absolute path, given the tree. -/
def findAbs (f : Forest) (start : Loc) (tree : Option Nat) (parts : List String) : Option Loc × Forest :=
  match tree with
  | none =>
    (none, match f.tree? start.1 with
      | some root => f.setTree start.1 (root.addErr (Err.bare "other"))
      | none => f)
  | some t =>
    match f.tree? t with
    | none => (none, f)
    | some root =>
      let (r, root) := walkParts parts root (some [])
      (r.map (t, ·), f.setTree t root)

def findRel (f : Forest) (start : Loc) (parts : List String) : Option Loc × Forest :=
  match f.tree? start.1 with
  | none => (none, f)
  | some root =>
    let (r, root) := walkParts parts root (some start.2)
    (r.map (start.1, ·), f.setTree start.1 root)

def findParts (reg : Registry) (f : Forest) (start : Loc) (ctxMod : Nat) : List String → Option Loc × Forest
  | "" :: parts => findAbs f start (treeOf reg start ctxMod (parts.headD "")) parts
  | parts => findRel f start parts

omit h in
theorem find_eq (reg : Registry) (f : Forest) (start : Loc) (ctxMod : Nat) (name : String) :
    find reg f start ctxMod name =
      if name == "" then (none, f) else findParts reg f start ctxMod (name.splitOn "/") := by
  unfold find
  split
  · rfl
  · simp only
    generalize name.splitOn "/" = l
    split
    · rfl
    · next hne => rw [findParts.eq_2 _ _ _ _ _ hne]; rfl

theorem treeOf_ext {start : Loc} {ctxMod : Nat} (hs : ∃ m ∈ B.mods, m.seq = start.1) (hc : Old ds ctxMod)
    (first : String) : treeOf X start ctxMod first = treeOf B start ctxMod first := by
  obtain ⟨m0, hm0, hm0s⟩ := hs
  unfold treeOf
  simp only
  rw [byId_ext h (hm0s ▸ Old.of_mem h hm0), byId_ext h hc]
  split
  · split
    · next sm hsm => rw [h.ownerEq sm (Fuel.byId_mem hsm)]
    · rfl
  · split
    · rfl
    · next cm hcm =>
      have hcmB : cm ∈ B.mods := Fuel.byId_mem hcm
      rw [findModuleByPrefix_ext h hcmB]
      split
      · rfl
      · next m hm => rw [h.ownerEq m (findModuleByPrefix_mem hcmB hm)]

omit h in
/-- The tree an absolute path of a module of `B` starts in is a tree of `B`. -/
theorem treeOf_old {start : Loc} {ctxMod : Nat} (hs : ∃ m ∈ B.mods, m.seq = start.1) (first : String) (t : Nat)
    (ht : treeOf B start ctxMod first = some t) : ∃ m ∈ B.mods, m.seq = t := by
  obtain ⟨m0, hm0, hm0s⟩ := hs
  unfold treeOf at ht
  simp only at ht
  split at ht
  · split at ht
    · next sm hsm =>
      split at ht
      · cases ho : B.owner sm with
        | none => simp [ho] at ht; exact ⟨m0, hm0, hm0s.trans ht⟩
        | some o => simp [ho] at ht; exact ⟨o, owner_mem' (Fuel.byId_mem hsm) ho, ht⟩
      · cases ht; exact ⟨m0, hm0, hm0s⟩
    · cases ht; exact ⟨m0, hm0, hm0s⟩
  · split at ht
    · cases ht
    · next cm hcm =>
      split at ht
      · cases ht
      · next m hm =>
        have hmB := findModuleByPrefix_mem (Fuel.byId_mem hcm) hm
        cases ho : B.owner m with
        | none => simp [ho] at ht
        | some o => simp [ho] at ht; exact ⟨o, owner_mem' hmB ho, ht⟩

/-- Extra trees are those of new modules. -/
def NewTrees (ds : List Mod) (G : List (Nat × Entry)) : Prop := ∀ g ∈ G, ∃ d ∈ ds, d.seq = g.1

omit h in
theorem NewTrees.ne {ds : List Mod} {G : List (Nat × Entry)} (hG : NewTrees ds G) {t : Nat} (ht : Old ds t) :
    ∀ g ∈ G, g.1 ≠ t := by
  intro g hg e
  obtain ⟨d, hd, hdg⟩ := hG g hg
  exact ht d hd (hdg.trans e)

theorem old_of_mem {t : Nat} (ht : ∃ m ∈ B.mods, m.seq = t) : Old ds t := by
  obtain ⟨m, hm, rfl⟩ := ht
  exact Old.of_mem h hm

omit h in
theorem findAbs_ext {G : List (Nat × Entry)} (hG : NewTrees ds G) (f : Forest) (start : Loc) (tree : Option Nat)
    (parts : List String) (hs : Old ds start.1) (ht : ∀ t, tree = some t → Old ds t) :
    findAbs (ext G f) start tree parts = ((findAbs f start tree parts).1, ext G (findAbs f start tree parts).2) := by
  unfold findAbs
  cases tree with
  | none =>
    simp only
    rw [tree?_ext G f _ (hG.ne hs)]
    cases f.tree? start.1 with
    | none => rfl
    | some root => simp only; rw [setTree_ext G f _ _ (hG.ne hs)]
  | some t =>
    simp only
    rw [tree?_ext G f _ (hG.ne (ht t rfl))]
    cases f.tree? t with
    | none => rfl
    | some root => simp only; rw [setTree_ext G f _ _ (hG.ne (ht t rfl))]

omit h in
theorem findRel_ext {G : List (Nat × Entry)} (hG : NewTrees ds G) (f : Forest) (start : Loc)
    (parts : List String) (hs : Old ds start.1) :
    findRel (ext G f) start parts = ((findRel f start parts).1, ext G (findRel f start parts).2) := by
  unfold findRel
  rw [tree?_ext G f _ (hG.ne hs)]
  cases f.tree? start.1 with
  | none => rfl
  | some root => simp only; rw [setTree_ext G f _ _ (hG.ne hs)]

/-- **`find` on behalf of a module of `B` does not see the new modules.** -/
theorem find_ext {G : List (Nat × Entry)} (hG : NewTrees ds G) (f : Forest) (start : Loc) (ctxMod : Nat) (name : String)
    (hs : ∃ m ∈ B.mods, m.seq = start.1) (hc : Old ds ctxMod) :
    find X (ext G f) start ctxMod name =
      ((find B f start ctxMod name).1, ext G (find B f start ctxMod name).2) := by
  rw [find_eq, find_eq]
  split
  · rfl
  · generalize name.splitOn "/" = l
    unfold findParts
    split
    · next parts =>
      rw [treeOf_ext h hs hc]
      exact findAbs_ext hG f start _ parts (old_of_mem h hs) (fun t ht => old_of_mem h (treeOf_old hs _ t ht))
    · exact findRel_ext hG f start _ (old_of_mem h hs)

theorem namespaceAt_ext {G : List (Nat × Entry)} (hG : NewTrees ds G) (f : Forest) (loc : Loc)
    (hs : ∃ m ∈ B.mods, m.seq = loc.1) : namespaceAt X (ext G f) loc = namespaceAt B f loc := by
  unfold namespaceAt
  rw [tree?_ext G f _ (hG.ne (old_of_mem h hs)), byId_ext h (old_of_mem h hs)]
  cases f.tree? loc.1 with
  | none => rfl
  | some root =>
    simp only
    split
    · rfl
    · split
      · rfl
      · next m hm => rw [h.ownerEq m (Fuel.byId_mem hm)]

end

end Goyang.Lemmas.DevExt
