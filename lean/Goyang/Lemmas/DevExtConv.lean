import Goyang.Lemmas.DevExtStage
/-
C08, frame across module sets — part 3: the conversion (`toEntry`).

* `toEntry_env`: the conversion of a statement of a module of `B` does not depend on the registry
  beyond what the module itself looks up (`EnvAgree`) nor on the fuel (both above `need`), when `B`
  has no `uses` statement.
* `toEntry_devOnly`: converting a deviation-only module files one cache row and one empty row of
  pending augments, and changes nothing else of the conversion state.
Core Lean only.
-/
namespace Goyang.Lemmas.DevExt
open Goyang.Model
open Goyang.Lemmas.Fuel (Rec stepB skeleton toEntryBody toEntry_succ step_congr callee_need Inv need Callee visiting'
  isTracked foldl_ext_mem need_pos mem_all_subs)

/-! ### the environment as one module sees it -/

/-- What `toEntry` reads of the environment on behalf of `root` (grouping search aside). -/
structure EnvAgree (envX envB : Env) (root : Mod) : Prop where
  opts : envX.opts = envB.opts
  resolve : ∀ sc t, envX.tres.resolve envX.reg root sc t = envB.tres.resolve envB.reg root sc t
  incl : ∀ a, envX.includeTarget root a = envB.includeTarget root a

theorem leafEntry_env {envX envB : Env} {root : Mod} (ha : EnvAgree envX envB root) (scope : List Stmt) (n : Stmt) (b : Bool) :
    leafEntry envX root scope n b = leafEntry envB root scope n b := by
  unfold leafEntry
  simp only [ha.resolve]

theorem stepB_env {envX envB : Env} {root : Mod} (ha : EnvAgree envX envB root) (rec : Rec) (n : Stmt) (sub : List Stmt)
    (vis : List NodeId) (isMod : Bool) (acc : Entry × TState) (f : String) :
    stepB envX rec root n sub vis isMod acc f = stepB envB rec root n sub vis isMod acc f := by
  obtain ⟨e, st⟩ := acc
  unfold stepB
  simp only [ha.opts, ha.resolve, ha.incl]

theorem skeleton_env {envX envB : Env} {root : Mod} (ha : EnvAgree envX envB root) (scope : List Stmt) (n : Stmt)
    (vis : List NodeId) (st : TState) (u : Entry × TState) (d : Bool → Entry → Entry × TState) :
    skeleton envX root scope n vis st u d = skeleton envB root scope n vis st u d := by
  unfold skeleton
  simp only [leafEntry_env ha]

theorem skeleton_no_uses (env : Env) (root : Mod) (scope : List Stmt) (n : Stmt) (vis : List NodeId) (st : TState)
    (u1 u2 : Entry × TState) (d : Bool → Entry → Entry × TState) (hk : (n.kw == "uses") = false) :
    skeleton env root scope n vis st u1 d = skeleton env root scope n vis st u2 d := by
  unfold skeleton
  simp only [hk, Bool.false_eq_true, if_false]

theorem skeleton_cyc_env (envX envB : Env) (root : Mod) (scope : List Stmt) (n : Stmt) (visiting : List NodeId) (st : TState)
    (u1 u2 : Entry × TState) (d1 d2 : Bool → Entry → Entry × TState)
    (hc : (isTracked n && visiting.contains (nodeId root n)) = true) :
    skeleton envX root scope n visiting st u1 d1 = skeleton envB root scope n visiting st u2 d2 := by
  simp only [isTracked] at hc
  simp only [skeleton, hc, ↓reduceIte]

/-- **The conversion of a statement of `B` is the same in both environments, at any two sufficient
fuels**, when no module of `B` contains a `uses`. -/
theorem toEntry_env {B : Registry} (envX envB : Env) (hreg : envB.reg = B)
    (hagree : ∀ root ∈ B.mods, EnvAgree envX envB root) (hno : ∀ m ∈ B.mods, noUses m.stmt = true)
    (hmodsX : ∀ m ∈ B.mods, m ∈ envX.reg.mods) :
    ∀ (fB fX : Nat) (root : Mod) (scope : List Stmt) (n : Stmt) (vis : List NodeId) (st : TState),
      Inv envB root scope n → need envB.reg root n vis ≤ fB → need envX.reg root n vis ≤ fX →
      toEntry envX fX root scope n vis st = toEntry envB fB root scope n vis st := by
  intro fB
  induction fB with
  | zero =>
    intro fX root scope n vis st inv hB _
    have := need_pos vis inv
    omega
  | succ jB ih =>
    intro fX root scope n vis st inv hB hX
    have hrootB : root ∈ B.mods := hreg ▸ inv.root_mem
    have invX : Inv envX root scope n := ⟨hmodsX root hrootB, inv.node, inv.scope⟩
    cases fX with
    | zero =>
      have := need_pos vis invX
      omega
    | succ jX =>
      rw [toEntry_succ, toEntry_succ]
      by_cases hc : (isTracked n && vis.contains (nodeId root n)) = true
      · unfold toEntryBody
        exact skeleton_cyc_env _ _ _ _ _ _ _ _ _ _ _ hc
      · have ha := hagree root hrootB
        have hk : (n.kw == "uses") = false := noUses_kw (noUses_sub inv.node (hno root hrootB))
        -- the callees
        have hch : ∀ c st', c ∈ n.subs →
            toEntry envX jX root (n :: scope) c (visiting' root n vis) st' =
              toEntry envB jB root (n :: scope) c (visiting' root n vis) st' := by
          intro c st' hcm
          obtain ⟨i1, n1⟩ := callee_need inv hB hc (Callee.child (env := envB) (scope := scope) (visiting := vis) hcm)
          obtain ⟨_, n2⟩ := callee_need invX hX hc (Callee.child (env := envX) (scope := scope) (visiting := vis) hcm)
          exact ih jX root (n :: scope) c _ st' i1 n1 n2
        have hinc : "include" ∈ fieldOrder n.kw → ∀ a im st', envX.includeTarget root a = some im →
            toEntry envX jX im [] im.stmt (visiting' root n vis) st' =
              toEntry envB jB im [] im.stmt (visiting' root n vis) st' := by
          intro hf a im st' hit
          have hitB : envB.includeTarget root a = some im := by rw [← ha.incl]; exact hit
          obtain ⟨i1, n1⟩ := callee_need inv hB hc (Callee.include_ (scope := scope) (visiting := vis) hf hitB)
          obtain ⟨_, n2⟩ := callee_need invX hX hc (Callee.include_ (scope := scope) (visiting := vis) hf hit)
          exact ih jX im [] im.stmt _ st' i1 n1 n2
        have hdir : (fun (isMod : Bool) (e0 : Entry) =>
              (fieldOrder n.kw).foldl (stepB envX (toEntry envX jX) root n (n :: scope) (visiting' root n vis) isMod) (e0, st)) =
            (fun (isMod : Bool) (e0 : Entry) =>
              (fieldOrder n.kw).foldl (stepB envB (toEntry envB jB) root n (n :: scope) (visiting' root n vis) isMod) (e0, st)) := by
          funext isMod e0
          apply foldl_ext_mem
          intro acc f hf
          rw [step_congr envX (toEntry envX jX) (toEntry envB jB) root n _ _ isMod acc f hch (fun hfi => hinc (hfi ▸ hf))]
          exact stepB_env ha _ _ _ _ _ _ _
        unfold toEntryBody
        rw [hdir]
        rw [skeleton_no_uses envX root scope n vis st _
          (match (findGrouping envB.reg envB.linked (2 * jB + 16) root scope n.arg []).1 with
            | none => (errorEntry root n "unknown-group", st)
            | some (g, groot, gscope) => toEntry envB jB groot gscope g (visiting' root n vis) st) _ hk]
        exact skeleton_env ha _ _ _ _ _ _

/-! ### converting a deviation-only module -/

theorem all_nil_of_devOnly {s : Stmt} (hd : DeviationOnly s) (kw : String) (hkw : kw ∉ devOnlyKws) : s.all kw = [] := by
  unfold Stmt.all
  apply List.filter_eq_nil_iff.mpr
  intro c hc hck
  have := hd.2 c hc
  have : c.kw = kw := by simpa using hck
  subst this
  contradiction

theorem foldl_snd_inv {α β σ} (g : β × σ → α → β × σ) (l : List α) (acc : β × σ)
    (hg : ∀ acc, ∀ x ∈ l, (g acc x).2 = acc.2) : (l.foldl g acc).2 = acc.2 := by
  induction l generalizing acc with
  | nil => rfl
  | cons x xs ih =>
    simp only [List.foldl_cons]
    rw [ih _ (fun a y hy => hg a y (List.mem_cons_of_mem _ hy)), hg acc x (List.mem_cons_self ..)]

/-- The state after converting a statement that is neither tracked nor a leaf, leaf-list or uses: the
state after the fold of the field steps. -/
theorem toEntryBody_plain_state (env : Env) (fuel : Nat) (rec : Rec) (root : Mod) (scope : List Stmt) (n : Stmt)
    (vis : List NodeId) (st : TState)
    (h1 : (n.kw == "module") = false) (h2 : (n.kw == "submodule") = false) (h3 : (n.kw == "grouping") = false)
    (h4 : (n.kw == "leaf") = false) (h5 : (n.kw == "leaf-list") = false) (h6 : (n.kw == "uses") = false) :
    ∃ e0, (toEntryBody env fuel rec root scope n vis st).2 =
      ((fieldOrder n.kw).foldl (stepB env rec root n (n :: scope) (visiting' root n vis) false) (e0, st)).2 := by
  unfold toEntryBody skeleton
  simp only [h1, h2, h3, h4, h5, h6, Bool.or_self, Bool.false_eq_true, if_false, Bool.false_and]
  exact ⟨_, rfl⟩

theorem stepB_deviate_state (env : Env) (rec : Rec) (root : Mod) (n : Stmt) (sub : List Stmt) (vis : List NodeId)
    (isMod : Bool) (acc : Entry × TState) (f : String) (hf : f ∈ fieldOrder "deviate") :
    (stepB env rec root n sub vis isMod acc f).2 = acc.2 := by
  obtain ⟨e, st⟩ := acc
  simp only [fieldOrder, List.mem_cons, List.not_mem_nil, or_false] at hf
  rcases hf with rfl | rfl | rfl | rfl | rfl | rfl | rfl
  all_goals
    unfold stepB
    simp (config := { decide := true }) only []
    repeat' split
    all_goals rfl

/-- A `deviate` statement is converted without touching the conversion state. -/
theorem toEntry_deviate_state (env : Env) (fuel : Nat) (root : Mod) (scope : List Stmt) (n : Stmt) (vis : List NodeId)
    (st : TState) (hkw : n.kw = "deviate") : (toEntry env fuel root scope n vis st).2 = st := by
  cases fuel with
  | zero => rfl
  | succ fuel =>
    rw [toEntry_succ]
    obtain ⟨e0, he⟩ := toEntryBody_plain_state env fuel (toEntry env fuel) root scope n vis st
      (by rw [hkw]; decide) (by rw [hkw]; decide) (by rw [hkw]; decide) (by rw [hkw]; decide) (by rw [hkw]; decide)
      (by rw [hkw]; decide)
    rw [he, hkw]
    exact foldl_snd_inv _ _ _ (fun acc f hf => stepB_deviate_state env _ root n _ _ false acc f hf)

theorem stepB_deviation_state (env : Env) (rec : Rec) (root : Mod) (n : Stmt) (sub : List Stmt) (vis : List NodeId)
    (isMod : Bool) (acc : Entry × TState) (f : String) (hf : f ∈ fieldOrder "deviation")
    (hrec : ∀ dv ∈ n.all "deviate", ∀ st', (rec root sub dv vis st').2 = st') :
    (stepB env rec root n sub vis isMod acc f).2 = acc.2 := by
  obtain ⟨e, st⟩ := acc
  simp only [fieldOrder, List.mem_cons, List.not_mem_nil, or_false] at hf
  rcases hf with rfl | rfl
  · unfold stepB
    simp (config := { decide := true }) only []
    apply foldl_snd_inv
    intro a dv hdv
    exact hrec dv hdv a.2
  · unfold stepB
    simp (config := { decide := true }) only []

/-- A `deviation` statement is converted without touching the conversion state. -/
theorem toEntry_deviation_state (env : Env) (fuel : Nat) (root : Mod) (scope : List Stmt) (n : Stmt) (vis : List NodeId)
    (st : TState) (hkw : n.kw = "deviation") : (toEntry env fuel root scope n vis st).2 = st := by
  cases fuel with
  | zero => rfl
  | succ fuel =>
    rw [toEntry_succ]
    obtain ⟨e0, he⟩ := toEntryBody_plain_state env fuel (toEntry env fuel) root scope n vis st
      (by rw [hkw]; decide) (by rw [hkw]; decide) (by rw [hkw]; decide) (by rw [hkw]; decide) (by rw [hkw]; decide)
      (by rw [hkw]; decide)
    rw [he, hkw]
    refine foldl_snd_inv _ _ _ (fun acc f hf => stepB_deviation_state env _ root n _ _ false acc f hf ?_)
    intro dv hdv st'
    exact toEntry_deviate_state env fuel root (n :: scope) dv _ st' (Tree.mem_all_kw n "deviate" dv hdv)

theorem stepB_module_other (env : Env) (rec : Rec) (root : Mod) (n : Stmt) (sub : List Stmt) (vis : List NodeId)
    (acc : Entry × TState) (f : String) (hd : DeviationOnly n) (hf : f ∈ fieldOrder "module") (hne : f ≠ "augment")
    (hrec : ∀ dv ∈ n.all "deviation", ∀ st', (rec root sub dv vis st').2 = st') :
    (stepB env rec root n sub vis true acc f).2 = acc.2 := by
  obtain ⟨e, st⟩ := acc
  have hall := all_nil_of_devOnly hd
  simp only [fieldOrder, List.mem_cons, List.not_mem_nil, or_false] at hf
  rcases hf with rfl | rfl | rfl | rfl | rfl | rfl | rfl | rfl | rfl | rfl | rfl | rfl | rfl | rfl | rfl | rfl | rfl
  case inr.inr.inr.inr.inr.inr.inr.inr.inr.inr.inl =>
    -- deviation
    unfold stepB
    simp (config := { decide := true }) only []
    apply foldl_snd_inv
    intro a dv hdv
    exact hrec dv hdv a.2
  case inr.inr.inr.inr.inr.inr.inr.inr.inr.inr.inr.inr.inr.inr.inl => exact absurd rfl hne
  all_goals
    unfold stepB
    try simp (config := { decide := true }) only []
    try rfl
    try (rw [hall _ (by decide)]; rfl)

theorem stepB_module_augment (env : Env) (rec : Rec) (root : Mod) (n : Stmt) (sub : List Stmt) (vis : List NodeId)
    (acc : Entry × TState) (hd : DeviationOnly n) :
    (stepB env rec root n sub vis true acc "augment").2 = { acc.2 with augs := acc.2.augs ++ [(root.seq, [])] } := by
  obtain ⟨e, st⟩ := acc
  unfold stepB
  simp (config := { decide := true }) only []
  rw [all_nil_of_devOnly hd "augment" (by decide)]
  rfl

/-- **Converting a deviation-only module** that is not in the cache files its entry in the cache and an
empty row of pending augments, and changes nothing else of the conversion state. -/
theorem toEntry_devOnly (env : Env) (fuel : Nat) (d : Mod) (st : TState) (hd : DeviationOnly d.stmt)
    (hmiss : st.cache.find? (·.1 == d.seq) = none) :
    ∃ e, toEntry env (fuel + 1) d [] d.stmt [] st =
      (e, { st with cache := st.cache ++ [(d.seq, e)], augs := st.augs ++ [(d.seq, [])] }) := by
  have hkw := hd.1
  have hrec : ∀ dv ∈ d.stmt.all "deviation", ∀ st',
      (toEntry env fuel d [d.stmt] dv (visiting' d d.stmt []) st').2 = st' :=
    fun dv hdv st' => toEntry_deviation_state env fuel d _ dv _ st' (Tree.mem_all_kw _ _ _ hdv)
  have hsplit : fieldOrder "module" =
      ["uses", "rpc", "prefix", "notification", "list", "leaf-list", "leaf", "include", "identity", "grouping",
       "deviation", "description", "container", "choice"] ++ ["augment"] ++ ["anyxml", "anydata"] := rfl
  have hstate : ∀ e0, ((fieldOrder "module").foldl (stepB env (toEntry env fuel) d d.stmt [d.stmt]
      (visiting' d d.stmt []) true) (e0, st)).2 = { st with augs := st.augs ++ [(d.seq, [])] } := by
    intro e0
    have h1 : (List.foldl (stepB env (toEntry env fuel) d d.stmt [d.stmt] (visiting' d d.stmt []) true) (e0, st)
        ["uses", "rpc", "prefix", "notification", "list", "leaf-list", "leaf", "include", "identity", "grouping",
         "deviation", "description", "container", "choice"]).2 = st :=
      foldl_snd_inv _ _ _ (fun acc f hf => stepB_module_other env _ d d.stmt _ _ acc f hd
        (by rw [hsplit]; simp only [List.mem_append]; exact Or.inl (Or.inl hf)) (by intro e; subst e; revert hf; decide) hrec)
    rw [hsplit, List.foldl_append, List.foldl_append]
    generalize List.foldl (stepB env (toEntry env fuel) d d.stmt [d.stmt] (visiting' d d.stmt []) true) (e0, st)
        ["uses", "rpc", "prefix", "notification", "list", "leaf-list", "leaf", "include", "identity", "grouping",
         "deviation", "description", "container", "choice"] = A at h1 ⊢
    rw [foldl_snd_inv _ ["anyxml", "anydata"] _ (fun acc f hf => stepB_module_other env _ d d.stmt _ _ acc f hd
      (by rw [hsplit]; simp only [List.mem_append]; exact Or.inr hf) (by intro e; subst e; revert hf; decide) hrec)]
    simp only [List.foldl_cons, List.foldl_nil]
    rw [stepB_module_augment env _ d d.stmt _ _ _ hd, h1]
  rw [toEntry_succ]
  unfold toEntryBody skeleton
  simp only [hkw, hmiss, beq_self_eq_true, Bool.true_or, if_true, show ("module" == "grouping") = false by decide,
    show ("module" == "leaf") = false by decide, show ("module" == "leaf-list") = false by decide,
    show ("module" == "uses") = false by decide, show ("module" == "list") = false by decide,
    show ("module" == "choice") = false by decide, Bool.false_eq_true, if_false, List.contains_nil, Bool.and_false,
    Bool.or_false]
  generalize Entry.mk _ [] [] [] = e0
  refine ⟨((fieldOrder "module").foldl (stepB env (toEntry env fuel) d d.stmt [d.stmt] (visiting' d d.stmt []) true)
    (e0, st)).1, ?_⟩
  rw [hstate]

end Goyang.Lemmas.DevExt
