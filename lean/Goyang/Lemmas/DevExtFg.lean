import Goyang.Lemmas.DevExtLink
import Goyang.Lemmas.UsesFuel
/-
C08, frame across module sets — part 10: the grouping search (`findGrouping`) does not depend on its
fuel from a bound on that does NOT count the length of the name.

`Lemmas/FuelGrouping.lean` (`stable_all`, `groupingNeed`) proves fuel independence with the potential
`name.length + unseen`: an import hop shortens the name.  The import hop of the model fires only when
what follows the prefix has no further colon (`importHit`), so "the name has a colon" (`colon`, 0 or 1)
does as the first summand: `stableC_all`, `findGrouping_fuelC` — from
`scope.length + W + 3 + (1 + loaded modules) * (W + 4)` on (W = the widest statement met) the result is
the same at every fuel.  Core Lean only.
-/
namespace Goyang.Lemmas.DevExt
open Goyang.Model
open Goyang.Spec.Uses (isBare carries afterPrefix localName)
open Goyang.Lemmas.Fuel (Res orElse orElse_congr viaOwner importHit includeHit isModKw fgScope_cons fgImports_cons
  fgIncludes_cons unseen unseen_mono unseen_lt findModule_mem owner_mem length_ite_all_le findGrouping_seen_prefix
  fgImports_seen_prefix fgIncludes_seen_prefix)

/-! ### does the name carry a prefix -/

def colon (name : String) : Nat := if name.contains ':' = true then 1 else 0

theorem colon_le_one (name : String) : colon name ≤ 1 := by unfold colon; split <;> omega

theorem contains_iff (name : String) : name.contains ':' = true ↔ ':' ∈ name.toList := by
  rw [Uses.contains_colon]
  unfold isBare
  simp

theorem colon_ofList_drop (name : String) (k : Nat) : colon (String.ofList (name.toList.drop k)) ≤ colon name := by
  unfold colon
  by_cases h : (String.ofList (name.toList.drop k)).contains ':' = true
  · have h2 : name.contains ':' = true := by
      rw [contains_iff] at h ⊢
      rw [String.toList_ofList] at h
      exact List.mem_of_mem_drop h
    rw [if_pos h, if_pos h2]; exact Nat.le_refl _
  · rw [if_neg h]; exact Nat.zero_le _

theorem colon_trim (root : Mod) (name : String) : colon (trimLocalPrefix root name) ≤ colon name := by
  rw [Uses.trimLocalPrefix_eq]
  unfold localName
  show colon (if (root.getPrefix != "" && carries root.getPrefix name) = true then afterPrefix root.getPrefix name else name) ≤ _
  split
  · exact colon_ofList_drop _ _
  · exact Nat.le_refl _

theorem colon_of_startsWith {name ip : String} (h : name.startsWith (ip ++ ":") = true) : colon name = 1 := by
  rw [Uses.carries_iff] at h
  unfold carries at h
  have hp := List.isPrefixOf_iff_prefix.mp h
  have : name.contains ':' = true := by
    rw [contains_iff]
    exact hp.subset (by simp)
  unfold colon
  rw [if_pos this]

theorem colon_of_not {name : String} (h : (!name.contains ':') = true) : colon name = 0 := by
  unfold colon
  have : ¬ name.contains ':' = true := by simpa using h
  rw [if_neg this]

/-! ### hops -/

/-- `Fuel.IsHop` with the potential `colon name + unseen`. -/
def IsHopC (reg : Registry) (linked : List Nat) (hit : Nat → Res) (name : String) (seen : List String) : Prop :=
  (∀ fuel, hit fuel = (none, seen)) ∨
  ∃ im name' seen', im ∈ reg.mods ∧ seen <+: seen' ∧
    colon name' + unseen reg seen' < colon name + unseen reg seen ∧
    ∀ fuel, hit fuel = findGrouping reg linked fuel im [im.stmt] name' seen'

theorem importHit_isHopC (reg : Registry) (linked : List Nat) (i : Stmt) (name : String) (seen : List String) :
    IsHopC reg linked (fun fuel => importHit reg linked fuel i name seen) name seen := by
  unfold importHit
  simp only
  split
  · next hc =>
    simp only [Bool.and_eq_true] at hc
    split
    · next im him =>
      refine Or.inr ⟨im, _, seen, findModule_mem him, List.prefix_refl _, ?_, fun _ => rfl⟩
      rw [colon_of_startsWith hc.1, colon_of_not hc.2]
      omega
    · exact Or.inl fun _ => rfl
  · exact Or.inl fun _ => rfl

theorem includeHit_isHopC (reg : Registry) (linked : List Nat) (i : Stmt) (name : String) (seen : List String) :
    IsHopC reg linked (fun fuel => includeHit reg linked fuel i name seen) name seen := by
  unfold includeHit
  split
  · exact Or.inl fun _ => rfl
  · next im him =>
    split
    · exact Or.inl fun _ => rfl
    · next hs =>
      exact Or.inr ⟨im, name, _, findModule_mem him, List.prefix_append _ _,
        Nat.add_lt_add_left (unseen_lt (findModule_mem him) (by simpa using hs)) _, fun _ => rfl⟩

theorem viaOwner_isHopC (reg : Registry) (linked : List Nat) (root : Mod) (cond : Bool) (name : String)
    (seen : List String) :
    IsHopC reg linked (fun fuel => viaOwner reg linked fuel root cond name seen) name seen := by
  unfold viaOwner
  split
  · split
    · next owner hown =>
      split
      · exact Or.inl fun _ => rfl
      · next hs =>
        exact Or.inr ⟨owner, name, _, owner_mem hown, List.prefix_append _ _,
          Nat.add_lt_add_left (unseen_lt (owner_mem hown) (by simpa using hs)) _, fun _ => rfl⟩
    · exact Or.inl fun _ => rfl
  · exact Or.inl fun _ => rfl

theorem IsHopC.prefix {reg : Registry} {linked : List Nat} {hit : Nat → Res} {name : String} {seen : List String}
    (h : IsHopC reg linked hit name seen) {fuel : Nat}
    (ihF : ∀ root scope name seen, seen <+: (findGrouping reg linked fuel root scope name seen).2) :
    seen <+: (hit fuel).2 := by
  rcases h with h | ⟨im, name', seen', _, hp, _, h⟩
  · rw [h]; exact List.prefix_refl _
  · rw [h]; exact hp.trans (ihF _ _ _ _)

/-! ### enough fuel -/

/-- The statement proved by induction on the fuel for `findGrouping`. -/
def StableC (reg : Registry) (linked : List Nat) (W fuel : Nat) : Prop :=
  ∀ root scope name seen P, colon name + unseen reg seen ≤ P →
    (∀ s ∈ scope, s.subs.length ≤ W) → scope.length + W + 3 + P * (W + 4) ≤ fuel →
    findGrouping reg linked (fuel + 1) root scope name seen = findGrouping reg linked fuel root scope name seen

theorem IsHopC.stable {reg : Registry} {linked : List Nat} {W : Nat} (hW : ∀ m ∈ reg.mods, m.stmt.subs.length ≤ W)
    {hit : Nat → Res} {name : String} {seen : List String} (h : IsHopC reg linked hit name seen)
    {fuel P : Nat} (ihF : StableC reg linked W fuel) (hP : colon name + unseen reg seen ≤ P)
    (hfuel : P * (W + 4) ≤ fuel) : hit (fuel + 1) = hit fuel := by
  rcases h with h | ⟨im, name', seen', him, _, hlt, h⟩
  · rw [h, h]
  · rw [h, h]
    obtain ⟨P', rfl⟩ : ∃ P', P = P' + 1 := ⟨P - 1, by omega⟩
    have hmul : (P' + 1) * (W + 4) = P' * (W + 4) + (W + 4) := Nat.succ_mul _ _
    refine ihF im [im.stmt] name' seen' P' (by omega) ?_ ?_
    · intro s hs
      rw [List.mem_singleton] at hs
      subst hs
      exact hW im him
    · simp only [List.length_singleton]
      omega

theorem stableC_all (reg : Registry) (linked : List Nat) (W : Nat) (hW : ∀ m ∈ reg.mods, m.stmt.subs.length ≤ W) :
    ∀ fuel : Nat,
    StableC reg linked W fuel ∧
    (∀ root scope name seen P, colon name + unseen reg seen ≤ P →
      (∀ s ∈ scope, s.subs.length ≤ W) → scope.length + W + 2 + P * (W + 4) ≤ fuel →
      fgScope reg linked (fuel + 1) root scope name seen = fgScope reg linked fuel root scope name seen) ∧
    (∀ imports name seen P, colon name + unseen reg seen ≤ P →
      imports.length + 1 + P * (W + 4) ≤ fuel →
      fgImports reg linked (fuel + 1) imports name seen = fgImports reg linked fuel imports name seen) ∧
    (∀ includes name seen P, colon name + unseen reg seen ≤ P →
      includes.length + 1 + P * (W + 4) ≤ fuel →
      fgIncludes reg linked (fuel + 1) includes name seen = fgIncludes reg linked fuel includes name seen) := by
  intro fuel
  induction fuel with
  | zero =>
    refine ⟨?_, ?_, ?_, ?_⟩ <;> (try unfold StableC) <;> intros <;> omega
  | succ fuel ih =>
    obtain ⟨ihF, ihS, ihI, ihN⟩ := ih
    refine ⟨?_, ?_, ?_, ?_⟩
    · intro root scope name seen P hP hsc hfuel
      rw [findGrouping.eq_2, findGrouping.eq_2]
      have := colon_trim root name
      exact ihS root scope _ seen P (by omega) hsc (by omega)
    · intro root scope name seen P hP hsc hfuel
      cases scope with
      | nil => simp [fgScope]
      | cons n up =>
        have hn : n.subs.length ≤ W := hsc n (List.mem_cons_self ..)
        have hup : ∀ s ∈ up, s.subs.length ≤ W := fun s hs => hsc s (List.mem_cons_of_mem _ hs)
        simp only [List.length_cons] at hfuel
        rw [fgScope_cons reg linked (fuel + 1), fgScope_cons reg linked fuel]
        split
        · rfl
        · have hl1 := length_ite_all_le (isModKw n && linked.contains root.seq) n "import"
          have hl2 := length_ite_all_le (isModKw n && linked.contains root.seq && !name.contains ':') n "include"
          refine orElse_congr (ihI _ name seen P hP (by omega)) ?_
          have h1 := fgImports_seen_prefix reg linked fuel
            (if isModKw n && linked.contains root.seq then n.all "import" else []) name seen
          generalize (fgImports reg linked fuel (if isModKw n && linked.contains root.seq then n.all "import" else []) name seen).2
            = s1 at h1 ⊢
          have hP1 := unseen_mono (reg := reg) h1
          refine orElse_congr (ihN _ name s1 P (by omega) (by omega)) ?_
          have h2 := fgIncludes_seen_prefix reg linked fuel
            (if isModKw n && linked.contains root.seq && !name.contains ':' then n.all "include" else []) name s1
          generalize (fgIncludes reg linked fuel
            (if isModKw n && linked.contains root.seq && !name.contains ':' then n.all "include" else []) name s1).2
            = s2 at h2 ⊢
          have hP2 := unseen_mono (reg := reg) h2
          have hop := viaOwner_isHopC reg linked root (isModKw n && !name.contains ':') name s2
          refine orElse_congr (hop.stable hW ihF (P := P) (by omega) (by omega)) ?_
          have h3 := hop.prefix (fuel := fuel) (findGrouping_seen_prefix reg linked fuel)
          generalize (viaOwner reg linked fuel root (isModKw n && !name.contains ':') name s2).2
            = s3 at h3 ⊢
          have hP3 := unseen_mono (reg := reg) h3
          exact ihS root up name s3 P (by omega) hup (by omega)
    · intro imports name seen P hP hfuel
      cases imports with
      | nil => simp [fgImports]
      | cons i rest =>
        simp only [List.length_cons] at hfuel
        rw [fgImports_cons reg linked (fuel + 1), fgImports_cons reg linked fuel]
        have hop := importHit_isHopC reg linked i name seen
        refine orElse_congr (hop.stable hW ihF (P := P) hP (by omega)) ?_
        have h1 := hop.prefix (fuel := fuel) (findGrouping_seen_prefix reg linked fuel)
        generalize (importHit reg linked fuel i name seen).2 = s1 at h1 ⊢
        have hP1 := unseen_mono (reg := reg) h1
        exact ihI rest name s1 P (by omega) (by omega)
    · intro includes name seen P hP hfuel
      cases includes with
      | nil => simp [fgIncludes]
      | cons i rest =>
        simp only [List.length_cons] at hfuel
        rw [fgIncludes_cons reg linked (fuel + 1), fgIncludes_cons reg linked fuel]
        have hop := includeHit_isHopC reg linked i name seen
        refine orElse_congr (hop.stable hW ihF (P := P) hP (by omega)) ?_
        have h1 := hop.prefix (fuel := fuel) (findGrouping_seen_prefix reg linked fuel)
        generalize (includeHit reg linked fuel i name seen).2 = s1 at h1 ⊢
        have hP1 := unseen_mono (reg := reg) h1
        exact ihN rest name s1 P (by omega) (by omega)

/-- **The grouping search from the empty `seen` list is the same at every two fuels from
`scope.length + W + 3 + (reg.mods.length + 1) * (W + 4)` on**, `W` bounding the number of substatements of
every statement of the scope and of every loaded (sub)module statement.  The name does not enter. -/
theorem findGrouping_fuelC {reg : Registry} {linked : List Nat} {W : Nat} {root : Mod} {scope : List Stmt} {name : String}
    (hWm : ∀ m ∈ reg.mods, m.stmt.subs.length ≤ W) (hWs : ∀ s ∈ scope, s.subs.length ≤ W) {f f' : Nat}
    (hf : scope.length + W + 3 + (reg.mods.length + 1) * (W + 4) ≤ f) (hff : f ≤ f') :
    findGrouping reg linked f' root scope name [] = findGrouping reg linked f root scope name [] := by
  have hP : colon name + unseen reg [] ≤ reg.mods.length + 1 := by
    have := colon_le_one name
    have := Fuel.unseen_le reg []
    omega
  induction f' with
  | zero =>
    have : f = 0 := by omega
    rw [this]
  | succ k ih =>
    rcases Nat.lt_or_ge f (k + 1) with hlt | hge
    · rw [(stableC_all reg linked W hWm k).1 root scope name [] _ hP hWs (by omega)]
      exact ih (by omega)
    · have : f = k + 1 := by omega
      rw [this]

end Goyang.Lemmas.DevExt
