import Goyang.Lemmas.DevExtFg
/-
C08, frame across module sets — part 11: the conversion (`toEntry`) in ONE registry at two fuels, for a
registry with `uses`.

* `deepW`, `deepWidth`: the greatest number of substatements of any statement (at any depth) of the
  loaded modules; `deepWidth + maxHeight ≤ totalStmts + 1` (`countsD`).
* `fgBound_le_slack` (arithmetic): the bound of `findGrouping_fuelC`, for a scope no longer than the
  statement height, is at most `2 * (entryFuel - entryNeed) + 18` — what `toEntry` hands to the grouping
  search (`2 * fuel + 16`) reaches it at every call reached from a top-level call (`Uses.Reached`,
  `Uses.reached_good`: the remaining fuel stays `need + slack`).
* `toEntry_shift`: hence at every reached call `toEntry env (a + δ) = toEntry env a`;
* `fuelStableTop`: the calls `processAll` makes itself convert alike at `entryFuel B` and at any greater
  fuel, for EVERY registry `B` — `uses`, groupings, submodules, any names.
* `convAgreeTop_of_devExtCore`: `ConvAgreeTop` from `DevExtCore`, `PlugAgree`, `ModImports` (`modImports_of_flat`:
  implied by `DevExtCore` when no statement below a module statement has the keyword `module` / `submodule`).
Core Lean only.
-/
set_option linter.unusedSectionVars false
namespace Goyang.Lemmas.DevExt
open Goyang.Model
open Goyang.Lemmas.Tree (envOf)
open Goyang.Lemmas.Fuel (Sub Inv need height maxHeight totalStmts tracked entryNeed isTracked toEntry_succ toEntryBody
  body_congr skeleton_cyc)
open Goyang.Lemmas.Uses (Reached Good reached_good Chain chain_height)

/-! ### the widest statement -/

mutual
/-- The greatest number of substatements of the statement or of any statement below it. -/
def deepW : Stmt → Nat
  | .mk _ _ _ _ _ _ subs => max subs.length (deepWL subs)
def deepWL : List Stmt → Nat
  | [] => 0
  | s :: ss => max (deepW s) (deepWL ss)
end

theorem deepWL_mem {l : List Stmt} {c : Stmt} (hc : c ∈ l) : deepW c ≤ deepWL l := by
  induction l with
  | nil => cases hc
  | cons a l ih =>
    simp only [deepWL]
    rcases List.mem_cons.mp hc with rfl | hc
    · exact Nat.le_max_left _ _
    · exact Nat.le_trans (ih hc) (Nat.le_max_right _ _)

theorem subs_le_deepW (s : Stmt) : s.subs.length ≤ deepW s := by
  cases s with
  | mk kw ha arg file line col subs => simp only [deepW, Stmt.subs]; exact Nat.le_max_left _ _

theorem deepW_child {c t : Stmt} (hc : c ∈ t.subs) : deepW c ≤ deepW t := by
  cases t with
  | mk kw ha arg file line col subs =>
    simp only [deepW]
    exact Nat.le_trans (deepWL_mem hc) (Nat.le_max_right _ _)

theorem sub_deepW {s t : Stmt} (h : Sub s t) : s.subs.length ≤ deepW t := by
  induction h with
  | refl => exact subs_le_deepW _
  | step hm _ ih => exact Nat.le_trans ih (deepW_child hm)

mutual
theorem deepW_lt_count : (s : Stmt) → deepW s + 1 ≤ stmtCount s
  | .mk _ _ _ _ _ _ subs => by
    have h1 := Uses.len_le_countL subs
    have h2 := deepWL_le_countL subs
    simp only [deepW, stmtCount]; omega
theorem deepWL_le_countL : (l : List Stmt) → deepWL l ≤ stmtCount.countL l
  | [] => Nat.le_refl _
  | s :: ss => by
    have h1 := deepW_lt_count s
    have h2 := deepWL_le_countL ss
    simp only [deepWL, stmtCount.countL]; omega
end

mutual
theorem deepW_height : (s : Stmt) → deepW s + height s ≤ stmtCount s + 1
  | .mk _ _ _ _ _ _ subs => by
    have h1 := Uses.len_heightL_le subs
    have h2 := deepWL_heightL subs
    simp only [deepW, height, stmtCount]; omega
theorem deepWL_heightL : (l : List Stmt) → deepWL l + height.heightL l ≤ stmtCount.countL l + 1
  | [] => by simp [deepWL, height.heightL]
  | s :: ss => by
    have h1 := deepW_height s
    have h2 := deepWL_heightL ss
    have h3 := deepW_lt_count s
    have h4 := deepWL_le_countL ss
    have h5 := Fuel.height_le_count s
    have h6 := Fuel.heightL_le_countL ss
    simp only [deepWL, height.heightL, stmtCount.countL]; omega
end

def deepWMods : List Mod → Nat
  | [] => 0
  | m :: l => max (deepW m.stmt) (deepWMods l)

/-- The greatest number of substatements of any statement of any loaded (sub)module. -/
def deepWidth (reg : Registry) : Nat := deepWMods reg.mods

theorem deepWMods_mem {l : List Mod} {m : Mod} (hm : m ∈ l) : deepW m.stmt ≤ deepWMods l := by
  induction l with
  | nil => cases hm
  | cons a l ih =>
    simp only [deepWMods]
    rcases List.mem_cons.mp hm with rfl | hm
    · exact Nat.le_max_left _ _
    · exact Nat.le_trans (ih hm) (Nat.le_max_right _ _)

theorem sub_le_deepWidth {reg : Registry} {m : Mod} {s : Stmt} (hm : m ∈ reg.mods) (hs : Sub s m.stmt) :
    s.subs.length ≤ deepWidth reg :=
  Nat.le_trans (sub_deepW hs) (deepWMods_mem hm)

theorem countsD (l : List Mod) :
    let s := l.foldl (fun a m => a + stmtCount m.stmt) 0
    let H := l.foldl (fun a m => max a (height m.stmt)) 0
    deepWMods l ≤ s ∧ H ≤ s ∧ deepWMods l + H ≤ s + 1 := by
  induction l with
  | nil => simp [deepWMods]
  | cons x xs ih =>
    simp only [List.foldl_cons, Nat.zero_add, deepWMods] at ih ⊢
    rw [Fuel.foldl_sum_shift, Uses.foldl_max_shift]
    have h1 := deepW_lt_count x.stmt
    have h2 := deepW_height x.stmt
    have h3 := Fuel.height_le_count x.stmt
    omega

/-! ### the arithmetic -/

theorem fg_arith (s T H M W L : Nat) (hT : T ≤ s) (hM1 : 1 ≤ M) (hB : M + H ≤ s + 1) (hD : W + H ≤ s + 1)
    (hL : L + 1 ≤ H) :
    L + W + 3 + (M + 1) * (W + 4) + 2 * ((T + 1) * (H + 2)) ≤ 2 * ((s + 2) * (s + 2) + 64) + 18 := by
  obtain ⟨a, ha⟩ : ∃ a, a + H = s + 1 := ⟨s + 1 - H, by omega⟩
  have h1 : (T + 1) * (H + 2) ≤ (s + 1) * (H + 2) := Nat.mul_le_mul_right _ (by omega)
  have h2 : (M + 1) * (W + 4) ≤ (a + 1) * (a + 4) := Nat.mul_le_mul (by omega) (by omega)
  have e1 : (s + 1) * (H + 2) = s * H + 2 * s + H + 2 := by
    rw [Nat.add_mul, Nat.mul_add, Nat.one_mul]; omega
  have e2 : (a + 1) * (a + 4) = a * a + 5 * a + 4 := by
    rw [Nat.add_mul, Nat.mul_add, Nat.mul_add]; omega
  have e3 : (s + 2) * (s + 2) = s * s + 4 * s + 4 := by
    rw [Nat.add_mul, Nat.mul_add, Nat.mul_add]; omega
  have e4 : s * H + s * a = s * s + s := by
    rw [← Nat.mul_add, show H + a = s + 1 by omega, Nat.mul_add, Nat.mul_one]
  have h3 : a * a ≤ s * a := Nat.mul_le_mul_right a (by omega)
  have h4 : s ≤ s * a := Nat.le_mul_of_pos_right s (by omega)
  by_cases h44 : 4 ≤ a
  · have h5 : s * 4 ≤ s * a := Nat.mul_le_mul_left s h44
    omega
  · omega

/-- **The bound of the grouping search against the slack of `entryFuel`.** -/
theorem fgBound_le_slack (reg : Registry) (L : Nat) (hM1 : 1 ≤ reg.mods.length) (hL : L + 1 ≤ maxHeight reg) :
    L + deepWidth reg + 3 + (reg.mods.length + 1) * (deepWidth reg + 4) ≤
      2 * (entryFuel reg - entryNeed reg) + 18 := by
  have hc := Uses.counts reg.mods
  simp only at hc
  obtain ⟨_, _, _, c4, _⟩ := hc
  have hd := countsD reg.mods
  simp only at hd
  obtain ⟨_, _, d3⟩ := hd
  have hT := Fuel.tracked_le_total reg
  have hle := Fuel.entryNeed_le_entryFuel reg
  rw [Fuel.entryFuel_eq] at hle ⊢
  unfold entryNeed at hle ⊢
  have := fg_arith (totalStmts reg) (tracked reg).length (maxHeight reg) reg.mods.length (deepWidth reg) L hT hM1 c4
    d3 hL
  unfold totalStmts maxHeight deepWidth at *
  omega

/-! ### `toEntry` at two fuels -/

theorem isTracked_uses {n : Stmt} (hk : (n.kw == "uses") = true) : isTracked n = false := by
  have : n.kw = "uses" := by simpa using hk
  unfold isTracked
  rw [this]
  decide

/-- At a reached call on a `uses` statement the grouping search has the fuel of `findGrouping_fuelC`. -/
theorem reached_fgBound (env : Env) {a : Nat} {root : Mod} {scope : List Stmt} {n : Stmt} {vis : List NodeId}
    (h : Reached env (a + 1) root scope n vis) (hu : isTracked n = false) :
    scope.length + deepWidth env.reg + 3 + (env.reg.mods.length + 1) * (deepWidth env.reg + 4) ≤ 2 * a + 16 := by
  obtain ⟨inv, hfuel, hshape⟩ := reached_good env h
  have hH := Fuel.height_le_maxHeight inv.root_mem
  have hL : scope.length + 1 ≤ maxHeight env.reg := by
    rcases hshape with ⟨hs, _⟩ | ⟨inner, hs, hch⟩
    · have := Fuel.height_pos root.stmt
      rw [hs]; simp only [List.length_nil]; omega
    · rw [hs] at hch
      have hh := chain_height inner n root.stmt hch
      have := Fuel.height_pos n
      rw [hs]; simp only [List.length_append, List.length_singleton]; omega
  have hb := fgBound_le_slack env.reg scope.length (List.length_pos_of_mem inv.root_mem) hL
  have hneed : 2 ≤ need env.reg root n vis := by
    have := Fuel.height_pos n
    unfold need
    rw [if_neg (by rw [hu]; exact Bool.false_ne_true)]
    omega
  omega

/-- **One registry, two fuels**: at every call reached from a top-level call of `processAll` the
conversion is the same with `δ` more units of fuel. -/
theorem toEntry_shift (env : Env) (δ : Nat) : ∀ (a : Nat) (root : Mod) (scope : List Stmt) (n : Stmt) (vis : List NodeId)
    (st : TState), Reached env a root scope n vis →
    toEntry env (a + δ) root scope n vis st = toEntry env a root scope n vis st := by
  intro a
  induction a with
  | zero =>
    intro root scope n vis st h
    obtain ⟨inv, hfuel, _⟩ := reached_good env h
    have := Fuel.need_pos vis inv
    omega
  | succ a ih =>
    intro root scope n vis st h
    have e : a + 1 + δ = (a + δ) + 1 := by omega
    rw [e, toEntry_succ, toEntry_succ]
    by_cases hc : (isTracked n && vis.contains (Model.nodeId root n)) = true
    · unfold toEntryBody
      exact skeleton_cyc _ _ _ _ _ _ _ _ _ _ hc
    · rw [body_congr env (a + δ) (toEntry env (a + δ)) (toEntry env a) root scope n vis st
        (fun root' scope' n' vis' st' hcal => ih root' scope' n' vis' st' (Reached.call h hc hcal))]
      unfold toEntryBody
      by_cases hk : (n.kw == "uses") = true
      · have inv := (reached_good env h).inv
        have hb := reached_fgBound env h (isTracked_uses hk)
        rw [findGrouping_fuelC (W := deepWidth env.reg) (fun m hm => sub_le_deepWidth hm (.refl _))
          (fun s hs => sub_le_deepWidth inv.root_mem (inv.scope s hs)) hb (by omega : 2 * a + 16 ≤ 2 * (a + δ) + 16)]
      · exact skeleton_no_uses env root scope n vis st _ _ _ (by simpa using hk)

/-! ### no nested module keyword, decidably -/

mutual
/-- No statement of the tree has the keyword `module` or `submodule`. -/
def noModKw : Stmt → Bool
  | .mk kw _ _ _ _ _ subs => !(kw == "module" || kw == "submodule") && noModKwL subs
def noModKwL : List Stmt → Bool
  | [] => true
  | s :: ss => noModKw s && noModKwL ss
end

theorem noModKwL_mem {l : List Stmt} (h : noModKwL l = true) {c : Stmt} (hc : c ∈ l) : noModKw c = true := by
  induction l with
  | nil => cases hc
  | cons a l ih =>
    simp only [noModKwL, Bool.and_eq_true] at h
    rcases List.mem_cons.mp hc with rfl | hc
    · exact h.1
    · exact ih h.2 hc

theorem noModKw_self {t : Stmt} (ht : noModKw t = true) : Fuel.isModKw t = false := by
  cases t with
  | mk kw ha arg file line col subs =>
    simp only [noModKw, Bool.and_eq_true, Bool.not_eq_true'] at ht
    exact ht.1

theorem noModKw_child {t c : Stmt} (ht : noModKw t = true) (hc : c ∈ t.subs) : noModKw c = true := by
  cases t with
  | mk kw ha arg file line col subs =>
    simp only [noModKw, Bool.and_eq_true] at ht
    exact noModKwL_mem ht.2 hc

theorem noModKw_sub {s t : Stmt} (hs : Sub s t) (ht : noModKw t = true) : Fuel.isModKw s = false := by
  induction hs with
  | refl => exact noModKw_self ht
  | step hm _ ih => exact ih (noModKw_child ht hm)

/-- `FlatModKw` from a decidable condition: nothing below the (sub)module statements has the keyword
`module` / `submodule`. -/
theorem flatModKw_of_noModKw {B : Registry} (hB : ∀ m ∈ B.mods, noModKwL m.stmt.subs = true) : FlatModKw B := by
  intro m hm s hs hk
  cases hs with
  | refl => rfl
  | step hc hs' =>
    have := noModKw_sub hs' (noModKwL_mem (hB m hm) hc)
    rw [this] at hk
    cases hk

/-! ### the top-level calls -/

theorem TopCall.reached {env : Env} {root : Mod} {scope : List Stmt} {n : Stmt} (hc : TopCall env.reg root scope n) :
    Reached env (entryFuel env.reg) root scope n [] := by
  cases hc with
  | top hm => exact Reached.top hm
  | deviate hm hdv hds => exact Reached.deviate hm hdv hds

/-- The conversions `processAll` starts itself are the same, in `B` alone, at the fuel `fX` as at
`entryFuel B`. -/
def FuelStableTop (B : Registry) (fX : Nat) (opts : Opts) (plug : Plug) : Prop :=
  ∀ (root : Mod) (scope : List Stmt) (n : Stmt) (st : TState), TopCall B root scope n →
    toEntry (envOf B opts plug) fX root scope n [] st = toEntry (envOf B opts plug) (entryFuel B) root scope n [] st

/-- **`FuelStableTop` holds of every registry and every greater fuel** — `uses`, groupings, submodules
and names of any shape included. -/
theorem fuelStableTop (B : Registry) (fX : Nat) (hf : entryFuel B ≤ fX) (opts : Opts) (plug : Plug) :
    FuelStableTop B fX opts plug := by
  intro root scope n st hc
  obtain ⟨δ, rfl⟩ : ∃ δ, fX = entryFuel B + δ := ⟨fX - entryFuel B, by omega⟩
  exact toEntry_shift (envOf B opts plug) δ (entryFuel B) root scope n [] st (TopCall.reached (env := envOf B opts plug) hc)

theorem totalStmts_append (l1 l2 : List Mod) :
    (l1 ++ l2).foldl (fun a m => a + stmtCount m.stmt) 0 =
      l1.foldl (fun a m => a + stmtCount m.stmt) 0 + l2.foldl (fun a m => a + stmtCount m.stmt) 0 := by
  rw [List.foldl_append, Fuel.foldl_sum_shift]

section
variable {B X : Registry} {ds : List Mod} {dk : KeyMap} (h : DevExtCore B X ds dk)
include h

theorem entryFuel_le : entryFuel B ≤ entryFuel X := by
  rw [Fuel.entryFuel_eq, Fuel.entryFuel_eq]
  have : totalStmts B ≤ totalStmts X := by
    unfold totalStmts
    rw [h.mods, totalStmts_append]
    exact Nat.le_add_right _ _
  have := Nat.mul_le_mul (Nat.add_le_add_right this 2) (Nat.add_le_add_right this 2)
  omega

/-- **`ConvAgreeTop` for a base with `uses`**: the conversions that `processAll` starts for the modules of
`B` are the same in the run with the deviation-only modules and in the run without them. -/
theorem convAgreeTop_of_devExtCore {plug : Plug} (hplug : PlugAgree plug B X) (opts : Opts) (hmi : ModImports B X) :
    ConvAgreeTop B X opts plug := by
  intro root scope n st hc
  rw [toEntry_sameFuel (envOf X opts plug) (envOf B opts plug) rfl (envAgree h hplug opts)
    (fgAgree' h hmi (linkAgree_of_devExtCore h)) (entryFuel X) root scope n [] st (TopCall.inv (env := envOf B opts plug) hc)]
  exact fuelStableTop B (entryFuel X) (entryFuel_le h) opts plug root scope n st hc

end

end Goyang.Lemmas.DevExt
