import Goyang.Lemmas.DevExtUses
/-
C08, frame across module sets — part 9: the linking stage (`linkAll`) of the run with the
deviation-only modules against the run without them.

`linkAll X` walks the distinct modules in full-name order: first those of `B` (the new modules sort
last), then the new ones.
* part 1 (`includeWalk_ext`, `includeWalk_fuels`, `linkFold_base`): a walk that starts in a module of `B`
  stays in `B` and is the same walk in both registries (imports of modules of `B` resolve alike, there
  are no submodules; the two runs give different fuels, both above the bound of `includeWalk_fuel_indep`);
  so after the modules of `B` the run with the new modules has exactly `linkAll B`;
* part 2 (`includeWalk_new`, `linkFold_new`): by then every module the table of `B` points to is
  marked (`linkFold_marks`), so a walk from a new module marks new modules only.
Hence `linkAll_ext`: `(linkAll X).1 = N ++ (linkAll B).1` with `N` sequence numbers of new modules,
and `linkAgree_of_devExtCore : LinkAgree B X`.  Core Lean only.
-/
namespace Goyang.Lemmas.DevExt
open Goyang.Model
open Goyang.Lemmas.Fuel (walkStep includeWalk_succ includeWalk_fuel_indep includeWalk_visited_mono unvisited unvisited_le
  foldl_ext_mem findModule_mem byId_mem)

/-! ### generic facts about the walk -/

/-- With fuel the walk marks its start. -/
theorem includeWalk_marks (reg : Registry) (fuel : Nat) (v : List Nat) (m : Mod) :
    m.seq ∈ (includeWalk reg (fuel + 1) v m).1 := by
  rw [includeWalk_succ]
  split
  · next hc => simpa using hc
  · have hstep : ∀ b (acc : List Nat × Option Err) i, m.seq ∈ acc.1 → m.seq ∈ (walkStep reg fuel b acc i).1 := by
      intro b acc i ha
      unfold walkStep
      split
      · exact ha
      · split
        · exact ha
        · exact includeWalk_visited_mono _ _ _ _ _ ha
    apply Fuel.foldl_inv (fun acc : List Nat × Option Err => m.seq ∈ acc.1)
    · apply Fuel.foldl_inv (fun acc : List Nat × Option Err => m.seq ∈ acc.1)
      · exact List.mem_cons_self ..
      · exact fun a i _ ha => hstep true a i ha
    · exact fun a i _ ha => hstep false a i ha

/-- A registry without submodules resolves no include statement. -/
theorem findModule_include_none (r : Registry) (hr : r.subModules = []) (i : Stmt) : r.findModule true i = none := by
  unfold Registry.findModule Registry.getSub
  simp [hr, KeyMap.get?]

/-- What `findModule` returns for an import is the module a row of the table points to. -/
theorem findModule_row {r : Registry} {i : Stmt} {m : Mod} (h : r.findModule false i = some m) :
    ∃ kv ∈ r.modules, kv.2 = m.seq := by
  have key : ∀ k, r.getModule k = some m → ∃ kv ∈ r.modules, kv.2 = m.seq := by
    intro k hk
    unfold Registry.getModule KeyMap.get? at hk
    cases hf : r.modules.find? (·.1 == k) with
    | none => simp [hf] at hk
    | some kv =>
      simp only [hf, Option.map_some, Option.bind_some] at hk
      refine ⟨kv, List.mem_of_find?_eq_some hf, ?_⟩
      unfold Registry.byId at hk
      have := List.find?_some hk
      exact (by simpa using this : m.seq = kv.2).symm
  unfold Registry.findModule at h
  simp only [Bool.false_eq_true, if_false] at h
  split at h
  · next m' hm' => cases h; exact key _ hm'
  · exact key _ h

/-- The loop body of `linkAll`. -/
def linkStep (reg : Registry) (acc : List Nat × List Err) (m : Mod) : List Nat × List Err :=
  ((includeWalk reg (reg.mods.length + 1) acc.1 m).1,
    match (includeWalk reg (reg.mods.length + 1) acc.1 m).2 with | some e => acc.2 ++ [e] | none => acc.2)

theorem linkAll_eq (reg : Registry) :
    linkAll reg = (sortBy (fun (a b : Mod) => a.fullName < b.fullName) reg.distinctModules).foldl (linkStep reg) ([], []) := rfl

/-- The loop only adds marks, and marks the modules it walks. -/
theorem linkFold_mono (reg : Registry) (l : List Mod) (acc : List Nat × List Err) (x : Nat) (hx : x ∈ acc.1) :
    x ∈ (l.foldl (linkStep reg) acc).1 := by
  induction l generalizing acc with
  | nil => exact hx
  | cons m l ih =>
    simp only [List.foldl_cons]
    exact ih _ (includeWalk_visited_mono _ _ _ _ _ hx)

theorem linkFold_marks (reg : Registry) (l : List Mod) (acc : List Nat × List Err) (m : Mod) (hm : m ∈ l) :
    m.seq ∈ (l.foldl (linkStep reg) acc).1 := by
  induction l generalizing acc with
  | nil => cases hm
  | cons a l ih =>
    simp only [List.foldl_cons]
    rcases List.mem_cons.mp hm with rfl | hm
    · exact linkFold_mono reg l _ _ (includeWalk_marks reg _ acc.1 m)
    · exact ih _ hm

section
variable {B X : Registry} {ds : List Mod} {dk : KeyMap} (h : DevExtCore B X ds dk)
include h

/-! ### part 1: walks from modules of `B` -/

/-- Same fuel: a walk from a module of `B` is the same in both registries. -/
theorem includeWalk_ext : ∀ (fuel : Nat) (v : List Nat) (m : Mod), m ∈ B.mods →
    includeWalk X fuel v m = includeWalk B fuel v m := by
  intro fuel
  induction fuel with
  | zero => intro v m _; rfl
  | succ n ih =>
    intro v m hm
    rw [includeWalk_succ, includeWalk_succ]
    split
    · rfl
    · have hinc : m.includes.foldl (walkStep X n true) (m.seq :: v, none) =
          m.includes.foldl (walkStep B n true) (m.seq :: v, none) := by
        apply foldl_ext_mem
        intro acc i _
        unfold walkStep
        rw [findModule_include_none X h.subsX, findModule_include_none B h.subsB]
      rw [hinc]
      apply foldl_ext_mem
      intro acc i hi
      unfold walkStep
      rw [h.imports m hm i hi]
      split
      · rfl
      · split
        · rfl
        · next im him => exact ih acc.1 im (findModule_mem him)

theorem length_le : B.mods.length ≤ X.mods.length := by
  rw [h.mods, List.length_append]
  exact Nat.le_add_right _ _

/-- The fuels of the two runs: the walk from a module of `B` is the same. -/
theorem includeWalk_fuels (v : List Nat) (m : Mod) (hm : m ∈ B.mods) :
    includeWalk X (X.mods.length + 1) v m = includeWalk B (B.mods.length + 1) v m := by
  rw [includeWalk_ext h _ v m hm]
  have h1 := unvisited_le B v
  have h2 := length_le h
  rw [includeWalk_fuel_indep B (X.mods.length + 1) v m hm (by omega),
    includeWalk_fuel_indep B (B.mods.length + 1) v m hm (by omega)]

theorem linkFold_base (l : List Mod) (hl : ∀ m ∈ l, m ∈ B.mods) (acc : List Nat × List Err) :
    l.foldl (linkStep X) acc = l.foldl (linkStep B) acc := by
  apply foldl_ext_mem
  intro a m hm
  unfold linkStep
  rw [includeWalk_fuels h a.1 m (hl m hm)]

/-! ### part 2: walks from new modules -/

/-- The sequence number of a new module. -/
def NewSeq (ds : List Mod) (x : Nat) : Prop := ∃ d ∈ ds, d.seq = x

/-- Once every row of the table of `B` is marked, a walk in `X` from a module that is marked or new
marks new modules only. -/
theorem includeWalk_new : ∀ (fuel : Nat) (v : List Nat) (m : Mod), (∀ kv ∈ B.modules, kv.2 ∈ v) →
    (m.seq ∈ v ∨ NewSeq ds m.seq) →
    ∃ N, (includeWalk X fuel v m).1 = N ++ v ∧ ∀ x ∈ N, NewSeq ds x := by
  intro fuel
  induction fuel with
  | zero => intro v m _ _; exact ⟨[], rfl, fun _ hx => by cases hx⟩
  | succ n ih =>
    intro v m hv hm
    rw [includeWalk_succ]
    split
    · exact ⟨[], rfl, fun _ hx => by cases hx⟩
    · next hc =>
      have hnew : NewSeq ds m.seq := by
        rcases hm with hm | hm
        · exact absurd (by simpa using hm) hc
        · exact hm
      -- the invariant of the two folds
      let P : List Nat × Option Err → Prop := fun acc => ∃ N, acc.1 = N ++ v ∧ ∀ x ∈ N, NewSeq ds x
      have hstep : ∀ b (acc : List Nat × Option Err) i, P acc → P (walkStep X n b acc i) := by
        intro b acc i hacc
        obtain ⟨N, hN, hNn⟩ := hacc
        unfold walkStep
        split
        · exact ⟨N, hN, hNn⟩
        · split
          · exact ⟨N, hN, hNn⟩
          · next im him =>
            have hrow : im.seq ∈ acc.1 ∨ NewSeq ds im.seq := by
              cases b with
              | true => rw [findModule_include_none X h.subsX] at him; cases him
              | false =>
                obtain ⟨kv, hkv, hkvs⟩ := findModule_row him
                rw [h.modules] at hkv
                rcases List.mem_append.mp hkv with hkv | hkv
                · left; rw [hN, ← hkvs]; exact List.mem_append_right _ (hv kv hkv)
                · right
                  obtain ⟨d, hd, hds⟩ := h.tblD kv hkv
                  exact ⟨d, hd, hds.trans hkvs⟩
            obtain ⟨N', hN', hN'n⟩ := ih acc.1 im
              (fun kv hkv => by rw [hN]; exact List.mem_append_right _ (hv kv hkv)) hrow
            refine ⟨N' ++ N, by rw [hN', hN, List.append_assoc], ?_⟩
            intro x hx
            rcases List.mem_append.mp hx with hx | hx
            · exact hN'n x hx
            · exact hNn x hx
      have h0 : P (m.seq :: v, none) := ⟨[m.seq], rfl, fun x hx => by
        rw [List.mem_singleton] at hx; subst hx; exact hnew⟩
      have h1 : P (m.includes.foldl (walkStep X n true) (m.seq :: v, none)) :=
        Fuel.foldl_inv P _ _ _ h0 (fun a i _ ha => hstep true a i ha)
      exact Fuel.foldl_inv P _ _ _ h1 (fun a i _ ha => hstep false a i ha)

theorem linkFold_new (l : List Mod) (hl : ∀ d ∈ l, d ∈ ds) (acc : List Nat × List Err)
    (hv : ∀ kv ∈ B.modules, kv.2 ∈ acc.1) :
    ∃ N, (l.foldl (linkStep X) acc).1 = N ++ acc.1 ∧ ∀ x ∈ N, NewSeq ds x := by
  induction l generalizing acc with
  | nil => exact ⟨[], rfl, fun _ hx => by cases hx⟩
  | cons d l ih =>
    simp only [List.foldl_cons]
    obtain ⟨N1, hN1, hN1n⟩ := includeWalk_new h (X.mods.length + 1) acc.1 d hv
      (Or.inr ⟨d, hl d (List.mem_cons_self ..), rfl⟩)
    have hacc1 : (linkStep X acc d).1 = N1 ++ acc.1 := hN1
    obtain ⟨N2, hN2, hN2n⟩ := ih (fun x hx => hl x (List.mem_cons_of_mem _ hx)) (linkStep X acc d)
      (fun kv hkv => by rw [hacc1]; exact List.mem_append_right _ (hv kv hkv))
    refine ⟨N2 ++ N1, by rw [hN2, hacc1, List.append_assoc], ?_⟩
    intro x hx
    rcases List.mem_append.mp hx with hx | hx
    · exact hN2n x hx
    · exact hN1n x hx

/-! ### the two runs -/

/-- **The linked set of the run with the new modules** is that of the run without them plus
sequence numbers of new modules. -/
theorem linkAll_ext : ∃ N, (linkAll X).1 = N ++ (linkAll B).1 ∧ ∀ x ∈ N, NewSeq ds x := by
  have hsort : sortBy (fun (a b : Mod) => a.fullName < b.fullName) X.distinctModules =
      sortBy (fun (a b : Mod) => a.fullName < b.fullName) B.distinctModules ++
        sortBy (fun (a b : Mod) => a.fullName < b.fullName) (ds.filter fun m => X.modules.any (·.2 == m.seq)) := by
    rw [distinctModules_ext h]
    apply sortBy_append
    intro a ha b hb
    have := h.nameLast a (Fuel.distinctModules_mem B a ha) b (List.mem_filter.mp hb).1
    simpa using this
  rw [linkAll_eq X, hsort, List.foldl_append,
    linkFold_base h _ (fun m hm => Fuel.distinctModules_mem B m ((Tree.mem_sortBy _ m _).mp hm)), ← linkAll_eq B]
  apply linkFold_new h
  · intro d hd
    exact (List.mem_filter.mp ((Tree.mem_sortBy _ d _).mp hd)).1
  · intro kv hkv
    obtain ⟨m, hm, hms⟩ := h.tblB kv hkv
    have hdm : m ∈ B.distinctModules := by
      unfold Registry.distinctModules
      refine List.mem_filter.mpr ⟨hm, ?_⟩
      apply List.any_eq_true.mpr
      exact ⟨kv, hkv, by simp [hms]⟩
    rw [← hms, linkAll_eq B]
    exact linkFold_marks B _ _ m ((Tree.mem_sortBy _ m _).mpr hdm)

/-- **`LinkAgree` holds under `DevExtCore`**: a module of `B` is linked in the run with the new modules
iff it is linked in the run without them. -/
theorem linkAgree_of_devExtCore : LinkAgree B X := by
  intro m hm
  obtain ⟨N, hN, hNn⟩ := linkAll_ext h
  rw [hN, List.contains_eq_mem, List.contains_eq_mem]
  have : m.seq ∉ N := by
    intro hx
    obtain ⟨d, hd, hds⟩ := hNn _ hx
    exact h.seqFresh m hm d hd hds.symm
  simp [this]

end

end Goyang.Lemmas.DevExt
