import Goyang.Lemmas.DevExtFuel
import Goyang.Lemmas.BridgeLoad
/-
C08, frame across module sets — part 12: the structural half of `DevExtCore` is what LOADING one more
module does.  `X = B.add d` for a module statement `d` whose name is not yet bound in the module table of a
registry `B` that loading produced (`Bridge.TablesOK`: sequence numbers are positions, table rows point to
loaded modules — proved of every `loadTexts` / `loadAll` result in `Lemmas/BridgeLoad.lean`):
`add_fresh` computes the registry — the module list grows by `⟨B.mods.length, d⟩`, the module table by the
rows `newRows` (full name and name, or the name alone without revision), the submodule table is unchanged —
and `devExtCore_of_add` derives the fields `mods`, `modules`, `subsX`, `seqFresh`, `tblB`, `tblD` of
`DevExtCore` from it; what remains to be asked are the conditions on the contents (the new module is
deviation-only and sorts last, nobody in `B` imports it, no submodules).  Core Lean only.
-/
namespace Goyang.Lemmas.DevExt
open Goyang.Model
open Goyang.Lemmas.Bridge (TablesOK add_mods)
open Goyang.Lemmas.Registry (SeqOk)

/-! ### binding an absent key -/

theorem get?_none_any {m : KeyMap} {k : String} (h : m.get? k = none) : m.any (·.1 == k) = false := by
  unfold KeyMap.get? at h
  cases hf : m.find? (·.1 == k) with
  | some x => rw [hf] at h; cases h
  | none =>
    apply List.any_eq_false.mpr
    intro x hx
    have := List.find?_eq_none.mp hf x hx
    simpa using this

theorem bind_absent {m : KeyMap} {k : String} (v : Nat) (h : m.get? k = none) : m.bind k v = m ++ [(k, v)] := by
  unfold KeyMap.bind
  rw [get?_none_any h]
  rfl

theorem get?_snoc_ne {m : KeyMap} {k k' : String} (v : Nat) (h : m.get? k = none) (hne : (k' == k) = false) :
    (m ++ [(k', v)]).get? k = none := by
  unfold KeyMap.get? at h ⊢
  rw [List.find?_append]
  cases hf : m.find? (·.1 == k) with
  | some x => rw [hf] at h; cases h
  | none => simp [hne]

/-- The rows of the module table a freshly named module gets. -/
def newRows (n : Nat) (d : Stmt) : KeyMap :=
  let m : Mod := ⟨n, d⟩
  if m.fullName == m.name then [(m.name, n)] else [(m.fullName, n), (m.name, n)]

/-- **`add` of a module statement with a fresh name**: the registry it returns. -/
theorem add_fresh {B X : Registry} {d : Stmt} (ha : B.add d = .ok X) (hsub : (⟨B.mods.length, d⟩ : Mod).isSub = false)
    (hfresh : B.modules.get? d.arg = none) :
    X.mods = B.mods ++ [⟨B.mods.length, d⟩] ∧ X.modules = B.modules ++ newRows B.mods.length d ∧
      X.subModules = B.subModules := by
  refine ⟨add_mods ha, ?_⟩
  have ha := (Registry.add_ok ha).2
  unfold Registry.addChecked at ha
  simp only [hsub] at ha
  have hkm : B.kmOf false = B.modules := rfl
  have hname : (⟨B.mods.length, d⟩ : Mod).name = d.arg := rfl
  unfold newRows
  simp only
  split at ha
  · next hfn =>
    rw [if_pos hfn]
    split at ha
    · cases ha
    · rw [hkm, hname, hfresh] at ha
      simp only at ha
      cases ha
      rw [bind_absent _ hfresh, hname]
      exact ⟨rfl, rfl⟩
  · next hfn =>
    rw [if_neg hfn]
    split at ha
    · cases ha
    · next hfull =>
      rw [hkm] at hfull ha
      have hne : ((⟨B.mods.length, d⟩ : Mod).fullName == d.arg) = false := by
        rw [← hname]; simpa using hfn
      rw [bind_absent _ hfull, hname, get?_snoc_ne _ hfresh hne] at ha
      simp only at ha
      cases ha
      rw [bind_absent _ (get?_snoc_ne _ hfresh hne), hname]
      exact ⟨by simp [Registry.withKm], rfl⟩

/-- **The structural fields of `DevExtCore` from loading**: `B` as loading produces it (`TablesOK`), `X` the
result of adding the module statement `d` under a name not yet in the module table. -/
theorem devExtCore_of_add {B X : Registry} {d : Stmt} (hB : TablesOK B) (ha : B.add d = .ok X)
    (hsub : (⟨B.mods.length, d⟩ : Mod).isSub = false) (hfresh : B.modules.get? d.arg = none)
    (subsB : B.subModules = [])
    (keyLast : ∀ kb ∈ B.modules, ∀ kd ∈ newRows B.mods.length d, kb.1 < kd.1)
    (nameLast : ∀ m ∈ B.mods, m.fullName < (⟨B.mods.length, d⟩ : Mod).fullName)
    (imports : ∀ m ∈ B.mods, ∀ i ∈ m.imports, X.findModule false i = B.findModule false i)
    (ownerEq : ∀ m ∈ B.mods, X.owner m = B.owner m)
    (devOnly : DeviationOnly d) :
    DevExtCore B X [⟨B.mods.length, d⟩] (newRows B.mods.length d) := by
  obtain ⟨hmods, hmodules, hsubs⟩ := add_fresh ha hsub hfresh
  have hlt : ∀ m ∈ B.mods, m.seq < B.mods.length := by
    intro m hm
    obtain ⟨i, hi, rfl⟩ := List.getElem_of_mem hm
    rw [hB.seq i hi]; exact hi
  refine ⟨hmods, hmodules, by rw [hsubs, subsB], subsB, ?_, ?_, ?_, keyLast, ?_, imports, ownerEq, ?_⟩
  · intro m hm x hx
    rw [List.mem_singleton] at hx; subst hx
    exact Nat.ne_of_lt (hlt m hm)
  · intro kv hkv
    obtain ⟨m, hm, hs, _⟩ := hB.kinds false kv hkv
    exact ⟨m, hm, hs⟩
  · intro kv hkv
    refine ⟨_, List.mem_singleton.mpr rfl, ?_⟩
    unfold newRows at hkv
    simp only at hkv
    split at hkv
    · rw [List.mem_singleton] at hkv; rw [hkv]
    · simp only [List.mem_cons, List.not_mem_nil, or_false] at hkv
      rcases hkv with rfl | rfl <;> rfl
  · intro m hm x hx
    rw [List.mem_singleton] at hx; subst hx
    exact nameLast m hm
  · intro x hx
    rw [List.mem_singleton] at hx; subst hx
    exact devOnly

end Goyang.Lemmas.DevExt
