import Goyang.Lemmas.DevExtConv
import Goyang.Lemmas.Bridge
/-
C08, frame across module sets — part 4: the stages of `processAll` on a registry extended by
deviation-only modules, put together (`frame_core`).  Core Lean only.
-/
namespace Goyang.Lemmas.DevExt
open Goyang.Model
open Goyang.Lemmas.Tree (envOf keyOrder tstate forest0 pending0 pstate0 preDev devStage fixAll afterLoop afterRounds leftoverPass
  allMods)
open Goyang.Lemmas.Deviate (stageStep devsOf stageTargets stage_frame obsE obs)

/-- The plugged-in type resolution answers the same for the modules of `B` in both registries. -/
def PlugAgree (plug : Plug) (B X : Registry) : Prop :=
  ∀ m ∈ B.mods, ∀ sc t, plug.tres.resolve X m sc t = plug.tres.resolve B m sc t

/-- No module of `B` has an `augment` statement at its top level (restriction of the present proof). -/
def NoAugments (B : Registry) : Prop := ∀ m ∈ B.mods, m.stmt.all "augment" = []

theorem filterMap_congr' {α β} {f g : α → Option β} {l : List α} (hfg : ∀ x ∈ l, f x = g x) :
    l.filterMap f = l.filterMap g := by
  induction l with
  | nil => rfl
  | cons a l ih =>
    simp only [List.filterMap_cons, hfg a (List.mem_cons_self ..), ih (fun x hx => hfg x (List.mem_cons_of_mem _ hx))]

theorem map_congr' {α β} {f g : α → β} {l : List α} (hfg : ∀ x ∈ l, f x = g x) : l.map f = l.map g := by
  induction l with
  | nil => rfl
  | cons a l ih =>
    simp only [List.map_cons, hfg a (List.mem_cons_self ..), ih (fun x hx => hfg x (List.mem_cons_of_mem _ hx))]

section
variable {B X : Registry} {ds : List Mod} {dk : KeyMap} (h : DevExtCore B X ds dk)
include h

/-- The new modules in the order of their table keys. -/
def newOrder (X : Registry) (dk : KeyMap) : List Mod :=
  (sortBy (fun (a b : String × Nat) => a.1 < b.1) dk).filterMap fun kv => X.byId kv.2

theorem keyOrder_ext : keyOrder X = keyOrder B ++ newOrder X dk := by
  unfold keyOrder newOrder
  simp only [h.subsX, h.subsB, h.modules]
  rw [sortBy_append _ _ _ (fun a ha b hb => by simpa using h.keyLast a ha b hb)]
  have e0 : ∀ (r : Registry), (sortBy (fun (a b : String × Nat) => decide (a.1 < b.1)) ([] : KeyMap)).filterMap
      (fun kv => r.byId kv.2) = [] := fun _ => rfl
  rw [e0, e0, List.append_nil, List.append_nil, List.filterMap_append]
  congr 1
  apply filterMap_congr'
  intro kv hkv
  obtain ⟨m, hm, hms⟩ := h.tblB kv ((Tree.mem_sortBy _ kv _).mp hkv)
  rw [← hms]
  exact byId_ext h (Old.of_mem h hm)

theorem newOrder_mem {d : Mod} (hd : d ∈ newOrder X dk) : d ∈ ds := by
  unfold newOrder at hd
  obtain ⟨kv, hkv, hb⟩ := List.mem_filterMap.mp hd
  obtain ⟨d', hd', hds⟩ := h.tblD kv ((Tree.mem_sortBy _ kv _).mp hkv)
  unfold Registry.byId at hb
  rw [h.mods, List.find?_append] at hb
  cases hf : B.mods.find? (·.seq == kv.2) with
  | some m =>
    have hm := List.mem_of_find?_eq_some hf
    have hs : m.seq = kv.2 := by simpa using List.find?_some hf
    exact absurd (hs.trans hds.symm) (h.seqFresh m hm d' hd')
  | none =>
    rw [hf] at hb
    simp only [Option.none_or] at hb
    exact List.mem_of_find?_eq_some hb

theorem mem_X {m : Mod} (hm : m ∈ B.mods) : m ∈ X.mods := by rw [h.mods]; exact List.mem_append_left _ hm

theorem envAgree {plug : Plug} (hplug : PlugAgree plug B X) (opts : Opts) :
    ∀ root ∈ B.mods, EnvAgree (envOf X opts plug) (envOf B opts plug) root := by
  intro root hr
  have hx : ∀ (r : Registry), r.subModules = [] → ∀ i, r.findModule true i = none := by
    intro r hr i
    unfold Registry.findModule Registry.getSub
    simp [hr, KeyMap.get?]
  refine ⟨rfl, fun sc t => hplug root hr sc t, fun a => ?_⟩
  unfold Env.includeTarget
  simp only [envOf]
  rw [hx X h.subsX, hx B h.subsB]
  simp

omit h in
theorem need_le_fuel (env : Env) {root : Mod} {scope : List Stmt} {n : Stmt} (vis : List NodeId)
    (inv : Fuel.Inv env root scope n) : Fuel.need env.reg root n vis ≤ entryFuel env.reg :=
  Nat.le_trans (Fuel.need_le_entryNeed vis inv) (Fuel.entryNeed_le_entryFuel env.reg)

/-- Conversion of a statement of a module of `B` at the top-level fuels of the two runs. -/
theorem toEntry_runs (hno : ∀ m ∈ B.mods, noUses m.stmt = true) {plug : Plug} (hplug : PlugAgree plug B X) (opts : Opts) (root : Mod) (scope : List Stmt) (n : Stmt)
    (vis : List NodeId) (st : TState) (inv : Fuel.Inv (envOf B opts plug) root scope n) :
    toEntry (envOf X opts plug) (entryFuel X) root scope n vis st =
      toEntry (envOf B opts plug) (entryFuel B) root scope n vis st := by
  have invX : Fuel.Inv (envOf X opts plug) root scope n := ⟨mem_X h inv.root_mem, inv.node, inv.scope⟩
  exact toEntry_env (B := B) (envOf X opts plug) (envOf B opts plug) rfl (envAgree h hplug opts) hno
    (fun m hm => mem_X h hm) (entryFuel B) (entryFuel X) root scope n vis st inv
    (need_le_fuel (envOf B opts plug) vis inv) (need_le_fuel (envOf X opts plug) vis invX)

omit h in
/-- The conversions of the statements of the modules of `B` agree in the two runs, each at its
top-level fuel.  Proved when `B` has no `uses` (`convAgree_noUses`). -/
def ConvAgree (B X : Registry) (opts : Opts) (plug : Plug) : Prop :=
  ∀ (root : Mod) (scope : List Stmt) (n : Stmt) (vis : List NodeId) (st : TState),
    Fuel.Inv (envOf B opts plug) root scope n →
    toEntry (envOf X opts plug) (entryFuel X) root scope n vis st =
      toEntry (envOf B opts plug) (entryFuel B) root scope n vis st

omit h in
/-- The calls of `toEntry` that `processAll` makes itself: every loaded (sub)module statement, and every
deviate statement of a deviation (both with an empty `visiting`). -/
inductive TopCall (B : Registry) : Mod → List Stmt → Stmt → Prop
  | top {m : Mod} : m ∈ B.mods → TopCall B m [] m.stmt
  | deviate {m : Mod} {dv dsn : Stmt} : m ∈ B.mods → dv ∈ m.stmt.all "deviation" → dsn ∈ dv.all "deviate" →
      TopCall B m [dv, m.stmt] dsn

omit h in
theorem TopCall.inv {env : Env} {root : Mod} {scope : List Stmt} {n : Stmt} (hc : TopCall env.reg root scope n) :
    Fuel.Inv env root scope n := by
  cases hc with
  | top hm => exact Fuel.Inv.top hm
  | deviate hm hdv hds => exact Fuel.Inv.deviate hm hdv hds

omit h in
/-- `ConvAgree` for the calls `processAll` makes itself (`TopCall`) — all that the frame theorems need.
(`ConvAgree` speaks about every call with an arbitrary list of statements as `scope`, also lists so long
that the grouping search of a `uses` is cut short at the one fuel and not at the other.) -/
def ConvAgreeTop (B X : Registry) (opts : Opts) (plug : Plug) : Prop :=
  ∀ (root : Mod) (scope : List Stmt) (n : Stmt) (st : TState), TopCall B root scope n →
    toEntry (envOf X opts plug) (entryFuel X) root scope n [] st =
      toEntry (envOf B opts plug) (entryFuel B) root scope n [] st

omit h in
theorem ConvAgree.top {opts : Opts} {plug : Plug} (hc : ConvAgree B X opts plug) : ConvAgreeTop B X opts plug :=
  fun root scope n st htc => hc root scope n [] st (TopCall.inv (env := envOf B opts plug) htc)

theorem convAgree_noUses (hno : ∀ m ∈ B.mods, noUses m.stmt = true) {plug : Plug} (hplug : PlugAgree plug B X)
    (opts : Opts) : ConvAgree B X opts plug :=
  fun root scope n vis st inv => toEntry_runs h hno hplug opts root scope n vis st inv

omit h in
theorem conv_base {plug : Plug} {opts : Opts} (hconv : ConvAgreeTop B X opts plug) :
    (keyOrder B).foldl (fun st m => (toEntry (envOf X opts plug) (entryFuel X) m [] m.stmt [] st).2) {} =
      tstate B opts plug := by
  unfold tstate
  apply Fuel.foldl_ext_mem
  intro st m hm
  rw [hconv m [] m.stmt st (TopCall.top (Bridge.keyOrder_mem B m hm))]

/-- The conversion state of the run with the new modules: that of the run without them, plus one
cache row and one empty row of pending augments per new module. -/
structure ConvExt (ds : List Mod) (tB st : TState) : Prop where
  cache : ∃ G, NewTrees ds G ∧ st.cache = tB.cache ++ G
  augs : ∃ GA, (∀ p ∈ GA, p.2 = []) ∧ st.augs = tB.augs ++ GA

omit h in
theorem toEntry_hit (env : Env) (fuel : Nat) (root : Mod) (scope : List Stmt) (n : Stmt) (vis : List NodeId) (st : TState)
    (hkw : n.kw = "module") (x : Nat × Entry) (hx : st.cache.find? (·.1 == root.seq) = some x) :
    (toEntry env (fuel + 1) root scope n vis st).2 = st := by
  rw [Fuel.toEntry_succ]
  unfold Fuel.toEntryBody Fuel.skeleton
  simp only [hkw, hx, beq_self_eq_true, Bool.true_or, if_true]

theorem conv_new (env : Env) (fuel : Nat) (tB : TState) (l : List Mod) (hl : ∀ d ∈ l, d ∈ ds) :
    ∀ st, ConvExt ds tB st →
      ConvExt ds tB (l.foldl (fun st m => (toEntry env (fuel + 1) m [] m.stmt [] st).2) st) := by
  induction l with
  | nil => intro st hst; exact hst
  | cons d l ih =>
    intro st hst
    simp only [List.foldl_cons]
    apply ih (fun x hx => hl x (List.mem_cons_of_mem _ hx))
    have hd := hl d (List.mem_cons_self ..)
    cases hf : st.cache.find? (·.1 == d.seq) with
    | some x => rw [toEntry_hit env fuel d [] d.stmt [] st (h.devOnly d hd).1 x hf]; exact hst
    | none =>
      obtain ⟨e, he⟩ := toEntry_devOnly env fuel d st (h.devOnly d hd) hf
      rw [he]
      obtain ⟨G, hG, hc⟩ := hst.cache
      obtain ⟨GA, hGA, ha⟩ := hst.augs
      refine ⟨⟨G ++ [(d.seq, e)], ?_, ?_⟩, ⟨GA ++ [(d.seq, [])], ?_, ?_⟩⟩
      · intro g hg
        rcases List.mem_append.mp hg with hg | hg
        · exact hG g hg
        · simp only [List.mem_singleton] at hg; subst hg; exact ⟨d, hd, rfl⟩
      · simp only [hc, List.append_assoc]
      · intro p hp
        rcases List.mem_append.mp hp with hp | hp
        · exact hGA p hp
        · simp only [List.mem_singleton] at hp; subst hp; rfl
      · simp only [ha, List.append_assoc]

omit h in
theorem entryFuel_succ (reg : Registry) : ∃ k, entryFuel reg = k + 1 := by
  have : 1 ≤ entryFuel reg := by
    rw [Fuel.entryFuel_eq]; exact Nat.le_trans (by decide) (Nat.le_add_left 64 _)
  exact ⟨entryFuel reg - 1, (Nat.sub_add_cancel this).symm⟩

theorem tstate_ext {plug : Plug} {opts : Opts} (hconv : ConvAgreeTop B X opts plug) :
    ConvExt ds (tstate B opts plug) (tstate X opts plug) := by
  have e : tstate X opts plug = (newOrder X dk).foldl
      (fun st m => (toEntry (envOf X opts plug) (entryFuel X) m [] m.stmt [] st).2) (tstate B opts plug) := by
    unfold tstate
    rw [keyOrder_ext h, List.foldl_append, conv_base hconv]
    rfl
  rw [e]
  obtain ⟨k, hk⟩ := entryFuel_succ X
  rw [hk]
  refine conv_new h _ k _ _ (fun d hd => newOrder_mem h hd) _ ⟨⟨[], ⟨?_, by simp⟩⟩, ⟨[], ⟨?_, by simp⟩⟩⟩
  · intro g hg; cases hg
  · intro p hp; cases hp

/-! ### the augment stage, without augments -/

omit h in
theorem noPending_of_rows (f : Forest) (augs : List (Nat × List Entry)) (ms : List Mod) (hr : ∀ r ∈ augs, r.2 = []) :
    NoPending { forest := f, pending := ms.map fun m => (m.seq, ((augs.find? (·.1 == m.seq)).map (·.2)).getD []) } := by
  intro p hp
  simp only [List.mem_map] at hp
  obtain ⟨m, _, rfl⟩ := hp
  simp only
  cases hf : augs.find? (·.1 == m.seq) with
  | none => rfl
  | some r => simp [hr r (List.mem_of_find?_eq_some hf)]

omit h in
theorem rows_B (hno : NoAugments B) (opts : Opts) (plug : Plug) : ∀ r ∈ (tstate B opts plug).augs, r.2 = [] := by
  intro r hr
  obtain ⟨m, hm, _, h2, _, _⟩ := Bridge.tstate_rows B opts plug r hr
  rw [hno m hm] at h2
  exact List.map_eq_nil_iff.mp h2

omit h in
theorem noPending_B (hno : NoAugments B) (opts : Opts) (plug : Plug) : NoPending (pstate0 B opts plug) :=
  noPending_of_rows _ _ _ (rows_B hno opts plug)

theorem noPending_X (hno : NoAugments B) {plug : Plug} {opts : Opts} (hconv : ConvAgreeTop B X opts plug) :
    NoPending (pstate0 X opts plug) := by
  obtain ⟨GA, hGA, ha⟩ := (tstate_ext h hconv).augs
  apply noPending_of_rows
  intro r hr
  rw [ha] at hr
  rcases List.mem_append.mp hr with hr | hr
  · exact rows_B hno opts plug r hr
  · exact hGA r hr

omit h in
theorem preDev_noPending (reg : Registry) (opts : Opts) (plug : Plug) (hs : NoPending (pstate0 reg opts plug)) :
    preDev reg opts plug = fixAll (pstate0 reg opts plug) := by
  have h1 : (afterLoop reg opts plug).2 = pstate0 reg opts plug := by
    unfold afterLoop
    exact augmentLoop_noPending reg hs _ _
  have h1' : (afterRounds reg opts plug).2 = fixAll (pstate0 reg opts plug) := by
    unfold afterRounds
    rw [h1]
    exact leftoverRounds_noPending reg (fixAll_noPending hs) _ _ _
  have h2 : leftoverPass reg opts plug = (fixAll (pstate0 reg opts plug), 0) := by
    unfold leftoverPass
    rw [h1', ← Array.foldl_toList]
    exact leftover_noPending reg (fixAll_noPending hs) _ 0
  unfold preDev
  rw [h2]
  simp

theorem preDev_ext (hno : NoAugments B) {plug : Plug} {opts : Opts} (hconv : ConvAgreeTop B X opts plug) :
    ∃ G, NewTrees ds G ∧ (preDev X opts plug).forest = ext G (preDev B opts plug).forest := by
  rw [preDev_noPending X opts plug (noPending_X h hno hconv), preDev_noPending B opts plug (noPending_B hno opts plug)]
  obtain ⟨G, hG, hc⟩ := (tstate_ext h hconv).cache
  refine ⟨G.map fun (x : Nat × Entry) => (x.1, fixChoice x.2), ?_, ?_⟩
  · intro g hg
    obtain ⟨g0, hg0, rfl⟩ := List.mem_map.mp hg
    exact hG g0 hg0
  · have e1 : ∀ (s : PState), (fixAll s).forest =
        { trees := s.forest.trees.map fun (x : Nat × Entry) => (x.1, fixChoice x.2) } := fun _ => rfl
    have e2 : ∀ (r : Registry), (pstate0 r opts plug).forest.trees = (tstate r opts plug).cache := fun _ => rfl
    rw [e1, e1, e2, e2, hc, List.map_append]
    rfl

/-! ### the deviation stage -/

omit h in
theorem devStage_eq (reg : Registry) (opts : Opts) (plug : Plug) (f0 : Forest) :
    devStage reg opts plug f0 =
      (keyOrder reg).foldl (stageStep reg opts (envOf reg opts plug) (entryFuel reg)) (f0, [], []) := rfl

omit h in
theorem devsOf_runs {plug : Plug} {opts : Opts} (hconv : ConvAgreeTop B X opts plug) (m : Mod) (hm : m ∈ B.mods) :
    devsOf (envOf X opts plug) (entryFuel X) m = devsOf (envOf B opts plug) (entryFuel B) m := by
  unfold devsOf
  apply map_congr'
  intro dv hdv
  have : ∀ dsn ∈ dv.all "deviate",
      (if deviateKinds.contains dsn.arg then
        some (dsn.arg, (toEntry (envOf X opts plug) (entryFuel X) m [dv, m.stmt] dsn [] {}).1) else none) =
      (if deviateKinds.contains dsn.arg then
        some (dsn.arg, (toEntry (envOf B opts plug) (entryFuel B) m [dv, m.stmt] dsn [] {}).1) else none) := by
    intro dsn hds
    rw [hconv m [dv, m.stmt] dsn {} (TopCall.deviate hm hdv hds)]
  rw [filterMap_congr' this]

/-- The locations the deviations of the new modules resolve to, each at its turn, in the run with
them (after the modules of `B` have had their turn). -/
def newTargets (B X : Registry) (opts : Opts) (plug : Plug) : List Loc :=
  stageTargets X opts (envOf X opts plug) (entryFuel X) ((keyOrder X).drop (keyOrder B).length)
    ((keyOrder B).foldl (stageStep X opts (envOf X opts plug) (entryFuel X)) ((preDev X opts plug).forest, [], []))

omit h in
theorem obsE_ext (G : List (Nat × Entry)) (f : Forest) (t : Nat) (q : Path) (dd : EData) (ho : obsE f t q = some dd) :
    obsE (ext G f) t q = some dd := by
  unfold obsE obs at ho ⊢
  have : (ext G f).tree? t = f.tree? t := by
    unfold Forest.tree? ext
    simp only [List.find?_append]
    cases hf : f.trees.find? (·.1 == t) with
    | some x => rfl
    | none =>
      unfold Forest.tree? at ho
      simp [hf] at ho
  rw [this]
  exact ho

/-- The two runs agree before the deviation stage: the forest of the run with the new modules is the
forest of the run without them plus trees of new modules. -/
def PreDevAgree (B X : Registry) (ds : List Mod) (opts : Opts) (plug : Plug) : Prop :=
  ∃ G, NewTrees ds G ∧ (preDev X opts plug).forest = ext G (preDev B opts plug).forest

/-- **The frame across module sets from the deviation stage on**: whatever the earlier stages are
like, if they end in forests that agree on the trees of `B`, the results agree outside the targets
of the new modules' deviations. -/
theorem frame_core_of_preDev {plug : Plug} {opts : Opts} (hconv : ConvAgreeTop B X opts plug)
    (hpre : PreDevAgree B X ds opts plug)
    (hX : (processAll X opts plug).errors = []) (hB : (processAll B opts plug).errors = [])
    (t : Nat) (q : Path) (dd : EData) (ho : obsE (processAll B opts plug).forest t q = some dd)
    (hq : ∀ loc ∈ newTargets B X opts plug, ¬ (loc.1 = t ∧ loc.2 <+: q)) :
    obsE (processAll X opts plug).forest t q = some dd := by
  obtain ⟨_, _, _, _, hfX⟩ := Tree.processAll_clean X opts plug hX
  obtain ⟨_, _, _, _, hfB⟩ := Tree.processAll_clean B opts plug hB
  rw [hfX, devStage_eq, keyOrder_ext h, List.foldl_append]
  rw [hfB, devStage_eq] at ho
  obtain ⟨G, hG, hpre⟩ := hpre
  have hbase := stageFold_ext h hG opts (envOf X opts plug) (envOf B opts plug) (entryFuel X) (entryFuel B) (keyOrder B)
    (fun m hm => Bridge.keyOrder_mem B m hm) (fun m hm => devsOf_runs hconv m (Bridge.keyOrder_mem B m hm))
    (preDev B opts plug).forest [] []
  have hdrop : (keyOrder X).drop (keyOrder B).length = newOrder X dk := by
    rw [keyOrder_ext h, List.drop_left]
  unfold newTargets at hq
  rw [hdrop, hpre, hbase] at hq
  rw [hpre, hbase]
  exact stage_frame X opts (envOf X opts plug) (entryFuel X) t q dd (newOrder X dk) _ (obsE_ext G _ t q dd ho) hq

/-- **The frame across module sets, on the stages of `processAll`.** -/
theorem frame_core (hno : NoAugments B) {plug : Plug} {opts : Opts} (hconv : ConvAgreeTop B X opts plug)
    (hX : (processAll X opts plug).errors = []) (hB : (processAll B opts plug).errors = [])
    (t : Nat) (q : Path) (dd : EData) (ho : obsE (processAll B opts plug).forest t q = some dd)
    (hq : ∀ loc ∈ newTargets B X opts plug, ¬ (loc.1 = t ∧ loc.2 <+: q)) :
    obsE (processAll X opts plug).forest t q = some dd :=
  frame_core_of_preDev h hconv (preDev_ext h hno hconv) hX hB t q dd ho hq

end

end Goyang.Lemmas.DevExt
