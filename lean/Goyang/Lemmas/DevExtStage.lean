import Goyang.Lemmas.DevExtBase
/-
C08, frame across module sets — part 2: the deviation stage and the augment stage on a forest with
extra trees.  The deviations of a module of `B`, applied in `X` to a forest that holds the trees of
new modules besides those of `B`, do to the trees of `B` exactly what they do in `B`, and leave the
extra trees alone; an augment pass over trees that have no pending augments changes nothing.
Core Lean only.
-/
namespace Goyang.Lemmas.DevExt
open Goyang.Model
open Goyang.Lemmas.Deviate (innerStep outerStep applyDeviations_eq stageStep devsOf)

section
variable {B X : Registry} {ds : List Mod} {dk : KeyMap} (h : DevExtCore B X ds dk)
include h

omit h in
/-- The tree `find` ends in, on behalf of a module of `B`, is a tree of `B`. -/
theorem find_tree_old (f : Forest) (start : Loc) (ctxMod : Nat) (name : String)
    (hs : ∃ m ∈ B.mods, m.seq = start.1) (t : Nat) (p : Path)
    (hr : (find B f start ctxMod name).1 = some (t, p)) : ∃ m ∈ B.mods, m.seq = t := by
  rw [find_eq] at hr
  split at hr
  · cases hr
  · generalize name.splitOn "/" = l at hr
    unfold findParts at hr
    split at hr
    · next parts =>
      unfold findAbs at hr
      split at hr
      · cases hr
      · next t' htree =>
        split at hr
        · cases hr
        · simp only at hr
          cases hw : (walkParts parts _ (some [])).1 with
          | none => rw [hw] at hr; cases hr
          | some q =>
            rw [hw] at hr
            simp only [Option.map_some, Option.some.injEq, Prod.mk.injEq] at hr
            exact hr.1 ▸ treeOf_old hs _ t' htree
    · unfold findRel at hr
      split at hr
      · cases hr
      · simp only at hr
        cases hw : (walkParts l _ (some start.2)).1 with
        | none => rw [hw] at hr; cases hr
        | some q =>
          rw [hw] at hr
          simp only [Option.map_some, Option.some.injEq, Prod.mk.injEq] at hr
          exact hr.1 ▸ hs

omit h in
theorem innerStep_ext {G : List (Nat × Entry)} (opts : Opts) (m : Mod) (t : Nat) (path : Path)
    (ht : ∀ g ∈ G, g.1 ≠ t) (f : Forest) (node : Entry) (det : Bool) (errs : List Err) (d : String × Entry) :
    innerStep opts m t path (ext G f, node, det, errs) d =
      (ext G (innerStep opts m t path (f, node, det, errs) d).1, (innerStep opts m t path (f, node, det, errs) d).2) := by
  unfold innerStep
  simp only
  rw [tree?_ext G f t ht]
  cases det with
  | true => rfl
  | false =>
    simp only [Bool.false_eq_true, if_false]
    cases f.tree? t with
    | none => rfl
    | some root => simp only; rw [setTree_ext G f t _ ht]

omit h in
theorem innerFold_ext {G : List (Nat × Entry)} (opts : Opts) (m : Mod) (t : Nat) (path : Path)
    (ht : ∀ g ∈ G, g.1 ≠ t) (l : List (String × Entry)) :
    ∀ (f : Forest) (node : Entry) (det : Bool) (errs : List Err),
    l.foldl (innerStep opts m t path) (ext G f, node, det, errs) =
      (ext G (l.foldl (innerStep opts m t path) (f, node, det, errs)).1,
        (l.foldl (innerStep opts m t path) (f, node, det, errs)).2) := by
  induction l with
  | nil => intro f node det errs; rfl
  | cons d l ih =>
    intro f node det errs
    simp only [List.foldl_cons]
    rw [innerStep_ext opts m t path ht]
    obtain ⟨f', node', det', errs'⟩ := innerStep opts m t path (f, node, det, errs) d
    exact ih f' node' det' errs'

theorem outerStep_ext {G : List (Nat × Entry)} (hG : NewTrees ds G) (opts : Opts) (m : Mod) (hm : m ∈ B.mods)
    (f : Forest) (errs : List Err) (dv : Stmt × List (String × Entry)) :
    outerStep X opts m (ext G f, errs) dv =
      (ext G (outerStep B opts m (f, errs) dv).1, (outerStep B opts m (f, errs) dv).2) := by
  unfold outerStep
  simp only
  have hs : ∃ m' ∈ B.mods, m'.seq = ((m.seq, []) : Loc).1 := ⟨m, hm, rfl⟩
  rw [find_ext h hG f (m.seq, []) m.seq dv.1.arg hs (Old.of_mem h hm)]
  have hold := find_tree_old f (m.seq, []) m.seq dv.1.arg hs
  generalize find B f (m.seq, []) m.seq dv.1.arg = r at hold
  obtain ⟨target, f'⟩ := r
  cases target with
  | none => rfl
  | some loc =>
    obtain ⟨t, path⟩ := loc
    have ht : ∀ g ∈ G, g.1 ≠ t := hG.ne (old_of_mem h (hold t path rfl))
    simp only
    rw [tree?_ext G f' t ht]
    cases (f'.tree? t).bind (·.getAt path) with
    | none => rfl
    | some node0 =>
      simp only
      rw [innerFold_ext opts m t path ht]

theorem applyDeviations_ext {G : List (Nat × Entry)} (hG : NewTrees ds G) (opts : Opts) (m : Mod) (hm : m ∈ B.mods)
    (devs : List (Stmt × List (String × Entry))) (f : Forest) :
    applyDeviations X opts m devs (ext G f) =
      (ext G (applyDeviations B opts m devs f).1, (applyDeviations B opts m devs f).2) := by
  rw [applyDeviations_eq, applyDeviations_eq]
  generalize ([] : List Err) = errs
  induction devs generalizing f errs with
  | nil => rfl
  | cons dv devs ih =>
    simp only [List.foldl_cons]
    rw [outerStep_ext h hG opts m hm]
    obtain ⟨f', errs'⟩ := outerStep B opts m (f, errs) dv
    exact ih f' errs'

/-- One module of `B` at its turn in the deviation stage, when its deviate entries are the same. -/
theorem stageStep_ext {G : List (Nat × Entry)} (hG : NewTrees ds G) (opts : Opts) (envX envB : Env) (fX fB : Nat)
    (m : Mod) (hm : m ∈ B.mods) (hdevs : devsOf envX fX m = devsOf envB fB m)
    (f : Forest) (errs : List Err) (done : List String) :
    stageStep X opts envX fX (ext G f, errs, done) m =
      (ext G (stageStep B opts envB fB (f, errs, done) m).1, (stageStep B opts envB fB (f, errs, done) m).2) := by
  unfold stageStep
  simp only
  split
  · rfl
  · rw [hdevs, applyDeviations_ext h hG opts m hm]

theorem stageFold_ext {G : List (Nat × Entry)} (hG : NewTrees ds G) (opts : Opts) (envX envB : Env) (fX fB : Nat)
    (ms : List Mod) (hms : ∀ m ∈ ms, m ∈ B.mods) (hdevs : ∀ m ∈ ms, devsOf envX fX m = devsOf envB fB m) :
    ∀ (f : Forest) (errs : List Err) (done : List String),
    ms.foldl (stageStep X opts envX fX) (ext G f, errs, done) =
      (ext G (ms.foldl (stageStep B opts envB fB) (f, errs, done)).1,
        (ms.foldl (stageStep B opts envB fB) (f, errs, done)).2) := by
  induction ms with
  | nil => intro f errs done; rfl
  | cons m ms ih =>
    intro f errs done
    simp only [List.foldl_cons]
    rw [stageStep_ext h hG opts envX envB fX fB m (hms m (List.mem_cons_self ..)) (hdevs m (List.mem_cons_self ..))]
    obtain ⟨f', errs', done'⟩ := stageStep B opts envB fB (f, errs, done) m
    exact ih (fun x hx => hms x (List.mem_cons_of_mem _ hx)) (fun x hx => hdevs x (List.mem_cons_of_mem _ hx)) f' errs' done'

end

/-! ### augment passes over trees without pending augments -/

/-- No tree has a pending augment. -/
def NoPending (s : PState) : Prop := ∀ p ∈ s.pending, p.2 = []

theorem pendingOf_noPending {s : PState} (hs : NoPending s) (id : Nat) : s.pendingOf id = [] := by
  unfold PState.pendingOf
  cases hf : s.pending.find? (·.1 == id) with
  | none => rfl
  | some p => simp [hs p (List.mem_of_find?_eq_some hf)]

theorem setPending_noPending {s : PState} (hs : NoPending s) (id : Nat) : s.setPending id [] = s := by
  unfold PState.setPending
  have : (s.pending.map fun (x : Nat × List Entry) => if x.1 == id then (x.1, []) else (x.1, x.2)) = s.pending := by
    rw [List.map_congr_left (g := fun x => x)]
    · simp
    · intro p hp
      have := hs p hp
      obtain ⟨i, l⟩ := p
      simp only at this
      subst this
      split <;> rfl
  cases s with
  | mk forest pending =>
    simp only at this ⊢
    rw [show (pending.map fun (x : Nat × List Entry) => match x with | (i, p) => if i == id then (i, []) else (i, p)) =
      (pending.map fun (x : Nat × List Entry) => if x.1 == id then (x.1, []) else (x.1, x.2)) from rfl, this]

/-- With nothing pending, `augmentTree` does nothing. -/
theorem augmentTree_noPending (reg : Registry) (id : Nat) (addErrors : Bool) {s : PState} (hs : NoPending s) :
    augmentTree reg id addErrors s = (s, 0, 0) := by
  rw [Fuel.augmentTree_eq, pendingOf_noPending hs]
  simp only [List.foldl_nil]
  rw [setPending_noPending hs]

theorem augmentPass_noPending (reg : Registry) {s : PState} (hs : NoPending s) :
    ∀ (fuel : Nat) (mods : Array Nat) (i processed : Nat),
      (augmentPass reg fuel mods i processed s).2 = (processed, s) := by
  intro fuel
  induction fuel with
  | zero => intro mods i processed; rfl
  | succ n ih =>
    intro mods i processed
    rw [Fuel.augmentPass_succ]
    split
    · rw [augmentTree_noPending reg _ false hs]
      simp only [beq_self_eq_true, if_true, Nat.add_zero]
      exact ih _ _ _
    · rfl

theorem augmentLoop_noPending (reg : Registry) {s : PState} (hs : NoPending s) (fuel : Nat) (mods : Array Nat) :
    (augmentLoop reg fuel mods s).2 = s := by
  cases fuel with
  | zero => rfl
  | succ n =>
    rw [Fuel.augmentLoop_succ]
    split
    · rfl
    · rw [augmentPass_noPending reg hs]
      simp

theorem fixAll_noPending {s : PState} (hs : NoPending s) : NoPending (Tree.fixAll s) := hs

/-- With nothing pending the retry rounds stop after the first (empty) loop. -/
theorem leftoverRounds_noPending (reg : Registry) {s : PState} (hs : NoPending s) (fuel n : Nat) (mods : Array Nat) :
    (leftoverRounds reg fuel n mods s).2 = s := by
  cases n with
  | zero => rfl
  | succ n =>
    have hc : Rounds.loopCount reg fuel mods s = 0 :=
      (Rounds.loopCount_eq_zero reg fuel mods s).mpr
        (Or.inr (Or.inr (by rw [augmentPass_noPending reg hs (mods.size + 1) mods 0 0])))
    rw [Rounds.leftoverRounds_succ, if_pos hc]
    exact augmentLoop_noPending reg hs fuel mods

theorem leftover_noPending (reg : Registry) {s : PState} (hs : NoPending s) (left : List Nat) (n : Nat) :
    left.foldl (fun (acc : PState × Nat) id =>
      let (s, p, _) := augmentTree reg id true acc.1
      (s, acc.2 + p)) (s, n) = (s, n) := by
  induction left with
  | nil => rfl
  | cons id left ih =>
    simp only [List.foldl_cons]
    rw [augmentTree_noPending reg id true hs]
    exact ih

end Goyang.Lemmas.DevExt
