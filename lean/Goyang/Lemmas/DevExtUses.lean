import Goyang.Lemmas.DevExtAugMain
/-
C08, frame across module sets — part 8: `uses` in the base registry.

The conversion of a statement of a module of `B` in the run with the new modules (`toEntry` in the
environment of `X`, fuel `entryFuel X`) against the run without them (environment of `B`, fuel
`entryFuel B`), split into two independent facts:

* SAME FUEL, two registries (`toEntry_sameFuel`, proved here): at every fuel the two environments give
  the same conversion, `uses` included — the grouping search (`findGrouping`, which runs on
  `2 * fuel + 16`) is simulated step by step (`fg_all`): it follows imports of modules of `B` only,
  and those resolve alike; it asks whether the module was linked, and that is the same in both runs
  (`FgAgree.linked`, hypothesis).
* SAME REGISTRY, two fuels (`FuelStable`, hypothesis here): the conversion in `B` alone does not change
  when the fuel grows from `entryFuel B` to `entryFuel X`.  Without `uses` this is `toEntry_env`
  (`fuelStable_noUses`); with `uses` it needs that the grouping search is not cut short at the fuels
  that occur (a sharper bound than `groupingNeed`, which counts the length of the name).

Together: `ConvAgree` (`convAgree_of_stable`).  Core Lean only.

Later parts: `LinkAgree` is derived from `DevExtCore` in `DevExtLink.lean`; `FuelStable` (every call, any
scope list) is NOT true of a base whose `uses` resolves (`Props/C08.lean`, `fuelStable_fails`) — the
top-level version `FuelStableTop` is, for every registry (`DevExtFuel.lean`, `fuelStableTop`), and
`convAgreeTop_of_devExtCore` there puts the halves together.  `FgAgree.imp` asks only about statements
with the keyword `module` / `submodule` (`ModImports`; `FlatModKw`: none but the roots).
-/
set_option linter.unusedSectionVars false
namespace Goyang.Lemmas.DevExt
open Goyang.Model
open Goyang.Lemmas.Tree (envOf)
open Goyang.Lemmas.Fuel (Sub Rec toEntryBody toEntry_succ body_congr Callee visiting' skeleton stepB foldl_ext_mem
  fgScope_cons fgImports_cons fgIncludes_cons orElse orElse_congr viaOwner importHit includeHit isModKw
  findGrouping_sound findModule_mem owner_mem includeTarget_mem mem_all_subs)

/-! ### a property of every statement of a tree -/

mutual
/-- `P` holds of the statement and of every statement below it. -/
def Deep (P : Stmt → Prop) : Stmt → Prop
  | .mk kw ha arg file line col subs => P (.mk kw ha arg file line col subs) ∧ DeepL P subs
def DeepL (P : Stmt → Prop) : List Stmt → Prop
  | [] => True
  | s :: ss => Deep P s ∧ DeepL P ss
end

theorem deepL_mem {P : Stmt → Prop} {l : List Stmt} (h : DeepL P l) {c : Stmt} (hc : c ∈ l) : Deep P c := by
  induction l with
  | nil => cases hc
  | cons a l ih =>
    simp only [DeepL] at h
    rcases List.mem_cons.mp hc with rfl | hc
    · exact h.1
    · exact ih h.2 hc

theorem deep_self {P : Stmt → Prop} {t : Stmt} (h : Deep P t) : P t := by
  cases t with
  | mk kw ha arg file line col subs => simp only [Deep] at h; exact h.1

theorem deep_subs {P : Stmt → Prop} {t : Stmt} (h : Deep P t) : DeepL P t.subs := by
  cases t with
  | mk kw ha arg file line col subs => simp only [Deep] at h; exact h.2

theorem deep_sub {P : Stmt → Prop} {s t : Stmt} (hs : Sub s t) (h : Deep P t) : P s := by
  induction hs with
  | refl => exact deep_self h
  | step hm _ ih => exact ih (deepL_mem (deep_subs h) hm)

/-! ### the grouping search in two registries, same fuel -/

/-- What the grouping search reads of the registry and of the linked set, on behalf of modules of `B`. -/
structure FgAgree (B X : Registry) (lX lB : List Nat) : Prop where
  linked : ∀ m ∈ B.mods, lX.contains m.seq = lB.contains m.seq
  imp : ∀ m ∈ B.mods, ∀ s, Sub s m.stmt → isModKw s = true → ∀ i ∈ s.all "import", X.findModule false i = B.findModule false i
  inc : ∀ i, X.findModule true i = B.findModule true i
  own : ∀ m ∈ B.mods, m.belongsTo?.bind X.getModule = m.belongsTo?.bind B.getModule

theorem fg_all {B X : Registry} {lX lB : List Nat} (a : FgAgree B X lX lB) : ∀ fuel : Nat,
    (∀ root scope name seen, root ∈ B.mods → (∀ s ∈ scope, Sub s root.stmt) →
      findGrouping X lX fuel root scope name seen = findGrouping B lB fuel root scope name seen) ∧
    (∀ root scope name seen, root ∈ B.mods → (∀ s ∈ scope, Sub s root.stmt) →
      fgScope X lX fuel root scope name seen = fgScope B lB fuel root scope name seen) ∧
    (∀ imports name seen, (∀ i ∈ imports, X.findModule false i = B.findModule false i) →
      fgImports X lX fuel imports name seen = fgImports B lB fuel imports name seen) ∧
    (∀ includes name seen, fgIncludes X lX fuel includes name seen = fgIncludes B lB fuel includes name seen) := by
  intro fuel
  induction fuel with
  | zero => refine ⟨?_, ?_, ?_, ?_⟩ <;> intros <;> simp [findGrouping, fgScope, fgImports, fgIncludes]
  | succ fuel ih =>
    obtain ⟨ihF, ihS, ihI, ihN⟩ := ih
    have hOwner : ∀ root cond name seen, root ∈ B.mods →
        viaOwner X lX fuel root cond name seen = viaOwner B lB fuel root cond name seen := by
      intro root cond name seen hr
      unfold viaOwner
      rw [a.own root hr]
      split
      · cases ho : root.belongsTo?.bind B.getModule with
        | none => rfl
        | some owner =>
          simp only
          split
          · rfl
          · exact ihF owner [owner.stmt] name _ (owner_mem ho) (fun s hs => by
              rw [List.mem_singleton] at hs; subst hs; exact .refl _)
      · rfl
    refine ⟨?_, ?_, ?_, ?_⟩
    · intro root scope name seen hr hs
      rw [findGrouping.eq_2, findGrouping.eq_2]
      exact ihS root scope _ seen hr hs
    · intro root scope name seen hr hs
      cases scope with
      | nil => simp [fgScope]
      | cons n up =>
        rw [fgScope_cons, fgScope_cons]
        have hn : Sub n root.stmt := hs n (List.mem_cons_self ..)
        have hup : ∀ s ∈ up, Sub s root.stmt := fun s h => hs s (List.mem_cons_of_mem _ h)
        cases (n.all "grouping").find? (·.arg == name) with
        | some g => rfl
        | none =>
          simp only
          rw [a.linked root hr]
          apply orElse_congr
          · apply ihI
            intro i hi
            split at hi
            · next hcond =>
              simp only [Bool.and_eq_true] at hcond
              exact a.imp root hr n hn hcond.1 i hi
            · cases hi
          · apply orElse_congr
            · exact ihN _ _ _
            · apply orElse_congr
              · exact hOwner root _ name _ hr
              · exact ihS root up name _ hr hup
    · intro imports name seen himp
      cases imports with
      | nil => simp [fgImports]
      | cons i rest =>
        rw [fgImports_cons, fgImports_cons]
        apply orElse_congr
        · unfold importHit
          simp only
          rw [himp i (List.mem_cons_self ..)]
          split
          · cases hf : B.findModule false i with
            | none => rfl
            | some im =>
              simp only
              exact ihF im [im.stmt] _ seen (findModule_mem hf) (fun s hs => by
                rw [List.mem_singleton] at hs; subst hs; exact .refl _)
          · rfl
        · exact ihI rest name _ (fun j hj => himp j (List.mem_cons_of_mem _ hj))
    · intro includes name seen
      cases includes with
      | nil => simp [fgIncludes]
      | cons i rest =>
        rw [fgIncludes_cons, fgIncludes_cons]
        apply orElse_congr
        · unfold includeHit
          rw [a.inc i]
          cases hf : B.findModule true i with
          | none => rfl
          | some im =>
            simp only
            split
            · rfl
            · exact ihF im [im.stmt] name _ (findModule_mem hf) (fun s hs => by
                rw [List.mem_singleton] at hs; subst hs; exact .refl _)
        · exact ihN rest name _

/-! ### `toEntry` in two environments, same fuel -/

section
variable {B : Registry} (envX envB : Env) (hreg : envB.reg = B)
  (hagree : ∀ root ∈ B.mods, EnvAgree envX envB root)
  (hfg : FgAgree B envX.reg envX.linked envB.linked)
include hreg hagree hfg

theorem findGrouping_envs (fuel : Nat) (root : Mod) (scope : List Stmt) (n : Stmt) (inv : Fuel.Inv envB root scope n)
    (name : String) (seen : List String) :
    findGrouping envX.reg envX.linked fuel root scope name seen = findGrouping envB.reg envB.linked fuel root scope name seen := by
  rw [hreg]
  exact (fg_all hfg fuel).1 root scope name seen (hreg ▸ inv.root_mem) inv.scope

theorem toEntryBody_envs (fuel : Nat) (r : Rec) (root : Mod) (scope : List Stmt) (n : Stmt) (vis : List NodeId) (st : TState)
    (inv : Fuel.Inv envB root scope n) :
    toEntryBody envX fuel r root scope n vis st = toEntryBody envB fuel r root scope n vis st := by
  have ha := hagree root (hreg ▸ inv.root_mem)
  have hdir : (fun (isMod : Bool) (e0 : Entry) =>
        (fieldOrder n.kw).foldl (stepB envX r root n (n :: scope) (visiting' root n vis) isMod) (e0, st)) =
      (fun (isMod : Bool) (e0 : Entry) =>
        (fieldOrder n.kw).foldl (stepB envB r root n (n :: scope) (visiting' root n vis) isMod) (e0, st)) := by
    funext isMod e0
    apply foldl_ext_mem
    intro acc f _
    exact stepB_env ha _ _ _ _ _ _ _
  unfold toEntryBody
  rw [hdir, findGrouping_envs envX envB hreg hagree hfg (2 * fuel + 16) root scope n inv n.arg []]
  exact skeleton_env ha _ _ _ _ _ _

theorem callee_inv {root : Mod} {scope : List Stmt} {n : Stmt} {vis : List NodeId} (inv : Fuel.Inv envB root scope n)
    {root' : Mod} {scope' : List Stmt} {n' : Stmt} {vis' : List NodeId}
    (hcal : Callee envX root scope n vis root' scope' n' vis') : Fuel.Inv envB root' scope' n' := by
  cases hcal with
  | child hc =>
    refine ⟨inv.root_mem, Sub.child hc inv.node, ?_⟩
    intro s hs
    rcases List.mem_cons.mp hs with rfl | hs
    · exact inv.node
    · exact inv.scope s hs
  | uses hfind =>
    rw [findGrouping_envs envX envB hreg hagree hfg _ root scope n inv] at hfind
    obtain ⟨_, ⟨n0, up, hg, hgm⟩, hcase⟩ := findGrouping_sound hfind
    rcases hcase with ⟨hr, pre, hpre⟩ | ⟨hr, hsc⟩
    · subst hr
      have hsub : ∀ s ∈ scope', Sub s root'.stmt := fun s hs => inv.scope s (by rw [hpre]; exact List.mem_append_right _ hs)
      refine ⟨inv.root_mem, ?_, hsub⟩
      exact Sub.child hgm (hsub n0 (by rw [hg]; exact List.mem_cons_self ..))
    · have hn0 : n0 = root'.stmt := by
        rw [hg] at hsc
        simp only [List.cons.injEq] at hsc
        exact hsc.1
      subst hn0
      refine ⟨hr, Sub.child hgm (.refl _), ?_⟩
      intro s hs
      rw [hsc, List.mem_singleton] at hs
      subst hs
      exact .refl _
  | include_ hf hit =>
    have ha := hagree root (hreg ▸ inv.root_mem)
    rw [ha.incl] at hit
    exact ⟨includeTarget_mem hit, .refl _, fun _ h => by cases h⟩

/-- **Same fuel, two environments**: the conversion of a statement of a module of `B` is the same. -/
theorem toEntry_sameFuel : ∀ (fuel : Nat) (root : Mod) (scope : List Stmt) (n : Stmt) (vis : List NodeId) (st : TState),
    Fuel.Inv envB root scope n → toEntry envX fuel root scope n vis st = toEntry envB fuel root scope n vis st := by
  intro fuel
  induction fuel with
  | zero => intro root scope n vis st _; rfl
  | succ f ih =>
    intro root scope n vis st inv
    rw [toEntry_succ, toEntry_succ]
    rw [body_congr envX f (toEntry envX f) (toEntry envB f) root scope n vis st
      (fun root' scope' n' vis' st' hcal => ih root' scope' n' vis' st' (callee_inv envX envB hreg hagree hfg inv hcal))]
    exact toEntryBody_envs envX envB hreg hagree hfg f _ root scope n vis st inv

end

/-! ### putting the two halves together -/

/-- The conversion in `B` alone is the same at the fuel `fX` as at `entryFuel B`. -/
def FuelStable (B : Registry) (fX : Nat) (opts : Opts) (plug : Plug) : Prop :=
  ∀ (root : Mod) (scope : List Stmt) (n : Stmt) (vis : List NodeId) (st : TState),
    Fuel.Inv (envOf B opts plug) root scope n →
    toEntry (envOf B opts plug) fX root scope n vis st = toEntry (envOf B opts plug) (entryFuel B) root scope n vis st

/-- The imports of every statement of a module of `B` (not only the top-level ones) resolve alike. -/
def DeepImports (B X : Registry) : Prop :=
  ∀ m ∈ B.mods, Deep (fun s => ∀ i ∈ s.all "import", X.findModule false i = B.findModule false i) m.stmt

/-- The imports of every statement of a module of `B` that has the keyword `module` / `submodule` (the
grouping search reads the imports of no other statement) resolve alike. -/
def ModImports (B X : Registry) : Prop :=
  ∀ m ∈ B.mods, ∀ s, Sub s m.stmt → isModKw s = true → ∀ i ∈ s.all "import", X.findModule false i = B.findModule false i

theorem DeepImports.modImports {B X : Registry} (hdeep : DeepImports B X) : ModImports B X :=
  fun m hm _ hs _ i hi => deep_sub hs (hdeep m hm) i hi

/-- The modules of `B` are linked in the one run iff in the other. -/
def LinkAgree (B X : Registry) : Prop := ∀ m ∈ B.mods, (linkAll X).1.contains m.seq = (linkAll B).1.contains m.seq

section
variable {B X : Registry} {ds : List Mod} {dk : KeyMap} (h : DevExtCore B X ds dk)
include h

/-- No statement below a (sub)module statement has the keyword `module` or `submodule` (true of every
statement tree the AST builder accepts). -/
def FlatModKw (B : Registry) : Prop := ∀ m ∈ B.mods, ∀ s, Sub s m.stmt → isModKw s = true → s = m.stmt

/-- For such a base `ModImports` is what `DevExtCore` says about the imports of the modules of `B`. -/
theorem modImports_of_flat (hflat : FlatModKw B) : ModImports B X := by
  intro m hm s hs hk i hi
  rw [hflat m hm s hs hk] at hi
  exact h.imports m hm i hi

theorem fgAgree' (hmi : ModImports B X) (hlink : LinkAgree B X) : FgAgree B X (linkAll X).1 (linkAll B).1 where
  linked := hlink
  imp := hmi
  inc i := by
    have hx : ∀ (r : Registry), r.subModules = [] → r.findModule true i = none := by
      intro r hr
      unfold Registry.findModule Registry.getSub
      simp [hr, KeyMap.get?]
    rw [hx X h.subsX, hx B h.subsB]
  own m hm := by
    have := h.ownerEq m hm
    unfold Registry.owner at this
    cases hb : m.belongsTo? with
    | none => rfl
    | some b => rw [hb] at this; simpa using this

theorem fgAgree (hdeep : DeepImports B X) (hlink : LinkAgree B X) : FgAgree B X (linkAll X).1 (linkAll B).1 :=
  fgAgree' h hdeep.modImports hlink

/-- **`ConvAgree` from the two halves.** -/
theorem convAgree_of_stable {plug : Plug} (hplug : PlugAgree plug B X) (opts : Opts) (hdeep : DeepImports B X)
    (hlink : LinkAgree B X) (hst : FuelStable B (entryFuel X) opts plug) : ConvAgree B X opts plug := by
  intro root scope n vis st inv
  rw [toEntry_sameFuel (envOf X opts plug) (envOf B opts plug) rfl (envAgree h hplug opts) (fgAgree h hdeep hlink)
    (entryFuel X) root scope n vis st inv]
  exact hst root scope n vis st inv

omit h in
/-- Without `uses` the conversion in `B` does not depend on the fuel (above the need). -/
theorem fuelStable_noUses (hno : ∀ m ∈ B.mods, noUses m.stmt = true) (fX : Nat) (hf : entryFuel B ≤ fX) (opts : Opts)
    (plug : Plug) : FuelStable B fX opts plug := by
  intro root scope n vis st inv
  exact toEntry_env (B := B) (envOf B opts plug) (envOf B opts plug) rfl
    (fun _ _ => ⟨rfl, fun _ _ => rfl, fun _ => rfl⟩) hno (fun _ hm => hm) (entryFuel B) fX root scope n vis st inv
    (need_le_fuel (envOf B opts plug) vis inv) (Nat.le_trans (need_le_fuel (envOf B opts plug) vis inv) hf)

end

end Goyang.Lemmas.DevExt
