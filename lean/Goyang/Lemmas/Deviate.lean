import Goyang.Model.Process
import Goyang.Spec.Deviate

namespace Goyang.Lemmas.Deviate
open Goyang.Model Goyang.Spec.Deviate

/-! ### trees: what `updateAt` and `removeAt` leave alone -/

theorem find_map_name (c : List Entry) (h : Entry → Entry) (k : String)
    (hn : ∀ x ∈ c, (h x).name = x.name) :
    (c.map h).find? (·.name == k) = (c.find? (·.name == k)).map h := by
  induction c with
  | nil => rfl
  | cons x xs ih =>
    simp only [List.map_cons, List.find?_cons]
    rw [hn x (by simp)]
    split
    · rfl
    · exact ih (fun y hy => hn y (by simp [hy]))

/-- `f` does not rename the nodes `updateAt · p f` applies it to: the only nodes whose name is
looked at afterwards are children reached by a `.child k` step, and those are named `k`. -/
def NameStable (p : Path) (f : Entry → Entry) : Prop :=
  match p.getLast? with
  | some (.child k) => ∀ e : Entry, e.name = k → (f e).name = k
  | _ => True

theorem NameStable.of_forall {p : Path} {f : Entry → Entry} (h : ∀ e, (f e).name = e.name) : NameStable p f := by
  unfold NameStable
  split
  · intro e he; rw [h e, he]
  · trivial

theorem NameStable.tail {s : Step} {p : Path} {f : Entry → Entry} (h : NameStable (s :: p) f) : NameStable p f := by
  cases p with
  | nil => simp [NameStable]
  | cons a p => simpa [NameStable, List.getLast?_cons_cons] using h

theorem updateAt_d_of_ne_nil (e : Entry) (p : Path) (f : Entry → Entry) (h : p ≠ []) : (e.updateAt p f).d = e.d := by
  cases p with
  | nil => exact absurd rfl h
  | cons s p => cases s <;> cases e <;> rfl

theorem updateAt_name {f : Entry → Entry} {k : String} {p : Path} (hs : NameStable (.child k :: p) f)
    (x : Entry) (hx : x.name = k) : (x.updateAt p f).name = x.name := by
  cases p with
  | nil =>
    have : (f x).name = k := by
      have h := hs; simp only [NameStable, List.getLast?_singleton] at h; exact h x hx
    simp [Entry.updateAt, this, hx]
  | cons a p => simp [Entry.name, updateAt_d_of_ne_nil]

/-- The mapping `updateAt` applies to the children on a `.child k` step keeps their names. -/
theorem childMap_name {f : Entry → Entry} {k : String} {p : Path} (hs : NameStable (.child k :: p) f) (x : Entry) :
    (if x.name == k then x.updateAt p f else x).name = x.name := by
  split
  · next h => exact updateAt_name hs x (by simpa using h)
  · rfl

/-- At and below the updated location. -/
theorem getAt_updateAt_append (f : Entry → Entry) : ∀ (p : Path), NameStable p f → ∀ (e : Entry) (r : Path),
    (e.updateAt p f).getAt (p ++ r) = ((e.getAt p).map f).bind (·.getAt r)
  | [], _, e, r => by simp [Entry.updateAt, Entry.getAt]
  | .child k :: p, hs, .mk d c i o, r => by
    simp only [Entry.updateAt, List.cons_append, Entry.getAt, Entry.child?, Entry.dir]
    rw [find_map_name c _ k (fun x _ => childMap_name hs x)]
    cases hfind : c.find? (·.name == k) with
    | none => simp
    | some x =>
      have hx : (x.name == k) = true := by simpa using List.find?_some hfind
      simp only [Option.map_some, Option.bind_some, hx, if_true]
      exact getAt_updateAt_append f p hs.tail x r
  | .input :: p, hs, .mk d c i o, r => by
    simp only [Entry.updateAt, List.cons_append, Entry.getAt, Entry.inp, List.head?_map]
    cases i.head? with
    | none => simp
    | some x => simpa using getAt_updateAt_append f p hs.tail x r
  | .output :: p, hs, .mk d c i o, r => by
    simp only [Entry.updateAt, List.cons_append, Entry.getAt, Entry.out, List.head?_map]
    cases o.head? with
    | none => simp
    | some x => simpa using getAt_updateAt_append f p hs.tail x r


/-- At an ancestor of the updated location (or the location itself): the subtree there is the old
one with the update applied further down. -/
theorem getAt_updateAt_prefix (f : Entry → Entry) : ∀ (q r : Path), NameStable (q ++ r) f → ∀ (e : Entry),
    (e.updateAt (q ++ r) f).getAt q = (e.getAt q).map (·.updateAt r f)
  | [], r, _, e => by simp [Entry.getAt]
  | .child k :: q, r, hs, .mk d c i o => by
    simp only [Entry.updateAt, List.cons_append, Entry.getAt, Entry.child?, Entry.dir]
    rw [find_map_name c (fun x => if x.name == k then x.updateAt (q ++ r) f else x) k (fun x _ => childMap_name hs x)]
    cases hfind : c.find? (·.name == k) with
    | none => simp
    | some x =>
      have hx : (x.name == k) = true := by simpa using List.find?_some hfind
      simp only [Option.map_some, Option.bind_some, hx, if_true]
      exact getAt_updateAt_prefix f q r hs.tail x
  | .input :: q, r, hs, .mk d c i o => by
    simp only [Entry.updateAt, List.cons_append, Entry.getAt, Entry.inp, List.head?_map]
    cases i.head? with
    | none => simp
    | some x => simpa using getAt_updateAt_prefix f q r hs.tail x
  | .output :: q, r, hs, .mk d c i o => by
    simp only [Entry.updateAt, List.cons_append, Entry.getAt, Entry.out, List.head?_map]
    cases o.head? with
    | none => simp
    | some x => simpa using getAt_updateAt_prefix f q r hs.tail x

/-- Where the two paths part ways the update is not seen at all. -/
theorem getAt_updateAt_diverge (f : Entry → Entry) {s s' : Step} (hne : s ≠ s') (p' q' : Path) :
    ∀ (c : Path), NameStable (c ++ s :: p') f → ∀ (e : Entry),
    (e.updateAt (c ++ s :: p') f).getAt (c ++ s' :: q') = e.getAt (c ++ s' :: q')
  | [], hs, .mk d ch i o => by
    cases s with
    | child k =>
      cases s' with
      | child k' =>
        have hk : k ≠ k' := fun h => hne (by rw [h])
        simp only [List.nil_append, Entry.updateAt, Entry.getAt, Entry.child?, Entry.dir]
        rw [find_map_name ch _ k' (fun x _ => childMap_name hs x)]
        cases hfind : ch.find? (·.name == k') with
        | none => simp
        | some x =>
          have hx : x.name = k' := by simpa using List.find?_some hfind
          have : ¬ x.name = k := by rw [hx]; exact Ne.symm hk
          simp [this]
      | input => simp [Entry.updateAt, Entry.getAt, Entry.inp]
      | output => simp [Entry.updateAt, Entry.getAt, Entry.out]
    | input =>
      cases s' with
      | child k' => simp [Entry.updateAt, Entry.getAt, Entry.child?, Entry.dir]
      | input => exact absurd rfl hne
      | output => simp [Entry.updateAt, Entry.getAt, Entry.out]
    | output =>
      cases s' with
      | child k' => simp [Entry.updateAt, Entry.getAt, Entry.child?, Entry.dir]
      | input => simp [Entry.updateAt, Entry.getAt, Entry.inp]
      | output => exact absurd rfl hne
  | .child k :: c, hs, .mk d ch i o => by
    simp only [Entry.updateAt, List.cons_append, Entry.getAt, Entry.child?, Entry.dir]
    rw [find_map_name ch (fun x => if x.name == k then x.updateAt (c ++ s :: p') f else x) k
      (fun x _ => childMap_name hs x)]
    cases hfind : ch.find? (·.name == k) with
    | none => simp
    | some x =>
      have hx : (x.name == k) = true := by simpa using List.find?_some hfind
      simp only [Option.map_some, Option.bind_some, hx, if_true]
      exact getAt_updateAt_diverge f hne p' q' c hs.tail x
  | .input :: c, hs, .mk d ch i o => by
    simp only [Entry.updateAt, List.cons_append, Entry.getAt, Entry.inp, List.head?_map]
    cases i.head? with
    | none => simp
    | some x => simpa using getAt_updateAt_diverge f hne p' q' c hs.tail x
  | .output :: c, hs, .mk d ch i o => by
    simp only [Entry.updateAt, List.cons_append, Entry.getAt, Entry.out, List.head?_map]
    cases o.head? with
    | none => simp
    | some x => simpa using getAt_updateAt_diverge f hne p' q' c hs.tail x

/-- Two paths: one is a prefix of the other, or they share a prefix and then differ. -/
theorem path_trichotomy : ∀ (p q : Path), p <+: q ∨ (∃ r, r ≠ [] ∧ p = q ++ r) ∨
    ∃ c s s' p' q', s ≠ s' ∧ p = c ++ s :: p' ∧ q = c ++ s' :: q'
  | [], q => Or.inl (List.nil_prefix)
  | s :: p, [] => Or.inr (Or.inl ⟨s :: p, by simp, by simp⟩)
  | s :: p, s' :: q => by
    by_cases h : s = s'
    · subst h
      rcases path_trichotomy p q with h | ⟨r, hr, h⟩ | ⟨c, a, b, p', q', hab, hp, hq⟩
      · exact Or.inl (by simpa using h)
      · exact Or.inr (Or.inl ⟨r, hr, by simp [h]⟩)
      · exact Or.inr (Or.inr ⟨s :: c, a, b, p', q', hab, by simp [hp], by simp [hq]⟩)
    · exact Or.inr (Or.inr ⟨[], s, s', p, q, h, rfl, rfl⟩)

/-- **Frame of `updateAt`.** A location that is neither the updated one nor below it holds the same
data afterwards (and exists afterwards iff it existed before). -/
theorem getAt_updateAt_frame (f : Entry → Entry) (p q : Path) (hs : NameStable p f) (e : Entry) (h : ¬ p <+: q) :
    ((e.updateAt p f).getAt q).map (·.d) = (e.getAt q).map (·.d) := by
  rcases path_trichotomy p q with hpq | ⟨r, hr, hp⟩ | ⟨c, a, b, p', q', hab, hp, hq⟩
  · exact absurd hpq h
  · subst hp
    rw [getAt_updateAt_prefix f q r hs e]
    cases e.getAt q with
    | none => rfl
    | some x => simp [updateAt_d_of_ne_nil x r f hr]
  · subst hp; subst hq
    rw [getAt_updateAt_diverge f hab p' q' c hs e]

/-- A location off the path to the updated one holds the same subtree afterwards. -/
theorem getAt_updateAt_unrelated (f : Entry → Entry) (p q : Path) (hs : NameStable p f) (e : Entry)
    (h : ¬ p <+: q) (h' : ¬ q <+: p) : (e.updateAt p f).getAt q = e.getAt q := by
  rcases path_trichotomy p q with hpq | ⟨r, _, hp⟩ | ⟨c, a, b, p', q', hab, hp, hq⟩
  · exact absurd hpq h
  · exact absurd ⟨r, hp.symm⟩ h'
  · subst hp; subst hq
    exact getAt_updateAt_diverge f hab p' q' c hs e

/-- The updated location itself. -/
theorem getAt_updateAt_self (f : Entry → Entry) (p : Path) (hs : NameStable p f) (e : Entry) :
    (e.updateAt p f).getAt p = (e.getAt p).map f := by
  have := getAt_updateAt_append f p hs e []
  simp only [List.append_nil] at this
  rw [this]; cases e.getAt p <;> simp [Entry.getAt]

theorem getAt_append : ∀ (p : Path) (e : Entry) (r : Path), e.getAt (p ++ r) = (e.getAt p).bind (·.getAt r)
  | [], e, r => by simp [Entry.getAt]
  | .child k :: p, e, r => by
    simp only [List.cons_append, Entry.getAt]
    cases e.child? k with
    | none => rfl
    | some x => simpa using getAt_append p x r
  | .input :: p, e, r => by
    simp only [List.cons_append, Entry.getAt]
    cases e.inp.head? with
    | none => rfl
    | some x => simpa using getAt_append p x r
  | .output :: p, e, r => by
    simp only [List.cons_append, Entry.getAt]
    cases e.out.head? with
    | none => rfl
    | some x => simpa using getAt_append p x r

/-- Below the updated location nothing changes when `f` keeps the children. -/
theorem getAt_updateAt_below (f : Entry → Entry) (p : Path) (hs : NameStable p f) (e : Entry)
    (hkids : ∀ x, (f x).dir = x.dir ∧ (f x).inp = x.inp ∧ (f x).out = x.out) (s : Step) (r : Path) :
    (e.updateAt p f).getAt (p ++ s :: r) = e.getAt (p ++ s :: r) := by
  rw [getAt_updateAt_append f p hs e (s :: r)]
  rw [getAt_append p e (s :: r)]
  cases e.getAt p with
  | none => rfl
  | some x =>
    obtain ⟨h1, h2, h3⟩ := hkids x
    cases s <;> simp [Entry.getAt, Entry.child?, h1, h2, h3]


/-! #### `removeAt` -/

theorem find_filter_ne (l : List Entry) {k k' : String} (h : k' ≠ k) :
    (l.filter (·.name != k)).find? (·.name == k') = l.find? (·.name == k') := by
  induction l with
  | nil => rfl
  | cons x xs ih =>
    by_cases hx : x.name = k
    · rw [List.filter_cons_of_neg (by simp [hx]), List.find?_cons_of_neg (by simp [hx, Ne.symm h]), ih]
    · rw [List.filter_cons_of_pos (by simp [hx])]
      by_cases hx' : x.name = k'
      · rw [List.find?_cons_of_pos (by simp [hx']), List.find?_cons_of_pos (by simp [hx'])]
      · rw [List.find?_cons_of_neg (by simp [hx']), List.find?_cons_of_neg (by simp [hx']), ih]

theorem find_filter_self (l : List Entry) (k : String) :
    (l.filter (·.name != k)).find? (·.name == k) = none := by
  induction l with
  | nil => rfl
  | cons x xs ih =>
    by_cases hx : x.name = k
    · rw [List.filter_cons_of_neg (by simp [hx]), ih]
    · rw [List.filter_cons_of_pos (by simp [hx]), List.find?_cons_of_neg (by simp [hx]), ih]

/-- What `removeAt` does to the parent of the removed node. -/
def dropStep (s : Step) (pe : Entry) : Entry :=
  match s with
  | .child k => pe.withDir (pe.dir.filter (·.name != k))
  | .input => match pe with | .mk d c _ o => .mk d c [] o
  | .output => match pe with | .mk d c i _ => .mk d c i []

theorem removeAt_eq (root : Entry) (pd : Path) (s : Step) :
    removeAt root (pd ++ [s]) = root.updateAt pd (dropStep s) := by
  unfold removeAt
  simp only [List.getLast?_append, List.getLast?_singleton, Option.some_or, List.dropLast_concat]
  cases s <;> rfl

theorem dropStep_d (s : Step) (pe : Entry) : (dropStep s pe).d = pe.d := by
  cases s <;> cases pe <;> rfl

theorem dropStep_stable (s : Step) (p : Path) : NameStable p (dropStep s) :=
  NameStable.of_forall fun e => by simp [Entry.name, dropStep_d]

/-- The removed step leads nowhere in the parent afterwards. -/
theorem dropStep_gone (s : Step) (pe : Entry) (r : Path) : (dropStep s pe).getAt (s :: r) = none := by
  cases s with
  | child k =>
    cases pe with
    | mk d c i o =>
      show ((c.filter (·.name != k)).find? (·.name == k)).bind _ = none
      rw [find_filter_self]; rfl
  | input => cases pe; simp [dropStep, Entry.getAt, Entry.inp]
  | output => cases pe; simp [dropStep, Entry.getAt, Entry.out]

/-- Every other step leads where it led before. -/
theorem dropStep_other {s s' : Step} (h : s' ≠ s) (pe : Entry) (r : Path) :
    (dropStep s pe).getAt (s' :: r) = pe.getAt (s' :: r) := by
  cases pe with
  | mk d c i o =>
    cases s with
    | child k =>
      cases s' with
      | child k' =>
        have hk : k' ≠ k := fun e => h (by rw [e])
        show ((c.filter (·.name != k)).find? (·.name == k')).bind _ = (c.find? (·.name == k')).bind _
        rw [find_filter_ne c hk]
      | input => simp [dropStep, Entry.withDir, Entry.getAt, Entry.inp, Entry.dir]
      | output => simp [dropStep, Entry.withDir, Entry.getAt, Entry.out, Entry.dir]
    | input =>
      cases s' with
      | child k' => simp [dropStep, Entry.getAt, Entry.child?, Entry.dir]
      | input => exact absurd rfl h
      | output => simp [dropStep, Entry.getAt, Entry.out]
    | output =>
      cases s' with
      | child k' => simp [dropStep, Entry.getAt, Entry.child?, Entry.dir]
      | input => simp [dropStep, Entry.getAt, Entry.inp]
      | output => exact absurd rfl h

/-- **`removeAt` removes the subtree**: neither the removed location nor anything below it exists
afterwards. -/
theorem getAt_removeAt_gone (root : Entry) (p : Path) (hp : p ≠ []) (r : Path) :
    (removeAt root p).getAt (p ++ r) = none := by
  obtain ⟨pd, s, rfl⟩ : ∃ pd s, p = pd ++ [s] :=
    ⟨p.dropLast, p.getLast hp, (List.dropLast_concat_getLast hp).symm⟩
  rw [removeAt_eq, List.append_assoc, List.singleton_append,
    getAt_updateAt_append _ pd (dropStep_stable s pd) root (s :: r)]
  cases root.getAt pd with
  | none => rfl
  | some x => simpa using dropStep_gone s x r

/-- **Frame of `removeAt`**: a location that is neither the removed one nor below it holds the same
data afterwards (and exists iff it existed). -/
theorem getAt_removeAt_frame (root : Entry) (p q : Path) (h : ¬ p <+: q) :
    ((removeAt root p).getAt q).map (·.d) = (root.getAt q).map (·.d) := by
  by_cases hp : p = []
  · subst hp; exact absurd List.nil_prefix h
  obtain ⟨pd, s, rfl⟩ : ∃ pd s, p = pd ++ [s] :=
    ⟨p.dropLast, p.getLast hp, (List.dropLast_concat_getLast hp).symm⟩
  rw [removeAt_eq]
  by_cases hpd : pd <+: q
  · obtain ⟨r, rfl⟩ := hpd
    rw [getAt_updateAt_append _ pd (dropStep_stable s pd) root r, getAt_append pd root r]
    cases root.getAt pd with
    | none => rfl
    | some x =>
      cases r with
      | nil => simp [Entry.getAt, dropStep_d]
      | cons s' r =>
        have hs : s' ≠ s := by
          intro e; subst e
          exact h ⟨r, by simp⟩
        simp [dropStep_other hs]
  · exact getAt_updateAt_frame _ pd q (dropStep_stable s pd) root hpd


/-! ### one deviate statement: the model in stages

`applyOneDeviate` is one long expression; the same function written as a pipeline of stages, one per
property, in the order the Go code visits them (`rfl` shows it is the same function). -/

def listLike (n : Entry) : Bool := n.isList || n.isLeafList
def setMin (n : Entry) (v : Nat) : Entry :=
  n.withD fun d => { d with listAttr := d.listAttr.map fun la => { la with min := v } }
def setMax (n : Entry) (v : Nat) : Entry :=
  n.withD fun d => { d with listAttr := d.listAttr.map fun la => { la with max := v } }
def specMin (sd : EData) : Nat := (sd.listAttr.getD {}).min
def specMax (sd : EData) : Nat := (sd.listAttr.getD {}).max
def nodeMin (n : Entry) : Nat := (n.d.listAttr.getD {}).min
def nodeMax (n : Entry) : Nat := (n.d.listAttr.getD {}).max

def stCfg (sd : EData) (n : Entry) : Entry :=
  if sd.config != .unset then n.withD fun d => { d with config := sd.config } else n
def stMand (sd : EData) (n : Entry) : Entry :=
  if sd.mandatory != .unset then n.withD fun d => { d with mandatory := sd.mandatory } else n
def stDefAR (ms : Stmt) (isAdd : Bool) (sd : EData) (n : Entry) : Entry × List Err :=
  if sd.default.isEmpty then (n, [])
  else if isAdd then
    if n.isLeafList then (n.withD fun d => { d with default := d.default ++ sd.default }, [])
    else if sd.default.length > 1 then (n, [Err.at_ ms "deviate-add-many-defaults"])
    else if !n.d.default.isEmpty then (n, [Err.at_ ms "deviate-add-default-exists"])
    else (n.withD fun d => { d with default := sd.default.take 1 }, [])
  else (n.withD fun d => { d with default := sd.default }, [])
def stUnits (sd : EData) (n : Entry) : Entry :=
  if sd.units != "" then n.withD fun d => { d with units := sd.units } else n
def stType (sd : EData) (n : Entry) : Entry :=
  if sd.type.isSome then n.withD fun d => { d with type := sd.type } else n

/-- `add` (`isAdd`) and `replace`. -/
def addReplace (ms : Stmt) (isAdd : Bool) (spec node : Entry) : Entry × Bool × List Err :=
  let sd := spec.d
  let n1 := stCfg sd node
  let r2 := stDefAR ms isAdd sd n1
  let n3 := stMand sd r2.1
  if sd.hasMin && !listLike n3 then (n3, false, r2.2 ++ [Err.bare "deviate-min-nonlist"]) else
  let n4 := if sd.hasMin then setMin n3 (specMin sd) else n3
  if sd.hasMax && !listLike n4 then (n4, false, r2.2 ++ [Err.bare "deviate-max-nonlist"]) else
  let n5 := if sd.hasMax then setMax n4 (specMax sd) else n4
  (stType sd (stUnits sd n5), false, r2.2)

def stCfgDel (sd : EData) (n : Entry) : Entry :=
  if sd.config != .unset then n.withD fun d => { d with config := .unset } else n
def stMandDel (sd : EData) (n : Entry) : Entry :=
  if sd.mandatory != .unset then n.withD fun d => { d with mandatory := .unset } else n
def stDefDel (ms : Stmt) (sd : EData) (n : Entry) : Entry × List Err :=
  if sd.default.isEmpty then (n, [])
  else if n.isLeafList then (n, [Err.at_ ms "deviate-delete-default-leaflist"])
  else if n.d.default.isEmpty then (n, [Err.at_ ms "deviate-delete-default-missing"])
  else if sd.default.head? != n.d.default.head? then (n, [Err.at_ ms "deviate-delete-default-mismatch"])
  else (n.withD fun d => { d with default := [] }, [])

/-- `delete`. -/
def delete_ (ms : Stmt) (spec node : Entry) : Entry × Bool × List Err :=
  let sd := spec.d
  let n1 := stCfgDel sd node
  let r2 := stDefDel ms sd n1
  let n3 := stMandDel sd r2.1
  if sd.hasMin && !listLike n3 then (n3, false, r2.2 ++ [Err.bare "deviate-min-nonlist"]) else
  let r4 : Entry × List Err :=
    if sd.hasMin then
      (setMin n3 0, if nodeMin n3 != specMin sd then r2.2 ++ [Err.bare "deviate-delete-min-mismatch"] else r2.2)
    else (n3, r2.2)
  if sd.hasMax && !listLike r4.1 then (r4.1, false, r4.2 ++ [Err.bare "deviate-max-nonlist"]) else
  let r5 : Entry × List Err :=
    if sd.hasMax then
      (setMax r4.1 maxU64, if nodeMax r4.1 != specMax sd then r4.2 ++ [Err.bare "deviate-delete-max-mismatch"] else r4.2)
    else r4
  (r5.1, false, r5.2)

def notSupported (opts : Opts) (ms : Stmt) (hasParent : Bool) (node : Entry) : Entry × Bool × List Err :=
  if !hasParent then (node, false, [Err.at_ ms "deviate-no-parent"])
  else (node, !opts.ignoreNotSupported, [])

/-- The argument of a deviate statement. -/
def kindOf (k : String) : DevKind :=
  if k = "add" then .add else if k = "replace" then .replace else if k = "not-supported" then .notSupported
  else if k = "delete" then .delete else .other

/-- `applyOneDeviate`, by kind. -/
def staged (opts : Opts) (ms : Stmt) (kind : String) (spec : Entry) (hasParent : Bool) (node : Entry) :
    Entry × Bool × List Err :=
  match kindOf kind with
  | .add => addReplace ms true spec node
  | .replace => addReplace ms false spec node
  | .notSupported => notSupported opts ms hasParent node
  | .delete => delete_ ms spec node
  | .other => (node, false, [Err.bare "deviate-unknown-kind"])

theorem applyOneDeviate_eq_staged (opts : Opts) (ms : Stmt) (kind : String) (spec : Entry) (hp : Bool) (node : Entry) :
    applyOneDeviate opts ms kind spec hp node = staged opts ms kind spec hp node := by
  by_cases h1 : kind = "add"
  · subst h1; rfl
  by_cases h2 : kind = "replace"
  · subst h2; rfl
  by_cases h3 : kind = "not-supported"
  · subst h3; rfl
  by_cases h4 : kind = "delete"
  · subst h4; rfl
  have e1 : (kind == "add") = false := by simp [h1]
  have e2 : (kind == "replace") = false := by simp [h2]
  have e3 : (kind == "not-supported") = false := by simp [h3]
  have e4 : (kind == "delete") = false := by simp [h4]
  unfold applyOneDeviate staged kindOf
  simp only [e1, e2, e3, e4, h1, h2, h3, h4, Bool.false_or, Bool.false_eq_true, if_false]

end Goyang.Lemmas.Deviate
