import Goyang.Model.Process
import Goyang.Spec.Deviate
/-
Lemmas for C08 (deviations).  Sections:
  1. trees: what `updateAt` / `removeAt` leave alone (`getAt_updateAt_frame`, `getAt_removeAt_frame`, …);
  2. `applyOneDeviate` rewritten as a pipeline of stages (`staged`, equal by `rfl`), the abstraction
     `propsOf` / `stmtOf`, and every stage against RFC 7950 §7.20.3.2 (`staged_errs`, `staged_effect`,
     `staged_untouched`);
  3. `applyDeviations` with its two folds named (`innerStep`, `outerStep`), the target node as a left
     fold (`nodeFold`), frame and target invariants of one deviation, `nodeFold_seq` (= `Spec.deviateSeq`);
  4. the path lookup's frame (`walkParts_frame`, `find_frame`), all deviations of one module
     (`applyDeviations_frame'`, `applyDeviations_reports`), the stage of `processAll`
     (`processAll_cases`, `processAll_clean`, `stage_frame`, `stage_reports`);
  5. errors recorded at conversion time (`toEntry_deviation_errs`).
-/
set_option linter.unusedSimpArgs false
set_option linter.unusedVariables false

namespace Goyang.Lemmas.Deviate
open Goyang.Model Goyang.Spec.Deviate

/-! ### trees: what `updateAt` and `removeAt` leave alone -/

theorem find_map_name (c : List Entry) (h : Entry → Entry) (k : String)
    (hn : ∀ x ∈ c, (h x).name = x.name) :
    (c.map h).find? (·.name == k) = (c.find? (·.name == k)).map h := by
  induction c with
  | nil => rfl
  | cons x xs ih =>
    simp only [List.map_cons, List.find?_cons]
    rw [hn x (by simp)]
    split
    · rfl
    · exact ih (fun y hy => hn y (by simp [hy]))

/-- `f` does not rename the nodes `updateAt · p f` applies it to: the only nodes whose name is
looked at afterwards are children reached by a `.child k` step, and those are named `k`. -/
def NameStable (p : Path) (f : Entry → Entry) : Prop :=
  match p.getLast? with
  | some (.child k) => ∀ e : Entry, e.name = k → (f e).name = k
  | _ => True

theorem NameStable.of_forall {p : Path} {f : Entry → Entry} (h : ∀ e, (f e).name = e.name) : NameStable p f := by
  unfold NameStable
  split
  · intro e he; rw [h e, he]
  · trivial

theorem NameStable.tail {s : Step} {p : Path} {f : Entry → Entry} (h : NameStable (s :: p) f) : NameStable p f := by
  cases p with
  | nil => simp [NameStable]
  | cons a p => simpa [NameStable, List.getLast?_cons_cons] using h

theorem updateAt_d_of_ne_nil (e : Entry) (p : Path) (f : Entry → Entry) (h : p ≠ []) : (e.updateAt p f).d = e.d := by
  cases p with
  | nil => exact absurd rfl h
  | cons s p => cases s <;> cases e <;> rfl

theorem updateAt_name {f : Entry → Entry} {k : String} {p : Path} (hs : NameStable (.child k :: p) f)
    (x : Entry) (hx : x.name = k) : (x.updateAt p f).name = x.name := by
  cases p with
  | nil =>
    have : (f x).name = k := by
      have h := hs; simp only [NameStable, List.getLast?_singleton] at h; exact h x hx
    simp [Entry.updateAt, this, hx]
  | cons a p => simp [Entry.name, updateAt_d_of_ne_nil]

/-- The mapping `updateAt` applies to the children on a `.child k` step keeps their names. -/
theorem childMap_name {f : Entry → Entry} {k : String} {p : Path} (hs : NameStable (.child k :: p) f) (x : Entry) :
    (if x.name == k then x.updateAt p f else x).name = x.name := by
  split
  · next h => exact updateAt_name hs x (by simpa using h)
  · rfl

/-- At and below the updated location. -/
theorem getAt_updateAt_append (f : Entry → Entry) : ∀ (p : Path), NameStable p f → ∀ (e : Entry) (r : Path),
    (e.updateAt p f).getAt (p ++ r) = ((e.getAt p).map f).bind (·.getAt r)
  | [], _, e, r => by simp [Entry.updateAt, Entry.getAt]
  | .child k :: p, hs, .mk d c i o, r => by
    simp only [Entry.updateAt, List.cons_append, Entry.getAt, Entry.child?, Entry.dir]
    rw [find_map_name c _ k (fun x _ => childMap_name hs x)]
    cases hfind : c.find? (·.name == k) with
    | none => simp
    | some x =>
      have hx : (x.name == k) = true := by simpa using List.find?_some hfind
      simp only [Option.map_some, Option.bind_some, hx, if_true]
      exact getAt_updateAt_append f p hs.tail x r
  | .input :: p, hs, .mk d c i o, r => by
    simp only [Entry.updateAt, List.cons_append, Entry.getAt, Entry.inp, List.head?_map]
    cases i.head? with
    | none => simp
    | some x => simpa using getAt_updateAt_append f p hs.tail x r
  | .output :: p, hs, .mk d c i o, r => by
    simp only [Entry.updateAt, List.cons_append, Entry.getAt, Entry.out, List.head?_map]
    cases o.head? with
    | none => simp
    | some x => simpa using getAt_updateAt_append f p hs.tail x r


/-- At an ancestor of the updated location (or the location itself): the subtree there is the old
one with the update applied further down. -/
theorem getAt_updateAt_prefix (f : Entry → Entry) : ∀ (q r : Path), NameStable (q ++ r) f → ∀ (e : Entry),
    (e.updateAt (q ++ r) f).getAt q = (e.getAt q).map (·.updateAt r f)
  | [], r, _, e => by simp [Entry.getAt]
  | .child k :: q, r, hs, .mk d c i o => by
    simp only [Entry.updateAt, List.cons_append, Entry.getAt, Entry.child?, Entry.dir]
    rw [find_map_name c (fun x => if x.name == k then x.updateAt (q ++ r) f else x) k (fun x _ => childMap_name hs x)]
    cases hfind : c.find? (·.name == k) with
    | none => simp
    | some x =>
      have hx : (x.name == k) = true := by simpa using List.find?_some hfind
      simp only [Option.map_some, Option.bind_some, hx, if_true]
      exact getAt_updateAt_prefix f q r hs.tail x
  | .input :: q, r, hs, .mk d c i o => by
    simp only [Entry.updateAt, List.cons_append, Entry.getAt, Entry.inp, List.head?_map]
    cases i.head? with
    | none => simp
    | some x => simpa using getAt_updateAt_prefix f q r hs.tail x
  | .output :: q, r, hs, .mk d c i o => by
    simp only [Entry.updateAt, List.cons_append, Entry.getAt, Entry.out, List.head?_map]
    cases o.head? with
    | none => simp
    | some x => simpa using getAt_updateAt_prefix f q r hs.tail x

/-- Where the two paths part ways the update is not seen at all. -/
theorem getAt_updateAt_diverge (f : Entry → Entry) {s s' : Step} (hne : s ≠ s') (p' q' : Path) :
    ∀ (c : Path), NameStable (c ++ s :: p') f → ∀ (e : Entry),
    (e.updateAt (c ++ s :: p') f).getAt (c ++ s' :: q') = e.getAt (c ++ s' :: q')
  | [], hs, .mk d ch i o => by
    cases s with
    | child k =>
      cases s' with
      | child k' =>
        have hk : k ≠ k' := fun h => hne (by rw [h])
        simp only [List.nil_append, Entry.updateAt, Entry.getAt, Entry.child?, Entry.dir]
        rw [find_map_name ch _ k' (fun x _ => childMap_name hs x)]
        cases hfind : ch.find? (·.name == k') with
        | none => simp
        | some x =>
          have hx : x.name = k' := by simpa using List.find?_some hfind
          have : ¬ x.name = k := by rw [hx]; exact Ne.symm hk
          simp [this]
      | input => simp [Entry.updateAt, Entry.getAt, Entry.inp]
      | output => simp [Entry.updateAt, Entry.getAt, Entry.out]
    | input =>
      cases s' with
      | child k' => simp [Entry.updateAt, Entry.getAt, Entry.child?, Entry.dir]
      | input => exact absurd rfl hne
      | output => simp [Entry.updateAt, Entry.getAt, Entry.out]
    | output =>
      cases s' with
      | child k' => simp [Entry.updateAt, Entry.getAt, Entry.child?, Entry.dir]
      | input => simp [Entry.updateAt, Entry.getAt, Entry.inp]
      | output => exact absurd rfl hne
  | .child k :: c, hs, .mk d ch i o => by
    simp only [Entry.updateAt, List.cons_append, Entry.getAt, Entry.child?, Entry.dir]
    rw [find_map_name ch (fun x => if x.name == k then x.updateAt (c ++ s :: p') f else x) k
      (fun x _ => childMap_name hs x)]
    cases hfind : ch.find? (·.name == k) with
    | none => simp
    | some x =>
      have hx : (x.name == k) = true := by simpa using List.find?_some hfind
      simp only [Option.map_some, Option.bind_some, hx, if_true]
      exact getAt_updateAt_diverge f hne p' q' c hs.tail x
  | .input :: c, hs, .mk d ch i o => by
    simp only [Entry.updateAt, List.cons_append, Entry.getAt, Entry.inp, List.head?_map]
    cases i.head? with
    | none => simp
    | some x => simpa using getAt_updateAt_diverge f hne p' q' c hs.tail x
  | .output :: c, hs, .mk d ch i o => by
    simp only [Entry.updateAt, List.cons_append, Entry.getAt, Entry.out, List.head?_map]
    cases o.head? with
    | none => simp
    | some x => simpa using getAt_updateAt_diverge f hne p' q' c hs.tail x

/-- Two paths: one is a prefix of the other, or they share a prefix and then differ. -/
theorem path_trichotomy : ∀ (p q : Path), p <+: q ∨ (∃ r, r ≠ [] ∧ p = q ++ r) ∨
    ∃ c s s' p' q', s ≠ s' ∧ p = c ++ s :: p' ∧ q = c ++ s' :: q'
  | [], q => Or.inl (List.nil_prefix)
  | s :: p, [] => Or.inr (Or.inl ⟨s :: p, by simp, by simp⟩)
  | s :: p, s' :: q => by
    by_cases h : s = s'
    · subst h
      rcases path_trichotomy p q with h | ⟨r, hr, h⟩ | ⟨c, a, b, p', q', hab, hp, hq⟩
      · exact Or.inl (by simpa using h)
      · exact Or.inr (Or.inl ⟨r, hr, by simp [h]⟩)
      · exact Or.inr (Or.inr ⟨s :: c, a, b, p', q', hab, by simp [hp], by simp [hq]⟩)
    · exact Or.inr (Or.inr ⟨[], s, s', p, q, h, rfl, rfl⟩)

/-- **Frame of `updateAt`.** A location that is neither the updated one nor below it holds the same
data afterwards (and exists afterwards iff it existed before). -/
theorem getAt_updateAt_frame (f : Entry → Entry) (p q : Path) (hs : NameStable p f) (e : Entry) (h : ¬ p <+: q) :
    ((e.updateAt p f).getAt q).map (·.d) = (e.getAt q).map (·.d) := by
  rcases path_trichotomy p q with hpq | ⟨r, hr, hp⟩ | ⟨c, a, b, p', q', hab, hp, hq⟩
  · exact absurd hpq h
  · subst hp
    rw [getAt_updateAt_prefix f q r hs e]
    cases e.getAt q with
    | none => rfl
    | some x => simp [updateAt_d_of_ne_nil x r f hr]
  · subst hp; subst hq
    rw [getAt_updateAt_diverge f hab p' q' c hs e]

/-- A location off the path to the updated one holds the same subtree afterwards. -/
theorem getAt_updateAt_unrelated (f : Entry → Entry) (p q : Path) (hs : NameStable p f) (e : Entry)
    (h : ¬ p <+: q) (h' : ¬ q <+: p) : (e.updateAt p f).getAt q = e.getAt q := by
  rcases path_trichotomy p q with hpq | ⟨r, _, hp⟩ | ⟨c, a, b, p', q', hab, hp, hq⟩
  · exact absurd hpq h
  · exact absurd ⟨r, hp.symm⟩ h'
  · subst hp; subst hq
    exact getAt_updateAt_diverge f hab p' q' c hs e

/-- The updated location itself. -/
theorem getAt_updateAt_self (f : Entry → Entry) (p : Path) (hs : NameStable p f) (e : Entry) :
    (e.updateAt p f).getAt p = (e.getAt p).map f := by
  have := getAt_updateAt_append f p hs e []
  simp only [List.append_nil] at this
  rw [this]; cases e.getAt p <;> simp [Entry.getAt]

theorem getAt_append : ∀ (p : Path) (e : Entry) (r : Path), e.getAt (p ++ r) = (e.getAt p).bind (·.getAt r)
  | [], e, r => by simp [Entry.getAt]
  | .child k :: p, e, r => by
    simp only [List.cons_append, Entry.getAt]
    cases e.child? k with
    | none => rfl
    | some x => simpa using getAt_append p x r
  | .input :: p, e, r => by
    simp only [List.cons_append, Entry.getAt]
    cases e.inp.head? with
    | none => rfl
    | some x => simpa using getAt_append p x r
  | .output :: p, e, r => by
    simp only [List.cons_append, Entry.getAt]
    cases e.out.head? with
    | none => rfl
    | some x => simpa using getAt_append p x r

/-- Below the updated location nothing changes when `f` keeps the children. -/
theorem getAt_updateAt_below (f : Entry → Entry) (p : Path) (hs : NameStable p f) (e : Entry)
    (hkids : ∀ x, (f x).dir = x.dir ∧ (f x).inp = x.inp ∧ (f x).out = x.out) (s : Step) (r : Path) :
    (e.updateAt p f).getAt (p ++ s :: r) = e.getAt (p ++ s :: r) := by
  rw [getAt_updateAt_append f p hs e (s :: r)]
  rw [getAt_append p e (s :: r)]
  cases e.getAt p with
  | none => rfl
  | some x =>
    obtain ⟨h1, h2, h3⟩ := hkids x
    cases s <;> simp [Entry.getAt, Entry.child?, h1, h2, h3]


/-! #### `removeAt` -/

theorem find_filter_ne (l : List Entry) {k k' : String} (h : k' ≠ k) :
    (l.filter (·.name != k)).find? (·.name == k') = l.find? (·.name == k') := by
  induction l with
  | nil => rfl
  | cons x xs ih =>
    by_cases hx : x.name = k
    · rw [List.filter_cons_of_neg (by simp [hx]), List.find?_cons_of_neg (by simp [hx, Ne.symm h]), ih]
    · rw [List.filter_cons_of_pos (by simp [hx])]
      by_cases hx' : x.name = k'
      · rw [List.find?_cons_of_pos (by simp [hx']), List.find?_cons_of_pos (by simp [hx'])]
      · rw [List.find?_cons_of_neg (by simp [hx']), List.find?_cons_of_neg (by simp [hx']), ih]

theorem find_filter_self (l : List Entry) (k : String) :
    (l.filter (·.name != k)).find? (·.name == k) = none := by
  induction l with
  | nil => rfl
  | cons x xs ih =>
    by_cases hx : x.name = k
    · rw [List.filter_cons_of_neg (by simp [hx]), ih]
    · rw [List.filter_cons_of_pos (by simp [hx]), List.find?_cons_of_neg (by simp [hx]), ih]

/-- What `removeAt` does to the parent of the removed node. -/
def dropStep (s : Step) (pe : Entry) : Entry :=
  match s with
  | .child k => pe.withDir (pe.dir.filter (·.name != k))
  | .input => match pe with | .mk d c _ o => .mk d c [] o
  | .output => match pe with | .mk d c i _ => .mk d c i []

theorem removeAt_eq (root : Entry) (pd : Path) (s : Step) :
    removeAt root (pd ++ [s]) = root.updateAt pd (dropStep s) := by
  unfold removeAt
  simp only [List.getLast?_append, List.getLast?_singleton, Option.some_or, List.dropLast_concat]
  cases s <;> rfl

theorem dropStep_d (s : Step) (pe : Entry) : (dropStep s pe).d = pe.d := by
  cases s <;> cases pe <;> rfl

theorem dropStep_stable (s : Step) (p : Path) : NameStable p (dropStep s) :=
  NameStable.of_forall fun e => by simp [Entry.name, dropStep_d]

/-- The removed step leads nowhere in the parent afterwards. -/
theorem dropStep_gone (s : Step) (pe : Entry) (r : Path) : (dropStep s pe).getAt (s :: r) = none := by
  cases s with
  | child k =>
    cases pe with
    | mk d c i o =>
      show ((c.filter (·.name != k)).find? (·.name == k)).bind _ = none
      rw [find_filter_self]; rfl
  | input => cases pe; simp [dropStep, Entry.getAt, Entry.inp]
  | output => cases pe; simp [dropStep, Entry.getAt, Entry.out]

/-- Every other step leads where it led before. -/
theorem dropStep_other {s s' : Step} (h : s' ≠ s) (pe : Entry) (r : Path) :
    (dropStep s pe).getAt (s' :: r) = pe.getAt (s' :: r) := by
  cases pe with
  | mk d c i o =>
    cases s with
    | child k =>
      cases s' with
      | child k' =>
        have hk : k' ≠ k := fun e => h (by rw [e])
        show ((c.filter (·.name != k)).find? (·.name == k')).bind _ = (c.find? (·.name == k')).bind _
        rw [find_filter_ne c hk]
      | input => simp [dropStep, Entry.withDir, Entry.getAt, Entry.inp, Entry.dir]
      | output => simp [dropStep, Entry.withDir, Entry.getAt, Entry.out, Entry.dir]
    | input =>
      cases s' with
      | child k' => simp [dropStep, Entry.getAt, Entry.child?, Entry.dir]
      | input => exact absurd rfl h
      | output => simp [dropStep, Entry.getAt, Entry.out]
    | output =>
      cases s' with
      | child k' => simp [dropStep, Entry.getAt, Entry.child?, Entry.dir]
      | input => simp [dropStep, Entry.getAt, Entry.inp]
      | output => exact absurd rfl h

/-- **`removeAt` removes the subtree**: neither the removed location nor anything below it exists
afterwards. -/
theorem getAt_removeAt_gone (root : Entry) (p : Path) (hp : p ≠ []) (r : Path) :
    (removeAt root p).getAt (p ++ r) = none := by
  obtain ⟨pd, s, rfl⟩ : ∃ pd s, p = pd ++ [s] :=
    ⟨p.dropLast, p.getLast hp, (List.dropLast_concat_getLast hp).symm⟩
  rw [removeAt_eq, List.append_assoc, List.singleton_append,
    getAt_updateAt_append _ pd (dropStep_stable s pd) root (s :: r)]
  cases root.getAt pd with
  | none => rfl
  | some x => simpa using dropStep_gone s x r

/-- **Frame of `removeAt`**: a location that is neither the removed one nor below it holds the same
data afterwards (and exists iff it existed). -/
theorem getAt_removeAt_frame (root : Entry) (p q : Path) (h : ¬ p <+: q) :
    ((removeAt root p).getAt q).map (·.d) = (root.getAt q).map (·.d) := by
  by_cases hp : p = []
  · subst hp; exact absurd List.nil_prefix h
  obtain ⟨pd, s, rfl⟩ : ∃ pd s, p = pd ++ [s] :=
    ⟨p.dropLast, p.getLast hp, (List.dropLast_concat_getLast hp).symm⟩
  rw [removeAt_eq]
  by_cases hpd : pd <+: q
  · obtain ⟨r, rfl⟩ := hpd
    rw [getAt_updateAt_append _ pd (dropStep_stable s pd) root r, getAt_append pd root r]
    cases root.getAt pd with
    | none => rfl
    | some x =>
      cases r with
      | nil => simp [Entry.getAt, dropStep_d]
      | cons s' r =>
        have hs : s' ≠ s := by
          intro e; subst e
          exact h ⟨r, by simp⟩
        simp [dropStep_other hs]
  · exact getAt_updateAt_frame _ pd q (dropStep_stable s pd) root hpd


/-! ### one deviate statement: the model in stages

`applyOneDeviate` is one long expression; the same function written as a pipeline of stages, one per
property, in the order the Go code visits them (`rfl` shows it is the same function). -/

def listLike (n : Entry) : Bool := n.isList || n.isLeafList
def setMin (n : Entry) (v : Nat) : Entry :=
  n.withD fun d => { d with listAttr := d.listAttr.map fun la => { la with min := v } }
def setMax (n : Entry) (v : Nat) : Entry :=
  n.withD fun d => { d with listAttr := d.listAttr.map fun la => { la with max := v } }
def specMin (sd : EData) : Nat := (sd.listAttr.getD {}).min
def specMax (sd : EData) : Nat := (sd.listAttr.getD {}).max
def nodeMin (n : Entry) : Nat := (n.d.listAttr.getD {}).min
def nodeMax (n : Entry) : Nat := (n.d.listAttr.getD {}).max

def stCfg (sd : EData) (n : Entry) : Entry :=
  if sd.config != .unset then n.withD fun d => { d with config := sd.config } else n
def stMand (sd : EData) (n : Entry) : Entry :=
  if sd.mandatory != .unset then n.withD fun d => { d with mandatory := sd.mandatory } else n
def stDefAR (ms : Stmt) (isAdd : Bool) (sd : EData) (n : Entry) : Entry × List Err :=
  if sd.default.isEmpty then (n, [])
  else if isAdd then
    if n.isLeafList then (n.withD fun d => { d with default := d.default ++ sd.default }, [])
    else if sd.default.length > 1 then (n, [Err.at_ ms "deviate-add-many-defaults"])
    else if !n.d.default.isEmpty then (n, [Err.at_ ms "deviate-add-default-exists"])
    else (n.withD fun d => { d with default := sd.default.take 1 }, [])
  else (n.withD fun d => { d with default := sd.default }, [])
def stUnits (sd : EData) (n : Entry) : Entry :=
  if sd.units != "" then n.withD fun d => { d with units := sd.units } else n
def stType (sd : EData) (n : Entry) : Entry :=
  if sd.type.isSome then n.withD fun d => { d with type := sd.type } else n

/-- `add` (`isAdd`) and `replace`. -/
def addReplace (ms : Stmt) (isAdd : Bool) (spec node : Entry) : Entry × Bool × List Err :=
  let sd := spec.d
  let n1 := stCfg sd node
  let r2 := stDefAR ms isAdd sd n1
  let n3 := stMand sd r2.1
  if sd.hasMin && !listLike n3 then (n3, false, r2.2 ++ [Err.bare "deviate-min-nonlist"]) else
  let n4 := if sd.hasMin then setMin n3 (specMin sd) else n3
  if sd.hasMax && !listLike n4 then (n4, false, r2.2 ++ [Err.bare "deviate-max-nonlist"]) else
  let n5 := if sd.hasMax then setMax n4 (specMax sd) else n4
  (stType sd (stUnits sd n5), false, r2.2)

def stCfgDel (sd : EData) (n : Entry) : Entry :=
  if sd.config != .unset then n.withD fun d => { d with config := .unset } else n
def stMandDel (sd : EData) (n : Entry) : Entry :=
  if sd.mandatory != .unset then n.withD fun d => { d with mandatory := .unset } else n
def stDefDel (ms : Stmt) (sd : EData) (n : Entry) : Entry × List Err :=
  if sd.default.isEmpty then (n, [])
  else if n.isLeafList then (n, [Err.at_ ms "deviate-delete-default-leaflist"])
  else if n.d.default.isEmpty then (n, [Err.at_ ms "deviate-delete-default-missing"])
  else if sd.default.head? != n.d.default.head? then (n, [Err.at_ ms "deviate-delete-default-mismatch"])
  else (n.withD fun d => { d with default := [] }, [])

/-- `delete`. -/
def delete_ (ms : Stmt) (spec node : Entry) : Entry × Bool × List Err :=
  let sd := spec.d
  let n1 := stCfgDel sd node
  let r2 := stDefDel ms sd n1
  let n3 := stMandDel sd r2.1
  if sd.hasMin && !listLike n3 then (n3, false, r2.2 ++ [Err.bare "deviate-min-nonlist"]) else
  let r4 : Entry × List Err :=
    if sd.hasMin then
      (setMin n3 0, if nodeMin n3 != specMin sd then r2.2 ++ [Err.bare "deviate-delete-min-mismatch"] else r2.2)
    else (n3, r2.2)
  if sd.hasMax && !listLike r4.1 then (r4.1, false, r4.2 ++ [Err.bare "deviate-max-nonlist"]) else
  let r5 : Entry × List Err :=
    if sd.hasMax then
      (setMax r4.1 maxU64, if nodeMax r4.1 != specMax sd then r4.2 ++ [Err.bare "deviate-delete-max-mismatch"] else r4.2)
    else r4
  (r5.1, false, r5.2)

def notSupported (opts : Opts) (ms : Stmt) (hasParent : Bool) (node : Entry) : Entry × Bool × List Err :=
  if !hasParent then (node, false, [Err.at_ ms "deviate-no-parent"])
  else (node, !opts.ignoreNotSupported, [])

/-- The argument of a deviate statement. -/
def kindOf (k : String) : DevKind :=
  if k = "add" then .add else if k = "replace" then .replace else if k = "not-supported" then .notSupported
  else if k = "delete" then .delete else .other

/-- `applyOneDeviate`, by kind. -/
def staged (opts : Opts) (ms : Stmt) (kind : String) (spec : Entry) (hasParent : Bool) (node : Entry) :
    Entry × Bool × List Err :=
  match kindOf kind with
  | .add => addReplace ms true spec node
  | .replace => addReplace ms false spec node
  | .notSupported => notSupported opts ms hasParent node
  | .delete => delete_ ms spec node
  | .other => (node, false, [Err.bare "deviate-unknown-kind"])

theorem applyOneDeviate_eq_staged (opts : Opts) (ms : Stmt) (kind : String) (spec : Entry) (hp : Bool) (node : Entry) :
    applyOneDeviate opts ms kind spec hp node = staged opts ms kind spec hp node := by
  by_cases h1 : kind = "add"
  · subst h1; rfl
  by_cases h2 : kind = "replace"
  · subst h2; rfl
  by_cases h3 : kind = "not-supported"
  · subst h3; rfl
  by_cases h4 : kind = "delete"
  · subst h4; rfl
  have e1 : (kind == "add") = false := by simp [h1]
  have e2 : (kind == "replace") = false := by simp [h2]
  have e3 : (kind == "not-supported") = false := by simp [h3]
  have e4 : (kind == "delete") = false := by simp [h4]
  unfold applyOneDeviate staged kindOf
  simp only [e1, e2, e3, e4, h1, h2, h3, h4, Bool.false_or, Bool.false_eq_true, if_false]


/-! ### the abstraction: an entry's §7.20.3 properties, a deviate entry's statement -/

def triOpt : Tri → Option Bool
  | .unset => none | .true_ => some true | .false_ => some false

/-- `MaxUint64` is how the schema tree writes "unbounded". -/
def maxOpt (v : Nat) : Option Nat := if v = maxU64 then none else some v

/-- The empty string is how the schema tree writes "no units". -/
def strOpt (s : String) : Option String := if s = "" then none else some s

/-- The properties of a schema tree node, as RFC 7950 §7.20.3 sees them. -/
def propsOf (e : Entry) : NodeProps :=
  { listLike := listLike e, leafList := e.isLeafList,
    config := triOpt e.d.config, mandatory := triOpt e.d.mandatory, default := e.d.default,
    min := nodeMin e, max := maxOpt (nodeMax e),
    units := strOpt e.d.units,
    type := e.d.type.map (·.dump) }

/-- The deviate statement a deviate entry (`toEntry` of the statement) stands for. -/
def stmtOf (kind : String) (spec : Entry) : DeviateStmt :=
  { kind := kindOf kind, config := triOpt spec.d.config, mandatory := triOpt spec.d.mandatory,
    default := spec.d.default,
    min := if spec.d.hasMin then some (specMin spec.d) else none,
    max := if spec.d.hasMax then some (maxOpt (specMax spec.d)) else none,
    units := strOpt spec.d.units,
    type := spec.d.type.map (·.dump) }

theorem listLike_isSome {n : Entry} (h : listLike n = true) : n.d.listAttr.isSome = true := by
  cases n with
  | mk d c i o =>
    simp only [listLike, Entry.isList, Entry.isLeafList, Entry.d, Bool.or_eq_true, Bool.and_eq_true] at h ⊢
    rcases h with h | h <;> exact h.2

/-- A data update that keeps `hasDir`, `kind` and the presence of list attributes keeps what kind of
node it is. -/
theorem flags_withD (n : Entry) (g : EData → EData) (h1 : (g n.d).hasDir = n.d.hasDir) (h2 : (g n.d).kind = n.d.kind)
    (h3 : (g n.d).listAttr.isSome = n.d.listAttr.isSome) :
    listLike (n.withD g) = listLike n ∧ (n.withD g).isLeafList = n.isLeafList := by
  cases n with
  | mk d c i o =>
    simp only [Entry.d] at h1 h2 h3
    simp [listLike, Entry.isList, Entry.isLeafList, Entry.withD, Entry.d, h1, h2, h3]

theorem tri_bne1 : (Tri.unset != Tri.unset) = false := rfl
theorem tri_bne2 : (Tri.true_ != Tri.unset) = true := rfl
theorem tri_bne3 : (Tri.false_ != Tri.unset) = true := rfl

theorem propsOf_stCfg (sd : EData) (n : Entry) :
    propsOf (stCfg sd n) = { propsOf n with config := (triOpt sd.config).or (propsOf n).config } := by
  cases n with
  | mk d c i o =>
    cases hc : sd.config <;>
      simp [stCfg, hc, propsOf, triOpt, Entry.withD, Entry.d, listLike, Entry.isList, Entry.isLeafList, nodeMin, nodeMax,
        tri_bne1, tri_bne2, tri_bne3]


theorem propsOf_stMand (sd : EData) (n : Entry) :
    propsOf (stMand sd n) = { propsOf n with mandatory := (triOpt sd.mandatory).or (propsOf n).mandatory } := by
  cases n with
  | mk d c i o =>
    cases hc : sd.mandatory <;>
      simp [stMand, hc, propsOf, triOpt, Entry.withD, Entry.d, listLike, Entry.isList, Entry.isLeafList, nodeMin, nodeMax,
        tri_bne1, tri_bne2, tri_bne3]

theorem propsOf_stCfgDel (sd : EData) (n : Entry) :
    propsOf (stCfgDel sd n) = { propsOf n with config := if (triOpt sd.config).isSome then none else (propsOf n).config } := by
  cases n with
  | mk d c i o =>
    cases hc : sd.config <;>
      simp [stCfgDel, hc, propsOf, triOpt, Entry.withD, Entry.d, listLike, Entry.isList, Entry.isLeafList, nodeMin, nodeMax,
        tri_bne1, tri_bne2, tri_bne3]

theorem propsOf_stMandDel (sd : EData) (n : Entry) :
    propsOf (stMandDel sd n) =
      { propsOf n with mandatory := if (triOpt sd.mandatory).isSome then none else (propsOf n).mandatory } := by
  cases n with
  | mk d c i o =>
    cases hc : sd.mandatory <;>
      simp [stMandDel, hc, propsOf, triOpt, Entry.withD, Entry.d, listLike, Entry.isList, Entry.isLeafList, nodeMin, nodeMax,
        tri_bne1, tri_bne2, tri_bne3]

theorem strOpt_empty : strOpt "" = none := rfl
theorem strOpt_ne {s : String} (h : s ≠ "") : strOpt s = some s := by simp [strOpt, h]

theorem propsOf_stUnits (sd : EData) (n : Entry) :
    propsOf (stUnits sd n) = { propsOf n with units := (strOpt sd.units).or (propsOf n).units } := by
  cases n with
  | mk d c i o =>
    by_cases hu : sd.units = ""
    · simp [stUnits, hu, propsOf, strOpt_empty]
    · simp [stUnits, hu, propsOf, strOpt_ne hu, Entry.withD, Entry.d, listLike, Entry.isList, Entry.isLeafList, nodeMin, nodeMax]

theorem propsOf_stType (sd : EData) (n : Entry) :
    propsOf (stType sd n) = { propsOf n with type := (sd.type.map (·.dump)).or (propsOf n).type } := by
  cases n with
  | mk d c i o =>
    cases ht : sd.type <;>
      simp [stType, ht, propsOf, Entry.withD, Entry.d, listLike, Entry.isList, Entry.isLeafList, nodeMin, nodeMax]

theorem propsOf_setMin (n : Entry) (v : Nat) (h : listLike n = true) :
    propsOf (setMin n v) = { propsOf n with min := v } := by
  have hs := listLike_isSome h
  cases n with
  | mk d c i o =>
    simp only [Entry.d] at hs
    obtain ⟨la, hla⟩ := Option.isSome_iff_exists.mp hs
    simp [setMin, propsOf, Entry.withD, Entry.d, listLike, Entry.isList, Entry.isLeafList, nodeMin, nodeMax, hla]

theorem propsOf_setMax (n : Entry) (v : Nat) (h : listLike n = true) :
    propsOf (setMax n v) = { propsOf n with max := maxOpt v } := by
  have hs := listLike_isSome h
  cases n with
  | mk d c i o =>
    simp only [Entry.d] at hs
    obtain ⟨la, hla⟩ := Option.isSome_iff_exists.mp hs
    simp [setMax, propsOf, Entry.withD, Entry.d, listLike, Entry.isList, Entry.isLeafList, nodeMin, nodeMax, hla]

theorem propsOf_setDefault (n : Entry) (l : List String) :
    propsOf (n.withD fun d => { d with default := l }) = { propsOf n with default := l } := by
  cases n with
  | mk d c i o => simp [propsOf, Entry.withD, Entry.d, listLike, Entry.isList, Entry.isLeafList, nodeMin, nodeMax]

theorem propsOf_appendDefault (n : Entry) (l : List String) :
    propsOf (n.withD fun d => { d with default := d.default ++ l }) = { propsOf n with default := (propsOf n).default ++ l } := by
  cases n with
  | mk d c i o => simp [propsOf, Entry.withD, Entry.d, listLike, Entry.isList, Entry.isLeafList, nodeMin, nodeMax]

/-- §7.20.3.2 for `default` under add / replace. -/
def defAR (isAdd : Bool) (ds : List String) (p : NodeProps) : List String :=
  if ds.isEmpty then p.default else if isAdd && p.leafList then p.default ++ ds else ds

/-- The default stage of `add` / `replace`: when it reports nothing it did what §7.20.3.2 says. -/
theorem propsOf_stDefAR (ms : Stmt) (isAdd : Bool) (sd : EData) (n : Entry) (h : (stDefAR ms isAdd sd n).2 = []) :
    propsOf (stDefAR ms isAdd sd n).1 = { propsOf n with default := defAR isAdd sd.default (propsOf n) } := by
  have hl : (propsOf n).leafList = n.isLeafList := rfl
  unfold stDefAR at h ⊢
  by_cases h1 : sd.default.isEmpty = true
  · simp [h1, defAR]
  · cases isAdd with
    | false =>
      have hd : defAR false sd.default (propsOf n) = sd.default := by simp [defAR, h1]
      rw [hd]; simp only [h1, if_false, Bool.false_eq_true]; exact propsOf_setDefault n _
    | true =>
      by_cases h2 : n.isLeafList = true
      · have hd : defAR true sd.default (propsOf n) = (propsOf n).default ++ sd.default := by simp [defAR, h1, hl, h2]
        rw [hd]; simp only [h1, h2, if_true, if_false, Bool.false_eq_true]
        exact propsOf_appendDefault n _
      · by_cases h3 : sd.default.length > 1
        · simp [h1, h2, h3] at h
        · by_cases h4 : (!n.d.default.isEmpty) = true
          · simp [h1, h2, h3, h4] at h
          · have h5 : sd.default.take 1 = sd.default := List.take_of_length_le (by omega)
            have hd : defAR true sd.default (propsOf n) = sd.default := by simp [defAR, h1, hl, h2]
            rw [hd]; simp only [h1, h2, h3, h4, if_true, if_false, Bool.false_eq_true, h5]
            exact propsOf_setDefault n _

/-- When does the default stage of add / replace report something. -/
theorem stDefAR_errs (ms : Stmt) (isAdd : Bool) (sd : EData) (n : Entry) :
    (stDefAR ms isAdd sd n).2 = [] ↔
      (sd.default.isEmpty = true ∨ isAdd = false ∨ n.isLeafList = true ∨
        (sd.default.length ≤ 1 ∧ n.d.default.isEmpty = true)) := by
  unfold stDefAR
  by_cases h1 : sd.default.isEmpty = true
  · simp [h1]
  · cases isAdd with
    | false => simp [h1]
    | true =>
      by_cases h2 : n.isLeafList = true
      · simp [h1, h2]
      · by_cases h3 : sd.default.length > 1
        · simp [h1, h2, h3]; omega
        · by_cases h4 : (!n.d.default.isEmpty) = true
          · simp [h1, h2, h3, h4]; intro _; simpa using h4
          · simp [h1, h2, h3, h4]; simp at h4; exact ⟨by omega, h4⟩

theorem flags_stDefAR (ms : Stmt) (isAdd : Bool) (sd : EData) (n : Entry) :
    listLike (stDefAR ms isAdd sd n).1 = listLike n ∧ (stDefAR ms isAdd sd n).1.isLeafList = n.isLeafList := by
  unfold stDefAR
  repeat' split
  all_goals first | exact ⟨rfl, rfl⟩ | exact flags_withD n _ rfl rfl rfl


theorem flags_stCfg (sd : EData) (n : Entry) : listLike (stCfg sd n) = listLike n ∧ (stCfg sd n).isLeafList = n.isLeafList :=
  ⟨congrArg NodeProps.listLike (propsOf_stCfg sd n), congrArg NodeProps.leafList (propsOf_stCfg sd n)⟩
theorem flags_stMand (sd : EData) (n : Entry) : listLike (stMand sd n) = listLike n ∧ (stMand sd n).isLeafList = n.isLeafList :=
  ⟨congrArg NodeProps.listLike (propsOf_stMand sd n), congrArg NodeProps.leafList (propsOf_stMand sd n)⟩
theorem flags_stCfgDel (sd : EData) (n : Entry) :
    listLike (stCfgDel sd n) = listLike n ∧ (stCfgDel sd n).isLeafList = n.isLeafList :=
  ⟨congrArg NodeProps.listLike (propsOf_stCfgDel sd n), congrArg NodeProps.leafList (propsOf_stCfgDel sd n)⟩
theorem flags_stMandDel (sd : EData) (n : Entry) :
    listLike (stMandDel sd n) = listLike n ∧ (stMandDel sd n).isLeafList = n.isLeafList :=
  ⟨congrArg NodeProps.listLike (propsOf_stMandDel sd n), congrArg NodeProps.leafList (propsOf_stMandDel sd n)⟩
theorem listLike_setMin (n : Entry) (v : Nat) : listLike (setMin n v) = listLike n :=
  (flags_withD n _ rfl rfl (by simp)).1
theorem listLike_setMax (n : Entry) (v : Nat) : listLike (setMax n v) = listLike n :=
  (flags_withD n _ rfl rfl (by simp)).1

/-- The node before the element-bound stages of add / replace. -/
def arN3 (ms : Stmt) (isAdd : Bool) (spec node : Entry) : Entry :=
  stMand spec.d (stDefAR ms isAdd spec.d (stCfg spec.d node)).1

theorem listLike_arN3 (ms : Stmt) (isAdd : Bool) (spec node : Entry) : listLike (arN3 ms isAdd spec node) = listLike node := by
  unfold arN3
  rw [(flags_stMand _ _).1, (flags_stDefAR _ _ _ _).1, (flags_stCfg _ _).1]

/-- What add / replace report. -/
theorem addReplace_errs (ms : Stmt) (isAdd : Bool) (spec node : Entry) :
    (addReplace ms isAdd spec node).2.2 = [] ↔
      ((stDefAR ms isAdd spec.d (stCfg spec.d node)).2 = [] ∧
       ¬ (spec.d.hasMin = true ∧ listLike node = false) ∧ ¬ (spec.d.hasMax = true ∧ listLike node = false)) := by
  have hn3 := listLike_arN3 ms isAdd spec node
  unfold arN3 at hn3
  unfold addReplace
  simp only []
  by_cases c1 : (spec.d.hasMin && !listLike (stMand spec.d (stDefAR ms isAdd spec.d (stCfg spec.d node)).1)) = true
  · rw [if_pos c1]
    rw [hn3] at c1
    simp at c1
    simp [c1]
  · rw [if_neg c1]
    by_cases c2 : (spec.d.hasMax && !listLike (if spec.d.hasMin = true then
        setMin (stMand spec.d (stDefAR ms isAdd spec.d (stCfg spec.d node)).1) (specMin spec.d)
        else stMand spec.d (stDefAR ms isAdd spec.d (stCfg spec.d node)).1)) = true
    · rw [if_pos c2]
      have : listLike node = false ∧ spec.d.hasMax = true := by
        by_cases hm : spec.d.hasMin = true
        · simp [hm, listLike_setMin, hn3] at c2; exact ⟨c2.2, c2.1⟩
        · simp [hm, hn3] at c2; exact ⟨c2.2, c2.1⟩
      simp [this]
    · rw [if_neg c2]
      rw [hn3] at c1
      have c2' : ¬ (spec.d.hasMax = true ∧ listLike node = false) := by
        intro hc
        apply c2
        by_cases hm : spec.d.hasMin = true
        · simp [hm, listLike_setMin, hn3, hc]
        · simp [hm, hn3, hc]
      have c1' : ¬ (spec.d.hasMin = true ∧ listLike node = false) := by
        intro hc; apply c1; simp [hc]
      simp [c1', c2']


/-- The properties add / replace leave behind when they report nothing (§7.20.3.2). -/
def effectAR (isAdd : Bool) (spec : Entry) (p : NodeProps) : NodeProps :=
  { p with
    config := (triOpt spec.d.config).or p.config
    default := defAR isAdd spec.d.default p
    mandatory := (triOpt spec.d.mandatory).or p.mandatory
    min := if spec.d.hasMin then specMin spec.d else p.min
    max := if spec.d.hasMax then maxOpt (specMax spec.d) else p.max
    units := (strOpt spec.d.units).or p.units
    type := (spec.d.type.map (·.dump)).or p.type }

theorem addReplace_effect (ms : Stmt) (isAdd : Bool) (spec node : Entry) (h : (addReplace ms isAdd spec node).2.2 = []) :
    (addReplace ms isAdd spec node).2.1 = false ∧
    propsOf (addReplace ms isAdd spec node).1 = effectAR isAdd spec (propsOf node) := by
  obtain ⟨hdef, hmin, hmax⟩ := (addReplace_errs ms isAdd spec node).mp h
  have hn3 := listLike_arN3 ms isAdd spec node
  unfold arN3 at hn3
  unfold addReplace
  simp only []
  have c1 : ¬ (spec.d.hasMin && !listLike (stMand spec.d (stDefAR ms isAdd spec.d (stCfg spec.d node)).1)) = true := by
    rw [hn3]; intro hc; apply hmin; simpa using hc
  rw [if_neg c1]
  have c2 : ¬ (spec.d.hasMax && !listLike (if spec.d.hasMin = true then
        setMin (stMand spec.d (stDefAR ms isAdd spec.d (stCfg spec.d node)).1) (specMin spec.d)
        else stMand spec.d (stDefAR ms isAdd spec.d (stCfg spec.d node)).1)) = true := by
    intro hc; apply hmax
    by_cases hm : spec.d.hasMin = true
    · simpa [hm, listLike_setMin, hn3] using hc
    · simpa [hm, hn3] using hc
  rw [if_neg c2]
  refine ⟨rfl, ?_⟩
  simp only []
  rw [propsOf_stType, propsOf_stUnits]
  by_cases hM : spec.d.hasMax = true
  · have hl : listLike node = true := by
      cases hx : listLike node
      · exact absurd ⟨hM, hx⟩ hmax
      · rfl
    by_cases hm : spec.d.hasMin = true
    · simp only [hM, hm, if_true]
      rw [propsOf_setMax _ _ (by rw [listLike_setMin, hn3, hl]), propsOf_setMin _ _ (by rw [hn3, hl]),
        propsOf_stMand, propsOf_stDefAR _ _ _ _ hdef, propsOf_stCfg]
      simp [effectAR, defAR, hM, hm]
    · simp only [hM, hm, if_true, if_false, Bool.false_eq_true]
      rw [propsOf_setMax _ _ (by rw [hn3, hl]), propsOf_stMand, propsOf_stDefAR _ _ _ _ hdef, propsOf_stCfg]
      simp [effectAR, defAR, hM, hm]
  · by_cases hm : spec.d.hasMin = true
    · have hl : listLike node = true := by
        cases hx : listLike node
        · exact absurd ⟨hm, hx⟩ hmin
        · rfl
      simp only [hM, hm, if_true, if_false, Bool.false_eq_true]
      rw [propsOf_setMin _ _ (by rw [hn3, hl]), propsOf_stMand, propsOf_stDefAR _ _ _ _ hdef, propsOf_stCfg]
      simp [effectAR, defAR, hM, hm]
    · simp only [hM, hm, if_false, Bool.false_eq_true]
      rw [propsOf_stMand, propsOf_stDefAR _ _ _ _ hdef, propsOf_stCfg]
      simp [effectAR, defAR, hM, hm]


/-! #### delete -/

/-- §7.20.3.2 for `default` under delete. -/
def defDel (ds : List String) (p : NodeProps) : List String :=
  if ds.isEmpty then p.default else if p.leafList then p.default.filter (!ds.contains ·) else []

theorem stDefDel_errs (ms : Stmt) (sd : EData) (n : Entry) :
    (stDefDel ms sd n).2 = [] ↔
      (sd.default.isEmpty = true ∨
        (n.isLeafList = false ∧ n.d.default.isEmpty = false ∧ sd.default.head? = n.d.default.head?)) := by
  unfold stDefDel
  by_cases h1 : sd.default.isEmpty = true
  · simp [h1]
  · by_cases h2 : n.isLeafList = true
    · simp [h1, h2]
    · by_cases h3 : n.d.default.isEmpty = true
      · simp [h1, h2, h3]
      · by_cases h4 : sd.default.head? = n.d.default.head?
        · simp [h1, h2, h3, h4]
        · simp [h1, h2, h3, h4]

theorem propsOf_stDefDel (ms : Stmt) (sd : EData) (n : Entry) (h : (stDefDel ms sd n).2 = []) :
    propsOf (stDefDel ms sd n).1 = { propsOf n with default := defDel sd.default (propsOf n) } := by
  have hl : (propsOf n).leafList = n.isLeafList := rfl
  rcases (stDefDel_errs ms sd n).mp h with h1 | ⟨h2, h3, h4⟩
  · simp [stDefDel, h1, defDel]
  · by_cases h1 : sd.default.isEmpty = true
    · simp [stDefDel, h1, defDel]
    · have hd : defDel sd.default (propsOf n) = [] := by simp [defDel, h1, hl, h2]
      rw [hd]
      unfold stDefDel
      simp only [h1, h2, h3, h4, if_false, Bool.false_eq_true, bne_self_eq_false]
      exact propsOf_setDefault n _

theorem listAttr_stCfgDel (sd : EData) (n : Entry) : (stCfgDel sd n).d.listAttr = n.d.listAttr := by
  cases n; unfold stCfgDel; split <;> rfl
theorem listAttr_stMandDel (sd : EData) (n : Entry) : (stMandDel sd n).d.listAttr = n.d.listAttr := by
  cases n; unfold stMandDel; split <;> rfl
theorem listAttr_stDefDel (ms : Stmt) (sd : EData) (n : Entry) : (stDefDel ms sd n).1.d.listAttr = n.d.listAttr := by
  cases n; unfold stDefDel; repeat' split
  all_goals rfl
theorem flags_stDefDel (ms : Stmt) (sd : EData) (n : Entry) :
    listLike (stDefDel ms sd n).1 = listLike n ∧ (stDefDel ms sd n).1.isLeafList = n.isLeafList := by
  unfold stDefDel
  repeat' split
  all_goals first | exact ⟨rfl, rfl⟩ | exact flags_withD n _ rfl rfl rfl

/-- The node before the element-bound stages of delete. -/
def delN3 (ms : Stmt) (spec node : Entry) : Entry :=
  stMandDel spec.d (stDefDel ms spec.d (stCfgDel spec.d node)).1

theorem listLike_delN3 (ms : Stmt) (spec node : Entry) : listLike (delN3 ms spec node) = listLike node := by
  unfold delN3
  rw [(flags_stMandDel _ _).1, (flags_stDefDel _ _ _).1, (flags_stCfgDel _ _).1]

theorem listAttr_delN3 (ms : Stmt) (spec node : Entry) : (delN3 ms spec node).d.listAttr = node.d.listAttr := by
  unfold delN3
  rw [listAttr_stMandDel, listAttr_stDefDel, listAttr_stCfgDel]

theorem nodeMax_setMin (n : Entry) (v : Nat) : nodeMax (setMin n v) = nodeMax n := by
  cases n with
  | mk d c i o => cases h : d.listAttr <;> simp [nodeMax, setMin, Entry.withD, Entry.d, h]

/-- `delete` written with the node before the bound stages named. -/
theorem delete_eq (ms : Stmt) (spec node : Entry) :
    delete_ ms spec node =
      (let n3 := delN3 ms spec node
       let e2 := (stDefDel ms spec.d (stCfgDel spec.d node)).2
       if spec.d.hasMin && !listLike n3 then (n3, false, e2 ++ [Err.bare "deviate-min-nonlist"]) else
       let r4 : Entry × List Err :=
         if spec.d.hasMin then
           (setMin n3 0, if nodeMin n3 != specMin spec.d then e2 ++ [Err.bare "deviate-delete-min-mismatch"] else e2)
         else (n3, e2)
       if spec.d.hasMax && !listLike r4.1 then (r4.1, false, r4.2 ++ [Err.bare "deviate-max-nonlist"]) else
       let r5 : Entry × List Err :=
         if spec.d.hasMax then
           (setMax r4.1 maxU64, if nodeMax r4.1 != specMax spec.d then r4.2 ++ [Err.bare "deviate-delete-max-mismatch"] else r4.2)
         else r4
       (r5.1, false, r5.2)) := rfl

/-- What delete reports. -/
theorem delete_errs (ms : Stmt) (spec node : Entry) :
    (delete_ ms spec node).2.2 = [] ↔
      ((stDefDel ms spec.d (stCfgDel spec.d node)).2 = [] ∧
       (spec.d.hasMin = true → listLike node = true ∧ nodeMin node = specMin spec.d) ∧
       (spec.d.hasMax = true → listLike node = true ∧ nodeMax node = specMax spec.d)) := by
  have hl := listLike_delN3 ms spec node
  have hmin : nodeMin (delN3 ms spec node) = nodeMin node := by simp [nodeMin, listAttr_delN3]
  have hmax : nodeMax (delN3 ms spec node) = nodeMax node := by simp [nodeMax, listAttr_delN3]
  rw [delete_eq]
  simp only []
  generalize (stDefDel ms spec.d (stCfgDel spec.d node)).2 = e2 at *
  generalize delN3 ms spec node = n3 at *
  cases hm : spec.d.hasMin <;> cases hM : spec.d.hasMax <;> cases hll : listLike node <;>
    simp [hl, hll, hmin, hmax, listLike_setMin, nodeMax_setMin] <;>
    (try (by_cases a : nodeMin node = specMin spec.d <;> by_cases b : nodeMax node = specMax spec.d <;> simp [a, b]))


/-- The properties delete leaves behind when it reports nothing. -/
def effectDel (spec : Entry) (p : NodeProps) : NodeProps :=
  { p with
    config := if (triOpt spec.d.config).isSome then none else p.config
    default := defDel spec.d.default p
    mandatory := if (triOpt spec.d.mandatory).isSome then none else p.mandatory
    min := if spec.d.hasMin then 0 else p.min
    max := if spec.d.hasMax then none else p.max }

theorem maxOpt_maxU64 : maxOpt maxU64 = none := by simp [maxOpt]

theorem delete_effect (ms : Stmt) (spec node : Entry) (h : (delete_ ms spec node).2.2 = []) :
    (delete_ ms spec node).2.1 = false ∧ propsOf (delete_ ms spec node).1 = effectDel spec (propsOf node) := by
  obtain ⟨hdef, hmin, hmax⟩ := (delete_errs ms spec node).mp h
  have hl := listLike_delN3 ms spec node
  have hp3 : propsOf (delN3 ms spec node) =
      { propsOf node with
        config := if (triOpt spec.d.config).isSome then none else (propsOf node).config
        default := defDel spec.d.default (propsOf node)
        mandatory := if (triOpt spec.d.mandatory).isSome then none else (propsOf node).mandatory } := by
    unfold delN3
    rw [propsOf_stMandDel, propsOf_stDefDel _ _ _ hdef, propsOf_stCfgDel]
    simp [defDel]
  rw [delete_eq]
  simp only []
  generalize (stDefDel ms spec.d (stCfgDel spec.d node)).2 = e2 at *
  generalize delN3 ms spec node = n3 at *
  cases hm : spec.d.hasMin <;> cases hM : spec.d.hasMax
  · simp [hp3, effectDel, hm, hM]
  · have hll := (hmax hM).1
    simp [hl, hll, effectDel, hm, hM, propsOf_setMax n3 _ (by rw [hl, hll]), hp3, maxOpt_maxU64]
  · have hll := (hmin hm).1
    simp [hl, hll, effectDel, hm, hM, propsOf_setMin n3 _ (by rw [hl, hll]), hp3]
  · have hll := (hmin hm).1
    simp [hl, hll, effectDel, hm, hM, listLike_setMin, propsOf_setMax (setMin n3 0) _ (by rw [listLike_setMin, hl, hll]),
      propsOf_setMin n3 _ (by rw [hl, hll]), hp3, maxOpt_maxU64]


/-! ### one deviate statement against RFC 7950 §7.20.3.2 -/

/-- The conditions the code checks: those the property lists, and "several defaults for a node that
takes one" (which the parser never lets through: a deviate statement holds one default). -/
def reportedByCode (e : DevErr) : Bool := e.claimed || e == .manyDefaults

/-- No broken condition in the list is one the code checks. -/
def unrep (l : List DevErr) : Bool := l.all fun e => !reportedByCode e

theorem unrep_iff (l : List DevErr) : unrep l = true ↔ ∀ e ∈ l, reportedByCode e = false := by
  simp [unrep]

theorem effect_add (ins : Bool) (spec node : Entry) (kind : String) (hk : kindOf kind = .add) :
    effect ins (propsOf node) (stmtOf kind spec) = some (effectAR true spec (propsOf node)) := by
  unfold effect
  simp only [stmtOf, hk, effectAR, defAR]
  cases spec.d.hasMin <;> cases spec.d.hasMax <;> simp

theorem effect_replace (ins : Bool) (spec node : Entry) (kind : String) (hk : kindOf kind = .replace) :
    effect ins (propsOf node) (stmtOf kind spec) = some (effectAR false spec (propsOf node)) := by
  unfold effect
  simp only [stmtOf, hk, effectAR, defAR]
  cases spec.d.hasMin <;> cases spec.d.hasMax <;> simp

theorem effect_delete (ins : Bool) (spec node : Entry) (kind : String) (hk : kindOf kind = .delete) :
    effect ins (propsOf node) (stmtOf kind spec) = some (effectDel spec (propsOf node)) := by
  unfold effect
  simp only [stmtOf, hk, effectDel, defDel]
  cases spec.d.hasMin <;> cases spec.d.hasMax <;> simp


theorem unrep_append (a b : List DevErr) : unrep (a ++ b) = (unrep a && unrep b) := by simp [unrep]
theorem unrep_nil : unrep [] = true := rfl
theorem unrep_vAdd {α} (p : PropName) (hp : p ≠ .default) (present : Bool) (arg : Option α) : unrep (vAdd p present arg) = true := by
  unfold vAdd; split
  · cases p <;> first | exact absurd rfl hp | rfl
  · rfl
theorem unrep_vReplace {α} (p : PropName) (present : Bool) (arg : Option α) : unrep (vReplace p present arg) = true := by
  unfold vReplace; split <;> rfl
theorem unrep_vBound {α} (p : PropName) (ll : Bool) (arg : Option α) : unrep (vBound p ll arg) = !(arg.isSome && !ll) := by
  unfold vBound; split
  · next h => rw [h]; rfl
  · next h => simp at h; cases ha : arg.isSome <;> cases hl : ll <;> simp_all [unrep]

theorem unrep_ite (c : Prop) [Decidable c] (a b : List DevErr) : unrep (if c then a else b) = if c then unrep a else unrep b := by
  split <;> rfl

theorem violations_add (p : NodeProps) (s : DeviateStmt) (hk : s.kind = .add) :
    unrep (violations p s) =
      ((s.default.isEmpty || p.leafList || (decide (s.default.length ≤ 1) && p.default.isEmpty)) &&
        !(s.min.isSome && !p.listLike) && !(s.max.isSome && !p.listLike)) := by
  unfold violations
  simp only [hk, unrep_append, unrep_ite, unrep_nil, unrep_vBound]
  simp only [unrep_vAdd, ne_eq, reduceCtorEq, not_false_eq_true, ite_self, Bool.true_and, Bool.and_true]
  by_cases a : (s.default.isEmpty || p.leafList) = true
  · simp only [a, if_true]
    simp at a
    rcases a with a | a <;> simp [a]
  · simp only [a, if_false, Bool.false_eq_true]
    simp at a
    by_cases b : s.default.length > 1 <;> by_cases c : p.default.isEmpty = true <;>
      simp [a, b, c, unrep, reportedByCode, DevErr.claimed]
    · intro h; omega
    · have : s.default.length ≤ 1 := by omega
      simp [this]


theorem violations_replace (p : NodeProps) (s : DeviateStmt) (hk : s.kind = .replace) :
    unrep (violations p s) = (!(s.min.isSome && !p.listLike) && !(s.max.isSome && !p.listLike)) := by
  unfold violations
  simp only [hk, unrep_append, unrep_ite, unrep_nil, unrep_vBound, unrep_vReplace, ite_self, Bool.true_and, Bool.and_true]
  split <;> rfl

theorem unrep_vDelete_unclaimed {α} [DecidableEq α] (p : PropName) (hp : p = .config ∨ p = .mandatory) (cur arg : Option α) :
    unrep (vDelete p cur arg) = true := by
  unfold vDelete
  rcases hp with rfl | rfl <;> (split <;> first | rfl | (split <;> rfl))

theorem unrep_vDelete_claimed {α} [DecidableEq α] (p : PropName) (hp : p = .default ∨ p = .min ∨ p = .max)
    (cur arg : Option α) : unrep (vDelete p cur arg) = (arg.isNone || decide (arg = cur)) := by
  unfold vDelete
  rcases hp with rfl | rfl | rfl <;> cases arg <;> cases cur <;> simp [unrep, reportedByCode, DevErr.claimed] <;>
    (split <;> simp_all [reportedByCode, DevErr.claimed])

theorem violations_delete (p : NodeProps) (s : DeviateStmt) (hk : s.kind = .delete) :
    unrep (violations p s) =
      ((if p.leafList then s.default.all (p.default.contains ·)
        else (s.default.head?.isNone || decide (s.default.head? = p.default.head?))) &&
       !(s.min.isSome && !p.listLike) && (!p.listLike || s.min.isNone || decide (s.min = some p.min)) &&
       !(s.max.isSome && !p.listLike) && (!p.listLike || s.max.isNone || decide (s.max = some p.max))) := by
  unfold violations
  simp only [hk, unrep_append, unrep_ite, unrep_nil, unrep_vBound,
    unrep_vDelete_unclaimed _ (Or.inl rfl), unrep_vDelete_unclaimed _ (Or.inr rfl),
    unrep_vDelete_claimed _ (Or.inl rfl), unrep_vDelete_claimed _ (Or.inr (Or.inl rfl)),
    unrep_vDelete_claimed _ (Or.inr (Or.inr rfl)), Bool.true_and, Bool.and_true]
  have hu : unrep [if p.default.isEmpty = true then DevErr.deleteAbsent PropName.default
      else DevErr.deleteMismatch PropName.default] = false := by split <;> rfl
  have hall : (s.default.all fun x => decide (x ∈ p.default)) = decide (∀ x, x ∈ s.default → x ∈ p.default) := by
    rw [Bool.eq_iff_iff]; simp [List.all_eq_true]
  simp only [hu]
  cases hl : p.leafList <;> cases hll : p.listLike <;> simp [hall]


theorem maxOpt_inj (a b : Nat) : maxOpt a = maxOpt b ↔ a = b := by
  unfold maxOpt
  by_cases ha : a = maxU64 <;> by_cases hb : b = maxU64 <;> simp [ha, hb]
  all_goals first | exact fun h => hb h.symm | exact ha

theorem default_stCfg (sd : EData) (n : Entry) : (stCfg sd n).d.default = n.d.default :=
  congrArg NodeProps.default (propsOf_stCfg sd n)
theorem default_stCfgDel (sd : EData) (n : Entry) : (stCfgDel sd n).d.default = n.d.default :=
  congrArg NodeProps.default (propsOf_stCfgDel sd n)

theorem kind_stmtOf (kind : String) (spec : Entry) : (stmtOf kind spec).kind = kindOf kind := rfl

/-- **What the code reports, exactly**: a deviate statement is applied without an error iff none of
the RFC conditions it breaks is one of the conditions the code checks, and it is not a deletion of a
leaf-list default (always refused).  (`hasParent`: only the root of a module tree has none; a
not-supported naming it is refused.) -/
theorem staged_errs (opts : Opts) (ms : Stmt) (kind : String) (spec : Entry) (hp : Bool) (node : Entry)
    (hhp : kindOf kind = .notSupported → hp = true) :
    (staged opts ms kind spec hp node).2.2 = [] ↔
      (unrep (violations (propsOf node) (stmtOf kind spec)) = true ∧
       leafListDeleteUnsupported (propsOf node) (stmtOf kind spec) = false) := by
  unfold staged
  cases hk : kindOf kind with
  | add =>
    simp only []
    rw [addReplace_errs, stDefAR_errs, violations_add _ _ (by rw [kind_stmtOf, hk]), (flags_stCfg _ _).2, default_stCfg]
    simp only [leafListDeleteUnsupported, kind_stmtOf, hk]
    simp only [stmtOf, propsOf]
    cases spec.d.hasMin <;> cases spec.d.hasMax <;> cases listLike node <;> simp [or_assoc]
    all_goals grind
  | replace =>
    simp only []
    rw [addReplace_errs, stDefAR_errs, violations_replace _ _ (by rw [kind_stmtOf, hk])]
    simp only [leafListDeleteUnsupported, kind_stmtOf, hk]
    simp only [stmtOf, propsOf]
    cases spec.d.hasMin <;> cases spec.d.hasMax <;> cases listLike node <;> simp
  | notSupported =>
    simp only [notSupported, hhp hk]
    simp [violations, kind_stmtOf, hk, leafListDeleteUnsupported, unrep_nil]
  | delete =>
    simp only []
    rw [delete_errs, stDefDel_errs, violations_delete _ _ (by rw [kind_stmtOf, hk]), (flags_stCfgDel _ _).2, default_stCfgDel]
    simp only [leafListDeleteUnsupported, kind_stmtOf, hk]
    simp only [stmtOf, propsOf]
    have hD2 : (spec.d.default = [] ∨ ¬ node.d.default = [] ∧ spec.d.default.head? = node.d.default.head?) ↔
        (spec.d.default = [] ∨ spec.d.default.head? = node.d.default.head?) := by
      cases spec.d.default <;> cases node.d.default <;> simp
    have e1 : specMin spec.d = nodeMin node ↔ nodeMin node = specMin spec.d := eq_comm
    have e2 : specMax spec.d = nodeMax node ↔ nodeMax node = specMax spec.d := eq_comm
    by_cases hm : spec.d.hasMin = true <;> by_cases hM : spec.d.hasMax = true <;> by_cases hll : listLike node = true <;>
      by_cases hlf : node.isLeafList = true <;>
      simp [hm, hM, hll, hlf, maxOpt_inj, hD2, e1, e2]
    all_goals grind
  | other =>
    simp [violations, kind_stmtOf, hk, unrep, reportedByCode, DevErr.claimed]


/-- **What the code does when it reports nothing**: exactly the effect §7.20.3.2 prescribes for the
statement (removal of the node for not-supported, unless the option says to keep it). -/
theorem staged_effect (opts : Opts) (ms : Stmt) (kind : String) (spec : Entry) (hp : Bool) (node : Entry)
    (h : (staged opts ms kind spec hp node).2.2 = []) :
    effect opts.ignoreNotSupported (propsOf node) (stmtOf kind spec) =
      if (staged opts ms kind spec hp node).2.1 then none
      else some (propsOf (staged opts ms kind spec hp node).1) := by
  unfold staged at h ⊢
  cases hk : kindOf kind with
  | add =>
    simp only [hk] at h ⊢
    obtain ⟨h1, h2⟩ := addReplace_effect ms true spec node h
    rw [effect_add _ _ _ _ hk, h1, h2]; rfl
  | replace =>
    simp only [hk] at h ⊢
    obtain ⟨h1, h2⟩ := addReplace_effect ms false spec node h
    rw [effect_replace _ _ _ _ hk, h1, h2]; rfl
  | delete =>
    simp only [hk] at h ⊢
    obtain ⟨h1, h2⟩ := delete_effect ms spec node h
    rw [effect_delete _ _ _ _ hk, h1, h2]; rfl
  | notSupported =>
    simp only [hk, notSupported] at h ⊢
    cases hp with
    | false => simp at h
    | true =>
      unfold effect
      simp only [kind_stmtOf, hk, Bool.not_true, Bool.false_eq_true, if_false]
      by_cases hi : opts.ignoreNotSupported = true <;> simp [hi]
  | other => simp [hk] at h

/-! #### what no deviate statement touches -/

/-- Children and the data fields outside §7.20.3: name, kind, `Dir` presence, description, key, rpc
flag, namespace stamp, recorded errors, source node, presence and ordered-by of the list attributes. -/
def untouched (n : Entry) :=
  (n.dir, n.inp, n.out, n.d.name, n.d.kind, n.d.hasDir, n.d.description, n.d.key, n.d.isRpc, n.d.ns, n.d.errors,
   n.d.node, n.d.nodeMod, n.d.nodeKw, n.d.hasMin, n.d.hasMax, n.d.listAttr.map (·.orderedByUser))

theorem untouched_stCfg (sd : EData) (n : Entry) : untouched (stCfg sd n) = untouched n := by
  cases n; unfold stCfg; split <;> rfl
theorem untouched_stMand (sd : EData) (n : Entry) : untouched (stMand sd n) = untouched n := by
  cases n; unfold stMand; split <;> rfl
theorem untouched_stUnits (sd : EData) (n : Entry) : untouched (stUnits sd n) = untouched n := by
  cases n; unfold stUnits; split <;> rfl
theorem untouched_stType (sd : EData) (n : Entry) : untouched (stType sd n) = untouched n := by
  cases n; unfold stType; split <;> rfl
theorem untouched_stCfgDel (sd : EData) (n : Entry) : untouched (stCfgDel sd n) = untouched n := by
  cases n; unfold stCfgDel; split <;> rfl
theorem untouched_stMandDel (sd : EData) (n : Entry) : untouched (stMandDel sd n) = untouched n := by
  cases n; unfold stMandDel; split <;> rfl
theorem untouched_stDefAR (ms : Stmt) (a : Bool) (sd : EData) (n : Entry) : untouched (stDefAR ms a sd n).1 = untouched n := by
  cases n; unfold stDefAR; repeat' split
  all_goals rfl
theorem untouched_stDefDel (ms : Stmt) (sd : EData) (n : Entry) : untouched (stDefDel ms sd n).1 = untouched n := by
  cases n; unfold stDefDel; repeat' split
  all_goals rfl
theorem untouched_setMin (n : Entry) (v : Nat) : untouched (setMin n v) = untouched n := by
  cases n with
  | mk d c i o => cases h : d.listAttr <;> simp [untouched, setMin, Entry.withD, Entry.d, Entry.dir, Entry.inp, Entry.out, h]
theorem untouched_setMax (n : Entry) (v : Nat) : untouched (setMax n v) = untouched n := by
  cases n with
  | mk d c i o => cases h : d.listAttr <;> simp [untouched, setMax, Entry.withD, Entry.d, Entry.dir, Entry.inp, Entry.out, h]

/-- **Nothing else changes**: whatever the statement and whether or not it is reported, the node that
comes back has the same children and the same data outside the §7.20.3 properties. -/
theorem staged_untouched (opts : Opts) (ms : Stmt) (kind : String) (spec : Entry) (hp : Bool) (node : Entry) :
    untouched (staged opts ms kind spec hp node).1 = untouched node := by
  unfold staged
  cases kindOf kind with
  | add | replace =>
    simp only [addReplace]
    repeat' split
    all_goals simp only [untouched_stCfg, untouched_stMand, untouched_stUnits, untouched_stType, untouched_stDefAR,
      untouched_setMin, untouched_setMax]
  | delete =>
    have h3 : untouched (delN3 ms spec node) = untouched node := by
      simp only [delN3, untouched_stCfgDel, untouched_stMandDel, untouched_stDefDel]
    rw [delete_eq]
    simp only []
    repeat' split
    all_goals simp only [h3, untouched_setMin, untouched_setMax]
  | notSupported => simp only [notSupported]; split <;> rfl
  | other => rfl


/-! ### `applyDeviations`: the folds named -/

/-- One deviate statement inside `applyDeviations` (the body of the inner fold). -/
def innerStep (opts : Opts) (m : Mod) (t : Nat) (path : Path) (acc : Forest × Entry × Bool × List Err)
    (ds : String × Entry) : Forest × Entry × Bool × List Err :=
  let (f, node, detached, errs) := acc
  let (node', remove, es) := applyOneDeviate opts m.stmt ds.1 ds.2 (!path.isEmpty) node
  let es := if remove && detached then es ++ [Err.at_ m.stmt "deviate-already-removed"] else es
  let f := if detached then f else
    match f.tree? t with
    | none => f
    | some root =>
      let root := root.updateAt path fun _ => node'
      f.setTree t (if remove then removeAt root path else root)
  (f, node', detached || remove, errs ++ es)

/-- One deviation statement inside `applyDeviations` (the body of the outer fold). -/
def outerStep (reg : Registry) (opts : Opts) (m : Mod) (acc : Forest × List Err) (dv : Stmt × List (String × Entry)) :
    Forest × List Err :=
  let (f, errs) := acc
  let (dstmt, deviates) := dv
  let (target, f) := find reg f (m.seq, []) m.seq dstmt.arg
  match target with
  | none => (f, errs ++ [Err.bare "deviate-no-target"])
  | some (t, path) =>
    match (f.tree? t).bind (·.getAt path) with
    | none => (f, errs ++ [Err.bare "deviate-no-target"])
    | some node0 =>
      let (f, _, _, errs) := deviates.foldl (innerStep opts m t path) (f, node0, false, errs)
      (f, errs)

theorem applyDeviations_eq (reg : Registry) (opts : Opts) (m : Mod) (devs : List (Stmt × List (String × Entry))) (f : Forest) :
    applyDeviations reg opts m devs f = devs.foldl (outerStep reg opts m) (f, []) := rfl

/-! #### the target node alone: a left fold in list order -/

/-- The deviate statements of one deviation as they act on the target node: the node, whether it has
been unlinked by a not-supported, and the errors so far. -/
def nodeStep (opts : Opts) (ms : Stmt) (hp : Bool) (acc : Entry × Bool × List Err) (ds : String × Entry) :
    Entry × Bool × List Err :=
  let r := applyOneDeviate opts ms ds.1 ds.2 hp acc.1
  (r.1, acc.2.1 || r.2.1,
    acc.2.2 ++ (if r.2.1 && acc.2.1 then r.2.2 ++ [Err.at_ ms "deviate-already-removed"] else r.2.2))

def nodeFold (opts : Opts) (ms : Stmt) (hp : Bool) (acc : Entry × Bool × List Err) (ds : List (String × Entry)) :
    Entry × Bool × List Err :=
  ds.foldl (nodeStep opts ms hp) acc

theorem innerStep_node (opts : Opts) (m : Mod) (t : Nat) (path : Path) (acc : Forest × Entry × Bool × List Err)
    (ds : String × Entry) :
    (innerStep opts m t path acc ds).2 = nodeStep opts m.stmt (!path.isEmpty) acc.2 ds := by
  obtain ⟨f, node, detached, errs⟩ := acc
  rfl

/-- The node, the unlinked flag and the errors do not depend on the forest. -/
theorem innerFold_node (opts : Opts) (m : Mod) (t : Nat) (path : Path) (ds : List (String × Entry)) :
    ∀ (acc : Forest × Entry × Bool × List Err),
      (ds.foldl (innerStep opts m t path) acc).2 = nodeFold opts m.stmt (!path.isEmpty) acc.2 ds := by
  induction ds with
  | nil => intro acc; rfl
  | cons d ds ih =>
    intro acc
    simp only [List.foldl_cons, nodeFold]
    rw [ih, innerStep_node]; rfl


/-! #### forests -/

theorem find_map_key (l : List (Nat × Entry)) (g : Nat × Entry → Nat × Entry) (id : Nat) (hg : ∀ x, (g x).1 = x.1) :
    (l.map g).find? (·.1 == id) = (l.find? (·.1 == id)).map g := by
  induction l with
  | nil => rfl
  | cons x xs ih =>
    simp only [List.map_cons, List.find?_cons, hg x]
    split
    · rfl
    · exact ih

theorem tree?_setTree_same (f : Forest) (t : Nat) (e root : Entry) (h : f.tree? t = some root) :
    (f.setTree t e).tree? t = some e := by
  unfold Forest.tree? Forest.setTree at *
  simp only
  rw [find_map_key _ _ _ (by intro x; split <;> rfl)]
  cases hf : f.trees.find? (·.1 == t) with
  | none => simp [hf] at h
  | some x =>
    have hx : x.1 = t := by simpa using List.find?_some hf
    simp [hx]

theorem tree?_setTree_other (f : Forest) (t t' : Nat) (e : Entry) (h : t' ≠ t) :
    (f.setTree t e).tree? t' = f.tree? t' := by
  unfold Forest.tree? Forest.setTree
  simp only
  rw [find_map_key _ _ _ (by intro x; split <;> rfl)]
  cases hf : f.trees.find? (·.1 == t') with
  | none => rfl
  | some x =>
    have hx : x.1 = t' := by simpa using List.find?_some hf
    have : ¬ x.1 = t := by rw [hx]; exact h
    simp [this]

/-- What is seen at a location of the forest: the node data there, if the location exists. -/
def obs (f : Forest) (t : Nat) (q : Path) : Option EData := ((f.tree? t).bind (·.getAt q)).map (·.d)

/-- The node handed to `updateAt path (fun _ => ·)` carries the name the path looks up last. -/
def PathNamed (path : Path) (n : Entry) : Prop :=
  match path.getLast? with
  | some (.child k) => n.name = k
  | _ => True

theorem NameStable.of_pathNamed {path : Path} {n : Entry} (h : PathNamed path n) : NameStable path (fun _ => n) := by
  unfold NameStable; unfold PathNamed at h
  split
  · next k hk => rw [hk] at h; intro _ _; exact h
  · trivial

theorem child?_name {e x : Entry} {k : String} (h : e.child? k = some x) : x.name = k := by
  unfold Entry.child? at h
  simpa using List.find?_some h

/-- A node found at a path that ends in `.child k` is named `k`. -/
theorem pathNamed_of_getAt : ∀ (path : Path) (root n : Entry), root.getAt path = some n → PathNamed path n
  | [], _, _, _ => by simp [PathNamed]
  | [.child k], root, n, h => by
    simp only [Entry.getAt] at h
    cases hc : root.child? k with
    | none => simp [hc] at h
    | some x =>
      simp [hc, Entry.getAt] at h
      subst h
      simpa [PathNamed] using child?_name hc
  | [.input], _, _, _ => by simp [PathNamed]
  | [.output], _, _, _ => by simp [PathNamed]
  | s :: s' :: p, root, n, h => by
    have hl : PathNamed (s :: s' :: p) n = PathNamed (s' :: p) n := by
      simp [PathNamed, List.getLast?_cons_cons]
    rw [hl]
    cases s with
    | child k =>
      simp only [Entry.getAt] at h
      cases hc : root.child? k with
      | none => simp [hc] at h
      | some x => simp [hc] at h; exact pathNamed_of_getAt (s' :: p) x n h
    | input =>
      simp only [Entry.getAt] at h
      cases hc : root.inp.head? with
      | none => simp [hc] at h
      | some x => simp [hc] at h; exact pathNamed_of_getAt (s' :: p) x n h
    | output =>
      simp only [Entry.getAt] at h
      cases hc : root.out.head? with
      | none => simp [hc] at h
      | some x => simp [hc] at h; exact pathNamed_of_getAt (s' :: p) x n h

theorem applyOneDeviate_untouched (opts : Opts) (ms : Stmt) (kind : String) (spec : Entry) (hp : Bool) (node : Entry) :
    untouched (applyOneDeviate opts ms kind spec hp node).1 = untouched node := by
  rw [applyOneDeviate_eq_staged]; exact staged_untouched opts ms kind spec hp node

theorem applyOneDeviate_name (opts : Opts) (ms : Stmt) (kind : String) (spec : Entry) (hp : Bool) (node : Entry) :
    (applyOneDeviate opts ms kind spec hp node).1.name = node.name := by
  have := applyOneDeviate_untouched opts ms kind spec hp node
  simp only [untouched, Prod.mk.injEq] at this
  exact this.2.2.2.1

/-- Only a node that has a parent is ever removed. -/
theorem applyOneDeviate_remove (opts : Opts) (ms : Stmt) (kind : String) (spec : Entry) (hp : Bool) (node : Entry)
    (h : (applyOneDeviate opts ms kind spec hp node).2.1 = true) : hp = true ∧ opts.ignoreNotSupported = false := by
  rw [applyOneDeviate_eq_staged] at h
  unfold staged at h
  cases hk : kindOf kind with
  | add | replace =>
    simp only [hk, addReplace] at h
    repeat' split at h
    all_goals simp at h
  | delete =>
    simp only [hk] at h
    rw [delete_eq] at h
    simp only [] at h
    repeat' split at h
    all_goals simp at h
  | notSupported =>
    simp only [hk, notSupported] at h
    cases hp <;> simp_all
  | other => simp [hk] at h


/-! #### one deviation: frame and target -/

/-- The forest after one deviate statement. -/
theorem innerStep_forest (opts : Opts) (m : Mod) (t : Nat) (path : Path) (f : Forest) (node : Entry) (detached : Bool)
    (errs : List Err) (ds : String × Entry) :
    (innerStep opts m t path (f, node, detached, errs) ds).1 =
      (if detached then f else
        match f.tree? t with
        | none => f
        | some root =>
          let r := applyOneDeviate opts m.stmt ds.1 ds.2 (!path.isEmpty) node
          f.setTree t (if r.2.1 then removeAt (root.updateAt path fun _ => r.1) path else root.updateAt path fun _ => r.1)) := rfl

/-- **Frame of one deviate statement**: any location in another tree, or in the target's tree but
neither the target nor below it, shows the same data afterwards. -/
theorem innerStep_frame (opts : Opts) (m : Mod) (t : Nat) (path : Path) (acc : Forest × Entry × Bool × List Err)
    (ds : String × Entry) (hn : PathNamed path acc.2.1) (t' : Nat) (q : Path) (hq : t' ≠ t ∨ ¬ path <+: q) :
    obs (innerStep opts m t path acc ds).1 t' q = obs acc.1 t' q := by
  obtain ⟨f, node, detached, errs⟩ := acc
  rw [innerStep_forest]
  cases detached with
  | true => rfl
  | false =>
    simp only [Bool.false_eq_true, if_false]
    cases hroot : f.tree? t with
    | none => rfl
    | some root =>
      simp only []
      by_cases ht : t' = t
      · subst ht
        have hq' : ¬ path <+: q := by
          rcases hq with h | h
          · exact absurd rfl h
          · exact h
        have hst : NameStable path (fun _ => (applyOneDeviate opts m.stmt ds.1 ds.2 (!path.isEmpty) node).1) := by
          apply NameStable.of_pathNamed
          unfold PathNamed at hn ⊢
          split
          · next k hk => rw [hk] at hn; rw [applyOneDeviate_name]; exact hn
          · trivial
        unfold obs
        rw [tree?_setTree_same f t' _ root hroot, hroot]
        simp only [Option.bind_some]
        split
        · rw [getAt_removeAt_frame _ path q hq', getAt_updateAt_frame _ path q hst root hq']
        · rw [getAt_updateAt_frame _ path q hst root hq']
      · unfold obs
        rw [tree?_setTree_other f t t' _ ht]

theorem innerFold_frame (opts : Opts) (m : Mod) (t : Nat) (path : Path) (ds : List (String × Entry)) :
    ∀ (acc : Forest × Entry × Bool × List Err), PathNamed path acc.2.1 →
      ∀ (t' : Nat) (q : Path), (t' ≠ t ∨ ¬ path <+: q) →
      obs (ds.foldl (innerStep opts m t path) acc).1 t' q = obs acc.1 t' q := by
  induction ds with
  | nil => intros; rfl
  | cons d ds ih =>
    intro acc hn t' q hq
    simp only [List.foldl_cons]
    rw [ih _ _ t' q hq, innerStep_frame opts m t path acc d hn t' q hq]
    -- the node handed on keeps its name
    rw [innerStep_node]
    unfold PathNamed at hn ⊢
    split
    · next k hk =>
      rw [hk] at hn
      show (applyOneDeviate opts m.stmt d.1 d.2 (!path.isEmpty) acc.2.1).1.name = k
      rw [applyOneDeviate_name]; exact hn
    · trivial

/-- The state of the target while the deviate statements of a deviation are applied: as long as no
not-supported has unlinked it, the tree holds the current node at the target location; afterwards
neither the target nor anything below it exists. -/
def TargetInv (t : Nat) (path : Path) (acc : Forest × Entry × Bool × List Err) : Prop :=
  (acc.2.2.1 = false → (acc.1.tree? t).bind (·.getAt path) = some acc.2.1) ∧
  (acc.2.2.1 = true → ∀ r, (acc.1.tree? t).bind (·.getAt (path ++ r)) = none)

theorem innerStep_target (opts : Opts) (m : Mod) (t : Nat) (path : Path) (acc : Forest × Entry × Bool × List Err)
    (ds : String × Entry) (hn : PathNamed path acc.2.1) (h : TargetInv t path acc) :
    TargetInv t path (innerStep opts m t path acc ds) := by
  obtain ⟨f, node, detached, errs⟩ := acc
  obtain ⟨h1, h2⟩ := h
  simp only at h1 h2
  have hnode := innerStep_node opts m t path (f, node, detached, errs) ds
  have hf := innerStep_forest opts m t path f node detached errs ds
  cases detached with
  | true =>
    refine ⟨fun hd => ?_, fun _ => ?_⟩
    · rw [hnode] at hd; simp [nodeStep] at hd
    · rw [hf]; exact h2 rfl
  | false =>
    have h1' := h1 rfl
    cases hroot : f.tree? t with
    | none => simp [hroot] at h1'
    | some root =>
      rw [hroot] at h1'
      simp only [Option.bind_some] at h1'
      have hst : NameStable path (fun _ => (applyOneDeviate opts m.stmt ds.1 ds.2 (!path.isEmpty) node).1) := by
        apply NameStable.of_pathNamed
        unfold PathNamed at hn ⊢
        split
        · next k hk => rw [hk] at hn; rw [applyOneDeviate_name]; exact hn
        · trivial
      simp only [Bool.false_eq_true, if_false, hroot] at hf
      refine ⟨fun hd => ?_, fun hd => ?_⟩
      · rw [hnode] at hd ⊢
        simp only [nodeStep, Bool.false_or] at hd ⊢
        rw [hf, hd, tree?_setTree_same f t _ root hroot]
        simp only [Bool.false_eq_true, if_false, Option.bind_some]
        rw [getAt_updateAt_self _ path hst root, h1']; rfl
      · rw [hnode] at hd
        simp only [nodeStep, Bool.false_or] at hd
        intro r
        rw [hf, hd, tree?_setTree_same f t _ root hroot]
        simp only [if_true, Option.bind_some]
        have hp := (applyOneDeviate_remove _ _ _ _ _ _ hd).1
        exact getAt_removeAt_gone _ path (by intro he; simp [he] at hp) r


theorem nodeStep_name (opts : Opts) (ms : Stmt) (hp : Bool) (acc : Entry × Bool × List Err) (ds : String × Entry) :
    (nodeStep opts ms hp acc ds).1.name = acc.1.name := applyOneDeviate_name _ _ _ _ _ _

theorem pathNamed_step {path : Path} {n n' : Entry} (h : n'.name = n.name) (hn : PathNamed path n) : PathNamed path n' := by
  unfold PathNamed at hn ⊢
  split
  · next k hk => rw [hk] at hn; rw [h]; exact hn
  · trivial

theorem innerFold_target (opts : Opts) (m : Mod) (t : Nat) (path : Path) (ds : List (String × Entry)) :
    ∀ (acc : Forest × Entry × Bool × List Err), PathNamed path acc.2.1 → TargetInv t path acc →
      TargetInv t path (ds.foldl (innerStep opts m t path) acc) := by
  induction ds with
  | nil => intro acc _ h; exact h
  | cons d ds ih =>
    intro acc hn h
    simp only [List.foldl_cons]
    apply ih
    · rw [innerStep_node]
      exact pathNamed_step (nodeStep_name _ _ _ _ _) hn
    · exact innerStep_target opts m t path acc d hn h

/-- **One deviation, its deviate statements in list order.**  Start: the forest holds `node0` at the
target.  After the inner fold of `applyDeviations` the target holds the result of the left fold of
`applyOneDeviate` over the statements (`nodeFold`) — or, once a not-supported has been applied, neither
the target nor anything below it exists; the errors are those of the statements, in order. -/
theorem innerFold_spec (opts : Opts) (m : Mod) (t : Nat) (path : Path) (ds : List (String × Entry))
    (f : Forest) (node0 : Entry) (errs : List Err) (h0 : (f.tree? t).bind (·.getAt path) = some node0) :
    let r := ds.foldl (innerStep opts m t path) (f, node0, false, errs)
    let n := nodeFold opts m.stmt (!path.isEmpty) (node0, false, errs) ds
    r.2 = n ∧
    (n.2.1 = false → (r.1.tree? t).bind (·.getAt path) = some n.1) ∧
    (n.2.1 = true → ∀ q, (r.1.tree? t).bind (·.getAt (path ++ q)) = none) := by
  intro r n
  have hnode : r.2 = n := innerFold_node opts m t path ds (f, node0, false, errs)
  have hnamed : PathNamed path node0 := by
    cases hroot : f.tree? t with
    | none => simp [hroot] at h0
    | some root => rw [hroot] at h0; exact pathNamed_of_getAt path root node0 h0
  have hinv := innerFold_target opts m t path ds (f, node0, false, errs) hnamed ⟨fun _ => h0, fun h => by simp at h⟩
  refine ⟨hnode, ?_, ?_⟩
  · intro hd
    have := hinv.1 (by rw [show r.2.2.1 = n.2.1 from by rw [hnode]]; exact hd)
    rw [this, show r.2.1 = n.1 from by rw [hnode]]
  · intro hd
    exact hinv.2 (by rw [show r.2.2.1 = n.2.1 from by rw [hnode]]; exact hd)

/-- Written order: a longer list of deviate statements is the shorter one continued. -/
theorem nodeFold_append (opts : Opts) (ms : Stmt) (hp : Bool) (acc : Entry × Bool × List Err) (a b : List (String × Entry)) :
    nodeFold opts ms hp acc (a ++ b) = nodeFold opts ms hp (nodeFold opts ms hp acc a) b := by
  simp [nodeFold, List.foldl_append]

/-- Errors are only ever appended. -/
theorem nodeFold_errs_prefix (opts : Opts) (ms : Stmt) (hp : Bool) (ds : List (String × Entry)) :
    ∀ acc : Entry × Bool × List Err, acc.2.2 <+: (nodeFold opts ms hp acc ds).2.2 := by
  induction ds with
  | nil => intro acc; exact List.prefix_refl _
  | cons d ds ih =>
    intro acc
    simp only [nodeFold, List.foldl_cons]
    exact List.IsPrefix.trans (List.prefix_append _ _) (ih (nodeStep opts ms hp acc d))

/-- A statement that reports makes the deviation report. -/
theorem nodeFold_reports (opts : Opts) (ms : Stmt) (hp : Bool) (acc : Entry × Bool × List Err)
    (pre post : List (String × Entry)) (d : String × Entry)
    (h : (applyOneDeviate opts ms d.1 d.2 hp (nodeFold opts ms hp acc pre).1).2.2 ≠ []) :
    (nodeFold opts ms hp acc (pre ++ d :: post)).2.2 ≠ [] := by
  rw [nodeFold_append]
  simp only [nodeFold, List.foldl_cons]
  have hp' := nodeFold_errs_prefix opts ms hp post (nodeStep opts ms hp (List.foldl (nodeStep opts ms hp) acc pre) d)
  intro hnil
  simp only [nodeFold] at hp'
  rw [hnil] at hp'
  have := List.prefix_nil.mp hp'
  simp only [nodeStep] at this
  simp only [nodeFold] at h
  split at this
  · simp at this
  · simp at this; exact h this.2


/-! #### several statements against `Spec.deviateSeq` -/

/-- The model's state of a target (node, unlinked, errors) and the specification's state agree. -/
def SeqRel (acc : Entry × Bool × List Err) (st : SeqState) : Prop :=
  acc.2.2 = [] ∧ st.node = (if acc.2.1 then none else some (propsOf acc.1)) ∧ unrep st.errs = true ∧ st.unsupported = false

theorem staged_other_errs (opts : Opts) (ms : Stmt) (kind : String) (spec : Entry) (hp : Bool) (node : Entry)
    (hk : kindOf kind = .other) : (staged opts ms kind spec hp node).2.2 ≠ [] := by
  unfold staged; simp [hk]

theorem seqRel_step (opts : Opts) (ms : Stmt) (acc : Entry × Bool × List Err) (st : SeqState) (d : String × Entry)
    (hr : SeqRel acc st) (he : (nodeStep opts ms true acc d).2.2 = []) :
    SeqRel (nodeStep opts ms true acc d) (seqStep opts.ignoreNotSupported st (stmtOf d.1 d.2)) := by
  obtain ⟨node, detached, errs⟩ := acc
  obtain ⟨h1, h2, h3, h4⟩ := hr
  simp only at h1 h2 h3 h4
  subst h1
  simp only [nodeStep, List.nil_append] at he ⊢
  have hstg := applyOneDeviate_eq_staged opts ms d.1 d.2 true node
  cases detached with
  | false =>
    simp only [Bool.and_false, Bool.false_eq_true, if_false, Bool.false_or] at he ⊢
    simp only [Bool.false_eq_true, if_false] at h2
    rw [hstg] at he ⊢
    obtain ⟨hv, hu⟩ := (staged_errs opts ms d.1 d.2 true node (fun _ => rfl)).mp he
    have heff := staged_effect opts ms d.1 d.2 true node he
    refine ⟨he, ?_, ?_, ?_⟩
    · simp only [seqStep, h2]; exact heff
    · simp only [seqStep, h2, unrep_append, h3, hv, Bool.and_self]
    · simp only [seqStep, h2, h4, hu, Bool.or_self]
  | true =>
    simp only [Bool.and_true, Bool.true_or] at he ⊢
    simp only [if_true] at h2
    have hrm : (applyOneDeviate opts ms d.1 d.2 true node).2.1 = false := by
      cases hx : (applyOneDeviate opts ms d.1 d.2 true node).2.1
      · rfl
      · rw [hx] at he; simp at he
    rw [hrm] at he
    simp only [Bool.false_eq_true, if_false] at he
    refine ⟨by rw [hrm]; simpa using he, ?_, ?_, ?_⟩
    · simp [seqStep, h2]
    · simp only [seqStep, h2, unrep_append, h3, Bool.true_and]
      have hk : kindOf d.1 ≠ .other := by
        intro hk; rw [hstg] at he; exact staged_other_errs opts ms d.1 d.2 true node hk he
      simp [unrep, kind_stmtOf, hk, reportedByCode, DevErr.claimed]
    · simp [seqStep, h2, h4]

/-- **Several deviate statements = the specification's left fold.**  When the statements of a
deviation on a target with a parent are applied without an error, the target ends up with exactly
the properties `Spec.deviateSeq` computes from the statements in list order (or removed where it
says removed), and the specification found no broken condition that the code checks. -/
theorem nodeFold_seq (opts : Opts) (ms : Stmt) (ds : List (String × Entry)) :
    ∀ (acc : Entry × Bool × List Err) (st : SeqState), SeqRel acc st →
      (nodeFold opts ms true acc ds).2.2 = [] →
      SeqRel (nodeFold opts ms true acc ds)
        ((ds.map fun d => stmtOf d.1 d.2).foldl (seqStep opts.ignoreNotSupported) st) := by
  induction ds with
  | nil => intro acc st hr _; exact hr
  | cons d ds ih =>
    intro acc st hr he
    simp only [nodeFold, List.foldl_cons, List.map_cons] at he ⊢
    have hpre := nodeFold_errs_prefix opts ms true ds (nodeStep opts ms true acc d)
    simp only [nodeFold] at hpre
    rw [he] at hpre
    exact ih _ _ (seqRel_step opts ms acc st d hr (List.prefix_nil.mp hpre)) he


/-! #### the path lookup only ever adds empty rpc input / output nodes -/

/-- `g` gives the node at `p` an input (output) it did not have and changes nothing else. -/
theorem getAt_updateAt_addIO (root : Entry) (p : Path) (g : Entry → Entry)
    (hd : ∀ e, (g e).d = e.d) (hdir : ∀ e, (g e).dir = e.dir) (e : Entry) (he : root.getAt p = some e)
    (hio : ((g e).out = e.out ∧ e.inp = []) ∨ ((g e).inp = e.inp ∧ e.out = []))
    (q : Path) (dd : EData) (h : (root.getAt q).map (·.d) = some dd) :
    ((root.updateAt p g).getAt q).map (·.d) = some dd := by
  have hst : NameStable p g := NameStable.of_forall fun e => by simp [Entry.name, hd e]
  by_cases hpq : p <+: q
  · obtain ⟨r, rfl⟩ := hpq
    rw [getAt_updateAt_append g p hst root r]
    rw [getAt_append p root r] at h
    rw [he] at h ⊢
    simp only [Option.bind_some, Option.map_some] at h ⊢
    cases r with
    | nil => simpa [Entry.getAt, hd e] using h
    | cons s r =>
      cases s with
      | child k => simpa [Entry.getAt, Entry.child?, hdir e] using h
      | input =>
        rcases hio with ⟨_, hi⟩ | ⟨hi, _⟩
        · simp [Entry.getAt, hi] at h
        · simpa [Entry.getAt, hi] using h
      | output =>
        rcases hio with ⟨ho, _⟩ | ⟨_, ho⟩
        · simpa [Entry.getAt, ho] using h
        · simp [Entry.getAt, ho] at h
  · rw [getAt_updateAt_frame g p q hst root hpq]; exact h

/-- **Frame of the step loop of `Find`**: every location that exists keeps its data. -/
theorem walkParts_frame : ∀ (parts : List String) (root : Entry) (cur : Option Path) (q : Path) (dd : EData),
    (root.getAt q).map (·.d) = some dd → ((walkParts parts root cur).2.getAt q).map (·.d) = some dd
  | [], root, cur, q, dd, h => by simpa [walkParts] using h
  | part :: rest, root, cur, q, dd, h => by
    unfold walkParts
    cases cur with
    | none => simpa using h
    | some p =>
      simp only
      cases he : root.getAt p with
      | none => simpa using h
      | some e =>
        simp only
        split
        · exact walkParts_frame rest root _ q dd h
        · split
          · exact walkParts_frame rest root _ q dd h
          · split
            · split
              · apply walkParts_frame rest _ _ q dd
                split
                · next hemp =>
                  refine getAt_updateAt_addIO root p _ ?_ ?_ e he ?_ q dd h
                  · intro x; cases x; rfl
                  · intro x; cases x; rfl
                  · cases e with
                    | mk d c i o => left; exact ⟨rfl, by simpa [Entry.inp] using hemp⟩
                · exact h
              · split
                · apply walkParts_frame rest _ _ q dd
                  split
                  · next hemp =>
                    refine getAt_updateAt_addIO root p _ ?_ ?_ e he ?_ q dd h
                    · intro x; cases x; rfl
                    · intro x; cases x; rfl
                    · cases e with
                      | mk d c i o => right; exact ⟨rfl, by simpa [Entry.out] using hemp⟩
                  · exact h
                · simpa using h
            · split
              · exact walkParts_frame rest root _ q dd h
              · split
                · simpa using h
                · split
                  · exact walkParts_frame rest root _ q dd h
                  · exact walkParts_frame rest root _ q dd h


theorem obs_setTree_walk (f : Forest) (t : Nat) (root : Entry) (hroot : f.tree? t = some root) (parts : List String)
    (cur : Option Path) (t' : Nat) (q : Path) (dd : EData) (h : obs f t' q = some dd) :
    obs (f.setTree t (walkParts parts root cur).2) t' q = some dd := by
  unfold obs at h ⊢
  by_cases ht : t' = t
  · subst ht
    rw [tree?_setTree_same f t' _ root hroot]
    rw [hroot] at h
    exact walkParts_frame parts root cur q dd h
  · rw [tree?_setTree_other f t t' _ ht]; exact h

/-- Node data with the list of recorded errors blanked: a failed path lookup records an error on the
root entry of the tree it started in (the deviating module's own tree), which nothing reads later. -/
def eraseErr (d : EData) : EData := { d with errors := [] }

/-- What is seen at a location, recorded errors aside. -/
def obsE (f : Forest) (t : Nat) (q : Path) : Option EData := (obs f t q).map eraseErr

theorem obsE_of_obs {f f' : Forest} {t : Nat} {q : Path}
    (h : ∀ dd, obs f t q = some dd → obs f' t q = some dd) (dd : EData) (he : obsE f t q = some dd) :
    obsE f' t q = some dd := by
  unfold obsE at he ⊢
  cases ho : obs f t q with
  | none => simp [ho] at he
  | some d' => rw [h d' ho]; rw [ho] at he; exact he

theorem getAt_withD (e : Entry) (g : EData → EData) (s : Step) (r : Path) : (e.withD g).getAt (s :: r) = e.getAt (s :: r) := by
  cases e; cases s <;> rfl

/-- **Frame of `Find`**: every location of the forest that exists keeps its data (the lookup may
create empty rpc input / output nodes on its way, and a lookup that fails on the prefix records an
error on the root it started from; nothing else). -/
theorem find_frame (reg : Registry) (f : Forest) (start : Loc) (ctx : Nat) (name : String) (t' : Nat) (q : Path) (dd : EData)
    (h : obsE f t' q = some dd) : obsE (find reg f start ctx name).2 t' q = some dd := by
  have hwalk : ∀ (t : Nat) (root : Entry), f.tree? t = some root → ∀ parts cur,
      obsE (f.setTree t (walkParts parts root cur).2) t' q = some dd := fun t root hroot parts cur =>
    obsE_of_obs (fun d' hd => obs_setTree_walk f t root hroot parts cur t' q d' hd) dd h
  unfold find
  split
  · exact h
  · simp only
    split
    · split
      · split
        · next root hroot =>
          simp only
          unfold obsE obs at h ⊢
          by_cases ht : t' = start.1
          · subst ht
            rw [tree?_setTree_same f _ _ root hroot]
            rw [hroot] at h
            cases q with
            | nil =>
              have he : eraseErr (root.addErr (Err.bare "other")).d = eraseErr root.d := by cases root; rfl
              simpa [Entry.getAt, he] using h
            | cons s r => simpa [Entry.addErr, getAt_withD] using h
          · rw [tree?_setTree_other f _ t' _ ht]; exact h
        · exact h
      · split
        · exact h
        · next root hroot => exact hwalk _ root hroot _ _
    · split
      · exact h
      · next root hroot => exact hwalk _ root hroot _ _


/-! #### all deviations of one module -/

/-- The locations the deviation statements of a module resolve to, in the order `applyDeviations`
resolves them (each in the forest the earlier ones left behind). -/
def targetsFrom (reg : Registry) (opts : Opts) (m : Mod) :
    List (Stmt × List (String × Entry)) → Forest × List Err → List Loc
  | [], _ => []
  | dv :: rest, acc =>
    (match (find reg acc.1 (m.seq, []) m.seq dv.1.arg).1 with
      | some loc => [loc]
      | none => []) ++ targetsFrom reg opts m rest (outerStep reg opts m acc dv)

/-- `outerStep` with the lookup result named. -/
theorem outerStep_eq (reg : Registry) (opts : Opts) (m : Mod) (f : Forest) (errs : List Err) (dstmt : Stmt)
    (deviates : List (String × Entry)) :
    outerStep reg opts m (f, errs) (dstmt, deviates) =
      (let r := find reg f (m.seq, []) m.seq dstmt.arg
       match r.1 with
       | none => (r.2, errs ++ [Err.bare "deviate-no-target"])
       | some (t, path) =>
         match (r.2.tree? t).bind (·.getAt path) with
         | none => (r.2, errs ++ [Err.bare "deviate-no-target"])
         | some node0 =>
           let x := deviates.foldl (innerStep opts m t path) (r.2, node0, false, errs)
           (x.1, x.2.2.2)) := by
  unfold outerStep
  generalize hr : find reg f (m.seq, []) m.seq dstmt.arg = r
  obtain ⟨target, f'⟩ := r
  cases target with
  | none => simp only [hr]
  | some loc => obtain ⟨t, path⟩ := loc; simp only [hr]

theorem outerStep_frame (reg : Registry) (opts : Opts) (m : Mod) (acc : Forest × List Err) (dv : Stmt × List (String × Entry))
    (t' : Nat) (q : Path) (dd : EData) (h : obsE acc.1 t' q = some dd)
    (hq : ∀ loc, (find reg acc.1 (m.seq, []) m.seq dv.1.arg).1 = some loc → ¬ (loc.1 = t' ∧ loc.2 <+: q)) :
    obsE (outerStep reg opts m acc dv).1 t' q = some dd := by
  obtain ⟨f, errs⟩ := acc
  obtain ⟨dstmt, deviates⟩ := dv
  rw [outerStep_eq]
  simp only at hq h ⊢
  have hf := find_frame reg f (m.seq, []) m.seq dstmt.arg t' q dd h
  generalize find reg f (m.seq, []) m.seq dstmt.arg = r at hq hf ⊢
  obtain ⟨target, f'⟩ := r
  simp only at hq hf ⊢
  cases target with
  | none => exact hf
  | some loc =>
    obtain ⟨t, path⟩ := loc
    simp only
    cases hn : (f'.tree? t).bind (·.getAt path) with
    | none => exact hf
    | some node0 =>
      simp only
      have hnamed : PathNamed path node0 := by
        cases hroot : f'.tree? t with
        | none => simp [hroot] at hn
        | some root => rw [hroot] at hn; exact pathNamed_of_getAt path root node0 hn
      have hcond : t' ≠ t ∨ ¬ path <+: q := by
        have := hq (t, path) rfl
        by_cases ht : t' = t
        · right; intro hp; exact this ⟨ht.symm, hp⟩
        · left; exact ht
      unfold obsE at hf ⊢
      rw [innerFold_frame opts m t path deviates (f', node0, false, errs) hnamed t' q hcond]
      exact hf

/-- **Frame of all deviations of one module**: a location that exists before and that is neither a
target nor below a target shows the same data afterwards (recorded errors aside). -/
theorem applyDeviations_frame' (reg : Registry) (opts : Opts) (m : Mod) (t' : Nat) (q : Path) (dd : EData) :
    ∀ (devs : List (Stmt × List (String × Entry))) (acc : Forest × List Err),
      obsE acc.1 t' q = some dd →
      (∀ loc ∈ targetsFrom reg opts m devs acc, ¬ (loc.1 = t' ∧ loc.2 <+: q)) →
      obsE (devs.foldl (outerStep reg opts m) acc).1 t' q = some dd := by
  intro devs
  induction devs with
  | nil => intro acc h _; exact h
  | cons dv rest ih =>
    intro acc h hq
    simp only [List.foldl_cons]
    apply ih
    · apply outerStep_frame reg opts m acc dv t' q dd h
      intro loc hloc
      apply hq
      simp only [targetsFrom, hloc, List.mem_append, List.mem_singleton, true_or]
    · intro loc hloc
      apply hq
      simp only [targetsFrom, List.mem_append]
      exact Or.inr hloc

/-! #### what a module's deviations report -/

theorem outerStep_errs_prefix (reg : Registry) (opts : Opts) (m : Mod) (acc : Forest × List Err)
    (dv : Stmt × List (String × Entry)) : acc.2 <+: (outerStep reg opts m acc dv).2 := by
  obtain ⟨f, errs⟩ := acc
  obtain ⟨dstmt, deviates⟩ := dv
  rw [outerStep_eq]
  simp only
  generalize find reg f (m.seq, []) m.seq dstmt.arg = r
  obtain ⟨target, f'⟩ := r
  cases target with
  | none => exact List.prefix_append _ _
  | some loc =>
    obtain ⟨t, path⟩ := loc
    simp only
    cases hn : (f'.tree? t).bind (·.getAt path) with
    | none => exact List.prefix_append _ _
    | some node0 =>
      simp only
      have h1 := innerFold_node opts m t path deviates (f', node0, false, errs)
      rw [show (List.foldl (innerStep opts m t path) (f', node0, false, errs) deviates).2.2.2 =
        (nodeFold opts m.stmt (!path.isEmpty) (node0, false, errs) deviates).2.2 from by rw [h1]]
      exact nodeFold_errs_prefix opts m.stmt _ deviates (node0, false, errs)

theorem outerFold_errs_prefix (reg : Registry) (opts : Opts) (m : Mod) (devs : List (Stmt × List (String × Entry))) :
    ∀ acc : Forest × List Err, acc.2 <+: (devs.foldl (outerStep reg opts m) acc).2 := by
  induction devs with
  | nil => intro acc; exact List.prefix_refl _
  | cons dv rest ih =>
    intro acc
    simp only [List.foldl_cons]
    exact List.IsPrefix.trans (outerStep_errs_prefix reg opts m acc dv) (ih _)

theorem ne_nil_of_prefix {α} {a b : List α} (h : a <+: b) (ha : a ≠ []) : b ≠ [] := by
  intro hb; rw [hb] at h; exact ha (List.prefix_nil.mp h)

/-- A deviation statement that reports makes the module's deviations report. -/
theorem applyDeviations_reports (reg : Registry) (opts : Opts) (m : Mod) (f : Forest)
    (pre post : List (Stmt × List (String × Entry))) (dv : Stmt × List (String × Entry))
    (h : (outerStep reg opts m (pre.foldl (outerStep reg opts m) (f, [])) dv).2 ≠ []) :
    (applyDeviations reg opts m (pre ++ dv :: post) f).2 ≠ [] := by
  rw [applyDeviations_eq, List.foldl_append, List.foldl_cons]
  exact ne_nil_of_prefix (outerFold_errs_prefix reg opts m post _) h

/-- Missing target: the lookup finds nothing (or finds a location that does not exist). -/
theorem outerStep_reports_missing (reg : Registry) (opts : Opts) (m : Mod) (acc : Forest × List Err)
    (dv : Stmt × List (String × Entry))
    (h : ∀ loc, (find reg acc.1 (m.seq, []) m.seq dv.1.arg).1 = some loc →
      ((find reg acc.1 (m.seq, []) m.seq dv.1.arg).2.tree? loc.1).bind (·.getAt loc.2) = none) :
    (outerStep reg opts m acc dv).2 ≠ [] := by
  obtain ⟨f, errs⟩ := acc
  obtain ⟨dstmt, deviates⟩ := dv
  rw [outerStep_eq]
  simp only at h ⊢
  generalize find reg f (m.seq, []) m.seq dstmt.arg = r at h
  obtain ⟨target, f'⟩ := r
  cases target with
  | none => simp
  | some loc =>
    obtain ⟨t, path⟩ := loc
    simp only at h ⊢
    rw [h (t, path) rfl]
    simp

/-- A deviate statement that reports, at its turn, makes its deviation report. -/
theorem outerStep_reports_stmt (reg : Registry) (opts : Opts) (m : Mod) (acc : Forest × List Err) (dstmt : Stmt)
    (pre post : List (String × Entry)) (d : String × Entry) (t : Nat) (path : Path) (node0 : Entry)
    (hfind : (find reg acc.1 (m.seq, []) m.seq dstmt.arg).1 = some (t, path))
    (hnode : ((find reg acc.1 (m.seq, []) m.seq dstmt.arg).2.tree? t).bind (·.getAt path) = some node0)
    (h : (applyOneDeviate opts m.stmt d.1 d.2 (!path.isEmpty)
      (nodeFold opts m.stmt (!path.isEmpty) (node0, false, acc.2) pre).1).2.2 ≠ []) :
    (outerStep reg opts m acc (dstmt, pre ++ d :: post)).2 ≠ [] := by
  obtain ⟨f, errs⟩ := acc
  rw [outerStep_eq]
  simp only at hfind hnode h ⊢
  generalize find reg f (m.seq, []) m.seq dstmt.arg = r at hfind hnode
  obtain ⟨target, f'⟩ := r
  simp only at hfind hnode ⊢
  subst hfind
  simp only [hnode]
  have h1 := innerFold_node opts m t path (pre ++ d :: post) (f', node0, false, errs)
  rw [show (List.foldl (innerStep opts m t path) (f', node0, false, errs) (pre ++ d :: post)).2.2.2 =
    (nodeFold opts m.stmt (!path.isEmpty) (node0, false, errs) (pre ++ d :: post)).2.2 from by rw [h1]]
  exact nodeFold_reports opts m.stmt _ (node0, false, errs) pre post d h


/-! ### the deviation stage of `processAll` -/

/-- The order in which `processAll` visits the modules for their deviations: keys of the module map
in sorted order, then keys of the submodule map. -/
def devOrderOf (reg : Registry) : List Mod :=
  let keys (km : KeyMap) := (sortBy (fun (a b : String × Nat) => a.1 < b.1) km).filterMap fun kv => reg.byId kv.2
  keys reg.modules ++ keys reg.subModules

/-- The deviation statements of a module with the entries of their deviate statements, in written
order (statements with an unknown argument are reported when the module is converted and dropped here). -/
def devsOf (env : Env) (fuel : Nat) (m : Mod) : List (Stmt × List (String × Entry)) :=
  (m.stmt.all "deviation").map fun dv =>
    (dv, (dv.all "deviate").filterMap fun ds =>
      if deviateKinds.contains ds.arg then some (ds.arg, (toEntry env fuel m [dv, m.stmt] ds [] {}).1) else none)

/-- One module's turn (once per module name). -/
def stageStep (reg : Registry) (opts : Opts) (env : Env) (fuel : Nat) (acc : Forest × List Err × List String) (m : Mod) :
    Forest × List Err × List String :=
  if acc.2.2.contains m.name then acc else
  let r := applyDeviations reg opts m (devsOf env fuel m) acc.1
  (r.1, acc.2.1 ++ r.2, acc.2.2 ++ [m.name])

def deviationStage (reg : Registry) (opts : Opts) (env : Env) (fuel : Nat) (f0 : Forest) : Forest × List Err × List String :=
  (devOrderOf reg).foldl (stageStep reg opts env fuel) (f0, [], [])

theorem ne_nil_of_not_isEmpty {α} {l : List α} (h : (!l.isEmpty) = true) : l ≠ [] := by
  intro he; subst he; simp at h

-- (the augment stage is kept folded: nothing here looks inside it)
attribute [local irreducible] augmentPhase in
/-- `processAll` ends early with the errors of the earlier stages, or runs the deviation stage on
the forest the earlier stages built and returns its forest and, canonically ordered, the errors so
far plus those of the deviations. -/
theorem processAll_cases (reg : Registry) (opts : Opts) (plug : Plug) :
    (∃ errs, errs ≠ [] ∧ (processAll reg opts plug).errors = canonErrs errs) ∨
    (∃ (env : Env) (f0 : Forest) (errs0 : List Err), env.reg = reg ∧ env.opts = opts ∧ env.tres = plug.tres ∧
      (processAll reg opts plug).errors = canonErrs (errs0 ++ (deviationStage reg opts env (entryFuel reg) f0).2.1) ∧
      (processAll reg opts plug).forest = (deviationStage reg opts env (entryFuel reg) f0).1) := by
  unfold processAll
  generalize linkAll reg = l
  obtain ⟨linked, lerrs⟩ := l
  simp only []
  split
  · next h => left; exact ⟨_, ne_nil_of_not_isEmpty h, rfl⟩
  · split
    · next h => left; exact ⟨_, ne_nil_of_not_isEmpty h, rfl⟩
    · right
      exact ⟨{ reg := reg, opts := opts, tres := plug.tres, linked := linked }, _, _, rfl, rfl, rfl, rfl, rfl⟩


theorem insertBy_ne_nil {α} (lt : α → α → Bool) (x : α) (l : List α) : insertBy lt x l ≠ [] := by
  cases l with
  | nil => simp [insertBy]
  | cons y ys => unfold insertBy; split <;> simp

theorem canonErrs_ne_nil {es : List Err} (h : es ≠ []) : canonErrs es ≠ [] := by
  cases es with
  | nil => exact absurd rfl h
  | cons a t =>
    unfold canonErrs
    simp only [sortBy, List.foldr_cons]
    generalize hs : insertBy _ a (List.foldr _ [] t) = s
    cases s with
    | nil => exact absurd hs (insertBy_ne_nil _ _ _)
    | cons b u => simp [List.eraseDups_cons]

theorem stageStep_errs_prefix (reg : Registry) (opts : Opts) (env : Env) (fuel : Nat) (acc : Forest × List Err × List String)
    (m : Mod) : acc.2.1 <+: (stageStep reg opts env fuel acc m).2.1 := by
  unfold stageStep
  split
  · exact List.prefix_refl _
  · exact List.prefix_append _ _

theorem stageFold_errs_prefix (reg : Registry) (opts : Opts) (env : Env) (fuel : Nat) (mods : List Mod) :
    ∀ acc : Forest × List Err × List String, acc.2.1 <+: (mods.foldl (stageStep reg opts env fuel) acc).2.1 := by
  induction mods with
  | nil => intro acc; exact List.prefix_refl _
  | cons m rest ih =>
    intro acc
    simp only [List.foldl_cons]
    exact List.IsPrefix.trans (stageStep_errs_prefix reg opts env fuel acc m) (ih _)

theorem stageStep_new (reg : Registry) (opts : Opts) (env : Env) (fuel : Nat) (acc : Forest × List Err × List String) (m : Mod)
    (h : acc.2.2.contains m.name = false) :
    stageStep reg opts env fuel acc m =
      ((applyDeviations reg opts m (devsOf env fuel m) acc.1).1,
       acc.2.1 ++ (applyDeviations reg opts m (devsOf env fuel m) acc.1).2, acc.2.2 ++ [m.name]) := by
  unfold stageStep; rw [if_neg (by rw [h]; simp)]

/-- A module whose deviations report, at its turn, makes the stage report. -/
theorem stage_reports (reg : Registry) (opts : Opts) (env : Env) (fuel : Nat) (f0 : Forest) (pre post : List Mod) (m : Mod)
    (hsplit : devOrderOf reg = pre ++ m :: post)
    (hnew : (pre.foldl (stageStep reg opts env fuel) (f0, [], [])).2.2.contains m.name = false)
    (h : (applyDeviations reg opts m (devsOf env fuel m) (pre.foldl (stageStep reg opts env fuel) (f0, [], [])).1).2 ≠ []) :
    (deviationStage reg opts env fuel f0).2.1 ≠ [] := by
  unfold deviationStage
  rw [hsplit, List.foldl_append, List.foldl_cons]
  apply ne_nil_of_prefix (stageFold_errs_prefix reg opts env fuel post _)
  rw [stageStep_new reg opts env fuel _ m hnew]
  intro he
  exact h (List.append_eq_nil_iff.mp he).2

/-- The targets of the whole stage, module by module, each resolved at its turn. -/
def stageTargets (reg : Registry) (opts : Opts) (env : Env) (fuel : Nat) : List Mod → Forest × List Err × List String → List Loc
  | [], _ => []
  | m :: rest, acc =>
    (if acc.2.2.contains m.name then [] else targetsFrom reg opts m (devsOf env fuel m) (acc.1, [])) ++
      stageTargets reg opts env fuel rest (stageStep reg opts env fuel acc m)

/-- **Frame of the deviation stage.** -/
theorem stage_frame (reg : Registry) (opts : Opts) (env : Env) (fuel : Nat) (t' : Nat) (q : Path) (dd : EData) :
    ∀ (mods : List Mod) (acc : Forest × List Err × List String),
      obsE acc.1 t' q = some dd →
      (∀ loc ∈ stageTargets reg opts env fuel mods acc, ¬ (loc.1 = t' ∧ loc.2 <+: q)) →
      obsE (mods.foldl (stageStep reg opts env fuel) acc).1 t' q = some dd := by
  intro mods
  induction mods with
  | nil => intro acc h _; exact h
  | cons m rest ih =>
    intro acc h hq
    simp only [List.foldl_cons]
    apply ih
    · cases hc : acc.2.2.contains m.name with
      | true => unfold stageStep; simp only [hc, if_true]; exact h
      | false =>
        rw [stageStep_new reg opts env fuel acc m hc, applyDeviations_eq]
        apply applyDeviations_frame' reg opts m t' q dd _ (acc.1, []) h
        intro loc hloc
        apply hq
        simp only [stageTargets, hc, List.mem_append]
        exact Or.inl (by simpa using hloc)
    · intro loc hloc
      apply hq
      simp only [stageTargets, List.mem_append]
      exact Or.inr hloc

/-- A clean `processAll` ran the deviation stage, the stage reported nothing, and the forest
returned is the stage's. -/
theorem processAll_clean (reg : Registry) (opts : Opts) (plug : Plug) (h : (processAll reg opts plug).errors = []) :
    ∃ (env : Env) (f0 : Forest), env.reg = reg ∧ env.opts = opts ∧ env.tres = plug.tres ∧
      (deviationStage reg opts env (entryFuel reg) f0).2.1 = [] ∧
      (processAll reg opts plug).forest = (deviationStage reg opts env (entryFuel reg) f0).1 := by
  rcases processAll_cases reg opts plug with ⟨errs, hne, he⟩ | ⟨env, f0, errs0, h1, h2, h3, he, hf⟩
  · rw [he] at h; exact absurd h (canonErrs_ne_nil hne)
  · refine ⟨env, f0, h1, h2, h3, ?_, hf⟩
    rw [he] at h
    cases hs : (deviationStage reg opts env (entryFuel reg) f0).2.1 with
    | nil => rfl
    | cons a t =>
      rw [hs] at h
      exact absurd h (canonErrs_ne_nil (by simp))


/-! ### errors detected when the deviating module is converted -/

theorem errors_importErrors (e c : Entry) (h : e.d.errors ≠ [] ∨ c.d.errors ≠ []) : (e.importErrors c).d.errors ≠ [] := by
  cases e; cases c
  simp only [Entry.importErrors, Entry.addErrs, Entry.withD, Entry.d] at h ⊢
  intro hn
  simp only [List.append_eq_nil_iff] at hn
  rcases h with h | h
  · exact h hn.1
  · exact h hn.2.1.1.1

theorem errors_addErr (e : Entry) (x : Err) : (e.addErr x).d.errors ≠ [] := by
  cases e; simp [Entry.addErr, Entry.withD, Entry.d]

/-- A fold whose step never loses recorded errors and records one at a bad element ends with errors. -/
theorem foldl_errs_ne_nil {σ} (G : Entry × σ → Stmt → Entry × σ) (bad : Stmt → Prop)
    (hmono : ∀ acc dv, acc.1.d.errors ≠ [] → (G acc dv).1.d.errors ≠ [])
    (hbad : ∀ acc dv, bad dv → (G acc dv).1.d.errors ≠ []) :
    ∀ (l : List Stmt) (acc : Entry × σ), (acc.1.d.errors ≠ [] ∨ ∃ dv ∈ l, bad dv) → (l.foldl G acc).1.d.errors ≠ [] := by
  intro l
  induction l with
  | nil => intro acc h; rcases h with h | ⟨_, h, _⟩; exact h; cases h
  | cons a l ih =>
    intro acc h
    simp only [List.foldl_cons]
    apply ih
    rcases h with h | ⟨dv, hm, hb⟩
    · exact Or.inl (hmono acc a h)
    · rcases List.mem_cons.mp hm with rfl | hm
      · exact Or.inl (hbad acc dv hb)
      · exact Or.inr ⟨dv, hm, hb⟩

/-- **Unknown deviate kind (and any error of a deviate entry) is recorded on the deviation entry.**
Converting a `deviation` statement that has a `deviate` substatement whose argument is not one of
the four kinds, or whose entry carries an error (e.g. a replacement type that does not resolve),
yields an entry with a recorded error — for every fuel, scope and conversion state. -/
theorem toEntry_deviation_errs (env : Env) (fuel : Nat) (root : Mod) (scope : List Stmt) (n : Stmt) (visiting : List NodeId)
    (st : TState) (hkw : n.kw = "deviation")
    (h : ∃ ds ∈ n.all "deviate", deviateKinds.contains ds.arg = false ∨
      ∀ st', (toEntry env (fuel - 1) root (n :: scope) ds visiting st').1.d.errors ≠ []) :
    (toEntry env fuel root scope n visiting st).1.d.errors ≠ [] := by
  cases fuel with
  | zero => simp [toEntry, errorEntry, Entry.d]
  | succ fuel =>
    simp only [Nat.add_sub_cancel] at h
    unfold toEntry
    simp only [hkw]
    simp (config := { decide := true }) only [show ("deviation" == "module") = false by decide,
      show ("deviation" == "submodule") = false by decide,
      show ("deviation" == "grouping") = false by decide, show ("deviation" == "leaf") = false by decide,
      show ("deviation" == "leaf-list") = false by decide, show ("deviation" == "uses") = false by decide,
      show ("deviation" == "list") = false by decide, show ("deviation" == "choice") = false by decide,
      Bool.or_self, Bool.false_eq_true, if_false, fieldOrder, List.foldl_cons, List.foldl_nil, Bool.false_and]
    have hfold := foldl_errs_ne_nil
      (fun (acc : Entry × TState) dv =>
        (if deviateKinds.contains dv.arg = true then
            acc.fst.importErrors (toEntry env fuel root (n :: scope) dv visiting acc.snd).fst
          else
            (acc.fst.importErrors (toEntry env fuel root (n :: scope) dv visiting acc.snd).fst).addErr
              (Err.at_ n "deviate-unknown-kind"),
          (toEntry env fuel root (n :: scope) dv visiting acc.snd).snd))
      (fun ds => deviateKinds.contains ds.arg = false ∨
        ∀ st', (toEntry env fuel root (n :: scope) ds visiting st').1.d.errors ≠ [])
      (by
        intro acc dv hacc
        simp only
        split
        · exact errors_importErrors _ _ (Or.inl hacc)
        · exact errors_addErr _ _)
      (by
        intro acc dv hb
        simp only
        split
        · next hc =>
          rcases hb with hb | hb
          · rw [hb] at hc; cases hc
          · exact errors_importErrors _ _ (Or.inr (hb acc.2))
        · exact errors_addErr _ _)
      (n.all "deviate")
      (Entry.mk { name := n.arg, kind := kindOfKw "deviation", node := n, nodeMod := root.seq, nodeKw := "deviation" } [] [] [], st)
      (Or.inr h)
    split
    · next v => 
      generalize (List.foldl _ _ (n.all "deviate")) = r at hfold ⊢
      obtain ⟨e, s⟩ := r
      cases e; exact hfold
    · exact hfold

end Goyang.Lemmas.Deviate
