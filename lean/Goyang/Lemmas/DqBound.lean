/-
The backslash of the first undefined pair of a double-quoted token of a text lies inside the text:
one step of the tokenizer (`specNext_dq_bound`) and the tokens in front of a lexical failure
(`scanStop_dq_bound`).
-/
import Goyang.Lemmas.FaultNL
import Goyang.Lemmas.LexErrSpec
import Goyang.Lemmas.ListFault

namespace Goyang.Lemmas.DqBound
open Goyang.Spec.Parse Goyang.Spec.Fault Goyang.Lemmas.Scan
open Goyang.Lemmas.FaultNL (scanStop_succ specNext_suffix)
open Goyang.Lemmas.LexErrSpec (escMarks_firstBad escMarks_lt)
open Goyang.Lemmas.ListFault (firstBadOff_eq any_undefined)
open Goyang.Lemmas.ListSrc (firstBadOff)
open Goyang.Lemmas.QStr (validEsc)

/-- the raw text of a double-quoted string read from `r` with an undefined pair: the pair's
backslash stands inside `r` -/
theorem scanDq_undefinedAt_lt (r : List Char) (raw : List QItem) (rest : List Char)
    (hs : scanDq r = some (raw, rest)) (hu : raw.any undefinedPair = true) : undefinedAt raw < r.length := by
  have hall : raw.all validEsc = false := by
    rw [any_undefined] at hu
    cases hv : raw.all validEsc with
    | false => rfl
    | true => rw [hv] at hu; cases hu
  obtain ⟨more, hm⟩ := escMarks_firstBad r.length r (Nat.le_refl _) 0 raw rest hs hall
  have hlt := escMarks_lt 0 r (0 + firstBadOff raw) (by rw [hm]; exact List.mem_cons_self)
  rw [firstBadOff_eq] at hlt
  omega

/-- one step: the token `specNext` hands out -/
theorem specNext_dq_bound (n : Nat) (cs : List Char) (hn : cs.length ≤ n) (x : PTok) (rest : List Char)
    (h : specNext n cs = some (some (x, rest))) (raw : List QItem) (hx : x.tok = .dq raw)
    (hu : hasUndefined x = true) : x.off + 1 + undefinedAt raw < n := by
  unfold specNext at h
  cases hg : skipGround cs with
  | none => rw [hg] at h; simp [specNextG] at h
  | some l =>
    rw [hg] at h
    have hsx := skipGround_suffix cs.length cs (Nat.le_refl _) l hg
    cases l with
    | nil => simp [specNextG] at h
    | cons c r =>
      have hlen : r.length + 1 ≤ n := by
        have := hsx.length_le
        simp only [List.length_cons] at this
        omega
      unfold specNextG at h
      simp only at h
      split at h
      · simp only [Option.some.injEq, Prod.mk.injEq] at h; rw [← h.1] at hx; cases hx
      · split at h
        · simp only [Option.some.injEq, Prod.mk.injEq] at h; rw [← h.1] at hx; cases hx
        · split at h
          · simp only [Option.some.injEq, Prod.mk.injEq] at h; rw [← h.1] at hx; cases hx
          · split at h
            · cases hs : scanSq r with
              | none => simp [hs] at h
              | some p =>
                obtain ⟨s, r'⟩ := p
                simp only [hs, Option.some.injEq, Prod.mk.injEq] at h
                rw [← h.1] at hx; cases hx
            · split at h
              · cases hs : scanDq r with
                | none => simp [hs] at h
                | some p =>
                  obtain ⟨s, r'⟩ := p
                  simp only [hs, Option.some.injEq, Prod.mk.injEq] at h
                  obtain ⟨h1, _⟩ := h
                  subst h1
                  simp only [Tok.dq.injEq] at hx
                  subst hx
                  have hu' : s.any undefinedPair = true := by simpa [hasUndefined] using hu
                  have := scanDq_undefinedAt_lt r s r' hs hu'
                  show n - (r.length + 1) + 1 + undefinedAt s < n
                  omega
              · simp only [Option.some.injEq, Prod.mk.injEq] at h; rw [← h.1] at hx; cases hx

/-- the tokens in front of a lexical failure (or all the tokens) -/
theorem scanStop_dq_bound (n : Nat) : ∀ (f : Nat) (cs : List Char), cs.length ≤ n →
    ∀ x ∈ (scanStop n f cs).1, ∀ raw, x.tok = .dq raw → hasUndefined x = true →
      x.off + 1 + undefinedAt raw < n := by
  intro f
  induction f with
  | zero => intro cs _ x hx; simp [scanStop] at hx
  | succ f ih =>
    intro cs hn x hx raw hr hu
    rw [scanStop_succ] at hx
    cases hs : specNext n cs with
    | none => rw [hs] at hx; simp at hx
    | some o =>
      cases o with
      | none => rw [hs] at hx; simp at hx
      | some p =>
        obtain ⟨t0, r⟩ := p
        rw [hs] at hx
        simp only [List.mem_cons] at hx
        rcases hx with hx | hx
        · subst hx; exact specNext_dq_bound n cs hn x r hs raw hr hu
        · have hle := (specNext_suffix n cs t0 r hs).length_le
          exact ih r (by omega) x hx raw hr hu

end Goyang.Lemmas.DqBound
