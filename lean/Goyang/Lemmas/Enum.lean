/-
Helper lemmas for C14 (core Lean only): the Go fold over enum/bit members simulates the declarative
RFC 7950 assignment of `Goyang.Spec.Enum`.
-/
import Goyang.Model.Enum
import Goyang.Spec.Enum
import Goyang.Lemmas.NumberPrint

namespace Goyang.Lemmas.Enum
open Goyang.Model.Enum
open Goyang.Spec.Enum (Kind nextValue valuesFrom table Valid assign)

theorem nodup_reverse {α : Type} (l : List α) (h : l.Nodup) : l.reverse.Nodup := by
  unfold List.Nodup at h ⊢
  rw [List.pairwise_reverse]
  exact h.imp (fun hab => fun e => hab e.symm)

/-! ### association lists -/

theorem lookup_isSome {α β : Type} [DecidableEq α] (m : List (α × β)) (k : α) :
    (mapGet m k).isSome = true ↔ k ∈ m.map (·.1) := by
  induction m with
  | nil => simp [mapGet]
  | cons p rest ih =>
    obtain ⟨k', v⟩ := p
    unfold mapGet
    by_cases h : k' = k
    · simp [h]
    · simp only [h, if_false, List.map_cons, List.mem_cons]
      rw [ih]
      constructor
      · intro hm; exact Or.inr hm
      · rintro (e | hm)
        · exact absurd e.symm h
        · exact hm

theorem filter_ne_id {α β : Type} [DecidableEq α] (m : List (α × β)) (k : α) (h : k ∉ m.map (·.1)) :
    m.filter (fun p => p.1 ≠ k) = m := by
  apply List.filter_eq_self.mpr
  intro p hp
  have : p.1 ≠ k := by
    intro e; apply h; rw [← e]; exact List.mem_map_of_mem hp
  simpa using this

theorem insert_absent {α β : Type} [DecidableEq α] (m : List (α × β)) (k : α) (v : β) (h : k ∉ m.map (·.1)) :
    mapSet m k v = (k, v) :: m := by
  unfold mapSet; rw [filter_ne_id m k h]

theorem lookup_filter {α β : Type} [DecidableEq α] (m : List (α × β)) (k k' : α) :
    mapGet (m.filter (fun p => p.1 ≠ k)) k' = if k' = k then none else mapGet m k' := by
  induction m with
  | nil => simp [mapGet]
  | cons p rest ih =>
    obtain ⟨a, b⟩ := p
    by_cases ha : a = k
    · have : List.filter (fun p : α × β => decide (p.1 ≠ k)) ((a, b) :: rest) = List.filter (fun p => decide (p.1 ≠ k)) rest := by
        simp [List.filter, ha]
      rw [this, ih]
      by_cases hk : k' = k
      · simp [hk]
      · have : ¬ a = k' := by rw [ha]; exact fun e => hk e.symm
        simp [hk, mapGet, this]
    · have : List.filter (fun p : α × β => decide (p.1 ≠ k)) ((a, b) :: rest) = (a, b) :: List.filter (fun p => decide (p.1 ≠ k)) rest := by
        simp [List.filter, ha]
      rw [this]
      unfold mapGet
      by_cases hak : a = k'
      · have : ¬ k' = k := by rw [← hak]; exact ha
        simp [hak, this]
      · simp only [hak, if_false]; exact ih

theorem lookup_insert {α β : Type} [DecidableEq α] (m : List (α × β)) (k : α) (v : β) (k' : α) :
    mapGet (mapSet m k v) k' = if k = k' then some v else mapGet m k' := by
  simp only [mapSet, mapGet]
  by_cases h : k = k'
  · simp [h]
  · simp only [h, if_false]
    rw [lookup_filter]
    have : ¬ k' = k := fun e => h e.symm
    simp [this]

theorem lookup_of_nodup {α β : Type} [DecidableEq α] (m : List (α × β)) (h : (m.map (·.1)).Nodup) (k : α) (v : β) :
    mapGet m k = some v ↔ (k, v) ∈ m := by
  induction m with
  | nil => simp [mapGet]
  | cons p rest ih =>
    obtain ⟨a, b⟩ := p
    simp only [List.map_cons, List.nodup_cons] at h
    unfold mapGet
    by_cases hak : a = k
    · subst hak
      simp only [if_true, Option.some.injEq, List.mem_cons, Prod.mk.injEq, true_and]
      constructor
      · intro e; exact Or.inl e.symm
      · rintro (e | hm)
        · exact e.symm
        · exfalso; apply h.1; exact List.mem_map_of_mem (f := (·.1)) hm
    · simp only [hak, if_false, List.mem_cons, Prod.mk.injEq]
      rw [ih h.2]
      constructor
      · intro hm; exact Or.inr hm
      · rintro (⟨e, _⟩ | hm)
        · exact absurd e.symm hak
        · exact hm

/-! ### the specification's ingredients -/

def imax (a b : Int) : Int := if a ≤ b then b else a

theorem foldl_imax_bounds (lo hi : Int) : ∀ (vs : List Int) (a : Int), lo ≤ a → a ≤ hi → (∀ v ∈ vs, lo ≤ v ∧ v ≤ hi) →
    lo ≤ vs.foldl (fun a b => if a ≤ b then b else a) a ∧ vs.foldl (fun a b => if a ≤ b then b else a) a ≤ hi
  | [], a, h1, h2, _ => ⟨h1, h2⟩
  | v :: vs, a, h1, h2, hb => by
    have hv := hb v (by simp)
    simp only [List.foldl_cons]
    apply foldl_imax_bounds lo hi vs
    · split <;> omega
    · split <;> omega
    · intro x hx; exact hb x (by simp [hx])

theorem nextValue_bounds (lo hi : Int) (vs : List Int) (hne : vs ≠ []) (hb : ∀ v ∈ vs, lo ≤ v ∧ v ≤ hi) :
    lo + 1 ≤ nextValue vs ∧ nextValue vs ≤ hi + 1 := by
  cases vs with
  | nil => exact absurd rfl hne
  | cons v vs =>
    have hv := hb v (by simp)
    have := foldl_imax_bounds lo hi vs v hv.1 hv.2 (fun x hx => hb x (by simp [hx]))
    unfold nextValue; simp only; omega

theorem nextValue_snoc (vs : List Int) (v : Int) (hne : vs ≠ []) :
    nextValue (vs ++ [v]) = (if nextValue vs - 1 ≤ v then v else nextValue vs - 1) + 1 := by
  cases vs with
  | nil => exact absurd rfl hne
  | cons a vs =>
    unfold nextValue
    simp only [List.cons_append, List.foldl_append, List.foldl_cons, List.foldl_nil]
    have : (1 + List.foldl (fun a b => if a ≤ b then b else a) a vs - 1) = List.foldl (fun a b => if a ≤ b then b else a) a vs := by omega
    rw [this]; omega

theorem valid_snoc (k : Kind) (tbl : List (Name × Int)) (name : Name) (v : Int) :
    Valid k (tbl ++ [(name, v)]) ↔
      (Valid k tbl ∧ name ∉ tbl.map (·.1) ∧ (k.uniqueValues = true → v ∉ tbl.map (·.2)) ∧ k.min ≤ v ∧ v ≤ k.max) := by
  unfold Valid
  simp only [List.map_append, List.map_cons, List.map_nil, List.nodup_append, List.nodup_cons, List.not_mem_nil,
    not_false_eq_true, List.nodup_nil, and_self, List.mem_cons, or_false, true_and, ne_eq, forall_eq, List.mem_append]
  constructor
  · rintro ⟨⟨h1, h2⟩, h3, h4⟩
    refine ⟨⟨h1, fun hu => (h3 hu).1, fun p hp => h4 p (Or.inl hp)⟩, ?_, ?_, ?_⟩
    · intro hm; exact h2 name hm rfl
    · intro hu hm; exact (h3 hu).2 v hm rfl
    · exact h4 (name, v) (Or.inr rfl)
  · rintro ⟨⟨h1, h2, h3⟩, h4, h5, h6⟩
    refine ⟨⟨h1, ?_⟩, ?_, ?_⟩
    · intro a ha e; subst e; exact h4 ha
    · intro hu; exact ⟨h2 hu, fun a ha e => by subst e; exact h5 hu ha⟩
    · rintro p (hp | hp)
      · exact h3 p hp
      · subst hp; exact h6

theorem valid_prefix (k : Kind) (a b : List (Name × Int)) (h : Valid k (a ++ b)) : Valid k a := by
  unfold Valid at h ⊢
  obtain ⟨h1, h2, h3⟩ := h
  simp only [List.map_append, List.nodup_append] at h1 h2
  exact ⟨h1.1, fun hu => (h2 hu).1, fun p hp => h3 p (List.mem_append.mpr (Or.inl hp))⟩

/-! ### the simulation relation -/

/-- the Go state `e` holds exactly the table `tbl` (members in written order) of a type of kind `k` -/
structure Rel (k : Kind) (e : EnumType) (tbl : List (Name × Int)) : Prop where
  hmin : e.min = k.min
  hmax : e.max = k.max
  huniq : e.unique = k.uniqueValues
  toInt : e.toInt = tbl.reverse
  valid : Valid k tbl
  keys : ∀ v, (mapGet e.toString v).isSome = true ↔ v ∈ tbl.map (·.2)
  inv : k.uniqueValues = true → e.toString = (tbl.map fun p => (p.2, p.1)).reverse
  last : tbl ≠ [] → e.last + 1 = nextValue (tbl.map (·.2))

def new (k : Kind) : EnumType :=
  match k with
  | .enumeration => newEnumType
  | .bits => newBitfield

theorem rel_new (k : Kind) : Rel k (new k) [] := by
  cases k <;>
  exact { hmin := rfl, hmax := rfl, huniq := rfl, toInt := rfl,
          valid := ⟨List.nodup_nil, fun _ => List.nodup_nil, fun p hp => by simp at hp⟩,
          keys := fun v => by simp [new, newEnumType, newBitfield, mapGet],
          inv := fun _ => rfl, last := fun h => absurd rfl h }

theorem kind_bounds (k : Kind) : -2147483648 ≤ k.min ∧ k.max ≤ 4294967295 := by
  cases k <;> simp [Kind.min, Kind.max]

/-- `Set` succeeds exactly when the extended table is valid, and then holds the extended table -/
theorem set_spec (k : Kind) (e : EnumType) (tbl : List (Name × Int)) (name : Name) (v : Int) (R : Rel k e tbl) :
    (Valid k (tbl ++ [(name, v)]) → ∃ e', e.set name v = .ok e' ∧ Rel k e' (tbl ++ [(name, v)])) ∧
    (¬ Valid k (tbl ++ [(name, v)]) → ∃ err, e.set name v = .error err) := by
  have hname : (mapGet e.toInt name).isSome = true ↔ name ∈ tbl.map (·.1) := by
    rw [lookup_isSome, R.toInt]; simp
  rw [valid_snoc]
  unfold EnumType.set
  by_cases h1 : (mapGet e.toInt name).isSome = true
  · simp only [h1, if_true]
    exact ⟨fun hv => absurd (hname.mp h1) hv.2.1, fun _ => ⟨_, rfl⟩⟩
  · simp only [h1, Bool.false_eq_true, if_false]
    have hn : name ∉ tbl.map (·.1) := fun hm => h1 (hname.mpr hm)
    by_cases h2 : (e.unique && (mapGet e.toString v).isSome) = true
    · simp only [h2, if_true]
      simp only [Bool.and_eq_true] at h2
      refine ⟨fun hv => ?_, fun _ => ⟨_, rfl⟩⟩
      exact absurd ((R.keys v).mp h2.2) (hv.2.2.1 (by rw [← R.huniq]; exact h2.1))
    · simp only [h2, Bool.false_eq_true, if_false]
      have hu : k.uniqueValues = true → v ∉ tbl.map (·.2) := by
        intro hu hm
        apply h2
        simp only [Bool.and_eq_true]
        exact ⟨by rw [R.huniq]; exact hu, (R.keys v).mpr hm⟩
      by_cases h3 : v < e.min
      · simp only [h3, if_true]
        exact ⟨fun hv => by rw [R.hmin] at h3; omega, fun _ => ⟨_, rfl⟩⟩
      · simp only [h3, if_false]
        by_cases h4 : v > e.max
        · simp only [h4, if_true]
          exact ⟨fun hv => by rw [R.hmax] at h4; omega, fun _ => ⟨_, rfl⟩⟩
        · simp only [h4, if_false]
          rw [R.hmin] at h3; rw [R.hmax] at h4
          have hV : Valid k (tbl ++ [(name, v)]) := (valid_snoc k tbl name v).mpr ⟨R.valid, hn, hu, by omega, by omega⟩
          refine ⟨fun _ => ⟨_, rfl, ?_⟩, fun hnv => absurd ⟨R.valid, hn, hu, by omega, by omega⟩ hnv⟩
          have hti : mapSet e.toInt name v = (tbl ++ [(name, v)]).reverse := by
            rw [insert_absent _ _ _ (by rw [R.toInt]; simpa using hn), R.toInt]; simp
          refine { hmin := R.hmin, hmax := R.hmax, huniq := R.huniq, toInt := hti, valid := hV, keys := ?_, inv := ?_, last := ?_ }
          · intro v'
            simp only [lookup_insert, List.map_append, List.map_cons, List.map_nil, List.mem_append, List.mem_singleton]
            by_cases hvv : v = v'
            · simp [hvv]
            · simp only [hvv, if_false]
              rw [R.keys v']
              constructor
              · intro h; exact Or.inl h
              · rintro (h | h)
                · exact h
                · exact absurd h.symm hvv
          · intro hu'
            simp only
            have hab : v ∉ ((tbl.map fun p => (p.2, p.1)).reverse).map (·.1) := by
              simp only [List.map_reverse, List.map_map, List.mem_reverse]
              have := hu hu'
              simpa using this
            rw [R.inv hu', insert_absent _ _ _ hab]
            first | rfl | simp
          · intro _
            simp only
            by_cases ht : tbl = []
            · subst ht
              have : e.toInt.length = 0 := by rw [R.toInt]; rfl
              simp [this, nextValue]; omega
            · have hlen : ¬ e.toInt.length = 0 := by
                rw [R.toInt]; simp; exact ht
              have hl := R.last ht
              have hne : tbl.map (·.2) ≠ [] := by simpa using ht
              simp only [List.map_append, List.map_cons, List.map_nil]
              rw [nextValue_snoc _ _ hne, ← hl]
              simp only [hlen, decide_false, Bool.false_or, decide_eq_true_eq]
              have e1 : e.last + 1 - 1 = e.last := by omega
              rw [e1]

/-- `SetNext` is `Set` with the automatic value of the specification -/
theorem setNext_spec (k : Kind) (e : EnumType) (tbl : List (Name × Int)) (name : Name) (R : Rel k e tbl) :
    (Valid k (tbl ++ [(name, nextValue (tbl.map (·.2)))]) →
      ∃ e', e.setNext name = .ok e' ∧ Rel k e' (tbl ++ [(name, nextValue (tbl.map (·.2)))])) ∧
    (¬ Valid k (tbl ++ [(name, nextValue (tbl.map (·.2)))]) → ∃ err, e.setNext name = .error err) := by
  unfold EnumType.setNext
  by_cases ht : tbl = []
  · subst ht
    have : e.toInt.length = 0 := by rw [R.toInt]; rfl
    simp only [this, if_true]
    exact set_spec k e [] name 0 R
  · have hlen : ¬ e.toInt.length = 0 := by rw [R.toInt]; simp; exact ht
    simp only [hlen, if_false]
    have hl := R.last ht
    have hne : tbl.map (·.2) ≠ [] := by simpa using ht
    have hb := nextValue_bounds k.min k.max (tbl.map (·.2)) hne (by
      intro v hv
      simp only [List.mem_map] at hv
      obtain ⟨p, hp, rfl⟩ := hv
      exact R.valid.2.2 p hp)
    have hk := kind_bounds k
    by_cases hmx : e.last = e.max
    · simp only [hmx, if_true]
      refine ⟨fun hv => ?_, fun _ => ⟨_, rfl⟩⟩
      have := ((valid_snoc k tbl name _).mp hv).2.2.2
      rw [← hl, hmx, R.hmax] at this; omega
    · simp only [hmx, if_false]
      have hw : Goyang.Model.Number.toI64 (Goyang.Model.Number.toU64 (e.last + 1)) = e.last + 1 := by
        apply Goyang.Lemmas.Number.toI64_toU64
        · have : (Goyang.Model.Number.H : Int) = 9223372036854775808 := rfl
          omega
        · have : (Goyang.Model.Number.H : Int) = 9223372036854775808 := rfl
          omega
      rw [hw, hl]
      exact set_spec k e tbl name _ R

/-! ### the fold -/

/-- a member given by name and optional (already parsed) value -/
def toMember (p : Name × Option Int) : Member :=
  { name := p.1, val := match p.2 with | none => .implicit | some i => .explicit i }

/-- the value the specification gives the next member -/
def valueOf (vals : List Int) (ov : Option Int) : Int :=
  match ov with
  | some i => i
  | none => nextValue vals

theorem step_spec (k : Kind) (e : EnumType) (tbl : List (Name × Int)) (p : Name × Option Int) (R : Rel k e tbl) :
    (Valid k (tbl ++ [(p.1, valueOf (tbl.map (·.2)) p.2)]) →
      ∃ e', e.step (toMember p) = .ok e' ∧ Rel k e' (tbl ++ [(p.1, valueOf (tbl.map (·.2)) p.2)])) ∧
    (¬ Valid k (tbl ++ [(p.1, valueOf (tbl.map (·.2)) p.2)]) → ∃ err, e.step (toMember p) = .error err) := by
  obtain ⟨name, ov⟩ := p
  cases ov with
  | none => exact setNext_spec k e tbl name R
  | some i => exact set_spec k e tbl name i R

theorem valuesFrom_cons (vals : List Int) (ov : Option Int) (rest : List (Option Int)) :
    valuesFrom vals (ov :: rest) = valueOf vals ov :: valuesFrom (vals ++ [valueOf vals ov]) rest := by
  cases ov <;> rfl

/-- the table the specification builds on top of `tbl` -/
def extend (tbl : List (Name × Int)) (ms : List (Name × Option Int)) : List (Name × Int) :=
  tbl ++ (ms.map (·.1)).zip (valuesFrom (tbl.map (·.2)) (ms.map (·.2)))

theorem extend_cons (tbl : List (Name × Int)) (p : Name × Option Int) (rest : List (Name × Option Int)) :
    extend tbl (p :: rest) = extend (tbl ++ [(p.1, valueOf (tbl.map (·.2)) p.2)]) rest := by
  unfold extend
  simp only [List.map_cons, valuesFrom_cons, List.zip_cons_cons, List.map_append, List.map_nil, List.append_assoc,
    List.singleton_append]

/-- simulation: starting from a state holding `tbl`, the Go fold reports no error iff the extended table
    is valid, and then holds exactly the extended table -/
theorem fold_sim (k : Kind) : ∀ (ms : List (Name × Option Int)) (e : EnumType) (tbl : List (Name × Int)) (idx : Nat),
    Rel k e tbl →
    (Valid k (extend tbl ms) →
      (foldFrom e idx (ms.map toMember)).2 = [] ∧ Rel k (foldFrom e idx (ms.map toMember)).1 (extend tbl ms)) ∧
    (¬ Valid k (extend tbl ms) → (foldFrom e idx (ms.map toMember)).2 ≠ [])
  | [], e, tbl, idx, R => by
    simp only [extend, List.map_nil, valuesFrom, List.zip_nil_right, List.append_nil, foldFrom]
    exact ⟨fun _ => ⟨trivial, R⟩, fun h => absurd R.valid h⟩
  | p :: rest, e, tbl, idx, R => by
    rw [extend_cons]
    have hs := step_spec k e tbl p R
    simp only [List.map_cons, foldFrom]
    by_cases hV : Valid k (tbl ++ [(p.1, valueOf (tbl.map (·.2)) p.2)])
    · obtain ⟨e', he', R'⟩ := hs.1 hV
      rw [he']
      exact fold_sim k rest e' _ (idx + 1) R'
    · obtain ⟨err, herr⟩ := hs.2 hV
      rw [herr]
      refine ⟨fun hv => absurd (valid_prefix k _ _ (by unfold extend at hv; exact hv)) hV, fun _ => ?_⟩
      simp

/-- any sequence of calls (failing ones skipped) leads to a state that holds some valid table -/
theorem step_rel (k : Kind) (e e' : EnumType) (m : Member) (h : ∃ tbl, Rel k e tbl) (hs : e.step m = .ok e') :
    ∃ tbl, Rel k e' tbl := by
  obtain ⟨tbl, R⟩ := h
  obtain ⟨name, val⟩ := m
  cases val with
  | bad err => simp [EnumType.step] at hs
  | implicit =>
    have hp := step_spec k e tbl (name, none) R
    by_cases hV : Valid k (tbl ++ [(name, valueOf (tbl.map (·.2)) none)])
    · obtain ⟨e'', he'', R'⟩ := hp.1 hV
      have : e.step ⟨name, .implicit⟩ = .ok e'' := he''
      rw [this] at hs; cases hs; exact ⟨_, R'⟩
    · obtain ⟨err, herr⟩ := hp.2 hV
      have : e.step ⟨name, .implicit⟩ = .error err := herr
      rw [this] at hs; cases hs
  | explicit i =>
    have hp := step_spec k e tbl (name, some i) R
    by_cases hV : Valid k (tbl ++ [(name, valueOf (tbl.map (·.2)) (some i))])
    · obtain ⟨e'', he'', R'⟩ := hp.1 hV
      have : e.step ⟨name, .explicit i⟩ = .ok e'' := he''
      rw [this] at hs; cases hs; exact ⟨_, R'⟩
    · obtain ⟨err, herr⟩ := hp.2 hV
      have : e.step ⟨name, .explicit i⟩ = .error err := herr
      rw [this] at hs; cases hs

theorem fold_rel (k : Kind) : ∀ (ms : List Member) (e : EnumType) (idx : Nat), (∃ tbl, Rel k e tbl) →
    ∃ tbl, Rel k (foldFrom e idx ms).1 tbl
  | [], e, idx, h => by simpa [foldFrom] using h
  | m :: rest, e, idx, h => by
    simp only [foldFrom]
    cases hs : e.step m with
    | ok e' => exact fold_rel k rest e' (idx + 1) (step_rel k e e' m h hs)
    | error err => exact fold_rel k rest e (idx + 1) h

/-- a member whose argument did not parse always leaves an error -/
theorem fold_bad (ms : List Member) (e : EnumType) (idx : Nat) (h : ∃ m ∈ ms, ∃ err, m.val = .bad err) :
    (foldFrom e idx ms).2 ≠ [] := by
  induction ms generalizing e idx with
  | nil => obtain ⟨m, hm, _⟩ := h; simp at hm
  | cons m rest ih =>
    simp only [foldFrom]
    cases hs : e.step m with
    | error err => simp
    | ok e' =>
      obtain ⟨m', hm', err, hb⟩ := h
      rcases List.mem_cons.mp hm' with rfl | hr
      · simp [EnumType.step, hb] at hs
      · exact ih e' (idx + 1) ⟨m', hr, err, hb⟩

/-! ### views -/

theorem mem_insertSorted {α : Type} (lt : α → α → Bool) (x y : α) (l : List α) :
    y ∈ insertSorted lt x l ↔ y = x ∨ y ∈ l := by
  induction l with
  | nil => simp [insertSorted]
  | cons a l ih =>
    unfold insertSorted
    split
    · simp only [List.mem_cons, ih]
      constructor
      · rintro (h | h | h)
        · exact Or.inr (Or.inl h)
        · exact Or.inl h
        · exact Or.inr (Or.inr h)
      · rintro (h | h | h)
        · exact Or.inr (Or.inl h)
        · exact Or.inl h
        · exact Or.inr (Or.inr h)
    · simp [List.mem_cons]

theorem mem_sortBy {α : Type} (lt : α → α → Bool) (y : α) (l : List α) : y ∈ sortBy lt l ↔ y ∈ l := by
  induction l with
  | nil => simp [sortBy]
  | cons a l ih =>
    have : sortBy lt (a :: l) = insertSorted lt a (sortBy lt l) := rfl
    rw [this, mem_insertSorted, ih]; simp

/-- in an enumeration the two maps are mutually inverse -/
theorem rel_inverse (e : EnumType) (tbl : List (Name × Int)) (R : Rel .enumeration e tbl) (n : Name) (v : Int) :
    mapGet e.toInt n = some v ↔ mapGet e.toString v = some n := by
  have hv := R.valid
  have hts := R.inv rfl
  have h1 : (e.toInt.map (·.1)).Nodup := by
    rw [R.toInt, List.map_reverse]; exact nodup_reverse _ hv.1
  have h2 : (e.toString.map (·.1)).Nodup := by
    rw [hts, List.map_reverse, List.map_map]
    apply nodup_reverse
    have : ((fun p : Int × Name => p.1) ∘ fun p : Name × Int => (p.2, p.1)) = (fun p : Name × Int => p.2) := rfl
    rw [this]; exact hv.2.1 rfl
  rw [lookup_of_nodup _ h1, lookup_of_nodup _ h2, R.toInt, hts]
  simp only [List.mem_reverse, List.mem_map, Prod.mk.injEq]
  constructor
  · intro h; exact ⟨(n, v), h, rfl, rfl⟩
  · rintro ⟨⟨a, b⟩, h, rfl, rfl⟩; exact h

/-! ### the argument glue (`ParseInt` + `Int()`) and members given as text -/

open Goyang.Spec.Number (Lit inInt64)

/-- the claimed literal form of a value / position argument: `[sign] digits`, no superfluous leading zero -/
def LitForm (l : Lit) : Prop := l.digitsOK ∧ l.ip ≠ [] ∧ l.fp = none ∧ l.noLeadingZero

theorem parseMember_lit (l : Lit) (h : LitForm l) :
    parseMember (some l.render) =
      if inInt64 l.num then .explicit l.num else .bad (if l.mant < 2 ^ 64 then .overflow else .range) := by
  obtain ⟨hd, hip, hfp, hz⟩ := h
  unfold parseMember
  simp only
  rw [Goyang.Lemmas.Number.parseInt_render l hd hip hfp hz]
  unfold Goyang.Spec.Number.parseIntSpec
  have habs : l.num.natAbs = l.mant := by unfold Lit.num; split <;> simp
  by_cases hw : l.mant < 2 ^ 64
  · simp only [hw, if_true]
    rw [Goyang.Lemmas.Number.toInt_eq]
    have hnum : Goyang.Spec.Number.num { value := l.mant, fd := 0, neg := l.neg } = l.num := rfl
    simp only [ne_eq, not_true_eq_false, if_false, hnum]
    by_cases hin : inInt64 l.num <;> simp [hin]
  · simp only [hw, if_false]
    have : ¬ inInt64 l.num := by
      unfold inInt64; omega
    simp [this]

theorem mem_extend_left (tbl : List (Name × Int)) (ms : List (Name × Option Int)) (x : Name × Int) (h : x ∈ tbl) :
    x ∈ extend tbl ms := by
  unfold extend; exact List.mem_append.mpr (Or.inl h)

theorem explicit_mem_extend : ∀ (ms : List (Name × Option Int)) (tbl : List (Name × Int)) (n : Name) (v : Int),
    (n, some v) ∈ ms → (n, v) ∈ extend tbl ms
  | [], _, _, _, h => by simp at h
  | p :: rest, tbl, n, v, h => by
    rw [extend_cons]
    rcases List.mem_cons.mp h with e | hr
    · subst e
      apply mem_extend_left
      simp [valueOf]
    · exact explicit_mem_extend rest _ n v hr

theorem table_eq_extend (ms : List (Name × Option Int)) : table ms = extend [] ms := by
  unfold table extend; simp

/-! ### resuming a fold: calls made on a table that earlier members built -/

theorem foldFrom_cons_ok {e e' : EnumType} {m : Member} (idx : Nat) (rest : List Member) (hs : e.step m = .ok e') :
    foldFrom e idx (m :: rest) = foldFrom e' (idx + 1) rest := by
  rw [foldFrom]; simp only [hs]

theorem foldFrom_cons_err {e : EnumType} {m : Member} {err : EnumErr} (idx : Nat) (rest : List Member)
    (hs : e.step m = .error err) :
    foldFrom e idx (m :: rest) = ((foldFrom e (idx + 1) rest).1, (idx, err) :: (foldFrom e (idx + 1) rest).2) := by
  rw [foldFrom]; simp only [hs]

/-- the member index only labels the errors -/
theorem foldFrom_shift (b : List Member) : ∀ (e : EnumType) (i j : Nat),
    foldFrom e (i + j) b = ((foldFrom e i b).1, (foldFrom e i b).2.map fun p => (p.1 + j, p.2)) := by
  induction b with
  | nil => intro e i j; simp [foldFrom]
  | cons m rest ih =>
    intro e i j
    cases hs : e.step m with
    | ok e' =>
      rw [foldFrom_cons_ok _ _ hs, foldFrom_cons_ok _ _ hs, show i + j + 1 = i + 1 + j by omega]
      exact ih e' (i + 1) j
    | error err =>
      rw [foldFrom_cons_err _ _ hs, foldFrom_cons_err _ _ hs, show i + j + 1 = i + 1 + j by omega, ih e (i + 1) j]
      simp

theorem foldFrom_append (b : List Member) : ∀ (a : List Member) (e : EnumType) (idx : Nat),
    foldFrom e idx (a ++ b) =
      ((foldFrom (foldFrom e idx a).1 (idx + a.length) b).1,
       (foldFrom e idx a).2 ++ (foldFrom (foldFrom e idx a).1 (idx + a.length) b).2) := by
  intro a
  induction a with
  | nil => intro e idx; simp [foldFrom]
  | cons m rest ih =>
    intro e idx
    simp only [List.cons_append, List.length_cons]
    cases hs : e.step m with
    | ok e' =>
      rw [foldFrom_cons_ok _ _ hs, foldFrom_cons_ok _ _ hs, ih e' (idx + 1),
        show idx + 1 + rest.length = idx + (rest.length + 1) by omega]
    | error err =>
      rw [foldFrom_cons_err _ _ hs, foldFrom_cons_err _ _ hs, ih e (idx + 1),
        show idx + 1 + rest.length = idx + (rest.length + 1) by omega]
      simp

end Goyang.Lemmas.Enum
