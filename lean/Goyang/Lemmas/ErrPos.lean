/-
C16, second sentence: the first error line of `parseText` on a text is the first error line of
the parser model run over the reference reader's tokens (`first_error`: the simulation of
`Lemmas/Compose.lean` with "both runs have the same first error line" instead of "both have
written an error"), and for a text with a single fault (`Goyang.Spec.Fault.SingleFault`) that line
names the position of the fault, computed from the text alone (`single_fault_first_error`).
-/
import Goyang.Lemmas.Compose
import Goyang.Lemmas.HeadSim
import Goyang.Lemmas.LexHead
import Goyang.Lemmas.ListFault
import Goyang.Lemmas.FaultNL

namespace Goyang.Lemmas.ErrPos
open Goyang.Model.Lex Goyang.Model.Parse Goyang.Model.Utf8
open Goyang.Lemmas.Utf8 Goyang.Lemmas.Lex Goyang.Lemmas.LexSim Goyang.Lemmas.TokSim Goyang.Lemmas.Scan
open Goyang.Lemmas.ParseSim (Mono PR Bad)
open Goyang.Lemmas.HeadSim
open Goyang.Lemmas.ListSrc (LSrc listSource lpull conv tokCode badEsc escErr okTok At)
open Goyang.Lemmas.Compose
open Goyang.Spec.Parse Goyang.Spec.Fault
open Goyang.Lemmas.LexErr Goyang.Lemmas.LexErrSpec Goyang.Lemmas.LexHead Goyang.Lemmas.LexKeepsH
open Goyang.Lemmas.FaultNL Goyang.Lemmas.ListFault

section
variable (text : List Char) (file : List UInt8)

/-- where the tokenizer stops on the whole text -/
def stopOf : Option (List Char) := (scanStop text.length (text.length + 1) text).2

/-- the tokens of the reference reader from `suf` on, as a token source; at an unterminated quote
or comment it reports the line `lexErr` computes (outside pattern mode) -/
def srcOfH (g : Nat) (suf : List Char) : LSrc :=
  { text := text, file := file, toks := (scanStop text.length g suf).1, errs := [],
    tail := (scanStop text.length g suf).2.bind (lexErr text file false) }

/-- the lexer stands between two tokens before `suf` and the list holds the tokens of `suf`;
or both are at the end -/
def RH (l : Lexer) (s : LSrc) : Prop :=
  (∃ pre suf g, text = pre ++ suf ∧ Gnd file l pre suf ∧ EndsNL suf ∧ suf.length + 1 ≤ g ∧
      (scanStop text.length g suf).2 = stopOf text ∧ s = srcOfH text file g suf) ∨
  (l.state = .done ∧ Ready file l ∧ s = { text := text, file := file, toks := [], errs := [], tail := none })

/-- where the tokenizer stops, pattern mode makes no difference to the line that is due (that is:
an unterminated double-quoted string does not also contain an undefined backslash pair) -/
def TailStable : Prop := ∀ suf, stopOf text = some suf → lexErr text file true suf = lexErr text file false suf

theorem skipErrors_head_after (F : Nat) (l : Lexer) (e : ErrLine) (h : (nextToken l).2.errout.head? = some e) :
    (skipErrors (F + 1) l).2.errout.head? = some e := by
  unfold skipErrors
  simp only
  split
  · exact h
  · split
    · exact skipErrors_keepsH _ _ _ h
    · exact h

theorem simH (hst : TailStable text file) : HSim lexSource listSource (RH text file) (fun _ => True) := by
  refine ⟨?_, ?_, ?_⟩
  · intro l s h
    rcases h with ⟨pre, suf, g, _, hg, _, _, _, hs⟩ | ⟨_, hr, hs⟩
    · exact ⟨hg.ready.errout, by rw [hs]; rfl⟩
    · exact ⟨hr.errout, by rw [hs]; rfl⟩
  · intro l s h
    rcases h with ⟨pre, suf, g, _, hg, _, _, _, hs⟩ | ⟨_, hr, hs⟩
    · exact ⟨hg.ready.fault, rfl⟩
    · exact ⟨hr.fault, rfl⟩
  · intro b l s h
    have hpull : lexSource.pull b l = skipErrors (l.items.length + l.rest.length + (l.pos - l.start) + 2)
        { l with inPattern := b } := rfl
    obtain ⟨F, hF⟩ : ∃ F, l.items.length + l.rest.length + (l.pos - l.start) + 2 = F + 1 := ⟨_, rfl⟩
    rw [hpull, hF]
    rcases h with ⟨pre, suf, g, ht, hg, hnl, hgl, hstop, hs⟩ | ⟨hst', hr, hs⟩
    · obtain ⟨l', hl'⟩ : ∃ l', l' = ({ l with inPattern := b } : Lexer) := ⟨_, rfl⟩
      rw [← hl']
      have hg' : Gnd file l' pre suf := by
        rw [hl']
        exact ⟨⟨hg.cur.before, hg.cur.rest, hg.cur.line⟩, posN_of_fields hg.posn rfl rfl,
          ⟨hg.ready.items, hg.ready.errout, hg.ready.errcnt, hg.ready.fault, hg.ready.file⟩, hg.state⟩
      have hfu : (encodeChars suf).length + 3 ≤ l'.rest.length + 3 := by rw [hg'.cur.rest]; exact Nat.le_refl _
      have hout := ground_sim text file suf.length suf (Nat.le_refl _) pre l' (l'.rest.length + 3) ht hg' hnl hfu
      have hhead := ground_head text file suf.length suf (Nat.le_refl _) pre l' (l'.rest.length + 3) ht hg' hnl hfu
      have hpat : l'.inPattern = b := by rw [hl']
      rw [hpat] at hout hhead
      obtain ⟨g, rfl⟩ : ∃ g', g = g' + 1 := ⟨g - 1, by omega⟩
      have hlist : listSource.pull b s = lpull b s := rfl
      rw [hlist, hs]
      unfold Outcome at hout
      cases hsn : specNext text.length suf with
      | none =>
        -- a quote or comment that is never closed
        rw [hsn] at hout
        right
        obtain ⟨e0, he0⟩ := lexErr_of_none text file false suf hsn
        have hstop' : stopOf text = some suf := by
          rw [← hstop, scanStop_succ, hsn]
        have heb : lexErr text file b suf = some e0 := by
          cases b with
          | false => exact he0
          | true => rw [hst suf hstop']; exact he0
        refine ⟨e0, ?_, skipErrors_bad_after F l' hout, fun _ => skipErrors_head_after F l' e0 (hhead e0 heb)⟩
        show ((lpull b (srcOfH text file (g + 1) suf)).2.errs).head? = some e0
        unfold lpull srcOfH
        rw [scanStop_succ, hsn]
        simp [he0]
      | some o =>
        cases o with
        | none =>
          -- the end of the text
          rw [hsn] at hout
          obtain ⟨o1, o2, o3, o4⟩ := hout
          left
          have hle : lpull b (srcOfH text file (g + 1) suf) =
              (none, { text := text, file := file, toks := [], errs := [], tail := none }) := by
            unfold lpull srcOfH
            rw [scanStop_succ, hsn]
            simp
          rw [skipErrors_none F l' o1, hle]
          exact ⟨rfl, Or.inr ⟨o2, o3, rfl⟩⟩
        | some p =>
          obtain ⟨t, rest⟩ := p
          rw [hsn] at hout
          simp only at hout
          have hscan : scanStop text.length (g + 1) suf =
              (t :: (scanStop text.length g rest).1, (scanStop text.length g rest).2) := by
            rw [scanStop_succ, hsn]
          rcases hout with ⟨hb, he⟩ | ⟨hb, htok, pre', ht', hlen, hg2, hp2⟩
          · right
            have hle := lexErr_of_badEsc text file b suf t rest hsn hb
            refine ⟨escErr text file t, ?_, skipErrors_bad_after F l' he,
              fun _ => skipErrors_head_after F l' _ (hhead _ hle)⟩
            show ((lpull b (srcOfH text file (g + 1) suf)).2.errs).head? = _
            unfold lpull srcOfH
            rw [hscan]
            simp [hb]
          · left
            have hle : lpull b (srcOfH text file (g + 1) suf) =
                (some (conv text file t), srcOfH text file g rest) := by
              unfold lpull srcOfH
              rw [hscan]
              simp [hb]
            rw [skipErrors_token F l' _ htok (conv_code_ne_error text file t), hle]
            obtain ⟨a, ha, hal⟩ := suffix_of_append_eq pre suf pre' rest (ht.symm.trans ht') hlen
            refine ⟨rfl, Or.inl ⟨pre', rest, g, ht', hg2, ?_, by omega, ?_, rfl⟩⟩
            · rw [ha] at hnl
              exact hnl.suffix
            · rw [← hstop, hscan]
    · -- both are at the end
      obtain ⟨l', hl'⟩ : ∃ l', l' = ({ l with inPattern := b } : Lexer) := ⟨_, rfl⟩
      rw [← hl']
      have hi : l'.items = [] := by rw [hl']; exact hr.items
      have hs' : l'.state = .done := by rw [hl']; exact hst'
      have hnt : nextToken l' = (none, l') := by
        unfold nextToken
        exact nextTokenLoop_done _ l' hi hs'
      left
      rw [skipErrors_none F l' (by rw [hnt]), hnt]
      have hlist : listSource.pull b s = lpull b s := rfl
      rw [hlist, hs]
      refine ⟨rfl, Or.inr ⟨hs', ?_, rfl⟩⟩
      rw [hl']
      exact ⟨hr.items, hr.errout, hr.errcnt, hr.fault, hr.file⟩

end

/-- **the first error line** of `parseText` is the first error line of the parser model over the
reference reader's tokens of the text (with the line feed `newLexer` appends) -/
theorem first_error (file : List UInt8) (t : List Char) (e : ErrLine)
    (hst : TailStable (normText t) file)
    (hlist : HasHead listSource e (topLoop listSource (parseFuel (encodeChars t).length) []
      (initParser (srcOfH (normText t) file ((normText t).length + 1) (normText t)))).2) :
    ∃ msgs, parseText file (encodeChars t) = .rejected msgs ∧ msgs.head? = some e := by
  have hnf := Goyang.Lemmas.Parse.parseText_no_fault file (encodeChars t)
  unfold parseText at hnf ⊢
  rw [newLexer_enc] at hnf ⊢
  obtain ⟨t', ht'⟩ : ∃ t', t' = normText t := ⟨_, rfl⟩
  rw [← ht'] at hst hlist hnf ⊢
  obtain ⟨l0, hl0⟩ : ∃ l0 : Lexer, l0 =
      { errout := [], errcnt := 0, file := file, before := [], rest := encodeChars t', start := 0,
        line := 1, col := 0, inPattern := false, items := [], tcol := 0, scol := 0, sline := 0, state := .ground,
        width := 0, fault := .none } := ⟨_, rfl⟩
  rw [← hl0] at hnf ⊢
  have hR : RH t' file l0 (srcOfH t' file (t'.length + 1) t') := by
    left
    refine ⟨[], t', t'.length + 1, rfl, ?_, by rw [ht']; exact normText_endsNL t, Nat.le_refl _, rfl, rfl⟩
    rw [hl0]
    exact ⟨⟨rfl, rfl, rfl⟩, Pos.posN ⟨rfl, rfl⟩ _, ⟨rfl, rfl, rfl, rfl, rfl⟩, rfl⟩
  have hpr : PR (RH t' file) (initParser l0) (initParser (srcOfH t' file (t'.length + 1) t')) := ⟨hR, rfl, rfl, rfl⟩
  obtain ⟨hbad, hh⟩ := topLoop_head_transfer (simH t' file hst) lexSource_mono lexSource_hmono listSource_hmono
    (parseFuel (encodeChars t).length) [] _ _ hpr e hlist
  have hhead := hh trivial
  obtain ⟨X, hX⟩ : ∃ X, X = topLoop lexSource (parseFuel (encodeChars t).length) [] (initParser l0) := ⟨_, rfl⟩
  rw [← hX] at hbad hhead
  have hne : X.2.src.errout ≠ [] := hbad
  have hchk : checkStatementDepthIsZero lexSource X.2 = X.2 := by
    unfold checkStatementDepthIsZero
    rw [if_pos]
    simp only [Bool.or_eq_true, decide_eq_true_eq]
    left
    intro hc
    exact hne (List.isEmpty_iff.mp hc)
  unfold parseWith at hnf ⊢
  simp only at hnf ⊢
  rw [← hX, hchk] at hnf ⊢
  split
  · rename_i hf; exact (hnf X.2.fault (by rw [if_pos hf])).elim
  · rename_i hf1
    split
    · rename_i hf
      exact (hnf (lexSource.fault X.2.src) (by rw [if_neg hf1, if_pos hf])).elim
    · split
      · rename_i hc; exact absurd (List.isEmpty_iff.mp hc) hne
      · exact ⟨_, rfl, hhead⟩

end Goyang.Lemmas.ErrPos
