/-
C16, second sentence, assembled: for a text with a single lexical or syntactic fault
(`Goyang.Spec.Fault.SingleFault`) the first error line of `parseText` is the line of the fault's
class at the fault's position, computed from the text alone.
`first_error` (lexer/parser model = parser model over the reference reader's tokens, first error
line included) + `stuck_sound_top` (over those tokens the first error line is the one `Stuck` names)
+ the line feed `newLexer` appends changes nothing (`FaultNL`, `LexErrSpec`).
-/
import Goyang.Lemmas.ErrPos
import Goyang.Lemmas.DqBound
import Goyang.Lemmas.StuckOff

namespace Goyang.Lemmas.ErrPosFault
open Goyang.Model.Lex Goyang.Model.Parse Goyang.Model.Utf8
open Goyang.Lemmas.Scan
open Goyang.Lemmas.HeadSim
open Goyang.Lemmas.ListSrc (LSrc listSource okTok At)
open Goyang.Lemmas.Compose
open Goyang.Spec.Parse Goyang.Spec.Fault
open Goyang.Lemmas.LexErr Goyang.Lemmas.LexErrSpec
open Goyang.Lemmas.FaultNL Goyang.Lemmas.ListFault Goyang.Lemmas.ErrPos

/-- what the end of the token list must be like for the line `e` to come first -/
def TailCase (file : List UInt8) (T : List Char) (e : ErrLine) (stop : Option (List Char)) : Where → Prop
  | .fault k off => stop = none ∧ e = faultErr T file k off
  | .endOfTokens => ∃ suf, stop = some suf ∧ lexErr T file false suf = some e ∧ lexErr T file true suf = some e

/-- over the tokens of the text `T` the lexer works on: the first error line of the list run -/
theorem list_head (file : List UInt8) (T : List Char) (e : ErrLine) (w : Where) (toks : List PTok)
    (stop : Option (List Char)) (F : Nat)
    (hscan : scanStop T.length (T.length + 1) T = (toks, stop))
    (hstuck : Stuck T .top toks w) (hok : ∀ x ∈ toks, okTok x) (hfuel : toks.length + 2 ≤ F)
    (hcase : TailCase file T e stop w) :
    HasHead listSource e (topLoop listSource F [] (initParser (srcOfH T file (T.length + 1) T))).2 ∧
    TailStable T file := by
  have hat : At T file (initParser (srcOfH T file (T.length + 1) T)) toks := by
    refine ⟨rfl, ?_, rfl, rfl, rfl, rfl⟩
    show (scanStop T.length (T.length + 1) T).1 = toks
    rw [hscan]
  have hc := stuck_sound_top T file toks w hstuck hok F [] _ hat hfuel
  have htail : (initParser (srcOfH T file (T.length + 1) T)).src.tail = stop.bind (lexErr T file false) := by
    show (scanStop T.length (T.length + 1) T).2.bind _ = _
    rw [hscan]
  cases w with
  | fault k off =>
    obtain ⟨h1, h2⟩ := hcase
    constructor
    · rw [h2]; exact hc (by rw [htail, h1]; rfl)
    · intro suf hs
      unfold stopOf at hs
      rw [hscan, h1] at hs
      cases hs
  | endOfTokens =>
    obtain ⟨suf, h1, h2, h3⟩ := hcase
    constructor
    · exact hc e (by rw [htail, h1]; exact h2)
    · intro suf' hs
      unfold stopOf at hs
      rw [hscan, h1] at hs
      injection hs with hs
      rw [← hs, h2, h3]

theorem scanStop_of_tokenize (T : List Char) (toks : List PTok) (h : tokenize T = some toks) :
    scanStop T.length (T.length + 1) T = (toks, none) := by
  have h1 := tokensAux_scanAll T.length (T.length + 1) T
  unfold tokenize at h
  rw [h] at h1
  cases h2 : (scanAll T.length (T.length + 1) T).2 with
  | false => rw [h2] at h1; simp at h1
  | true =>
    rw [h2] at h1
    simp only [if_true, Option.some.injEq] at h1
    have hs := (scanStop_snd T.length (T.length + 1) T).2 h2
    have hf := scanStop_fst T.length (T.length + 1) T
    exact Prod.ext (by rw [hf, ← h1]) hs

theorem scanStop_length (n : Nat) (f : Nat) (cs : List Char) : (scanStop n f cs).1.length ≤ cs.length := by
  rw [scanStop_fst]; exact scanAll_length n f cs

theorem faultErr_eq_mkErr (text : List Char) (file : List UInt8) (k : FaultKind) (off : Nat) :
    faultErr text file k off = mkErr text file off (faultClass k) := rfl

/-- the line `lexErr` computes at an unterminated quote or comment -/
theorem lexErr_of_opener (t : List Char) (file : List UInt8) (suf : List Char) (k : FaultKind) (off : Nat) (b : Bool)
    (h : OpenerAt t.length suf k off) : lexErr t file b suf = some (faultErr t file k off) := by
  cases k <;> simp only [OpenerAt] at h
  · -- single quote
    obtain ⟨r, h1, h2, h3⟩ := h
    unfold lexErr
    rw [h1]
    simp only [if_true]
    rw [h2, h3]
    rfl
  · -- double quote
    obtain ⟨r, h1, h2, h3, h4⟩ := h
    unfold lexErr
    rw [h1]
    simp only [show ('"' : Char) ≠ '\'' by decide, if_false, if_true]
    rw [← h3, h4, h2]
    cases b <;> rfl
  · -- comment
    obtain ⟨h1, c, h2, h3⟩ := h
    unfold lexErr
    rw [h1]
    simp only
    rw [h2, h3]
    rfl

/-- what the line feed `newLexer` appends leaves as it is -/
structure SameAs (file : List UInt8) (t T : List Char) : Prop where
  toks : (scanStop T.length (T.length + 1) T).1 = (scanStop t.length (t.length + 1) t).1
  stopNone : (scanStop t.length (t.length + 1) t).2 = none → (scanStop T.length (T.length + 1) T).2 = none
  stopSome : ∀ suf, (scanStop t.length (t.length + 1) t).2 = some suf →
    ∃ suf', (scanStop T.length (T.length + 1) T).2 = some suf' ∧ ∀ b, lexErr T file b suf' = lexErr t file b suf
  stuck : ∀ c toks w, (∀ x ∈ toks, x.off ≤ t.length) → Stuck t c toks w → Stuck T c toks w
  err : ∀ k off, off ≤ t.length → faultErr T file k off = faultErr t file k off
  len : T.length ≤ t.length + 1

theorem sameAs_refl (file : List UInt8) (t : List Char) : SameAs file t t :=
  ⟨rfl, fun h => h, fun suf h => ⟨suf, h, fun _ => rfl⟩, fun _ _ _ _ h => h, fun _ _ _ => rfl, Nat.le_succ _⟩

theorem sameAs_nl (file : List UInt8) (t : List Char) : SameAs file t (t ++ ['\n']) := by
  have hlen : (t ++ ['\n']).length = t.length + 1 := by simp
  have hscan : scanStop (t ++ ['\n']).length ((t ++ ['\n']).length + 1) (t ++ ['\n']) =
      ((scanStop t.length (t.length + 1) t).1, (scanStop t.length (t.length + 1) t).2.map (· ++ ['\n'])) := by
    rw [hlen, scanStop_nl, scanStop_fuel t.length (t.length + 1) t (Nat.le_refl _)]
  refine ⟨by rw [hscan], fun h => by rw [hscan, h]; rfl, ?_, ?_, ?_, by rw [hlen]; exact Nat.le_refl _⟩
  · intro suf h
    refine ⟨suf ++ ['\n'], by rw [hscan, h]; rfl, fun b => ?_⟩
    obtain ⟨_, mid, hmid⟩ := scanStop_stop t.length (t.length + 1) t (Nat.le_refl _)
      (scanStop t.length (t.length + 1) t).1 suf (Prod.ext rfl h)
    exact lexErr_nl t file b mid suf hmid
  · intro c toks w hoff h
    exact (stuck_nl t c toks w hoff).1 h
  · intro k off hoff
    rw [faultErr_eq_mkErr, faultErr_eq_mkErr]
    exact mkErr_nl t file off _ hoff

theorem sameAs_norm (file : List UInt8) (t : List Char) : SameAs file t (normText t) := by
  unfold normText
  split
  · exact sameAs_refl file t
  · exact sameAs_nl file t

/-- **C16, second sentence.**  For a text with a single lexical or syntactic fault of kind `k` at
offset `off` — none of the tokens in front of the point where the tokenizer stops being one of the
constructs C02 excludes — `parseText` rejects the text and its first error line is the line of
class `faultClass k` at the line and column, computed from the text alone, of offset `off`. -/
theorem single_fault_first_error (file : List UInt8) (t : List Char) (k : FaultKind) (off : Nat)
    (ha : AdmissibleScan t = true) (h : SingleFault t k off) :
    ∃ msgs, parseText file (encodeChars t) = .rejected msgs ∧ msgs.head? = some (faultErr t file k off) := by
  have hS := sameAs_norm file t
  obtain ⟨T, hT⟩ : ∃ T, T = normText t := ⟨_, rfl⟩
  rw [← hT] at hS
  have hokAll : ∀ x ∈ (scanStop t.length (t.length + 1) t).1, okTok x := by
    intro x hx
    unfold AdmissibleScan at ha
    rw [List.all_eq_true] at ha
    have := ha x hx
    exact okTok_of_not_excluded t x (by simpa using this)
  have hoffs : ∀ x ∈ (scanStop t.length (t.length + 1) t).1, x.off ≤ t.length :=
    scanStop_off t.length (t.length + 1) t
  have hfuel : (scanStop t.length (t.length + 1) t).1.length + 2 ≤ parseFuel (encodeChars t).length := by
    unfold parseFuel
    have h1 := scanStop_length t.length (t.length + 1) t
    have h2 := Goyang.Lemmas.TokSim.encodeChars_length_ge t
    omega
  suffices hs : ∃ (w : Where) (stop : Option (List Char)),
      scanStop T.length (T.length + 1) T = ((scanStop t.length (t.length + 1) t).1, stop) ∧
      Stuck T .top (scanStop t.length (t.length + 1) t).1 w ∧
      TailCase file T (faultErr t file k off) stop w by
    obtain ⟨w, stop, h1, h2, h4⟩ := hs
    obtain ⟨hl, hst⟩ := list_head file T (faultErr t file k off) w _ stop (parseFuel (encodeChars t).length)
      h1 h2 hokAll hfuel h4
    rw [hT] at hl hst
    exact first_error file t _ hst hl
  have hsplit : ∀ (toks : List PTok), tokenize t = some toks → Stuck t .top toks (.fault k off) →
      ∃ (w : Where) (stop : Option (List Char)),
      scanStop T.length (T.length + 1) T = ((scanStop t.length (t.length + 1) t).1, stop) ∧
      Stuck T .top (scanStop t.length (t.length + 1) t).1 w ∧
      TailCase file T (faultErr t file k off) stop w := by
    intro toks htok hst
    have hsc := scanStop_of_tokenize t toks htok
    have htoks : (scanStop t.length (t.length + 1) t).1 = toks := by rw [hsc]
    rw [htoks] at hoffs ⊢
    have hoff : off ≤ t.length := by
      refine Goyang.Lemmas.StuckOff.stuck_off_le t t.length .top toks k off hst hoffs ?_
      intro x hx raw hraw hu
      have := Goyang.Lemmas.DqBound.scanStop_dq_bound t.length (t.length + 1) t (Nat.le_refl _) x
        (by rw [htoks]; exact hx) raw hraw hu
      omega
    refine ⟨.fault k off, none, ?_, hS.stuck .top toks _ hoffs hst, ?_, (hS.err k off hoff).symm⟩
    · exact Prod.ext (by rw [hS.toks, htoks]) (hS.stopNone (by rw [hsc]))
    · exact hS.stopNone (by rw [hsc]) ▸ rfl
  have hopen : (∃ toks suf, scanStop t.length (t.length + 1) t = (toks, some suf) ∧ Stuck t .top toks .endOfTokens ∧
      OpenerAt t.length suf k off) →
      ∃ (w : Where) (stop : Option (List Char)),
      scanStop T.length (T.length + 1) T = ((scanStop t.length (t.length + 1) t).1, stop) ∧
      Stuck T .top (scanStop t.length (t.length + 1) t).1 w ∧
      TailCase file T (faultErr t file k off) stop w := by
    rintro ⟨toks, suf, hsc, hst, hop⟩
    have htoks : (scanStop t.length (t.length + 1) t).1 = toks := by rw [hsc]
    rw [htoks] at hoffs ⊢
    obtain ⟨suf', hs1, hs2⟩ := hS.stopSome suf (by rw [hsc])
    refine ⟨.endOfTokens, some suf', Prod.ext (by rw [hS.toks, htoks]) hs1, hS.stuck .top toks _ hoffs hst,
      suf', rfl, ?_, ?_⟩
    · rw [hs2 false]; exact lexErr_of_opener t file suf k off false hop
    · rw [hs2 true]; exact lexErr_of_opener t file suf k off true hop
  cases k with
  | unexpectedRBrace => obtain ⟨toks, h1, h2⟩ := h; exact hsplit toks h1 h2
  | missingSemi => obtain ⟨toks, h1, h2⟩ := h; exact hsplit toks h1 h2
  | quotedKeyword => obtain ⟨toks, h1, h2⟩ := h; exact hsplit toks h1 h2
  | badEscape => obtain ⟨toks, h1, h2⟩ := h; exact hsplit toks h1 h2
  | unterminatedSQuote => exact hopen h
  | unterminatedDQuote => exact hopen h
  | unterminatedComment => exact hopen h

end Goyang.Lemmas.ErrPosFault
