import Goyang.Model.ErrorSort
import Goyang.Spec.ErrorSort
/-
Lemmas for property C05 about `errorSort` (Model/ErrorSort.lean): Go's string order and `nless`
are what a lexicographic comparison needs (irreflexive, transitive, total, `nless = 0` is a
congruence), hence `less` is a strict total order on messages; what `sort.IsSorted` checks then
extends from neighbours to all pairs; the de-duplication loop turns a weakly sorted list into a
strictly sorted one with the same elements; two strictly sorted lists with the same elements are
equal.  Connection with the independent reading in Spec/ErrorSort.lean.  Core Lean only.
-/
namespace Goyang.Lemmas.ErrorSort
open Goyang.Model.ErrorSort

theorem bytesLt_irrefl (a : Msg) : bytesLt a a = false := by
  induction a with
  | nil => rfl
  | cons x t ih => simp [bytesLt, ih]

theorem bytesLt_trans {a b c : Msg} : bytesLt a b = true → bytesLt b c = true → bytesLt a c = true := by
  induction a generalizing b c with
  | nil =>
    cases b with
    | nil => simp [bytesLt]
    | cons y bs => cases c <;> simp [bytesLt]
  | cons x as ih =>
    cases b with
    | nil => simp [bytesLt]
    | cons y bs =>
      cases c with
      | nil => simp [bytesLt]
      | cons z cs =>
        simp only [bytesLt, Bool.or_eq_true, Bool.and_eq_true, decide_eq_true_eq, beq_iff_eq]
        rintro (h1 | ⟨rfl, h1⟩) (h2 | ⟨rfl, h2⟩)
        · exact Or.inl (UInt8.lt_trans h1 h2)
        · exact Or.inl h1
        · exact Or.inl h2
        · exact Or.inr ⟨rfl, ih h1 h2⟩

theorem bytesLt_total {a b : Msg} : a ≠ b → bytesLt a b = true ∨ bytesLt b a = true := by
  induction a generalizing b with
  | nil => cases b <;> simp [bytesLt]
  | cons x as ih =>
    cases b with
    | nil => simp [bytesLt]
    | cons y bs =>
      intro h
      simp only [bytesLt, Bool.or_eq_true, Bool.and_eq_true, decide_eq_true_eq, beq_iff_eq]
      by_cases hxy : x = y
      · subst hxy
        have : as ≠ bs := fun e => h (by rw [e])
        rcases ih this with h1 | h1
        · exact Or.inl (Or.inr ⟨rfl, h1⟩)
        · exact Or.inr (Or.inr ⟨rfl, h1⟩)
      · rcases UInt8.lt_or_lt_of_ne hxy with h1 | h1
        · exact Or.inl (Or.inl h1)
        · exact Or.inr (Or.inl h1)

theorem bytesLt_asymm {a b : Msg} (h : bytesLt a b = true) : bytesLt b a = false := by
  cases hb : bytesLt b a with
  | false => rfl
  | true => have := bytesLt_trans h hb; rw [bytesLt_irrefl] at this; exact absurd this (by simp)

/-- Equal under neither-less means equal. -/
theorem eq_of_not_bytesLt {a b : Msg} (h1 : bytesLt a b = false) (h2 : bytesLt b a = false) : a = b := by
  by_cases h : a = b
  · exact h
  · rcases bytesLt_total h with h | h <;> simp_all


theorem nless_eq_iff {a b : Msg} : nless a b = .eq ↔
    (∃ n, atoi a = some n ∧ atoi b = some n) ∨ (atoi a = none ∧ atoi b = none ∧ a = b) := by
  unfold nless
  cases ha : atoi a <;> cases hb : atoi b <;> simp
  · constructor
    · intro h
      by_cases h1 : bytesLt a b = true
      · simp [h1] at h
      · by_cases h2 : bytesLt b a = true
        · simp [h1, h2] at h
        · exact eq_of_not_bytesLt (by simpa using h1) (by simpa using h2)
    · rintro rfl; simp [bytesLt_irrefl]
  · constructor
    · intro h; split at h
      · simp at h
      · split at h
        · simp at h
        · omega
    · rintro rfl; simp

theorem nless_lt_iff {a b : Msg} : nless a b = .lt ↔
    (∃ n m, atoi a = some n ∧ atoi b = some m ∧ n < m) ∨ (∃ n, atoi a = some n ∧ atoi b = none) ∨
    (atoi a = none ∧ atoi b = none ∧ bytesLt a b = true) := by
  unfold nless
  cases ha : atoi a <;> cases hb : atoi b
  · by_cases h1 : bytesLt a b = true <;> by_cases h2 : bytesLt b a = true <;> simp [h1, h2]
  · simp
  · simp
  · rename_i x y
    by_cases h1 : x < y <;> by_cases h2 : y < x <;> simp [h1, h2]

theorem nless_self (a : Msg) : nless a a = .eq := by
  rw [nless_eq_iff]
  cases h : atoi a
  · exact Or.inr ⟨rfl, rfl, rfl⟩
  · exact Or.inl ⟨_, rfl, rfl⟩

theorem nless_swap (a b : Msg) : nless b a = (nless a b).swap := by
  unfold nless
  cases ha : atoi a <;> cases hb : atoi b <;> simp
  · by_cases h1 : bytesLt a b = true
    · simp [h1, bytesLt_asymm h1]
    · by_cases h2 : bytesLt b a = true
      · simp [h1, h2]
      · simp [h1, h2]
  · rename_i x y
    by_cases h1 : x < y
    · have : ¬ y < x := by omega
      simp [h1, this]
    · by_cases h2 : y < x
      · simp [h1, h2]
      · simp [h1, h2]

theorem nless_gt_iff {a b : Msg} : nless a b = .gt ↔ nless b a = .lt := by
  rw [nless_swap a b]; cases nless a b <;> simp [Ordering.swap]

theorem nless_eq_comm {a b : Msg} : nless a b = .eq ↔ nless b a = .eq := by
  rw [nless_swap a b]; cases nless a b <;> simp [Ordering.swap]

theorem nless_eq_left {a b : Msg} (h : nless a b = .eq) (c : Msg) : nless a c = nless b c := by
  rcases nless_eq_iff.mp h with ⟨n, ha, hb⟩ | ⟨_, _, rfl⟩
  · unfold nless; rw [ha, hb]; cases atoi c <;> rfl
  · rfl

theorem nless_eq_right {a b : Msg} (h : nless a b = .eq) (c : Msg) : nless c a = nless c b := by
  rw [nless_swap a c, nless_swap b c, nless_eq_left h c]

theorem nless_lt_trans {a b c : Msg} (h1 : nless a b = .lt) (h2 : nless b c = .lt) : nless a c = .lt := by
  rw [nless_lt_iff] at *
  rcases h1 with ⟨n, m, ha, hb, hnm⟩ | ⟨n, ha, hb⟩ | ⟨ha, hb, hab⟩ <;>
  rcases h2 with ⟨m', k, hb', hc, hmk⟩ | ⟨m', hb', hc⟩ | ⟨hb', hc, hbc⟩ <;> simp_all
  · omega
  · exact bytesLt_trans hab hbc


/-! ### the loop and `less` -/

theorem lessLoop_irrefl (s : Msg) (n : Nat) (f : List Msg) : lessLoop s s n f f = false := by
  induction n generalizing f with
  | zero => simp [lessLoop, bytesLt_irrefl]
  | succ n ih =>
    cases f with
    | nil => simp [lessLoop, bytesLt_irrefl]
    | cons a as => simp [lessLoop, nless_self, ih]

theorem lessLoop_total {s t : Msg} (hne : s ≠ t) (n : Nat) (f g : List Msg) :
    lessLoop s t n f g = true ∨ lessLoop t s n g f = true := by
  induction n generalizing f g with
  | zero => simpa [lessLoop] using bytesLt_total hne
  | succ n ih =>
    cases f with
    | nil => cases g with
      | nil => simpa [lessLoop] using bytesLt_total hne
      | cons b bs => simp [lessLoop]
    | cons a as => cases g with
      | nil => simp [lessLoop]
      | cons b bs =>
        simp only [lessLoop]
        cases h : nless a b with
        | lt => simp
        | gt => have := nless_gt_iff.mp h; simp [this]
        | eq => have := nless_eq_comm.mp h; simpa [this] using ih as bs

theorem lessLoop_trans {s t u : Msg} (n : Nat) (f g h : List Msg) :
    lessLoop s t n f g = true → lessLoop t u n g h = true → lessLoop s u n f h = true := by
  induction n generalizing f g h with
  | zero => simpa [lessLoop] using bytesLt_trans
  | succ n ih =>
    cases f with
    | nil => cases g with
      | nil => cases h with
        | nil => simpa [lessLoop] using bytesLt_trans
        | cons c cs => simp [lessLoop]
      | cons b bs => cases h with
        | nil => simp [lessLoop]
        | cons c cs => simp [lessLoop]
    | cons a as => cases g with
      | nil => simp [lessLoop]
      | cons b bs => cases h with
        | nil => simp [lessLoop]
        | cons c cs =>
          simp only [lessLoop]
          cases hab : nless a b with
          | gt => simp
          | lt =>
            cases hbc : nless b c with
            | gt => simp
            | lt => simp [nless_lt_trans hab hbc]
            | eq => have := nless_eq_right hbc a; simp [← this, hab]
          | eq =>
            have e := nless_eq_left hab c
            cases hbc : nless b c with
            | gt => simp
            | lt => simp [e, hbc]
            | eq => simpa [e, hbc] using ih as bs cs

theorem less_def (s t : Msg) : less s t =
    (if bytesLt (fields s).1 (fields t).1 then true
     else if bytesLt (fields t).1 (fields s).1 then false
     else lessLoop s t (errorSplitCount - 1) (fields s).2 (fields t).2) := by
  unfold less
  rcases fields s with ⟨a, as⟩
  rcases fields t with ⟨b, bs⟩
  rfl

theorem less_irrefl (s : Msg) : less s s = false := by
  rw [less_def]; simp [bytesLt_irrefl, lessLoop_irrefl]

theorem less_total {s t : Msg} (hne : s ≠ t) : less s t = true ∨ less t s = true := by
  rw [less_def s t, less_def t s]
  by_cases h1 : bytesLt (fields s).1 (fields t).1 = true
  · simp [h1]
  · by_cases h2 : bytesLt (fields t).1 (fields s).1 = true
    · simp [h2]
    · simpa [h1, h2] using lessLoop_total hne _ _ _

theorem less_trans {s t u : Msg} : less s t = true → less t u = true → less s u = true := by
  rw [less_def s t, less_def t u, less_def s u]
  by_cases h1 : bytesLt (fields s).1 (fields t).1 = true
  · by_cases h2 : bytesLt (fields t).1 (fields u).1 = true
    · simp [bytesLt_trans h1 h2]
    · by_cases h3 : bytesLt (fields u).1 (fields t).1 = true
      · simp [h2, h3]
      · have e := eq_of_not_bytesLt (by simpa using h2) (by simpa using h3)
        intro _ _; rw [← e]; simp [h1]
  · by_cases h1' : bytesLt (fields t).1 (fields s).1 = true
    · simp [h1, h1']
    · have e := eq_of_not_bytesLt (by simpa using h1) (by simpa using h1')
      rw [e]
      by_cases h2 : bytesLt (fields t).1 (fields u).1 = true
      · simp [h2]
      · by_cases h3 : bytesLt (fields u).1 (fields t).1 = true
        · simp [h2, h3]
        · simpa [h2, h3, bytesLt_irrefl] using lessLoop_trans _ _ _ _

theorem less_asymm {s t : Msg} (h : less s t = true) : less t s = false := by
  cases h' : less t s with
  | false => rfl
  | true => have := less_trans h h'; rw [less_irrefl] at this; exact absurd this (by simp)


/-! ### sorting -/

/-- `a` may stand before `b` for `sort.IsSorted`. -/
abbrev le (a b : Msg) : Prop := less b a = false

theorem lt_of_le_of_ne {a b : Msg} (h : le a b) (hne : a ≠ b) : less a b = true := by
  rcases less_total hne with h1 | h1
  · exact h1
  · rw [h] at h1; exact absurd h1 (by simp)

theorem le_of_lt {a b : Msg} (h : less a b = true) : le a b := less_asymm h

theorem le_refl (a : Msg) : le a a := less_irrefl a

theorem lt_of_lt_of_le {a b c : Msg} (h1 : less a b = true) (h2 : le b c) : less a c = true := by
  by_cases e : b = c
  · rw [← e]; exact h1
  · exact less_trans h1 (lt_of_le_of_ne h2 e)

theorem lt_of_le_of_lt {a b c : Msg} (h1 : le a b) (h2 : less b c = true) : less a c = true := by
  by_cases e : a = b
  · rw [e]; exact h2
  · exact less_trans (lt_of_le_of_ne h1 e) h2

theorem le_trans {a b c : Msg} (h1 : le a b) (h2 : le b c) : le a c := by
  by_cases e : a = b
  · rw [e]; exact h2
  · exact le_of_lt (lt_of_lt_of_le (lt_of_le_of_ne h1 e) h2)

theorem le_total (a b : Msg) : le a b ∨ le b a := by
  by_cases h : less a b = true
  · exact Or.inl (le_of_lt h)
  · exact Or.inr (by simpa using h)

/-- What `sort.IsSorted` checks extends from neighbours to all pairs, because `less` is a strict
total order. -/
theorem pairwise_of_adjSorted {p : List Msg} (h : AdjSorted p) : p.Pairwise le := by
  induction p with
  | nil => exact List.Pairwise.nil
  | cons a t ih =>
    cases t with
    | nil => exact List.pairwise_singleton _ _
    | cons b t' =>
      have ⟨hab, ht⟩ : less b a = false ∧ AdjSorted (b :: t') := h
      have ih' := ih ht
      rw [List.pairwise_cons] at ih' ⊢
      refine ⟨?_, List.pairwise_cons.mpr ih'⟩
      intro x hx
      rcases List.mem_cons.mp hx with rfl | hx
      · exact hab
      · exact le_trans hab (ih'.1 x hx)

theorem adjSorted_of_pairwise {p : List Msg} (h : p.Pairwise le) : AdjSorted p := by
  induction p with
  | nil => trivial
  | cons a t ih =>
    cases t with
    | nil => trivial
    | cons b t' =>
      rw [List.pairwise_cons] at h
      exact ⟨h.1 b (List.mem_cons_self ..), ih h.2⟩

theorem ins_perm (x : Msg) (l : List Msg) : (ins x l).Perm (x :: l) := by
  induction l with
  | nil => exact List.Perm.refl _
  | cons y ys ih =>
    unfold ins
    split
    · exact List.Perm.refl _
    · exact (List.Perm.cons y ih).trans (List.Perm.swap x y ys)

theorem isort_perm (l : List Msg) : (isort l).Perm l := by
  induction l with
  | nil => exact List.Perm.refl _
  | cons x t ih => exact (ins_perm x (isort t)).trans (List.Perm.cons x ih)

theorem ins_sorted (x : Msg) {l : List Msg} (h : l.Pairwise le) : (ins x l).Pairwise le := by
  induction l with
  | nil => exact List.pairwise_singleton _ _
  | cons y ys ih =>
    rw [List.pairwise_cons] at h
    unfold ins
    split
    · rename_i hxy
      refine List.pairwise_cons.mpr ⟨?_, List.pairwise_cons.mpr h⟩
      intro z hz
      rcases List.mem_cons.mp hz with rfl | hz
      · exact le_of_lt hxy
      · exact le_of_lt (lt_of_lt_of_le hxy (h.1 z hz))
    · rename_i hxy
      refine List.pairwise_cons.mpr ⟨?_, ih h.2⟩
      intro z hz
      rcases List.mem_cons.mp ((ins_perm x ys).mem_iff.mp hz) with rfl | hz
      · simpa using hxy
      · exact h.1 z hz

theorem isort_sorted (l : List Msg) : (isort l).Pairwise le := by
  induction l with
  | nil => exact List.Pairwise.nil
  | cons x t ih => exact ins_sorted x ih

/-- The de-duplication loop on a weakly sorted list whose elements are not below `last`. -/
theorem dedupFrom_spec (last : Msg) (t : List Msg) (hle : ∀ x ∈ t, le last x) (hs : t.Pairwise le) :
    (∀ y ∈ dedupFrom last t, less last y = true) ∧ (dedupFrom last t).Pairwise (fun a b => less a b = true) ∧
    (∀ y, y ∈ dedupFrom last t ↔ y ∈ t ∧ y ≠ last) := by
  induction t generalizing last with
  | nil => simp [dedupFrom]
  | cons x t ih =>
    rw [List.pairwise_cons] at hs
    unfold dedupFrom
    split
    · rename_i hx
      subst hx
      have := ih x (fun y hy => hle y (List.mem_cons_of_mem _ hy)) hs.2
      refine ⟨this.1, this.2.1, ?_⟩
      intro y; rw [this.2.2 y]; simp only [List.mem_cons]
      constructor
      · rintro ⟨h1, h2⟩; exact ⟨Or.inr h1, h2⟩
      · rintro ⟨h1 | h1, h2⟩
        · exact absurd h1 h2
        · exact ⟨h1, h2⟩
    · rename_i hx
      have hlx : less last x = true := lt_of_le_of_ne (hle x (List.mem_cons_self ..)) (fun e => hx e.symm)
      have := ih x hs.1 hs.2
      refine ⟨?_, List.pairwise_cons.mpr ⟨this.1, this.2.1⟩, ?_⟩
      · intro y hy
        rcases List.mem_cons.mp hy with rfl | hy
        · exact hlx
        · exact less_trans hlx (this.1 y hy)
      · intro y; simp only [List.mem_cons, this.2.2 y]
        constructor
        · rintro (rfl | ⟨h1, h2⟩)
          · exact ⟨Or.inl rfl, hx⟩
          · refine ⟨Or.inr h1, ?_⟩
            rintro rfl
            have := lt_of_lt_of_le hlx (hs.1 y h1)
            rw [less_irrefl] at this; exact absurd this (by simp)
        · rintro ⟨rfl | h1, h2⟩
          · exact Or.inl rfl
          · by_cases e : y = x
            · exact Or.inl e
            · exact Or.inr ⟨h1, e⟩

theorem dedupAdj_spec {p : List Msg} (hs : p.Pairwise le) :
    (dedupAdj p).Pairwise (fun a b => less a b = true) ∧ (∀ y, y ∈ dedupAdj p ↔ y ∈ p) := by
  cases p with
  | nil => simp [dedupAdj]
  | cons x t =>
    rw [List.pairwise_cons] at hs
    have := dedupFrom_spec x t hs.1 hs.2
    refine ⟨List.pairwise_cons.mpr ⟨this.1, this.2.1⟩, ?_⟩
    intro y; simp only [dedupAdj, List.mem_cons, this.2.2 y]
    constructor
    · rintro (h | ⟨h, _⟩)
      · exact Or.inl h
      · exact Or.inr h
    · rintro (h | h)
      · exact Or.inl h
      · by_cases e : y = x
        · exact Or.inl e
        · exact Or.inr ⟨h, e⟩

/-- Two strictly sorted lists with the same elements are the same list. -/
theorem sorted_ext {l₁ l₂ : List Msg} (h₁ : l₁.Pairwise (fun a b => less a b = true))
    (h₂ : l₂.Pairwise (fun a b => less a b = true)) (hm : ∀ x, x ∈ l₁ ↔ x ∈ l₂) : l₁ = l₂ := by
  induction l₁ generalizing l₂ with
  | nil =>
    cases l₂ with
    | nil => rfl
    | cons b t => exact absurd ((hm b).mpr (List.mem_cons_self ..)) (by simp)
  | cons a t₁ ih =>
    cases l₂ with
    | nil => exact absurd ((hm a).mp (List.mem_cons_self ..)) (by simp)
    | cons b t₂ =>
      rw [List.pairwise_cons] at h₁ h₂
      have hab : a = b := by
        by_cases e : a = b
        · exact e
        · have h1 : a ∈ t₂ := by
            rcases List.mem_cons.mp ((hm a).mp (List.mem_cons_self ..)) with h | h
            · exact absurd h e
            · exact h
          have h2 : b ∈ t₁ := by
            rcases List.mem_cons.mp ((hm b).mpr (List.mem_cons_self ..)) with h | h
            · exact absurd h.symm e
            · exact h
          have := less_asymm (h₁.1 b h2)
          rw [h₂.1 a h1] at this; exact absurd this (by simp)
      subst hab
      congr 1
      apply ih h₁.2 h₂.2
      intro x
      constructor
      · intro hx
        rcases List.mem_cons.mp ((hm x).mp (List.mem_cons_of_mem _ hx)) with h | h
        · subst h; have := h₁.1 x hx; rw [less_irrefl] at this; exact absurd this (by simp)
        · exact h
      · intro hx
        rcases List.mem_cons.mp ((hm x).mpr (List.mem_cons_of_mem _ hx)) with h | h
        · subst h; have := h₂.1 x hx; rw [less_irrefl] at this; exact absurd this (by simp)
        · exact h

/-- Every possible result of Go's `errorSort` is strictly sorted and has the elements of the
input. -/
theorem isResult_spec {l r : List Msg} (h : IsResult l r) :
    r.Pairwise (fun a b => less a b = true) ∧ (∀ y, y ∈ r ↔ y ∈ l) := by
  unfold IsResult at h
  split at h
  · subst h; simp
  · subst h; exact ⟨List.pairwise_singleton _ _, fun _ => Iff.rfl⟩
  · obtain ⟨p, hp, hs, rfl⟩ := h
    have := dedupAdj_spec (pairwise_of_adjSorted hs)
    exact ⟨this.1, fun y => (this.2 y).trans hp.mem_iff⟩

theorem errorSort_isResult (l : List Msg) : IsResult l (errorSort l) := by
  match l with
  | [] => rfl
  | [x] => rfl
  | a :: b :: t =>
    exact ⟨isort (a :: b :: t), isort_perm _, adjSorted_of_pairwise (isort_sorted _), rfl⟩


/-! ### connection with the specification -/

theorem bytesLt_iff_lt (a b : Msg) : bytesLt a b = true ↔ a < b := by
  induction a generalizing b with
  | nil => cases b <;> simp [bytesLt, List.not_lt_nil, List.nil_lt_cons]
  | cons x as ih =>
    cases b with
    | nil => simp [bytesLt, List.not_lt_nil]
    | cons y bs =>
      simp only [bytesLt, Bool.or_eq_true, Bool.and_eq_true, decide_eq_true_eq, beq_iff_eq,
        List.cons_lt_cons_iff, ih]

theorem cut_eq_upToColon (m : Msg) : cut m = Spec.ErrorSort.upToColon m := by
  induction m with
  | nil => rfl
  | cons b rest ih =>
    unfold cut Spec.ErrorSort.upToColon
    by_cases h : b = COLON
    · subst h; simp [COLON]
    · have h' : (b != 58) = true := by simpa [COLON] using h
      simp only [h, ↓reduceIte, List.dropWhile_cons, h', List.takeWhile_cons]
      rw [ih]; unfold Spec.ErrorSort.upToColon
      cases hd : List.dropWhile (fun x => x != 58) rest <;> simp

theorem foldl_digits (f : UInt8 → Nat) (s : Msg) (acc : Nat) :
    s.foldl (fun a d => a * 10 + f d) acc = s.foldl (fun a d => 10 * a + f d) acc := by
  induction s generalizing acc with
  | nil => rfl
  | cons d t ih => simp only [List.foldl_cons, ih, Nat.mul_comm]

theorem atoi_of_natOf {s : Msg} {v : Nat} (h : Spec.ErrorSort.natOf? s = some v) : atoi s = some (v : Int) := by
  unfold Spec.ErrorSort.natOf? at h
  split at h
  · rename_i hs
    obtain ⟨hne, hall⟩ := hs
    simp only at h
    split at h
    · rename_i hv
      injection h with h
      cases s with
      | nil => exact absurd rfl hne
      | cons b r =>
        have hb : isDigit b = true := by
          have := List.all_eq_true.mp hall b (List.mem_cons_self ..)
          simpa [isDigit] using this
        have hnm : b ≠ MINUS := by rintro rfl; simp [isDigit, MINUS] at hb
        have hnp : b ≠ PLUS := by rintro rfl; simp [isDigit, PLUS] at hb
        have hall' : (b :: r).all isDigit = true := by
          rw [List.all_eq_true] at hall ⊢
          intro x hx; simpa [isDigit] using hall x hx
        have hval : digitsVal (b :: r) = v := by
          unfold digitsVal; rw [foldl_digits]; exact h
        unfold atoi
        simp only [hnm, hnp, ↓reduceIte, List.isEmpty_cons, Bool.false_eq_true, hall', hval]
        rw [h] at hv
        have : v < 9223372036854775808 := by simpa using hv
        simp [this]
    · simp at h
  · simp at h

theorem fields_of_pos {m : Msg} {p : Spec.ErrorSort.Pos} (h : Spec.ErrorSort.pos? m = some p) :
    ∃ lb cb rest, fields m = (p.file, [lb, cb, rest]) ∧ atoi lb = some (p.line : Int) ∧ atoi cb = some (p.col : Int) := by
  unfold Spec.ErrorSort.pos? at h
  split at h
  · simp at h
  · rename_i f r1 h1
    split at h
    · simp at h
    · rename_i l r2 h2
      split at h
      · simp at h
      · rename_i c r3 h3
        split at h
        · rename_i lv cv hl hc
          injection h with h
          subst h
          refine ⟨l, c, r3, ?_, atoi_of_natOf hl, atoi_of_natOf hc⟩
          rw [← cut_eq_upToColon] at h1 h2 h3
          simp [fields, errorSplitCount, splitMore, h1, h2, h3]
        · simp at h

theorem less_inOrder {a b : Msg} (h : less a b = true) : Spec.ErrorSort.InOrder a b := by
  unfold Spec.ErrorSort.InOrder
  split
  · rename_i pa pb ha hb
    obtain ⟨la, ca, ra, fa, hla, hca⟩ := fields_of_pos ha
    obtain ⟨lb, cb, rb, fb, hlb, hcb⟩ := fields_of_pos hb
    rw [less_def, fa, fb] at h
    unfold Spec.ErrorSort.Pos.le
    by_cases h1 : bytesLt pa.file pb.file = true
    · exact Or.inl ((bytesLt_iff_lt _ _).mp h1)
    · by_cases h2 : bytesLt pb.file pa.file = true
      · simp [h1, h2] at h
      · have e := eq_of_not_bytesLt (by simpa using h1) (by simpa using h2)
        refine Or.inr ⟨e, ?_⟩
        simp only [h1, h2, Bool.false_eq_true, ↓reduceIte, errorSplitCount, Nat.add_one_sub_one, lessLoop] at h
        have nl : nless la lb = (if (pa.line : Int) < pb.line then Ordering.lt else if (pa.line : Int) > pb.line then .gt else .eq) := by
          unfold nless; rw [hla, hlb]
        have nc : nless ca cb = (if (pa.col : Int) < pb.col then Ordering.lt else if (pa.col : Int) > pb.col then .gt else .eq) := by
          unfold nless; rw [hca, hcb]
        rw [nl] at h
        by_cases l1 : (pa.line : Int) < pb.line
        · exact Or.inl (by omega)
        · by_cases l2 : (pa.line : Int) > pb.line
          · simp [l1, l2] at h
          · refine Or.inr ⟨by omega, ?_⟩
            simp only [l1, l2, ↓reduceIte] at h
            rw [nc] at h
            by_cases c1 : (pa.col : Int) < pb.col
            · omega
            · by_cases c2 : (pa.col : Int) > pb.col
              · simp [c1, c2] at h
              · omega
  · trivial

theorem sortedB_iff (l : List Msg) : Spec.ErrorSort.sortedB l = true ↔ Spec.ErrorSort.Sorted l := by
  unfold Spec.ErrorSort.Sorted
  induction l with
  | nil => simp [Spec.ErrorSort.sortedB]
  | cons a t ih =>
    simp only [Spec.ErrorSort.sortedB, Bool.and_eq_true, List.all_eq_true, decide_eq_true_eq, bne_iff_ne, ne_eq, ih,
      List.pairwise_cons, List.nodup_cons]
    constructor
    · rintro ⟨h1, h2, h3⟩
      exact ⟨⟨fun x hx => (h1 x hx).1, h2⟩, fun hm => (h1 a hm).2 rfl, h3⟩
    · rintro ⟨⟨h1, h2⟩, h3, h4⟩
      exact ⟨fun x hx => ⟨h1 x hx, fun e => h3 (e ▸ hx)⟩, h2, h4⟩

end Goyang.Lemmas.ErrorSort
