/-
`scanStop` (the tokens in front of a lexical failure, `Goyang/Spec/Fault.lean`) against `scanAll`,
its fuel, and a line feed appended to the text; `Stuck` depends on the text only through the
positions of the tokens' offsets, so the appended line feed makes no difference to it either.
-/
import Goyang.Spec.Fault
import Goyang.Lemmas.Scan
import Goyang.Lemmas.Newline
import Goyang.Lemmas.ListSrc

namespace Goyang.Lemmas.FaultNL
open Goyang.Spec.Parse Goyang.Spec.Fault Goyang.Lemmas.Scan
open Goyang.Lemmas.ListSrc (argument_suffix stmt_stmts_suffix)
open Goyang.Lemmas.Newline (stmt_stmts_congr take_append_nl)

theorem scanStop_zero (n : Nat) (cs : List Char) : scanStop n 0 cs = ([], some cs) := rfl

theorem scanStop_succ (n f : Nat) (cs : List Char) :
    scanStop n (f + 1) cs =
      match specNext n cs with
      | none => ([], some cs)
      | some none => ([], none)
      | some (some (t, r)) => (t :: (scanStop n f r).1, (scanStop n f r).2) := rfl

theorem scanAll_succ (n f : Nat) (cs : List Char) :
    scanAll n (f + 1) cs =
      match specNext n cs with
      | none => ([], false)
      | some none => ([], true)
      | some (some (t, r)) => (t :: (scanAll n f r).1, (scanAll n f r).2) := rfl

/-- what follows a token is a tail of the text it was read from -/
theorem specNext_suffix (n : Nat) (cs : List Char) (t : PTok) (rest : List Char)
    (h : specNext n cs = some (some (t, rest))) : rest <:+ cs := by
  unfold specNext at h
  cases hg : skipGround cs with
  | none => rw [hg] at h; simp [specNextG] at h
  | some l =>
    rw [hg] at h
    have hsx := skipGround_suffix cs.length cs (Nat.le_refl _) l hg
    cases l with
    | nil => simp [specNextG] at h
    | cons c r =>
      have hr : r <:+ cs := (List.suffix_cons c r).trans hsx
      unfold specNextG at h
      simp only at h
      split at h
      · simp only [Option.some.injEq, Prod.mk.injEq] at h; rw [← h.2]; exact hr
      · split at h
        · simp only [Option.some.injEq, Prod.mk.injEq] at h; rw [← h.2]; exact hr
        · split at h
          · simp only [Option.some.injEq, Prod.mk.injEq] at h; rw [← h.2]; exact hr
          · split at h
            · cases hs : scanSq r with
              | none => simp [hs] at h
              | some p =>
                obtain ⟨s, r'⟩ := p
                simp only [hs, Option.some.injEq, Prod.mk.injEq] at h
                obtain ⟨hsp, _⟩ := scanSq_split r s r' hs
                have : r' <:+ r := ⟨s ++ ['\''], by rw [hsp]; simp⟩
                rw [← h.2]; exact this.trans hr
            · split at h
              · cases hs : scanDq r with
                | none => simp [hs] at h
                | some p =>
                  obtain ⟨s, r'⟩ := p
                  simp only [hs, Option.some.injEq, Prod.mk.injEq] at h
                  have := scanDq_suffix r.length r (Nat.le_refl _) s r' hs
                  rw [← h.2]; exact this.trans hr
              · simp only [Option.some.injEq, Prod.mk.injEq] at h
                rw [← h.2]
                exact (List.dropWhile_suffix _).trans hsx

/-! `scanStop` against `scanAll` -/

theorem scanStop_fst (n : Nat) : ∀ (f : Nat) (cs : List Char), (scanStop n f cs).1 = (scanAll n f cs).1 := by
  intro f
  induction f with
  | zero => intro cs; rfl
  | succ f ih =>
    intro cs
    rw [scanStop_succ, scanAll_succ]
    cases specNext n cs with
    | none => rfl
    | some o =>
      cases o with
      | none => rfl
      | some p =>
        obtain ⟨t, r⟩ := p
        simp only
        rw [ih r]

theorem scanStop_snd (n : Nat) : ∀ (f : Nat) (cs : List Char),
    (scanStop n f cs).2 = none ↔ (scanAll n f cs).2 = true := by
  intro f
  induction f with
  | zero => intro cs; simp [scanStop, scanAll]
  | succ f ih =>
    intro cs
    rw [scanStop_succ, scanAll_succ]
    cases specNext n cs with
    | none => simp
    | some o =>
      cases o with
      | none => simp
      | some p =>
        obtain ⟨t, r⟩ := p
        simp only
        exact ih r

/-- with enough fuel the tokenizer stops where it really fails, and that is a tail of the text it started on -/
theorem scanStop_stop (n : Nat) : ∀ (f : Nat) (cs : List Char), cs.length + 1 ≤ f →
    ∀ (toks : List PTok) (suf : List Char),
    scanStop n f cs = (toks, some suf) → specNext n suf = none ∧ ∃ mid, cs = mid ++ suf := by
  intro f
  induction f with
  | zero => intro cs h; omega
  | succ f ih =>
    intro cs hf toks suf h
    rw [scanStop_succ] at h
    cases hs : specNext n cs with
    | none =>
      rw [hs] at h
      simp only [Prod.mk.injEq, Option.some.injEq] at h
      rw [← h.2]
      exact ⟨hs, [], rfl⟩
    | some o =>
      cases o with
      | none => rw [hs] at h; simp at h
      | some p =>
        obtain ⟨t, r⟩ := p
        rw [hs] at h
        simp only [Prod.mk.injEq] at h
        have hlt := (specNext_lt n cs t r hs).1
        obtain ⟨pre, hpre⟩ := specNext_suffix n cs t r hs
        obtain ⟨h1, mid, hmid⟩ := ih r (by omega) (scanStop n f r).1 suf (Prod.ext rfl h.2)
        refine ⟨h1, pre ++ mid, ?_⟩
        rw [← hpre, hmid]; simp

/-- more fuel than characters changes nothing -/
theorem scanStop_fuel (n : Nat) : ∀ (f : Nat) (cs : List Char), cs.length + 1 ≤ f →
    scanStop n (f + 1) cs = scanStop n f cs := by
  intro f
  induction f with
  | zero => intro cs h; omega
  | succ f ih =>
    intro cs h
    rw [scanStop_succ n (f + 1) cs, scanStop_succ n f cs]
    cases hs : specNext n cs with
    | none => rfl
    | some o =>
      cases o with
      | none => rfl
      | some p =>
        obtain ⟨t, r⟩ := p
        simp only
        have := (specNext_lt n cs t r hs).1
        rw [ih r (by omega)]

/-- a line feed appended to the text -/
theorem scanStop_nl (n : Nat) : ∀ (f : Nat) (cs : List Char),
    scanStop (n + 1) f (cs ++ ['\n']) = ((scanStop n f cs).1, (scanStop n f cs).2.map (· ++ ['\n'])) := by
  intro f
  induction f with
  | zero => intro cs; rfl
  | succ f ih =>
    intro cs
    rw [scanStop_succ, scanStop_succ, specNext_nl]
    cases specNext n cs with
    | none => rfl
    | some o =>
      cases o with
      | none => rfl
      | some p =>
        obtain ⟨t, r⟩ := p
        simp only
        rw [ih r]

/-- offsets of the tokens lie inside the text -/
theorem scanStop_off (n : Nat) : ∀ (f : Nat) (cs : List Char), ∀ t ∈ (scanStop n f cs).1, t.off ≤ n := by
  intro f
  induction f with
  | zero => intro cs t ht; simp [scanStop] at ht
  | succ f ih =>
    intro cs t ht
    rw [scanStop_succ] at ht
    cases hs : specNext n cs with
    | none => rw [hs] at ht; simp at ht
    | some o =>
      cases o with
      | none => rw [hs] at ht; simp at ht
      | some p =>
        obtain ⟨t0, r⟩ := p
        rw [hs] at ht
        simp only [List.mem_cons] at ht
        rcases ht with ht | ht
        · rw [ht]; exact (specNext_lt n cs t0 r hs).2
        · exact ih r t ht

/-! `Stuck` depends on the text only through positions of offsets up to `N` -/

theorem stuck_congr (text1 text2 : List Char) (N : Nat) (hsame : ∀ off, off ≤ N → text1.take off = text2.take off)
    (c : Ctx) (toks : List PTok) (w : Where) (h : Stuck text1 c toks w) (hoff : ∀ t ∈ toks, t.off ≤ N) :
    Stuck text2 c toks w := by
  induction h with
  | rbrace t ts ht => exact .rbrace t ts ht
  | first c t ts w hc ht _ ih => exact .first c t ts w hc ht (ih hoff)
  | later c t ts s rest w hc ht hs _ ih =>
    have hsx := ((stmt_stmts_suffix text1 _).1 _ _ _ hs).1
    rw [(stmt_stmts_congr text1 text2 N hsame _).1 _ hoff] at hs
    exact .later c t ts s rest w hc ht hs (ih (fun x hx => hoff x (hsx.mem hx)))
  | ended c hc => exact .ended c hc
  | keyword t ts hq hu => exact .keyword t ts hq hu
  | escape k kw ts x raw hk hkw hp hx => exact .escape k kw ts x raw hk hkw hp hx
  | noTerm k kw ts arg e rest hk ha h1 h2 h3 =>
    rw [argument_congr text1 text2 N hsame _ ts (fun x hx => hoff x (by simp [hx]))] at ha
    exact .noTerm k kw ts arg e rest hk ha h1 h2 h3
  | argEnds k kw ts hk hr => exact .argEnds k kw ts hk hr
  | block k kw ts arg e rest w hk ha he _ ih =>
    have hsx := argument_suffix text1 _ ts arg (e :: rest) ha
    rw [argument_congr text1 text2 N hsame _ ts (fun x hx => hoff x (by simp [hx]))] at ha
    refine .block k kw ts arg e rest w hk ha he (ih (fun x hx => hoff x ?_))
    exact List.mem_cons_of_mem k (((List.suffix_cons e rest).trans hsx).mem hx)

theorem stuck_nl (text : List Char) (c : Ctx) (toks : List PTok) (w : Where)
    (hoff : ∀ t ∈ toks, t.off ≤ text.length) :
    Stuck text c toks w ↔ Stuck (text ++ ['\n']) c toks w :=
  ⟨fun h => stuck_congr text (text ++ ['\n']) text.length (fun off ho => (take_append_nl text off ho).symm)
      c toks w h hoff,
   fun h => stuck_congr (text ++ ['\n']) text text.length (fun off ho => take_append_nl text off ho)
      c toks w h hoff⟩

end Goyang.Lemmas.FaultNL
