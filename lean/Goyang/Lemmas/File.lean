import Goyang.Model.File
import Goyang.Spec.File
import Goyang.Lemmas.StrOrd
import Goyang.Lemmas.Date
/-
Lemmas for C13 (b): `findInDir` / `findFile` choose what `Spec.File.choose` names.
-/
namespace Goyang.Lemmas.File
open Goyang.Model Goyang.Model.File Goyang.Spec Goyang.Spec.File Goyang.Lemmas.StrOrd

/-! ### prefixes and suffixes -/

theorem stripPrefix?_eq_some : ∀ {p s r : List Char}, stripPrefix? p s = some r ↔ s = p ++ r
  | [], s, r => by simp [stripPrefix?, eq_comm]
  | _ :: _, [], r => by simp [stripPrefix?]
  | a :: p, b :: s, r => by
    simp only [stripPrefix?]
    by_cases h : a = b
    · subst h; simp [stripPrefix?_eq_some (p := p)]
    · simp [h]; intro e; exact absurd e.symm h

theorem stripPrefix?_append (p r : List Char) : stripPrefix? p (p ++ r) = some r :=
  stripPrefix?_eq_some.mpr rfl

theorem trimSuffix_append (m suf : Name) : trimSuffix (m ++ suf) suf = m := by
  unfold trimSuffix
  rw [List.reverse_append, stripPrefix?_append]
  simp

theorem dotYang_eq : dotYang = ".yang".toList := by decide

/-! ### dated candidate names -/

theorem isDigit_eq (c : Char) : File.isDigit c = Spec.isDigit c := rfl

/-- The regular expression, on the remainder after the module name, against the specification's
reading: `@`, a date, `.yang`. -/
theorem matchesRevSuffix_iff (rest : Name) :
    matchesRevSuffix rest = true ↔
      (rest.head? = some '@' ∧ rest.drop 11 = ".yang".toList) ∧
        (parseDate ((rest.drop 1).take 10)).isSome = true := by
  rcases rest with _ | ⟨c0, _ | ⟨y1, _ | ⟨y2, _ | ⟨y3, _ | ⟨y4, _ | ⟨c5, _ | ⟨m1, _ | ⟨m2, _ | ⟨c8, _ | ⟨d1, _ | ⟨d2, tail⟩⟩⟩⟩⟩⟩⟩⟩⟩⟩⟩
  all_goals try (simp [matchesRevSuffix, parseDate]; done)
  simp only [matchesRevSuffix, List.head?_cons, List.drop_succ_cons, List.drop_zero,
    Option.some.injEq, List.take_succ_cons, List.take_zero, parseDate, dotYang_eq, Bool.and_eq_true, beq_iff_eq,
    isDigit_eq, List.all_cons, List.all_nil, Bool.and_true]
  constructor
  · rintro ⟨⟨⟨⟨⟨⟨⟨⟨⟨⟨⟨h0, h1⟩, h2⟩, h3⟩, h4⟩, h5⟩, h6⟩, h7⟩, h8⟩, h9⟩, h10⟩, h11⟩
    refine ⟨⟨h0, h11⟩, ?_⟩
    rw [if_pos ⟨h5, h8, h1, h2, h3, h4, h6, h7, h9, h10⟩]
    rfl
  · rintro ⟨⟨h0, h11⟩, hp⟩
    split at hp
    · rename_i hc
      obtain ⟨h5, h8, h1, h2, h3, h4, h6, h7, h9, h10⟩ := hc
      exact ⟨⟨⟨⟨⟨⟨⟨⟨⟨⟨⟨h0, h1⟩, h2⟩, h3⟩, h4⟩, h5⟩, h6⟩, h7⟩, h8⟩, h9⟩, h10⟩, h11⟩
    · cases hp

/-- The model's test for a dated candidate is the specification's. -/
theorem isRevisionOf_iff (m fn : Name) : isRevisionOf m fn = true ↔ (datedOf m fn).isSome = true := by
  unfold isRevisionOf datedOf
  cases hs : stripPrefix? m fn with
  | none =>
    have hne : ¬ fn.take m.length = m := by
      intro h
      have : fn = m ++ fn.drop m.length := by
        conv => lhs; rw [← List.take_append_drop m.length fn, h]
      rw [stripPrefix?_eq_some.mpr this] at hs; cases hs
    simp [hne]
  | some rest =>
    have hfn := stripPrefix?_eq_some.mp hs
    subst hfn
    have e1 : (m ++ rest).take m.length = m := List.take_left'  rfl
    have e2 : (m ++ rest).drop m.length = rest := List.drop_left' rfl
    simp only [e1, e2, if_true, matchesRevSuffix_iff]
    constructor
    · rintro ⟨h1, h2⟩
      rw [if_pos h1]; exact h2
    · intro h
      split at h
      · rename_i hc; exact ⟨hc, h⟩
      · cases h

/-! ### the latest dated candidate -/

theorem charsLe_refl (a : Name) : charsLe a a = true := by simp [charsLe, charsLt_irrefl]

theorem charsLe_total (a b : Name) : (charsLe a b || charsLe b a) = true := by
  simp only [charsLe, Bool.or_eq_true, Bool.not_eq_true']
  rcases charsLt_total a b with h | h | h
  · exact .inl (charsLt_asymm h)
  · subst h; exact .inl (charsLt_irrefl a)
  · exact .inr (charsLt_asymm h)

theorem charsLe_trans {a b c : Name} (h1 : charsLe a b = true) (h2 : charsLe b c = true) : charsLe a c = true := by
  simp only [charsLe, Bool.not_eq_true'] at *
  rcases charsLt_total a b with h | h | h
  · cases hca : charsLt c a with
    | false => rfl
    | true => have := charsLt_trans hca h; simp [this] at h2
  · subst h; exact h2
  · simp [h] at h1

theorem charsLt_append_right : ∀ {a b : Name} (s : Name), a.length = b.length →
    charsLt (a ++ s) (b ++ s) = charsLt a b
  | [], [], s, _ => by simp [charsLt_irrefl, charsLt]
  | [], _ :: _, _, h => by simp at h
  | _ :: _, [], _, h => by simp at h
  | x :: a, y :: b, s, h => by
    simp only [List.cons_append, charsLt]
    rw [charsLt_append_right s (by simpa using h)]

/-- Shape of a dated candidate name. -/
theorem datedOf_some {m fn : Name} {d : Date} (h : datedOf m fn = some d) :
    ∃ ds, fn = m ++ '@' :: ds ++ ".yang".toList ∧ parseDate ds = some d := by
  unfold datedOf at h
  split at h
  · rename_i htake
    simp only at h
    split at h
    · rename_i hc
      obtain ⟨hhead, hdrop⟩ := hc
      have hfn : fn = m ++ fn.drop m.length := by
        conv => lhs; rw [← List.take_append_drop m.length fn, htake]
      generalize fn.drop m.length = rest at *
      cases rest with
      | nil => simp at hhead
      | cons c r1 =>
        simp only [List.head?_cons, Option.some.injEq] at hhead
        subst hhead
        simp only [List.drop_succ_cons, List.drop_zero] at h hdrop
        refine ⟨r1.take 10, ?_, h⟩
        rw [hfn]
        have : r1 = r1.take 10 ++ r1.drop 10 := (List.take_append_drop 10 r1).symm
        rw [hdrop] at this
        simp only [List.append_assoc, List.cons_append]
        rw [← this]
    · cases h
  · cases h

/-- Byte order of dated candidate names of one module is the order of their dates. -/
theorem charsLt_dated {m fn fn' : Name} {d d' : Date} (h : datedOf m fn = some d) (h' : datedOf m fn' = some d') :
    charsLt fn fn' = d.lt d' := by
  obtain ⟨ds, rfl, hp⟩ := datedOf_some h
  obtain ⟨ds', rfl, hp'⟩ := datedOf_some h'
  have hl : ds.length = ds'.length := by
    obtain ⟨_, _, _, _, _, _, _, _, rfl, _, _⟩ := Goyang.Lemmas.Date.parseDate_some hp
    obtain ⟨_, _, _, _, _, _, _, _, rfl, _, _⟩ := Goyang.Lemmas.Date.parseDate_some hp'
    rfl
  have e : ∀ x : Name, m ++ '@' :: x ++ ".yang".toList = (m ++ ['@']) ++ (x ++ ".yang".toList) := by
    intro x; simp
  rw [e, e, charsLt_append_left, charsLt_append_right _ hl]
  exact Goyang.Lemmas.Date.charsLt_date hp hp'

theorem date_lt_irrefl (d : Date) : d.lt d = false := by simp [Date.lt]

theorem dated_name_eq {m fn fn' : Name} {d : Date} (h : datedOf m fn = some d) (h' : datedOf m fn' = some d) :
    fn = fn' := by
  rcases charsLt_total fn fn' with h1 | h1 | h1
  · rw [charsLt_dated h h', date_lt_irrefl] at h1; cases h1
  · exact h1
  · rw [charsLt_dated h' h, date_lt_irrefl] at h1; cases h1

/-- The last element of a list sorted by `charsLe` is not smaller than any element. -/
theorem getLast?_max {l : List Name} (hs : l.Pairwise fun a b => charsLe a b = true) {x : Name}
    (hx : l.getLast? = some x) : ∀ y ∈ l, charsLe y x = true := by
  obtain ⟨ys, rfl⟩ := List.getLast?_eq_some_iff.mp hx
  rw [List.pairwise_append] at hs
  intro y hy
  rcases List.mem_append.mp hy with hy | hy
  · exact hs.2.2 y hy x (by simp)
  · simp only [List.mem_singleton] at hy; subst hy; exact charsLe_refl _

theorem insertName_perm (a : Name) : ∀ l : List Name, (insertName a l).Perm (a :: l)
  | [] => List.Perm.refl _
  | b :: rest => by
    unfold insertName
    split
    · exact List.Perm.refl _
    · exact ((insertName_perm a rest).cons b).trans (List.Perm.swap a b rest)

theorem sortNames_perm : ∀ l : List Name, (sortNames l).Perm l
  | [] => List.Perm.refl _
  | a :: rest => (insertName_perm a (sortNames rest)).trans ((sortNames_perm rest).cons a)

theorem insertName_sorted (a : Name) : ∀ {l : List Name}, l.Pairwise (fun x y => charsLe x y = true) →
    (insertName a l).Pairwise (fun x y => charsLe x y = true)
  | [], _ => by simp [insertName]
  | b :: rest, h => by
    unfold insertName
    rw [List.pairwise_cons] at h
    split
    · rename_i hab
      rw [List.pairwise_cons]
      refine ⟨?_, List.pairwise_cons.mpr h⟩
      intro y hy
      rcases List.mem_cons.mp hy with rfl | hy
      · exact hab
      · exact charsLe_trans hab (h.1 y hy)
    · rename_i hab
      have hba : charsLe b a = true := by
        have := charsLe_total a b
        simp only [Bool.or_eq_true] at this
        rcases this with h1 | h1
        · exact absurd h1 hab
        · exact h1
      rw [List.pairwise_cons]
      refine ⟨?_, insertName_sorted a h.2⟩
      intro y hy
      rcases List.mem_cons.mp ((insertName_perm a rest).mem_iff.mp hy) with rfl | hy
      · exact hba
      · exact h.1 y hy

theorem sortNames_sorted : ∀ l : List Name, (sortNames l).Pairwise (fun x y => charsLe x y = true)
  | [] => List.Pairwise.nil
  | a :: rest => insertName_sorted a (sortNames_sorted rest)

theorem lastSorted_spec {revs : List Name} :
    (revs = [] ∧ lastSorted revs = none) ∨
    (∃ x, lastSorted revs = some x ∧ x ∈ revs ∧ ∀ y ∈ revs, charsLe y x = true) := by
  unfold lastSorted
  have hperm := sortNames_perm revs
  have hsorted := sortNames_sorted revs
  cases hl : (sortNames revs).getLast? with
  | none =>
    left
    rw [List.getLast?_eq_none_iff] at hl
    rw [hl] at hperm
    exact ⟨List.Perm.eq_nil hperm.symm, rfl⟩
  | some x =>
    right
    refine ⟨x, rfl, ?_, ?_⟩
    · exact hperm.mem_iff.mp (List.mem_of_getLast? hl)
    · intro y hy
      exact getLast?_max hsorted hl y (hperm.mem_iff.mpr hy)

/-- The dated candidates as the model collects them. -/
def revsOf (m : Name) (es : Listing) : List Name := (files es).filter (isRevisionOf m)

theorem dated_map_fst (m : Name) (es : Listing) : (dated m es).map (·.1) = revsOf m es := by
  unfold dated revsOf
  induction files es with
  | nil => rfl
  | cons fn rest ih =>
    simp only [List.filterMap_cons, List.filter_cons]
    cases hd : datedOf m fn with
    | none =>
      have : isRevisionOf m fn = false := by
        rw [Bool.eq_false_iff]; intro h; rw [isRevisionOf_iff, hd] at h; cases h
      simp [this, ih]
    | some d =>
      have : isRevisionOf m fn = true := by rw [isRevisionOf_iff, hd]; rfl
      simp [this, ih]

theorem mem_dated {m : Name} {es : Listing} {c : Name × Date} (h : c ∈ dated m es) :
    datedOf m c.1 = some c.2 ∧ c.1 ∈ revsOf m es := by
  have h2 : c.1 ∈ (dated m es).map (·.1) := List.mem_map_of_mem h
  rw [dated_map_fst] at h2
  refine ⟨?_, h2⟩
  unfold dated at h
  rw [List.mem_filterMap] at h
  obtain ⟨fn, _, hfn⟩ := h
  cases hd : datedOf m fn with
  | none => rw [hd] at hfn; cases hfn
  | some d => rw [hd] at hfn; simp only [Option.map_some, Option.some.injEq] at hfn; subst hfn; exact hd

theorem dated_of_mem_revs {m : Name} {es : Listing} {fn : Name} (h : fn ∈ revsOf m es) :
    ∃ d, (fn, d) ∈ dated m es := by
  rw [← dated_map_fst, List.mem_map] at h
  obtain ⟨c, hc, rfl⟩ := h
  exact ⟨c.2, hc⟩

/-- Sorting the names and taking the last one finds the candidate with the greatest date. -/
theorem lastSorted_eq_latestDated (m : Name) (es : Listing) : lastSorted (revsOf m es) = latestDated m es := by
  unfold latestDated
  rcases lastSorted_spec (revs := revsOf m es) with ⟨hnil, hnone⟩ | ⟨x, hx, hmem, hmax⟩
  · rw [hnone]
    have : dated m es = [] := by
      have := dated_map_fst m es
      rw [hnil] at this
      exact List.map_eq_nil_iff.mp this
    rw [this]; rfl
  · rw [hx]
    obtain ⟨dx, hdx⟩ := dated_of_mem_revs hmem
    have hxd := (mem_dated hdx).1
    -- the pair of `x` passes the test, so something is found
    have hPx : ((dated m es).all fun c' => c'.2.le dx) = true := by
      rw [List.all_eq_true]
      intro c' hc'
      obtain ⟨hc'd, hc'm⟩ := mem_dated hc'
      have := hmax c'.1 hc'm
      simp only [charsLe, Bool.not_eq_true'] at this
      rw [charsLt_dated hxd hc'd] at this
      simp [Date.le, this]
    cases hf : (dated m es).find? fun c => (dated m es).all fun c' => c'.2.le c.2 with
    | none =>
      rw [List.find?_eq_none] at hf
      exact absurd hPx (hf (x, dx) hdx)
    | some c₀ =>
      have hc₀m := List.mem_of_find?_eq_some hf
      have hPc := List.find?_some hf
      rw [List.all_eq_true] at hPc
      obtain ⟨hc₀d, hc₀r⟩ := mem_dated hc₀m
      -- neither date is before the other
      have h1 : dx.lt c₀.2 = false := by
        have := List.all_eq_true.mp hPx c₀ hc₀m
        simpa [Date.le] using this
      have h2 : c₀.2.lt dx = false := by
        have := hPc (x, dx) hdx
        simpa [Date.le] using this
      have : c₀.1 = x := by
        rcases charsLt_total c₀.1 x with h | h | h
        · rw [charsLt_dated hc₀d hxd, h2] at h; cases h
        · exact h
        · rw [charsLt_dated hxd hc₀d, h1] at h; cases h
      simp [this]

/-! ### the loop of `findInDir` -/

/-- The best candidate of a directory, as a path. -/
def best (m : Name) (pe : Path × Listing) : Option Path := (bestIn m pe.2).map fun fn => pe.1 ++ [fn]

/-- What the loop returns when no subdirectory yields anything: the exact match if it is still
ahead, else the last of the sorted dated names (those collected so far and those still ahead). -/
def tailOf (m : Name) (dir : Path) (es : Listing) (revs : List Name) : Option Path :=
  if (files es).contains (m ++ dotYang) then some (dir ++ [m ++ dotYang])
  else (lastSorted (revs ++ revsOf m es)).map fun fn => dir ++ [fn]

theorem best_eq_tailOf (m : Name) (dir : Path) (es : Listing) : best m (dir, es) = tailOf m dir es [] := by
  unfold best tailOf bestIn exact?
  rw [← dotYang_eq]
  by_cases h : (files es).contains (m ++ dotYang) = true
  · simp only [h, if_true]; rfl
  · simp only [h, if_false, Bool.false_eq_true, List.nil_append, lastSorted_eq_latestDated]

theorem files_cons_file {fn : Name} {x : FsNode} (h : x.isDir = false) (rest : Listing) :
    files ((fn, x) :: rest) = fn :: files rest := by simp [files, h]

theorem files_cons_dir {fn : Name} {x : FsNode} (h : x.isDir = true) (rest : Listing) :
    files ((fn, x) :: rest) = files rest := by simp [files, h]

theorem tailOf_cons_dir (m : Name) (dir : Path) {fn : Name} {x : FsNode} (h : x.isDir = true) (rest : Listing)
    (revs : List Name) : tailOf m dir ((fn, x) :: rest) revs = tailOf m dir rest revs := by
  unfold tailOf revsOf; rw [files_cons_dir h]

theorem tailOf_cons_exact (m : Name) (dir : Path) {x : FsNode} (h : x.isDir = false) (rest : Listing)
    (revs : List Name) : tailOf m dir ((m ++ dotYang, x) :: rest) revs = some (dir ++ [m ++ dotYang]) := by
  unfold tailOf; rw [files_cons_file h]; simp

theorem tailOf_cons_rev (m : Name) (dir : Path) {fn : Name} {x : FsNode} (h : x.isDir = false)
    (hne : fn ≠ m ++ dotYang) (hrev : isRevisionOf m fn = true) (rest : Listing) (revs : List Name) :
    tailOf m dir ((fn, x) :: rest) revs = tailOf m dir rest (revs ++ [fn]) := by
  unfold tailOf revsOf
  rw [files_cons_file h]
  have : ¬ m ++ dotYang = fn := fun e => hne e.symm
  simp [this, hrev]

theorem tailOf_cons_other (m : Name) (dir : Path) {fn : Name} {x : FsNode} (h : x.isDir = false)
    (hne : fn ≠ m ++ dotYang) (hrev : isRevisionOf m fn = false) (rest : Listing) (revs : List Name) :
    tailOf m dir ((fn, x) :: rest) revs = tailOf m dir rest revs := by
  unfold tailOf revsOf
  rw [files_cons_file h]
  have : ¬ m ++ dotYang = fn := fun e => hne e.symm
  simp [this, hrev]

/-- Without recursion: the best candidate of the directory. -/
theorem scan_flat (m : Name) (dir : Path) : ∀ (es : Listing) (revs : List Name),
    scan (m ++ dotYang) false dir es revs = tailOf m dir es revs
  | [], revs => by
    simp only [scan, tailOf, revsOf, files, List.filter_nil, List.map_nil, List.append_nil]
    cases lastSorted revs <;> simp
  | (fn, x) :: rest, revs => by
    unfold scan
    rw [trimSuffix_append]
    cases hx : x.isDir with
    | true => simp only [Bool.not_true, Bool.false_eq_true, if_false]; rw [scan_flat m dir rest revs, tailOf_cons_dir m dir hx]
    | false =>
      simp only [Bool.not_false, if_true]
      by_cases hn : fn = m ++ dotYang
      · subst hn; simp [tailOf_cons_exact m dir hx]
      · have hb : (fn == m ++ dotYang) = false := by simpa using hn
        simp only [hb, Bool.false_eq_true, if_false]
        cases hr : isRevisionOf m fn with
        | true => simp only [if_true]; rw [scan_flat m dir rest _, tailOf_cons_rev m dir hx hn hr]
        | false => simp only [Bool.false_eq_true, if_false]; rw [scan_flat m dir rest _, tailOf_cons_other m dir hx hn hr]

mutual
/-- With recursion: the best candidate of the first directory, in the order `under`, that has one. -/
theorem findInDir_rec (m : Name) : ∀ (x : FsNode) (dir : Path),
    findInDir (m ++ dotYang) true dir x = (under m dir x).findSome? (best m)
  | .file, dir => by simp [findInDir, under]
  | .dir es, dir => by
    rw [findInDir, under, List.findSome?_append, scan_rec m es dir []]
    simp [best_eq_tailOf]
theorem scan_rec (m : Name) : ∀ (es : Listing) (dir : Path) (revs : List Name),
    scan (m ++ dotYang) true dir es revs =
      ((underList m dir es).findSome? (best m)).or (tailOf m dir es revs)
  | [], dir, revs => by
    simp only [scan, underList, List.findSome?_nil, Option.none_or, tailOf, revsOf, files, List.filter_nil,
      List.map_nil, List.append_nil]
    cases lastSorted revs <;> simp
  | (fn, x) :: rest, dir, revs => by
    unfold scan
    rw [trimSuffix_append]
    cases hx : x.isDir with
    | true =>
      simp only [Bool.not_true, Bool.false_eq_true, if_false, if_true]
      have hu : underList m dir ((fn, x) :: rest) = under m (dir ++ [fn]) x ++ underList m dir rest := by
        rw [underList]; simp [hx]
      rw [hu, List.findSome?_append, findInDir_rec m x (dir ++ [fn]), tailOf_cons_dir m dir hx]
      cases (under m (dir ++ [fn]) x).findSome? (best m) with
      | some p => simp
      | none => simp only [Option.none_or]; exact scan_rec m rest dir revs
    | false =>
      simp only [Bool.not_false, if_true]
      have hxf : x = .file := by cases x <;> simp_all [FsNode.isDir]
      by_cases hn : fn = m ++ dotYang
      · subst hn
        have hu : underList m dir ((m ++ dotYang, x) :: rest) = [] := by
          rw [underList]; simp [hx, dotYang_eq]
        simp [hu, tailOf_cons_exact m dir hx]
      · have hb : (fn == m ++ dotYang) = false := by simpa using hn
        have hu : underList m dir ((fn, x) :: rest) = underList m dir rest := by
          rw [underList]
          have : (fn == m ++ ".yang".toList) = false := by rw [← dotYang_eq]; exact hb
          rw [this, hxf]
          simp [under, FsNode.isDir]
        simp only [hb, Bool.false_eq_true, if_false, hu]
        cases hr : isRevisionOf m fn with
        | true => simp only [if_true]; rw [scan_rec m rest dir _, tailOf_cons_rev m dir hx hn hr]
        | false => simp only [Bool.false_eq_true, if_false]; rw [scan_rec m rest dir _, tailOf_cons_other m dir hx hn hr]
end

/-! ### one search path entry, the whole search -/

theorem choose_eq (root : FsNode) (path : List Entry) (m : Name) :
    choose root path m = (searchDirs root path m).findSome? (best m) := by
  unfold choose best
  congr 1

/-- `scanDir` on what an entry denotes: the best candidate of the first of the entry's
directories that has one. -/
theorem scanDir_eq (root : FsNode) (m : Name) (e : Entry) :
    scanDir root e.dir (m ++ dotYang) e.recurse = (entryDirs root m e).findSome? (best m) := by
  unfold scanDir entryDirs
  cases hl : lookup root e.dir with
  | none => rfl
  | some node =>
    cases node with
    | file => simp [findInDir]
    | dir es =>
      cases hr : e.recurse with
      | true => simp only [if_true]; exact findInDir_rec m (.dir es) e.dir
      | false =>
        simp only [Bool.false_eq_true, if_false, findInDir, scan_flat, List.findSome?_cons, List.findSome?_nil,
          best_eq_tailOf]
        cases tailOf m e.dir es [] <;> rfl

theorem searchPath_eq (root : FsNode) (m : Name) (p0 : List Name) : ∀ (path : List Name) (entries : List Entry),
    parsePath path = some entries →
    searchPath root (m ++ dotYang) p0 path =
      match (entries.flatMap (entryDirs root m)).findSome? (best m) with
      | some p => .file (render p) p0
      | none => .noSuchFile
  | [], entries, h => by
    simp only [parsePath, Option.some.injEq] at h; subst h; rfl
  | d :: rest, entries, h => by
    unfold parsePath at h
    cases hd : parseEntry d with
    | none => rw [hd] at h; cases h
    | some e =>
      cases hrest : parsePath rest with
      | none => rw [hd, hrest] at h; cases h
      | some es =>
        rw [hd, hrest] at h
        simp only [Option.some.injEq] at h; subst h
        unfold searchPath
        simp only [hd, List.flatMap_cons, List.findSome?_append]
        rw [scanDir_eq]
        cases (entryDirs root m e).findSome? (best m) with
        | some p => rfl
        | none => simp only [Option.none_or]; exact searchPath_eq root m p0 rest es hrest

/-- Names of a module, as opposed to file names: no `/`, not ending in `.yang`. -/
def IsModuleName (m : Name) : Prop := m.contains '/' = false ∧ hasSuffix m dotYang = false

/-- The entries of the current directory have distinct names. -/
def RootOk : FsNode → Prop
  | .file => True
  | .dir es => (es.map (·.1)).Nodup

instance (m : Name) : Decidable (IsModuleName m) := by unfold IsModuleName; infer_instance
instance : (root : FsNode) → Decidable (RootOk root)
  | .file => isTrue trivial
  | .dir es => inferInstanceAs (Decidable (es.map (·.1)).Nodup)

theorem insertEntry_perm (e : Name × FsNode) : ∀ l : Listing, (insertEntry e l).Perm (e :: l)
  | [] => List.Perm.refl _
  | f :: rest => by
    unfold insertEntry
    split
    · exact List.Perm.refl _
    · exact ((insertEntry_perm e rest).cons f).trans (List.Perm.swap e f rest)

theorem normEntries_names : ∀ es : Listing, ((normEntries es).map (·.1)).Perm (es.map (·.1))
  | [] => by simp [normEntries]
  | (n, x) :: rest => by
    rw [normEntries]
    have h1 := (insertEntry_perm (n, x.norm) (normEntries rest)).map (fun e : Name × FsNode => e.1)
    simp only [List.map_cons] at h1 ⊢
    exact h1.trans ((normEntries_names rest).cons n)

theorem rootOk_norm {root : FsNode} (h : RootOk root) : RootOk root.norm := by
  cases root with
  | file => simp [FsNode.norm, RootOk]
  | dir es =>
    simp only [FsNode.norm, RootOk] at h ⊢
    exact (normEntries_names es).nodup_iff.mpr h

theorem find?_of_nodup : ∀ {es : Listing} {fn : Name} {x : FsNode}, (es.map (·.1)).Nodup → (fn, x) ∈ es →
    es.find? (fun e => e.1 == fn) = some (fn, x)
  | [], _, _, _, h => by simp at h
  | e :: rest, fn, x, hnd, h => by
    rw [List.map_cons, List.nodup_cons] at hnd
    rcases List.mem_cons.mp h with h | h
    · subst h; simp
    · have hne : e.1 ≠ fn := by
        intro he
        exact hnd.1 (he ▸ List.mem_map_of_mem (f := (·.1)) h)
      have : (e.1 == fn) = false := by simpa using hne
      rw [List.find?_cons, this]
      exact find?_of_nodup hnd.2 h

theorem mem_files {es : Listing} {fn : Name} (h : fn ∈ files es) : (fn, FsNode.file) ∈ es := by
  unfold files at h
  rw [List.mem_map] at h
  obtain ⟨⟨n, x⟩, hm, rfl⟩ := h
  rw [List.mem_filter] at hm
  cases x with
  | file => exact hm.1
  | dir _ => simp [FsNode.isDir] at hm

theorem bestIn_mem {m : Name} {es : Listing} {fn : Name} (h : bestIn m es = some fn) :
    fn ∈ files es ∧ IsCandidateName m fn := by
  unfold bestIn at h
  cases he : exact? m es with
  | some f =>
    rw [he] at h; simp only [Option.some.injEq] at h; subst h
    unfold exact? at he
    split at he
    · rename_i hc
      simp only [Option.some.injEq] at he; subst he
      exact ⟨by simpa using hc, .inl rfl⟩
    · cases he
  | none =>
    rw [he] at h
    unfold latestDated at h
    rw [Option.map_eq_some_iff] at h
    obtain ⟨c, hc, rfl⟩ := h
    have hm := List.mem_of_find?_eq_some hc
    obtain ⟨hd, hr⟩ := mem_dated hm
    refine ⟨?_, .inr (by rw [hd]; rfl)⟩
    unfold revsOf at hr
    exact (List.mem_filter.mp hr).1

theorem lookup_file_of_mem {es : Listing} {fn : Name} (hnd : (es.map (·.1)).Nodup) (h : fn ∈ files es) :
    lookup (.dir es) [fn] = some .file := by
  simp [lookup, find?_of_nodup hnd (mem_files h)]

theorem files_of_lookup_file {es : Listing} {fn : Name} (h : lookup (.dir es) [fn] = some .file) :
    fn ∈ files es := by
  have h' : (match es.find? (fun e => e.1 == fn) with
      | some e => lookup e.2 []
      | none => none) = some FsNode.file := h
  cases hf : es.find? (fun e => e.1 == fn) with
  | none => rw [hf] at h'; cases h'
  | some e =>
    rw [hf] at h'
    have he2 : e.2 = .file := by
      cases hx : e.2 <;> simp [hx, lookup] at h' ⊢
    have hm := List.mem_of_find?_eq_some hf
    have hn := List.find?_some hf
    simp only [beq_iff_eq] at hn
    unfold files
    rw [List.mem_map]
    exact ⟨e, List.mem_filter.mpr ⟨hm, by simp [he2, FsNode.isDir]⟩, hn⟩

theorem render_singleton (fn : Name) : render [fn] = fn := rfl

theorem exact_of_mem_files {m : Name} {es : Listing} (h : m ++ dotYang ∈ files es) :
    bestIn m es = some (m ++ dotYang) := by
  unfold bestIn exact?
  rw [← dotYang_eq]
  simp [h]

/-- `findFile` for a module name is the specification's choice. -/
theorem findFileIn_module {root : FsNode} (hroot : RootOk root) {path : List Name} {entries : List Entry}
    (hp : parsePath path = some entries) {m : Name} (hm : IsModuleName m) :
    findFileIn root path m =
      match choose root entries m with
      | some p => .file (render p)
          (if (entryDirs root m ⟨[], false⟩).findSome? (best m) = none then path else addPath path dot)
      | none => .noSuchFile := by
  unfold findFileIn
  simp only [hm.1, hm.2, Bool.false_eq_true, if_false]
  rw [choose_eq, searchDirs, List.findSome?_append]
  have hscan := scanDir_eq root m ⟨[], false⟩
  simp only at hscan
  rw [hscan]
  cases hb : (entryDirs root m ⟨[], false⟩).findSome? (best m) with
  | some p =>
    -- found in the current directory
    simp only [Option.some_or, reduceCtorEq, if_false]
    unfold entryDirs at hb
    simp only [lookup] at hb
    cases root with
    | file => simp at hb
    | dir es =>
      simp only [Bool.false_eq_true, if_false, List.findSome?_cons, List.findSome?_nil] at hb
      cases hbest : best m ([], es) with
      | none => rw [hbest] at hb; cases hb
      | some q =>
        rw [hbest] at hb; simp only [Option.some.injEq] at hb; subst hb
        unfold best at hbest
        rw [Option.map_eq_some_iff] at hbest
        obtain ⟨fn, hfn, rfl⟩ := hbest
        simp only [List.nil_append, render_singleton]
        rw [lookup_file_of_mem hroot (bestIn_mem hfn).1]
  | none =>
    simp only [Option.none_or, if_true]
    have hnot : lookup root [m ++ dotYang] ≠ some .file := by
      intro hl
      cases root with
      | file => simp [lookup] at hl
      | dir es =>
        have := exact_of_mem_files (files_of_lookup_file hl)
        unfold entryDirs at hb
        simp only [lookup, Bool.false_eq_true, if_false, List.findSome?_cons, List.findSome?_nil, best, this,
          Option.map_some] at hb
        cases hb
    rw [searchPath_eq root m path path entries hp]
    cases hl : lookup root [m ++ dotYang] with
    | none => rfl
    | some node =>
      cases node with
      | file => exact absurd hl hnot
      | dir _ => rfl

/-! ### whatever is chosen is a candidate (no hypothesis on the tree or the path) -/

theorem scanDir_candidate {root : FsNode} {m : Name} {dir : Path} {r : Bool} {p : Path}
    (h : scanDir root dir (m ++ dotYang) r = some p) :
    ∃ p' fn, p = p' ++ [fn] ∧ IsCandidateName m fn := by
  have := scanDir_eq root m ⟨dir, r⟩
  simp only at this
  rw [this] at h
  obtain ⟨⟨p', es⟩, _, hb⟩ := List.exists_of_findSome?_eq_some h
  unfold best at hb
  rw [Option.map_eq_some_iff] at hb
  obtain ⟨fn, hfn, rfl⟩ := hb
  exact ⟨p', fn, rfl, (bestIn_mem hfn).2⟩

theorem searchPath_candidate {root : FsNode} {m : Name} {p0 : List Name} : ∀ {path : List Name} {n : Name},
    (searchPath root (m ++ dotYang) p0 path).chosen = some n →
    ∃ p fn, n = render (p ++ [fn]) ∧ IsCandidateName m fn
  | [], n, h => by simp [searchPath, Found.chosen] at h
  | d :: rest, n, h => by
    unfold searchPath at h
    cases hd : parseEntry d with
    | none => rw [hd] at h; simp [Found.chosen] at h
    | some e =>
      rw [hd] at h
      simp only at h
      cases hs : scanDir root e.dir (m ++ dotYang) e.recurse with
      | some p =>
        rw [hs] at h
        simp only [Found.chosen, Option.some.injEq] at h
        obtain ⟨p', fn, rfl, hc⟩ := scanDir_candidate hs
        exact ⟨p', fn, h.symm, hc⟩
      | none =>
        rw [hs] at h
        exact searchPath_candidate h

theorem findFileIn_candidate {root : FsNode} {path : List Name} {m : Name} (hm : IsModuleName m) {n : Name}
    (h : (findFileIn root path m).chosen = some n) :
    ∃ p fn, n = render (p ++ [fn]) ∧ IsCandidateName m fn := by
  unfold findFileIn at h
  simp only [hm.1, hm.2, Bool.false_eq_true, if_false] at h
  cases hs : scanDir root [] (m ++ dotYang) false with
  | some p =>
    rw [hs] at h
    simp only at h
    obtain ⟨p', fn, rfl, hc⟩ := scanDir_candidate hs
    cases hl : lookup root [render (p' ++ [fn])] with
    | none => rw [hl] at h; exact searchPath_candidate h
    | some node =>
      rw [hl] at h
      cases node with
      | file =>
        simp only [Found.chosen, Option.some.injEq] at h
        exact ⟨p', fn, h.symm, hc⟩
      | dir _ => exact searchPath_candidate h
  | none =>
    rw [hs] at h
    simp only at h
    cases hl : lookup root [m ++ dotYang] with
    | none => rw [hl] at h; exact searchPath_candidate h
    | some node =>
      rw [hl] at h
      cases node with
      | file =>
        simp only [Found.chosen, Option.some.injEq] at h
        exact ⟨[], m ++ dotYang, by rw [← h]; rfl, .inl (by rw [dotYang_eq])⟩
      | dir _ => exact searchPath_candidate h

end Goyang.Lemmas.File
