import Batteries.Data.String.Lemmas
import Goyang.Spec.Find
/-
Lemmas for C17: the legacy `String.splitOn` with a one-character separator is `List.splitOn`
(so rendering a path and splitting it again gives back the parts, and `getPrefix` splits
`pfx:name` where it should); `walkParts` (the step loop of `Entry.Find`) composes over `++`,
climbs with `..` and descends along any spelling of the steps of an existing node of a
well-formed tree; the only change it can make to the tree is the creation of absent rpc
inputs/outputs; `find` unfolded for absolute and relative paths.

`Batteries.Data.String.Lemmas` supplies the `…_of_valid` lemmas about byte positions in strings.
-/
namespace Goyang.Lemmas.Find
open Goyang.Model Goyang.Spec.Find

set_option linter.unusedSimpArgs false
set_option linter.unnecessarySimpa false

section Strings
open String

/-! ### strings: `splitOn` with a one-character separator -/

theorem splitOnAux_char (c : Char) (l m r : List Char) (acc : List String) :
    String.splitOnAux (ofList (l ++ m ++ r)) (String.singleton c) ⟨utf8Len l⟩ ⟨utf8Len l + utf8Len m⟩ 0 acc
      = acc.reverse ++ (List.splitOnPPrepend (· == c) r m.reverse).map ofList := by
  induction r generalizing l m acc with
  | nil =>
    rw [String.splitOnAux]
    have h1 : Pos.Raw.atEnd (ofList (l ++ m ++ [])) ⟨utf8Len l + utf8Len m⟩ = true := by
      have := (atEnd_of_valid (l ++ m) []).2 rfl
      simpa [utf8Len_append, -ofList_append] using this
    simp only [h1, if_true]
    have := extract_of_valid l m []
    simp only [this]
    simp
  | cons c' r ih =>
    rw [String.splitOnAux]
    have h1 : Pos.Raw.atEnd (ofList (l ++ m ++ c' :: r)) ⟨utf8Len l + utf8Len m⟩ = false := by
      apply Bool.eq_false_iff.2
      intro h
      have := (atEnd_of_valid (l ++ m) (c' :: r)).1 (by simpa [utf8Len_append, -ofList_append] using h)
      cases this
    have hget : Pos.Raw.get (ofList (l ++ m ++ c' :: r)) ⟨utf8Len l + utf8Len m⟩ = c' := by
      have := get_of_valid (l ++ m) (c' :: r)
      simpa [utf8Len_append, -ofList_append] using this
    have hnext : Pos.Raw.next (ofList (l ++ m ++ c' :: r)) ⟨utf8Len l + utf8Len m⟩ = ⟨utf8Len l + utf8Len m + c'.utf8Size⟩ := by
      have := next_of_valid (l ++ m) c' r
      simpa [utf8Len_append, -ofList_append] using this
    have hsep : String.singleton c = ofList ([] ++ c :: []) := singleton_eq_ofList
    have hget2 : Pos.Raw.get (String.singleton c) 0 = c := by
      rw [hsep]; exact get_of_valid [] [c]
    have hnext2 : Pos.Raw.next (String.singleton c) 0 = ⟨c.utf8Size⟩ := by
      rw [hsep]; simpa using next_of_valid [] c []
    have hend2 : Pos.Raw.atEnd (String.singleton c) ⟨c.utf8Size⟩ = true := by
      have := (atEnd_of_valid [c] []).2 rfl
      rw [hsep]; simpa [-ofList_append] using this
    simp only [h1, Bool.false_eq_true, if_false, hget, hget2, hnext2]
    by_cases hc : c' = c
    · subst hc
      simp only [beq_self_eq_true, if_true, hnext, hend2]
      have hun : (⟨utf8Len l + utf8Len m + c'.utf8Size⟩ : Pos.Raw).unoffsetBy ⟨c'.utf8Size⟩ = ⟨utf8Len l + utf8Len m⟩ := by
        simp [Pos.Raw.unoffsetBy]
      rw [hun]
      have hex := extract_of_valid l m (c' :: r)
      rw [hex]
      have := ih (l ++ m ++ [c']) [] (ofList m :: acc)
      simp only [List.append_assoc, List.singleton_append, List.append_nil, utf8Len_append, utf8Len_cons, utf8Len_nil,
        Nat.zero_add, Nat.add_zero] at this
      simp only [List.append_assoc]
      rw [Nat.add_assoc, this]
      simp [List.splitOnPPrepend_cons_eq_if]
    · have hne : (c' == c) = false := by simpa using hc
      simp only [hne, Bool.false_eq_true, if_false]
      have hun : (⟨utf8Len l + utf8Len m⟩ : Pos.Raw).unoffsetBy 0 = ⟨utf8Len l + utf8Len m⟩ := by
        simp [Pos.Raw.unoffsetBy]
      rw [hun, hnext]
      have := ih l (m ++ [c']) acc
      simp only [List.append_assoc, List.singleton_append, utf8Len_append, utf8Len_cons, utf8Len_nil, Nat.zero_add] at this
      simp only [List.append_assoc]
      rw [Nat.add_assoc, this]
      simp [List.splitOnPPrepend_cons_eq_if, hne]

/-- The legacy `String.splitOn` with a one-character separator is `List.splitOn` on the characters. -/
theorem splitOn_char (s : String) (c : Char) :
    s.splitOn (String.singleton c) = (s.toList.splitOn c).map ofList := by
  have h := splitOnAux_char c [] [] s.toList []
  have hne : (String.singleton c == "") = false := by
    apply Bool.eq_false_iff.2
    intro h
    have := congrArg String.toList (eq_of_beq h)
    simp at this
  unfold String.splitOn
  rw [hne]
  simp only [List.nil_append, utf8Len_nil, Nat.add_zero, String.ofList_toList, List.reverse_nil] at h
  simp only [Bool.false_eq_true, if_false]
  exact h

theorem slash_eq : "/" = String.singleton '/' := by decide
theorem colon_eq : ":" = String.singleton ':' := by decide

/-- Splitting a rendered path gives back its parts. -/
theorem splitOn_intercalate_slash (parts : List String) (hne : parts ≠ [])
    (h : ∀ s ∈ parts, '/' ∉ s.toList) : ("/".intercalate parts).splitOn "/" = parts := by
  rw [slash_eq, splitOn_char]
  simp only [toList_intercalate, toList_singleton]
  rw [List.splitOn_intercalate]
  · simp [List.map_map]
  · intro l hl
    obtain ⟨s, hs, rfl⟩ := List.mem_map.1 hl
    exact h s hs
  · simpa using hne

theorem takeWhile_ne_append (c : Char) (l r : List Char) (h : c ∉ l) :
    (l ++ c :: r).takeWhile (· != c) = l ∧ (l ++ c :: r).dropWhile (· != c) = c :: r := by
  induction l with
  | nil => simp
  | cons a l ih =>
    have ha : a ≠ c := fun e => h (e ▸ List.mem_cons_self ..)
    have hl : c ∉ l := fun e => h (List.mem_cons_of_mem _ e)
    simp [ha, ih hl]

theorem splitPrefix_bare (n : String) (h : ':' ∉ n.toList) : splitPrefix n = ("", n) := by
  unfold splitPrefix
  simp [h]

theorem splitPrefix_pfx (p n : String) (hp : ':' ∉ p.toList) (_hn : ':' ∉ n.toList) :
    splitPrefix (p ++ ":" ++ n) = (p, n) := by
  unfold splitPrefix
  have : (p ++ ":" ++ n).toList = p.toList ++ ':' :: n.toList := by simp
  simp only [this]
  obtain ⟨h1, h2⟩ := takeWhile_ne_append ':' p.toList n.toList hp
  simp [h1, h2]

end Strings

/-! ### `getAt` -/

theorem getAt_append (e : Entry) (p q : Path) : e.getAt (p ++ q) = (e.getAt p).bind (·.getAt q) := by
  induction p generalizing e with
  | nil => simp [Entry.getAt]
  | cons s p ih =>
    cases s with
    | child k =>
      simp only [List.cons_append, Entry.getAt]
      cases e.child? k with
      | none => rfl
      | some c => simp [ih]
    | input =>
      simp only [List.cons_append, Entry.getAt]
      cases e.inp.head? with
      | none => rfl
      | some c => simp [ih]
    | output =>
      simp only [List.cons_append, Entry.getAt]
      cases e.out.head? with
      | none => rfl
      | some c => simp [ih]

theorem getAt_prefix {root : Entry} {p q : Path} {x : Entry} (h : root.getAt (p ++ q) = some x) :
    ∃ e, root.getAt p = some e ∧ e.getAt q = some x := by
  rw [getAt_append] at h
  cases hp : root.getAt p with
  | none => simp [hp] at h
  | some e => exact ⟨e, rfl, by simpa [hp] using h⟩

theorem getAt_snoc {root e c : Entry} {p : Path} (s : Step) (h : root.getAt p = some e)
    (hc : e.getAt [s] = some c) : root.getAt (p ++ [s]) = some c := by
  rw [getAt_append, h]; exact hc

theorem child?_mem {e c : Entry} {k : String} (h : e.child? k = some c) : c ∈ e.dir ∧ c.name = k := by
  unfold Entry.child? at h
  have h1 := List.mem_of_find?_eq_some h
  have h2 := List.find?_some h
  exact ⟨h1, by simpa using h2⟩

/-! ### well-formedness, unfolded -/

theorem wfKeysL_iff (l : List Entry) : wfKeysL l = true ↔ ∀ e ∈ l, wfKeys e = true := by
  induction l with
  | nil => simp [wfKeysL]
  | cons a l ih => simp [wfKeysL, ih]

structure WFNode (e : Entry) : Prop where
  distinct : distinct (e.dir.map (·.name)) = true
  good : ∀ c ∈ e.dir, goodName c.name = true
  rpcNoDir : e.d.isRpc = true → e.dir = []
  slotsRpc : e.d.isRpc = false → e.inp = [] ∧ e.out = []
  dir : ∀ c ∈ e.dir, wfKeys c = true
  inp : ∀ c ∈ e.inp, wfKeys c = true
  out : ∀ c ∈ e.out, wfKeys c = true

theorem wfKeys_node {e : Entry} (h : wfKeys e = true) : WFNode e := by
  cases e with
  | mk d c i o =>
    rw [wfKeys] at h
    simp only [Bool.and_eq_true, List.all_eq_true, wfKeysL_iff] at h
    obtain ⟨⟨⟨⟨⟨h1, h2⟩, h3⟩, h4⟩, h5⟩, h6⟩ := h
    refine ⟨h1, h2, ?_, ?_, h4, h5, h6⟩
    · intro hr
      simp only [Entry.d] at hr
      simpa [hr, Entry.dir] using h3
    · intro hr
      simp only [Entry.d] at hr
      simpa [hr, Entry.inp, Entry.out] using h3

theorem goodName_spec {k : String} (h : goodName k = true) :
    k ≠ "" ∧ k ≠ "." ∧ k ≠ ".." ∧ '/' ∉ k.toList ∧ ':' ∉ k.toList := by
  unfold goodName at h
  simp only [Bool.and_eq_true, bne_iff_ne, ne_eq, Bool.not_eq_true', List.contains_eq_mem, decide_eq_false_iff_not] at h
  obtain ⟨⟨⟨⟨h1, h2⟩, h3⟩, h4⟩, h5⟩ := h
  exact ⟨h1, h2, h3, h4, h5⟩

/-! ### `walkParts`, one step at a time -/

theorem walkParts_none (parts : List String) (root : Entry) : walkParts parts root none = (none, root) := by
  cases parts <;> simp [walkParts]

theorem walkParts_append (a b : List String) (root : Entry) (cur : Option Path) :
    walkParts (a ++ b) root cur = walkParts b (walkParts a root cur).2 (walkParts a root cur).1 := by
  induction a generalizing root cur with
  | nil => simp [walkParts]
  | cons part rest ih =>
    simp only [List.cons_append]
    cases cur with
    | none => simp [walkParts_none]
    | some p =>
      rw [walkParts]
      conv => rhs; rw [walkParts]
      cases hg : root.getAt p with
      | none => simp [walkParts_none]
      | some e =>
        simp only
        split
        · exact ih ..
        · split
          · exact ih ..
          · split
            · split
              · exact ih ..
              · split
                · exact ih ..
                · simp [walkParts_none]
            · split
              · exact ih ..
              · split
                · simp [walkParts_none]
                · split
                  · exact ih ..
                  · exact ih ..

theorem walk_dot {root e : Entry} {p : Path} (rest : List String) (h : root.getAt p = some e) :
    walkParts ("." :: rest) root (some p) = walkParts rest root (some p) := by
  rw [walkParts]; simp [h]

theorem walk_dotdot {root e : Entry} {p : Path} (rest : List String) (h : root.getAt p = some e) :
    walkParts (".." :: rest) root (some p) = walkParts rest root (if p.isEmpty then none else some p.dropLast) := by
  rw [walkParts]; simp [h]

theorem walk_child {root e c : Entry} {p : Path} {part k : String} (rest : List String)
    (h : root.getAt p = some e) (hr : e.d.isRpc = false) (h1 : part ≠ ".") (h2 : part ≠ "..")
    (hk : stripPrefix part = k) (k1 : k ≠ ".") (k2 : k ≠ "") (k3 : k ≠ "..") (hc : e.child? k = some c) :
    walkParts (part :: rest) root (some p) = walkParts rest root (some (p ++ [.child k])) := by
  rw [walkParts]; simp [h, hr, h1, h2, hk, k1, k2, k3, hc]

theorem walk_input {root e : Entry} {p : Path} {part : String} (rest : List String)
    (h : root.getAt p = some e) (hr : e.d.isRpc = true) (h1 : part ≠ ".") (h2 : part ≠ "..")
    (hk : stripPrefix part = "input") (hi : e.inp ≠ []) :
    walkParts (part :: rest) root (some p) = walkParts rest root (some (p ++ [.input])) := by
  rw [walkParts]; simp [h, hr, h1, h2, hk, hi]

theorem walk_output {root e : Entry} {p : Path} {part : String} (rest : List String)
    (h : root.getAt p = some e) (hr : e.d.isRpc = true) (h1 : part ≠ ".") (h2 : part ≠ "..")
    (hk : stripPrefix part = "output") (hi : e.out ≠ []) :
    walkParts (part :: rest) root (some p) = walkParts rest root (some (p ++ [.output])) := by
  rw [walkParts]; simp [h, hr, h1, h2, hk, hi]

/-! ### spelled steps -/

theorem pfx_ne (p k s : String) (hs : ':' ∉ s.toList) : p ++ ":" ++ k ≠ s := by
  intro h
  apply hs
  rw [← h]
  simp

theorem stepName_good_of_slot : ':' ∉ "input".toList ∧ ':' ∉ "output".toList := by decide

/-- What `walkParts` needs to know about a written step: it is not a navigation step and its bare
name is the step's name. -/
theorem spellsStep_spec {part : String} {s : Step} (h : SpellsStep part s)
    (hn : ':' ∉ (stepName s).toList) (h1 : stepName s ≠ ".") (h2 : stepName s ≠ "..") :
    part ≠ "." ∧ part ≠ ".." ∧ stripPrefix part = stepName s := by
  cases h with
  | bare => exact ⟨h1, h2, by simp [stripPrefix, splitPrefix_bare _ hn]⟩
  | pfx p _ hp =>
    refine ⟨pfx_ne _ _ _ (by decide), pfx_ne _ _ _ (by decide), ?_⟩
    simp [stripPrefix, splitPrefix_pfx _ _ hp.2.1 hn]

/-! ### descending along the steps of an existing node -/

theorem walk_down {root : Entry} {parts : List String} {q : Path} (hs : Spells parts q) :
    ∀ (rest : List String) (p : Path) (e x : Entry), root.getAt p = some e → wfKeys e = true →
      e.getAt q = some x →
      walkParts (parts ++ rest) root (some p) = walkParts rest root (some (p ++ q)) := by
  induction hs with
  | nil => intro rest p e x _ _ _; simp
  | @cons part s parts q hstep _ ih =>
    intro rest p e x hp hwf hx
    have wf := wfKeys_node hwf
    cases s with
    | child k =>
      simp only [Entry.getAt] at hx
      cases hc : e.child? k with
      | none => simp [hc] at hx
      | some c =>
        simp only [hc, Option.bind_some] at hx
        obtain ⟨hmem, hname⟩ := child?_mem hc
        have hg := goodName_spec (wf.good c hmem)
        rw [hname] at hg
        have hr : e.d.isRpc = false := by
          cases hr : e.d.isRpc with
          | false => rfl
          | true => rw [wf.rpcNoDir hr] at hmem; cases hmem
        obtain ⟨a1, a2, a3⟩ := spellsStep_spec hstep (by simpa [stepName] using hg.2.2.2.2)
          (by simpa [stepName] using hg.2.1) (by simpa [stepName] using hg.2.2.1)
        simp only [List.cons_append]
        rw [walk_child (k := k) _ hp hr a1 a2 a3 hg.2.1 hg.1 hg.2.2.1 hc]
        have hp' : root.getAt (p ++ [.child k]) = some c := getAt_snoc _ hp (by simp [Entry.getAt, hc])
        rw [ih rest _ c x hp' (wf.dir c hmem) hx]
        simp
    | input =>
      simp only [Entry.getAt] at hx
      cases hc : e.inp.head? with
      | none => simp [hc] at hx
      | some c =>
        simp only [hc, Option.bind_some] at hx
        have hne : e.inp ≠ [] := by intro h; simp [h] at hc
        have hmem : c ∈ e.inp := List.mem_of_head? hc
        have hr : e.d.isRpc = true := by
          cases hr : e.d.isRpc with
          | true => rfl
          | false => exact absurd (wf.slotsRpc hr).1 hne
        obtain ⟨a1, a2, a3⟩ := spellsStep_spec hstep (s := .input) (by decide) (by decide) (by decide)
        simp only [List.cons_append]
        rw [walk_input _ hp hr a1 a2 a3 hne]
        have hp' : root.getAt (p ++ [.input]) = some c := getAt_snoc _ hp (by simp [Entry.getAt, hc])
        rw [ih rest _ c x hp' (wf.inp c hmem) hx]
        simp
    | output =>
      simp only [Entry.getAt] at hx
      cases hc : e.out.head? with
      | none => simp [hc] at hx
      | some c =>
        simp only [hc, Option.bind_some] at hx
        have hne : e.out ≠ [] := by intro h; simp [h] at hc
        have hmem : c ∈ e.out := List.mem_of_head? hc
        have hr : e.d.isRpc = true := by
          cases hr : e.d.isRpc with
          | true => rfl
          | false => exact absurd (wf.slotsRpc hr).2 hne
        obtain ⟨a1, a2, a3⟩ := spellsStep_spec hstep (s := .output) (by decide) (by decide) (by decide)
        simp only [List.cons_append]
        rw [walk_output _ hp hr a1 a2 a3 hne]
        have hp' : root.getAt (p ++ [.output]) = some c := getAt_snoc _ hp (by simp [Entry.getAt, hc])
        rw [ih rest _ c x hp' (wf.out c hmem) hx]
        simp

/-! ### climbing -/

theorem walk_up {root : Entry} (rest : List String) (c : Path) :
    ∀ (ra : Path) (x : Entry), root.getAt (c ++ ra) = some x →
      walkParts (List.replicate ra.length ".." ++ rest) root (some (c ++ ra)) = walkParts rest root (some c) := by
  intro ra
  induction h : ra.length generalizing ra with
  | zero =>
    intro x _
    have : ra = [] := List.length_eq_zero_iff.1 h
    subst this; simp
  | succ n ih =>
    intro x hx
    rcases List.eq_nil_or_concat ra with rfl | ⟨ra', s, rfl⟩
    · simp at h
    · simp only [List.concat_eq_append, List.length_append, List.length_cons, List.length_nil] at h
      simp only [List.concat_eq_append] at hx ⊢
      rw [List.replicate_succ, List.cons_append, walk_dotdot _ hx]
      have hne : (c ++ (ra' ++ [s])).isEmpty = false := by simp
      rw [hne]
      have hd : (c ++ (ra' ++ [s])).dropLast = c ++ ra' := by
        rw [← List.append_assoc, List.dropLast_concat]
      simp only [hd, Bool.false_eq_true, if_false]
      rw [← List.append_assoc] at hx
      obtain ⟨e, he, _⟩ := getAt_prefix hx
      exact ih ra' (by omega) e he

/-! ### forests -/

theorem tree?_mem {f : Forest} {t : Nat} {root : Entry} (h : f.tree? t = some root) : (t, root) ∈ f.trees := by
  unfold Forest.tree? at h
  cases hf : f.trees.find? (·.1 == t) with
  | none => simp [hf] at h
  | some it =>
    simp only [hf, Option.map_some, Option.some.injEq] at h
    have h1 := List.mem_of_find?_eq_some hf
    have h2 := List.find?_some hf
    have : it.1 = t := by simpa using h2
    cases it with
    | mk a b => simp only at this h; subst this; subst h; exact h1

theorem nodup_fst_unique {l : List (Nat × Entry)} (hn : (l.map (·.1)).Nodup) {t : Nat} {x y : Entry}
    (hx : (t, x) ∈ l) (hy : (t, y) ∈ l) : x = y := by
  induction l with
  | nil => cases hx
  | cons a l ih =>
    simp only [List.map_cons, List.nodup_cons] at hn
    rcases List.mem_cons.1 hx with rfl | hx' <;> rcases List.mem_cons.1 hy with hy' | hy'
    · cases hy'; rfl
    · exact absurd (List.mem_map.2 ⟨(t, y), hy', rfl⟩) hn.1
    · subst hy'; exact absurd (List.mem_map.2 ⟨(t, x), hx', rfl⟩) hn.1
    · exact ih hn.2 hx' hy'

/-- Writing back the tree that is already there changes nothing. -/
theorem setTree_same {f : Forest} (hn : (f.trees.map (·.1)).Nodup) {t : Nat} {root : Entry}
    (h : f.tree? t = some root) : f.setTree t root = f := by
  have hm := tree?_mem h
  unfold Forest.setTree
  cases f with
  | mk trees =>
    simp only at hm hn ⊢
    congr 1
    have : ∀ it ∈ trees, (match it with | (i, x) => if i == t then (i, root) else (i, x)) = it := by
      intro it hit
      cases it with
      | mk i x =>
        simp only
        split
        · next hi =>
          have : i = t := by simpa using hi
          subst this
          rw [nodup_fst_unique hn hm hit]
        · rfl
    calc trees.map _ = trees.map id := List.map_congr_left this
      _ = trees := List.map_id _

theorem tree?_setTree {f : Forest} {t : Nat} {root r' : Entry} (h : f.tree? t = some root) :
    (f.setTree t r').tree? t = some r' := by
  unfold Forest.tree? Forest.setTree at *
  cases f with
  | mk trees =>
    simp only at h ⊢
    induction trees with
    | nil => simp at h
    | cons a l ih =>
      cases a with
      | mk i x =>
        simp only [List.map_cons, List.find?_cons] at h ⊢
        by_cases hi : (i == t) = true
        · simp [hi]
        · simp only [hi, Bool.false_eq_true, if_false] at h ⊢
          exact ih h

theorem nodeAt_setTree {f : Forest} {t : Nat} {root r' : Entry} (h : f.tree? t = some root) (p : Path) :
    nodeAt (f.setTree t r') (t, p) = r'.getAt p := by
  simp [nodeAt, tree?_setTree h]

/-! ### `find` on the split parts -/

/-- Where the step loop starts and with which parts: tree, location in it, remaining parts. -/
def startOf (reg : Registry) (start : Loc) (ctx : Nat) : List String → Option (Nat × Path × List String)
  | "" :: parts =>
    (if (splitPrefix (parts.headD "")).1 == "" then some (homeTree reg start.1)
     else prefixTree reg ctx (splitPrefix (parts.headD "")).1).map fun t => (t, [], parts)
  | parts => some (start.1, start.2, parts)

/-- `find` after the split at `/`. -/
def findParts (reg : Registry) (f : Forest) (start : Loc) (ctx : Nat) (parts : List String) : Option Loc × Forest :=
  match startOf reg start ctx parts with
  | none => (none, withPrefixError f start.1)
  | some (t, cur, parts) =>
    match f.tree? t with
    | none => (none, f)
    | some root =>
      ((walkParts parts root (some cur)).1.map (t, ·), f.setTree t (walkParts parts root (some cur)).2)

theorem startOf_abs (reg : Registry) (start : Loc) (ctx : Nat) (parts : List String) :
    startOf reg start ctx ("" :: parts) =
      (if (splitPrefix (parts.headD "")).1 == "" then some (homeTree reg start.1)
       else prefixTree reg ctx (splitPrefix (parts.headD "")).1).map fun t => (t, [], parts) := rfl

theorem startOf_rel (reg : Registry) (start : Loc) (ctx : Nat) (ps : List String)
    (hne : ∀ parts, ps ≠ "" :: parts) : startOf reg start ctx ps = some (start.1, start.2, ps) := by
  unfold startOf
  split
  · next parts => exact absurd rfl (hne parts)
  · rfl

/-- The one place that looks inside `find`. -/
theorem find_eq_findParts (reg : Registry) (f : Forest) (start : Loc) (ctx : Nat) (name : String) (h0 : name ≠ "") :
    find reg f start ctx name = findParts reg f start ctx (name.splitOn "/") := by
  unfold find findParts
  simp only [beq_iff_eq, h0, if_false]
  generalize name.splitOn "/" = ps
  split
  · next parts =>
    rw [startOf_abs]
    generalize (splitPrefix (parts.headD "")).1 = pfx
    by_cases hp : pfx = ""
    · simp only [hp, if_true, beq_self_eq_true, Option.map_some]
      unfold homeTree
      cases hb : reg.byId start.1 with
      | none => simp only; cases h : f.tree? start.1 <;> simp [h]
      | some sm =>
        simp only
        cases hsub : sm.isSub with
        | false => simp only [Bool.false_eq_true, if_false]; cases h : f.tree? start.1 <;> simp [h]
        | true =>
          simp only [if_true]
          cases reg.owner sm with
          | none => simp only [Option.map_none, Option.getD_none]; cases h : f.tree? start.1 <;> simp [h]
          | some o => simp only [Option.map_some, Option.getD_some]; cases h : f.tree? o.seq <;> simp [h]
    · simp only [hp, if_false, beq_iff_eq]
      unfold prefixTree withPrefixError
      cases hb : reg.byId ctx with
      | none => simp only [Option.bind_none, Option.map_none]; cases f.tree? start.1 <;> rfl
      | some cm =>
        simp only [Option.bind_some]
        cases hm : reg.findModuleByPrefix cm pfx with
        | none => simp only [Option.bind_none, Option.map_none]; cases f.tree? start.1 <;> rfl
        | some m =>
          simp only [Option.bind_some]
          cases reg.owner m with
          | none => simp only [Option.map_none]; cases f.tree? start.1 <;> rfl
          | some o =>
            simp only [Option.map_some]
            cases h : f.tree? o.seq <;> simp [h]
  · next parts hne =>
    rw [startOf_rel _ _ _ _ (fun parts h => hne parts h)]
    cases h : f.tree? start.1 <;> simp [h]

/-- Relative path: the walk starts at the start node. -/
theorem find_rel_eq (reg : Registry) (f : Forest) (start : Loc) (ctx : Nat) (name : String)
    (first : String) (rest : List String) (root : Entry)
    (h0 : name ≠ "") (hs : name.splitOn "/" = first :: rest) (hf : first ≠ "")
    (ht : f.tree? start.1 = some root) :
    find reg f start ctx name =
      ((walkParts (first :: rest) root (some start.2)).1.map (start.1, ·),
       f.setTree start.1 (walkParts (first :: rest) root (some start.2)).2) := by
  rw [find_eq_findParts _ _ _ _ _ h0, hs]
  unfold findParts
  rw [startOf_rel _ _ _ _ (by intro parts h; simp only [List.cons.injEq] at h; exact hf h.1)]
  simp [ht]

/-- Absolute path: the walk starts at the root of the tree the first step selects. -/
theorem find_abs_eq (reg : Registry) (f : Forest) (start : Loc) (ctx : Nat) (name : String)
    (parts : List String) (t : Nat) (root : Entry)
    (h0 : name ≠ "") (hs : name.splitOn "/" = "" :: parts)
    (hsel : (if (splitPrefix (parts.headD "")).1 == "" then some (homeTree reg start.1)
             else prefixTree reg ctx (splitPrefix (parts.headD "")).1) = some t)
    (ht : f.tree? t = some root) :
    find reg f start ctx name =
      ((walkParts parts root (some [])).1.map (t, ·), f.setTree t (walkParts parts root (some [])).2) := by
  rw [find_eq_findParts _ _ _ _ _ h0, hs]
  unfold findParts
  rw [startOf_abs, hsel]
  simp [ht]

/-! ### the only change: absent rpc inputs / outputs are created -/

theorem Grown.trans {a b c : Entry} (h1 : Grown a b) (h2 : Grown b c) : Grown a c := by
  induction h1 with
  | refl => exact h2
  | step s _ ih => exact Grown.step s (ih h2)

theorem walkParts_grown (parts : List String) : ∀ (root : Entry) (cur : Option Path),
    Grown root (walkParts parts root cur).2 := by
  induction parts with
  | nil => intro root cur; simp only [walkParts]; exact Grown.refl _
  | cons part rest ih =>
    intro root cur
    cases cur with
    | none => rw [walkParts_none]; exact Grown.refl _
    | some p =>
      rw [walkParts]
      cases hg : root.getAt p with
      | none => exact Grown.refl _
      | some e =>
        have hin : ∀ g : Entry → Entry, g = addImplicit true → e.d.isRpc = true → e.inp = [] →
            GrowStep root (root.updateAt p g) := by
          intro g hgf hr hi; subst hgf; exact GrowStep.input root p e hg hr hi
        have hout : ∀ g : Entry → Entry, g = addImplicit false → e.d.isRpc = true → e.out = [] →
            GrowStep root (root.updateAt p g) := by
          intro g hgf hr hi; subst hgf; exact GrowStep.output root p e hg hr hi
        simp only
        split
        · exact ih ..
        · split
          · exact ih ..
          · split
            · next hr =>
              split
              · by_cases hi : e.inp.isEmpty = true
                · simp only [hi, if_true]
                  exact Grown.step (hin _ (funext fun x => by cases x; rfl) hr (by simpa using hi)) (ih ..)
                · simp only [hi, if_false]
                  exact ih ..
              · split
                · by_cases hi : e.out.isEmpty = true
                  · simp only [hi, if_true]
                    exact Grown.step (hout _ (funext fun x => by cases x; rfl) hr (by simpa using hi)) (ih ..)
                  · simp only [hi, if_false]
                    exact ih ..
                · exact Grown.refl _
            · split
              · exact ih ..
              · split
                · exact Grown.refl _
                · split
                  · exact ih ..
                  · exact ih ..

/-! ### a step that names nothing -/

theorem walk_bad {root e : Entry} {p : Path} {bad : String} (post : List String)
    (h : root.getAt p = some e) (hb : NamesNoChild e bad) :
    (walkParts (bad :: post) root (some p)).1 = none := by
  obtain ⟨h1, h2, h3⟩ := hb
  rw [walkParts]
  cases hr : e.d.isRpc with
  | true =>
    simp only [hr, if_true] at h3
    simp [h, h1, h2, hr, h3.1, h3.2]
  | false =>
    simp only [hr, Bool.false_eq_true, if_false] at h3
    simp only [h, beq_iff_eq, h1, h2, hr, h3.1, if_false, Bool.false_eq_true, h3.2]
    split
    · rfl
    · rw [walkParts_none]

/-! ### well-formedness along a path -/

theorem wfKeys_getAt {root : Entry} (p : Path) : ∀ {e : Entry}, wfKeys root = true → root.getAt p = some e →
    wfKeys e = true := by
  induction p generalizing root with
  | nil => intro e h hg; simp only [Entry.getAt, Option.some.injEq] at hg; subst hg; exact h
  | cons s p ih =>
    intro e h hg
    have wf := wfKeys_node h
    cases s with
    | child k =>
      simp only [Entry.getAt] at hg
      cases hc : root.child? k with
      | none => simp [hc] at hg
      | some c =>
        simp only [hc, Option.bind_some] at hg
        exact ih (wf.dir c (child?_mem hc).1) hg
    | input =>
      simp only [Entry.getAt] at hg
      cases hc : root.inp.head? with
      | none => simp [hc] at hg
      | some c =>
        simp only [hc, Option.bind_some] at hg
        exact ih (wf.inp c (List.mem_of_head? hc)) hg
    | output =>
      simp only [Entry.getAt] at hg
      cases hc : root.out.head? with
      | none => simp [hc] at hg
      | some c =>
        simp only [hc, Option.bind_some] at hg
        exact ih (wf.out c (List.mem_of_head? hc)) hg

theorem spellsStep_noSlash {part : String} {s : Step} (h : SpellsStep part s)
    (hn : '/' ∉ (stepName s).toList) : '/' ∉ part.toList := by
  cases h with
  | bare => exact hn
  | pfx p _ hp =>
    simp only [String.toList_append, List.mem_append, not_or]
    exact ⟨⟨hp.2.2, by decide⟩, hn⟩

/-- The written parts of the path of an existing node of a well-formed tree contain no `/`. -/
theorem spells_noSlash {parts : List String} {q : Path} (hs : Spells parts q) :
    ∀ {e x : Entry}, wfKeys e = true → e.getAt q = some x → ∀ s ∈ parts, '/' ∉ s.toList := by
  induction hs with
  | nil => intro e x _ _ s hs; cases hs
  | @cons part st parts q hstep _ ih =>
    intro e x hwf hx s hs
    have wf := wfKeys_node hwf
    cases st with
    | child k =>
      simp only [Entry.getAt] at hx
      cases hc : e.child? k with
      | none => simp [hc] at hx
      | some c =>
        simp only [hc, Option.bind_some] at hx
        obtain ⟨hmem, hname⟩ := child?_mem hc
        have hg := goodName_spec (wf.good c hmem)
        rw [hname] at hg
        rcases List.mem_cons.1 hs with rfl | hs'
        · exact spellsStep_noSlash hstep (by simpa [stepName] using hg.2.2.2.1)
        · exact ih (wf.dir c hmem) hx s hs'
    | input =>
      simp only [Entry.getAt] at hx
      cases hc : e.inp.head? with
      | none => simp [hc] at hx
      | some c =>
        simp only [hc, Option.bind_some] at hx
        rcases List.mem_cons.1 hs with rfl | hs'
        · exact spellsStep_noSlash hstep (by decide)
        · exact ih (wf.inp c (List.mem_of_head? hc)) hx s hs'
    | output =>
      simp only [Entry.getAt] at hx
      cases hc : e.out.head? with
      | none => simp [hc] at hx
      | some c =>
        simp only [hc, Option.bind_some] at hx
        rcases List.mem_cons.1 hs with rfl | hs'
        · exact spellsStep_noSlash hstep (by decide)
        · exact ih (wf.out c (List.mem_of_head? hc)) hx s hs'

theorem spells_bare (q : Path) : Spells (bareParts q) q := by
  induction q with
  | nil => exact Spells.nil
  | cons s q ih => exact Spells.cons (SpellsStep.bare s) ih

theorem spells_prefixed {pfx : String} (hp : GoodPrefix pfx) (q : Path) : Spells (prefixedParts pfx q) q := by
  induction q with
  | nil => exact Spells.nil
  | cons s q ih => exact Spells.cons (SpellsStep.pfx pfx s hp) ih

/-! ### rendering -/

theorem splitOn_empty : "".splitOn "/" = [""] := by
  rw [slash_eq, splitOn_char]; simp [List.splitOn_nil]

theorem splitOn_render (parts : List String) (hne : parts ≠ []) (h : ∀ s ∈ parts, '/' ∉ s.toList) :
    (renderRel parts).splitOn "/" = parts := splitOn_intercalate_slash parts hne h

theorem splitOn_renderAbs (parts : List String) (h : ∀ s ∈ parts, '/' ∉ s.toList) :
    (renderAbs parts).splitOn "/" = "" :: parts := by
  unfold renderAbs
  apply splitOn_intercalate_slash _ (by simp)
  intro s hs
  rcases List.mem_cons.1 hs with rfl | hs'
  · simp
  · exact h s hs'

theorem renderAbs_ne (parts : List String) (hne : parts ≠ []) (h : ∀ s ∈ parts, '/' ∉ s.toList) :
    renderAbs parts ≠ "" := by
  intro he
  have := splitOn_renderAbs parts h
  rw [he, splitOn_empty] at this
  simp only [List.cons.injEq, true_and] at this
  exact hne this.symm

theorem renderRel_ne (first : String) (rest : List String) (hf : first ≠ "")
    (h : ∀ s ∈ first :: rest, '/' ∉ s.toList) : renderRel (first :: rest) ≠ "" := by
  intro he
  have := splitOn_render (first :: rest) (by simp) h
  rw [he, splitOn_empty] at this
  simp only [List.cons.injEq] at this
  exact hf this.1.symm

/-! ### round trips -/

theorem absSpelling_spells {reg : Registry} {start : Loc} {ctx t : Nat} {parts : List String} {p : Path}
    (h : AbsSpelling reg start ctx t parts p) : Spells parts p := by
  cases h with
  | own s rest q _ hs => exact Spells.cons (SpellsStep.bare s) hs
  | pfx pf s rest q hp _ hs => exact Spells.cons (SpellsStep.pfx pf s hp) hs

theorem prefixTree_of_denotes {reg : Registry} {ctx t : Nat} {pfx : String} (h : Denotes reg ctx pfx t) :
    prefixTree reg ctx pfx = some t := by
  obtain ⟨cm, m, o, h1, h2, h3, h4⟩ := h
  simp [prefixTree, h1, h2, h3, h4]

/-- The name of the first step of an existing path has no `:`. -/
theorem first_noColon {e x : Entry} {s : Step} {q : Path} (hwf : wfKeys e = true)
    (hx : e.getAt (s :: q) = some x) : ':' ∉ (stepName s).toList := by
  have wf := wfKeys_node hwf
  cases s with
  | child k =>
    simp only [Entry.getAt] at hx
    cases hc : e.child? k with
    | none => simp [hc] at hx
    | some c =>
      obtain ⟨hmem, hname⟩ := child?_mem hc
      have hg := goodName_spec (wf.good c hmem)
      rw [hname] at hg
      simpa [stepName] using hg.2.2.2.2
  | input => decide
  | output => decide

theorem abs_roundtrip (reg : Registry) (f : Forest) (start : Loc) (ctx t : Nat) (parts : List String)
    (p : Path) (root x : Entry) (hwf : WFForest f) (hsp : AbsSpelling reg start ctx t parts p)
    (ht : f.tree? t = some root) (hx : root.getAt p = some x) :
    find reg f start ctx (renderAbs parts) = (some (t, p), f) := by
  have hroot : wfKeys root = true := hwf.2 _ (tree?_mem ht)
  have hs := absSpelling_spells hsp
  have hslash := spells_noSlash hs hroot hx
  have hne : parts ≠ [] := by cases hsp <;> simp
  have hsel : (if (splitPrefix (parts.headD "")).1 == "" then some (homeTree reg start.1)
      else prefixTree reg ctx (splitPrefix (parts.headD "")).1) = some t := by
    cases hsp with
    | own s rest q ht' _ =>
      have := first_noColon hroot hx
      simp [splitPrefix_bare _ this, ht']
    | pfx pf s rest q hp hd _ =>
      have := first_noColon hroot hx
      simp [splitPrefix_pfx _ _ hp.2.1 this, hp.1, prefixTree_of_denotes hd]
  rw [find_abs_eq reg f start ctx _ parts t root (renderAbs_ne parts hne hslash)
    (splitOn_renderAbs parts hslash) hsel ht]
  have hw := walk_down hs [] [] root x (show root.getAt [] = some root from rfl) hroot hx
  simp only [List.append_nil, List.nil_append, walkParts] at hw
  rw [hw]
  simp [setTree_same hwf.1 ht]

/-! ### relative -/

theorem commonLen_spec (a b : Path) :
    a.take (commonLen a b) = b.take (commonLen a b) ∧ commonLen a b ≤ a.length := by
  induction a generalizing b with
  | nil => simp [commonLen]
  | cons x a ih =>
    cases b with
    | nil => simp [commonLen]
    | cons y b =>
      simp only [commonLen]
      by_cases hxy : x = y
      · subst hxy
        simp only [if_true, List.take_succ_cons, List.cons.injEq, true_and, List.length_cons]
        exact ⟨(ih b).1, by have := (ih b).2; omega⟩
      · simp [hxy]

/-- Any number of `..` steps up to an ancestor, then any spelling of the steps down. -/
theorem rel_roundtrip_gen (reg : Registry) (f : Forest) (ctx t : Nat) (c ra rb : Path) (dparts : List String)
    (root xa xb : Entry) (hwf : WFForest f) (ht : f.tree? t = some root)
    (ha : root.getAt (c ++ ra) = some xa) (hb : root.getAt (c ++ rb) = some xb)
    (hd : Spells dparts rb) (hne : List.replicate ra.length ".." ++ dparts ≠ []) :
    find reg f (t, c ++ ra) ctx (renderRel (List.replicate ra.length ".." ++ dparts)) = (some (t, c ++ rb), f) := by
  have hroot : wfKeys root = true := hwf.2 _ (tree?_mem ht)
  obtain ⟨ec, hec, hecb⟩ := getAt_prefix hb
  have hwc : wfKeys ec = true := wfKeys_getAt c hroot hec
  have hslash : ∀ s ∈ List.replicate ra.length ".." ++ dparts, '/' ∉ s.toList := by
    intro s hs
    rcases List.mem_append.1 hs with h | h
    · rw [List.eq_of_mem_replicate h]; decide
    · exact spells_noSlash hd hwc hecb s h
  -- the first part is not empty
  obtain ⟨first, rest, hfr⟩ : ∃ first rest, List.replicate ra.length ".." ++ dparts = first :: rest := by
    cases h : List.replicate ra.length ".." ++ dparts with
    | nil => exact absurd h hne
    | cons a l => exact ⟨a, l, rfl⟩
  have hfirst : first ≠ "" := by
    cases hra : ra with
    | nil =>
      rw [hra] at hfr
      simp only [List.length_nil, List.replicate_zero, List.nil_append] at hfr
      subst hfr
      cases hd with
      | @cons part s parts q hstep _ =>
        have hn : stepName s ≠ "" := by
          have wf := wfKeys_node hwc
          cases s with
          | child k =>
            simp only [Entry.getAt] at hecb
            cases hc : ec.child? k with
            | none => simp [hc] at hecb
            | some cc =>
              obtain ⟨hmem, hname⟩ := child?_mem hc
              have hg := goodName_spec (wf.good cc hmem)
              rw [hname] at hg
              simpa [stepName] using hg.1
          | input => decide
          | output => decide
        cases hstep with
        | bare => exact hn
        | pfx pf _ hp => exact pfx_ne _ _ _ (by decide)
    | cons s ra' =>
      rw [hra] at hfr
      simp only [List.length_cons, List.replicate_succ, List.cons_append, List.cons.injEq] at hfr
      rw [← hfr.1]; decide
  rw [hfr] at hslash
  have hname := renderRel_ne first rest hfirst hslash
  have hsplit := splitOn_render (first :: rest) (by simp) hslash
  rw [hfr, find_rel_eq reg f (t, c ++ ra) ctx _ first rest root hname hsplit hfirst ht]
  rw [← hfr]
  simp only
  rw [walk_up dparts c ra xa ha]
  have hw := walk_down hd [] c ec xb hec hwc hecb
  simp only [List.append_nil, walkParts] at hw
  rw [hw]
  simp [setTree_same hwf.1 ht]

theorem rel_roundtrip (reg : Registry) (f : Forest) (ctx t : Nat) (a b : Path) (root xa xb : Entry)
    (hwf : WFForest f) (ht : f.tree? t = some root)
    (ha : root.getAt a = some xa) (hb : root.getAt b = some xb) :
    find reg f (t, a) ctx (relPath a b) = (some (t, b), f) := by
  obtain ⟨htake, hle⟩ := commonLen_spec a b
  unfold relPath relParts
  simp only
  generalize hn : commonLen a b = n at htake hle ⊢
  have hA : a = a.take n ++ a.drop n := (List.take_append_drop _ _).symm
  have hB : b = a.take n ++ b.drop n := by rw [htake]; exact (List.take_append_drop _ _).symm
  have hlen : (a.drop n).length = a.length - n := List.length_drop
  by_cases hemp : (List.replicate (a.length - n) ".." ++ bareParts (b.drop n)).isEmpty = true
  · -- a = b
    simp only [hemp, if_true]
    have h1 : a.length - n = 0 := by
      simp only [List.isEmpty_iff, List.append_eq_nil_iff, List.replicate_eq_nil_iff] at hemp
      exact hemp.1
    have h2 : b.drop n = [] := by
      simp only [List.isEmpty_iff, List.append_eq_nil_iff] at hemp
      simpa [bareParts] using hemp.2
    have hda : a.drop n = [] := List.eq_nil_of_length_eq_zero (by omega)
    have hab : a = b := by rw [hA, hB, hda, h2]
    subst hab
    have hname : renderRel ["."] ≠ "" := renderRel_ne "." [] (by decide) (by intro s hs; simp at hs; subst hs; decide)
    have hsplit : (renderRel ["."]).splitOn "/" = ["."] :=
      splitOn_render ["."] (by simp) (by intro s hs; simp at hs; subst hs; decide)
    rw [find_rel_eq reg f (t, a) ctx _ "." [] root hname hsplit (by decide) ht]
    simp only
    rw [walk_dot [] ha]
    simp [walkParts, setTree_same hwf.1 ht]
  · simp only [hemp, Bool.false_eq_true, if_false]
    have := rel_roundtrip_gen reg f ctx t (a.take n) (a.drop n) (b.drop n)
      (bareParts (b.drop n)) root xa xb hwf ht (by rw [← hA]; exact ha) (by rw [← hB]; exact hb)
      (spells_bare _) (by rw [hlen]; intro h; simp [h] at hemp)
    rw [hlen, ← hA, ← hB] at this
    exact this

/-! ### a step that names nothing, at the level of `find` -/

/-- Render absolute or relative. -/
def render (abs : Bool) (parts : List String) : String := if abs then renderAbs parts else renderRel parts

theorem splitOn_render_gen (abs : Bool) (parts : List String) (hne : parts ≠ [])
    (h : ∀ s ∈ parts, '/' ∉ s.toList) :
    (render abs parts).splitOn "/" = if abs then "" :: parts else parts := by
  cases abs with
  | true => simp [render, splitOn_renderAbs parts h]
  | false => simp [render, splitOn_render parts hne h]

theorem render_ne (abs : Bool) (parts : List String) (hne : parts ≠ [])
    (h : ∀ s ∈ parts, '/' ∉ s.toList) (hrel : abs = false → parts.head? ≠ some "") : render abs parts ≠ "" := by
  cases abs with
  | true => simpa [render] using renderAbs_ne parts hne h
  | false =>
    cases parts with
    | nil => exact absurd rfl hne
    | cons first rest =>
      have : first ≠ "" := by intro hf; exact hrel rfl (by simp [hf])
      simpa [render] using renderRel_ne first rest this h

theorem startOf_extend (reg : Registry) (start : Loc) (ctx : Nat) (abs : Bool) (pre more : List String)
    (hne : pre ≠ []) (hrel : abs = false → pre.head? ≠ some "") :
    startOf reg start ctx (if abs then "" :: (pre ++ more) else pre ++ more) =
      (startOf reg start ctx (if abs then "" :: pre else pre)).map fun r => (r.1, r.2.1, r.2.2 ++ more) := by
  cases pre with
  | nil => exact absurd rfl hne
  | cons first rest =>
    cases abs with
    | true =>
      simp only [if_true, startOf_abs, List.cons_append, List.headD_cons]
      rw [Option.map_map]; rfl
    | false =>
      have hf : first ≠ "" := by intro hf; exact hrel rfl (by simp [hf])
      simp only [Bool.false_eq_true, if_false, List.cons_append]
      rw [startOf_rel, startOf_rel]
      · rfl
      · intro parts h; simp only [List.cons.injEq] at h; exact hf h.1
      · intro parts h; simp only [List.cons.injEq] at h; exact hf h.1

/-- If the path up to some step reaches a node and the next step names no child of it, the
lookup of the whole path (whatever follows) returns nothing. -/
theorem absent_step (reg : Registry) (f : Forest) (start : Loc) (ctx : Nat) (abs : Bool)
    (pre : List String) (bad : String) (post : List String) (loc : Loc) (f' : Forest) (e : Entry)
    (hne : pre ≠ []) (hslash : ∀ s ∈ pre ++ bad :: post, '/' ∉ s.toList)
    (hrel : abs = false → pre.head? ≠ some "")
    (hreach : find reg f start ctx (render abs pre) = (some loc, f'))
    (hnode : nodeAt f' loc = some e) (hbad : NamesNoChild e bad) :
    (find reg f start ctx (render abs (pre ++ bad :: post))).1 = none := by
  have hs1 : ∀ s ∈ pre, '/' ∉ s.toList := fun s hs => hslash s (List.mem_append_left _ hs)
  have hne2 : pre ++ bad :: post ≠ [] := by simp
  have hrel2 : abs = false → (pre ++ bad :: post).head? ≠ some "" := by
    intro ha; cases pre with
    | nil => exact absurd rfl hne
    | cons a l => simpa using hrel ha
  rw [find_eq_findParts _ _ _ _ _ (render_ne abs pre hne hs1 hrel), splitOn_render_gen abs pre hne hs1] at hreach
  rw [find_eq_findParts _ _ _ _ _ (render_ne abs _ hne2 hslash hrel2), splitOn_render_gen abs _ hne2 hslash]
  unfold findParts at hreach ⊢
  rw [startOf_extend reg start ctx abs pre (bad :: post) hne hrel]
  cases hst : startOf reg start ctx (if abs then "" :: pre else pre) with
  | none => simp [hst] at hreach
  | some r =>
    obtain ⟨t, cur, ps⟩ := r
    simp only [hst, Option.map_some] at hreach ⊢
    cases htr : f.tree? t with
    | none => simp [htr] at hreach
    | some root =>
      simp only [htr] at hreach ⊢
      rw [walkParts_append]
      cases hw : walkParts ps root (some cur) with
      | mk r root1 =>
        simp only [hw, Prod.mk.injEq] at hreach ⊢
        obtain ⟨h1, h2⟩ := hreach
        cases r with
        | none => simp at h1
        | some p =>
          simp only [Option.map_some, Option.some.injEq] at h1
          subst h1 h2
          rw [nodeAt_setTree htr] at hnode
          simp [walk_bad post hnode hbad]

/-- The first step of a relative path names no child of the start node. -/
theorem absent_first_rel (reg : Registry) (f : Forest) (start : Loc) (ctx : Nat)
    (bad : String) (post : List String) (e : Entry)
    (hslash : ∀ s ∈ bad :: post, '/' ∉ s.toList) (hb0 : bad ≠ "")
    (hnode : nodeAt f start = some e) (hbad : NamesNoChild e bad) :
    (find reg f start ctx (renderRel (bad :: post))).1 = none := by
  unfold nodeAt at hnode
  cases htr : f.tree? start.1 with
  | none => simp [htr] at hnode
  | some root =>
    simp only [htr, Option.bind_some] at hnode
    rw [find_rel_eq reg f start ctx _ bad post root (renderRel_ne bad post hb0 hslash)
      (splitOn_render _ (by simp) hslash) hb0 htr]
    simp [walk_bad post hnode hbad]

/-- The first step of an absolute path names no child of the root of the tree it selects. -/
theorem absent_first_abs (reg : Registry) (f : Forest) (start : Loc) (ctx : Nat)
    (bad : String) (post : List String) (t : Nat) (root : Entry)
    (hslash : ∀ s ∈ bad :: post, '/' ∉ s.toList)
    (hsel : (if (splitPrefix bad).1 == "" then some (homeTree reg start.1)
             else prefixTree reg ctx (splitPrefix bad).1) = some t)
    (ht : f.tree? t = some root) (hbad : NamesNoChild root bad) :
    (find reg f start ctx (renderAbs (bad :: post))).1 = none := by
  rw [find_abs_eq reg f start ctx _ (bad :: post) t root (renderAbs_ne _ (by simp) hslash)
    (splitOn_renderAbs _ hslash) (by simpa using hsel) ht]
  simp [walk_bad post (show root.getAt [] = some root from rfl) hbad]

/-- A first prefix that denotes no loaded module: nothing is found; the failure is recorded on
the root entry of the start tree. -/
theorem unknown_prefix (reg : Registry) (f : Forest) (start : Loc) (ctx : Nat) (parts : List String)
    (hne : parts ≠ []) (hslash : ∀ s ∈ parts, '/' ∉ s.toList)
    (hp : (splitPrefix (parts.headD "")).1 ≠ "")
    (hsel : prefixTree reg ctx (splitPrefix (parts.headD "")).1 = none) :
    find reg f start ctx (renderAbs parts) = (none, withPrefixError f start.1) := by
  rw [find_eq_findParts _ _ _ _ _ (renderAbs_ne parts hne hslash), splitOn_renderAbs parts hslash]
  unfold findParts
  rw [startOf_abs]
  simp only [beq_iff_eq, hp, if_false, hsel, Option.map_none]

/-- `..` above the root of a tree. -/
theorem above_root (reg : Registry) (f : Forest) (t ctx : Nat) (post : List String)
    (hslash : ∀ s ∈ post, '/' ∉ s.toList) :
    (find reg f (t, []) ctx (renderRel (".." :: post))).1 = none := by
  have hs : ∀ s ∈ ".." :: post, '/' ∉ s.toList := by
    intro s h; rcases List.mem_cons.1 h with rfl | h
    · decide
    · exact hslash s h
  rw [find_eq_findParts _ _ _ _ _ (renderRel_ne ".." post (by decide) hs), splitOn_render _ (by simp) hs]
  unfold findParts
  rw [startOf_rel _ _ _ _ (by intro parts h; simp at h)]
  simp only
  cases htr : f.tree? t with
  | none => rfl
  | some root =>
    simp only
    rw [walk_dotdot post (show root.getAt [] = some root from rfl)]
    simp [walkParts_none]

/-! ### frame -/

/-- Whatever the path, the forest afterwards is the forest before, or the forest before with one
tree replaced by a `Grown` version of itself, or (first prefix unresolvable) the forest before
with the failure recorded on the root of the start tree. -/
theorem frame (reg : Registry) (f : Forest) (start : Loc) (ctx : Nat) (name : String) :
    (find reg f start ctx name).2 = f ∨
    (∃ t root root', f.tree? t = some root ∧ Grown root root' ∧ (find reg f start ctx name).2 = f.setTree t root') ∨
    ((find reg f start ctx name).1 = none ∧ (find reg f start ctx name).2 = withPrefixError f start.1) := by
  by_cases h0 : name = ""
  · left; subst h0; simp [find]
  · rw [find_eq_findParts _ _ _ _ _ h0]
    unfold findParts
    cases startOf reg start ctx (name.splitOn "/") with
    | none => right; right; exact ⟨rfl, rfl⟩
    | some r =>
      obtain ⟨t, cur, ps⟩ := r
      simp only
      cases htr : f.tree? t with
      | none => left; rfl
      | some root =>
        right; left
        exact ⟨t, root, _, htr, walkParts_grown ps root (some cur), rfl⟩

/-! ### every node has a location (the design-round spike `Tree.lean`, on the real `Entry`) -/

theorem distinct_find {l : List Entry} {k : Entry} (hm : k ∈ l) (hd : distinct (l.map (·.name)) = true) :
    l.find? (·.name == k.name) = some k := by
  induction l with
  | nil => cases hm
  | cons a l ih =>
    simp only [List.map_cons, distinct, Bool.and_eq_true, Bool.not_eq_true', List.contains_eq_mem,
      decide_eq_false_iff_not] at hd
    rcases List.mem_cons.1 hm with rfl | h
    · simp
    · have hne : a.name ≠ k.name := by
        intro heq; apply hd.1; rw [heq]; exact List.mem_map.2 ⟨k, h, rfl⟩
      simp [hne, ih h hd.2]

mutual
theorem getAt_nodes (e : Entry) (hwf : wfKeys e = true) : ∀ px ∈ nodes e, e.getAt px.1 = some px.2 := by
  match e with
  | .mk d c i o =>
    intro px hpx
    have wf := wfKeys_node hwf
    rw [nodes] at hpx
    rcases List.mem_cons.1 hpx with rfl | h
    · rfl
    · rcases List.mem_append.1 h with h | h
      · rcases List.mem_append.1 h with h | h
        · exact getAt_nodesDir d c i o c wf.distinct (fun _ h => h) ((wfKeysL_iff c).2 wf.dir) px h
        · exact getAt_nodesSlot d c i o true i rfl ((wfKeysL_iff i).2 wf.inp) px h
      · exact getAt_nodesSlot d c i o false o rfl ((wfKeysL_iff o).2 wf.out) px h
theorem getAt_nodesDir (d : EData) (all i o : List Entry) (ks : List Entry)
    (hd : distinct (all.map (·.name)) = true) (hsub : ∀ k ∈ ks, k ∈ all) (hwf : wfKeysL ks = true) :
    ∀ px ∈ nodesDir ks, (Entry.mk d all i o).getAt px.1 = some px.2 := by
  match ks with
  | [] => intro px h; simp [nodesDir] at h
  | k :: rest =>
    intro px h
    rw [nodesDir] at h
    simp only [wfKeysL, Bool.and_eq_true] at hwf
    rcases List.mem_append.1 h with h1 | h2
    · obtain ⟨qy, hqy, rfl⟩ := List.mem_map.1 h1
      have hk : k ∈ all := hsub k (List.mem_cons_self ..)
      simp only [Entry.getAt, Entry.child?, Entry.dir, distinct_find hk hd, Option.bind_some]
      exact getAt_nodes k hwf.1 qy hqy
    · exact getAt_nodesDir d all i o rest hd (fun k hk => hsub k (List.mem_cons_of_mem _ hk)) hwf.2 px h2
theorem getAt_nodesSlot (d : EData) (c i o : List Entry) (isIn : Bool) (l : List Entry)
    (hl : l = if isIn then i else o) (hwf : wfKeysL l = true) :
    ∀ px ∈ nodesSlot (if isIn then Step.input else Step.output) l, (Entry.mk d c i o).getAt px.1 = some px.2 := by
  match l with
  | [] => intro px h; simp [nodesSlot] at h
  | k :: rest =>
    intro px h
    rw [nodesSlot] at h
    simp only [wfKeysL, Bool.and_eq_true] at hwf
    obtain ⟨qy, hqy, rfl⟩ := List.mem_map.1 h
    cases isIn with
    | true =>
      simp only [if_true] at hl ⊢
      simp only [Entry.getAt, Entry.inp, ← hl, List.head?_cons, Option.bind_some]
      exact getAt_nodes k hwf.1 qy hqy
    | false =>
      simp only [Bool.false_eq_true, if_false] at hl ⊢
      simp only [Entry.getAt, Entry.out, ← hl, List.head?_cons, Option.bind_some]
      exact getAt_nodes k hwf.1 qy hqy
end

/-! ### growth keeps every existing node where it is -/

theorem addImplicit_d (b : Bool) (e : Entry) : (addImplicit b e).d = e.d := by
  cases e; cases b <;> rfl

theorem addImplicit_dir (b : Bool) (e : Entry) : (addImplicit b e).dir = e.dir := by
  cases e; cases b <;> rfl

theorem updateAt_d (b : Bool) (p : Path) (e : Entry) : (e.updateAt p (addImplicit b)).d = e.d := by
  cases p with
  | nil => exact addImplicit_d b e
  | cons s p => cases s <;> cases e <;> rfl

theorem find?_map_name (h : Entry → Entry) (hn : ∀ x, (h x).name = x.name) (k : String) (l : List Entry) :
    (l.map h).find? (·.name == k) = (l.find? (·.name == k)).map h := by
  induction l with
  | nil => rfl
  | cons a l ih =>
    simp only [List.map_cons, List.find?_cons, hn]
    cases (a.name == k) <;> simp [ih]

theorem updateAt_addImplicit_getAt (b : Bool) : ∀ (p : Path) (e e0 : Entry), e.getAt p = some e0 →
    (if b then e0.inp = [] else e0.out = []) →
    ∀ (q : Path) (x : Entry), e.getAt q = some x →
      ∃ x', (e.updateAt p (addImplicit b)).getAt q = some x' ∧ x'.d = x.d := by
  intro p
  induction p with
  | nil =>
    intro e e0 he he0 q x hx
    simp only [Entry.getAt, Option.some.injEq] at he
    subst he
    simp only [Entry.updateAt]
    cases q with
    | nil =>
      simp only [Entry.getAt, Option.some.injEq] at hx; subst hx
      exact ⟨_, rfl, addImplicit_d b e⟩
    | cons s q =>
      cases e with
      | mk d c i o =>
        cases s with
        | child k =>
          refine ⟨x, ?_, rfl⟩
          cases b <;> exact hx
        | input =>
          cases b with
          | false => exact ⟨x, hx, rfl⟩
          | true =>
            simp only [if_true, Entry.inp] at he0
            subst he0
            simp [Entry.getAt, Entry.inp] at hx
        | output =>
          cases b with
          | true => exact ⟨x, hx, rfl⟩
          | false =>
            simp only [Bool.false_eq_true, if_false, Entry.out] at he0
            subst he0
            simp [Entry.getAt, Entry.out] at hx
  | cons s p ih =>
    intro e e0 he he0 q x hx
    cases e with
    | mk d c i o =>
      cases q with
      | nil =>
        simp only [Entry.getAt, Option.some.injEq] at hx; subst hx
        exact ⟨_, rfl, updateAt_d b (s :: p) _⟩
      | cons s' q =>
        cases s with
        | child k =>
          simp only [Entry.updateAt]
          cases s' with
          | child k' =>
            simp only [Entry.getAt, Entry.child?, Entry.dir] at he hx ⊢
            rw [find?_map_name _ (by
              intro y; by_cases hy : (y.name == k) = true
              · rw [if_pos hy]; simp only [Entry.name, updateAt_d]
              · rw [if_neg hy])]
            cases hc1 : c.find? (·.name == k') with
            | none => simp [hc1] at hx
            | some c1 =>
              simp only [hc1, Option.bind_some, Option.map_some] at hx ⊢
              have hn1 : c1.name = k' := by simpa using List.find?_some hc1
              by_cases hk : (c1.name == k) = true
              · simp only [hk, if_true]
                have hkk : k' = k := by rw [← hn1]; simpa using hk
                subst hkk
                simp only [hc1, Option.bind_some] at he
                exact ih c1 e0 he he0 q x hx
              · simp only [hk, Bool.false_eq_true, if_false]
                exact ⟨x, hx, rfl⟩
          | input => exact ⟨x, hx, rfl⟩
          | output => exact ⟨x, hx, rfl⟩
        | input =>
          simp only [Entry.updateAt]
          cases s' with
          | child k' => exact ⟨x, hx, rfl⟩
          | output => exact ⟨x, hx, rfl⟩
          | input =>
            simp only [Entry.getAt, Entry.inp] at he hx ⊢
            cases i with
            | nil => simp at hx
            | cons c1 rest =>
              simp only [List.head?_cons, Option.bind_some, List.map_cons] at he hx ⊢
              exact ih c1 e0 he he0 q x hx
        | output =>
          simp only [Entry.updateAt]
          cases s' with
          | child k' => exact ⟨x, hx, rfl⟩
          | input => exact ⟨x, hx, rfl⟩
          | output =>
            simp only [Entry.getAt, Entry.out] at he hx ⊢
            cases o with
            | nil => simp at hx
            | cons c1 rest =>
              simp only [List.head?_cons, Option.bind_some, List.map_cons] at he hx ⊢
              exact ih c1 e0 he he0 q x hx

theorem growStep_getAt {a b : Entry} (h : GrowStep a b) (q : Path) (x : Entry) (hx : a.getAt q = some x) :
    ∃ x', b.getAt q = some x' ∧ x'.d = x.d := by
  cases h with
  | input p e hg _ hi => exact updateAt_addImplicit_getAt true p a e hg (by simpa using hi) q x hx
  | output p e hg _ hi => exact updateAt_addImplicit_getAt false p a e hg (by simpa using hi) q x hx

/-- Growth loses nothing and moves nothing: every location of the old tree is a location of the
new one, with the same node data. -/
theorem grown_getAt {a b : Entry} (h : Grown a b) : ∀ (q : Path) (x : Entry), a.getAt q = some x →
    ∃ x', b.getAt q = some x' ∧ x'.d = x.d := by
  induction h with
  | refl e => intro q x hx; exact ⟨x, hx, rfl⟩
  | step s _ ih =>
    intro q x hx
    obtain ⟨x1, h1, d1⟩ := growStep_getAt s q x hx
    obtain ⟨x2, h2, d2⟩ := ih q x1 h1
    exact ⟨x2, h2, d2.trans d1⟩

/-! ### a concrete forest for the non-vacuity examples of Props/C17: two modules, an rpc, a choice with an implicit case -/

namespace Example

def st (kw arg : String) (subs : List Stmt := []) : Stmt := .mk kw true arg "ex.yang" 1 1 subs
/-- `module a { namespace "urn:a"; prefix pa; … }` -/
def modA : Stmt := st "module" "a" [st "namespace" "urn:a", st "prefix" "pa"]
/-- `module b { namespace "urn:b"; prefix pb; import a { prefix qa; } … }` -/
def modB : Stmt := st "module" "b" [st "namespace" "urn:b", st "prefix" "pb", st "import" "a" [st "prefix" "qa"]]
def exReg : Registry := { mods := [⟨0, modA⟩, ⟨1, modB⟩], modules := [("a", 0), ("b", 1)] }

def leaf (n : String) : Entry := .mk { name := n, kind := .leaf, hasDir := false } [] [] []
def dirE (n : String) (k : Kind) (c : List Entry) : Entry := .mk { name := n, kind := k } c [] []

/-- a: container c { leaf x }, choice ch { (implicit case x0) leaf x0 }, rpc r { input { leaf i } } (no output) -/
def treeA : Entry :=
  dirE "a" .directory [
    dirE "c" .directory [leaf "x"],
    dirE "ch" .choice [dirE "x0" .case_ [leaf "x0"]],
    .mk { name := "r", isRpc := true } [] [.mk { name := "input", kind := .input } [leaf "i"] [] []] []]
/-- b: leaf y, container k { leaf z } -/
def treeB : Entry := dirE "b" .directory [leaf "y", dirE "k" .directory [leaf "z"]]
def exF : Forest := { trees := [(0, treeA), (1, treeB)] }

theorem exF_wf : WFForest exF := by
  constructor
  · decide
  · intro it hit
    have : wfForest exF = true := by decide
    simp only [wfForest, Bool.and_eq_true, List.all_eq_true] at this
    exact this.2 it hit

/-- In module b the prefix `qa` denotes module a (tree 0); its own prefix `pb` denotes b. -/
theorem exReg_qa : Denotes exReg 1 "qa" 0 := ⟨⟨1, modB⟩, ⟨0, modA⟩, ⟨0, modA⟩, by rfl, by rfl, by rfl, rfl⟩
theorem exReg_pb : Denotes exReg 1 "pb" 1 := ⟨⟨1, modB⟩, ⟨1, modB⟩, ⟨1, modB⟩, by rfl, by rfl, by rfl, rfl⟩
theorem good_qa : GoodPrefix "qa" := ⟨by decide, by decide, by decide⟩

theorem bogus_split : splitPrefix "qa:bogus" = ("qa", "bogus") := splitPrefix_pfx "qa" "bogus" (by decide) (by decide)

end Example

end Goyang.Lemmas.Find
