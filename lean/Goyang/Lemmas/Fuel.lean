import Goyang.Model.Process
import Goyang.Lemmas.FuelLoops
import Goyang.Lemmas.FuelGrouping
/-
Fuel bound of `toEntry` (Model/ToEntry.lean), property C01.

`toEntry` recurses on fuel; its `0` branch answers an `out-of-fuel` error entry.  The theorem of
this file, `toEntry_fuel`: when the fuel is at least `entryNeed` (a closed form in the number of
tracked statements (groupings, modules) and the maximal statement height of the loaded modules),
the result of `toEntry` does not depend on what the `0` branch answers, i.e. the recursion never
gets there.  The measure: along a call path every tracked node is entered at most once
(`visiting`), and between two tracked nodes the statement height strictly decreases.

How it is set up.  `toEntryBody` is the body of the `fuel + 1` branch of `toEntry` with the
recursive calls abstracted to a parameter `rec` (a verbatim copy: to re-synchronise after an edit
of the model, copy the branch again and replace `toEntry env fuel` by `rec`; the copy is checked
by `toEntry_succ`, which is `rfl`).  `toEntryZ z` is `toEntry` with the answer of the `0` branch
replaced by an arbitrary `z`.  `body_congr` walks through the body once and shows that it uses
`rec` only at the call sites listed in `Callee`; `callee_need` shows that every call site
lowers the measure.
-/
namespace Goyang.Lemmas.Fuel
open Goyang.Model

/-! ### statement height, substatement relation -/

/-- Height of a statement tree (a statement without substatements has height 1). -/
def height : Stmt → Nat
  | .mk _ _ _ _ _ _ subs => 1 + heightL subs
where heightL : List Stmt → Nat
  | [] => 0
  | s :: ss => max (height s) (heightL ss)

theorem height_pos (s : Stmt) : 1 ≤ height s := by
  cases s; simp [height]

theorem height_le_heightL {c : Stmt} {l : List Stmt} (h : c ∈ l) : height c ≤ height.heightL l := by
  induction l with
  | nil => cases h
  | cons x xs ih =>
    simp only [height.heightL]
    cases h with
    | head => exact Nat.le_max_left _ _
    | tail _ h => exact Nat.le_trans (ih h) (Nat.le_max_right _ _)

theorem height_child_lt {c n : Stmt} (h : c ∈ n.subs) : height c < height n := by
  cases n with
  | mk kw ha arg file line col subs =>
    have := height_le_heightL (c := c) (l := subs) h
    simp only [height]; omega

/-- `Sub s t`: `s` is `t` or a (transitive) substatement of `t`. -/
inductive Sub : Stmt → Stmt → Prop
  | refl (s : Stmt) : Sub s s
  | step {s c t : Stmt} : c ∈ t.subs → Sub s c → Sub s t

theorem Sub.child {c n t : Stmt} (hc : c ∈ n.subs) (hn : Sub n t) : Sub c t := by
  induction hn with
  | refl => exact .step hc (.refl c)
  | step hm _ ih => exact .step hm ih

theorem Sub.height_le {s t : Stmt} (h : Sub s t) : height s ≤ height t := by
  induction h with
  | refl => exact Nat.le_refl _
  | step hm _ ih => exact Nat.le_trans ih (Nat.le_of_lt (height_child_lt hm))

theorem mem_all_subs {n c : Stmt} {k : String} (h : c ∈ n.all k) : c ∈ n.subs := by
  simp only [Stmt.all] at h
  exact (List.mem_filter.mp h).1

theorem mem_one_subs {n c : Stmt} {k : String} (h : n.one? k = some c) : c ∈ n.subs := by
  simp only [Stmt.one?] at h
  exact List.mem_of_find?_eq_some h

/-! ### the measure -/

/-- Maximal statement height over the loaded modules. -/
def maxHeight (reg : Registry) : Nat := reg.mods.foldl (fun a m => max a (height m.stmt)) 0

theorem foldl_max_ge (l : List Mod) (a : Nat) : a ≤ l.foldl (fun a m => max a (height m.stmt)) a := by
  induction l generalizing a with
  | nil => exact Nat.le_refl _
  | cons x xs ih => exact Nat.le_trans (Nat.le_max_left _ _) (ih _)

theorem foldl_max_mem (l : List Mod) (a : Nat) (m : Mod) (h : m ∈ l) :
    height m.stmt ≤ l.foldl (fun a m => max a (height m.stmt)) a := by
  induction l generalizing a with
  | nil => cases h
  | cons x xs ih =>
    cases h with
    | head => exact Nat.le_trans (Nat.le_max_right _ _) (foldl_max_ge xs _)
    | tail _ h => exact ih _ h

theorem height_le_maxHeight {reg : Registry} {m : Mod} (hm : m ∈ reg.mods) : height m.stmt ≤ maxHeight reg :=
  foldl_max_mem _ _ _ hm

theorem sub_height_le_max {reg : Registry} {m : Mod} {s : Stmt} (hm : m ∈ reg.mods) (hs : Sub s m.stmt) :
    height s ≤ maxHeight reg :=
  Nat.le_trans hs.height_le (height_le_maxHeight hm)

/-- `toEntry` tracks (puts into `visiting`) modules, submodules and groupings. -/
def isTracked (s : Stmt) : Bool := (s.kw == "module" || s.kw == "submodule") || s.kw == "grouping"

/-- The tracked statements of a tree, the tree itself included. -/
def trackedIn : Stmt → List Stmt
  | .mk kw ha arg file line col subs =>
    (if isTracked (.mk kw ha arg file line col subs) then [.mk kw ha arg file line col subs] else []) ++ trackedInL subs
where trackedInL : List Stmt → List Stmt
  | [] => []
  | s :: ss => trackedIn s ++ trackedInL ss

theorem self_mem_trackedIn {s : Stmt} (h : isTracked s = true) : s ∈ trackedIn s := by
  cases s; simp only [trackedIn, h, ↓reduceIte]; simp

theorem trackedInL_mem {c x : Stmt} {l : List Stmt} (hc : c ∈ l) (hx : x ∈ trackedIn c) : x ∈ trackedIn.trackedInL l := by
  induction l with
  | nil => cases hc
  | cons y ys ih =>
    simp only [trackedIn.trackedInL, List.mem_append]
    cases hc with
    | head => exact .inl hx
    | tail _ h => exact .inr (ih h)

theorem trackedIn_child {c n x : Stmt} (hc : c ∈ n.subs) (hx : x ∈ trackedIn c) : x ∈ trackedIn n := by
  cases n with
  | mk kw ha arg file line col subs =>
    simp only [trackedIn, List.mem_append]
    exact .inr (trackedInL_mem hc hx)

theorem trackedIn_sub {s t : Stmt} (h : Sub s t) (ht : isTracked s = true) : s ∈ trackedIn t := by
  induction h with
  | refl => exact self_mem_trackedIn ht
  | step hm _ ih => exact trackedIn_child hm ih

/-- Identities of all tracked statements of the loaded modules (with multiplicity). -/
def tracked (reg : Registry) : List NodeId :=
  reg.mods.flatMap fun m => (trackedIn m.stmt).map (nodeId m)

theorem mem_tracked {reg : Registry} {m : Mod} {s : Stmt} (hm : m ∈ reg.mods) (hs : Sub s m.stmt)
    (ht : isTracked s = true) : nodeId m s ∈ tracked reg := by
  simp only [tracked, List.mem_flatMap, List.mem_map]
  exact ⟨m, hm, s, trackedIn_sub hs ht, rfl⟩

/-- Tracked identities not being visited (with multiplicity). -/
def free (reg : Registry) (visiting : List NodeId) : Nat :=
  ((tracked reg).filter fun x => !visiting.contains x).length

theorem free_le (reg : Registry) (visiting : List NodeId) : free reg visiting ≤ (tracked reg).length :=
  List.length_filter_le _ _

theorem filter_len_le {α} (p q : α → Bool) (l : List α) (himp : ∀ y, p y = true → q y = true) :
    (l.filter p).length ≤ (l.filter q).length := by
  induction l with
  | nil => exact Nat.le_refl _
  | cons y ys ih =>
    cases hp : p y <;> cases hq : q y
    · simp only [List.filter_cons, hp, hq]; exact ih
    · simp only [List.filter_cons, hp, hq]; exact Nat.le_succ_of_le ih
    · rw [himp y hp] at hq; cases hq
    · simp only [List.filter_cons, hp, hq]; exact Nat.succ_le_succ ih

theorem filter_len_lt {α} (p q : α → Bool) (l : List α) (himp : ∀ y, p y = true → q y = true)
    (x : α) (hx : x ∈ l) (hqx : q x = true) (hpx : p x = false) :
    (l.filter p).length < (l.filter q).length := by
  induction l with
  | nil => cases hx
  | cons y ys ih =>
    cases hx with
    | head =>
      simp only [List.filter_cons, hpx, hqx]
      exact Nat.lt_succ_of_le (filter_len_le p q ys himp)
    | tail _ h =>
      have := ih h
      cases hp : p y <;> cases hq : q y
      · simp only [List.filter_cons, hp, hq]; exact this
      · simp only [List.filter_cons, hp, hq]; exact Nat.lt_succ_of_lt this
      · rw [himp y hp] at hq; cases hq
      · simp only [List.filter_cons, hp, hq]; exact Nat.succ_lt_succ this

theorem filter_cons_lt (l : List NodeId) (v : List NodeId) (x : NodeId) (hx : x ∈ l) (hv : v.contains x = false) :
    (l.filter fun y => !(x :: v).contains y).length < (l.filter fun y => !v.contains y).length := by
  refine filter_len_lt _ _ l ?_ x hx ?_ ?_
  · intro y hy
    cases h : v.contains y
    · rfl
    · have hm : y ∈ v := by simpa using h
      simp at hy
      exact absurd hm hy.2
  · have hm : ¬ x ∈ v := by simpa using hv
    simpa using hm
  · simp

theorem free_cons_lt {reg : Registry} {visiting : List NodeId} {x : NodeId} (hx : x ∈ tracked reg)
    (hv : visiting.contains x = false) : free reg (x :: visiting) < free reg visiting :=
  filter_cons_lt _ _ _ hx hv

theorem free_pos {reg : Registry} {visiting : List NodeId} {x : NodeId} (hx : x ∈ tracked reg)
    (hv : visiting.contains x = false) : 1 ≤ free reg visiting := by
  have := free_cons_lt hx hv; omega

/-! ### the body of `toEntry` with the recursive calls abstracted -/

/-- The type of `toEntry env fuel`. -/
abbrev Rec := Mod → List Stmt → Stmt → List NodeId → TState → Entry × TState

/-- The field step of the directory case (the local `step` of `toEntry`), `rec` abstracted. -/
def stepB (env : Env) (rec : Rec) (root : Mod) (n : Stmt) (sub : List Stmt) (visiting : List NodeId) (isMod : Bool)
    (acc : Entry × TState) (f : String) : Entry × TState :=
let addAll (kw : String) (acc : Entry × TState) : Entry × TState :=
  (n.all kw).foldl (fun (acc : Entry × TState) c =>
    let (ce, st) := rec root sub c visiting acc.2
    (acc.1.add c.arg ce, st)) acc
  let (e, st) := acc
  match f with
  | "config" =>
    let (t, er) := tristate n (n.one? "config")
    ((e.withD fun d => { d with config := t }).addErrs er, st)
  | "mandatory" =>
    let (t, er) := tristate n (n.one? "mandatory")
    ((e.withD fun d => { d with mandatory := t }).addErrs er, st)
  | "description" =>
    (match n.argOf? "description" with
      | some v => e.withD fun d => { d with description := v }
      | none => e, st)
  | "key" =>
    (match n.argOf? "key" with
      | some v => e.withD fun d => { d with key := v }
      | none => e, st)
  | "anydata" | "anyxml" | "case" | "choice" | "container" | "leaf" | "leaf-list" | "list"
  | "notification" => addAll f acc
  | "rpc" | "action" =>
    -- an rpc / action entry always has its `RPC` set, also without written input or output
    (n.all f).foldl (fun (acc : Entry × TState) c =>
      let (ce, st) := rec root sub c visiting acc.2
      (acc.1.add c.arg (ce.withD fun d => { d with isRpc := true }), st)) acc
  | "grouping" =>
    (n.all "grouping").foldl (fun (acc : Entry × TState) g =>
      let (ge, st) := rec root sub g visiting acc.2
      (acc.1.importErrors ge, st)) acc
  | "uses" =>
    (n.all "uses").foldl (fun (acc : Entry × TState) u =>
      let (ge, st) := rec root sub u visiting acc.2
      (acc.1.merge none ge, st)) acc
  | "input" =>
    match n.one? "input" with
    | none => acc
    | some i =>
      let (ie, st) := rec root sub i visiting st
      let ie := ie.withD fun d => { d with name := "input", kind := .input }
      (match e with | .mk d c _ o => .mk { d with isRpc := true } c [ie] o, st)
  | "output" =>
    match n.one? "output" with
    | none => acc
    | some o =>
      let (oe, st) := rec root sub o visiting st
      let oe := oe.withD fun d => { d with name := "output", kind := .output }
      (match e with | .mk d c i _ => .mk { d with isRpc := true } c i [oe], st)
  | "include" =>
    (n.all "include").foldl (fun (acc : Entry × TState) a =>
      let (e, st) := acc
      match env.includeTarget root a with
      | none => (e.addErr (Err.at_ a "other"), st)
      | some im =>
        let srcToIncluded := im.name ++ ":" ++ n.arg
        let includedToSrc := n.arg ++ ":" ++ im.name
        if st.merged.contains srcToIncluded then (e, st)
        else if !st.merged.contains includedToSrc && im.name != n.arg then
          let includedToParent := im.name ++ ":" ++ (im.belongsTo?.getD "")
          if st.merged.contains includedToParent then (e, st)
          else
            let st := { st with merged := st.merged ++ [srcToIncluded, includedToParent] }
            let (ie, st) := rec im [] im.stmt visiting st
            (e.merge none ie, st)
        else if env.opts.ignoreCircular then (e, st)
        else (e.addErr (Err.bare "cycle"), st)) acc
  | "deviation" =>
    (n.all "deviation").foldl (fun (acc : Entry × TState) dv =>
      let (de, st) := rec root sub dv visiting acc.2
      (acc.1.importErrors de, st)) acc
  | "deviate" =>
    (n.all "deviate").foldl (fun (acc : Entry × TState) dv =>
      let (de, st) := rec root sub dv visiting acc.2
      let e := acc.1.importErrors de
      (if deviateKinds.contains dv.arg then e else e.addErr (Err.at_ n "deviate-unknown-kind"), st)) acc
  | "type" =>
    -- only reached for deviate nodes
    match n.one? "type" with
    | none => acc
    | some t =>
      let (ty, terrs) := env.tres.resolve env.reg root sub t
      if terrs.isEmpty then (e.withD fun d => { d with type := ty }, st)
      else (e.addErr (Err.bare "deviate-bad-type"), st)
  | "default" =>
    if e.d.kind == .deviate then
      (match n.one? "default" with
        | some dflt => e.withD fun d => { d with default := [dflt.arg] }
        | none => e, st)
    else acc
  | "units" =>
    (match n.argOf? "units" with
      | some v => e.withD fun d => { d with units := v }
      | none => e, st)
  | "max-elements" =>
    if e.d.kind != .deviate then acc else
    let e := e.withD fun d => { d with listAttr := some (d.listAttr.getD {}) }
    (match n.one? "max-elements" with
      | none => e
      | some v =>
        let (mx, er) := semMax (some v)
        (e.withD fun d => { d with hasMax := true, listAttr := some { (d.listAttr.getD {}) with max := mx } }).addErrs er, st)
  | "min-elements" =>
    if e.d.kind != .deviate then acc else
    let e := e.withD fun d => { d with listAttr := some (d.listAttr.getD {}) }
    (match n.one? "min-elements" with
      | none => e
      | some v =>
        let (mn, er) := semMin (some v)
        (e.withD fun d => { d with hasMin := true, listAttr := some { (d.listAttr.getD {}) with min := mn } }).addErrs er, st)
  | "augment" =>
    if !isMod then acc else
    let (as, st) := (n.all "augment").foldl (fun (acc : List Entry × TState) a =>
      let (ae, st) := rec root sub a visiting acc.2
      (acc.1 ++ [ae], st)) ([], st)
    (e, { st with augs := st.augs ++ [(root.seq, as)] })
  | _ => acc      -- prefix, identity, …

/-- The `fuel + 1` branch of `toEntry` around its two kinds of recursive calls: `usesRes` stands
for the result of the `uses` case, `dirRes` for the fold of the local field step over the fields of
the directory case. -/
def skeleton (env : Env) (root : Mod) (scope : List Stmt) (n : Stmt) (visiting : List NodeId) (st : TState)
    (usesRes : Entry × TState) (dirRes : Bool → Entry → Entry × TState) : Entry × TState :=
    let isMod := n.kw == "module" || n.kw == "submodule"
    -- entry cache (module-level nodes: the only ones whose conversion depends on `st`)
    match (if isMod then st.cache.find? (·.1 == root.seq) else none) with
    | some (_, e) => (e, st)
    | none =>
    match (if n.kw == "grouping" then st.gcache.find? (·.1 == nodeId root n) else none) with
    | some (_, e) => (e, st)
    | none =>
    let track := isMod || n.kw == "grouping"
    if track && visiting.contains (nodeId root n) then (errorEntry root n "cycle", st) else
    if n.kw == "leaf" then (leafEntry env root scope n false, st)
    else if n.kw == "leaf-list" then
      let e := leafEntry env root scope n true
      let (la, lerrs) := listAttrOf n
      (e.withD fun d => { d with listAttr := some la, errors := d.errors ++ lerrs,
                                 default := (n.all "default").map (·.arg) }, st)
    else if n.kw == "uses" then usesRes
    else
    -- directory node
    let base : EData := { name := n.arg, kind := kindOfKw n.kw, hasDir := true, node := n, nodeMod := root.seq,
                          nodeKw := n.kw }
    let (base, kerrs) : EData × List Err :=
      if n.kw == "list" then
        let (la, lerrs) := listAttrOf n
        ({ base with listAttr := some la }, lerrs)
      else if n.kw == "choice" then
        ({ base with default := match n.one? "default" with | some d => [d.arg] | none => [] }, [])
      else (base, [])
    let e0 : Entry := .mk { base with errors := kerrs } [] [] []
    let (e, st) := dirRes isMod e0
    if isMod then (e, { st with cache := st.cache ++ [(root.seq, e)] })
    else if n.kw == "grouping" then (e, { st with gcache := st.gcache ++ [(nodeId root n, e)] })
    else (e, st)

/-- `visiting` as the body passes it on: a tracked node adds itself. -/
def visiting' (root : Mod) (n : Stmt) (visiting : List NodeId) : List NodeId :=
  if isTracked n then nodeId root n :: visiting else visiting

/-- The `fuel + 1` branch of `toEntry` with `toEntry env fuel` replaced by `rec`.  `skeleton`,
`stepB` and the `uses` case below are together a verbatim copy of that branch in
Model/ToEntry.lean; `toEntry_succ` (proved by `rfl`) checks that the copy is faithful. -/
def toEntryBody (env : Env) (fuel : Nat) (rec : Rec) : Rec := fun root scope n visiting st =>
  skeleton env root scope n visiting st
    (match (findGrouping env.reg env.linked (2 * fuel + 16) root scope n.arg []).1 with
      | none => (errorEntry root n "unknown-group", st)
      | some (g, groot, gscope) => rec groot gscope g (visiting' root n visiting) st)
    (fun isMod e0 => (fieldOrder n.kw).foldl (stepB env rec root n (n :: scope) (visiting' root n visiting) isMod) (e0, st))

/-- The copy is faithful. -/
theorem toEntry_succ (env : Env) (fuel : Nat) : toEntry env (fuel + 1) = toEntryBody env fuel (toEntry env fuel) := by
  funext root scope n visiting st
  rfl

/-! ### `toEntry` with an arbitrary answer of the `0` branch -/

/-- `toEntry` whose out-of-fuel branch answers `z`. -/
def toEntryZ (env : Env) (z : Mod → Stmt → TState → Entry × TState) : Nat → Rec
  | 0 => fun root _ n _ st => z root n st
  | fuel + 1 => toEntryBody env fuel (toEntryZ env z fuel)

/-- What the model's `0` branch answers. -/
def oofAnswer : Mod → Stmt → TState → Entry × TState := fun root n st => (errorEntry root n "out-of-fuel", st)

theorem toEntryZ_oof (env : Env) (fuel : Nat) : toEntryZ env oofAnswer fuel = toEntry env fuel := by
  induction fuel with
  | zero => rfl
  | succ k ih => rw [toEntry_succ, ← ih]; rfl

/-- The call sites of the body at `(root, scope, n, visiting)`: what `rec` is applied to. -/
inductive Callee (env : Env) (root : Mod) (scope : List Stmt) (n : Stmt) (visiting : List NodeId) :
    Mod → List Stmt → Stmt → List NodeId → Prop
  | child {c : Stmt} : c ∈ n.subs → Callee env root scope n visiting root (n :: scope) c (visiting' root n visiting)
  | uses {fuel : Nat} {g : Stmt} {groot : Mod} {gscope : List Stmt} :
      (findGrouping env.reg env.linked fuel root scope n.arg []).1 = some (g, groot, gscope) →
      Callee env root scope n visiting groot gscope g (visiting' root n visiting)
  | include_ {a : Stmt} {im : Mod} : "include" ∈ fieldOrder n.kw → env.includeTarget root a = some im →
      Callee env root scope n visiting im [] im.stmt (visiting' root n visiting)

theorem foldl_ext_mem {α β} (f g : β → α → β) (l : List α) (a : β)
    (h : ∀ acc, ∀ x ∈ l, f acc x = g acc x) : l.foldl f a = l.foldl g a := by
  induction l generalizing a with
  | nil => rfl
  | cons x xs ih =>
    simp only [List.foldl_cons]
    rw [h a x (List.mem_cons_self ..)]
    exact ih _ (fun acc y hy => h acc y (List.mem_cons_of_mem _ hy))

/-- Re-entering a tracked node answers the cycle error (or a cached entry): neither recursive
result is looked at. -/
theorem skeleton_cyc (env : Env) (root : Mod) (scope : List Stmt) (n : Stmt) (visiting : List NodeId) (st : TState)
    (u1 u2 : Entry × TState) (d1 d2 : Bool → Entry → Entry × TState)
    (hc : (isTracked n && visiting.contains (nodeId root n)) = true) :
    skeleton env root scope n visiting st u1 d1 = skeleton env root scope n visiting st u2 d2 := by
  simp only [isTracked] at hc
  simp only [skeleton, hc, ↓reduceIte]

theorem step_congr (env : Env) (r1 r2 : Rec) (root : Mod) (n : Stmt) (sub : List Stmt) (vis : List NodeId) (isMod : Bool)
    (acc : Entry × TState) (f : String)
    (hch : ∀ c st', c ∈ n.subs → r1 root sub c vis st' = r2 root sub c vis st')
    (hinc : f = "include" → ∀ a im st', env.includeTarget root a = some im →
      r1 im [] im.stmt vis st' = r2 im [] im.stmt vis st') :
    stepB env r1 root n sub vis isMod acc f = stepB env r2 root n sub vis isMod acc f := by
  obtain ⟨e, st⟩ := acc
  unfold stepB
  dsimp only
  split
  all_goals try rfl
  all_goals try (apply foldl_ext_mem; intro acc c hc; rw [hch c _ (mem_all_subs hc)]; done)
  -- input, output
  all_goals try (split; rfl; rename_i i heq; rw [hch i _ (mem_one_subs heq)]; done)
  -- include
  all_goals try (apply foldl_ext_mem; intro acc a _; split; rfl; rename_i im heq; simp only [hinc rfl a im _ heq]; done)
  -- augment
  all_goals try (
    have hf : List.foldl (fun (acc : List Entry × TState) a => (acc.fst ++ [(r1 root sub a vis acc.snd).fst], (r1 root sub a vis acc.snd).snd))
          ([], st) (n.all "augment") =
        List.foldl (fun (acc : List Entry × TState) a => (acc.fst ++ [(r2 root sub a vis acc.snd).fst], (r2 root sub a vis acc.snd).snd))
          ([], st) (n.all "augment") :=
      foldl_ext_mem _ _ _ _ (fun acc a ha => by rw [hch a _ (mem_all_subs ha)])
    rw [hf]; done)

/-- The body uses `rec` only at its call sites. -/
theorem body_congr (env : Env) (fuel : Nat) (r1 r2 : Rec) (root : Mod) (scope : List Stmt) (n : Stmt)
    (visiting : List NodeId) (st : TState)
    (h : ∀ root' scope' n' vis' st', Callee env root scope n visiting root' scope' n' vis' →
      r1 root' scope' n' vis' st' = r2 root' scope' n' vis' st') :
    toEntryBody env fuel r1 root scope n visiting st = toEntryBody env fuel r2 root scope n visiting st := by
  have hch : ∀ c st', c ∈ n.subs →
      r1 root (n :: scope) c (visiting' root n visiting) st' = r2 root (n :: scope) c (visiting' root n visiting) st' :=
    fun c st' hc => h _ _ _ _ _ (.child hc)
  have hinc : "include" ∈ fieldOrder n.kw → ∀ a im st', env.includeTarget root a = some im →
      r1 im [] im.stmt (visiting' root n visiting) st' = r2 im [] im.stmt (visiting' root n visiting) st' :=
    fun hf a im st' ha => h _ _ _ _ _ (.include_ hf ha)
  have hdir : (fun (isMod : Bool) (e0 : Entry) =>
        (fieldOrder n.kw).foldl (stepB env r1 root n (n :: scope) (visiting' root n visiting) isMod) (e0, st)) =
      (fun (isMod : Bool) (e0 : Entry) =>
        (fieldOrder n.kw).foldl (stepB env r2 root n (n :: scope) (visiting' root n visiting) isMod) (e0, st)) := by
    funext isMod e0
    exact foldl_ext_mem _ _ _ _ (fun acc f hf => step_congr env r1 r2 root n _ _ isMod acc f hch (fun hfi => hinc (hfi ▸ hf)))
  have huses : (match (findGrouping env.reg env.linked (2 * fuel + 16) root scope n.arg []).1 with
      | none => (errorEntry root n "unknown-group", st)
      | some (g, groot, gscope) => r1 groot gscope g (visiting' root n visiting) st) =
      (match (findGrouping env.reg env.linked (2 * fuel + 16) root scope n.arg []).1 with
      | none => (errorEntry root n "unknown-group", st)
      | some (g, groot, gscope) => r2 groot gscope g (visiting' root n visiting) st) := by
    split
    · rfl
    · rename_i g groot gscope heq
      exact h _ _ _ _ _ (.uses heq)
  unfold toEntryBody
  rw [huses, hdir]

/-! ### the measure decreases at every call site -/

theorem include_field_kw {kw : String} (h : "include" ∈ fieldOrder kw) : kw = "module" ∨ kw = "submodule" := by
  unfold fieldOrder at h
  split at h
  all_goals first
    | (left; rfl)
    | (right; rfl)
    | (exfalso; revert h; decide)

theorem includeTarget_mem {env : Env} {root im : Mod} {a : Stmt} (h : env.includeTarget root a = some im) :
    im ∈ env.reg.mods := by
  unfold Env.includeTarget at h
  split at h
  · exact findModule_mem h
  · cases h

/-- What a call of `toEntry` needs: see the file header. `H + 2` units per tracked node that can
still be entered, plus the height of the statement when it is not itself tracked. -/
def need (reg : Registry) (root : Mod) (n : Stmt) (visiting : List NodeId) : Nat :=
  if isTracked n then
    (if visiting.contains (nodeId root n) then 1 else free reg visiting * (maxHeight reg + 2))
  else height n + 1 + free reg visiting * (maxHeight reg + 2)

/-- Where `toEntry` is called: the root is a loaded module, the node and the scope are statements of it. -/
structure Inv (env : Env) (root : Mod) (scope : List Stmt) (n : Stmt) : Prop where
  root_mem : root ∈ env.reg.mods
  node : Sub n root.stmt
  scope : ∀ s ∈ scope, Sub s root.stmt

theorem need_pos {env : Env} {root : Mod} {scope : List Stmt} {n : Stmt} (visiting : List NodeId)
    (inv : Inv env root scope n) : 1 ≤ need env.reg root n visiting := by
  unfold need
  split
  · rename_i ht
    split
    · exact Nat.le_refl _
    · rename_i hv
      have hv' : visiting.contains (nodeId root n) = false := by simpa using hv
      have := free_pos (mem_tracked inv.root_mem inv.node ht) hv'
      calc 1 ≤ 1 * 2 := by omega
        _ ≤ free env.reg visiting * (maxHeight env.reg + 2) := Nat.mul_le_mul this (by omega)
  · omega

/-- `need` of a callee entered with `vis'`, bounded through the cases of `need`. -/
theorem need_le_of {reg : Registry} {root : Mod} {n : Stmt} {vis : List NodeId} {k : Nat}
    (h1 : 1 ≤ k) (h2 : free reg vis * (maxHeight reg + 2) ≤ k)
    (h3 : isTracked n = false → height n + 1 + free reg vis * (maxHeight reg + 2) ≤ k) :
    need reg root n vis ≤ k := by
  unfold need
  split
  · split
    · exact h1
    · exact h2
  · rename_i ht
    exact h3 (by simpa using ht)

theorem callee_need {env : Env} {root : Mod} {scope : List Stmt} {n : Stmt} {visiting : List NodeId} {fuel : Nat}
    (inv : Inv env root scope n) (hneed : need env.reg root n visiting ≤ fuel + 1)
    (hc : ¬ (isTracked n && visiting.contains (nodeId root n)) = true)
    {root' : Mod} {scope' : List Stmt} {n' : Stmt} {vis' : List NodeId}
    (hcal : Callee env root scope n visiting root' scope' n' vis') :
    Inv env root' scope' n' ∧ need env.reg root' n' vis' ≤ fuel := by
  -- facts about the caller, by its kind
  have caller : (isTracked n = true ∧ visiting.contains (nodeId root n) = false ∧
        free env.reg (visiting' root n visiting) * (maxHeight env.reg + 2) + (maxHeight env.reg + 2) ≤ fuel + 1) ∨
      (isTracked n = false ∧ visiting' root n visiting = visiting ∧
        height n + 1 + free env.reg visiting * (maxHeight env.reg + 2) ≤ fuel + 1) := by
    cases ht : isTracked n
    · right
      refine ⟨rfl, by simp [visiting', ht], ?_⟩
      have := hneed
      unfold need at this
      rw [if_neg (by rw [ht]; exact Bool.false_ne_true)] at this
      exact this
    · left
      have hv : visiting.contains (nodeId root n) = false := by
        cases hv : visiting.contains (nodeId root n)
        · rfl
        · exact absurd (by rw [ht, hv]; rfl) hc
      refine ⟨rfl, hv, ?_⟩
      have hlt : free env.reg (nodeId root n :: visiting) < free env.reg visiting :=
        free_cons_lt (mem_tracked inv.root_mem inv.node ht) hv
      have hn : free env.reg visiting * (maxHeight env.reg + 2) ≤ fuel + 1 := by
        have := hneed
        unfold need at this
        rw [if_pos ht, if_neg (by rw [hv]; exact Bool.false_ne_true)] at this
        exact this
      have hmul : (free env.reg (nodeId root n :: visiting) + 1) * (maxHeight env.reg + 2) ≤
          free env.reg visiting * (maxHeight env.reg + 2) := Nat.mul_le_mul_right _ hlt
      rw [Nat.add_mul, Nat.one_mul] at hmul
      simp only [visiting', ht, ↓reduceIte]
      omega
  cases hcal with
  | child hcm =>
    have hsub : Sub n' root.stmt := Sub.child hcm inv.node
    refine ⟨⟨inv.root_mem, hsub, ?_⟩, ?_⟩
    · intro s hs
      cases hs with
      | head => exact inv.node
      | tail _ h => exact inv.scope s h
    · have hcn : height n' < height n := height_child_lt hcm
      have hcp := height_pos n'
      have hnH : height n ≤ maxHeight env.reg := sub_height_le_max inv.root_mem inv.node
      rcases caller with ⟨_, _, hle⟩ | ⟨_, hvis, hle⟩
      · apply need_le_of
        · omega
        · omega
        · intro _; omega
      · rw [hvis]
        apply need_le_of
        · omega
        · omega
        · intro _; omega
  | uses hfg =>
    obtain ⟨hkw, ⟨n0, up, hgs, hgm⟩, hloc⟩ := findGrouping_sound hfg
    have hgt : isTracked n' = true := by simp [isTracked, hkw]
    have hinv : Inv env root' scope' n' := by
      rcases hloc with ⟨hroot, pre, hpre⟩ | ⟨hmem, hgs'⟩
      · subst hroot
        have hsc : ∀ s ∈ scope', Sub s root'.stmt := fun s hs =>
          inv.scope s (by rw [hpre]; exact List.mem_append_right _ hs)
        have hn0 : Sub n0 root'.stmt := hsc n0 (by rw [hgs]; exact List.mem_cons_self ..)
        exact ⟨inv.root_mem, Sub.child hgm hn0, hsc⟩
      · have hn0 : n0 = root'.stmt := by
          rw [hgs'] at hgs
          cases hgs; rfl
        subst hn0
        refine ⟨hmem, Sub.child hgm (.refl _), ?_⟩
        intro s hs
        rw [hgs'] at hs
        cases hs with
        | head => exact .refl _
        | tail _ h => cases h
    refine ⟨hinv, ?_⟩
    have hnp := height_pos n
    rcases caller with ⟨_, _, hle⟩ | ⟨_, hvis, hle⟩
    · apply need_le_of
      · omega
      · omega
      · intro hf; rw [hgt] at hf; cases hf
    · rw [hvis]
      apply need_le_of
      · omega
      · omega
      · intro hf; rw [hgt] at hf; cases hf
  | include_ hf hit =>
    have him : root' ∈ env.reg.mods := includeTarget_mem hit
    refine ⟨⟨him, .refl _, fun s hs => by cases hs⟩, ?_⟩
    have hkw := include_field_kw hf
    have hnt : isTracked n = true := by
      rcases hkw with h | h <;> simp [isTracked, h]
    have hiH : height root'.stmt ≤ maxHeight env.reg := height_le_maxHeight him
    rcases caller with ⟨_, _, hle⟩ | ⟨hnf, _, _⟩
    · apply need_le_of
      · omega
      · omega
      · intro _; omega
    · rw [hnt] at hnf; cases hnf

/-! ### the fuel theorem -/

/-- With fuel at least `need`, the answer of the `0` branch does not reach the result. -/
theorem toEntryZ_indep (env : Env) (z z' : Mod → Stmt → TState → Entry × TState) :
    ∀ (fuel : Nat) (root : Mod) (scope : List Stmt) (n : Stmt) (visiting : List NodeId) (st : TState),
      Inv env root scope n → need env.reg root n visiting ≤ fuel →
      toEntryZ env z fuel root scope n visiting st = toEntryZ env z' fuel root scope n visiting st := by
  intro fuel
  induction fuel with
  | zero =>
    intro root scope n visiting st inv h
    have := need_pos visiting inv
    omega
  | succ k ih =>
    intro root scope n visiting st inv h
    show toEntryBody env k (toEntryZ env z k) root scope n visiting st =
      toEntryBody env k (toEntryZ env z' k) root scope n visiting st
    by_cases hc : (isTracked n && visiting.contains (nodeId root n)) = true
    · unfold toEntryBody
      exact skeleton_cyc _ _ _ _ _ _ _ _ _ _ hc
    · apply body_congr
      intro root' scope' n' vis' st' hcal
      obtain ⟨inv', hn'⟩ := callee_need inv h hc hcal
      exact ih root' scope' n' vis' st' inv' hn'

/-- Closed form: `H + 2` units for every tracked statement of the registry, and one more block
for the statements above the first tracked one. -/
def entryNeed (reg : Registry) : Nat := ((tracked reg).length + 1) * (maxHeight reg + 2)

theorem need_le_entryNeed {env : Env} {root : Mod} {scope : List Stmt} {n : Stmt} (visiting : List NodeId)
    (inv : Inv env root scope n) : need env.reg root n visiting ≤ entryNeed env.reg := by
  have hf := free_le env.reg visiting
  have hh : height n ≤ maxHeight env.reg := sub_height_le_max inv.root_mem inv.node
  have hmul : free env.reg visiting * (maxHeight env.reg + 2) ≤ (tracked env.reg).length * (maxHeight env.reg + 2) :=
    Nat.mul_le_mul_right _ hf
  unfold entryNeed
  rw [Nat.add_mul, Nat.one_mul]
  apply need_le_of
  · omega
  · omega
  · intro _; omega

/-- **Fuel bound of `toEntry`.**  For a call on a statement of a loaded module with fuel at least
`entryNeed`, `toEntry` coincides with `toEntryZ z` for every `z`: whatever the out-of-fuel branch
would answer does not matter, the recursion never reaches it. -/
theorem toEntry_fuel (env : Env) (fuel : Nat) (root : Mod) (scope : List Stmt) (n : Stmt) (visiting : List NodeId)
    (st : TState) (inv : Inv env root scope n) (hfuel : entryNeed env.reg ≤ fuel)
    (z : Mod → Stmt → TState → Entry × TState) :
    toEntry env fuel root scope n visiting st = toEntryZ env z fuel root scope n visiting st := by
  rw [← toEntryZ_oof]
  exact toEntryZ_indep env _ _ fuel root scope n visiting st inv (Nat.le_trans (need_le_entryNeed visiting inv) hfuel)

/-- A top-level call of `processAll`: the module statement itself. -/
theorem Inv.top {env : Env} {m : Mod} (hm : m ∈ env.reg.mods) : Inv env m [] m.stmt :=
  ⟨hm, .refl _, fun _ h => by cases h⟩

/-- The call `processAll` makes for a deviate statement. -/
theorem Inv.deviate {env : Env} {m : Mod} {dv ds : Stmt} (hm : m ∈ env.reg.mods) (hdv : dv ∈ m.stmt.all "deviation")
    (hds : ds ∈ dv.all "deviate") : Inv env m [dv, m.stmt] ds := by
  have h1 : Sub dv m.stmt := Sub.child (mem_all_subs hdv) (.refl _)
  refine ⟨hm, Sub.child (mem_all_subs hds) h1, ?_⟩
  intro s hs
  cases hs with
  | head => exact h1
  | tail _ h =>
    cases h with
    | head => exact .refl _
    | tail _ h => cases h

/-! ### `entryNeed` against the statement count -/

/-- The sum the model's `entryFuel` is computed from. -/
def totalStmts (reg : Registry) : Nat := reg.mods.foldl (fun a m => a + stmtCount m.stmt) 0

theorem entryFuel_eq (reg : Registry) : entryFuel reg = (totalStmts reg + 2) * (totalStmts reg + 2) + 64 := rfl

mutual
theorem height_le_count : (s : Stmt) → height s ≤ stmtCount s
  | .mk _ _ _ _ _ _ subs => by
    have := heightL_le_countL subs
    simp only [height, stmtCount]; omega
theorem heightL_le_countL : (l : List Stmt) → height.heightL l ≤ stmtCount.countL l
  | [] => Nat.le_refl _
  | s :: ss => by
    have h1 := height_le_count s
    have h2 := heightL_le_countL ss
    simp only [height.heightL, stmtCount.countL]; omega
end

mutual
theorem trackedIn_le_count : (s : Stmt) → (trackedIn s).length ≤ stmtCount s
  | .mk kw ha arg file line col subs => by
    have := trackedInL_le_countL subs
    simp only [trackedIn, stmtCount, List.length_append]
    split <;> simp <;> omega
theorem trackedInL_le_countL : (l : List Stmt) → (trackedIn.trackedInL l).length ≤ stmtCount.countL l
  | [] => Nat.le_refl _
  | s :: ss => by
    have h1 := trackedIn_le_count s
    have h2 := trackedInL_le_countL ss
    simp only [trackedIn.trackedInL, stmtCount.countL, List.length_append]; omega
end

theorem foldl_sum_shift (l : List Mod) (a : Nat) :
    l.foldl (fun a m => a + stmtCount m.stmt) a = a + l.foldl (fun a m => a + stmtCount m.stmt) 0 := by
  induction l generalizing a with
  | nil => rfl
  | cons x xs ih =>
    simp only [List.foldl_cons, Nat.zero_add]
    rw [ih (a + stmtCount x.stmt), ih (stmtCount x.stmt)]; omega

theorem tracked_le_total (reg : Registry) : (tracked reg).length ≤ totalStmts reg := by
  unfold tracked totalStmts
  induction reg.mods with
  | nil => exact Nat.le_refl _
  | cons x xs ih =>
    simp only [List.flatMap_cons, List.length_append, List.length_map, List.foldl_cons, Nat.zero_add]
    rw [foldl_sum_shift]
    have := trackedIn_le_count x.stmt
    omega

theorem maxHeight_le_total (reg : Registry) : maxHeight reg ≤ totalStmts reg := by
  unfold maxHeight totalStmts
  suffices h : ∀ (l : List Mod) (a b : Nat), a ≤ b →
      l.foldl (fun a m => max a (height m.stmt)) a ≤ l.foldl (fun a m => a + stmtCount m.stmt) b from h _ 0 0 (Nat.le_refl _)
  intro l
  induction l with
  | nil => intro a b h; exact h
  | cons x xs ih =>
    intro a b h
    simp only [List.foldl_cons]
    apply ih
    have := height_le_count x.stmt
    omega

/-- `entryNeed` is at most quadratic in the number of statements loaded. -/
theorem entryNeed_le_quadratic (reg : Registry) : entryNeed reg ≤ (totalStmts reg + 1) * (totalStmts reg + 2) := by
  unfold entryNeed
  exact Nat.mul_le_mul (Nat.succ_le_succ (tracked_le_total reg)) (Nat.add_le_add_right (maxHeight_le_total reg) 2)

/-- The fuel the model passes is enough. -/
theorem entryNeed_le_entryFuel (reg : Registry) : entryNeed reg ≤ entryFuel reg := by
  rw [entryFuel_eq]
  have h := entryNeed_le_quadratic reg
  have h2 : (totalStmts reg + 1) * (totalStmts reg + 2) ≤ (totalStmts reg + 2) * (totalStmts reg + 2) :=
    Nat.mul_le_mul_right _ (Nat.le_succ _)
  omega

end Goyang.Lemmas.Fuel
