import Goyang.Lemmas.Fuel
/-
Cycles are errors (property C01, part d): what `toEntry` answers when a `uses` statement leads
back into a grouping whose conversion is in progress, directly or through other groupings.
-/
namespace Goyang.Lemmas.Fuel
open Goyang.Model

/-- Re-entering a tracked statement (module, submodule, grouping) whose conversion is in progress
answers the `cycle` error entry at that statement and leaves the state alone, for every positive
fuel. (The cache premises: no finished entry of that statement exists yet — it is in progress.) -/
theorem toEntry_reentry (env : Env) (k : Nat) (root : Mod) (scope : List Stmt) (n : Stmt) (visiting : List NodeId)
    (st : TState) (ht : isTracked n = true) (hv : visiting.contains (nodeId root n) = true)
    (hcache : (if (n.kw == "module" || n.kw == "submodule") then st.cache.find? (·.1 == root.seq) else none) = none)
    (hg : (if n.kw == "grouping" then st.gcache.find? (·.1 == nodeId root n) else none) = none) :
    toEntry env (k + 1) root scope n visiting st = (errorEntry root n "cycle", st) := by
  rw [toEntry_succ]
  unfold toEntryBody
  simp only [isTracked] at ht
  simp only [skeleton, hcache, hg, ht, hv, Bool.and_self, ↓reduceIte]

/-- A `uses` statement that resolves to a grouping whose conversion is in progress — the grouping
uses itself, directly or through any chain of other groupings, all of which are then in
`visiting` — is answered by the `cycle` error entry positioned at that grouping: no divergence,
no out-of-fuel. -/
theorem uses_of_grouping_in_progress (env : Env) (k : Nat) (root : Mod) (scope : List Stmt) (u : Stmt)
    (visiting : List NodeId) (st : TState) (g : Stmt) (groot : Mod) (gscope : List Stmt)
    (hu : u.kw = "uses")
    (hfind : (findGrouping env.reg env.linked (2 * (k + 1) + 16) root scope u.arg []).1 = some (g, groot, gscope))
    (hv : visiting.contains (nodeId groot g) = true)
    (hg : st.gcache.find? (·.1 == nodeId groot g) = none) :
    toEntry env (k + 2) root scope u visiting st = (errorEntry groot g "cycle", st) := by
  have hgk : g.kw = "grouping" := (findGrouping_sound hfind).1
  have hin : toEntry env (k + 1) groot gscope g visiting st = (errorEntry groot g "cycle", st) := by
    apply toEntry_reentry
    · simp [isTracked, hgk]
    · exact hv
    · simp [hgk]
    · simp [hgk, hg]
  rw [toEntry_succ]
  unfold toEntryBody
  have hvis : visiting' root u visiting = visiting := by simp [visiting', isTracked, hu]
  simp only [skeleton, hu, hfind, hvis, hin]
  simp

end Goyang.Lemmas.Fuel
