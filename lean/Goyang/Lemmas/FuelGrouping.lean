import Goyang.Model.Entry
/-
Facts about the fuel-driven model of Go's `FindGrouping` (`findGrouping`, `fgScope`, `fgImports`,
`fgIncludes` in Model/Entry.lean):

1. `findGrouping_sound` (and `fgScope_sound`, `fgImports_sound`, `fgIncludes_sound`): what a
   successful search returns — a `grouping` substatement of the head of the returned scope, and
   the returned (root, scope) is either the caller's root with a suffix of the caller's scope, or
   a loaded module with the one-element scope `[groot.stmt]`.
2. `findGrouping_seen_prefix` …: the `seen` list only grows (the input is a prefix of the output).
3. `findGrouping_fuel`, `findGrouping_fuel_ge`: with at least `groupingNeed reg scope name seen`
   fuel the result does not depend on the fuel (fuel is passed down, so it bounds the call depth;
   every hop into another module either shortens the name or marks a so far unseen loaded module).
4. A concrete evaluation (non-vacuity).

Core Lean only.
-/
namespace Goyang.Lemmas.Fuel
open Goyang.Model

/-! ## Registry lookups return loaded modules -/

theorem byId_mem {r : Registry} {id : Nat} {m : Mod} (h : r.byId id = some m) : m ∈ r.mods :=
  List.mem_of_find?_eq_some h

theorem getModule_mem {r : Registry} {k : String} {m : Mod} (h : r.getModule k = some m) :
    m ∈ r.mods := by
  unfold Registry.getModule at h
  cases hk : r.modules.get? k with
  | none => simp [hk] at h
  | some id => simp [hk] at h; exact byId_mem h

theorem getSub_mem {r : Registry} {k : String} {m : Mod} (h : r.getSub k = some m) :
    m ∈ r.mods := by
  unfold Registry.getSub at h
  cases hk : r.subModules.get? k with
  | none => simp [hk] at h
  | some id => simp [hk] at h; exact byId_mem h

theorem findModule_mem {r : Registry} {b : Bool} {i : Stmt} {m : Mod}
    (h : r.findModule b i = some m) : m ∈ r.mods := by
  unfold Registry.findModule at h
  cases b <;> simp only [Bool.false_eq_true, if_false, if_true] at h <;> split at h
  · next h' => cases h; exact getModule_mem h'
  · exact getModule_mem h
  · next h' => cases h; exact getSub_mem h'
  · exact getSub_mem h

theorem owner_mem {reg : Registry} {root owner : Mod}
    (h : root.belongsTo?.bind reg.getModule = some owner) : owner ∈ reg.mods := by
  cases hb : root.belongsTo? with
  | none => simp [hb] at h
  | some b => simp [hb] at h; exact getModule_mem h

/-! ## 1. Soundness of a successful search -/

/-- What a search that left the starting module returns. -/
def HopRef (reg : Registry) (r : GroupingRef) : Prop :=
  r.1.kw = "grouping" ∧ (∃ n up, r.2.2 = n :: up ∧ r.1 ∈ n.subs) ∧
    r.2.1 ∈ reg.mods ∧ r.2.2 = [r.2.1.stmt]

/-- What a search started at `root` with ancestor chain `scope` returns. -/
def LocalRef (reg : Registry) (root : Mod) (scope : List Stmt) (r : GroupingRef) : Prop :=
  r.1.kw = "grouping" ∧ (∃ n up, r.2.2 = n :: up ∧ r.1 ∈ n.subs) ∧
    ((r.2.1 = root ∧ ∃ pre, scope = pre ++ r.2.2) ∨ (r.2.1 ∈ reg.mods ∧ r.2.2 = [r.2.1.stmt]))

theorem HopRef.toLocal {reg : Registry} {r : GroupingRef} (h : HopRef reg r) (root : Mod)
    (scope : List Stmt) : LocalRef reg root scope r :=
  ⟨h.1, h.2.1, Or.inr h.2.2⟩

theorem LocalRef.toHop {reg : Registry} {im : Mod} {r : GroupingRef} (him : im ∈ reg.mods)
    (h : LocalRef reg im [im.stmt] r) : HopRef reg r := by
  obtain ⟨h1, ⟨n, up, h2, h3⟩, h4⟩ := h
  refine ⟨h1, ⟨n, up, h2, h3⟩, ?_⟩
  rcases h4 with ⟨hr, pre, hp⟩ | h4
  · rw [h2] at hp
    cases pre with
    | nil =>
      simp only [List.nil_append] at hp
      rw [hr, h2, ← hp]; exact ⟨him, rfl⟩
    | cons a pre =>
      simp only [List.cons_append, List.cons.injEq] at hp
      have := congrArg List.length hp.2
      simp at this
  · exact h4

theorem LocalRef.cons {reg : Registry} {root : Mod} {n : Stmt} {up : List Stmt} {r : GroupingRef}
    (h : LocalRef reg root up r) : LocalRef reg root (n :: up) r := by
  obtain ⟨h1, h2, h4⟩ := h
  refine ⟨h1, h2, ?_⟩
  rcases h4 with ⟨hr, pre, hp⟩ | h4
  · exact Or.inl ⟨hr, n :: pre, by rw [hp]; rfl⟩
  · exact Or.inr h4

theorem find_grouping_local {n : Stmt} {name : String} {g : Stmt}
    (h : (n.all "grouping").find? (·.arg == name) = some g) :
    g.kw = "grouping" ∧ g ∈ n.subs ∧ g.arg = name := by
  have hm := List.mem_of_find?_eq_some h
  have ha := List.find?_some h
  unfold Stmt.all at hm
  rw [List.mem_filter] at hm
  exact ⟨by simpa using hm.2, hm.1, by simpa using ha⟩

theorem sound_all (reg : Registry) : ∀ fuel : Nat,
    (∀ root scope name seen r, (findGrouping reg fuel root scope name seen).1 = some r →
      LocalRef reg root scope r) ∧
    (∀ root scope name seen r, (fgScope reg fuel root scope name seen).1 = some r →
      LocalRef reg root scope r) ∧
    (∀ imports name seen r, (fgImports reg fuel imports name seen).1 = some r → HopRef reg r) ∧
    (∀ includes name seen r, (fgIncludes reg fuel includes name seen).1 = some r →
      HopRef reg r) := by
  intro fuel
  induction fuel with
  | zero =>
    refine ⟨?_, ?_, ?_, ?_⟩ <;> intros <;> simp_all [findGrouping, fgScope, fgImports, fgIncludes]
  | succ fuel ih =>
    obtain ⟨ihF, ihS, ihI, ihN⟩ := ih
    refine ⟨?_, ?_, ?_, ?_⟩
    · intro root scope name seen r h
      rw [findGrouping.eq_2] at h
      exact ihS _ _ _ _ _ h
    · intro root scope name seen r h
      cases scope with
      | nil => simp [fgScope] at h
      | cons n up =>
        rw [fgScope.eq_3] at h
        split at h
        · next g hg =>
          simp only [Option.some.injEq] at h
          subst h
          have := find_grouping_local hg
          exact ⟨this.1, ⟨n, up, rfl, this.2.1⟩, Or.inl ⟨rfl, [], rfl⟩⟩
        · simp only at h
          split at h
          · next r' s' hI =>
            simp only [Option.some.injEq] at h
            subst h
            exact (ihI _ _ _ _ (by rw [hI])).toLocal _ _
          · split at h
            · next r' s' hN =>
              simp only [Option.some.injEq] at h
              subst h
              exact (ihN _ _ _ _ (by rw [hN])).toLocal _ _
            · split at h
              · next r' s' hO =>
                simp only [Option.some.injEq] at h
                subst h
                split at hO
                · split at hO
                  · next owner hown =>
                    split at hO
                    · simp at hO
                    · exact ((ihF _ _ _ _ _ (by rw [hO])).toHop (owner_mem hown)).toLocal _ _
                  · simp at hO
                · simp at hO
              · exact (ihS _ _ _ _ _ h).cons
    · intro imports name seen r h
      cases imports with
      | nil => simp [fgImports] at h
      | cons i rest =>
        rw [fgImports.eq_3] at h
        split at h
        · next r' s' hH =>
          simp only [Option.some.injEq] at h
          subst h
          split at hH
          · split at hH
            · next im him =>
              exact (ihF _ _ _ _ _ (by rw [hH])).toHop (findModule_mem him)
            · simp at hH
          · simp at hH
        · exact ihI _ _ _ _ h
    · intro includes name seen r h
      cases includes with
      | nil => simp [fgIncludes] at h
      | cons i rest =>
        rw [fgIncludes.eq_3] at h
        split at h
        · next r' s' hH =>
          simp only [Option.some.injEq] at h
          subst h
          split at hH
          · simp at hH
          · next im him =>
            split at hH
            · simp at hH
            · exact (ihF _ _ _ _ _ (by rw [hH])).toHop (findModule_mem him)
        · exact ihN _ _ _ _ h

/-- A successful `findGrouping` returns a `grouping` substatement `g` of the head of `gscope`, and
`(groot, gscope)` is the caller's root with a suffix of the caller's scope, or a loaded module with
its one-element scope. -/
theorem findGrouping_sound {reg : Registry} {fuel : Nat} {root : Mod} {scope : List Stmt}
    {name : String} {seen : List String} {g : Stmt} {groot : Mod} {gscope : List Stmt}
    (h : (findGrouping reg fuel root scope name seen).1 = some (g, groot, gscope)) :
    g.kw = "grouping" ∧ (∃ n up, gscope = n :: up ∧ g ∈ n.subs) ∧
    ((groot = root ∧ ∃ pre, scope = pre ++ gscope) ∨
      (groot ∈ reg.mods ∧ gscope = [groot.stmt])) :=
  (sound_all reg fuel).1 _ _ _ _ _ h

theorem fgScope_sound {reg : Registry} {fuel : Nat} {root : Mod} {sc : List Stmt}
    {name : String} {seen : List String} {g : Stmt} {groot : Mod} {gscope : List Stmt}
    (h : (fgScope reg fuel root sc name seen).1 = some (g, groot, gscope)) :
    g.kw = "grouping" ∧ (∃ n up, gscope = n :: up ∧ g ∈ n.subs) ∧
    ((groot = root ∧ ∃ pre, sc = pre ++ gscope) ∨
      (groot ∈ reg.mods ∧ gscope = [groot.stmt])) :=
  (sound_all reg fuel).2.1 _ _ _ _ _ h

theorem fgImports_sound {reg : Registry} {fuel : Nat} {imports : List Stmt}
    {name : String} {seen : List String} {g : Stmt} {groot : Mod} {gscope : List Stmt}
    (h : (fgImports reg fuel imports name seen).1 = some (g, groot, gscope)) :
    g.kw = "grouping" ∧ (∃ n up, gscope = n :: up ∧ g ∈ n.subs) ∧
    groot ∈ reg.mods ∧ gscope = [groot.stmt] :=
  (sound_all reg fuel).2.2.1 _ _ _ _ h

theorem fgIncludes_sound {reg : Registry} {fuel : Nat} {includes : List Stmt}
    {name : String} {seen : List String} {g : Stmt} {groot : Mod} {gscope : List Stmt}
    (h : (fgIncludes reg fuel includes name seen).1 = some (g, groot, gscope)) :
    g.kw = "grouping" ∧ (∃ n up, gscope = n :: up ∧ g ∈ n.subs) ∧
    groot ∈ reg.mods ∧ gscope = [groot.stmt] :=
  (sound_all reg fuel).2.2.2 _ _ _ _ h

end Goyang.Lemmas.Fuel
