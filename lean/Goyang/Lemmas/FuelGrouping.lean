import Goyang.Model.Entry
/-
Facts about the fuel-driven model of Go's `FindGrouping` (`findGrouping`, `fgScope`, `fgImports`,
`fgIncludes` in Model/Entry.lean):

1. `findGrouping_sound` (and `fgScope_sound`, `fgImports_sound`, `fgIncludes_sound`): what a
   successful search returns — a `grouping` substatement of the head of the returned scope, and
   the returned (root, scope) is either the caller's root with a suffix of the caller's scope, or
   a loaded module with the one-element scope `[groot.stmt]`.
2. `findGrouping_seen_prefix` …: the `seen` list only grows (the input is a prefix of the output).
3. `findGrouping_fuel`, `findGrouping_fuel_ge`: with at least `groupingNeed reg scope name seen`
   fuel the result does not depend on the fuel (fuel is passed down, so it bounds the call depth;
   every hop into another module either shortens the name or marks a so far unseen loaded module).
4. A concrete evaluation (non-vacuity).

Core Lean only.
-/
namespace Goyang.Lemmas.Fuel
open Goyang.Model

/-! ## Registry lookups return loaded modules -/

theorem byId_mem {r : Registry} {id : Nat} {m : Mod} (h : r.byId id = some m) : m ∈ r.mods :=
  List.mem_of_find?_eq_some h

theorem getModule_mem {r : Registry} {k : String} {m : Mod} (h : r.getModule k = some m) :
    m ∈ r.mods := by
  unfold Registry.getModule at h
  cases hk : r.modules.get? k with
  | none => simp [hk] at h
  | some id => simp [hk] at h; exact byId_mem h

theorem getSub_mem {r : Registry} {k : String} {m : Mod} (h : r.getSub k = some m) :
    m ∈ r.mods := by
  unfold Registry.getSub at h
  cases hk : r.subModules.get? k with
  | none => simp [hk] at h
  | some id => simp [hk] at h; exact byId_mem h

theorem findModule_mem {r : Registry} {b : Bool} {i : Stmt} {m : Mod}
    (h : r.findModule b i = some m) : m ∈ r.mods := by
  unfold Registry.findModule at h
  cases b <;> simp only [Bool.false_eq_true, if_false, if_true] at h <;> split at h
  · next h' => cases h; exact getModule_mem h'
  · exact getModule_mem h
  · next h' => cases h; exact getSub_mem h'
  · exact getSub_mem h

theorem owner_mem {reg : Registry} {root owner : Mod}
    (h : root.belongsTo?.bind reg.getModule = some owner) : owner ∈ reg.mods := by
  cases hb : root.belongsTo? with
  | none => simp [hb] at h
  | some b => simp [hb] at h; exact getModule_mem h

/-! ## 1. Soundness of a successful search -/

/-- What a search that left the starting module returns. -/
def HopRef (reg : Registry) (r : GroupingRef) : Prop :=
  r.1.kw = "grouping" ∧ (∃ n up, r.2.2 = n :: up ∧ r.1 ∈ n.subs) ∧
    r.2.1 ∈ reg.mods ∧ r.2.2 = [r.2.1.stmt]

/-- What a search started at `root` with ancestor chain `scope` returns. -/
def LocalRef (reg : Registry) (root : Mod) (scope : List Stmt) (r : GroupingRef) : Prop :=
  r.1.kw = "grouping" ∧ (∃ n up, r.2.2 = n :: up ∧ r.1 ∈ n.subs) ∧
    ((r.2.1 = root ∧ ∃ pre, scope = pre ++ r.2.2) ∨ (r.2.1 ∈ reg.mods ∧ r.2.2 = [r.2.1.stmt]))

theorem HopRef.toLocal {reg : Registry} {r : GroupingRef} (h : HopRef reg r) (root : Mod)
    (scope : List Stmt) : LocalRef reg root scope r :=
  ⟨h.1, h.2.1, Or.inr h.2.2⟩

theorem LocalRef.toHop {reg : Registry} {im : Mod} {r : GroupingRef} (him : im ∈ reg.mods)
    (h : LocalRef reg im [im.stmt] r) : HopRef reg r := by
  obtain ⟨h1, ⟨n, up, h2, h3⟩, h4⟩ := h
  refine ⟨h1, ⟨n, up, h2, h3⟩, ?_⟩
  rcases h4 with ⟨hr, pre, hp⟩ | h4
  · rw [h2] at hp
    cases pre with
    | nil =>
      simp only [List.nil_append] at hp
      rw [hr, h2, ← hp]; exact ⟨him, rfl⟩
    | cons a pre =>
      simp only [List.cons_append, List.cons.injEq] at hp
      have := congrArg List.length hp.2
      simp at this
  · exact h4

theorem LocalRef.cons {reg : Registry} {root : Mod} {n : Stmt} {up : List Stmt} {r : GroupingRef}
    (h : LocalRef reg root up r) : LocalRef reg root (n :: up) r := by
  obtain ⟨h1, h2, h4⟩ := h
  refine ⟨h1, h2, ?_⟩
  rcases h4 with ⟨hr, pre, hp⟩ | h4
  · exact Or.inl ⟨hr, n :: pre, by rw [hp]; rfl⟩
  · exact Or.inr h4

theorem find_grouping_local {n : Stmt} {name : String} {g : Stmt}
    (h : (n.all "grouping").find? (·.arg == name) = some g) :
    g.kw = "grouping" ∧ g ∈ n.subs ∧ g.arg = name := by
  have hm := List.mem_of_find?_eq_some h
  have ha := List.find?_some h
  unfold Stmt.all at hm
  rw [List.mem_filter] at hm
  exact ⟨by simpa using hm.2, hm.1, by simpa using ha⟩

theorem sound_all (reg : Registry) (linked : List Nat) : ∀ fuel : Nat,
    (∀ root scope name seen r, (findGrouping reg linked fuel root scope name seen).1 = some r →
      LocalRef reg root scope r) ∧
    (∀ root scope name seen r, (fgScope reg linked fuel root scope name seen).1 = some r →
      LocalRef reg root scope r) ∧
    (∀ imports name seen r, (fgImports reg linked fuel imports name seen).1 = some r → HopRef reg r) ∧
    (∀ includes name seen r, (fgIncludes reg linked fuel includes name seen).1 = some r →
      HopRef reg r) := by
  intro fuel
  induction fuel with
  | zero =>
    refine ⟨?_, ?_, ?_, ?_⟩ <;> intros <;> simp_all [findGrouping, fgScope, fgImports, fgIncludes]
  | succ fuel ih =>
    obtain ⟨ihF, ihS, ihI, ihN⟩ := ih
    refine ⟨?_, ?_, ?_, ?_⟩
    · intro root scope name seen r h
      rw [findGrouping.eq_2] at h
      exact ihS _ _ _ _ _ h
    · intro root scope name seen r h
      cases scope with
      | nil => simp [fgScope] at h
      | cons n up =>
        rw [fgScope.eq_3] at h
        split at h
        · next g hg =>
          simp only [Option.some.injEq] at h
          subst h
          have := find_grouping_local hg
          exact ⟨this.1, ⟨n, up, rfl, this.2.1⟩, Or.inl ⟨rfl, [], rfl⟩⟩
        · simp only at h
          split at h
          · next r' s' hI =>
            simp only [Option.some.injEq] at h
            subst h
            exact (ihI _ _ _ _ (by rw [hI])).toLocal _ _
          · split at h
            · next r' s' hN =>
              simp only [Option.some.injEq] at h
              subst h
              exact (ihN _ _ _ _ (by rw [hN])).toLocal _ _
            · split at h
              · next r' s' hO =>
                simp only [Option.some.injEq] at h
                subst h
                split at hO
                · split at hO
                  · next owner hown =>
                    split at hO
                    · simp at hO
                    · exact ((ihF _ _ _ _ _ (by rw [hO])).toHop (owner_mem hown)).toLocal _ _
                  · simp at hO
                · simp at hO
              · exact (ihS _ _ _ _ _ h).cons
    · intro imports name seen r h
      cases imports with
      | nil => simp [fgImports] at h
      | cons i rest =>
        rw [fgImports.eq_3] at h
        split at h
        · next r' s' hH =>
          simp only [Option.some.injEq] at h
          subst h
          split at hH
          · split at hH
            · next im him =>
              exact (ihF _ _ _ _ _ (by rw [hH])).toHop (findModule_mem him)
            · simp at hH
          · simp at hH
        · exact ihI _ _ _ _ h
    · intro includes name seen r h
      cases includes with
      | nil => simp [fgIncludes] at h
      | cons i rest =>
        rw [fgIncludes.eq_3] at h
        split at h
        · next r' s' hH =>
          simp only [Option.some.injEq] at h
          subst h
          split at hH
          · simp at hH
          · next im him =>
            split at hH
            · simp at hH
            · exact (ihF _ _ _ _ _ (by rw [hH])).toHop (findModule_mem him)
        · exact ihN _ _ _ _ h

/-- A successful `findGrouping` returns a `grouping` substatement `g` of the head of `gscope`, and
`(groot, gscope)` is the caller's root with a suffix of the caller's scope, or a loaded module with
its one-element scope. -/
theorem findGrouping_sound {reg : Registry} {linked : List Nat} {fuel : Nat} {root : Mod} {scope : List Stmt}
    {name : String} {seen : List String} {g : Stmt} {groot : Mod} {gscope : List Stmt}
    (h : (findGrouping reg linked fuel root scope name seen).1 = some (g, groot, gscope)) :
    g.kw = "grouping" ∧ (∃ n up, gscope = n :: up ∧ g ∈ n.subs) ∧
    ((groot = root ∧ ∃ pre, scope = pre ++ gscope) ∨
      (groot ∈ reg.mods ∧ gscope = [groot.stmt])) :=
  (sound_all reg linked fuel).1 _ _ _ _ _ h

theorem fgScope_sound {reg : Registry} {linked : List Nat} {fuel : Nat} {root : Mod} {sc : List Stmt}
    {name : String} {seen : List String} {g : Stmt} {groot : Mod} {gscope : List Stmt}
    (h : (fgScope reg linked fuel root sc name seen).1 = some (g, groot, gscope)) :
    g.kw = "grouping" ∧ (∃ n up, gscope = n :: up ∧ g ∈ n.subs) ∧
    ((groot = root ∧ ∃ pre, sc = pre ++ gscope) ∨
      (groot ∈ reg.mods ∧ gscope = [groot.stmt])) :=
  (sound_all reg linked fuel).2.1 _ _ _ _ _ h

theorem fgImports_sound {reg : Registry} {linked : List Nat} {fuel : Nat} {imports : List Stmt}
    {name : String} {seen : List String} {g : Stmt} {groot : Mod} {gscope : List Stmt}
    (h : (fgImports reg linked fuel imports name seen).1 = some (g, groot, gscope)) :
    g.kw = "grouping" ∧ (∃ n up, gscope = n :: up ∧ g ∈ n.subs) ∧
    groot ∈ reg.mods ∧ gscope = [groot.stmt] :=
  (sound_all reg linked fuel).2.2.1 _ _ _ _ h

theorem fgIncludes_sound {reg : Registry} {linked : List Nat} {fuel : Nat} {includes : List Stmt}
    {name : String} {seen : List String} {g : Stmt} {groot : Mod} {gscope : List Stmt}
    (h : (fgIncludes reg linked fuel includes name seen).1 = some (g, groot, gscope)) :
    g.kw = "grouping" ∧ (∃ n up, gscope = n :: up ∧ g ∈ n.subs) ∧
    groot ∈ reg.mods ∧ gscope = [groot.stmt] :=
  (sound_all reg linked fuel).2.2.2 _ _ _ _ h

/-! ## The step equations in combinator form -/

abbrev Res := Option GroupingRef × List String

/-- `match a with | (some r, s) => (some r, s) | (none, s) => k s`. -/
def orElse (a : Res) (k : List String → Res) : Res :=
  match a with
  | (some r, s) => (some r, s)
  | (none, s) => k s

/-- The owner hop of `fgScope`. -/
def viaOwner (reg : Registry) (linked : List Nat) (fuel : Nat) (root : Mod) (cond : Bool) (name : String)
    (seen : List String) : Res :=
  if cond && root.isSub then
    match (root.belongsTo?.bind reg.getModule) with
    | some owner =>
      if seen.contains owner.name then (none, seen)
      else findGrouping reg linked fuel owner [owner.stmt] name (seen ++ [owner.name])
    | none => (none, seen)
  else (none, seen)

/-- The import hop of `fgImports`. -/
def importHit (reg : Registry) (linked : List Nat) (fuel : Nat) (i : Stmt) (name : String) (seen : List String) : Res :=
  let ip := (i.argOf? "prefix").getD ""
  if name.startsWith (ip ++ ":") && !((name.drop (ip.length + 1)).toString.contains ':') then
    match reg.findModule false i with
    | some im => findGrouping reg linked fuel im [im.stmt] (name.drop (ip.length + 1)).toString seen
    | none => (none, seen)
  else (none, seen)

/-- The include hop of `fgIncludes`. -/
def includeHit (reg : Registry) (linked : List Nat) (fuel : Nat) (i : Stmt) (name : String) (seen : List String) : Res :=
  match reg.findModule true i with
  | none => (none, seen)
  | some im =>
    if seen.contains im.name then (none, seen)
    else findGrouping reg linked fuel im [im.stmt] name (seen ++ [im.name])

def isModKw (n : Stmt) : Bool := n.kw == "module" || n.kw == "submodule"

theorem fgScope_cons (reg : Registry) (linked : List Nat) (fuel : Nat) (root : Mod) (n : Stmt) (up : List Stmt)
    (name : String) (seen : List String) :
    fgScope reg linked (fuel + 1) root (n :: up) name seen =
      match (n.all "grouping").find? (·.arg == name) with
      | some g => (some (g, root, n :: up), seen)
      | none =>
        orElse (fgImports reg linked fuel (if isModKw n && linked.contains root.seq then n.all "import" else []) name seen) fun seen =>
        orElse (fgIncludes reg linked fuel
          (if isModKw n && linked.contains root.seq && !name.contains ':' then n.all "include" else []) name seen) fun seen =>
        orElse (viaOwner reg linked fuel root (isModKw n && !name.contains ':') name seen) fun seen =>
        fgScope reg linked fuel root up name seen := by
  rw [fgScope.eq_3]
  rfl

theorem fgImports_cons (reg : Registry) (linked : List Nat) (fuel : Nat) (i : Stmt) (rest : List Stmt)
    (name : String) (seen : List String) :
    fgImports reg linked (fuel + 1) (i :: rest) name seen =
      orElse (importHit reg linked fuel i name seen) fun seen => fgImports reg linked fuel rest name seen := by
  rw [fgImports.eq_3]
  rfl

theorem fgIncludes_cons (reg : Registry) (linked : List Nat) (fuel : Nat) (i : Stmt) (rest : List Stmt)
    (name : String) (seen : List String) :
    fgIncludes reg linked (fuel + 1) (i :: rest) name seen =
      orElse (includeHit reg linked fuel i name seen) fun seen => fgIncludes reg linked fuel rest name seen := by
  rw [fgIncludes.eq_3]
  rfl

/-! ## String facts -/

theorem length_drop_toString_le (name : String) (k : Nat) :
    ((name.drop k).toString).length ≤ name.length := by
  simp [String.Slice.toString, ← String.length_toList]

theorem length_drop_toString_lt {name ip : String} (h : name.startsWith (ip ++ ":") = true) :
    ((name.drop (ip.length + 1)).toString).length < name.length := by
  rw [String.startsWith_string_iff] at h
  have hl := h.length_le
  simp at hl
  simp [String.Slice.toString, ← String.length_toList]
  omega

theorem ite_length_le {c : Prop} [Decidable c] {a b : String} {n : Nat} (ha : a.length ≤ n)
    (hb : b.length ≤ n) : (if c then a else b).length ≤ n := by
  split <;> assumption

theorem length_trimLocalPrefix_le (root : Mod) (name : String) :
    (trimLocalPrefix root name).length ≤ name.length := by
  unfold trimLocalPrefix
  exact ite_length_le (length_drop_toString_le _ _) (Nat.le_refl _)

/-! ## Loaded modules not yet in `seen` -/

/-- Number of loaded modules (with multiplicity) whose name is not in `seen`. -/
def unseen (reg : Registry) (seen : List String) : Nat :=
  (reg.mods.filter fun m => !seen.contains m.name).length

theorem unseen_mono {reg : Registry} {s s' : List String} (h : s <+: s') :
    unseen reg s' ≤ unseen reg s := by
  unfold unseen
  rw [← List.countP_eq_length_filter, ← List.countP_eq_length_filter]
  apply List.countP_mono_left
  intro m _ hm
  simp only [Bool.not_eq_true', List.contains_eq_mem, decide_eq_false_iff_not] at hm ⊢
  exact fun hmem => hm (h.subset hmem)

theorem countP_lt {α : Type} {p q : α → Bool} {l : List α} (hpq : ∀ x ∈ l, p x = true → q x = true)
    {a : α} (ha : a ∈ l) (hq : q a = true) (hp : p a = false) : l.countP p < l.countP q := by
  induction l with
  | nil => cases ha
  | cons b l ih =>
    rw [List.countP_cons, List.countP_cons]
    have hmono : l.countP p ≤ l.countP q :=
      List.countP_mono_left (fun x hx => hpq x (List.mem_cons_of_mem _ hx))
    rcases List.mem_cons.1 ha with rfl | ha'
    · simp [hq, hp]; omega
    · have h1 := ih (fun x hx => hpq x (List.mem_cons_of_mem _ hx)) ha'
      have h2 := hpq b (List.mem_cons_self ..)
      cases hpb : p b <;> cases hqb : q b <;> simp_all <;> omega

theorem unseen_lt {reg : Registry} {s : List String} {m : Mod} (hm : m ∈ reg.mods)
    (hs : s.contains m.name = false) : unseen reg (s ++ [m.name]) < unseen reg s := by
  unfold unseen
  rw [← List.countP_eq_length_filter, ← List.countP_eq_length_filter]
  refine countP_lt ?_ hm (by simpa using hs) (by simp)
  intro x _ hx
  simp only [Bool.not_eq_true', List.contains_eq_mem, decide_eq_false_iff_not, List.mem_append,
    List.mem_singleton, not_or] at hx ⊢
  exact hx.1

/-! ## Hops -/

/-- A fuel-indexed result that is either a constant miss or one call of `findGrouping` on a loaded
module with a strictly smaller potential `name.length + unseen`. -/
def IsHop (reg : Registry) (linked : List Nat) (hit : Nat → Res) (name : String) (seen : List String) : Prop :=
  (∀ fuel, hit fuel = (none, seen)) ∨
  ∃ im name' seen', im ∈ reg.mods ∧ seen <+: seen' ∧
    name'.length + unseen reg seen' < name.length + unseen reg seen ∧
    ∀ fuel, hit fuel = findGrouping reg linked fuel im [im.stmt] name' seen'

theorem importHit_isHop (reg : Registry) (linked : List Nat) (i : Stmt) (name : String) (seen : List String) :
    IsHop reg linked (fun fuel => importHit reg linked fuel i name seen) name seen := by
  unfold importHit
  simp only
  split
  · next hc =>
    simp only [Bool.and_eq_true] at hc
    split
    · next im him =>
      exact Or.inr ⟨im, _, seen, findModule_mem him, List.prefix_refl _,
        Nat.add_lt_add_right (length_drop_toString_lt hc.1) _, fun _ => rfl⟩
    · exact Or.inl fun _ => rfl
  · exact Or.inl fun _ => rfl

theorem includeHit_isHop (reg : Registry) (linked : List Nat) (i : Stmt) (name : String) (seen : List String) :
    IsHop reg linked (fun fuel => includeHit reg linked fuel i name seen) name seen := by
  unfold includeHit
  split
  · exact Or.inl fun _ => rfl
  · next im him =>
    split
    · exact Or.inl fun _ => rfl
    · next hs =>
      exact Or.inr ⟨im, name, _, findModule_mem him, List.prefix_append _ _,
        Nat.add_lt_add_left (unseen_lt (findModule_mem him) (by simpa using hs)) _, fun _ => rfl⟩

theorem viaOwner_isHop (reg : Registry) (linked : List Nat) (root : Mod) (cond : Bool) (name : String)
    (seen : List String) :
    IsHop reg linked (fun fuel => viaOwner reg linked fuel root cond name seen) name seen := by
  unfold viaOwner
  split
  · split
    · next owner hown =>
      split
      · exact Or.inl fun _ => rfl
      · next hs =>
        exact Or.inr ⟨owner, name, _, owner_mem hown, List.prefix_append _ _,
          Nat.add_lt_add_left (unseen_lt (owner_mem hown) (by simpa using hs)) _, fun _ => rfl⟩
    · exact Or.inl fun _ => rfl
  · exact Or.inl fun _ => rfl

/-! ## 2. `seen` only grows -/

theorem orElse_prefix {seen : List String} {a : Res} {k : List String → Res}
    (ha : seen <+: a.2) (hk : ∀ s, seen <+: s → seen <+: (k s).2) : seen <+: (orElse a k).2 := by
  rcases a with ⟨_ | r, s⟩
  · exact hk s ha
  · exact ha

theorem IsHop.prefix {reg : Registry} {linked : List Nat} {hit : Nat → Res} {name : String} {seen : List String}
    (h : IsHop reg linked hit name seen) {fuel : Nat}
    (ihF : ∀ root scope name seen, seen <+: (findGrouping reg linked fuel root scope name seen).2) :
    seen <+: (hit fuel).2 := by
  rcases h with h | ⟨im, name', seen', _, hp, _, h⟩
  · rw [h]; exact List.prefix_refl _
  · rw [h]; exact hp.trans (ihF _ _ _ _)

theorem prefix_all (reg : Registry) (linked : List Nat) : ∀ fuel : Nat,
    (∀ root scope name seen, seen <+: (findGrouping reg linked fuel root scope name seen).2) ∧
    (∀ root scope name seen, seen <+: (fgScope reg linked fuel root scope name seen).2) ∧
    (∀ imports name seen, seen <+: (fgImports reg linked fuel imports name seen).2) ∧
    (∀ includes name seen, seen <+: (fgIncludes reg linked fuel includes name seen).2) := by
  intro fuel
  induction fuel with
  | zero =>
    refine ⟨?_, ?_, ?_, ?_⟩ <;> intros <;> simp [findGrouping, fgScope, fgImports, fgIncludes]
  | succ fuel ih =>
    obtain ⟨ihF, ihS, ihI, ihN⟩ := ih
    refine ⟨?_, ?_, ?_, ?_⟩
    · intro root scope name seen
      rw [findGrouping.eq_2]
      exact ihS _ _ _ _
    · intro root scope name seen
      cases scope with
      | nil => simp [fgScope]
      | cons n up =>
        rw [fgScope_cons]
        split
        · exact List.prefix_refl _
        · refine orElse_prefix (ihI _ _ _) fun s1 h1 => ?_
          refine orElse_prefix (h1.trans (ihN _ _ _)) fun s2 h2 => ?_
          refine orElse_prefix (h2.trans ((viaOwner_isHop reg linked root _ name s2).prefix ihF))
            fun s3 h3 => ?_
          exact h3.trans (ihS _ _ _ _)
    · intro imports name seen
      cases imports with
      | nil => simp [fgImports]
      | cons i rest =>
        rw [fgImports_cons]
        exact orElse_prefix ((importHit_isHop reg linked i name seen).prefix ihF)
          fun s1 h1 => h1.trans (ihI _ _ _)
    · intro includes name seen
      cases includes with
      | nil => simp [fgIncludes]
      | cons i rest =>
        rw [fgIncludes_cons]
        exact orElse_prefix ((includeHit_isHop reg linked i name seen).prefix ihF)
          fun s1 h1 => h1.trans (ihN _ _ _)

theorem findGrouping_seen_prefix (reg : Registry) (linked : List Nat) (fuel : Nat) (root : Mod) (scope : List Stmt)
    (name : String) (seen : List String) :
    seen <+: (findGrouping reg linked fuel root scope name seen).2 :=
  (prefix_all reg linked fuel).1 _ _ _ _

theorem fgScope_seen_prefix (reg : Registry) (linked : List Nat) (fuel : Nat) (root : Mod) (scope : List Stmt)
    (name : String) (seen : List String) :
    seen <+: (fgScope reg linked fuel root scope name seen).2 :=
  (prefix_all reg linked fuel).2.1 _ _ _ _

theorem fgImports_seen_prefix (reg : Registry) (linked : List Nat) (fuel : Nat) (imports : List Stmt)
    (name : String) (seen : List String) :
    seen <+: (fgImports reg linked fuel imports name seen).2 :=
  (prefix_all reg linked fuel).2.2.1 _ _ _

theorem fgIncludes_seen_prefix (reg : Registry) (linked : List Nat) (fuel : Nat) (includes : List Stmt)
    (name : String) (seen : List String) :
    seen <+: (fgIncludes reg linked fuel includes name seen).2 :=
  (prefix_all reg linked fuel).2.2.2 _ _ _

/-! ## 3. Enough fuel: the result does not depend on the fuel -/

theorem orElse_congr {a a' : Res} {k k' : List String → Res} (ha : a = a')
    (hk : k a'.2 = k' a'.2) : orElse a k = orElse a' k' := by
  subst ha
  rcases a with ⟨_ | r, s⟩
  · exact hk
  · rfl

theorem length_ite_all_le (c : Bool) (n : Stmt) (k : String) :
    (if c then n.all k else []).length ≤ n.subs.length := by
  split
  · exact List.length_filter_le _ _
  · exact Nat.zero_le _

/-- The statement proved by induction on the fuel for `findGrouping`. -/
def StableF (reg : Registry) (linked : List Nat) (W fuel : Nat) : Prop :=
  ∀ root scope name seen P, name.length + unseen reg seen ≤ P →
    (∀ s ∈ scope, s.subs.length ≤ W) → scope.length + W + 3 + P * (W + 4) ≤ fuel →
    findGrouping reg linked (fuel + 1) root scope name seen = findGrouping reg linked fuel root scope name seen

theorem IsHop.stable {reg : Registry} {linked : List Nat} {W : Nat} (hW : ∀ m ∈ reg.mods, m.stmt.subs.length ≤ W)
    {hit : Nat → Res} {name : String} {seen : List String} (h : IsHop reg linked hit name seen)
    {fuel P : Nat} (ihF : StableF reg linked W fuel) (hP : name.length + unseen reg seen ≤ P)
    (hfuel : P * (W + 4) ≤ fuel) : hit (fuel + 1) = hit fuel := by
  rcases h with h | ⟨im, name', seen', him, _, hlt, h⟩
  · rw [h, h]
  · rw [h, h]
    obtain ⟨P', rfl⟩ : ∃ P', P = P' + 1 := ⟨P - 1, by omega⟩
    have hmul : (P' + 1) * (W + 4) = P' * (W + 4) + (W + 4) := Nat.succ_mul _ _
    refine ihF im [im.stmt] name' seen' P' (by omega) ?_ ?_
    · intro s hs
      rw [List.mem_singleton] at hs
      subst hs
      exact hW im him
    · simp only [List.length_singleton]
      omega

theorem stable_all (reg : Registry) (linked : List Nat) (W : Nat) (hW : ∀ m ∈ reg.mods, m.stmt.subs.length ≤ W) :
    ∀ fuel : Nat,
    StableF reg linked W fuel ∧
    (∀ root scope name seen P, name.length + unseen reg seen ≤ P →
      (∀ s ∈ scope, s.subs.length ≤ W) → scope.length + W + 2 + P * (W + 4) ≤ fuel →
      fgScope reg linked (fuel + 1) root scope name seen = fgScope reg linked fuel root scope name seen) ∧
    (∀ imports name seen P, name.length + unseen reg seen ≤ P →
      imports.length + 1 + P * (W + 4) ≤ fuel →
      fgImports reg linked (fuel + 1) imports name seen = fgImports reg linked fuel imports name seen) ∧
    (∀ includes name seen P, name.length + unseen reg seen ≤ P →
      includes.length + 1 + P * (W + 4) ≤ fuel →
      fgIncludes reg linked (fuel + 1) includes name seen = fgIncludes reg linked fuel includes name seen) := by
  intro fuel
  induction fuel with
  | zero =>
    refine ⟨?_, ?_, ?_, ?_⟩ <;> (try unfold StableF) <;> intros <;> omega
  | succ fuel ih =>
    obtain ⟨ihF, ihS, ihI, ihN⟩ := ih
    refine ⟨?_, ?_, ?_, ?_⟩
    · intro root scope name seen P hP hsc hfuel
      rw [findGrouping.eq_2, findGrouping.eq_2]
      have := length_trimLocalPrefix_le root name
      exact ihS root scope _ seen P (by omega) hsc (by omega)
    · intro root scope name seen P hP hsc hfuel
      cases scope with
      | nil => simp [fgScope]
      | cons n up =>
        have hn : n.subs.length ≤ W := hsc n (List.mem_cons_self ..)
        have hup : ∀ s ∈ up, s.subs.length ≤ W := fun s hs => hsc s (List.mem_cons_of_mem _ hs)
        simp only [List.length_cons] at hfuel
        rw [fgScope_cons reg linked (fuel + 1), fgScope_cons reg linked fuel]
        split
        · rfl
        · have hl1 := length_ite_all_le (isModKw n && linked.contains root.seq) n "import"
          have hl2 := length_ite_all_le (isModKw n && linked.contains root.seq && !name.contains ':') n "include"
          refine orElse_congr (ihI _ name seen P hP (by omega)) ?_
          have h1 := fgImports_seen_prefix reg linked fuel
            (if isModKw n && linked.contains root.seq then n.all "import" else []) name seen
          generalize (fgImports reg linked fuel (if isModKw n && linked.contains root.seq then n.all "import" else []) name seen).2
            = s1 at h1 ⊢
          have hP1 := unseen_mono (reg := reg) h1
          refine orElse_congr (ihN _ name s1 P (by omega) (by omega)) ?_
          have h2 := fgIncludes_seen_prefix reg linked fuel
            (if isModKw n && linked.contains root.seq && !name.contains ':' then n.all "include" else []) name s1
          generalize (fgIncludes reg linked fuel
            (if isModKw n && linked.contains root.seq && !name.contains ':' then n.all "include" else []) name s1).2
            = s2 at h2 ⊢
          have hP2 := unseen_mono (reg := reg) h2
          have hop := viaOwner_isHop reg linked root (isModKw n && !name.contains ':') name s2
          refine orElse_congr (hop.stable hW ihF (P := P) (by omega) (by omega)) ?_
          have h3 := hop.prefix (fuel := fuel) (findGrouping_seen_prefix reg linked fuel)
          generalize (viaOwner reg linked fuel root (isModKw n && !name.contains ':') name s2).2
            = s3 at h3 ⊢
          have hP3 := unseen_mono (reg := reg) h3
          exact ihS root up name s3 P (by omega) hup (by omega)
    · intro imports name seen P hP hfuel
      cases imports with
      | nil => simp [fgImports]
      | cons i rest =>
        simp only [List.length_cons] at hfuel
        rw [fgImports_cons reg linked (fuel + 1), fgImports_cons reg linked fuel]
        have hop := importHit_isHop reg linked i name seen
        refine orElse_congr (hop.stable hW ihF (P := P) hP (by omega)) ?_
        have h1 := hop.prefix (fuel := fuel) (findGrouping_seen_prefix reg linked fuel)
        generalize (importHit reg linked fuel i name seen).2 = s1 at h1 ⊢
        have hP1 := unseen_mono (reg := reg) h1
        exact ihI rest name s1 P (by omega) (by omega)
    · intro includes name seen P hP hfuel
      cases includes with
      | nil => simp [fgIncludes]
      | cons i rest =>
        simp only [List.length_cons] at hfuel
        rw [fgIncludes_cons reg linked (fuel + 1), fgIncludes_cons reg linked fuel]
        have hop := includeHit_isHop reg linked i name seen
        refine orElse_congr (hop.stable hW ihF (P := P) hP (by omega)) ?_
        have h1 := hop.prefix (fuel := fuel) (findGrouping_seen_prefix reg linked fuel)
        generalize (includeHit reg linked fuel i name seen).2 = s1 at h1 ⊢
        have hP1 := unseen_mono (reg := reg) h1
        exact ihN rest name s1 P (by omega) (by omega)

/-- Greatest number of substatements of a statement of the list. -/
def maxSubs : List Stmt → Nat
  | [] => 0
  | s :: l => max s.subs.length (maxSubs l)

theorem le_maxSubs {l : List Stmt} {s : Stmt} (h : s ∈ l) : s.subs.length ≤ maxSubs l := by
  induction l with
  | nil => cases h
  | cons a l ih =>
    unfold maxSubs
    rcases List.mem_cons.1 h with rfl | h
    · exact Nat.le_max_left _ _
    · exact Nat.le_trans (ih h) (Nat.le_max_right _ _)

/-- `W`: the greatest number of substatements of any statement of `scope` and of any loaded
(sub)module statement. -/
def groupingWidth (reg : Registry) (scope : List Stmt) : Nat :=
  maxSubs (scope ++ reg.mods.map (·.stmt))

/-- Fuel that is enough for `findGrouping reg linked · root scope name seen`:
`scope.length + W + 3 + (name.length + unseen) * (W + 4)`. -/
def groupingNeed (reg : Registry) (scope : List Stmt) (name : String) (seen : List String) : Nat :=
  scope.length + groupingWidth reg scope + 3 +
    (name.length + unseen reg seen) * (groupingWidth reg scope + 4)

theorem unseen_nil (reg : Registry) : unseen reg [] = reg.mods.length := by
  simp [unseen]

theorem unseen_le (reg : Registry) (seen : List String) : unseen reg seen ≤ reg.mods.length :=
  List.length_filter_le _ _

/-- General form: any width bound `W` and potential bound `P` will do. -/
theorem findGrouping_fuel_of_bounds {reg : Registry} {linked : List Nat} {W P fuel : Nat} {root : Mod}
    {scope : List Stmt} {name : String} {seen : List String}
    (hWm : ∀ m ∈ reg.mods, m.stmt.subs.length ≤ W) (hWs : ∀ s ∈ scope, s.subs.length ≤ W)
    (hP : name.length + unseen reg seen ≤ P)
    (hfuel : scope.length + W + 3 + P * (W + 4) ≤ fuel) :
    findGrouping reg linked (fuel + 1) root scope name seen = findGrouping reg linked fuel root scope name seen :=
  (stable_all reg linked W hWm fuel).1 root scope name seen P hP hWs hfuel

/-- One more unit of fuel changes nothing once `groupingNeed` is reached. -/
theorem findGrouping_fuel {reg : Registry} {linked : List Nat} {fuel : Nat} {root : Mod} {scope : List Stmt}
    {name : String} {seen : List String} (h : groupingNeed reg scope name seen ≤ fuel) :
    findGrouping reg linked (fuel + 1) root scope name seen = findGrouping reg linked fuel root scope name seen := by
  refine findGrouping_fuel_of_bounds (W := groupingWidth reg scope) ?_ ?_ (Nat.le_refl _) h
  · intro m hm
    exact le_maxSubs (List.mem_append_right _ (List.mem_map_of_mem hm))
  · intro s hs
    exact le_maxSubs (List.mem_append_left _ hs)

/-- All fuels from `groupingNeed` on give the same result. -/
theorem findGrouping_fuel_ge {reg : Registry} {linked : List Nat} {fuel fuel' : Nat} {root : Mod} {scope : List Stmt}
    {name : String} {seen : List String} (h : groupingNeed reg scope name seen ≤ fuel)
    (h' : fuel ≤ fuel') :
    findGrouping reg linked fuel' root scope name seen = findGrouping reg linked fuel root scope name seen := by
  induction fuel' with
  | zero =>
    have : fuel = 0 := by omega
    rw [this]
  | succ k ih =>
    rcases Nat.lt_or_ge fuel (k + 1) with hlt | hge
    · rw [findGrouping_fuel (by omega)]
      exact ih (by omega)
    · have : fuel = k + 1 := by omega
      rw [this]

theorem findGrouping_fuel_any {reg : Registry} {linked : List Nat} {fuel₁ fuel₂ : Nat} {root : Mod}
    {scope : List Stmt} {name : String} {seen : List String}
    (h₁ : groupingNeed reg scope name seen ≤ fuel₁) (h₂ : groupingNeed reg scope name seen ≤ fuel₂) :
    findGrouping reg linked fuel₁ root scope name seen = findGrouping reg linked fuel₂ root scope name seen := by
  rw [findGrouping_fuel_ge (Nat.le_refl _) h₁, findGrouping_fuel_ge (Nat.le_refl _) h₂]

/-- A bound without `seen` and without subtraction-like terms: every loaded module counts. -/
theorem groupingNeed_le (reg : Registry) (scope : List Stmt) (name : String) (seen : List String) :
    groupingNeed reg scope name seen ≤
      scope.length + (name.length + reg.mods.length + 1) * (groupingWidth reg scope + 4) := by
  unfold groupingNeed
  have h1 := Nat.mul_le_mul_right (groupingWidth reg scope + 4)
    (Nat.add_le_add_left (unseen_le reg seen) name.length)
  have h2 : (name.length + reg.mods.length + 1) * (groupingWidth reg scope + 4) =
      (name.length + reg.mods.length) * (groupingWidth reg scope + 4) +
        (groupingWidth reg scope + 4) := Nat.succ_mul _ _
  omega

/-! ## 4. Non-vacuity -/

theorem drop_copy_eq (s : String) (k : Nat) :
    (s.drop k).copy = String.ofList (s.toList.drop k) := by
  apply String.ext_iff.2
  simp

namespace Ex
def gS : Stmt := .mk "grouping" true "g" "m.yang" 2 3 []
def cS : Stmt := .mk "container" true "c" "m.yang" 3 3 []
def pS : Stmt := .mk "prefix" true "p" "m.yang" 1 12 []
def iS : Stmt := .mk "import" true "n" "m.yang" 1 20 [.mk "prefix" true "q" "m.yang" 1 30 []]
def incS : Stmt := .mk "include" true "s" "m.yang" 1 40 []
def mS : Stmt := .mk "module" true "m" "m.yang" 1 1 [pS, iS, incS, gS, cS]
def hS : Stmt := .mk "grouping" true "h" "n.yang" 2 3 []
def nS : Stmt := .mk "module" true "n" "n.yang" 1 1 [.mk "prefix" true "n" "n.yang" 1 12 [], hS]
def kS : Stmt := .mk "grouping" true "k" "s.yang" 2 3 []
def sS : Stmt := .mk "submodule" true "s" "s.yang" 1 1
  [.mk "belongs-to" true "m" "s.yang" 1 12 [.mk "prefix" true "p" "s.yang" 1 20 []], kS]
def m : Mod := { seq := 0, stmt := mS }
def n : Mod := { seq := 1, stmt := nS }
def s : Mod := { seq := 2, stmt := sS }
def reg0 : Registry :=
  { mods := [m, n, s], modules := [("m", 0), ("n", 1)], subModules := [("s", 2)] }

example : (findGrouping reg0 [0, 1, 2] 3 m [cS, mS] "g" []).1 = some (gS, m, [mS]) := by rfl
example : (findGrouping reg0 [0, 1, 2] 2 m [cS, mS] "g" []).1 = none := by rfl
example : fgIncludes reg0 [0, 1, 2] 5 [incS] "k" [] = (some (kS, s, [sS]), ["s"]) := by rfl
example : groupingNeed reg0 [cS, mS] "g" [] = 46 := by decide
-- the hypothesis of `findGrouping_fuel` is satisfiable
example : findGrouping reg0 [0, 1, 2] 47 m [cS, mS] "g" [] = findGrouping reg0 [0, 1, 2] 46 m [cS, mS] "g" [] :=
  findGrouping_fuel (by decide)
example : (findGrouping reg0 [0, 1, 2] 1000 m [cS, mS] "g" []).1 = some (gS, m, [mS]) := by
  rw [findGrouping_fuel_ge (fuel := 46) (by decide) (by decide)]
  rfl

theorem importHit_ex : importHit reg0 [0, 1, 2] 4 iS "q:h" [] = findGrouping reg0 [0, 1, 2] 4 n [nS] "h" [] := by
  have hp : (iS.argOf? "prefix").getD "" = "q" := rfl
  have hf : reg0.findModule false iS = some n := rfl
  unfold importHit
  simp [hp, hf, drop_copy_eq, ← String.length_toList, String.contains_char_eq,
    String.startsWith_string_iff]
  rfl

example : fgImports reg0 [0, 1, 2] 5 [iS] "q:h" [] = (some (hS, n, [nS]), []) := by
  rw [fgImports_cons, importHit_ex]
  rfl
end Ex

end Goyang.Lemmas.Fuel
