import Goyang.Model.Dump
/-
Fuel adequacy of the three fuel-driven recursions of the resolver model:

* (A) `includeWalk` / `linkAll` (Model/Process.lean): the walk never returns the `out-of-fuel`
  marker when given `unvisited + 1` fuel, and is independent of the fuel above that bound;
  `linkAll` (which gives `reg.mods.length + 1`) therefore never reports `out-of-fuel`.
* (B) `augmentPass` / `augmentLoop` (Model/Process.lean): a pass is independent of its fuel from
  `mods.size - i + 1` on, the loop from `pendingTotal s + 1` on (keys of `pending` distinct).
* (C) `dumpTree` (Model/Dump.lean): independent of the fuel from `entryDepth e` on and free of the
  `"N out-of-fuel"` record.

Everything is stated for all registries / states / entries.
-/
namespace Goyang.Lemmas.Fuel
open Goyang.Model

/-! ### generic helpers -/

/-- `foldl` preserves an invariant. -/
theorem foldl_inv {α β} (P : β → Prop) (f : β → α → β) (l : List α) (a : β)
    (h0 : P a) (hstep : ∀ a x, x ∈ l → P a → P (f a x)) : P (l.foldl f a) := by
  induction l generalizing a with
  | nil => exact h0
  | cons y ys ih =>
    simp only [List.foldl_cons]
    exact ih _ (hstep a y (List.mem_cons_self ..) h0)
      (fun a x hx hP => hstep a x (List.mem_cons_of_mem _ hx) hP)

/-- Two folds that agree step by step on states satisfying an invariant agree. -/
theorem foldl_congr_inv {α β} (P : β → Prop) (f g : β → α → β) (l : List α) (a : β)
    (h0 : P a) (hstep : ∀ a x, x ∈ l → P a → P (f a x))
    (heq : ∀ a x, x ∈ l → P a → f a x = g a x) : l.foldl f a = l.foldl g a := by
  induction l generalizing a with
  | nil => rfl
  | cons y ys ih =>
    simp only [List.foldl_cons]
    rw [← heq a y (List.mem_cons_self ..) h0]
    exact ih _ (hstep a y (List.mem_cons_self ..) h0)
      (fun a x hx hP => hstep a x (List.mem_cons_of_mem _ hx) hP)
      (fun a x hx hP => heq a x (List.mem_cons_of_mem _ hx) hP)

theorem mem_insertBy {α} (lt : α → α → Bool) (x y : α) (l : List α) :
    y ∈ insertBy lt x l ↔ y = x ∨ y ∈ l := by
  induction l with
  | nil => simp [insertBy]
  | cons z zs ih =>
    simp only [insertBy]
    split
    · simp
    · simp only [List.mem_cons, ih]
      constructor
      · rintro (h | h | h)
        · exact Or.inr (Or.inl h)
        · exact Or.inl h
        · exact Or.inr (Or.inr h)
      · rintro (h | h | h)
        · exact Or.inr (Or.inl h)
        · exact Or.inl h
        · exact Or.inr (Or.inr h)

/-- `sortBy` is a permutation as far as membership goes. -/
theorem mem_sortBy {α} (lt : α → α → Bool) (y : α) (l : List α) : y ∈ sortBy lt l ↔ y ∈ l := by
  induction l with
  | nil => simp [sortBy]
  | cons z zs ih =>
    have : sortBy lt (z :: zs) = insertBy lt z (sortBy lt zs) := rfl
    rw [this, mem_insertBy, ih, List.mem_cons]

/-! ### (A) `includeWalk`, `linkAll` -/

/-- Modules of the registry that are not yet marked (counted with multiplicity). -/
def unvisited (reg : Registry) (visited : List Nat) : Nat :=
  (reg.mods.filter fun m => !visited.contains m.seq).length

theorem unvisited_le (reg : Registry) (visited : List Nat) : unvisited reg visited ≤ reg.mods.length :=
  List.length_filter_le _ _

theorem unvisited_mono (reg : Registry) (v v' : List Nat) (h : ∀ x, x ∈ v → x ∈ v') :
    unvisited reg v' ≤ unvisited reg v := by
  unfold unvisited
  rw [← List.countP_eq_length_filter, ← List.countP_eq_length_filter]
  apply List.countP_mono_left
  intro m _ hm
  simp only [Bool.not_eq_true', List.contains_eq_mem, decide_eq_false_iff_not] at hm ⊢
  exact fun hx => hm (h _ hx)

private theorem countP_lt {α} (p q : α → Bool) (l : List α) (a : α) (ha : a ∈ l)
    (himp : ∀ x, x ∈ l → q x = true → p x = true) (hp : p a = true) (hq : q a = false) :
    l.countP q < l.countP p := by
  induction l with
  | nil => cases ha
  | cons y ys ih =>
    have hmono : ys.countP q ≤ ys.countP p :=
      List.countP_mono_left fun x hx => himp x (List.mem_cons_of_mem _ hx)
    rcases List.mem_cons.mp ha with rfl | hys
    · rw [List.countP_cons_of_pos hp, List.countP_cons_of_neg (by simp [hq])]
      omega
    · have := ih hys fun x hx => himp x (List.mem_cons_of_mem _ hx)
      simp only [List.countP_cons]
      have : (if q y = true then 1 else 0) ≤ (if p y = true then 1 else 0) := by
        by_cases hqy : q y = true
        · simp [hqy, himp y (List.mem_cons_self ..) hqy]
        · simp [hqy]
      omega

/-- Marking a module of the registry that was not marked lowers `unvisited`. -/
theorem unvisited_cons_lt (reg : Registry) (v : List Nat) (m : Mod) (hm : m ∈ reg.mods)
    (hv : v.contains m.seq = false) : unvisited reg (m.seq :: v) < unvisited reg v := by
  unfold unvisited
  rw [← List.countP_eq_length_filter, ← List.countP_eq_length_filter]
  apply countP_lt _ _ _ m hm
  · intro x _ hx
    simp only [Bool.not_eq_true', List.contains_eq_mem, decide_eq_false_iff_not, List.mem_cons,
      not_or] at hx ⊢
    exact hx.2
  · simpa using hv
  · simp

private theorem byId_mem (reg : Registry) (id : Nat) (m : Mod) (h : reg.byId id = some m) : m ∈ reg.mods :=
  List.mem_of_find?_eq_some h

private theorem getModule_mem (reg : Registry) (k : String) (m : Mod) (h : reg.getModule k = some m) :
    m ∈ reg.mods := by
  unfold Registry.getModule at h
  cases hk : reg.modules.get? k with
  | none => simp [hk] at h
  | some id => rw [hk] at h; exact byId_mem reg id m h

private theorem getSub_mem (reg : Registry) (k : String) (m : Mod) (h : reg.getSub k = some m) :
    m ∈ reg.mods := by
  unfold Registry.getSub at h
  cases hk : reg.subModules.get? k with
  | none => simp [hk] at h
  | some id => rw [hk] at h; exact byId_mem reg id m h

/-- Whatever `FindModule` returns has been loaded. -/
private theorem findModule_mem (reg : Registry) (isInclude : Bool) (i : Stmt) (m : Mod)
    (h : reg.findModule isInclude i = some m) : m ∈ reg.mods := by
  have key : ∀ k, (if isInclude then reg.getSub else reg.getModule) k = some m → m ∈ reg.mods := by
    intro k hk
    cases isInclude
    · exact getModule_mem reg k m hk
    · exact getSub_mem reg k m hk
  unfold Registry.findModule at h
  simp only at h
  split at h
  · next m' hm' => cases h; exact key _ hm'
  · exact key _ h

/-- The `out-of-fuel` marker of `includeWalk`. -/
abbrev oof : Err := Err.bare "out-of-fuel"

/-- One step of the local `walkList` fold of `includeWalk` (the same term, named). -/
def walkStep (reg : Registry) (fuel : Nat) (isInclude : Bool) (acc : List Nat × Option Err) (i : Stmt) :
    List Nat × Option Err :=
  match acc.2 with
  | some _ => acc
  | none =>
    match reg.findModule isInclude i with
    | none => (acc.1, some (Err.bare (if isInclude then "no-such-submodule" else "no-such-module")))
    | some im => includeWalk reg fuel acc.1 im

theorem includeWalk_zero (reg : Registry) (visited : List Nat) (m : Mod) :
    includeWalk reg 0 visited m = (visited, some oof) := rfl

theorem includeWalk_succ (reg : Registry) (fuel : Nat) (visited : List Nat) (m : Mod) :
    includeWalk reg (fuel + 1) visited m =
      if visited.contains m.seq then (visited, none) else
        m.imports.foldl (walkStep reg fuel false)
          (m.includes.foldl (walkStep reg fuel true) (m.seq :: visited, none)) := rfl

/-- A.1: the walk only ever adds marks. -/
theorem includeWalk_visited_mono (reg : Registry) (fuel : Nat) (visited : List Nat) (m : Mod) (x : Nat)
    (hx : x ∈ visited) : x ∈ (includeWalk reg fuel visited m).1 := by
  induction fuel generalizing visited m with
  | zero => exact hx
  | succ n ih =>
    have hstep : ∀ b (acc : List Nat × Option Err) i, x ∈ acc.1 → x ∈ (walkStep reg n b acc i).1 := by
      intro b acc i h
      unfold walkStep
      split
      · exact h
      · split
        · exact h
        · exact ih _ _ h
    rw [includeWalk_succ]
    split
    · exact hx
    · apply foldl_inv (fun acc : List Nat × Option Err => x ∈ acc.1)
      · apply foldl_inv (fun acc : List Nat × Option Err => x ∈ acc.1)
        · exact List.mem_cons_of_mem _ hx
        · exact fun a i _ ha => hstep true a i ha
      · exact fun a i _ ha => hstep false a i ha

/-- A.2: with one unit of fuel per unmarked module of the registry, plus one, the walk from a loaded
module never returns the `out-of-fuel` marker. -/
theorem includeWalk_fuel (reg : Registry) (fuel : Nat) (visited : List Nat) (m : Mod)
    (hm : m ∈ reg.mods) (hf : unvisited reg visited + 1 ≤ fuel) :
    (includeWalk reg fuel visited m).2 ≠ some (Err.bare "out-of-fuel") := by
  induction fuel generalizing visited m with
  | zero => omega
  | succ n ih =>
    rw [includeWalk_succ]
    split
    · simp
    · next hc =>
      have hlt := unvisited_cons_lt reg visited m hm (by simpa using hc)
      let P : List Nat × Option Err → Prop := fun acc =>
        (∀ x, x ∈ m.seq :: visited → x ∈ acc.1) ∧ acc.2 ≠ some oof
      have hstep : ∀ b (acc : List Nat × Option Err) i, P acc → P (walkStep reg n b acc i) := by
        intro b acc i h
        obtain ⟨v, e⟩ := acc
        unfold walkStep
        cases e with
        | some e' => exact h
        | none =>
          simp only
          cases hfm : reg.findModule b i with
          | none =>
            have hcls : ∀ b : Bool,
                Err.bare (if b then "no-such-submodule" else "no-such-module") ≠ oof := by decide
            exact ⟨h.1, fun h' => hcls b (Option.some.inj h')⟩
          | some im =>
            refine ⟨fun x hx => includeWalk_visited_mono _ _ _ _ _ (h.1 x hx), ?_⟩
            apply ih v im (findModule_mem reg b i im hfm)
            have := unvisited_mono reg (m.seq :: visited) v h.1
            omega
      have h1 : P (m.includes.foldl (walkStep reg n true) (m.seq :: visited, none)) :=
        foldl_inv P _ _ _ ⟨fun x hx => hx, by simp⟩ (fun a i _ ha => hstep true a i ha)
      exact (foldl_inv P _ _ _ h1 (fun a i _ ha => hstep false a i ha)).2

/-- A.3: above the bound the result does not depend on the fuel (one more unit changes nothing). -/
theorem includeWalk_fuel_stable (reg : Registry) (fuel : Nat) (visited : List Nat) (m : Mod)
    (hm : m ∈ reg.mods) (hf : unvisited reg visited + 1 ≤ fuel) :
    includeWalk reg (fuel + 1) visited m = includeWalk reg fuel visited m := by
  induction fuel generalizing visited m with
  | zero => omega
  | succ n ih =>
    rw [includeWalk_succ reg (n + 1), includeWalk_succ reg n]
    split
    · rfl
    · next hc =>
      have hlt := unvisited_cons_lt reg visited m hm (by simpa using hc)
      let P : List Nat × Option Err → Prop := fun acc => ∀ x, x ∈ m.seq :: visited → x ∈ acc.1
      have hstep : ∀ b (acc : List Nat × Option Err) i, P acc → P (walkStep reg n b acc i) := by
        intro b acc i h
        unfold walkStep
        split
        · exact h
        · split
          · exact h
          · exact fun x hx => includeWalk_visited_mono _ _ _ _ _ (h x hx)
      have heq : ∀ b (acc : List Nat × Option Err) i, P acc →
          walkStep reg n b acc i = walkStep reg (n + 1) b acc i := by
        intro b acc i h
        unfold walkStep
        split
        · rfl
        · split
          · rfl
          · next im hfm =>
            symm
            apply ih acc.1 im (findModule_mem reg b i im hfm)
            have := unvisited_mono reg (m.seq :: visited) acc.1 h
            omega
      have h0 : P (m.seq :: visited, none) := fun x hx => hx
      have h1 : P (m.includes.foldl (walkStep reg n true) (m.seq :: visited, none)) :=
        foldl_inv P _ _ _ h0 (fun a i _ ha => hstep true a i ha)
      rw [← foldl_congr_inv P _ _ m.includes _ h0 (fun a i _ ha => hstep true a i ha)
        (fun a i _ ha => heq true a i ha)]
      exact (foldl_congr_inv P _ _ m.imports _ h1 (fun a i _ ha => hstep false a i ha)
        (fun a i _ ha => heq false a i ha)).symm

/-- A.3, closed form: every fuel from the bound on gives the result of the bound itself. -/
theorem includeWalk_fuel_indep (reg : Registry) (fuel : Nat) (visited : List Nat) (m : Mod)
    (hm : m ∈ reg.mods) (hf : unvisited reg visited + 1 ≤ fuel) :
    includeWalk reg fuel visited m = includeWalk reg (unvisited reg visited + 1) visited m := by
  induction fuel with
  | zero => omega
  | succ n ih =>
    by_cases h : unvisited reg visited + 1 ≤ n
    · rw [includeWalk_fuel_stable reg n visited m hm h]; exact ih h
    · have : n + 1 = unvisited reg visited + 1 := by omega
      rw [this]

theorem distinctModules_mem (reg : Registry) (m : Mod) (h : m ∈ reg.distinctModules) : m ∈ reg.mods :=
  (List.mem_filter.mp h).1

/-- A.4: `linkAll` (fuel `reg.mods.length + 1` per root) never reports `out-of-fuel`. -/
theorem linkAll_never_out_of_fuel (reg : Registry) : Err.bare "out-of-fuel" ∉ (linkAll reg).2 := by
  unfold linkAll
  simp only
  apply foldl_inv (fun acc : List Nat × List Err => oof ∉ acc.2)
  · simp
  · intro acc m hm hacc
    have hmem : m ∈ reg.mods := distinctModules_mem reg m ((mem_sortBy _ _ _).mp hm)
    have hne := includeWalk_fuel reg (reg.mods.length + 1) acc.1 m hmem
      (by have := unvisited_le reg acc.1; omega)
    generalize includeWalk reg (reg.mods.length + 1) acc.1 m = r at hne
    obtain ⟨v, e⟩ := r
    cases e with
    | none => exact hacc
    | some e' =>
      simp only [List.mem_append, List.mem_singleton, not_or]
      exact ⟨hacc, fun h => hne (by subst h; rfl)⟩

/-! ### (B) `augmentPass`, `augmentLoop` -/

theorem augmentPass_succ (reg : Registry) (fuel : Nat) (mods : Array Nat) (i processed : Nat) (s : PState) :
    augmentPass reg (fuel + 1) mods i processed s =
      if h : i < mods.size then
        if (augmentTree reg mods[i] false s).2.2 == 0 then
          augmentPass reg fuel (mods.set i (mods.back?.getD 0) h).pop i
            (processed + (augmentTree reg mods[i] false s).2.1) (augmentTree reg mods[i] false s).1
        else augmentPass reg fuel mods (i + 1)
            (processed + (augmentTree reg mods[i] false s).2.1) (augmentTree reg mods[i] false s).1
      else (mods, processed, s) := by
  rw [augmentPass]

/-- Two fuels at or above `mods.size - i + 1` give the same pass. -/
theorem augmentPass_fuel_eq (reg : Registry) (f1 f2 : Nat) (mods : Array Nat) (i processed : Nat) (s : PState)
    (h1 : mods.size - i + 1 ≤ f1) (h2 : mods.size - i + 1 ≤ f2) :
    augmentPass reg f1 mods i processed s = augmentPass reg f2 mods i processed s := by
  induction f1 generalizing f2 mods i processed s with
  | zero => omega
  | succ a ih =>
    obtain ⟨b, rfl⟩ : ∃ b, f2 = b + 1 := ⟨f2 - 1, by omega⟩
    rw [augmentPass_succ, augmentPass_succ]
    split
    · next hi =>
      split
      · apply ih
        · simp only [Array.size_pop, Array.size_set]; omega
        · simp only [Array.size_pop, Array.size_set]; omega
      · apply ih <;> omega
    · rfl

/-- B.1: every iteration of a pass either drops one element of `mods` or advances `i`, so
`mods.size - i + 1` units of fuel are never used up (the model gives `mods.size + 1` at `i = 0`). -/
theorem augmentPass_fuel (reg : Registry) (fuel : Nat) (mods : Array Nat) (i processed : Nat) (s : PState)
    (h : mods.size - i + 1 ≤ fuel) :
    augmentPass reg fuel mods i processed s = augmentPass reg (mods.size - i + 1) mods i processed s :=
  augmentPass_fuel_eq reg _ _ mods i processed s h (Nat.le_refl _)

/-- The `fail` continuation of the fold in `augmentTree`, state part. -/
def augFail (id : Nat) (addErrors : Bool) (a : Entry) (s : PState) : PState :=
  if addErrors then
    match s.forest.tree? id with
    | some root => { s with forest := s.forest.setTree id (root.addErr (Err.at_ a.d.node "augment-not-found")) }
    | none => s
  else s

/-- The step of the fold in `augmentTree` (the same term, named). -/
def augStep (reg : Registry) (id : Nat) (addErrors : Bool) (nsOf : String)
    (acc : PState × List Entry × Nat × Nat) (a : Entry) : PState × List Entry × Nat × Nat :=
  let (s, unapplied, p, k) := acc
  let (target, forest) := find reg s.forest (id, []) a.d.nodeMod a.d.name
  let s := { s with forest := forest }
  let fail (s : PState) : PState × List Entry × Nat × Nat := (augFail id addErrors a s, unapplied ++ [a], p, k + 1)
  match target with
  | none => fail s
  | some (t, path) =>
    match (s.forest.tree? t).bind (·.getAt path) with
    | none => fail s
    | some te =>
      if cannotHaveChildren te then fail s else
      match s.forest.tree? t with
      | none => fail s
      | some root =>
        let root := root.updateAt path fun te => te.merge (some nsOf) a
        ({ s with forest := s.forest.setTree t root }, unapplied, p + 1, k)

theorem augmentTree_eq (reg : Registry) (id : Nat) (addErrors : Bool) (s : PState) :
    augmentTree reg id addErrors s =
      (((s.pendingOf id).foldl (augStep reg id addErrors (namespaceAt reg s.forest (id, []))) (s, [], 0, 0)).1.setPending id
          ((s.pendingOf id).foldl (augStep reg id addErrors (namespaceAt reg s.forest (id, []))) (s, [], 0, 0)).2.1,
        ((s.pendingOf id).foldl (augStep reg id addErrors (namespaceAt reg s.forest (id, []))) (s, [], 0, 0)).2.2.1,
        ((s.pendingOf id).foldl (augStep reg id addErrors (namespaceAt reg s.forest (id, []))) (s, [], 0, 0)).2.2.2) := rfl

theorem augFail_pending (id : Nat) (addErrors : Bool) (a : Entry) (s : PState) :
    (augFail id addErrors a s).pending = s.pending := by
  unfold augFail
  split
  · split <;> rfl
  · rfl

/-- One augment either is applied (`p + 1`) or is kept (`unapplied ++ [a]`, `k + 1`); `pending` is
not touched. -/
theorem augStep_spec (reg : Registry) (id : Nat) (addErrors : Bool) (nsOf : String)
    (acc : PState × List Entry × Nat × Nat) (a : Entry) :
    (augStep reg id addErrors nsOf acc a).1.pending = acc.1.pending ∧
    (((augStep reg id addErrors nsOf acc a).2.1 = acc.2.1 ++ [a] ∧
        (augStep reg id addErrors nsOf acc a).2.2.1 = acc.2.2.1 ∧
        (augStep reg id addErrors nsOf acc a).2.2.2 = acc.2.2.2 + 1) ∨
     ((augStep reg id addErrors nsOf acc a).2.1 = acc.2.1 ∧
        (augStep reg id addErrors nsOf acc a).2.2.1 = acc.2.2.1 + 1 ∧
        (augStep reg id addErrors nsOf acc a).2.2.2 = acc.2.2.2)) := by
  obtain ⟨s, un, p, k⟩ := acc
  unfold augStep
  simp only
  split
  · exact ⟨augFail_pending .., Or.inl ⟨rfl, rfl, rfl⟩⟩
  · split
    · exact ⟨augFail_pending .., Or.inl ⟨rfl, rfl, rfl⟩⟩
    · split
      · exact ⟨augFail_pending .., Or.inl ⟨rfl, rfl, rfl⟩⟩
      · split
        · exact ⟨augFail_pending .., Or.inl ⟨rfl, rfl, rfl⟩⟩
        · exact ⟨rfl, Or.inr ⟨rfl, rfl, rfl⟩⟩

theorem augFold_spec (reg : Registry) (id : Nat) (addErrors : Bool) (nsOf : String)
    (l : List Entry) (acc : PState × List Entry × Nat × Nat) (hacc : acc.2.1.length = acc.2.2.2) :
    (l.foldl (augStep reg id addErrors nsOf) acc).1.pending = acc.1.pending ∧
    (l.foldl (augStep reg id addErrors nsOf) acc).2.1.length = (l.foldl (augStep reg id addErrors nsOf) acc).2.2.2 ∧
    (l.foldl (augStep reg id addErrors nsOf) acc).2.2.1 + (l.foldl (augStep reg id addErrors nsOf) acc).2.2.2 =
      acc.2.2.1 + acc.2.2.2 + l.length := by
  induction l generalizing acc with
  | nil => exact ⟨rfl, hacc, rfl⟩
  | cons a as ih =>
    simp only [List.foldl_cons, List.length_cons]
    obtain ⟨hp, hc⟩ := augStep_spec reg id addErrors nsOf acc a
    have hacc' : (augStep reg id addErrors nsOf acc a).2.1.length = (augStep reg id addErrors nsOf acc a).2.2.2 := by
      rcases hc with ⟨h1, _, h3⟩ | ⟨h1, _, h3⟩
      · rw [h1, h3, List.length_append, hacc]; rfl
      · rw [h1, h3, hacc]
    obtain ⟨i1, i2, i3⟩ := ih _ hacc'
    refine ⟨i1.trans hp, i2, ?_⟩
    rcases hc with ⟨_, h2, h3⟩ | ⟨_, h2, h3⟩ <;> omega

/-- Number of augments still pending (literally the `total` computed in `processAll`). -/
def pendingTotal (s : PState) : Nat := s.pending.foldl (fun n p => n + p.2.length) 0

/-- Keys (tree ids) of the pending table. -/
abbrev pendingKeys (s : PState) : List Nat := s.pending.map (·.1)

private def tot (L : List (Nat × List Entry)) : Nat := L.foldl (fun n p => n + p.2.length) 0

private theorem tot_foldl (L : List (Nat × List Entry)) (init : Nat) :
    L.foldl (fun n p => n + p.2.length) init = init + tot L := by
  unfold tot
  induction L generalizing init with
  | nil => rfl
  | cons x xs ih => simp only [List.foldl_cons]; rw [ih, ih (0 + _)]; omega

private theorem tot_cons (x : Nat × List Entry) (L : List (Nat × List Entry)) :
    tot (x :: L) = x.2.length + tot L := by
  show List.foldl _ _ _ = _
  simp only [List.foldl_cons]
  rw [tot_foldl]; omega

private def upd (id : Nat) (l : List Entry) : Nat × List Entry → Nat × List Entry :=
  fun (i, p) => if i == id then (i, l) else (i, p)

private def lookup (L : List (Nat × List Entry)) (id : Nat) : List Entry :=
  ((L.find? (·.1 == id)).map (·.2)).getD []

private theorem upd_keys (id : Nat) (l : List Entry) (L : List (Nat × List Entry)) :
    (L.map (upd id l)).map (·.1) = L.map (·.1) := by
  induction L with
  | nil => rfl
  | cons x xs ih =>
    obtain ⟨i, q⟩ := x
    simp only [List.map_cons, ih, upd]
    split <;> rfl

private theorem upd_absent (id : Nat) (l : List Entry) (L : List (Nat × List Entry))
    (h : id ∉ L.map (·.1)) : L.map (upd id l) = L ∧ lookup L id = [] := by
  induction L with
  | nil => exact ⟨rfl, rfl⟩
  | cons x xs ih =>
    obtain ⟨i, q⟩ := x
    simp only [List.map_cons, List.mem_cons, not_or] at h
    obtain ⟨h1, h2⟩ := h
    obtain ⟨ih1, ih2⟩ := ih h2
    have hne : (i == id) = false := by simpa using fun e => h1 e.symm
    constructor
    · simp only [List.map_cons, ih1, upd, hne]; rfl
    · unfold lookup at ih2 ⊢
      simp only [List.find?_cons, hne]
      exact ih2

private theorem upd_present (id : Nat) (l : List Entry) (L : List (Nat × List Entry))
    (hnd : (L.map (·.1)).Nodup) (h : id ∈ L.map (·.1)) :
    tot (L.map (upd id l)) + (lookup L id).length = tot L + l.length := by
  induction L with
  | nil => cases h
  | cons x xs ih =>
    obtain ⟨i, q⟩ := x
    simp only [List.map_cons, List.nodup_cons] at hnd
    obtain ⟨hni, hnd'⟩ := hnd
    by_cases hi : i = id
    · subst hi
      obtain ⟨e1, _⟩ := upd_absent i l xs hni
      have hl : lookup ((i, q) :: xs) i = q := by
        unfold lookup; simp
      rw [hl, List.map_cons, e1, tot_cons, tot_cons]
      have : upd i l (i, q) = (i, l) := by simp [upd]
      rw [this]
      simp only
      omega
    · have hne : (i == id) = false := by simpa using hi
      have hmem : id ∈ xs.map (·.1) := by
        simp only [List.map_cons, List.mem_cons] at h
        rcases h with h | h
        · exact absurd h.symm hi
        · exact h
      have := ih hnd' hmem
      have hl : lookup ((i, q) :: xs) id = lookup xs id := by
        unfold lookup; simp only [List.find?_cons, hne]
      have hu : upd id l (i, q) = (i, q) := by simp [upd, hne]
      rw [hl, List.map_cons, hu, tot_cons, tot_cons]
      simp only
      omega

theorem setPending_keys (s : PState) (id : Nat) (l : List Entry) :
    pendingKeys (s.setPending id l) = pendingKeys s :=
  upd_keys id l s.pending

/-- `p + k` is the number of augments that were pending for the tree. -/
theorem augmentTree_counts (reg : Registry) (id : Nat) (addErrors : Bool) (s : PState) :
    (augmentTree reg id addErrors s).2.1 + (augmentTree reg id addErrors s).2.2 = (s.pendingOf id).length := by
  rw [augmentTree_eq]
  have := (augFold_spec reg id addErrors (namespaceAt reg s.forest (id, [])) (s.pendingOf id) (s, [], 0, 0) rfl).2.2
  simpa using this

/-- B.2a: `augmentTree` keeps the keys of `pending`, and the augments it applies (`p`) leave it. -/
theorem augmentTree_pending (reg : Registry) (id : Nat) (addErrors : Bool) (s : PState)
    (hnd : (s.pending.map (·.1)).Nodup) :
    (augmentTree reg id addErrors s).1.pending.map (·.1) = s.pending.map (·.1) ∧
    pendingTotal (augmentTree reg id addErrors s).1 + (augmentTree reg id addErrors s).2.1 = pendingTotal s := by
  rw [augmentTree_eq]
  obtain ⟨h1, h2, h3⟩ :=
    augFold_spec reg id addErrors (namespaceAt reg s.forest (id, [])) (s.pendingOf id) (s, [], 0, 0) rfl
  generalize (s.pendingOf id).foldl (augStep reg id addErrors (namespaceAt reg s.forest (id, []))) (s, [], 0, 0) = r
    at h1 h2 h3
  obtain ⟨s', un, p, k⟩ := r
  simp only at h1 h2 h3 ⊢
  have hset : (s'.setPending id un).pending = s.pending.map (upd id un) := by
    show s'.pending.map _ = _
    rw [h1]; rfl
  refine ⟨by rw [hset]; exact upd_keys id un s.pending, ?_⟩
  show tot (s'.setPending id un).pending + p = tot s.pending
  rw [hset]
  have hlk : s.pendingOf id = lookup s.pending id := rfl
  rw [hlk] at h3
  by_cases hmem : id ∈ s.pending.map (·.1)
  · have := upd_present id un s.pending hnd hmem
    omega
  · obtain ⟨e1, e2⟩ := upd_absent id un s.pending hmem
    rw [e1]
    rw [e2] at h3
    simp only [List.length_nil] at h3
    omega

/-- B.2b: a whole pass keeps the keys of `pending`; what it counts as processed has left it. -/
theorem augmentPass_pending (reg : Registry) (fuel : Nat) (mods : Array Nat) (i processed : Nat) (s : PState)
    (hnd : (s.pending.map (·.1)).Nodup) :
    (augmentPass reg fuel mods i processed s).2.2.pending.map (·.1) = s.pending.map (·.1) ∧
    pendingTotal (augmentPass reg fuel mods i processed s).2.2 + (augmentPass reg fuel mods i processed s).2.1 =
      pendingTotal s + processed := by
  induction fuel generalizing mods i processed s with
  | zero => exact ⟨rfl, rfl⟩
  | succ n ih =>
    rw [augmentPass_succ]
    split
    · next hi =>
      obtain ⟨hk, ht⟩ := augmentTree_pending reg mods[i] false s hnd
      have hnd' : ((augmentTree reg mods[i] false s).1.pending.map (·.1)).Nodup := by rw [hk]; exact hnd
      split
      · obtain ⟨i1, i2⟩ := ih (mods.set i (mods.back?.getD 0) hi).pop i
          (processed + (augmentTree reg mods[i] false s).2.1) _ hnd'
        exact ⟨i1.trans hk, by omega⟩
      · obtain ⟨i1, i2⟩ := ih mods (i + 1) (processed + (augmentTree reg mods[i] false s).2.1) _ hnd'
        exact ⟨i1.trans hk, by omega⟩
    · exact ⟨rfl, rfl⟩

theorem augmentLoop_succ (reg : Registry) (fuel : Nat) (mods : Array Nat) (s : PState) :
    augmentLoop reg (fuel + 1) mods s =
      if mods.isEmpty then (mods, s) else
        if (augmentPass reg (mods.size + 1) mods 0 0 s).2.1 == 0 then
          ((augmentPass reg (mods.size + 1) mods 0 0 s).1, (augmentPass reg (mods.size + 1) mods 0 0 s).2.2)
        else augmentLoop reg fuel (augmentPass reg (mods.size + 1) mods 0 0 s).1
          (augmentPass reg (mods.size + 1) mods 0 0 s).2.2 := by
  rw [augmentLoop]

/-- Two fuels at or above `pendingTotal s + 1` give the same loop. -/
theorem augmentLoop_fuel_eq (reg : Registry) (f1 f2 : Nat) (mods : Array Nat) (s : PState)
    (hnd : (s.pending.map (·.1)).Nodup) (h1 : pendingTotal s + 1 ≤ f1) (h2 : pendingTotal s + 1 ≤ f2) :
    augmentLoop reg f1 mods s = augmentLoop reg f2 mods s := by
  induction f1 generalizing f2 mods s with
  | zero => omega
  | succ a ih =>
    obtain ⟨b, rfl⟩ : ∃ b, f2 = b + 1 := ⟨f2 - 1, by omega⟩
    rw [augmentLoop_succ, augmentLoop_succ]
    split
    · rfl
    · split
      · rfl
      · next hp =>
        obtain ⟨hk, ht⟩ := augmentPass_pending reg (mods.size + 1) mods 0 0 s hnd
        have hp' : (augmentPass reg (mods.size + 1) mods 0 0 s).2.1 ≠ 0 := by simpa using hp
        apply ih
        · rw [hk]; exact hnd
        · omega
        · omega

/-- B.2c: every pass but the last applies at least one pending augment, so `pendingTotal s + 1`
rounds are never used up: the loop leaves through its own exits, whatever larger fuel it gets. -/
theorem augmentLoop_terminates (reg : Registry) (fuel : Nat) (mods : Array Nat) (s : PState)
    (hnd : (s.pending.map (·.1)).Nodup) (h : pendingTotal s + 1 ≤ fuel) :
    augmentLoop reg fuel mods s = augmentLoop reg (pendingTotal s + 1) mods s :=
  augmentLoop_fuel_eq reg _ _ mods s hnd h (Nat.le_refl _)

/-- The fuel `processAll` gives (`total + 2`) is above the bound. -/
theorem augmentLoop_model_fuel (reg : Registry) (mods : Array Nat) (s : PState)
    (hnd : (s.pending.map (·.1)).Nodup) :
    augmentLoop reg (s.pending.foldl (fun n p => n + p.2.length) 0 + 2) mods s =
      augmentLoop reg (pendingTotal s + 1) mods s :=
  augmentLoop_terminates reg _ mods s hnd (by unfold pendingTotal; omega)

/-- The `Nodup` hypothesis is satisfiable on a non-trivial state (two trees, one pending augment). -/
example : ∃ s : PState, s.pending ≠ [] ∧ (s.pending.map (·.1)).Nodup ∧ pendingTotal s = 1 :=
  ⟨{ pending := [(0, [.mk { name := "a" } [] [] []]), (1, [])] }, by simp, by decide, rfl⟩

/-- Why `Nodup` is needed: with the key `0` bound twice, `setPending` writes the one unapplied
augment into both bindings, so the total grows from 1 to 2 although nothing was applied.
(`processAll` builds `pending` by mapping over `distinctModules ++ distinctSubs`, one binding per
loaded (sub)module.) -/
theorem augmentTree_pending_needs_nodup :
    ∃ s : PState, ¬ (s.pending.map (·.1)).Nodup ∧
      pendingTotal (augmentTree {} 0 false s).1 + (augmentTree {} 0 false s).2.1 ≠ pendingTotal s :=
  ⟨{ pending := [(0, [.mk {} [] [] []]), (0, [])] }, by decide, by decide⟩

/-! ### (C) `dumpTree` -/

theorem dumpTree_zero (reg : Registry) (f : Forest) (modName : String) (root : Entry) (id : Nat)
    (path : Path) (e : Entry) : dumpTree reg f modName root id 0 path e = ["N out-of-fuel"] := rfl

theorem dumpTree_succ (reg : Registry) (f : Forest) (modName : String) (root : Entry) (id : Nat)
    (fuel : Nat) (path : Path) (e : Entry) :
    dumpTree reg f modName root id (fuel + 1) path e =
      dumpNode reg f modName root (id, path) e ::
        (((sortBy (fun (a b : Entry) => a.name < b.name) e.dir).map fun c =>
            dumpTree reg f modName root id fuel (path ++ [.child c.name]) c).flatten ++
         (e.inp.map fun c => dumpTree reg f modName root id fuel (path ++ [.input]) c).flatten ++
         (e.out.map fun c => dumpTree reg f modName root id fuel (path ++ [.output]) c).flatten) := rfl

theorem entryDepth_eq (e : Entry) :
    entryDepth e = 1 + max (entryDepth.depthL e.dir) (max (entryDepth.depthL e.inp) (entryDepth.depthL e.out)) := by
  cases e with
  | mk d c i o => rw [entryDepth]; rfl

theorem entryDepth_le_depthL (c : Entry) (l : List Entry) (h : c ∈ l) : entryDepth c ≤ entryDepth.depthL l := by
  induction l with
  | nil => cases h
  | cons x xs ih =>
    rw [entryDepth.depthL]
    rcases List.mem_cons.mp h with rfl | h'
    · omega
    · have := ih h'; omega

theorem entryDepth_dir_lt (e c : Entry) (h : c ∈ e.dir) : entryDepth c < entryDepth e := by
  have := entryDepth_le_depthL c _ h; have := entryDepth_eq e; omega

theorem entryDepth_inp_lt (e c : Entry) (h : c ∈ e.inp) : entryDepth c < entryDepth e := by
  have := entryDepth_le_depthL c _ h; have := entryDepth_eq e; omega

theorem entryDepth_out_lt (e c : Entry) (h : c ∈ e.out) : entryDepth c < entryDepth e := by
  have := entryDepth_le_depthL c _ h; have := entryDepth_eq e; omega

/-- Two fuels at or above `entryDepth e` give the same dump. -/
theorem dumpTree_fuel_eq (reg : Registry) (f : Forest) (modName : String) (root : Entry) (id : Nat)
    (f1 f2 : Nat) (path : Path) (e : Entry) (h1 : entryDepth e ≤ f1) (h2 : entryDepth e ≤ f2) :
    dumpTree reg f modName root id f1 path e = dumpTree reg f modName root id f2 path e := by
  induction f1 generalizing f2 path e with
  | zero => have := entryDepth_eq e; omega
  | succ a ih =>
    obtain ⟨b, rfl⟩ : ∃ b, f2 = b + 1 := ⟨f2 - 1, by have := entryDepth_eq e; omega⟩
    rw [dumpTree_succ, dumpTree_succ]
    have e1 : ((sortBy (fun (a b : Entry) => a.name < b.name) e.dir).map fun c =>
          dumpTree reg f modName root id a (path ++ [.child c.name]) c) =
        ((sortBy (fun (a b : Entry) => a.name < b.name) e.dir).map fun c =>
          dumpTree reg f modName root id b (path ++ [.child c.name]) c) := by
      apply List.map_congr_left
      intro c hc
      have := entryDepth_dir_lt e c ((mem_sortBy _ _ _).mp hc)
      exact ih b _ c (by omega) (by omega)
    have e2 : (e.inp.map fun c => dumpTree reg f modName root id a (path ++ [.input]) c) =
        (e.inp.map fun c => dumpTree reg f modName root id b (path ++ [.input]) c) := by
      apply List.map_congr_left
      intro c hc
      have := entryDepth_inp_lt e c hc
      exact ih b _ c (by omega) (by omega)
    have e3 : (e.out.map fun c => dumpTree reg f modName root id a (path ++ [.output]) c) =
        (e.out.map fun c => dumpTree reg f modName root id b (path ++ [.output]) c) := by
      apply List.map_congr_left
      intro c hc
      have := entryDepth_out_lt e c hc
      exact ih b _ c (by omega) (by omega)
    rw [e1, e2, e3]

/-- C.1: from `entryDepth e` on the dump does not depend on the fuel (`dumpOutcome` gives
`entryDepth root + 1`). -/
theorem dumpTree_fuel_stable (reg : Registry) (f : Forest) (modName : String) (root : Entry) (id : Nat)
    (fuel : Nat) (path : Path) (e : Entry) (h : entryDepth e ≤ fuel) :
    dumpTree reg f modName root id fuel path e = dumpTree reg f modName root id (entryDepth e) path e :=
  dumpTree_fuel_eq reg f modName root id _ _ path e h (Nat.le_refl _)

/-- A node record is longer than the 13 bytes of the marker: the literal pieces `" kind="`,
`" dir="`, `"] units="` of the interpolation alone have 19. -/
theorem dumpNode_ne_marker (reg : Registry) (f : Forest) (modName : String) (root : Entry) (loc : Loc)
    (e : Entry) : dumpNode reg f modName root loc e ≠ "N out-of-fuel" := by
  intro h
  have := congrArg String.length h
  unfold dumpNode at this
  simp only [String.length_append] at this
  have h1 : (toString " kind=").length = 6 := by decide
  have h2 : (toString " dir=").length = 5 := by decide
  have h3 : (toString "] units=").length = 8 := by decide
  have h4 : "N out-of-fuel".length = 13 := by decide
  rw [h1, h2, h3, h4] at this
  omega

/-- C.2: with `entryDepth e` fuel (or more) the marker record never appears in the dump. -/
theorem dumpTree_never_out_of_fuel (reg : Registry) (f : Forest) (modName : String) (root : Entry) (id : Nat)
    (fuel : Nat) (path : Path) (e : Entry) (h : entryDepth e ≤ fuel) :
    "N out-of-fuel" ∉ dumpTree reg f modName root id fuel path e := by
  induction fuel generalizing path e with
  | zero => have := entryDepth_eq e; omega
  | succ n ih =>
    rw [dumpTree_succ]
    simp only [List.mem_cons, List.mem_append, List.mem_flatten, List.mem_map, not_or]
    refine ⟨fun h' => dumpNode_ne_marker _ _ _ _ _ _ h'.symm, ⟨?_, ?_⟩, ?_⟩
    · rintro ⟨l, ⟨c, hc, rfl⟩, hl⟩
      have := entryDepth_dir_lt e c ((mem_sortBy _ _ _).mp hc)
      exact ih _ c (by omega) hl
    · rintro ⟨l, ⟨c, hc, rfl⟩, hl⟩
      have := entryDepth_inp_lt e c hc
      exact ih _ c (by omega) hl
    · rintro ⟨l, ⟨c, hc, rfl⟩, hl⟩
      have := entryDepth_out_lt e c hc
      exact ih _ c (by omega) hl

end Goyang.Lemmas.Fuel
