import Goyang.Lemmas.FuelLoops
/-
The state `processAll` hands to the augment loop satisfies the hypothesis of
`augmentLoop_terminates`: its pending lists are keyed by distinct trees, provided the registry is
one that loading produces (distinct sequence numbers, no module in both tables).
-/
namespace Goyang.Lemmas.Fuel
open Goyang.Model

theorem nodup_map_filter {α β} (f : α → β) (p : α → Bool) (l : List α) (h : (l.map f).Nodup) :
    ((l.filter p).map f).Nodup :=
  List.Pairwise.sublist ((List.filter_sublist (l := l) (p := p)).map f) h

theorem eq_of_nodup_map {α β} (f : α → β) : ∀ (l : List α), (l.map f).Nodup → ∀ a ∈ l, ∀ b ∈ l, f a = f b → a = b
  | [], _, a, ha, _, _, _ => by cases ha
  | x :: xs, h, a, ha, b, hb, hab => by
    simp only [List.map_cons, List.nodup_cons] at h
    cases ha with
    | head =>
      cases hb with
      | head => rfl
      | tail _ hb => exact absurd (hab ▸ List.mem_map_of_mem hb) h.1
    | tail _ ha =>
      cases hb with
      | head => exact absurd (hab ▸ List.mem_map_of_mem ha) h.1
      | tail _ hb => exact eq_of_nodup_map f xs h.2 a ha b hb hab

/-- A registry as loading produces it: sequence numbers are distinct and no module is bound in
both the module table and the submodule table. -/
structure LoadedShape (reg : Registry) : Prop where
  seqs : (reg.mods.map (·.seq)).Nodup
  tables : ∀ m ∈ reg.mods, ¬ (reg.modules.any (·.2 == m.seq) = true ∧ reg.subModules.any (·.2 == m.seq) = true)

/-- The keys of the pending lists `processAll` builds are distinct. -/
theorem processAll_pending_keys_nodup (reg : Registry) (h : LoadedShape reg) (augsOf : Mod → List Entry) :
    (((reg.distinctModules ++ reg.distinctSubs).map fun m => (m.seq, augsOf m)).map (·.1)).Nodup := by
  rw [List.map_map]
  have hcomp : ((fun (x : Nat × List Entry) => x.1) ∘ fun m => (m.seq, augsOf m)) = fun (m : Mod) => m.seq := rfl
  rw [hcomp, List.map_append]
  unfold Registry.distinctModules Registry.distinctSubs
  rw [List.nodup_append]
  refine ⟨nodup_map_filter _ _ _ h.seqs, nodup_map_filter _ _ _ h.seqs, ?_⟩
  intro a ha b hb hab
  obtain ⟨m1, hm1, rfl⟩ := List.mem_map.mp ha
  obtain ⟨m2, hm2, hm2s⟩ := List.mem_map.mp hb
  have h1 := List.mem_filter.mp hm1
  have h2 := List.mem_filter.mp hm2
  have heq : m1 = m2 := eq_of_nodup_map (·.seq) reg.mods h.seqs m1 h1.1 m2 h2.1 (by rw [hm2s, hab])
  subst heq
  exact h.tables m1 h1.1 ⟨h1.2, h2.2⟩

end Goyang.Lemmas.Fuel
