/-
`ParseSim` with the first error tracked: two token sources in step make the (generic) parser model
return the same forest — or both runs end with an error written, and the first error line is the
same on both sides (for the error lines in `G`).
-/
import Goyang.Lemmas.ParseSim

namespace Goyang.Lemmas.HeadSim
open Goyang.Model.Lex (Token Code ErrLine ErrClass Fault)
open Goyang.Model.Parse
open Goyang.Lemmas.ParseSim

/-- the first error written is `e` -/
def HasHead {σ : Type} (S : Source σ) (e : ErrLine) (p : Parser σ) : Prop := (S.errs p.src).head? = some e

/-- errors are only ever appended -/
structure HMono {σ : Type} (S : Source σ) : Prop where
  pull : ∀ e b s, (S.errs s).head? = some e → (S.errs (S.pull b s).2).head? = some e
  add : ∀ e' e s, (S.errs s).head? = some e → (S.errs (S.addErr e' s)).head? = some e
  addNil : ∀ e s, S.errs s = [] → (S.errs (S.addErr e s)).head? = some e

section mono
variable {σ : Type} {S : Source σ}

theorem pullTok_head (hH : HMono S) (e : ErrLine) (b : Bool) (p : Parser σ) (h : HasHead S e p) :
    HasHead S e (pullTok S b p).2 :=
  hH.pull e b p.src h

theorem addErr_head (hH : HMono S) (e : ErrLine) (e' : ErrLine) (p : Parser σ) (h : HasHead S e p) :
    HasHead S e (addErr S e' p) := hH.add e' e p.src h

theorem concatLoop_head (hH : HMono S) (e : ErrLine) (b : Bool) : ∀ (f : Nat) (T : Token) (p : Parser σ),
    HasHead S e p → HasHead S e (concatLoop S b f T p).2 := by
  intro f
  induction f with
  | zero => intro T p h; exact h
  | succ f ih =>
    intro T p h
    unfold concatLoop
    simp only
    have h1 := pullTok_head hH e b p h
    split
    · exact h1
    · split
      · split
        · exact h1
        · have h2 := pullTok_head hH e b _ h1
          split
          · exact h2
          · split
            · exact ih _ _ h2
            · exact h2
      · exact h1

theorem next_head (hH : HMono S) (e : ErrLine) (b : Bool) (f : Nat) (p : Parser σ) (h : HasHead S e p) :
    HasHead S e (next S b f p).2 := by
  unfold next
  split
  · exact h
  · simp only
    have h1 := pullTok_head hH e b p h
    split
    · exact h1
    · split
      · exact concatLoop_head hH e b f _ _ h1
      · exact h1

theorem fetchArg_head (hH : HMono S) (e : ErrLine) (kw : Token) (f : Nat) (p : Parser σ) (h : HasHead S e p) :
    HasHead S e (fetchArg S kw f p).2.2 := by
  unfold fetchArg
  simp only
  have h1 := next_head hH e (kw.text = patternKw) f p h
  split
  · split
    · exact next_head hH e false f _ h1
    · exact h1
  · exact h1

theorem stmt_block_head (hH : HMono S) (e : ErrLine) : ∀ (f : Nat),
    (∀ (p : Parser σ), HasHead S e p → HasHead S e (nextStatement S f p).2) ∧
    (∀ (acc : List Statement) (p : Parser σ), HasHead S e p → HasHead S e (blockLoop S f acc p).2) := by
  intro f
  induction f with
  | zero =>
    constructor
    · intro p h; unfold nextStatement; exact h
    · intro acc p h; unfold blockLoop; exact h
  | succ f ih =>
    obtain ⟨ihs, ihb⟩ := ih
    constructor
    · intro p h
      unfold nextStatement
      simp only
      have h1 := next_head hH e false f p h
      split
      · exact h1
      · rename_i t _
        split
        · exact h1
        · split
          · exact addErr_head hH _ _ _ h1
          · have h2 := fetchArg_head hH e t f _ h1
            split
            · exact addErr_head hH _ _ _ h2
            · split
              · exact h2
              · split
                · have h3 := ihb [] _ (show HasHead S e (setDepth ((fetchArg S t f (next S false f p).2).2.2.depth + 1)
                      (fetchArg S t f (next S false f p).2).2.2) from h2)
                  split
                  · exact h3
                  · exact h3
                · exact addErr_head hH _ _ _ h2
    · intro acc p h
      unfold blockLoop
      simp only
      have h1 := ihs p h
      split
      · exact h1
      · exact h1
      · exact ihb _ _ h1

theorem topLoop_head (hH : HMono S) (e : ErrLine) : ∀ (f : Nat) (acc : List Statement) (p : Parser σ),
    HasHead S e p → HasHead S e (topLoop S f acc p).2 := by
  intro f
  induction f with
  | zero => intro acc p h; unfold topLoop; exact h
  | succ f ih =>
    intro acc p h
    unfold topLoop
    simp only
    have h1 := (stmt_block_head hH e f).1 p h
    split
    · exact h1
    · exact ih _ _ (addErr_head hH _ _ _ h1)
    · exact ih _ _ h1

/-- a first error written by the first fetch of a statement stays -/
theorem nextStatement_head_of_next (hH : HMono S) (e : ErrLine) (f : Nat) (p : Parser σ)
    (h1 : HasHead S e (next S false f p).2) : HasHead S e (nextStatement S (f + 1) p).2 := by
  unfold nextStatement
  simp only
  split
  · exact h1
  · rename_i t _
    split
    · exact h1
    · split
      · exact addErr_head hH _ _ _ h1
      · have h2 := fetchArg_head hH e t f _ h1
        split
        · exact addErr_head hH _ _ _ h2
        · split
          · exact h2
          · split
            · have h3 := (stmt_block_head hH e f).2 [] _ (show HasHead S e (setDepth
                  ((fetchArg S t f (next S false f p).2).2.2.depth + 1)
                  (fetchArg S t f (next S false f p).2).2.2) from h2)
              split
              · exact h3
              · exact h3
            · exact addErr_head hH _ _ _ h2

theorem fetchArg_head_of_next (hH : HMono S) (e : ErrLine) (kw : Token) (f : Nat) (p : Parser σ)
    (h1 : HasHead S e (next S (kw.text = patternKw) f p).2) : HasHead S e (fetchArg S kw f p).2.2 := by
  unfold fetchArg
  simp only
  split
  · split
    · exact next_head hH e false f _ h1
    · exact h1
  · exact h1

theorem next_head_of_pull (hH : HMono S) (e : ErrLine) (b : Bool) (f : Nat) (p : Parser σ) (ht : p.tokens = [])
    (h1 : HasHead S e (pullTok S b p).2) : HasHead S e (next S b f p).2 := by
  unfold next
  rw [ht]
  simp only
  split
  · exact h1
  · split
    · exact concatLoop_head hH e b f _ _ h1
    · exact h1

end mono

/-! ## two sources in step -/

/-- `R` relates states of two sources that have not written an error and will hand out the same
tokens until one of them does; when the second one writes its first error `e`, the first one writes
an error too, and that is `e` if `G e` -/
structure HSim {σ₁ σ₂ : Type} (S₁ : Source σ₁) (S₂ : Source σ₂) (R : σ₁ → σ₂ → Prop) (G : ErrLine → Prop) : Prop where
  clean : ∀ s₁ s₂, R s₁ s₂ → S₁.errs s₁ = [] ∧ S₂.errs s₂ = []
  fault : ∀ s₁ s₂, R s₁ s₂ → S₁.fault s₁ = .none ∧ S₂.fault s₂ = .none
  pull : ∀ b s₁ s₂, R s₁ s₂ →
    ((S₁.pull b s₁).1 = (S₂.pull b s₂).1 ∧ R (S₁.pull b s₁).2 (S₂.pull b s₂).2) ∨
    (∃ e, (S₂.errs (S₂.pull b s₂).2).head? = some e ∧ S₁.errs (S₁.pull b s₁).2 ≠ [] ∧
      (G e → (S₁.errs (S₁.pull b s₁).2).head? = some e))

/-- both have written an error; the second one's first error is `e`, and so is the first one's if `G e` -/
def Same {σ₁ σ₂ : Type} (S₁ : Source σ₁) (S₂ : Source σ₂) (G : ErrLine → Prop) (p₁ : Parser σ₁) (p₂ : Parser σ₂) : Prop :=
  ∃ e, HasHead S₂ e p₂ ∧ Bad S₁ p₁ ∧ (G e → HasHead S₁ e p₁)

section sim
variable {σ₁ σ₂ : Type} {S₁ : Source σ₁} {S₂ : Source σ₂} {R : σ₁ → σ₂ → Prop} {G : ErrLine → Prop}

theorem pullTok_hsim (hS : HSim S₁ S₂ R G) (b : Bool) (p₁ : Parser σ₁) (p₂ : Parser σ₂) (h : PR R p₁ p₂) :
    ((pullTok S₁ b p₁).1 = (pullTok S₂ b p₂).1 ∧ PR R (pullTok S₁ b p₁).2 (pullTok S₂ b p₂).2) ∨
    Same S₁ S₂ G (pullTok S₁ b p₁).2 (pullTok S₂ b p₂).2 := by
  unfold pullTok
  simp only
  rcases hS.pull b _ _ h.src with ⟨h1, h2⟩ | ⟨e, k2, kb, kg⟩
  · exact Or.inl ⟨h1, ⟨h2, h.tokens, h.depth, h.fault⟩⟩
  · exact Or.inr ⟨e, k2, kb, kg⟩

/-- the parser adds the same error on both sides while the sources are still in step -/
theorem addErr_same (hS : HSim S₁ S₂ R G) (hM₁ : Mono S₁) (hH₁ : HMono S₁) (hH₂ : HMono S₂) (e : ErrLine)
    (p₁ : Parser σ₁) (p₂ : Parser σ₂) (r : PR R p₁ p₂) :
    Same S₁ S₂ G (addErr S₁ e p₁) (addErr S₂ e p₂) :=
  ⟨e, hH₂.addNil e p₂.src (hS.clean _ _ r.src).2, hM₁.add e p₁.src,
    fun _ => hH₁.addNil e p₁.src (hS.clean _ _ r.src).1⟩

theorem concatLoop_hsim (hS : HSim S₁ S₂ R G) (hM₁ : Mono S₁) (hH₁ : HMono S₁) (hH₂ : HMono S₂) (b : Bool) :
    ∀ (f : Nat) (T : Token) (p₁ : Parser σ₁) (p₂ : Parser σ₂), PR R p₁ p₂ →
    ((concatLoop S₁ b f T p₁).1 = (concatLoop S₂ b f T p₂).1 ∧
        PR R (concatLoop S₁ b f T p₁).2 (concatLoop S₂ b f T p₂).2) ∨
    Same S₁ S₂ G (concatLoop S₁ b f T p₁).2 (concatLoop S₂ b f T p₂).2 := by
  intro f
  induction f with
  | zero =>
    intro T p₁ p₂ h
    unfold concatLoop
    exact Or.inl ⟨rfl, ⟨h.src, h.tokens, h.depth, by simp⟩⟩
  | succ f ih =>
    intro T p₁ p₂ h
    unfold concatLoop
    simp only
    rcases pullTok_hsim hS b p₁ p₂ h with ⟨e1, r1⟩ | ⟨e, k2, kb, kg⟩
    · rw [e1]
      split
      · exact Or.inl ⟨rfl, r1⟩
      · rename_i nt _
        split
        · split
          · exact Or.inl ⟨rfl, push_sim _ _ _ r1⟩
          · rcases pullTok_hsim hS b _ _ r1 with ⟨e2, r2⟩ | ⟨e, k2, kb, kg⟩
            · rw [e2]
              split
              · exact Or.inl ⟨rfl, push_sim _ _ _ r2⟩
              · split
                · exact ih _ _ _ r2
                · exact Or.inl ⟨rfl, push_sim _ _ _ r2⟩
            · right
              refine ⟨e, ?_, ?_, fun g => ?_⟩
              · split
                · exact k2
                · split
                  · exact concatLoop_head hH₂ e b f _ _ k2
                  · exact k2
              · split
                · exact kb
                · split
                  · exact concatLoop_bad hM₁ b f _ _ kb
                  · exact kb
              · have k1 := kg g
                split
                · exact k1
                · split
                  · exact concatLoop_head hH₁ e b f _ _ k1
                  · exact k1
        · exact Or.inl ⟨rfl, push_sim _ _ _ r1⟩
    · right
      refine ⟨e, ?_, ?_, fun g => ?_⟩
      · split
        · exact k2
        · split
          · split
            · exact k2
            · have h2 := pullTok_head hH₂ e b _ k2
              split
              · exact h2
              · split
                · exact concatLoop_head hH₂ e b f _ _ h2
                · exact h2
          · exact k2
      · split
        · exact kb
        · split
          · split
            · exact kb
            · have h2 := pullTok_bad hM₁ b _ kb
              split
              · exact h2
              · split
                · exact concatLoop_bad hM₁ b f _ _ h2
                · exact h2
          · exact kb
      · have k1 := kg g
        split
        · exact k1
        · split
          · split
            · exact k1
            · have h2 := pullTok_head hH₁ e b _ k1
              split
              · exact h2
              · split
                · exact concatLoop_head hH₁ e b f _ _ h2
                · exact h2
          · exact k1

theorem next_hsim (hS : HSim S₁ S₂ R G) (hM₁ : Mono S₁) (hH₁ : HMono S₁) (hH₂ : HMono S₂) (b : Bool) (f : Nat)
    (p₁ : Parser σ₁) (p₂ : Parser σ₂) (h : PR R p₁ p₂) :
    ((next S₁ b f p₁).1 = (next S₂ b f p₂).1 ∧ PR R (next S₁ b f p₁).2 (next S₂ b f p₂).2) ∨
    Same S₁ S₂ G (next S₁ b f p₁).2 (next S₂ b f p₂).2 := by
  cases ht : p₂.tokens with
  | cons t ts =>
    have ht1 : p₁.tokens = t :: ts := h.tokens.trans ht
    unfold next
    rw [ht, ht1]
    exact Or.inl ⟨rfl, ⟨h.src, rfl, h.depth, h.fault⟩⟩
  | nil =>
    have ht1 : p₁.tokens = [] := h.tokens.trans ht
    rcases pullTok_hsim hS b p₁ p₂ h with ⟨e1, r1⟩ | ⟨e, k2, kb, kg⟩
    · unfold next
      rw [ht, ht1]
      simp only
      rw [e1]
      split
      · exact Or.inl ⟨rfl, r1⟩
      · split
        · rcases concatLoop_hsim hS hM₁ hH₁ hH₂ b f _ _ _ r1 with ⟨e2, r2⟩ | hb
          · exact Or.inl ⟨by rw [e2], r2⟩
          · exact Or.inr hb
        · exact Or.inl ⟨rfl, r1⟩
    · exact Or.inr ⟨e, next_head_of_pull hH₂ e b f p₂ ht k2, next_bad_of_pull hM₁ b f p₁ ht1 kb,
        fun g => next_head_of_pull hH₁ e b f p₁ ht1 (kg g)⟩

theorem fetchArg_hsim (hS : HSim S₁ S₂ R G) (hM₁ : Mono S₁) (hH₁ : HMono S₁) (hH₂ : HMono S₂) (kw : Token) (f : Nat)
    (p₁ : Parser σ₁) (p₂ : Parser σ₂) (h : PR R p₁ p₂) :
    ((fetchArg S₁ kw f p₁).1 = (fetchArg S₂ kw f p₂).1 ∧ (fetchArg S₁ kw f p₁).2.1 = (fetchArg S₂ kw f p₂).2.1 ∧
        PR R (fetchArg S₁ kw f p₁).2.2 (fetchArg S₂ kw f p₂).2.2) ∨
    Same S₁ S₂ G (fetchArg S₁ kw f p₁).2.2 (fetchArg S₂ kw f p₂).2.2 := by
  rcases next_hsim hS hM₁ hH₁ hH₂ (kw.text = patternKw) f p₁ p₂ h with ⟨e1, r1⟩ | ⟨e, k2, kb, kg⟩
  · unfold fetchArg
    simp only
    rw [e1]
    split
    · split
      · rcases next_hsim hS hM₁ hH₁ hH₂ false f _ _ r1 with ⟨e2, r2⟩ | hb
        · exact Or.inl ⟨rfl, e2, r2⟩
        · exact Or.inr hb
      · exact Or.inl ⟨rfl, rfl, r1⟩
    · exact Or.inl ⟨rfl, rfl, r1⟩
  · exact Or.inr ⟨e, fetchArg_head_of_next hH₂ e kw f p₂ k2, fetchArg_bad_of_next hM₁ kw f p₁ kb,
      fun g => fetchArg_head_of_next hH₁ e kw f p₁ (kg g)⟩

theorem stmt_block_hsim (hS : HSim S₁ S₂ R G) (hM₁ : Mono S₁) (hH₁ : HMono S₁) (hH₂ : HMono S₂) : ∀ (f : Nat),
    (∀ (p₁ : Parser σ₁) (p₂ : Parser σ₂), PR R p₁ p₂ →
      ((nextStatement S₁ f p₁).1 = (nextStatement S₂ f p₂).1 ∧
          PR R (nextStatement S₁ f p₁).2 (nextStatement S₂ f p₂).2) ∨
      Same S₁ S₂ G (nextStatement S₁ f p₁).2 (nextStatement S₂ f p₂).2) ∧
    (∀ (acc : List Statement) (p₁ : Parser σ₁) (p₂ : Parser σ₂), PR R p₁ p₂ →
      ((blockLoop S₁ f acc p₁).1 = (blockLoop S₂ f acc p₂).1 ∧
          PR R (blockLoop S₁ f acc p₁).2 (blockLoop S₂ f acc p₂).2) ∨
      Same S₁ S₂ G (blockLoop S₁ f acc p₁).2 (blockLoop S₂ f acc p₂).2) := by
  intro f
  induction f with
  | zero =>
    constructor
    · intro p₁ p₂ h
      unfold nextStatement
      exact Or.inl ⟨rfl, ⟨h.src, h.tokens, h.depth, rfl⟩⟩
    · intro acc p₁ p₂ h
      unfold blockLoop
      exact Or.inl ⟨rfl, ⟨h.src, h.tokens, h.depth, rfl⟩⟩
  | succ f ih =>
    obtain ⟨ihs, ihb⟩ := ih
    constructor
    · intro p₁ p₂ h
      rcases next_hsim hS hM₁ hH₁ hH₂ false f p₁ p₂ h with ⟨e1, r1⟩ | ⟨e, k2, kb, kg⟩
      · unfold nextStatement
        simp only
        rw [e1]
        split
        · exact Or.inl ⟨rfl, r1⟩
        · rename_i t _
          split
          · exact Or.inl ⟨rfl, ⟨r1.src, r1.tokens, by unfold setDepth; simp only; rw [r1.depth], r1.fault⟩⟩
          · split
            · exact Or.inr (addErr_same hS hM₁ hH₁ hH₂ _ _ _ r1)
            · rcases fetchArg_hsim hS hM₁ hH₁ hH₂ t f _ _ r1 with ⟨a1, a2, a3⟩ | ⟨e, k2, kb, kg⟩
              · rw [a1, a2]
                split
                · exact Or.inr (addErr_same hS hM₁ hH₁ hH₂ _ _ _ a3)
                · split
                  · exact Or.inl ⟨rfl, a3⟩
                  · split
                    · have hpr : PR R (setDepth ((fetchArg S₁ t f (next S₁ false f p₁).2).2.2.depth + 1)
                          (fetchArg S₁ t f (next S₁ false f p₁).2).2.2)
                          (setDepth ((fetchArg S₂ t f (next S₂ false f p₂).2).2.2.depth + 1)
                          (fetchArg S₂ t f (next S₂ false f p₂).2).2.2) :=
                        ⟨a3.src, a3.tokens, by unfold setDepth; simp only; rw [a3.depth], a3.fault⟩
                      rcases ihb [] _ _ hpr with ⟨b1, b2⟩ | ⟨e, k2, kb, kg⟩
                      · rw [b1]
                        split
                        · exact Or.inl ⟨rfl, b2⟩
                        · exact Or.inl ⟨rfl, b2⟩
                      · right
                        refine ⟨e, ?_, ?_, fun g => ?_⟩
                        · split <;> exact k2
                        · split <;> exact kb
                        · split <;> exact kg g
                    · exact Or.inr (addErr_same hS hM₁ hH₁ hH₂ _ _ _ a3)
              · right
                refine ⟨e, ?_, ?_, fun g => ?_⟩
                · split
                  · exact addErr_head hH₂ _ _ _ k2
                  · split
                    · exact k2
                    · split
                      · have h3 := (stmt_block_head hH₂ e f).2 [] _ (show HasHead S₂ e (setDepth
                            ((fetchArg S₂ t f (next S₂ false f p₂).2).2.2.depth + 1)
                            (fetchArg S₂ t f (next S₂ false f p₂).2).2.2) from k2)
                        split <;> exact h3
                      · exact addErr_head hH₂ _ _ _ k2
                · split
                  · exact addErr_bad hM₁ _ _
                  · split
                    · exact kb
                    · split
                      · have h3 := (stmt_block_bad hM₁ f).2 [] _ (show Bad S₁ (setDepth
                            ((fetchArg S₁ t f (next S₁ false f p₁).2).2.2.depth + 1)
                            (fetchArg S₁ t f (next S₁ false f p₁).2).2.2) from kb)
                        split <;> exact h3
                      · exact addErr_bad hM₁ _ _
                · have k1 := kg g
                  split
                  · exact addErr_head hH₁ _ _ _ k1
                  · split
                    · exact k1
                    · split
                      · have h3 := (stmt_block_head hH₁ e f).2 [] _ (show HasHead S₁ e (setDepth
                            ((fetchArg S₁ t f (next S₁ false f p₁).2).2.2.depth + 1)
                            (fetchArg S₁ t f (next S₁ false f p₁).2).2.2) from k1)
                        split <;> exact h3
                      · exact addErr_head hH₁ _ _ _ k1
      · exact Or.inr ⟨e, nextStatement_head_of_next hH₂ e f p₂ k2, nextStatement_bad_of_next hM₁ f p₁ kb,
          fun g => nextStatement_head_of_next hH₁ e f p₁ (kg g)⟩
    · intro acc p₁ p₂ h
      unfold blockLoop
      simp only
      rcases ihs p₁ p₂ h with ⟨e1, r1⟩ | ⟨e, k2, kb, kg⟩
      · rw [e1]
        split
        · exact Or.inl ⟨rfl, r1⟩
        · exact Or.inl ⟨rfl, r1⟩
        · exact ihb _ _ _ r1
      · right
        refine ⟨e, ?_, ?_, fun g => ?_⟩
        · split
          · exact k2
          · exact k2
          · exact (stmt_block_head hH₂ e f).2 _ _ k2
        · split
          · exact kb
          · exact kb
          · exact (stmt_block_bad hM₁ f).2 _ _ kb
        · have k1 := kg g
          split
          · exact k1
          · exact k1
          · exact (stmt_block_head hH₁ e f).2 _ _ k1

theorem topLoop_hsim (hS : HSim S₁ S₂ R G) (hM₁ : Mono S₁) (hH₁ : HMono S₁) (hH₂ : HMono S₂) :
    ∀ (f : Nat) (acc : List Statement) (p₁ : Parser σ₁) (p₂ : Parser σ₂), PR R p₁ p₂ →
    ((topLoop S₁ f acc p₁).1 = (topLoop S₂ f acc p₂).1 ∧ PR R (topLoop S₁ f acc p₁).2 (topLoop S₂ f acc p₂).2) ∨
    Same S₁ S₂ G (topLoop S₁ f acc p₁).2 (topLoop S₂ f acc p₂).2 := by
  intro f
  induction f with
  | zero =>
    intro acc p₁ p₂ h
    unfold topLoop
    exact Or.inl ⟨rfl, ⟨h.src, h.tokens, h.depth, rfl⟩⟩
  | succ f ih =>
    intro acc p₁ p₂ h
    unfold topLoop
    simp only
    rcases (stmt_block_hsim hS hM₁ hH₁ hH₂ f).1 p₁ p₂ h with ⟨e1, r1⟩ | ⟨e, k2, kb, kg⟩
    · rw [e1]
      split
      · exact Or.inl ⟨rfl, r1⟩
      · obtain ⟨e, k2, kb, kg⟩ := addErr_same hS hM₁ hH₁ hH₂ _ _ _ r1
        exact Or.inr ⟨e, topLoop_head hH₂ e _ _ _ k2, topLoop_bad hM₁ _ _ _ kb,
          fun g => topLoop_head hH₁ e _ _ _ (kg g)⟩
      · exact ih _ _ _ r1
    · right
      refine ⟨e, ?_, ?_, fun g => ?_⟩
      · split
        · exact k2
        · exact topLoop_head hH₂ e _ _ _ (addErr_head hH₂ _ _ _ k2)
        · exact topLoop_head hH₂ e _ _ _ k2
      · split
        · exact kb
        · exact topLoop_bad hM₁ _ _ _ (addErr_bad hM₁ _ _)
        · exact topLoop_bad hM₁ _ _ _ kb
      · have k1 := kg g
        split
        · exact k1
        · exact topLoop_head hH₁ e _ _ _ (addErr_head hH₁ _ _ _ k1)
        · exact topLoop_head hH₁ e _ _ _ k1

/-- if the second run ends with first error `e`, the first run ends with an error too, and with first error `e` if `G e` -/
theorem topLoop_head_transfer (hS : HSim S₁ S₂ R G) (hM₁ : Mono S₁) (hH₁ : HMono S₁) (hH₂ : HMono S₂)
    (f : Nat) (acc : List Statement) (p₁ : Parser σ₁) (p₂ : Parser σ₂) (h : PR R p₁ p₂) (e : ErrLine)
    (he : HasHead S₂ e (topLoop S₂ f acc p₂).2) :
    Bad S₁ (topLoop S₁ f acc p₁).2 ∧ (G e → HasHead S₁ e (topLoop S₁ f acc p₁).2) := by
  rcases topLoop_hsim hS hM₁ hH₁ hH₂ f acc p₁ p₂ h with ⟨_, r1⟩ | ⟨e', k2, kb, kg⟩
  · have c := (hS.clean _ _ r1.src).2
    unfold HasHead at he
    rw [c] at he
    cases he
  · have hee : e' = e := by
      unfold HasHead at he k2
      rw [k2] at he
      exact Option.some.inj he
    subst hee
    exact ⟨kb, kg⟩

end sim

end Goyang.Lemmas.HeadSim
