import Goyang.Model.Identity
import Goyang.Spec.Identity
/-
Helper lemmas for C11, part 1: the generic walk (`addChildren` / `includeClosure`), the stable
sort, the closure loop, and the breadth-first `closure` of the specification.
-/
namespace Goyang.Lemmas.Identity
open Goyang.Model.Identity
open Goyang.Spec.Identity (Reach closure)

/-! ### Reachability -/

section Reach
variable {α : Type} {succ : α → List α}

theorem Reach.trans {a b c : α} (h1 : Reach succ a b) (h2 : Reach succ b c) : Reach succ a c := by
  induction h1 with
  | refl => exact h2
  | step h _ ih => exact Reach.step h (ih h2)

theorem Reach.single {a b : α} (h : b ∈ succ a) : Reach succ a b := Reach.step h (Reach.refl b)

/-- A set closed under `succ` contains everything reachable from its members. -/
theorem Reach.mem_of_closed {S : List α} (hc : ∀ x ∈ S, ∀ y ∈ succ x, y ∈ S) {a b : α}
    (h : Reach succ a b) (ha : a ∈ S) : b ∈ S := by
  induction h with
  | refl => exact ha
  | step hs _ ih => exact ih (hc _ ha _ hs)

end Reach

/-! ### The walk -/

section Walk
variable {α : Type} [DecidableEq α]

/-- Number of nodes of the universe `U` not yet in `ids`: the termination measure of the walk. -/
def unv : List α → List α → Nat
  | [], _ => 0
  | u :: us, ids => (if u ∈ ids then 0 else 1) + unv us ids

theorem unv_mono (U : List α) {ids ids' : List α} (h : ∀ x ∈ ids, x ∈ ids') : unv U ids' ≤ unv U ids := by
  induction U with
  | nil => simp [unv]
  | cons u us ih =>
    simp only [unv]
    by_cases h1 : u ∈ ids
    · have h2 : u ∈ ids' := h u h1
      simp only [h1, h2, if_true]; omega
    · by_cases h2 : u ∈ ids'
      · simp only [h1, h2, if_true, if_false]; omega
      · simp only [h1, h2, if_false]; omega

theorem unv_lt (U : List α) {ids : List α} {r : α} (hr : r ∈ U) (hn : r ∉ ids) :
    unv U (ids ++ [r]) < unv U ids := by
  induction U with
  | nil => cases hr
  | cons u us ih =>
    simp only [unv]
    by_cases hu : u = r
    · subst hu
      have hle := unv_mono us (ids := ids) (ids' := ids ++ [u]) (fun x hx => List.mem_append_left _ hx)
      have h2 : u ∈ ids ++ [u] := by simp
      simp only [hn, h2, if_true, if_false]; omega
    · have hr' : r ∈ us := by
        cases hr with
        | head => exact absurd rfl hu
        | tail _ h => exact h
      have := ih hr'
      by_cases h1 : u ∈ ids
      · have h2 : u ∈ ids ++ [r] := List.mem_append_left _ h1
        simp only [h1, h2, if_true]; omega
      · have h2 : u ∉ ids ++ [r] := by simp [h1, hu]
        simp only [h1, h2, if_false]; omega

theorem unv_nil (U : List α) : unv U [] = U.length := by
  induction U with
  | nil => rfl
  | cons u us ih => simp [unv, ih]; omega

/-- What one call (or a run of calls over `roots`) of the walk achieves, from `ids` to `out`. -/
structure WalkPost (succ : α → List α) (roots ids out : List α) : Prop where
  sub : ∀ x ∈ ids, x ∈ out
  roots_mem : ∀ c ∈ roots, c ∈ out
  sound : ∀ y ∈ out, y ∈ ids ∨ ∃ c ∈ roots, Reach succ c y
  closed : ∀ x ∈ out, x ∈ ids ∨ ∀ y ∈ succ x, y ∈ out
  nodup : ids.Nodup → out.Nodup

theorem fold_spec (succ : α → List α) (U : List α) (fuel : Nat)
    (hw : ∀ r ids, r ∈ U → unv U ids < fuel →
      ∃ out, walk succ fuel r ids = some out ∧ WalkPost succ [r] ids out) :
    ∀ (cs acc : List α), (∀ c ∈ cs, c ∈ U) → unv U acc < fuel →
      ∃ out, cs.foldlM (fun acc ch => walk succ fuel ch acc) acc = some out ∧ WalkPost succ cs acc out := by
  intro cs
  induction cs with
  | nil =>
    intro acc _ _
    exact ⟨acc, rfl, ⟨fun _ h => h, by simp, fun _ h => Or.inl h, fun _ h => Or.inl h, fun h => h⟩⟩
  | cons c cs ih =>
    intro acc hU hf
    obtain ⟨o1, ho1, p1⟩ := hw c acc (hU c (List.mem_cons_self ..)) hf
    have hf1 : unv U o1 < fuel := Nat.lt_of_le_of_lt (unv_mono U p1.sub) hf
    obtain ⟨o2, ho2, p2⟩ := ih o1 (fun x hx => hU x (List.mem_cons_of_mem _ hx)) hf1
    refine ⟨o2, by simp [List.foldlM, ho1, ho2], ?_⟩
    constructor
    · exact fun x hx => p2.sub x (p1.sub x hx)
    · intro x hx
      rcases List.mem_cons.mp hx with rfl | hx
      · exact p2.sub _ (p1.roots_mem _ (List.mem_cons_self ..))
      · exact p2.roots_mem x hx
    · intro y hy
      rcases p2.sound y hy with h | ⟨d, hd, hr⟩
      · rcases p1.sound y h with h | ⟨d, hd, hr⟩
        · exact Or.inl h
        · simp only [List.mem_singleton] at hd
          subst hd
          exact Or.inr ⟨d, List.mem_cons_self .., hr⟩
      · exact Or.inr ⟨d, List.mem_cons_of_mem _ hd, hr⟩
    · intro x hx
      rcases p2.closed x hx with h | h
      · rcases p1.closed x h with h | h
        · exact Or.inl h
        · exact Or.inr (fun y hy => p2.sub y (h y hy))
      · exact Or.inr h
    · exact fun h => p2.nodup (p1.nodup h)

/-- The walk terminates within `fuel` > number of unvisited nodes, keeps what was there, adds the
start node, adds only reachable nodes, and every node it adds has all its successors in the result. -/
theorem walk_spec (succ : α → List α) (U : List α) (hU : ∀ x ∈ U, ∀ y ∈ succ x, y ∈ U) :
    ∀ (fuel : Nat) (r : α) (ids : List α), r ∈ U → unv U ids < fuel →
      ∃ out, walk succ fuel r ids = some out ∧ WalkPost succ [r] ids out := by
  intro fuel
  induction fuel with
  | zero => intro r ids _ h; omega
  | succ fuel ih =>
    intro r ids hr hf
    unfold walk
    by_cases hin : r ∈ ids
    · simp only [hin, if_true]
      refine ⟨ids, rfl, ⟨fun _ h => h, ?_, fun _ h => Or.inl h, fun _ h => Or.inl h, fun h => h⟩⟩
      intro c hc; simp only [List.mem_singleton] at hc; subst hc; exact hin
    · simp only [hin, if_false]
      have hlt := unv_lt U hr hin
      obtain ⟨out, ho, p⟩ := fold_spec succ U fuel ih (succ r) (ids ++ [r]) (hU r hr) (by omega)
      refine ⟨out, ho, ?_⟩
      have hrout : r ∈ out := p.sub r (by simp)
      constructor
      · exact fun x hx => p.sub x (List.mem_append_left _ hx)
      · intro c hc; simp only [List.mem_singleton] at hc; subst hc; exact hrout
      · intro y hy
        rcases p.sound y hy with h | ⟨c, hc, hr⟩
        · rcases List.mem_append.mp h with h | h
          · exact Or.inl h
          · simp only [List.mem_singleton] at h
            subst h
            exact Or.inr ⟨y, by simp, Reach.refl y⟩
        · exact Or.inr ⟨r, by simp, Reach.step hc hr⟩
      · intro x hx
        rcases p.closed x hx with h | h
        · rcases List.mem_append.mp h with h | h
          · exact Or.inl h
          · simp only [List.mem_singleton] at h
            subst h
            exact Or.inr (fun y hy => p.roots_mem y hy)
        · exact Or.inr h
      · intro hnd
        apply p.nodup
        rw [List.nodup_append]
        refine ⟨hnd, by simp, ?_⟩
        intro a ha b hb
        simp only [List.mem_singleton] at hb
        subst hb
        intro hab; subst hab; exact hin ha

theorem walkAll_spec (succ : α → List α) (U : List α) (hU : ∀ x ∈ U, ∀ y ∈ succ x, y ∈ U)
    (fuel : Nat) (roots ids : List α) (hr : ∀ c ∈ roots, c ∈ U) (hf : unv U ids < fuel) :
    ∃ out, walkAll succ fuel roots ids = some out ∧ WalkPost succ roots ids out :=
  fold_spec succ U fuel (walk_spec succ U hU fuel) roots ids hr hf

/-- Started from the empty list the walk returns exactly what is reachable from the roots, each once. -/
theorem walkAll_nil (succ : α → List α) (U : List α) (hU : ∀ x ∈ U, ∀ y ∈ succ x, y ∈ U)
    (fuel : Nat) (roots : List α) (hr : ∀ c ∈ roots, c ∈ U) (hf : U.length < fuel) :
    ∃ out, walkAll succ fuel roots [] = some out ∧ out.Nodup ∧
      ∀ y, y ∈ out ↔ ∃ c ∈ roots, Reach succ c y := by
  obtain ⟨out, ho, p⟩ := walkAll_spec succ U hU fuel roots [] hr (by rw [unv_nil]; exact hf)
  refine ⟨out, ho, p.nodup List.nodup_nil, ?_⟩
  intro y
  constructor
  · intro hy
    rcases p.sound y hy with h | h
    · cases h
    · exact h
  · rintro ⟨c, hc, hreach⟩
    have hclosed : ∀ x ∈ out, ∀ z ∈ succ x, z ∈ out := by
      intro x hx
      rcases p.closed x hx with h | h
      · cases h
      · exact h
    exact Reach.mem_of_closed hclosed hreach (p.roots_mem c hc)

theorem walk_nil (succ : α → List α) (U : List α) (hU : ∀ x ∈ U, ∀ y ∈ succ x, y ∈ U)
    (fuel : Nat) (r : α) (hr : r ∈ U) (hf : U.length < fuel) :
    ∃ out, walk succ fuel r [] = some out ∧ out.Nodup ∧ ∀ y, y ∈ out ↔ Reach succ r y := by
  obtain ⟨out, ho, hnd, hm⟩ := walkAll_nil succ U hU fuel [r] (by simpa using hr) hf
  refine ⟨out, ?_, hnd, ?_⟩
  · simp only [walkAll, List.foldlM] at ho
    cases hw : walk succ fuel r [] with
    | none => simp [hw] at ho
    | some o => simp [hw] at ho; rw [ho]
  · intro y; rw [hm]; simp

end Walk

/-! ### The sort -/

section Sorting
variable {α : Type}

/-- The comparator is a strict total order. -/
structure StrictTotal (lt : α → α → Bool) : Prop where
  irrefl : ∀ a, lt a a = false
  trans : ∀ a b c, lt a b = true → lt b c = true → lt a c = true
  total : ∀ a b, a ≠ b → lt a b = true ∨ lt b a = true

theorem insertSorted_perm (lt : α → α → Bool) (x : α) (l : List α) :
    (insertSorted lt x l).Perm (x :: l) := by
  induction l with
  | nil => exact List.Perm.refl _
  | cons y ys ih =>
    unfold insertSorted
    split
    · exact List.Perm.refl _
    · exact (List.Perm.cons y ih).trans (List.Perm.swap x y ys)

theorem insertSorted_sorted {lt : α → α → Bool} (h : StrictTotal lt) (x : α) (l : List α)
    (hs : l.Pairwise (fun a b => lt a b = true)) (hx : x ∉ l) :
    (insertSorted lt x l).Pairwise (fun a b => lt a b = true) := by
  induction l with
  | nil => simp [insertSorted]
  | cons y ys ih =>
    unfold insertSorted
    have hy : ∀ z ∈ ys, lt y z = true := (List.pairwise_cons.mp hs).1
    have hys := (List.pairwise_cons.mp hs).2
    by_cases hxy : lt x y = true
    · simp only [hxy, if_true]
      refine List.pairwise_cons.mpr ⟨?_, hs⟩
      intro z hz
      rcases List.mem_cons.mp hz with rfl | hz
      · exact hxy
      · exact h.trans _ _ _ hxy (hy z hz)
    · simp only [hxy]
      have hne : x ≠ y := fun e => hx (e ▸ List.mem_cons_self ..)
      have hyx : lt y x = true := by
        rcases h.total x y hne with h1 | h1
        · exact absurd h1 hxy
        · exact h1
      refine List.pairwise_cons.mpr ⟨?_, ih hys (fun hm => hx (List.mem_cons_of_mem _ hm))⟩
      intro z hz
      rcases List.mem_cons.mp ((insertSorted_perm lt x ys).mem_iff.mp hz) with rfl | hz
      · exact hyx
      · exact hy z hz

theorem foldl_insert_perm (lt : α → α → Bool) : ∀ (l acc : List α),
    (l.foldl (fun acc x => insertSorted lt x acc) acc).Perm (acc ++ l) := by
  intro l
  induction l with
  | nil => intro acc; simp
  | cons x l ih =>
    intro acc
    simp only [List.foldl_cons]
    refine (ih _).trans ?_
    refine ((insertSorted_perm lt x acc).append_right l).trans ?_
    simpa using (List.perm_middle (a := x) (l₁ := acc) (l₂ := l)).symm

theorem foldl_insert_sorted {lt : α → α → Bool} (h : StrictTotal lt) : ∀ (l acc : List α),
    acc.Pairwise (fun a b => lt a b = true) → (acc ++ l).Nodup →
    (l.foldl (fun acc x => insertSorted lt x acc) acc).Pairwise (fun a b => lt a b = true) := by
  intro l
  induction l with
  | nil => intro acc hs _; simpa using hs
  | cons x l ih =>
    intro acc hs hnd
    simp only [List.foldl_cons]
    have hp : (insertSorted lt x acc ++ l).Perm (acc ++ x :: l) :=
      ((insertSorted_perm lt x acc).append_right l).trans
        (by simpa using (List.perm_middle (a := x) (l₁ := acc) (l₂ := l)).symm)
    have hx : x ∉ acc := by
      intro hm
      have := List.nodup_append.mp hnd
      exact this.2.2 x hm x (List.mem_cons_self ..) rfl
    exact ih _ (insertSorted_sorted h x acc hs hx) (hp.nodup_iff.mpr hnd)

theorem sortStable_perm (lt : α → α → Bool) (l : List α) : (sortStable lt l).Perm l := by
  simpa [sortStable] using foldl_insert_perm lt l []

theorem sortStable_sorted {lt : α → α → Bool} (h : StrictTotal lt) (l : List α) (hnd : l.Nodup) :
    (sortStable lt l).Pairwise (fun a b => lt a b = true) :=
  foldl_insert_sorted h l [] List.Pairwise.nil (by simpa using hnd)

/-- Two strictly ascending lists with the same members are equal. -/
theorem sorted_unique {lt : α → α → Bool} (h : StrictTotal lt) {l1 l2 : List α}
    (h1 : l1.Pairwise (fun a b => lt a b = true)) (h2 : l2.Pairwise (fun a b => lt a b = true))
    (hm : ∀ a, a ∈ l1 ↔ a ∈ l2) : l1 = l2 := by
  have nd : ∀ l : List α, l.Pairwise (fun a b => lt a b = true) → l.Nodup := by
    intro l hl
    refine List.Pairwise.imp ?_ hl
    intro a b hab e
    subst e
    rw [h.irrefl] at hab
    cases hab
  have hp : l1.Perm l2 := (List.perm_ext_iff_of_nodup (nd l1 h1) (nd l2 h2)).mpr hm
  refine List.Perm.eq_of_pairwise ?_ h1 h2 hp
  intro a b _ _ hab hba
  have := h.trans _ _ _ hab hba
  rw [h.irrefl] at this
  cases this

end Sorting

/-! ### The closure loop -/

section Close
variable {α : Type}

/-- `j` lies strictly below `i`: a non-empty chain of edges `E x y` ("`y` names `x` as a base",
i.e. `y` is a direct child of `x`) leads from `i` down to `j`. -/
inductive Below (E : α → α → Prop) : α → α → Prop where
  | direct {i j : α} : E i j → Below E i j
  | step {i k j : α} : E i k → Below E k j → Below E i j

theorem Below.trans {E : α → α → Prop} {a b c : α} (h1 : Below E a b) (h2 : Below E b c) : Below E a c := by
  induction h1 with
  | direct h => exact Below.step h h2
  | step h _ ih => exact Below.step h (ih h2)

/-- What holds of the `Values` lists between the two dictionary loops and all through the second:
each holds at least the direct children and at most the strict descendants. -/
structure Inv (E : α → α → Prop) (vals : α → List α) : Prop where
  lower : ∀ x j, E x j → j ∈ vals x
  upper : ∀ x j, j ∈ vals x → Below E x j

theorem below_of_reach {E : α → α → Prop} {vals : α → List α} (hinv : Inv E vals) {a b c : α}
    (h1 : Below E a b) (h2 : Reach vals b c) : Below E a c := by
  induction h2 with
  | refl => exact h1
  | step hs _ ih => exact ih (h1.trans (hinv.upper _ _ hs))

theorem reach_iff_below {E : α → α → Prop} {vals : α → List α} (hinv : Inv E vals) (i j : α) :
    (∃ c ∈ vals i, Reach vals c j) ↔ Below E i j := by
  constructor
  · rintro ⟨c, hc, hr⟩
    exact below_of_reach hinv (hinv.upper _ _ hc) hr
  · intro h
    induction h with
    | direct h => exact ⟨_, hinv.lower _ _ h, Reach.refl _⟩
    | step h _ ih =>
      obtain ⟨c, hc, hr⟩ := ih
      exact ⟨_, hinv.lower _ _ h, Reach.step hc hr⟩

theorem below_mem {E : α → α → Prop} {U : List α} (hU : ∀ x y, E x y → y ∈ U) {a b : α}
    (h : Below E a b) : b ∈ U := by
  induction h with
  | direct h => exact hU _ _ h
  | step _ _ ih => exact ih

/-- The list of `i` is final: exactly the strict descendants, strictly ascending. -/
def Closed (E : α → α → Prop) (lt : α → α → Bool) (vals : α → List α) (i : α) : Prop :=
  (∀ j, j ∈ vals i ↔ Below E i j) ∧ (vals i).Pairwise (fun a b => lt a b = true)

theorem closed_unique {E : α → α → Prop} {lt : α → α → Bool} (hlt : StrictTotal lt)
    {v1 v2 : α → List α} {i : α} (h1 : Closed E lt v1 i) (h2 : Closed E lt v2 i) : v1 i = v2 i :=
  sorted_unique hlt h1.2 h2.2 (fun a => (h1.1 a).trans (h2.1 a).symm)

theorem closeOne_spec [DecidableEq α] {E : α → α → Prop} {lt : α → α → Bool} (hlt : StrictTotal lt) (U : List α)
    (hU : ∀ x y, E x y → y ∈ U) (fuel : Nat) (hf : U.length < fuel) (vals : α → List α)
    (hinv : Inv E vals) (i : α) :
    ∃ v cyc, closeOne lt fuel vals i = some (v, cyc) ∧ Inv E v ∧ Closed E lt v i ∧
      (∀ x, x ≠ i → v x = vals x) ∧ (cyc = true ↔ Below E i i) := by
  have hvU : ∀ x, ∀ y ∈ vals x, y ∈ U := fun x y hy => below_mem hU (hinv.upper x y hy)
  obtain ⟨nv, hnv, hnd, hm⟩ := walkAll_nil vals U (fun x _ y hy => hvU x y hy) fuel (vals i) (hvU i) hf
  have hm' : ∀ j, j ∈ nv ↔ Below E i j := fun j => (hm j).trans (reach_iff_below hinv i j)
  have hs : ∀ j, j ∈ sortStable lt nv ↔ Below E i j :=
    fun j => ((sortStable_perm lt nv).mem_iff).trans (hm' j)
  refine ⟨setVals vals i (sortStable lt nv), decide (i ∈ nv), by simp [closeOne, hnv], ?_, ?_, ?_, ?_⟩
  · constructor
    · intro x j hE
      by_cases hx : x = i
      · subst hx; simp only [setVals, if_true]; exact (hs j).mpr (Below.direct hE)
      · simp only [setVals, hx, if_false]; exact hinv.lower x j hE
    · intro x j hj
      by_cases hx : x = i
      · subst hx; simp only [setVals, if_true] at hj; exact (hs j).mp hj
      · simp only [setVals, hx, if_false] at hj; exact hinv.upper x j hj
  · constructor
    · intro j; simp only [setVals, if_true]; exact hs j
    · simp only [setVals, if_true]; exact sortStable_sorted hlt nv hnd
  · intro x hx; simp [setVals, hx]
  · simp only [decide_eq_true_eq]; exact hm' i

/-- The closure loop, for any order of visiting: every visited entry ends with its final list, the
others are untouched, and a cycle is reported exactly for the visited entries that lie below
themselves. -/
theorem closeAll_spec [DecidableEq α] {E : α → α → Prop} {lt : α → α → Bool} (hlt : StrictTotal lt) (U : List α)
    (hU : ∀ x y, E x y → y ∈ U) (fuel : Nat) (hf : U.length < fuel) :
    ∀ (order : List α) (vals : α → List α), Inv E vals →
      ∃ v cyc, closeAll lt fuel order vals = some (v, cyc) ∧ Inv E v ∧
        (∀ i ∈ order, Closed E lt v i) ∧ (∀ x, x ∉ order → v x = vals x) ∧
        (∀ x, Closed E lt vals x → Closed E lt v x) ∧
        (∀ i, i ∈ cyc ↔ i ∈ order ∧ Below E i i) := by
  intro order
  induction order with
  | nil =>
    intro vals hinv
    exact ⟨vals, [], rfl, hinv, by simp, fun _ _ => rfl, fun _ h => h, by simp⟩
  | cons i rest ih =>
    intro vals hinv
    obtain ⟨v1, c1, h1, hinv1, hcl1, hsame1, hcyc1⟩ := closeOne_spec hlt U hU fuel hf vals hinv i
    obtain ⟨v2, c2, h2, hinv2, hcl2, hsame2, hkeep2, hcyc2⟩ := ih v1 hinv1
    refine ⟨v2, if c1 then i :: c2 else c2, by simp [closeAll, h1, h2], hinv2, ?_, ?_, ?_, ?_⟩
    · intro x hx
      rcases List.mem_cons.mp hx with rfl | hx
      · exact hkeep2 _ hcl1
      · exact hcl2 x hx
    · intro x hx
      have hxi : x ≠ i := fun e => hx (e ▸ List.mem_cons_self ..)
      have hxr : x ∉ rest := fun hm => hx (List.mem_cons_of_mem _ hm)
      rw [hsame2 x hxr, hsame1 x hxi]
    · intro x hx
      apply hkeep2
      by_cases hxi : x = i
      · subst hxi; exact hcl1
      · unfold Closed at hx ⊢; rw [hsame1 x hxi]; exact hx
    · intro x
      by_cases hc : c1 = true
      · simp only [hc, if_true, List.mem_cons]
        constructor
        · rintro (rfl | h)
          · exact ⟨Or.inl rfl, hcyc1.mp hc⟩
          · exact ⟨Or.inr ((hcyc2 x).mp h).1, ((hcyc2 x).mp h).2⟩
        · rintro ⟨rfl | h, hb⟩
          · exact Or.inl rfl
          · exact Or.inr ((hcyc2 x).mpr ⟨h, hb⟩)
      · simp only [hc, List.mem_cons]
        constructor
        · intro h
          exact ⟨Or.inr ((hcyc2 x).mp h).1, ((hcyc2 x).mp h).2⟩
        · rintro ⟨rfl | h, hb⟩
          · exact absurd (hcyc1.mpr hb) hc
          · exact (hcyc2 x).mpr ⟨h, hb⟩

end Close

/-! ### The breadth-first closure of the specification -/

section Closure
variable {α : Type} [DecidableEq α]

/-- When `closure` answers, the answer is exactly what is reachable from the start set. -/
theorem closure_spec (succ : α → List α) : ∀ (rounds : Nat) (s out : List α),
    closure succ rounds s = some out → ∀ y, y ∈ out ↔ ∃ c ∈ s, Reach succ c y := by
  intro rounds
  induction rounds with
  | zero => intro s out h; simp [closure] at h
  | succ n ih =>
    intro s out h y
    unfold closure at h
    simp only at h
    split at h
    · rename_i hempty
      simp only [Option.some.injEq] at h
      subst h
      have hclosed : ∀ x ∈ s, ∀ z ∈ succ x, z ∈ s := by
        intro x hx z hz
        apply Classical.byContradiction
        intro hns
        have hz' : z ∈ ((s.flatMap succ).filter (fun a => decide (a ∉ s))).eraseDups := by
          rw [List.mem_eraseDups]
          simp only [List.mem_filter, List.mem_flatMap, decide_eq_true_eq]
          exact ⟨⟨x, hx, hz⟩, hns⟩
        rw [List.isEmpty_iff] at hempty
        rw [hempty] at hz'
        cases hz'
      constructor
      · intro hy; exact ⟨y, hy, Reach.refl y⟩
      · rintro ⟨c, hc, hr⟩; exact Reach.mem_of_closed hclosed hr hc
    · rw [ih _ _ h y]
      constructor
      · rintro ⟨c, hc, hr⟩
        rcases List.mem_append.mp hc with hc | hc
        · exact ⟨c, hc, hr⟩
        · rw [List.mem_eraseDups] at hc
          simp only [List.mem_filter, List.mem_flatMap, decide_eq_true_eq] at hc
          obtain ⟨⟨x, hx, hcx⟩, _⟩ := hc
          exact ⟨x, hx, Reach.step hcx hr⟩
      · rintro ⟨c, hc, hr⟩
        exact ⟨c, List.mem_append_left _ hc, hr⟩

end Closure

end Goyang.Lemmas.Identity
