import Goyang.Model.Identity
import Goyang.Spec.Identity
/-
Helper lemmas for C11, part 1: the generic walk (`addChildren` / `includeClosure`), the stable
sort, the closure loop, and the breadth-first `closure` of the specification.
-/
namespace Goyang.Lemmas.Identity
open Goyang.Model.Identity
open Goyang.Spec.Identity (Reach closure)

/-! ### Reachability -/

section Reach
variable {α : Type} {succ : α → List α}

theorem Reach.trans {a b c : α} (h1 : Reach succ a b) (h2 : Reach succ b c) : Reach succ a c := by
  induction h1 with
  | refl => exact h2
  | step h _ ih => exact Reach.step h (ih h2)

theorem Reach.single {a b : α} (h : b ∈ succ a) : Reach succ a b := Reach.step h (Reach.refl b)

/-- A set closed under `succ` contains everything reachable from its members. -/
theorem Reach.mem_of_closed {S : List α} (hc : ∀ x ∈ S, ∀ y ∈ succ x, y ∈ S) {a b : α}
    (h : Reach succ a b) (ha : a ∈ S) : b ∈ S := by
  induction h with
  | refl => exact ha
  | step hs _ ih => exact ih (hc _ ha _ hs)

end Reach

/-! ### The walk -/

section Walk
variable {α : Type} [DecidableEq α]

/-- Number of nodes of the universe `U` not yet in `ids`: the termination measure of the walk. -/
def unv : List α → List α → Nat
  | [], _ => 0
  | u :: us, ids => (if u ∈ ids then 0 else 1) + unv us ids

theorem unv_mono (U : List α) {ids ids' : List α} (h : ∀ x ∈ ids, x ∈ ids') : unv U ids' ≤ unv U ids := by
  induction U with
  | nil => simp [unv]
  | cons u us ih =>
    simp only [unv]
    by_cases h1 : u ∈ ids
    · have h2 : u ∈ ids' := h u h1
      simp only [h1, h2, if_true]; omega
    · by_cases h2 : u ∈ ids'
      · simp only [h1, h2, if_true, if_false]; omega
      · simp only [h1, h2, if_false]; omega

theorem unv_lt (U : List α) {ids : List α} {r : α} (hr : r ∈ U) (hn : r ∉ ids) :
    unv U (ids ++ [r]) < unv U ids := by
  induction U with
  | nil => cases hr
  | cons u us ih =>
    simp only [unv]
    by_cases hu : u = r
    · subst hu
      have hle := unv_mono us (ids := ids) (ids' := ids ++ [u]) (fun x hx => List.mem_append_left _ hx)
      have h2 : u ∈ ids ++ [u] := by simp
      simp only [hn, h2, if_true, if_false]; omega
    · have hr' : r ∈ us := by
        cases hr with
        | head => exact absurd rfl hu
        | tail _ h => exact h
      have := ih hr'
      by_cases h1 : u ∈ ids
      · have h2 : u ∈ ids ++ [r] := List.mem_append_left _ h1
        simp only [h1, h2, if_true]; omega
      · have h2 : u ∉ ids ++ [r] := by simp [h1, hu]
        simp only [h1, h2, if_false]; omega

theorem unv_nil (U : List α) : unv U [] = U.length := by
  induction U with
  | nil => rfl
  | cons u us ih => simp [unv, ih]; omega

/-- What one call (or a run of calls over `roots`) of the walk achieves, from `ids` to `out`. -/
structure WalkPost (succ : α → List α) (roots ids out : List α) : Prop where
  sub : ∀ x ∈ ids, x ∈ out
  roots_mem : ∀ c ∈ roots, c ∈ out
  sound : ∀ y ∈ out, y ∈ ids ∨ ∃ c ∈ roots, Reach succ c y
  closed : ∀ x ∈ out, x ∈ ids ∨ ∀ y ∈ succ x, y ∈ out
  nodup : ids.Nodup → out.Nodup

theorem fold_spec (succ : α → List α) (U : List α) (fuel : Nat)
    (hw : ∀ r ids, r ∈ U → unv U ids < fuel →
      ∃ out, walk succ fuel r ids = some out ∧ WalkPost succ [r] ids out) :
    ∀ (cs acc : List α), (∀ c ∈ cs, c ∈ U) → unv U acc < fuel →
      ∃ out, cs.foldlM (fun acc ch => walk succ fuel ch acc) acc = some out ∧ WalkPost succ cs acc out := by
  intro cs
  induction cs with
  | nil =>
    intro acc _ _
    exact ⟨acc, rfl, ⟨fun _ h => h, by simp, fun _ h => Or.inl h, fun _ h => Or.inl h, fun h => h⟩⟩
  | cons c cs ih =>
    intro acc hU hf
    obtain ⟨o1, ho1, p1⟩ := hw c acc (hU c (List.mem_cons_self ..)) hf
    have hf1 : unv U o1 < fuel := Nat.lt_of_le_of_lt (unv_mono U p1.sub) hf
    obtain ⟨o2, ho2, p2⟩ := ih o1 (fun x hx => hU x (List.mem_cons_of_mem _ hx)) hf1
    refine ⟨o2, by simp [List.foldlM, ho1, ho2], ?_⟩
    constructor
    · exact fun x hx => p2.sub x (p1.sub x hx)
    · intro x hx
      rcases List.mem_cons.mp hx with rfl | hx
      · exact p2.sub _ (p1.roots_mem _ (List.mem_cons_self ..))
      · exact p2.roots_mem x hx
    · intro y hy
      rcases p2.sound y hy with h | ⟨d, hd, hr⟩
      · rcases p1.sound y h with h | ⟨d, hd, hr⟩
        · exact Or.inl h
        · simp only [List.mem_singleton] at hd
          subst hd
          exact Or.inr ⟨d, List.mem_cons_self .., hr⟩
      · exact Or.inr ⟨d, List.mem_cons_of_mem _ hd, hr⟩
    · intro x hx
      rcases p2.closed x hx with h | h
      · rcases p1.closed x h with h | h
        · exact Or.inl h
        · exact Or.inr (fun y hy => p2.sub y (h y hy))
      · exact Or.inr h
    · exact fun h => p2.nodup (p1.nodup h)

/-- The walk terminates within `fuel` > number of unvisited nodes, keeps what was there, adds the
start node, adds only reachable nodes, and every node it adds has all its successors in the result. -/
theorem walk_spec (succ : α → List α) (U : List α) (hU : ∀ x ∈ U, ∀ y ∈ succ x, y ∈ U) :
    ∀ (fuel : Nat) (r : α) (ids : List α), r ∈ U → unv U ids < fuel →
      ∃ out, walk succ fuel r ids = some out ∧ WalkPost succ [r] ids out := by
  intro fuel
  induction fuel with
  | zero => intro r ids _ h; omega
  | succ fuel ih =>
    intro r ids hr hf
    unfold walk
    by_cases hin : r ∈ ids
    · simp only [hin, if_true]
      refine ⟨ids, rfl, ⟨fun _ h => h, ?_, fun _ h => Or.inl h, fun _ h => Or.inl h, fun h => h⟩⟩
      intro c hc; simp only [List.mem_singleton] at hc; subst hc; exact hin
    · simp only [hin, if_false]
      have hlt := unv_lt U hr hin
      obtain ⟨out, ho, p⟩ := fold_spec succ U fuel ih (succ r) (ids ++ [r]) (hU r hr) (by omega)
      refine ⟨out, ho, ?_⟩
      have hrout : r ∈ out := p.sub r (by simp)
      constructor
      · exact fun x hx => p.sub x (List.mem_append_left _ hx)
      · intro c hc; simp only [List.mem_singleton] at hc; subst hc; exact hrout
      · intro y hy
        rcases p.sound y hy with h | ⟨c, hc, hr⟩
        · rcases List.mem_append.mp h with h | h
          · exact Or.inl h
          · simp only [List.mem_singleton] at h
            subst h
            exact Or.inr ⟨y, by simp, Reach.refl y⟩
        · exact Or.inr ⟨r, by simp, Reach.step hc hr⟩
      · intro x hx
        rcases p.closed x hx with h | h
        · rcases List.mem_append.mp h with h | h
          · exact Or.inl h
          · simp only [List.mem_singleton] at h
            subst h
            exact Or.inr (fun y hy => p.roots_mem y hy)
        · exact Or.inr h
      · intro hnd
        apply p.nodup
        rw [List.nodup_append]
        refine ⟨hnd, by simp, ?_⟩
        intro a ha b hb
        simp only [List.mem_singleton] at hb
        subst hb
        intro hab; subst hab; exact hin ha

theorem walkAll_spec (succ : α → List α) (U : List α) (hU : ∀ x ∈ U, ∀ y ∈ succ x, y ∈ U)
    (fuel : Nat) (roots ids : List α) (hr : ∀ c ∈ roots, c ∈ U) (hf : unv U ids < fuel) :
    ∃ out, walkAll succ fuel roots ids = some out ∧ WalkPost succ roots ids out :=
  fold_spec succ U fuel (walk_spec succ U hU fuel) roots ids hr hf

/-- Started from the empty list the walk returns exactly what is reachable from the roots, each once. -/
theorem walkAll_nil (succ : α → List α) (U : List α) (hU : ∀ x ∈ U, ∀ y ∈ succ x, y ∈ U)
    (fuel : Nat) (roots : List α) (hr : ∀ c ∈ roots, c ∈ U) (hf : U.length < fuel) :
    ∃ out, walkAll succ fuel roots [] = some out ∧ out.Nodup ∧
      ∀ y, y ∈ out ↔ ∃ c ∈ roots, Reach succ c y := by
  obtain ⟨out, ho, p⟩ := walkAll_spec succ U hU fuel roots [] hr (by rw [unv_nil]; exact hf)
  refine ⟨out, ho, p.nodup List.nodup_nil, ?_⟩
  intro y
  constructor
  · intro hy
    rcases p.sound y hy with h | h
    · cases h
    · exact h
  · rintro ⟨c, hc, hreach⟩
    have hclosed : ∀ x ∈ out, ∀ z ∈ succ x, z ∈ out := by
      intro x hx
      rcases p.closed x hx with h | h
      · cases h
      · exact h
    exact Reach.mem_of_closed hclosed hreach (p.roots_mem c hc)

theorem walk_nil (succ : α → List α) (U : List α) (hU : ∀ x ∈ U, ∀ y ∈ succ x, y ∈ U)
    (fuel : Nat) (r : α) (hr : r ∈ U) (hf : U.length < fuel) :
    ∃ out, walk succ fuel r [] = some out ∧ out.Nodup ∧ ∀ y, y ∈ out ↔ Reach succ r y := by
  obtain ⟨out, ho, hnd, hm⟩ := walkAll_nil succ U hU fuel [r] (by simpa using hr) hf
  refine ⟨out, ?_, hnd, ?_⟩
  · simp only [walkAll, List.foldlM] at ho
    cases hw : walk succ fuel r [] with
    | none => simp [hw] at ho
    | some o => simp [hw] at ho; rw [ho]
  · intro y; rw [hm]; simp

end Walk

end Goyang.Lemmas.Identity
