import Goyang.Lemmas.Identity
/-
Helper lemmas for C11, part 2: the identity dictionary built by the first loop of
`resolveIdentities` holds exactly the identity statements of the schema.
-/
namespace Goyang.Lemmas.Identity
open Goyang.Model Goyang.Model.Identity
open Goyang.Spec.Identity (Reach closure includedBy loadedModules)

/-! ### `dict[k] = e` -/

theorem mem_bind {d : Dict} {e x : DEntry} (h : x ∈ d.bind e) : x ∈ d ∨ x = e := by
  unfold Dict.bind at h
  split at h
  · obtain ⟨y, hy, hxy⟩ := List.mem_map.mp h
    split at hxy
    · exact Or.inr hxy.symm
    · exact Or.inl (hxy ▸ hy)
  · rcases List.mem_append.mp h with h | h
    · exact Or.inl h
    · exact Or.inr (by simpa using h)

theorem bind_has_key (d : Dict) (e : DEntry) : ∃ x ∈ d.bind e, x.key = e.key := by
  unfold Dict.bind
  split
  · rename_i hany
    obtain ⟨y, hy, hk⟩ := List.any_eq_true.mp hany
    exact ⟨e, List.mem_map.mpr ⟨y, hy, by simp [hk]⟩, rfl⟩
  · exact ⟨e, by simp, rfl⟩

theorem bind_keeps_key {d : Dict} (e : DEntry) {k : String} (h : ∃ x ∈ d, x.key = k) :
    ∃ x ∈ d.bind e, x.key = k := by
  obtain ⟨x, hx, hk⟩ := h
  unfold Dict.bind
  split
  · by_cases hxe : (x.key == e.key) = true
    · refine ⟨e, List.mem_map.mpr ⟨x, hx, by simp [hxe]⟩, ?_⟩
      rw [← hk]; exact (beq_iff_eq.mp hxe).symm
    · exact ⟨x, List.mem_map.mpr ⟨x, hx, by simp [hxe]⟩, hk⟩
  · exact ⟨x, List.mem_append_left _ hx, hk⟩

theorem foldl_bind_mem : ∀ (es : List DEntry) (d : Dict) (x : DEntry),
    x ∈ es.foldl Dict.bind d → x ∈ d ∨ x ∈ es := by
  intro es
  induction es with
  | nil => intro d x h; exact Or.inl h
  | cons e es ih =>
    intro d x h
    rcases ih _ x h with h | h
    · rcases mem_bind h with h | h
      · exact Or.inl h
      · exact Or.inr (h ▸ List.mem_cons_self ..)
    · exact Or.inr (List.mem_cons_of_mem _ h)

theorem foldl_bind_key : ∀ (es : List DEntry) (d : Dict) (k : String),
    ((∃ x ∈ d, x.key = k) ∨ (∃ e ∈ es, e.key = k)) → ∃ x ∈ es.foldl Dict.bind d, x.key = k := by
  intro es
  induction es with
  | nil =>
    intro d k h
    rcases h with h | ⟨e, he, _⟩
    · exact h
    · cases he
  | cons e es ih =>
    intro d k h
    apply ih
    rcases h with h | ⟨e', he', hk⟩
    · exact Or.inl (bind_keeps_key e h)
    · rcases List.mem_cons.mp he' with rfl | he'
      · exact Or.inl (hk ▸ bind_has_key d e')
      · exact Or.inr ⟨e', he', hk⟩

/-! ### one (sub)module -/

/-- The entry `registerMod` makes for identity statement `s` (the `i`-th) of `m` owned by `ow`. -/
def mkEntry (ow m : Mod) (si : Stmt × Nat) : DEntry :=
  { key := Vtx.key (ow.name, si.1.arg), vtx := (ow.name, si.1.arg), root := m.seq, idx := si.2, stmt := si.1 }

theorem registerMod_some (r : Registry) (m ow : Mod) (h : r.owner m = some ow) (acc : Dict × List Err) :
    registerMod r m acc = (((identities m).zipIdx.map (mkEntry ow m)).foldl Dict.bind acc.1, acc.2) := by
  unfold registerMod
  simp only [h]
  rw [List.foldl_map]
  rfl

theorem registerMod_none (r : Registry) (m : Mod) (h : r.owner m = none) (acc : Dict × List Err) :
    (registerMod r m acc).1 = acc.1 ∧ ∃ e, (registerMod r m acc).2 = acc.2 ++ [e] := by
  unfold registerMod
  simp only [h]
  split
  · exact ⟨rfl, _, rfl⟩
  · exact ⟨rfl, _, rfl⟩

theorem byId_seq {r : Registry} {s : Nat} {m : Mod} (h : r.byId s = some m) : m.seq = s := by
  unfold Registry.byId at h
  have := List.find?_some h
  simpa using this

theorem byId_mem {r : Registry} {s : Nat} {m : Mod} (h : r.byId s = some m) : m ∈ r.mods := by
  unfold Registry.byId at h
  exact List.mem_of_find?_eq_some h

theorem byId_self {r : Registry} {s : Nat} {m : Mod} (h : r.byId s = some m) : r.byId m.seq = some m := by
  rw [byId_seq h]; exact h

/-! ### the schema -/

/-- The (sub)module with sequence number `s` is part of the schema: a loaded module, or included
(directly or through other submodules) by one. -/
def InSchema (r : Registry) (s : Nat) : Prop :=
  ∃ md ∈ moduleEntries r, Reach (includedBy r) md.seq s

/-- A dictionary entry that stands for an identity statement of the schema. -/
def Sound (r : Registry) (e : DEntry) : Prop :=
  ∃ m ow, InSchema r m.seq ∧ r.byId e.root = some m ∧ r.owner m = some ow ∧
    e.stmt ∈ identities m ∧ e.vtx = (ow.name, e.stmt.arg) ∧ e.key = Vtx.key e.vtx

/-- The body of the inner loop of `buildDict` for one sequence number. -/
def regSeq (r : Registry) (acc : Dict × List Err) (s : Nat) : Dict × List Err :=
  match r.byId s with
  | some m => registerMod r m acc
  | none => acc

/-- What registering the (sub)modules `cl` does to the dictionary and the error list. -/
structure RegPost (r : Registry) (cl : List Nat) (acc res : Dict × List Err) : Prop where
  sound : (∀ e ∈ acc.1, Sound r e) → ∀ e ∈ res.1, Sound r e
  keeps : ∀ k, (∃ x ∈ acc.1, x.key = k) → ∃ x ∈ res.1, x.key = k
  adds : ∀ s ∈ cl, ∀ m ow, r.byId s = some m → r.owner m = some ow → ∀ st ∈ identities m,
    ∃ x ∈ res.1, x.key = Vtx.key (ow.name, st.arg)
  errs : ∃ t, res.2 = acc.2 ++ t ∧
    (t = [] ↔ ∀ s ∈ cl, ∀ m, r.byId s = some m → ∃ ow, r.owner m = some ow)

theorem regSeq_post (r : Registry) (s : Nat) (hs : InSchema r s) (acc : Dict × List Err) :
    RegPost r [s] acc (regSeq r acc s) := by
  unfold regSeq
  cases hm : r.byId s with
  | none =>
    simp only
    exact ⟨fun h => h, fun _ h => h, by simp [hm], ⟨[], by simp, by simp [hm]⟩⟩
  | some m =>
    simp only
    cases how : r.owner m with
    | none =>
      obtain ⟨h1, e, h2⟩ := registerMod_none r m how acc
      refine ⟨?_, ?_, ?_, ⟨[e], h2, ?_⟩⟩
      · rw [h1]; exact fun h => h
      · rw [h1]; exact fun _ h => h
      · intro s' hs' m' ow' hm' how'
        simp only [List.mem_singleton] at hs'
        subst hs'
        rw [hm] at hm'
        cases hm'
        rw [how] at how'
        cases how'
      · simp only [List.cons_ne_self, false_iff, List.mem_singleton, forall_eq, hm,
          Option.some.injEq, forall_eq', how]
        simp
    | some ow =>
      rw [registerMod_some r m ow how acc]
      refine ⟨?_, ?_, ?_, ⟨[], by simp, ?_⟩⟩
      · intro hacc e he
        rcases foldl_bind_mem _ _ _ he with he | he
        · exact hacc e he
        · obtain ⟨si, hsi, rfl⟩ := List.mem_map.mp he
          refine ⟨m, ow, ?_, ?_, how, ?_, rfl, rfl⟩
          · rw [byId_seq hm]; exact hs
          · exact byId_self hm
          · exact List.fst_mem_of_mem_zipIdx hsi
      · intro k hk
        exact foldl_bind_key _ _ _ (Or.inl hk)
      · intro s' hs' m' ow' hm' how' st hst
        simp only [List.mem_singleton] at hs'
        subst hs'
        rw [hm] at hm'
        cases hm'
        rw [how] at how'
        cases how'
        apply foldl_bind_key
        right
        have : st ∈ ((identities m).zipIdx).map Prod.fst := by
          rw [List.zipIdx_map_fst]; exact hst
        obtain ⟨si, hsi, hfst⟩ := List.mem_map.mp this
        exact ⟨mkEntry ow m si, List.mem_map.mpr ⟨si, hsi, rfl⟩, by simp [mkEntry, hfst]⟩
      · simp only [true_iff, List.mem_singleton, forall_eq, hm, Option.some.injEq, forall_eq']
        exact ⟨ow, how⟩

theorem regFold_post (r : Registry) : ∀ (cl : List Nat) (acc : Dict × List Err),
    (∀ s ∈ cl, InSchema r s) → RegPost r cl acc (cl.foldl (regSeq r) acc) := by
  intro cl
  induction cl with
  | nil =>
    intro acc _
    exact ⟨fun h => h, fun _ h => h, by simp, ⟨[], by simp, by simp⟩⟩
  | cons s cl ih =>
    intro acc hcl
    have p1 := regSeq_post r s (hcl s (List.mem_cons_self ..)) acc
    have p2 := ih (regSeq r acc s) (fun x hx => hcl x (List.mem_cons_of_mem _ hx))
    simp only [List.foldl_cons]
    refine ⟨fun h => p2.sound (p1.sound h), fun k hk => p2.keeps k (p1.keeps k hk), ?_, ?_⟩
    · intro s' hs' m ow hm how st hst
      rcases List.mem_cons.mp hs' with rfl | hs'
      · exact p2.keeps _ (p1.adds _ (by simp) m ow hm how st hst)
      · exact p2.adds s' hs' m ow hm how st hst
    · obtain ⟨t1, h1, e1⟩ := p1.errs
      obtain ⟨t2, h2, e2⟩ := p2.errs
      refine ⟨t1 ++ t2, by rw [h2, h1, List.append_assoc], ?_⟩
      rw [List.append_eq_nil_iff, e1, e2]
      constructor
      · rintro ⟨ha, hb⟩ s' hs'
        rcases List.mem_cons.mp hs' with rfl | hs'
        · exact ha _ (by simp)
        · exact hb s' hs'
      · intro h
        exact ⟨fun s' hs' => by simp only [List.mem_singleton] at hs'; subst hs'; exact h _ (List.mem_cons_self ..),
          fun s' hs' => h s' (List.mem_cons_of_mem _ hs')⟩

/-! ### all modules -/

theorem reach_congr_mp {α : Type} {s1 s2 : α → List α} {a : α} (h : ∀ x, Reach s2 a x → s1 x = s2 x) :
    ∀ {b y : α}, Reach s1 b y → Reach s2 a b → Reach s2 a y := by
  intro b y hby
  induction hby with
  | refl => exact id
  | step hc _ ih =>
    intro hab
    rw [h _ hab] at hc
    exact ih (Reach.trans hab (Reach.single hc))

theorem reach_congr_mpr {α : Type} {s1 s2 : α → List α} {a : α} (h : ∀ x, Reach s2 a x → s1 x = s2 x) :
    ∀ {b y : α}, Reach s2 b y → Reach s2 a b → Reach s1 b y := by
  intro b y hby
  induction hby with
  | refl => exact fun _ => Reach.refl _
  | step hc _ ih =>
    intro hab
    have hc' := hc
    rw [← h _ hab] at hc'
    exact Reach.step hc' (ih (Reach.trans hab (Reach.single hc)))

theorem reach_congr {α : Type} {s1 s2 : α → List α} {a : α} (h : ∀ x, Reach s2 a x → s1 x = s2 x) (y : α) :
    Reach s1 a y ↔ Reach s2 a y :=
  ⟨fun h1 => reach_congr_mp h h1 (Reach.refl a), fun h2 => reach_congr_mpr h h2 (Reach.refl a)⟩

theorem findModule_byId {r : Registry} {b : Bool} {i : Stmt} {m : Mod} (h : r.findModule b i = some m) :
    ∃ id, r.byId id = some m := by
  have hget : ∀ k, (if b then r.getSub else r.getModule) k = some m → ∃ id, r.byId id = some m := by
    intro k hk
    cases b with
    | true =>
      simp only [if_true, Registry.getSub] at hk
      obtain ⟨id, _, hid⟩ := Option.bind_eq_some_iff.mp hk
      exact ⟨id, hid⟩
    | false =>
      simp only [Bool.false_eq_true, if_false, Registry.getModule] at hk
      obtain ⟨id, _, hid⟩ := Option.bind_eq_some_iff.mp hk
      exact ⟨id, hid⟩
  unfold Registry.findModule at h
  simp only at h
  split at h
  · rename_i m' hm'
    cases h
    exact hget _ hm'
  · exact hget _ h

/-- The include links of every part of the schema are set (what `include` leaves behind when no
include or import fails). -/
def LinkOK (r : Registry) (lk : Link) : Prop :=
  ∀ s, InSchema r s → includeSucc r lk s = includedBy r s

theorem includeSucc_mem (r : Registry) (lk : Link) (x y : Nat) (hy : y ∈ includeSucc r lk x) :
    y ∈ r.mods.map (·.seq) := by
  unfold includeSucc at hy
  split at hy
  · rename_i m _
    obtain ⟨m', hm', rfl⟩ := List.mem_map.mp hy
    unfold includeTargets at hm'
    obtain ⟨⟨st, i⟩, _, hsi⟩ := List.mem_filterMap.mp hm'
    simp only at hsi
    split at hsi
    · obtain ⟨id, hid⟩ := findModule_byId hsi
      exact List.mem_map.mpr ⟨m', byId_mem hid, rfl⟩
    · cases hsi
  · cases hy

theorem moduleEntries_byId {r : Registry} {md : Mod} (h : md ∈ moduleEntries r) : ∃ id, r.byId id = some md := by
  unfold moduleEntries at h
  obtain ⟨kv, _, hkv⟩ := List.mem_filterMap.mp h
  exact ⟨_, hkv⟩

/-- The step function of `buildDict`. -/
def dictStep (r : Registry) (lk : Link) (acc : Dict × List Err) (md : Mod) : Option (Dict × List Err) :=
  match walk (includeSucc r lk) (r.mods.length + 1) md.seq [] with
  | none => none
  | some cl => some (cl.foldl (regSeq r) acc)

theorem buildDict_eq (o : Oracle) (r : Registry) (lk : Link) :
    buildDict o r lk = (modulesByKey o r).foldlM (dictStep r lk) ([], []) := rfl

/-- Whatever the map order and the sort make of it, the loop visits the entries of `ms.Modules`. -/
theorem mem_modulesByKey (o : Oracle) (ho : o.Valid) (r : Registry) (md : Mod) :
    md ∈ modulesByKey o r ↔ md ∈ moduleEntries r := by
  unfold modulesByKey moduleEntries
  have hp : (sortStable (fun a b => decide (a.1 < b.1)) (o.order siteModules r.modules)).Perm r.modules :=
    (sortStable_perm _ _).trans (ho _ siteModules r.modules)
  exact (hp.filterMap _).mem_iff

structure TopPost (r : Registry) (L : List Mod) (acc res : Dict × List Err) : Prop where
  sound : (∀ e ∈ acc.1, Sound r e) → ∀ e ∈ res.1, Sound r e
  keeps : ∀ k, (∃ x ∈ acc.1, x.key = k) → ∃ x ∈ res.1, x.key = k
  adds : ∀ md ∈ L, ∀ s, Reach (includedBy r) md.seq s → ∀ m ow, r.byId s = some m →
    r.owner m = some ow → ∀ st ∈ identities m, ∃ x ∈ res.1, x.key = Vtx.key (ow.name, st.arg)
  errs : ∃ t, res.2 = acc.2 ++ t ∧
    (t = [] ↔ ∀ md ∈ L, ∀ s, Reach (includedBy r) md.seq s → ∀ m, r.byId s = some m → ∃ ow, r.owner m = some ow)

theorem dictStep_post (r : Registry) (lk : Link) (hlk : LinkOK r lk) (md : Mod) (hmd : md ∈ moduleEntries r)
    (acc : Dict × List Err) : ∃ res, dictStep r lk acc md = some res ∧ TopPost r [md] acc res := by
  obtain ⟨id, hid⟩ := moduleEntries_byId hmd
  have hU : ∀ x ∈ r.mods.map (·.seq), ∀ y ∈ includeSucc r lk x, y ∈ r.mods.map (·.seq) :=
    fun x _ y hy => includeSucc_mem r lk x y hy
  obtain ⟨cl, hcl, _, hmem⟩ := walk_nil (includeSucc r lk) (r.mods.map (·.seq)) hU (r.mods.length + 1) md.seq
    (List.mem_map.mpr ⟨md, byId_mem hid, rfl⟩) (by simp)
  have hreach : ∀ y, y ∈ cl ↔ Reach (includedBy r) md.seq y := by
    intro y
    rw [hmem y]
    exact reach_congr (fun x hx => hlk x ⟨md, hmd, hx⟩) y
  have p := regFold_post r cl acc (fun s hs => ⟨md, hmd, (hreach s).mp hs⟩)
  refine ⟨cl.foldl (regSeq r) acc, by simp [dictStep, hcl], p.sound, p.keeps, ?_, ?_⟩
  · intro md' hmd' s hs
    simp only [List.mem_singleton] at hmd'
    subst hmd'
    exact p.adds s ((hreach s).mpr hs)
  · obtain ⟨t, ht, et⟩ := p.errs
    refine ⟨t, ht, ?_⟩
    rw [et]
    constructor
    · intro h md' hmd' s hs
      simp only [List.mem_singleton] at hmd'
      subst hmd'
      exact h s ((hreach s).mpr hs)
    · intro h s hs
      exact h md (by simp) s ((hreach s).mp hs)

theorem dictFold_post (r : Registry) (lk : Link) (hlk : LinkOK r lk) : ∀ (L : List Mod),
    (∀ md ∈ L, md ∈ moduleEntries r) → ∀ acc, ∃ res, L.foldlM (dictStep r lk) acc = some res ∧ TopPost r L acc res := by
  intro L
  induction L with
  | nil =>
    intro _ acc
    exact ⟨acc, rfl, fun h => h, fun _ h => h, by simp, ⟨[], by simp, by simp⟩⟩
  | cons md L ih =>
    intro hL acc
    obtain ⟨r1, h1, p1⟩ := dictStep_post r lk hlk md (hL md (List.mem_cons_self ..)) acc
    obtain ⟨r2, h2, p2⟩ := ih (fun x hx => hL x (List.mem_cons_of_mem _ hx)) r1
    refine ⟨r2, by simp [List.foldlM, h1, h2], fun h => p2.sound (p1.sound h),
      fun k hk => p2.keeps k (p1.keeps k hk), ?_, ?_⟩
    · intro md' hmd' s hs m ow hm how st hst
      rcases List.mem_cons.mp hmd' with rfl | hmd'
      · exact p2.keeps _ (p1.adds _ (by simp) s hs m ow hm how st hst)
      · exact p2.adds md' hmd' s hs m ow hm how st hst
    · obtain ⟨t1, e1, q1⟩ := p1.errs
      obtain ⟨t2, e2, q2⟩ := p2.errs
      refine ⟨t1 ++ t2, by rw [e2, e1, List.append_assoc], ?_⟩
      rw [List.append_eq_nil_iff, q1, q2]
      constructor
      · rintro ⟨ha, hb⟩ md' hmd'
        rcases List.mem_cons.mp hmd' with rfl | hmd'
        · exact ha _ (by simp)
        · exact hb md' hmd'
      · intro h
        exact ⟨fun md' hmd' => by simp only [List.mem_singleton] at hmd'; subst hmd'; exact h _ (List.mem_cons_self ..),
          fun md' hmd' => h md' (List.mem_cons_of_mem _ hmd')⟩

/-- The dictionary, for every admissible oracle: only identity statements of the schema, all of
them (by key), and an error exactly when a part of the schema has no owner. -/
theorem buildDict_spec (o : Oracle) (ho : o.Valid) (r : Registry) (lk : Link) (hlk : LinkOK r lk) :
    ∃ dict errs, buildDict o r lk = some (dict, errs) ∧ (∀ e ∈ dict, Sound r e) ∧
      (∀ s, InSchema r s → ∀ m ow, r.byId s = some m → r.owner m = some ow → ∀ st ∈ identities m,
        ∃ x ∈ dict, x.key = Vtx.key (ow.name, st.arg)) ∧
      (errs = [] ↔ ∀ s, InSchema r s → ∀ m, r.byId s = some m → ∃ ow, r.owner m = some ow) := by
  have hperm := mem_modulesByKey o ho r
  obtain ⟨res, hres, p⟩ := dictFold_post r lk hlk (modulesByKey o r)
    (fun md hmd => (hperm md).mp hmd) ([], [])
  refine ⟨res.1, res.2, by rw [buildDict_eq, hres], p.sound (by simp), ?_, ?_⟩
  · rintro s ⟨md, hmd, hs⟩
    exact p.adds md ((hperm md).mpr hmd) s hs
  · obtain ⟨t, e, q⟩ := p.errs
    simp only [List.nil_append] at e
    rw [e, q]
    constructor
    · rintro h s ⟨md, hmd, hs⟩
      exact h md ((hperm md).mpr hmd) s hs
    · intro h md hmd s hs
      exact h s ⟨md, (hperm md).mp hmd, hs⟩

end Goyang.Lemmas.Identity
