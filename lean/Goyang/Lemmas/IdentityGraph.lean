import Goyang.Lemmas.IdentityDict
/-
Helper lemmas for C11, part 3: the comparator, key injectivity, `findIdentityBase` against the
specification's `names`, and the direct-children loop.
-/
namespace Goyang.Lemmas.Identity
open Goyang.Model Goyang.Model.Identity
open Goyang.Spec.Identity (Reach closure includedBy loadedModules names splitName moduleOfPrefix)

/-! ### the comparator -/

theorem str_lt_or_gt {a b : String} (h : a ≠ b) : a < b ∨ b < a := by
  by_cases h1 : a < b
  · exact Or.inl h1
  · by_cases h2 : b < a
    · exact Or.inr h2
    · exact absurd (String.le_antisymm (String.not_lt.mp h2) (String.not_lt.mp h1)) h

theorem vtxLt_iff (a b : Vtx) : vtxLt a b = true ↔ (a.2 < b.2 ∨ (a.2 = b.2 ∧ a.1 < b.1)) := by
  unfold vtxLt
  by_cases h : a.2 = b.2
  · simp [h, String.lt_irrefl]
  · simp only [bne_iff_ne, ne_eq, h, not_false_eq_true, if_true, decide_eq_true_eq, false_and, or_false]

theorem vtxLt_strictTotal : StrictTotal vtxLt := by
  constructor
  · intro a
    cases hlt : vtxLt a a with
    | false => rfl
    | true =>
      rcases (vtxLt_iff a a).mp hlt with h | ⟨_, h⟩
      · exact absurd h (String.lt_irrefl _)
      · exact absurd h (String.lt_irrefl _)
  · intro a b c hab hbc
    rw [vtxLt_iff] at hab hbc ⊢
    rcases hab with h1 | ⟨e1, h1⟩
    · rcases hbc with h2 | ⟨e2, _⟩
      · exact Or.inl (String.lt_trans h1 h2)
      · exact Or.inl (e2 ▸ h1)
    · rcases hbc with h2 | ⟨e2, h2⟩
      · exact Or.inl (e1 ▸ h2)
      · exact Or.inr ⟨e1.trans e2, String.lt_trans h1 h2⟩
  · intro a b hne
    rw [vtxLt_iff, vtxLt_iff]
    by_cases h : a.2 = b.2
    · have h1 : a.1 ≠ b.1 := fun e => hne (Prod.ext e h)
      rcases str_lt_or_gt h1 with h2 | h2
      · exact Or.inl (Or.inr ⟨h, h2⟩)
      · exact Or.inr (Or.inr ⟨h.symm, h2⟩)
    · rcases str_lt_or_gt h with h2 | h2
      · exact Or.inl (Or.inl h2)
      · exact Or.inr (Or.inl h2)

/-! ### keys -/

theorem split_colon_unique : ∀ (l1 l2 r1 r2 : List Char), ':' ∉ l1 → ':' ∉ l2 →
    l1 ++ ':' :: r1 = l2 ++ ':' :: r2 → l1 = l2 ∧ r1 = r2 := by
  intro l1
  induction l1 with
  | nil =>
    intro l2 r1 r2 _ h2 h
    cases l2 with
    | nil => simp at h; exact ⟨rfl, h⟩
    | cons c l2 =>
      simp only [List.nil_append, List.cons_append, List.cons.injEq] at h
      exact absurd (h.1 ▸ List.mem_cons_self ..) h2
  | cons c l1 ih =>
    intro l2 r1 r2 h1 h2 h
    cases l2 with
    | nil =>
      simp only [List.nil_append, List.cons_append, List.cons.injEq] at h
      exact absurd (h.1 ▸ List.mem_cons_self ..) h1
    | cons d l2 =>
      simp only [List.cons_append, List.cons.injEq] at h
      obtain ⟨e1, e2⟩ := ih l2 r1 r2 (fun hm => h1 (List.mem_cons_of_mem _ hm))
        (fun hm => h2 (List.mem_cons_of_mem _ hm)) h.2
      exact ⟨by rw [h.1, e1], e2⟩

/-- `module:name` determines module and name when module names carry no colon. -/
theorem key_inj {v1 v2 : Vtx} (h1 : ':' ∉ v1.1.toList) (h2 : ':' ∉ v2.1.toList)
    (h : Vtx.key v1 = Vtx.key v2) : v1 = v2 := by
  unfold Vtx.key at h
  have := congrArg String.toList h
  simp only [String.toList_append] at this
  have hc : ":".toList = [':'] := rfl
  rw [hc, List.append_assoc, List.append_assoc] at this
  obtain ⟨e1, e2⟩ := split_colon_unique _ _ _ _ h1 h2 this
  exact Prod.ext (String.toList_inj.mp e1) (String.toList_inj.mp e2)

theorem get?_some {d : Dict} {k : String} {e : DEntry} (h : d.get? k = some e) : e ∈ d ∧ e.key = k := by
  unfold Dict.get? at h
  exact ⟨List.mem_of_find?_eq_some h, by simpa using List.find?_some h⟩

theorem get?_of_key {d : Dict} {k : String} (h : ∃ x ∈ d, x.key = k) : ∃ e, d.get? k = some e := by
  obtain ⟨x, hx, hk⟩ := h
  unfold Dict.get?
  have : (d.find? (fun y => y.key == k)).isSome = true :=
    List.find?_isSome.mpr ⟨x, hx, by simp [hk]⟩
  exact Option.isSome_iff_exists.mp this

/-! ### `findIdentityBase` against `names` -/

/-- The module table holds modules only (what `Modules.add` guarantees). -/
def RegOK (r : Registry) : Prop := ∀ k m, r.getModule k = some m → m.isSub = false

theorem owner_of_module {r : Registry} {m : Mod} (h : m.isSub = false) : r.owner m = some m := by
  unfold Registry.owner Mod.belongsTo? Stmt.argOf?
  unfold Mod.isSub at h
  cases hb : m.stmt.one? "belongs-to" with
  | none => simp
  | some b => simp [hb] at h

theorem findModule_false_module {r : Registry} (hr : RegOK r) {i : Stmt} {m : Mod}
    (h : r.findModule false i = some m) : m.isSub = false := by
  unfold Registry.findModule at h
  simp only [Bool.false_eq_true, if_false] at h
  split at h
  · rename_i m' hm'
    cases h
    exact hr _ _ hm'
  · exact hr _ _ h

theorem splitColon_splitName (s : String) :
    (splitColon s).2 = (splitName s).2 ∧
    (((splitName s).1 = none ∧ (splitColon s).1 = "") ∨ (splitName s).1 = some (splitColon s).1) := by
  unfold splitColon splitName
  simp only
  split
  · exact ⟨rfl, Or.inr rfl⟩
  · exact ⟨rfl, Or.inl ⟨rfl, rfl⟩⟩

/-- `findIdentityBase` succeeds exactly when the base argument names a vertex (in the sense of the
specification) whose key is in the dictionary, and then returns the entry found under that key. -/
theorem findIdentityBase_ok (r : Registry) (hr : RegOK r) (dict : Dict) (root : Mod) (arg : String) (eb : DEntry) :
    findIdentityBase r dict root arg = .ok eb ↔
      ∃ v, names r root arg = some v ∧ dict.get? (Vtx.key v) = some eb := by
  obtain ⟨h2, h1⟩ := splitColon_splitName arg
  unfold findIdentityBase names moduleOfPrefix
  simp only
  rw [← h2]
  -- the two ways to end: a target module `t` and the lookup of `t.name:n`
  have fin : ∀ (t : Option Mod) (cls : String),
      (match t with
        | none => (Except.error (Err.at_ root.stmt cls) : Except Err DEntry)
        | some ow =>
          match dict.get? (ow.name ++ ":" ++ (splitColon arg).2) with
          | some e => .ok e
          | none => .error (Err.at_ root.stmt cls)) = .ok eb ↔
      ∃ v, t.map (fun target => (target.name, (splitColon arg).2)) = some v ∧ dict.get? (Vtx.key v) = some eb := by
    intro t cls
    cases t with
    | none => simp
    | some ow =>
      simp only [Option.map_some, Option.some.injEq, exists_eq_left', Vtx.key]
      cases dict.get? (ow.name ++ ":" ++ (splitColon arg).2) with
      | none => simp
      | some e => simp
  rcases h1 with ⟨hn, he⟩ | hs
  · -- no colon
    rw [hn, he]
    simp only [beq_self_eq_true, Bool.true_or, if_true]
    exact fin (r.owner root) _
  · rw [hs]
    simp only
    by_cases hc : ((splitColon arg).1 == "" || (splitColon arg).1 == root.getPrefix) = true
    · simp only [hc, if_true]
      exact fin (r.owner root) _
    · simp only [hc, if_false, Bool.false_eq_true]
      unfold Registry.findModuleByPrefix
      simp only [hc, if_false, Bool.false_eq_true]
      cases hi : root.imports.find? (fun i => i.argOf? "prefix" == some (splitColon arg).1) with
      | none => simp
      | some i =>
        simp only
        cases hf : r.findModule false i with
        | none => simp
        | some ext =>
          simp only
          rw [owner_of_module (findModule_false_module hr hf)]
          simp only
          exact fin (some ext) _

end Goyang.Lemmas.Identity
