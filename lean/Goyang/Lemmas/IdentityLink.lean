import Goyang.Lemmas.IdentityLoad
/-
Helper lemmas for C11, part 7: `ms.include` (model: `includeGo`, `linkAll`) never runs out of the
recursion budget, and when it reports no error the include statements of every part of the schema
are linked (`LinkOK`).
-/
namespace Goyang.Lemmas.Identity
open Goyang.Model Goyang.Model.Identity
open Goyang.Spec.Identity (Reach includedBy)

/-- Every include statement of `m` is linked. -/
def FullyLinked (lk : Link) (m : Mod) : Prop := ∀ i, i < m.includes.length → (m.seq, i) ∈ lk.linked

theorem filterMap_zipIdx_fst {α β : Type} (g : α → Option β) (l : List α) (k : Nat) :
    (l.zipIdx k).filterMap (fun si => g si.1) = l.filterMap g := by
  induction l generalizing k with
  | nil => rfl
  | cons a l ih => simp only [List.zipIdx_cons, List.filterMap_cons]; rw [ih]

theorem filterMap_congr' {α β : Type} {f g : α → Option β} : ∀ (l : List α), (∀ x ∈ l, f x = g x) →
    l.filterMap f = l.filterMap g := by
  intro l
  induction l with
  | nil => intro _; rfl
  | cons a l ih =>
    intro h
    simp only [List.filterMap_cons]
    rw [h a (List.mem_cons_self ..), ih (fun x hx => h x (List.mem_cons_of_mem _ hx))]

theorem succ_of_fullyLinked (r : Registry) (lk : Link) (m : Mod) (hm : r.byId m.seq = some m)
    (hf : FullyLinked lk m) : includeSucc r lk m.seq = includedBy r m.seq := by
  unfold includeSucc includedBy includeTargets
  simp only [hm]
  have : (m.includes.zipIdx.filterMap fun (si : Stmt × Nat) =>
      if (m.seq, si.2) ∈ lk.linked then r.findModule true si.1 else none) =
      m.includes.zipIdx.filterMap (fun si => r.findModule true si.1) := by
    apply filterMap_congr'
    intro si hsi
    have hlt : si.2 < m.includes.length := by
      have := List.snd_lt_of_mem_zipIdx hsi
      simpa using this
    simp [hf si.2 hlt]
  show List.map (fun x => x.seq) (m.includes.zipIdx.filterMap fun (si : Stmt × Nat) =>
      if (m.seq, si.2) ∈ lk.linked then r.findModule true si.1 else none) = _
  rw [this, filterMap_zipIdx_fst (fun s => r.findModule true s), List.map_filterMap]

/-- The state only grows. -/
def Mono (st st' : Link) : Prop :=
  (∀ x ∈ st.visited, x ∈ st'.visited) ∧ (∀ p ∈ st.linked, p ∈ st'.linked)

theorem Mono.refl (st : Link) : Mono st st := ⟨fun _ h => h, fun _ h => h⟩
theorem Mono.trans {a b c : Link} (h1 : Mono a b) (h2 : Mono b c) : Mono a c :=
  ⟨fun x hx => h2.1 x (h1.1 x hx), fun p hp => h2.2 p (h1.2 p hp)⟩

/-- Node `x` is finished: its includes are linked and what they denote has been visited. -/
def Done (r : Registry) (st : Link) (x : Nat) : Prop :=
  ∀ m, r.byId x = some m → FullyLinked st m ∧ ∀ y ∈ includedBy r x, y ∈ st.visited

theorem Done.mono {r : Registry} {st st' : Link} {x : Nat} (h : Done r st x) (hm : Mono st st') : Done r st' x :=
  fun m hb => ⟨fun i hi => hm.2 _ ((h m hb).1 i hi), fun y hy => hm.1 _ ((h m hb).2 y hy)⟩

/-- The body of the loop of `includeGo` over `linkItems m`. -/
def linkStep (r : Registry) (fuel : Nat) (m : Mod) (acc : Link × Option Err) (item : Bool × Nat × Stmt) :
    Option (Link × Option Err) :=
  match acc.2 with
  | some e => some (acc.1, some e)
  | none =>
    match r.findModule item.1 item.2.2 with
    | none => some (acc.1, some (Err.bare (if item.1 then "no-such-submodule" else "no-such-module")))
    | some im =>
      match includeGo r fuel im acc.1 with
      | none => none
      | some (st', some e) => some (st', some e)
      | some (st', none) =>
        some (if item.1 then { st' with linked := st'.linked ++ [(m.seq, item.2.1)] } else st', none)

theorem includeGo_succ (r : Registry) (fuel : Nat) (m : Mod) (st : Link) :
    includeGo r (fuel + 1) m st =
      if m.seq ∈ st.visited then some (st, none) else
      (linkItems m).foldlM (linkStep r fuel m) ({ st with visited := st.visited ++ [m.seq] }, none) := by
  rfl

theorem linkFold_err (r : Registry) (fuel : Nat) (m : Mod) (e : Err) :
    ∀ (its : List (Bool × Nat × Stmt)) (st : Link), its.foldlM (linkStep r fuel m) (st, some e) = some (st, some e) := by
  intro its
  induction its with
  | nil => intro st; rfl
  | cons it its ih => intro st; simp only [List.foldlM, linkStep]; exact ih st

def unvM (r : Registry) (st : Link) : Nat := unv (r.mods.map (·.seq)) st.visited

theorem unv_le {α : Type} [DecidableEq α] (U ids : List α) : unv U ids ≤ U.length := by
  induction U with
  | nil => simp [unv]
  | cons u us ih => simp only [unv, List.length_cons]; split <;> omega

/-- What one call of `includeGo` guarantees. -/
structure IncPost (r : Registry) (m : Mod) (st st' : Link) (e : Option Err) : Prop where
  mono : Mono st st'
  visited : m.seq ∈ st'.visited
  done : e = none → ∀ x ∈ st'.visited, x ∈ st.visited ∨ Done r st' x

theorem mem_linkItems_include {m : Mod} {i : Nat} (hi : i < m.includes.length) :
    (true, i, m.includes[i]) ∈ linkItems m := by
  unfold linkItems
  apply List.mem_append_left
  apply List.mem_map.mpr
  refine ⟨(m.includes[i], i), ?_, rfl⟩
  rw [List.mk_mem_zipIdx_iff_getElem?]
  simp [hi]

theorem includeGo_spec (r : Registry) : ∀ (fuel : Nat) (m : Mod) (st : Link), r.byId m.seq = some m →
    unvM r st < fuel → ∃ st' e, includeGo r fuel m st = some (st', e) ∧ IncPost r m st st' e := by
  intro fuel
  induction fuel with
  | zero => intro m st _ h; omega
  | succ fuel ih =>
    intro m st hm hf
    rw [includeGo_succ]
    by_cases hv : m.seq ∈ st.visited
    · simp only [hv, if_true]
      exact ⟨st, none, rfl, Mono.refl st, hv, fun _ x hx => Or.inl hx⟩
    · simp only [hv, if_false]
      -- the loop, over any suffix of the items
      have key : ∀ (its : List (Bool × Nat × Stmt)) (stA : Link), unvM r stA < fuel →
          ∃ stB eB, its.foldlM (linkStep r fuel m) (stA, none) = some (stB, eB) ∧ Mono stA stB ∧
            (eB = none → (∀ item ∈ its, ∃ im, r.findModule item.1 item.2.2 = some im ∧ im.seq ∈ stB.visited ∧
                (item.1 = true → (m.seq, item.2.1) ∈ stB.linked)) ∧
              ∀ x ∈ stB.visited, x ∈ stA.visited ∨ Done r stB x) := by
        intro its
        induction its with
        | nil =>
          intro stA _
          exact ⟨stA, none, rfl, Mono.refl stA, fun _ => ⟨by simp, fun x hx => Or.inl hx⟩⟩
        | cons it its ihits =>
          intro stA hfA
          simp only [List.foldlM]
          cases hfm : r.findModule it.1 it.2.2 with
          | none =>
            simp only [linkStep, hfm]
            refine ⟨stA, _, linkFold_err r fuel m _ its stA, Mono.refl stA, fun h => by cases h⟩
          | some im =>
            obtain ⟨id, hid⟩ := findModule_byId hfm
            obtain ⟨st1, e1, hcall, p1⟩ := ih im stA (byId_self hid) hfA
            cases e1 with
            | some e =>
              simp only [linkStep, hfm, hcall]
              exact ⟨st1, some e, linkFold_err r fuel m e its st1, p1.mono, fun h => by cases h⟩
            | none =>
              simp only [linkStep, hfm, hcall]
              generalize hst2 : (if it.1 = true then { st1 with linked := st1.linked ++ [(m.seq, it.2.1)] } else st1) = st2
              have hm12 : Mono st1 st2 := by
                rw [← hst2]
                split
                · exact ⟨fun _ h => h, fun p hp => List.mem_append_left _ hp⟩
                · exact Mono.refl st1
              have hvis2 : st2.visited = st1.visited := by
                rw [← hst2]; split <;> rfl
              have hf2 : unvM r st2 < fuel := by
                unfold unvM at hfA ⊢
                rw [hvis2]
                exact Nat.lt_of_le_of_lt (unv_mono _ p1.mono.1) hfA
              obtain ⟨stB, eB, hfold, hmB, hpost⟩ := ihits st2 hf2
              refine ⟨stB, eB, hfold, (p1.mono.trans hm12).trans hmB, ?_⟩
              intro heB
              obtain ⟨hitems, hdone⟩ := hpost heB
              refine ⟨?_, ?_⟩
              · intro item hitem
                rcases List.mem_cons.mp hitem with rfl | hitem
                · refine ⟨im, hfm, hmB.1 _ (hm12.1 _ p1.visited), ?_⟩
                  intro htrue
                  apply hmB.2
                  rw [← hst2]
                  simp [htrue]
                · exact hitems item hitem
              · intro x hx
                rcases hdone x hx with h | h
                · rw [hvis2] at h
                  rcases p1.done rfl x h with h' | h'
                  · exact Or.inl h'
                  · exact Or.inr ((h'.mono hm12).mono hmB)
                · exact Or.inr h
      have hmU : m.seq ∈ r.mods.map (·.seq) := List.mem_map.mpr ⟨m, byId_mem hm, rfl⟩
      have hf0 : unvM r { st with visited := st.visited ++ [m.seq] } < fuel := by
        unfold unvM at hf ⊢
        have := unv_lt (r.mods.map (·.seq)) hmU hv
        simp only
        omega
      obtain ⟨stB, eB, hfold, hmB, hpost⟩ := key (linkItems m) { st with visited := st.visited ++ [m.seq] } hf0
      have hm0 : Mono st { st with visited := st.visited ++ [m.seq] } :=
        ⟨fun x hx => List.mem_append_left _ hx, fun _ h => h⟩
      refine ⟨stB, eB, hfold, hm0.trans hmB, hmB.1 _ (by simp), ?_⟩
      intro heB x hx
      obtain ⟨hitems, hdone⟩ := hpost heB
      rcases hdone x hx with h | h
      · simp only [List.mem_append, List.mem_singleton] at h
        rcases h with h | rfl
        · exact Or.inl h
        · right
          intro m' hm'
          rw [hm] at hm'
          cases hm'
          constructor
          · intro i hi
            obtain ⟨_, _, _, hl⟩ := hitems _ (mem_linkItems_include hi)
            exact hl rfl
          · intro y hy
            unfold includedBy at hy
            simp only [hm] at hy
            obtain ⟨inc, hinc, hy'⟩ := List.mem_filterMap.mp hy
            obtain ⟨i, hi, rfl⟩ := List.getElem_of_mem hinc
            obtain ⟨im, him, hvis, _⟩ := hitems _ (mem_linkItems_include hi)
            simp only at him
            rw [him] at hy'
            simp only [Option.map_some, Option.some.injEq] at hy'
            exact hy' ▸ hvis
      · exact Or.inr h

/-! ### the loop of `process` over `ms.Modules` -/

def AllDone (r : Registry) (st : Link) : Prop := ∀ x ∈ st.visited, Done r st x

/-- The body of the loop of `linkAll`. -/
def linkTop (r : Registry) (acc : Link × List Err) (m : Mod) : Option (Link × List Err) :=
  match includeGo r (r.mods.length + 1) m acc.1 with
  | none => none
  | some (st, none) => some (st, acc.2)
  | some (st, some e) => some (st, acc.2 ++ [e])

theorem linkAll_eq (o : Oracle) (r : Registry) :
    linkAll o r = (modulesByFullName o r).foldlM (linkTop r) ({}, []) := rfl

theorem linkTop_fold (r : Registry) : ∀ (L : List Mod), (∀ md ∈ L, r.byId md.seq = some md) →
    ∀ acc : Link × List Err, ∃ res, L.foldlM (linkTop r) acc = some res ∧ Mono acc.1 res.1 ∧
      (res.2 = [] → acc.2 = [] ∧ (AllDone r acc.1 → AllDone r res.1) ∧ ∀ md ∈ L, md.seq ∈ res.1.visited) := by
  intro L
  induction L with
  | nil =>
    intro _ acc
    exact ⟨acc, rfl, Mono.refl _, fun h => ⟨h, fun h => h, by simp⟩⟩
  | cons md L ih =>
    intro hL acc
    have hfuel : unvM r acc.1 < r.mods.length + 1 := by
      unfold unvM
      have := unv_le (r.mods.map (·.seq)) acc.1.visited
      simp only [List.length_map] at this
      omega
    obtain ⟨st1, e1, hcall, p1⟩ := includeGo_spec r _ md acc.1 (hL md (List.mem_cons_self ..)) hfuel
    simp only [List.foldlM]
    cases e1 with
    | some e =>
      obtain ⟨res, hres, hmono, hpost⟩ := ih (fun x hx => hL x (List.mem_cons_of_mem _ hx)) (st1, acc.2 ++ [e])
      refine ⟨res, by simp only [linkTop, hcall]; exact hres, p1.mono.trans hmono, ?_⟩
      intro hnil
      have := (hpost hnil).1
      simp at this
    | none =>
      obtain ⟨res, hres, hmono, hpost⟩ := ih (fun x hx => hL x (List.mem_cons_of_mem _ hx)) (st1, acc.2)
      refine ⟨res, by simp only [linkTop, hcall]; exact hres, p1.mono.trans hmono, ?_⟩
      intro hnil
      obtain ⟨h1, h2, h3⟩ := hpost hnil
      refine ⟨h1, ?_, ?_⟩
      · intro hall
        apply h2
        intro x hx
        rcases p1.done rfl x hx with h | h
        · exact (hall x h).mono p1.mono
        · exact h
      · intro md' hmd'
        rcases List.mem_cons.mp hmd' with rfl | hmd'
        · exact hmono.1 _ p1.visited
        · exact h3 md' hmd'

theorem mem_modulesByFullName (o : Oracle) (ho : o.Valid) (r : Registry) (md : Mod) :
    md ∈ modulesByFullName o r ↔ md ∈ moduleEntries r := by
  unfold modulesByFullName
  exact ((sortStable_perm _ _).trans (ho _ siteLink (moduleEntries r))).mem_iff

theorem visited_closed {r : Registry} {lk : Link} (hall : AllDone r lk) {x s : Nat}
    (hr : Reach (includedBy r) x s) (hx : x ∈ lk.visited) : s ∈ lk.visited := by
  induction hr with
  | refl => exact hx
  | @step a b c hy _ ih =>
    apply ih
    cases hb : r.byId a with
    | none => simp [includedBy, hb] at hy
    | some m => exact ((hall a hx) m hb).2 _ hy

/-- `ms.include` over all modules, for every map order: it answers (the recursion budget is never
exhausted), and when it reports no error, the include statements of every part of the schema are
linked. -/
theorem linkAll_spec (o : Oracle) (ho : o.Valid) (r : Registry) :
    ∃ lk errs, linkAll o r = some (lk, errs) ∧ (errs = [] → LinkOK r lk) := by
  have hL : ∀ md ∈ modulesByFullName o r, r.byId md.seq = some md := by
    intro md hmd
    obtain ⟨id, hid⟩ := moduleEntries_byId ((mem_modulesByFullName o ho r md).mp hmd)
    exact byId_self hid
  obtain ⟨res, hres, _, hpost⟩ := linkTop_fold r (modulesByFullName o r) hL ({}, [])
  refine ⟨res.1, res.2, by rw [linkAll_eq, hres], ?_⟩
  intro hnil
  obtain ⟨_, hall, hvis⟩ := hpost hnil
  have hdone : AllDone r res.1 := hall (by intro x hx; cases hx)
  rintro s ⟨md, hmd, hreach⟩
  have hs : s ∈ res.1.visited :=
    visited_closed hdone hreach (hvis md ((mem_modulesByFullName o ho r md).mpr hmd))
  cases hb : r.byId s with
  | none => simp [includeSucc, includedBy, hb]
  | some m =>
    have := succ_of_fullyLinked r res.1 m (byId_self hb) ((hdone s hs) m hb).1
    rw [byId_seq hb] at this
    exact this

end Goyang.Lemmas.Identity
