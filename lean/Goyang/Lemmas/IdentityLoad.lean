import Goyang.Lemmas.IdentitySpec
/-
Helper lemmas for C11, part 6: a registry built by `Modules.add` (model: `Registry.add`, `loadAll`)
keeps modules, and only modules, in its module table.
-/
namespace Goyang.Lemmas.Identity
open Goyang.Model Goyang.Model.Identity

theorem keymap_bind_mem {km : KeyMap} {k : String} {v : Nat} {kv : String × Nat} (h : kv ∈ km.bind k v) :
    kv ∈ km ∨ kv = (k, v) := by
  unfold KeyMap.bind at h
  split at h
  · obtain ⟨y, hy, hxy⟩ := List.mem_map.mp h
    split at hxy
    · exact Or.inr hxy.symm
    · exact Or.inl (hxy ▸ hy)
  · rcases List.mem_append.mp h with h | h
    · exact Or.inl h
    · exact Or.inr (by simpa using h)

/-- Invariant of a registry built by `add`. -/
structure RInv (r : Registry) : Prop where
  seqs : ∀ m ∈ r.mods, m.seq < r.mods.length
  modules : ∀ kv ∈ r.modules, ∃ m, r.byId kv.2 = some m ∧ m.isSub = false

theorem rinv_empty : RInv {} := ⟨by simp, by simp⟩

/-- What a successful `add` does to the module list and the module table. -/
theorem add_shape {r r' : Registry} {s : Stmt} (h : r.add s = .ok r') :
    r'.mods = r.mods ++ [{ seq := r.mods.length, stmt := s }] ∧
    ∀ kv ∈ r'.modules, kv ∈ r.modules ∨
      (kv.2 = r.mods.length ∧ ({ seq := r.mods.length, stmt := s } : Mod).isSub = false) := by
  have h := (Registry.add_ok h).2
  unfold Registry.addChecked at h
  simp only at h
  generalize hm : ({ seq := r.mods.length, stmt := s } : Mod) = m at h ⊢
  have hseq : m.seq = r.mods.length := by rw [← hm]
  have one : ∀ (km : KeyMap) (k : String) kv, kv ∈ km.bind k r.mods.length → kv ∈ km ∨ kv.2 = r.mods.length := by
    intro km k kv hkv
    rcases keymap_bind_mem hkv with h1 | h1
    · exact Or.inl h1
    · exact Or.inr (by rw [h1])
  cases hsub : m.isSub with
  | true =>
    simp only [hsub, Registry.kmOf, Registry.umOf, Registry.withKm, Registry.withUm, if_true] at h
    repeat' split at h
    all_goals first
      | (cases h; done)
      | (simp only [Except.ok.injEq] at h; subst h; exact ⟨rfl, fun kv hkv => Or.inl hkv⟩)
  | false =>
    simp only [hsub, Registry.kmOf, Registry.umOf, Registry.withKm, Registry.withUm, Bool.false_eq_true, if_false] at h
    repeat' split at h
    all_goals first
      | (cases h; done)
      | (simp only [Except.ok.injEq] at h; subst h
         refine ⟨rfl, fun kv hkv => ?_⟩
         simp only at hkv
         first
           | exact Or.inl hkv
           | (rcases one _ _ kv hkv with h1 | h1
              · first
                  | exact Or.inl h1
                  | (rcases one _ _ kv h1 with h2 | h2
                     · exact Or.inl h2
                     · exact Or.inr ⟨h2, rfl⟩)
              · exact Or.inr ⟨h1, rfl⟩))

theorem rinv_add {r r' : Registry} (hr : RInv r) (s : Stmt) (h : r.add s = .ok r') : RInv r' := by
  obtain ⟨hmods, hmodules⟩ := add_shape h
  generalize hm : ({ seq := r.mods.length, stmt := s } : Mod) = m at hmods hmodules
  have hseq : m.seq = r.mods.length := by rw [← hm]
  have hold : ∀ id x, r.byId id = some x → r'.byId id = some x := by
    intro id x hx
    unfold Registry.byId at hx ⊢
    rw [hmods, List.find?_append, hx]; rfl
  have hnew : r'.byId r.mods.length = some m := by
    unfold Registry.byId
    rw [hmods, List.find?_append]
    have : r.mods.find? (·.seq == r.mods.length) = none := by
      apply List.find?_eq_none.mpr
      intro x hx
      have := hr.seqs x hx
      simp only [beq_iff_eq]
      omega
    rw [this]
    simp [hseq]
  constructor
  · intro x hx
    rw [hmods] at hx ⊢
    simp only [List.length_append, List.length_cons, List.length_nil]
    rcases List.mem_append.mp hx with hx | hx
    · have := hr.seqs x hx; omega
    · simp only [List.mem_singleton] at hx; subst hx; omega
  · intro kv hkv
    rcases hmodules kv hkv with h1 | ⟨h1, h2⟩
    · obtain ⟨x, hx, hxs⟩ := hr.modules kv h1
      exact ⟨x, hold _ _ hx, hxs⟩
    · exact ⟨m, h1 ▸ hnew, h2⟩

theorem rinv_foldlM {α : Type} (step : Registry → α → Except Registry.AddErr Registry)
    (hstep : ∀ r a r', RInv r → step r a = .ok r' → RInv r') :
    ∀ (l : List α) (r r' : Registry), RInv r → l.foldlM step r = .ok r' → RInv r' := by
  intro l
  induction l with
  | nil => intro r r' hr h; simp only [List.foldlM, pure, Except.pure, Except.ok.injEq] at h; exact h ▸ hr
  | cons a l ih =>
    intro r r' hr h
    simp only [List.foldlM, bind, Except.bind] at h
    split at h
    · cases h
    · rename_i r1 h1
      exact ih r1 r' (hstep r a r1 hr h1) h

/-- Whatever texts were loaded: the module table holds modules only. -/
theorem regOK_of_loadAll {files : List SrcFile} {r : Registry} (h : loadAll files = .ok r) : RegOK r := by
  have hinv : RInv r := by
    unfold loadAll at h
    refine rinv_foldlM _ ?_ files {} r rinv_empty h
    intro r0 f r1 hr0 hf
    exact rinv_foldlM _ (fun ra s rb hra hs => rinv_add hra s hs) f.stmts r0 r1 hr0 hf
  apply regOK_of_entries
  intro kv hkv m hm
  obtain ⟨x, hx, hxs⟩ := hinv.modules kv hkv
  rw [hx] at hm
  cases hm
  exact hxs

end Goyang.Lemmas.Identity
