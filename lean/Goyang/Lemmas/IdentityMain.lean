import Goyang.Lemmas.IdentityGraph
/-
Helper lemmas for C11, part 4: the direct-children loop and the whole of `resolveIdentities`,
still in terms of the model's own edge relation `MEdge`.
-/
namespace Goyang.Lemmas.Identity
open Goyang.Model Goyang.Model.Identity
open Goyang.Spec.Identity (Reach)

/-- Edge as the model sees it: dictionary entry `i` has a base statement that `findIdentityBase`
resolves to dictionary entry `b`. -/
def MEdge (r : Registry) (dict : Dict) (b i : Vtx) : Prop :=
  ∃ e ∈ dict, e.vtx = i ∧ ∃ eb, Except.ok eb ∈ resolvedBases r dict e ∧ eb.vtx = b

/-- The errors of the base statements of one entry, in source order. -/
def baseErrs (r : Registry) (dict : Dict) (e : DEntry) : List Err :=
  (resolvedBases r dict e).filterMap fun rb => match rb with | .error x => some x | .ok _ => none

/-- One base statement in the direct-children loop. -/
def directStep (e : DEntry) (acc : (Vtx → List Vtx) × List Err) (rb : Except Err DEntry) :
    (Vtx → List Vtx) × List Err :=
  match rb with
  | .error err => (acc.1, acc.2 ++ [err])
  | .ok b => (addDirect acc.1 b.vtx e.vtx, acc.2)

theorem directOne_eq (r : Registry) (dict : Dict) (acc : (Vtx → List Vtx) × List Err) (e : DEntry) :
    directOne r dict acc e = (resolvedBases r dict e).foldl (directStep e) acc := rfl

structure StepPost (e : DEntry) (rbs : List (Except Err DEntry)) (acc res : (Vtx → List Vtx) × List Err) : Prop where
  mono : ∀ x j, j ∈ acc.1 x → j ∈ res.1 x
  added : ∀ eb, Except.ok eb ∈ rbs → e.vtx ∈ res.1 eb.vtx
  only : ∀ x j, j ∈ res.1 x → j ∈ acc.1 x ∨ (j = e.vtx ∧ ∃ eb, Except.ok eb ∈ rbs ∧ eb.vtx = x)
  errs : res.2 = acc.2 ++ rbs.filterMap fun rb => match rb with | .error x => some x | .ok _ => none

theorem directFold_post (e : DEntry) : ∀ (rbs : List (Except Err DEntry)) (acc : (Vtx → List Vtx) × List Err),
    StepPost e rbs acc (rbs.foldl (directStep e) acc) := by
  intro rbs
  induction rbs with
  | nil => intro acc; exact ⟨fun _ _ h => h, by simp, fun _ _ h => Or.inl h, by simp⟩
  | cons rb rbs ih =>
    intro acc
    have p := ih (directStep e acc rb)
    simp only [List.foldl_cons]
    cases rb with
    | error err =>
      simp only [directStep] at p ⊢
      refine ⟨p.mono, ?_, ?_, ?_⟩
      · intro eb heb
        rcases List.mem_cons.mp heb with h | h
        · cases h
        · exact p.added eb h
      · intro x j hj
        rcases p.only x j hj with h | ⟨h1, eb, h2, h3⟩
        · exact Or.inl h
        · exact Or.inr ⟨h1, eb, List.mem_cons_of_mem _ h2, h3⟩
      · rw [p.errs]; simp
    | ok b =>
      simp only [directStep] at p ⊢
      refine ⟨?_, ?_, ?_, ?_⟩
      · intro x j hj
        apply p.mono
        unfold addDirect
        by_cases hx : x = b.vtx
        · simp [hx]; exact Or.inl (hx ▸ hj)
        · simp [hx]; exact hj
      · intro eb heb
        rcases List.mem_cons.mp heb with h | h
        · cases h
          apply p.mono
          simp [addDirect]
        · exact p.added eb h
      · intro x j hj
        rcases p.only x j hj with h | ⟨h1, eb, h2, h3⟩
        · unfold addDirect at h
          by_cases hx : x = b.vtx
          · simp only [hx, if_true, List.mem_append, List.mem_singleton] at h
            rcases h with h | h
            · exact Or.inl (hx ▸ h)
            · exact Or.inr ⟨h, b, List.mem_cons_self .., hx.symm⟩
          · simp only [hx, if_false] at h
            exact Or.inl h
        · exact Or.inr ⟨h1, eb, List.mem_cons_of_mem _ h2, h3⟩
      · rw [p.errs]; simp

structure DirectPost (r : Registry) (dict : Dict) (order : List DEntry)
    (acc res : (Vtx → List Vtx) × List Err) : Prop where
  mono : ∀ x j, j ∈ acc.1 x → j ∈ res.1 x
  added : ∀ e ∈ order, ∀ eb, Except.ok eb ∈ resolvedBases r dict e → e.vtx ∈ res.1 eb.vtx
  only : ∀ x j, j ∈ res.1 x → j ∈ acc.1 x ∨
    ∃ e ∈ order, e.vtx = j ∧ ∃ eb, Except.ok eb ∈ resolvedBases r dict e ∧ eb.vtx = x
  errs : res.2 = acc.2 ++ order.flatMap (baseErrs r dict)

theorem directAll_post (r : Registry) (dict : Dict) : ∀ (order : List DEntry) (acc : (Vtx → List Vtx) × List Err),
    DirectPost r dict order acc (order.foldl (directOne r dict) acc) := by
  intro order
  induction order with
  | nil => intro acc; exact ⟨fun _ _ h => h, by simp, fun _ _ h => Or.inl h, by simp⟩
  | cons e order ih =>
    intro acc
    have p1 := directFold_post e (resolvedBases r dict e) acc
    rw [← directOne_eq] at p1
    have p2 := ih (directOne r dict acc e)
    simp only [List.foldl_cons]
    refine ⟨fun x j h => p2.mono x j (p1.mono x j h), ?_, ?_, ?_⟩
    · intro e' he' eb heb
      rcases List.mem_cons.mp he' with rfl | he'
      · exact p2.mono _ _ (p1.added eb heb)
      · exact p2.added e' he' eb heb
    · intro x j hj
      rcases p2.only x j hj with h | ⟨e', he', h1, h2⟩
      · rcases p1.only x j h with h | ⟨h1, eb, h2, h3⟩
        · exact Or.inl h
        · exact Or.inr ⟨e, List.mem_cons_self .., h1.symm, eb, h2, h3⟩
      · exact Or.inr ⟨e', List.mem_cons_of_mem _ he', h1, h2⟩
    · rw [p2.errs, p1.errs, List.append_assoc]
      simp [baseErrs]

/-- After the direct-children loop, for any visiting order that is a permutation of the
dictionary: started from lists that hold descendants only, every list holds all direct children
and descendants only. -/
theorem directAll_inv (r : Registry) (dict : Dict) (order : List DEntry) (hp : order.Perm dict)
    (vals0 : Vtx → List Vtx) (h0 : ∀ x j, j ∈ vals0 x → Below (MEdge r dict) x j) :
    Inv (MEdge r dict) (directAll r dict order vals0).1 ∧
    (directAll r dict order vals0).2 = order.flatMap (baseErrs r dict) ∧
    (∀ x, (∀ e ∈ dict, e.vtx ≠ x) → (directAll r dict order vals0).1 x = vals0 x ∨
      ∀ j, j ∈ (directAll r dict order vals0).1 x ↔ j ∈ vals0 x) := by
  have p := directAll_post r dict order (vals0, [])
  unfold directAll
  refine ⟨⟨?_, ?_⟩, by simpa using p.errs, ?_⟩
  · rintro x j ⟨e, he, hej, eb, heb, hebx⟩
    subst hej hebx
    exact p.added e (hp.mem_iff.mpr he) eb heb
  · intro x j hj
    rcases p.only x j hj with h | ⟨e, he, h1, eb, h2, h3⟩
    · exact h0 x j h
    · exact Below.direct ⟨e, hp.mem_iff.mp he, h1, eb, h2, h3⟩
  · intro x hx
    right
    intro j
    constructor
    · intro hj
      rcases p.only x j hj with h | ⟨e, _, _, eb, h2, h3⟩
      · exact h
      · -- a resolved base is a dictionary entry
        exfalso
        unfold resolvedBases at h2
        split at h2
        · obtain ⟨b, _, hb⟩ := List.mem_map.mp h2
          unfold findIdentityBase at hb
          simp only at hb
          have hmem : eb ∈ dict := by
            repeat' split at hb
            all_goals first
              | (cases hb; done)
              | (cases hb; exact (get?_some (by assumption)).1)
          exact hx eb hmem h3
        · cases h2
    · exact p.mono x j

/-- `resolveIdentities`, for every admissible oracle, in terms of the model's own edges. -/
theorem resolveIdentities_model (o : Oracle) (ho : o.Valid) (r : Registry) (lk : Link) (hlk : LinkOK r lk)
    (vals0 : Vtx → List Vtx)
    (h0 : ∀ dict errs, buildDict o r lk = some (dict, errs) → ∀ x j, j ∈ vals0 x → Below (MEdge r dict) x j) :
    ∃ res errs1, buildDict o r lk = some (res.dict, errs1) ∧ resolveIdentities o r lk vals0 = some res ∧
      Inv (MEdge r res.dict) res.vals ∧
      (∀ e ∈ res.dict, Closed (MEdge r res.dict) vtxLt res.vals e.vtx) ∧
      (∀ x, (∀ e ∈ res.dict, e.vtx ≠ x) → ∀ j, j ∈ res.vals x ↔ j ∈ vals0 x) ∧
      (res.errs = [] ↔ errs1 = [] ∧ (∀ e ∈ res.dict, baseErrs r res.dict e = []) ∧
        (∀ e ∈ res.dict, ¬ Below (MEdge r res.dict) e.vtx e.vtx)) := by
  obtain ⟨dict, errs1, hbd, hsound, _, _⟩ := buildDict_spec o ho r lk hlk
  have hp1 := ho DEntry siteDirect dict
  have hp2 := ho DEntry siteClose dict
  obtain ⟨hinv1, herr2, hout1⟩ := directAll_inv r dict (o.order siteDirect dict) hp1 vals0 (h0 dict errs1 hbd)
  have hU : ∀ x y, MEdge r dict x y → y ∈ dict.map (·.vtx) := by
    rintro x y ⟨e, he, hey, _⟩
    exact List.mem_map.mpr ⟨e, he, hey⟩
  obtain ⟨v2, cyc, hclose, hinv2, hcl2, hsame2, _, hcyc2⟩ :=
    closeAll_spec vtxLt_strictTotal (dict.map (·.vtx)) hU (closeFuel dict) (by simp [closeFuel])
      ((o.order siteClose dict).map (·.vtx)) (directAll r dict (o.order siteDirect dict) vals0).1 hinv1
  have hmem2 : ∀ v, v ∈ (o.order siteClose dict).map (·.vtx) ↔ ∃ e ∈ dict, e.vtx = v := by
    intro v
    simp only [List.mem_map]
    constructor
    · rintro ⟨e, he, h⟩; exact ⟨e, hp2.mem_iff.mp he, h⟩
    · rintro ⟨e, he, h⟩; exact ⟨e, hp2.mem_iff.mpr he, h⟩
  refine ⟨{ dict := dict, vals := v2, errs := errs1 ++ (directAll r dict (o.order siteDirect dict) vals0).2 ++
      cyc.filterMap fun v => (dict.get? v.key).map fun e => Err.at_ e.stmt "cycle" }, errs1, hbd, ?_, hinv2, ?_, ?_, ?_⟩
  · unfold resolveIdentities
    simp only [hbd]
    cases hda : directAll r dict (o.order siteDirect dict) vals0 with
    | mk v1 e2 =>
      rw [hda] at hclose
      simp only [hclose]
  · intro e he
    exact hcl2 e.vtx ((hmem2 _).mpr ⟨e, he, rfl⟩)
  · intro x hx j
    have hnot : x ∉ (o.order siteClose dict).map (·.vtx) := by
      intro hm
      obtain ⟨e, he, hev⟩ := (hmem2 x).mp hm
      exact hx e he hev
    show j ∈ v2 x ↔ j ∈ vals0 x
    rw [hsame2 x hnot]
    rcases hout1 x hx with h | h
    · rw [h]
    · exact h j
  · simp only [List.append_eq_nil_iff]
    rw [herr2]
    constructor
    · rintro ⟨⟨h1, h2⟩, h3⟩
      refine ⟨h1, ?_, ?_⟩
      · intro e he
        have := List.flatMap_eq_nil_iff.mp h2 e (hp1.mem_iff.mpr he)
        exact this
      · intro e he hb
        have hc : e.vtx ∈ cyc := (hcyc2 e.vtx).mpr ⟨(hmem2 _).mpr ⟨e, he, rfl⟩, hb⟩
        obtain ⟨m, ow, _, _, _, _, _, hkey⟩ := hsound e he
        obtain ⟨e', he'⟩ := get?_of_key (d := dict) (k := Vtx.key e.vtx) ⟨e, he, hkey⟩
        have := List.filterMap_eq_nil_iff.mp h3 e.vtx hc
        simp [he'] at this
    · rintro ⟨h1, h2, h3⟩
      refine ⟨⟨h1, ?_⟩, ?_⟩
      · apply List.flatMap_eq_nil_iff.mpr
        intro e he
        exact h2 e (hp1.mem_iff.mp he)
      · apply List.filterMap_eq_nil_iff.mpr
        intro v hv
        obtain ⟨hvo, hb⟩ := (hcyc2 v).mp hv
        obtain ⟨e, he, hev⟩ := (hmem2 v).mp hvo
        subst hev
        exact absurd hb (h3 e he)

end Goyang.Lemmas.Identity
