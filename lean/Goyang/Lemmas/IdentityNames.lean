import Goyang.Lemmas.IdentityOracle
/-
Helper lemmas for C11, part 9: hypothesis (b) "no module name contains a colon" follows for a
registry loaded from texts whose module and submodule names are YANG identifiers.
-/
namespace Goyang.Lemmas.Identity
open Goyang.Model Goyang.Model.Identity
open Goyang.Spec.Identity (isIdentifier identifierChar)

/-- The name of every module and submodule handed to `Modules.add` is a YANG identifier
(RFC 7950 §6.2).  goyang's parser and AST builder do not check this. -/
def IdentifierNames (files : List SrcFile) : Prop :=
  ∀ f ∈ files, ∀ s ∈ f.stmts, isIdentifier s.arg = true

theorem identifier_no_colon {s : String} (h : isIdentifier s = true) : ':' ∉ s.toList := by
  unfold isIdentifier at h
  split at h
  · cases h
  · rename_i c cs hs
    rw [hs]
    simp only [Bool.and_eq_true, List.all_eq_true] at h
    intro hm
    rcases List.mem_cons.mp hm with hc | hc
    · subst hc
      exact absurd h.1 (by decide)
    · exact absurd (h.2 _ hc) (by decide)

theorem foldlM_inv_mem {α : Type} (P : Registry → Prop) (step : Registry → α → Except Registry.AddErr Registry) :
    ∀ (l : List α), (∀ a ∈ l, ∀ r r', P r → step r a = .ok r' → P r') →
      ∀ r r', P r → l.foldlM step r = .ok r' → P r' := by
  intro l
  induction l with
  | nil => intro _ r r' hr h; simp only [List.foldlM, pure, Except.pure, Except.ok.injEq] at h; exact h ▸ hr
  | cons a l ih =>
    intro hstep r r' hr h
    simp only [List.foldlM, bind, Except.bind] at h
    split at h
    · cases h
    · rename_i r1 h1
      exact ih (fun b hb => hstep b (List.mem_cons_of_mem _ hb)) r1 r'
        (hstep a (List.mem_cons_self ..) r r1 hr h1) h

/-- Every loaded (sub)module is one of the statements that were handed over. -/
theorem loadAll_mods {files : List SrcFile} {r : Registry} (h : loadAll files = .ok r) :
    ∀ m ∈ r.mods, ∃ f ∈ files, m.stmt ∈ f.stmts := by
  unfold loadAll at h
  refine foldlM_inv_mem (fun r => ∀ m ∈ r.mods, ∃ f ∈ files, m.stmt ∈ f.stmts) _ files ?_ {} r
    (by intro m hm; cases hm) h
  intro f hf r0 r1 hr0 h01
  refine foldlM_inv_mem (fun r => ∀ m ∈ r.mods, ∃ f ∈ files, m.stmt ∈ f.stmts) _ f.stmts ?_ r0 r1 hr0 h01
  intro s hs ra rb hra hab m hm
  rw [(add_shape hab).1] at hm
  rcases List.mem_append.mp hm with hm | hm
  · exact hra m hm
  · simp only [List.mem_singleton] at hm
    subst hm
    exact ⟨f, hf, hs⟩

/-- Hypothesis (b), derived: identifier-named texts load into a registry without a colon in any
module or submodule name. -/
theorem noColon_of_identifierNames {files : List SrcFile} {r : Registry} (h : loadAll files = .ok r)
    (hid : IdentifierNames files) : ∀ m ∈ r.mods, ':' ∉ m.name.toList := by
  intro m hm
  obtain ⟨f, hf, hs⟩ := loadAll_mods h m hm
  exact identifier_no_colon (hid f hf _ hs)

end Goyang.Lemmas.Identity
