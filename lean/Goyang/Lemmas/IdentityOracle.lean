import Goyang.Lemmas.IdentityLink
/-
Helper lemmas for C11, part 8: independence of the map iteration order, without any hypothesis on
the schema.

* The keys of `ms.Modules` are distinct (`KeysDistinct`, an invariant of `Modules.add`), so
  `sort.Strings(keys)` has one possible result: the dictionary loop visits the modules in the same
  order under every oracle, and `buildDict` is the same function.
* The direct-children loop reports `order.flatMap baseErrs`, the closure loop reports a cycle for
  exactly the visited entries that lie below themselves, once each: under two oracles the error
  lists are permutations of each other.
-/
namespace Goyang.Lemmas.Identity
open Goyang.Model Goyang.Model.Identity
open Goyang.Spec.Identity (Reach)

/-! ### the module table has distinct keys -/

/-- The keys of `ms.Modules` are distinct (it is a Go map). -/
def KeysDistinct (r : Registry) : Prop := (r.modules.map (·.1)).Nodup

theorem keymap_bind_keys (km : KeyMap) (k : String) (v : Nat) (h : (km.map (·.1)).Nodup) :
    ((km.bind k v).map (·.1)).Nodup := by
  unfold KeyMap.bind
  split
  · have : (km.map fun kv => if (kv.1 == k) = true then (k, v) else kv).map (·.1) = km.map (·.1) := by
      rw [List.map_map]
      apply List.map_congr_left
      intro kv _
      simp only [Function.comp]
      split
      · rename_i hk; exact (beq_iff_eq.mp hk).symm
      · rfl
    rw [this]; exact h
  · rename_i hany
    rw [List.map_append, List.nodup_append]
    refine ⟨h, by simp, ?_⟩
    intro a ha b hb
    simp only [List.map_cons, List.map_nil, List.mem_singleton] at hb
    subst hb
    intro hab
    subst hab
    obtain ⟨kv, hkv, hk⟩ := List.mem_map.mp ha
    exact hany (List.any_eq_true.mpr ⟨kv, hkv, by simp [hk]⟩)

theorem keysDistinct_add {r r' : Registry} {s : Stmt} (hr : KeysDistinct r) (h : r.add s = .ok r') :
    KeysDistinct r' := by
  have h := (Registry.add_ok h).2
  unfold Registry.addChecked at h
  simp only at h
  generalize ({ seq := r.mods.length, stmt := s } : Mod) = m at h
  unfold KeysDistinct at hr ⊢
  cases hsub : m.isSub with
  | true =>
    simp only [hsub, Registry.kmOf, Registry.umOf, Registry.withKm, Registry.withUm, if_true] at h
    repeat' split at h
    all_goals first
      | (cases h; done)
      | (simp only [Except.ok.injEq] at h; subst h; exact hr)
  | false =>
    simp only [hsub, Registry.kmOf, Registry.umOf, Registry.withKm, Registry.withUm, Bool.false_eq_true, if_false] at h
    repeat' split at h
    all_goals first
      | (cases h; done)
      | (simp only [Except.ok.injEq] at h; subst h
         first
           | exact hr
           | exact keymap_bind_keys _ _ _ hr
           | exact keymap_bind_keys _ _ _ (keymap_bind_keys _ _ _ hr))

theorem keysDistinct_foldlM {α : Type} (step : Registry → α → Except Registry.AddErr Registry)
    (hstep : ∀ r a r', KeysDistinct r → step r a = .ok r' → KeysDistinct r') :
    ∀ (l : List α) (r r' : Registry), KeysDistinct r → l.foldlM step r = .ok r' → KeysDistinct r' := by
  intro l
  induction l with
  | nil => intro r r' hr h; simp only [List.foldlM, pure, Except.pure, Except.ok.injEq] at h; exact h ▸ hr
  | cons a l ih =>
    intro r r' hr h
    simp only [List.foldlM, bind, Except.bind] at h
    split at h
    · cases h
    · rename_i r1 h1
      exact ih r1 r' (hstep r a r1 hr h1) h

/-- Whatever texts were loaded: the module table has distinct keys. -/
theorem keysDistinct_of_loadAll {files : List SrcFile} {r : Registry} (h : loadAll files = .ok r) :
    KeysDistinct r := by
  unfold loadAll at h
  refine keysDistinct_foldlM _ ?_ files {} r (by simp [KeysDistinct]) h
  intro r0 f r1 hr0 hf
  exact keysDistinct_foldlM _ (fun ra s rb hra hs => keysDistinct_add hra hs) f.stmts r0 r1 hr0 hf

/-! ### sorting distinct keys has one result -/

theorem insertSorted_map {α β : Type} (f : α → β) (lt : β → β → Bool) (x : α) (l : List α) :
    (insertSorted (fun a b => lt (f a) (f b)) x l).map f = insertSorted lt (f x) (l.map f) := by
  induction l with
  | nil => rfl
  | cons y ys ih =>
    simp only [insertSorted, List.map_cons]
    split
    · rfl
    · simp only [List.map_cons, ih]

theorem foldl_insert_map {α β : Type} (f : α → β) (lt : β → β → Bool) : ∀ (l acc : List α),
    (l.foldl (fun acc x => insertSorted (fun a b => lt (f a) (f b)) x acc) acc).map f =
      (l.map f).foldl (fun acc x => insertSorted lt x acc) (acc.map f) := by
  intro l
  induction l with
  | nil => intro acc; rfl
  | cons x l ih =>
    intro acc
    simp only [List.foldl_cons, List.map_cons]
    rw [ih, insertSorted_map]

theorem sortStable_map {α β : Type} (f : α → β) (lt : β → β → Bool) (l : List α) :
    (sortStable (fun a b => lt (f a) (f b)) l).map f = sortStable lt (l.map f) := by
  unfold sortStable
  exact foldl_insert_map f lt l []

theorem eq_of_perm_of_map_eq {α β : Type} (f : α → β) : ∀ (l1 l2 : List α), l1.Perm l2 →
    (l1.map f).Nodup → l1.map f = l2.map f → l1 = l2 := by
  intro l1
  induction l1 with
  | nil => intro l2 hp _ _; exact hp.nil_eq
  | cons a t1 ih =>
    intro l2 hp hnd hmap
    cases l2 with
    | nil => cases hmap
    | cons b t2 =>
      simp only [List.map_cons, List.cons.injEq] at hmap
      have hb : b ∈ a :: t1 := hp.mem_iff.mpr (List.mem_cons_self ..)
      have hab : b = a := nodup_map_inj f (a :: t1) hnd b hb a (List.mem_cons_self ..) hmap.1.symm
      subst hab
      have hnd' : (t1.map f).Nodup := (List.nodup_cons.mp hnd).2
      rw [ih t2 (List.Perm.cons_inv hp) hnd' hmap.2]

/-- Go's `<` on strings, as a comparator. -/
def strLtB (a b : String) : Bool := decide (a < b)

theorem strLtB_strictTotal : StrictTotal strLtB := by
  constructor
  · intro a; simp [strLtB, String.lt_irrefl]
  · intro a b c hab hbc
    simp only [strLtB, decide_eq_true_eq] at *
    exact String.lt_trans hab hbc
  · intro a b hne
    simp only [strLtB, decide_eq_true_eq]
    exact str_lt_or_gt hne

/-- Sorting a table with distinct keys by key gives the same list whatever order it came in. -/
theorem sortByKey_unique {γ : Type} (l1 l2 : List (String × γ)) (hp : l1.Perm l2)
    (hnd : (l1.map (·.1)).Nodup) :
    sortStable (fun a b => decide (a.1 < b.1)) l1 = sortStable (fun a b => decide (a.1 < b.1)) l2 := by
  show sortStable (fun (a b : String × γ) => strLtB a.1 b.1) l1 = sortStable (fun (a b : String × γ) => strLtB a.1 b.1) l2
  have e1 := sortStable_map (fun (kv : String × γ) => kv.1) strLtB l1
  have e2 := sortStable_map (fun (kv : String × γ) => kv.1) strLtB l2
  have hnd2 : (l2.map (·.1)).Nodup := (hp.map _).nodup_iff.mp hnd
  have s1 := sortStable_sorted strLtB_strictTotal _ hnd
  have s2 := sortStable_sorted strLtB_strictTotal _ hnd2
  have hkeys : sortStable strLtB (l1.map (·.1)) = sortStable strLtB (l2.map (·.1)) := by
    apply sorted_unique strLtB_strictTotal s1 s2
    intro a
    rw [(sortStable_perm _ _).mem_iff, (sortStable_perm _ _).mem_iff]
    exact (hp.map _).mem_iff
  have hpp : (sortStable (fun (a b : String × γ) => strLtB a.1 b.1) l1).Perm
      (sortStable (fun (a b : String × γ) => strLtB a.1 b.1) l2) :=
    (sortStable_perm _ _).trans (hp.trans (sortStable_perm _ _).symm)
  refine eq_of_perm_of_map_eq (·.1) _ _ hpp ?_ ?_
  · rw [e1]
    exact (sortStable_perm _ _).nodup_iff.mpr hnd
  · rw [e1, e2]; exact hkeys

/-- `sort.Strings(keys)` has one possible result: the dictionary loop visits the same modules in
the same order under every admissible oracle. -/
theorem modulesByKey_indep (r : Registry) (hk : KeysDistinct r) (o1 o2 : Oracle) (h1 : o1.Valid) (h2 : o2.Valid) :
    modulesByKey o1 r = modulesByKey o2 r := by
  unfold modulesByKey
  have hp : (o1.order siteModules r.modules).Perm (o2.order siteModules r.modules) :=
    (h1 _ siteModules r.modules).trans (h2 _ siteModules r.modules).symm
  have hnd : ((o1.order siteModules r.modules).map (·.1)).Nodup :=
    ((h1 _ siteModules r.modules).map _).nodup_iff.mpr hk
  rw [sortByKey_unique _ _ hp hnd]

theorem buildDict_indep (r : Registry) (lk : Link) (hk : KeysDistinct r) (o1 o2 : Oracle)
    (h1 : o1.Valid) (h2 : o2.Valid) : buildDict o1 r lk = buildDict o2 r lk := by
  rw [buildDict_eq, buildDict_eq, modulesByKey_indep r hk o1 o2 h1 h2]

/-! ### the dictionary loop always answers -/

theorem dictStep_some (r : Registry) (lk : Link) (md : Mod) (hmd : md ∈ moduleEntries r)
    (acc : Dict × List Err) : ∃ res, dictStep r lk acc md = some res := by
  obtain ⟨id, hid⟩ := moduleEntries_byId hmd
  have hU : ∀ x ∈ r.mods.map (·.seq), ∀ y ∈ includeSucc r lk x, y ∈ r.mods.map (·.seq) :=
    fun x _ y hy => includeSucc_mem r lk x y hy
  obtain ⟨cl, hcl, _, _⟩ := walk_nil (includeSucc r lk) (r.mods.map (·.seq)) hU (r.mods.length + 1) md.seq
    (List.mem_map.mpr ⟨md, byId_mem hid, rfl⟩) (by simp)
  exact ⟨cl.foldl (regSeq r) acc, by simp [dictStep, hcl]⟩

theorem dictFold_some (r : Registry) (lk : Link) : ∀ (L : List Mod), (∀ md ∈ L, md ∈ moduleEntries r) →
    ∀ acc, ∃ res, L.foldlM (dictStep r lk) acc = some res := by
  intro L
  induction L with
  | nil => intro _ acc; exact ⟨acc, rfl⟩
  | cons md L ih =>
    intro hL acc
    obtain ⟨r1, h1⟩ := dictStep_some r lk md (hL md (List.mem_cons_self ..)) acc
    obtain ⟨r2, h2⟩ := ih (fun x hx => hL x (List.mem_cons_of_mem _ hx)) r1
    exact ⟨r2, by simp [List.foldlM, h1, h2]⟩

/-- The first loop of `resolveIdentities` never exhausts the recursion budget, whatever the links. -/
theorem buildDict_some (o : Oracle) (ho : o.Valid) (r : Registry) (lk : Link) :
    ∃ dict errs, buildDict o r lk = some (dict, errs) := by
  obtain ⟨res, hres⟩ := dictFold_some r lk (modulesByKey o r)
    (fun md hmd => (mem_modulesByKey o ho r md).mp hmd) ([], [])
  exact ⟨res.1, res.2, by rw [buildDict_eq, hres]⟩

/-! ### the cycle reports are a filter of the visiting order -/

theorem closeAll_cyc {α : Type} [DecidableEq α] {E : α → α → Prop} {lt : α → α → Bool} (hlt : StrictTotal lt)
    (U : List α) (hU : ∀ x y, E x y → y ∈ U) (fuel : Nat) (hf : U.length < fuel)
    (p : α → Bool) (hp : ∀ i, p i = true ↔ Below E i i) :
    ∀ (order : List α) (vals : α → List α), Inv E vals → ∀ v cyc,
      closeAll lt fuel order vals = some (v, cyc) → cyc = order.filter p := by
  intro order
  induction order with
  | nil =>
    intro vals _ v cyc h
    simp only [closeAll, Option.some.injEq, Prod.mk.injEq] at h
    rw [← h.2]; rfl
  | cons i rest ih =>
    intro vals hinv v cyc h
    obtain ⟨v1, c1, h1, hinv1, _, _, hcyc1⟩ := closeOne_spec hlt U hU fuel hf vals hinv i
    unfold closeAll at h
    simp only [h1] at h
    cases h2 : closeAll lt fuel rest v1 with
    | none => simp [h2] at h
    | some vc =>
      obtain ⟨v2, c2⟩ := vc
      simp only [h2, Option.some.injEq, Prod.mk.injEq] at h
      have hc2 := ih v1 hinv1 v2 c2 h2
      rw [← h.2, hc2, List.filter_cons]
      by_cases hc : c1 = true
      · have : p i = true := (hp i).mpr (hcyc1.mp hc)
        simp [hc, this]
      · have : ¬ p i = true := fun hpi => hc (hcyc1.mpr ((hp i).mp hpi))
        simp [hc, this]

/-! ### `resolveIdentities` with its error list spelled out -/

/-- The error of a cycle through vertex `v`: positioned at the statement the dictionary holds
under `v`'s key. -/
def cycleErr (dict : Dict) (v : Vtx) : Option Err :=
  (dict.get? v.key).map fun e => Err.at_ e.stmt "cycle"

/-- `resolveIdentities` for one admissible oracle, no hypothesis on registry or links: it answers;
every dictionary entry ends with its final list (exactly what lies below it along the model's own
edges, strictly ascending), everything else keeps the empty list; the errors are those of the
dictionary loop, then the failing base statements in the order the entries are visited, then one
cycle report for every visited entry that lies below itself. -/
theorem resolveIdentities_full (o : Oracle) (ho : o.Valid) (r : Registry) (lk : Link)
    (p : Dict → Vtx → Bool) (hp : ∀ dict i, p dict i = true ↔ Below (MEdge r dict) i i) :
    ∃ res errs1, buildDict o r lk = some (res.dict, errs1) ∧
      resolveIdentities o r lk (fun _ => []) = some res ∧
      (∀ e ∈ res.dict, Closed (MEdge r res.dict) vtxLt res.vals e.vtx) ∧
      (∀ x, (∀ e ∈ res.dict, e.vtx ≠ x) → res.vals x = []) ∧
      res.errs = errs1 ++ (o.order siteDirect res.dict).flatMap (baseErrs r res.dict) ++
        (((o.order siteClose res.dict).map (·.vtx)).filter (p res.dict)).filterMap (cycleErr res.dict) := by
  obtain ⟨dict, errs1, hbd⟩ := buildDict_some o ho r lk
  have hp1 := ho DEntry siteDirect dict
  have hp2 := ho DEntry siteClose dict
  obtain ⟨hinv1, herr2, hout1⟩ := directAll_inv r dict (o.order siteDirect dict) hp1 (fun _ => [])
    (by intro _ _ h; cases h)
  have hU : ∀ x y, MEdge r dict x y → y ∈ dict.map (·.vtx) := by
    rintro x y ⟨e, he, hey, _⟩
    exact List.mem_map.mpr ⟨e, he, hey⟩
  obtain ⟨v2, cyc, hclose, _, hcl2, hsame2, _, _⟩ :=
    closeAll_spec vtxLt_strictTotal (dict.map (·.vtx)) hU (closeFuel dict) (by simp [closeFuel])
      ((o.order siteClose dict).map (·.vtx)) (directAll r dict (o.order siteDirect dict) (fun _ => [])).1 hinv1
  have hcyc := closeAll_cyc vtxLt_strictTotal (dict.map (·.vtx)) hU (closeFuel dict) (by simp [closeFuel])
    (p dict) (hp dict) _ _ hinv1 v2 cyc hclose
  have hmem2 : ∀ v, v ∈ (o.order siteClose dict).map (·.vtx) ↔ ∃ e ∈ dict, e.vtx = v := by
    intro v
    simp only [List.mem_map]
    constructor
    · rintro ⟨e, he, h⟩; exact ⟨e, hp2.mem_iff.mp he, h⟩
    · rintro ⟨e, he, h⟩; exact ⟨e, hp2.mem_iff.mpr he, h⟩
  refine ⟨{ dict := dict, vals := v2, errs := errs1 ++ (directAll r dict (o.order siteDirect dict) (fun _ => [])).2 ++
      cyc.filterMap fun v => (dict.get? v.key).map fun e => Err.at_ e.stmt "cycle" }, errs1, hbd, ?_, ?_, ?_, ?_⟩
  · unfold resolveIdentities
    simp only [hbd]
    cases hda : directAll r dict (o.order siteDirect dict) (fun _ => []) with
    | mk v1 e2 =>
      rw [hda] at hclose
      simp only [hclose]
  · intro e he
    exact hcl2 e.vtx ((hmem2 _).mpr ⟨e, he, rfl⟩)
  · intro x hx
    have hnot : x ∉ (o.order siteClose dict).map (·.vtx) := by
      intro hm
      obtain ⟨e, he, hev⟩ := (hmem2 x).mp hm
      exact hx e he hev
    show v2 x = []
    rw [hsame2 x hnot]
    rcases hout1 x hx with h | h
    · rw [h]
    · apply List.eq_nil_iff_forall_not_mem.mpr
      intro j hj
      have := (h j).mp hj
      cases this
  · show _ ++ _ ++ _ = _
    rw [herr2, hcyc]
    rfl

/-- Two admissible oracles on a registry whose module table has distinct keys: same dictionary,
same lists for everybody, and the error lists are permutations of each other. -/
theorem resolve_two_oracles (r : Registry) (lk : Link) (hk : KeysDistinct r) (o1 o2 : Oracle)
    (h1 : o1.Valid) (h2 : o2.Valid) :
    ∃ res1 res2, resolveIdentities o1 r lk (fun _ => []) = some res1 ∧
      resolveIdentities o2 r lk (fun _ => []) = some res2 ∧
      res1.dict = res2.dict ∧ res1.vals = res2.vals ∧ res1.errs.Perm res2.errs := by
  classical
  let p : Dict → Vtx → Bool := fun dict i => decide (Below (MEdge r dict) i i)
  have hp : ∀ dict i, p dict i = true ↔ Below (MEdge r dict) i i := fun dict i => by simp [p]
  obtain ⟨res1, e1, hb1, hr1, hc1, ho1, he1⟩ := resolveIdentities_full o1 h1 r lk p hp
  obtain ⟨res2, e2, hb2, hr2, hc2, ho2, he2⟩ := resolveIdentities_full o2 h2 r lk p hp
  have hbd := buildDict_indep r lk hk o1 o2 h1 h2
  rw [hb1, hb2] at hbd
  simp only [Option.some.injEq, Prod.mk.injEq] at hbd
  obtain ⟨hd, hee⟩ := hbd
  refine ⟨res1, res2, hr1, hr2, hd, ?_, ?_⟩
  · funext x
    by_cases hx : ∃ e ∈ res1.dict, e.vtx = x
    · obtain ⟨e, he, rfl⟩ := hx
      have c1 := hc1 e he
      have c2 := hc2 e (hd ▸ he)
      rw [← hd] at c2
      exact closed_unique vtxLt_strictTotal c1 c2
    · have hx1 : ∀ e ∈ res1.dict, e.vtx ≠ x := fun e he hev => hx ⟨e, he, hev⟩
      rw [ho1 x hx1, ho2 x (hd ▸ hx1)]
  · rw [he1, he2, ← hd, ← hee]
    have hpd : (o1.order siteDirect res1.dict).Perm (o2.order siteDirect res1.dict) :=
      (h1 _ siteDirect res1.dict).trans (h2 _ siteDirect res1.dict).symm
    have hpc : (o1.order siteClose res1.dict).Perm (o2.order siteClose res1.dict) :=
      (h1 _ siteClose res1.dict).trans (h2 _ siteClose res1.dict).symm
    refine List.Perm.append (List.Perm.append (List.Perm.refl _) ?_) ?_
    · exact hpd.flatMap_right _
    · exact ((hpc.map _).filter _).filterMap _

end Goyang.Lemmas.Identity
