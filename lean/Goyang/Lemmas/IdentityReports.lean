import Goyang.Lemmas.IdentitySurvEq
import Goyang.Spec.IdentityReport
/-
Helper lemmas for C11, part 14: WHICH errors `resolveIdentities` reports, defect by defect.

* `findIdentityBase_error`: a failing base lookup is an error of class identity-base-local /
  identity-base-remote / identity-prefix at the (sub)module statement of the text that writes it.
* `buildDict_errs_cls`: the dictionary loop only reports absent owners.
* `resolveIdentities_reports`: over the surviving statements — one cycle error at the identity
  statement of EVERY vertex derived from itself, one undefined-base error at the writing text for
  every base statement naming no surviving vertex; and conversely every cycle error sits at the
  statement of a vertex derived from itself, every undefined-base error at the text of a base
  statement that names no vertex.
-/
namespace Goyang.Lemmas.Identity
open Goyang.Model Goyang.Model.Identity
open Goyang.Spec.Identity (Reach names parts graph Graph Derives survivorGraph registrations survivors
  undefinedBaseClasses undefinedBases derivedDirectly derived derivedTable cycleOf cycleReported unreportedCycle
  unreportedBase judgeReports cycleClass locatedAt closure Verdict)

/-- A failing `findIdentityBase` reports one of the three undefined-base classes at `Source(root)`
(the "crash" branch is dead: imports resolve in the module table, which holds modules only). -/
theorem findIdentityBase_error (r : Registry) (hr : RegOK r) (dict : Dict) (root : Mod) (arg : String) (err : Err)
    (h : findIdentityBase r dict root arg = .error err) :
    ∃ c ∈ undefinedBaseClasses, err = Err.at_ root.stmt c := by
  unfold findIdentityBase at h
  simp only at h
  split at h
  · split at h
    · cases h; exact ⟨_, by simp [undefinedBaseClasses], rfl⟩
    · split at h
      · cases h
      · cases h; exact ⟨_, by simp [undefinedBaseClasses], rfl⟩
  · rename_i hc
    split at h
    · cases h; exact ⟨_, by simp [undefinedBaseClasses], rfl⟩
    · rename_i ext hfp
      have hmod : ext.isSub = false := by
        unfold Registry.findModuleByPrefix at hfp
        rw [if_neg hc] at hfp
        split at hfp
        · exact findModule_false_module hr hfp
        · cases hfp
      rw [owner_of_module hmod] at h
      simp only at h
      split at h
      · cases h
      · cases h; exact ⟨_, by simp [undefinedBaseClasses], rfl⟩

/-! ### the dictionary loop reports absent owners only -/

def LinkCls (e : Err) : Prop := e.cls = "no-such-module" ∨ e.cls = "crash"

theorem registerMod_cls (r : Registry) (m : Mod) (acc : Dict × List Err) (h : ∀ e ∈ acc.2, LinkCls e) :
    ∀ e ∈ (registerMod r m acc).2, LinkCls e := by
  unfold registerMod
  split
  · split
    · intro e he
      simp only [List.mem_append, List.mem_singleton] at he
      rcases he with he | rfl
      · exact h e he
      · exact Or.inl rfl
    · intro e he
      simp only [List.mem_append, List.mem_singleton] at he
      rcases he with he | rfl
      · exact h e he
      · exact Or.inr rfl
  · exact h

theorem regFold_cls (r : Registry) : ∀ (cl : List Nat) (acc : Dict × List Err), (∀ e ∈ acc.2, LinkCls e) →
    ∀ e ∈ (cl.foldl (regSeq r) acc).2, LinkCls e := by
  intro cl
  induction cl with
  | nil => intro acc h; exact h
  | cons s cl ih =>
    intro acc h
    rw [List.foldl_cons]
    apply ih
    unfold regSeq
    split
    · exact registerMod_cls r _ acc h
    · exact h

theorem dictFold_cls (r : Registry) (lk : Link) : ∀ (L : List Mod) (acc res : Dict × List Err),
    L.foldlM (dictStep r lk) acc = some res → (∀ e ∈ acc.2, LinkCls e) → ∀ e ∈ res.2, LinkCls e := by
  intro L
  induction L with
  | nil =>
    intro acc res h hacc
    simp only [List.foldlM_nil, Option.pure_def, Option.some.injEq] at h
    rw [← h]; exact hacc
  | cons md L ih =>
    intro acc res h hacc
    rw [List.foldlM_cons] at h
    cases hs : dictStep r lk acc md with
    | none => rw [hs] at h; cases h
    | some acc' =>
      rw [hs] at h
      refine ih acc' res h ?_
      unfold dictStep at hs
      split at hs
      · cases hs
      · cases hs
        exact regFold_cls r _ acc hacc

theorem buildDict_errs_cls {o : Oracle} {r : Registry} {lk : Link} {dict : Dict} {errs : List Err}
    (h : buildDict o r lk = some (dict, errs)) : ∀ e ∈ errs, LinkCls e := by
  rw [buildDict_eq] at h
  exact dictFold_cls r lk _ _ _ h (by intro _ h; cases h)

/-! ### which errors, defect by defect -/

/-- `resolveIdentities` against the surviving statements, error by error. -/
theorem resolveIdentities_reports (o : Oracle) (ho : o.Valid) (r : Registry) (lk : Link) (hlk : LinkOK r lk)
    (hreg : RegOK r) (hk : KeysDistinct r) (hnc : ∀ m ∈ r.mods, ':' ∉ m.name.toList)
    (G : Graph) (hG : survivorGraph r = some G) :
    ∃ res R, resolveIdentities o r lk (fun _ => []) = some res ∧ registrations r = some R ∧
      (∀ x ∈ survivors R, Derives G x.1 x.1 → Err.at_ x.2.2 "cycle" ∈ res.errs) ∧
      (∀ x ∈ survivors R, ∀ base ∈ x.2.2.all "base",
        (¬ ∃ b, names r x.2.1 base.arg = some b ∧ b ∈ G.verts) →
          ∃ c ∈ undefinedBaseClasses, Err.at_ x.2.1.stmt c ∈ res.errs) ∧
      (∀ e ∈ res.errs, e.cls = "cycle" →
        ∃ x ∈ survivors R, e = Err.at_ x.2.2 "cycle" ∧ Derives G x.1 x.1) ∧
      (∀ e ∈ res.errs, e.cls ∈ undefinedBaseClasses →
        ∃ x ∈ survivors R, ∃ base ∈ x.2.2.all "base", e = Err.at_ x.2.1.stmt e.cls ∧
          ¬ ∃ b, names r x.2.1 base.arg = some b ∧ b ∈ G.verts) := by
  classical
  obtain ⟨ps, R, hR, sf⟩ := survivorGraph_facts hG
  let p : Dict → Vtx → Bool := fun dict i => decide (Below (MEdge r dict) i i)
  have hp : ∀ dict i, p dict i = true ↔ Below (MEdge r dict) i i := fun dict i => by simp [p]
  obtain ⟨res, errs1, hbd, hres, _, _, herrs⟩ := resolveIdentities_full o ho r lk p hp
  have ag : Agrees r res.dict (survivors R) := buildDict_survivors o ho r lk hlk hk hnc R hR _ _ hbd
  have hE := medge_iffS hreg hnc sf ag
  have hp1 := ho DEntry siteDirect res.dict
  have hp2 := ho DEntry siteClose res.dict
  have hnd := survivors_nodup R
  have hcls1 := buildDict_errs_cls hbd
  -- the entry found under the key of a dictionary entry carries the same statement
  have hget : ∀ e ∈ res.dict, ∃ e', res.dict.get? e.vtx.key = some e' ∧ e'.stmt = e.stmt := by
    intro e he
    obtain ⟨m, hroot, hsv, hkey, ow, how, hname⟩ := ag.a1 e he
    obtain ⟨e', hg⟩ := get?_of_key (d := res.dict) (k := Vtx.key e.vtx) ⟨e, he, hkey⟩
    obtain ⟨he', hk'⟩ := get?_some hg
    obtain ⟨m', hroot', hsv', hkey', ow', how', hname'⟩ := ag.a1 e' he'
    have hv : e'.vtx = e.vtx :=
      key_inj (by rw [hname']; exact hnc ow' how') (by rw [hname]; exact hnc ow how) (hkey' ▸ hk')
    have heq := nodup_map_inj (fun (x : Surv) => x.1) _ hnd _ hsv' _ hsv hv
    exact ⟨e', hg, congrArg (fun (x : Surv) => x.2.2) heq⟩
  -- the failing base statements of an entry
  have hbase : ∀ d ∈ res.dict, ∀ err ∈ baseErrs r res.dict d, ∃ m, (d.vtx, m, d.stmt) ∈ survivors R ∧
      r.byId d.root = some m ∧
      ∃ base ∈ d.stmt.all "base", findIdentityBase r res.dict m base.arg = .error err := by
    intro d hd err herr
    obtain ⟨m, hroot, hsv, _⟩ := ag.a1 d hd
    unfold baseErrs resolvedBases at herr
    rw [hroot] at herr
    obtain ⟨rb, hrb, hm⟩ := List.mem_filterMap.mp herr
    obtain ⟨base, hb, rfl⟩ := List.mem_map.mp hrb
    refine ⟨m, hsv, hroot, base, hb, ?_⟩
    cases hf : findIdentityBase r res.dict m base.arg with
    | ok eb => simp [hf] at hm
    | error x =>
      simp only [hf, Option.some.injEq] at hm
      rw [hm]
  refine ⟨res, R, hres, hR, ?_, ?_, ?_, ?_⟩
  · intro x hx hd
    obtain ⟨e, he, hev, hest, _⟩ := ag.a2 x hx
    obtain ⟨e', hg, hst⟩ := hget e he
    have hb : Below (MEdge r res.dict) e.vtx e.vtx := (below_iff_derives hE _ _).mpr (by rw [hev]; exact hd)
    rw [herrs]
    apply List.mem_append_right
    refine List.mem_filterMap.mpr ⟨e.vtx, List.mem_filter.mpr
      ⟨List.mem_map.mpr ⟨e, hp2.mem_iff.mpr he, rfl⟩, (hp _ _).mpr hb⟩, ?_⟩
    unfold cycleErr
    rw [hg, Option.map_some, hst, hest]
  · intro x hx base hbs hno
    obtain ⟨e, he, hev, hest, hroot⟩ := ag.a2 x hx
    cases hf : findIdentityBase r res.dict x.2.1 base.arg with
    | ok eb =>
      exact absurd ⟨eb.vtx, (resolve_agreesS hreg hnc sf ag (byId_mem hroot) base.arg eb.vtx).mp ⟨eb, hf, rfl⟩⟩ hno
    | error err =>
      obtain ⟨c, hc, rfl⟩ := findIdentityBase_error r hreg _ _ _ _ hf
      refine ⟨c, hc, ?_⟩
      rw [herrs]
      apply List.mem_append_left
      apply List.mem_append_right
      refine List.mem_flatMap.mpr ⟨e, hp1.mem_iff.mpr he, ?_⟩
      unfold baseErrs resolvedBases
      rw [hroot]
      exact List.mem_filterMap.mpr ⟨.error (Err.at_ x.2.1.stmt c),
        List.mem_map.mpr ⟨base, hest ▸ hbs, hf⟩, rfl⟩
  · intro e he hcls
    rw [herrs] at he
    rcases List.mem_append.mp he with he | he
    · rcases List.mem_append.mp he with he | he
      · rcases hcls1 e he with h | h <;> (rw [hcls] at h; simp at h)
      · obtain ⟨d, hd, hed⟩ := List.mem_flatMap.mp he
        obtain ⟨m, _, _, base, _, hf⟩ := hbase d (hp1.mem_iff.mp hd) e hed
        obtain ⟨c, hc, rfl⟩ := findIdentityBase_error r hreg _ _ _ _ hf
        have : c = "cycle" := hcls
        subst this
        simp [undefinedBaseClasses] at hc
    · obtain ⟨v, hv, hce⟩ := List.mem_filterMap.mp he
      obtain ⟨hvo, hpv⟩ := List.mem_filter.mp hv
      obtain ⟨d, hdo, rfl⟩ := List.mem_map.mp hvo
      have hd := hp2.mem_iff.mp hdo
      obtain ⟨e', hg, hst⟩ := hget d hd
      unfold cycleErr at hce
      rw [hg] at hce
      simp only [Option.map_some, Option.some.injEq] at hce
      obtain ⟨m, _, hsv, _⟩ := ag.a1 d hd
      exact ⟨(d.vtx, m, d.stmt), hsv, by rw [← hce, hst], (below_iff_derives hE _ _).mp ((hp _ _).mp hpv)⟩
  · intro e he hcls
    rw [herrs] at he
    rcases List.mem_append.mp he with he | he
    · rcases List.mem_append.mp he with he | he
      · rcases hcls1 e he with h | h <;> (rw [h] at hcls; simp [undefinedBaseClasses] at hcls)
      · obtain ⟨d, hd, hed⟩ := List.mem_flatMap.mp he
        obtain ⟨m, hsv, hroot, base, hb, hf⟩ := hbase d (hp1.mem_iff.mp hd) e hed
        obtain ⟨c, hc, rfl⟩ := findIdentityBase_error r hreg _ _ _ _ hf
        refine ⟨(d.vtx, m, d.stmt), hsv, base, hb, rfl, ?_⟩
        rintro ⟨b, hn, hbv⟩
        obtain ⟨eb, hfo, _⟩ := (resolve_agreesS hreg hnc sf ag (byId_mem hroot) base.arg b).mpr ⟨hn, hbv⟩
        rw [hf] at hfo
        cases hfo
    · obtain ⟨v, hv, hce⟩ := List.mem_filterMap.mp he
      unfold cycleErr at hce
      obtain ⟨e', _, rfl⟩ := Option.map_eq_some_iff.mp hce
      simp [undefinedBaseClasses, Err.at_] at hcls

/-! ### the executable verdict `judgeReports` -/

theorem locatedAt_at (s : Stmt) (c : String) : locatedAt (Err.at_ s c) s = true := by
  simp [locatedAt, Err.at_]

theorem mem_undefinedBases {r : Registry} {G : Graph} {stmts : List Surv} {u : Spec.Identity.Vertex × Mod × String} :
    u ∈ undefinedBases r G stmts ↔ ∃ x ∈ stmts, ∃ b ∈ x.2.2.all "base", u = (x.1, x.2.1, b.arg) ∧
      ¬ ∃ t, names r x.2.1 b.arg = some t ∧ t ∈ G.verts := by
  unfold undefinedBases
  simp only [List.mem_flatMap, List.mem_filterMap]
  constructor
  · rintro ⟨⟨v, m, s⟩, hx, b, hb, hu⟩
    simp only at hu
    refine ⟨(v, m, s), hx, b, hb, ?_⟩
    split at hu
    · rename_i t hn
      split at hu
      · cases hu
      · rename_i ht
        cases hu
        exact ⟨rfl, by rintro ⟨t', ht', hm⟩; rw [hn] at ht'; cases ht'; exact ht hm⟩
    · rename_i hn
      cases hu
      exact ⟨rfl, by rintro ⟨t', ht', _⟩; rw [hn] at ht'; cases ht'⟩
  · rintro ⟨⟨v, m, s⟩, hx, b, hb, rfl, hno⟩
    refine ⟨(v, m, s), hx, b, hb, ?_⟩
    simp only
    split
    · rename_i t hn
      rw [if_neg (fun hm => hno ⟨t, hn, hm⟩)]
    · rfl

/-- The dangling bases of the survivors' graph are the undefined base statements of the surviving
statements. -/
theorem survivor_dangling {r : Registry} {G : Graph} (h : survivorGraph r = some G) {R : List Surv}
    (hR : registrations r = some R) (v : Spec.Identity.Vertex) (a : String) :
    (v, a) ∈ G.dangling ↔ ∃ m, (v, m, a) ∈ undefinedBases r G (survivors R) := by
  unfold survivorGraph at h
  split at h
  · rename_i ps R' hps hR'
    rw [hR] at hR'
    cases hR'
    simp only [Option.some.injEq] at h
    subst h
    show (v, a) ∈ (survBases r (survivors R)).filterMap _ ↔ _
    simp only [List.mem_filterMap, mem_survBases, mem_undefinedBases]
    constructor
    · rintro ⟨x, ⟨y, hy, base, hbase, rfl⟩, hx⟩
      simp only at hx
      refine ⟨y.2.1, y, hy, base, hbase, ?_⟩
      split at hx
      · rename_i b' hb'
        split at hx
        · cases hx
        · rename_i hmem
          cases hx
          exact ⟨rfl, by rintro ⟨t, ht, hm⟩; rw [hb'] at ht; cases ht; exact hmem hm⟩
      · rename_i hnone
        cases hx
        exact ⟨rfl, by rintro ⟨t, ht, _⟩; rw [hnone] at ht; cases ht⟩
    · rintro ⟨m, y, hy, base, hbase, hu, hno⟩
      simp only [Prod.mk.injEq] at hu
      obtain ⟨rfl, rfl, rfl⟩ := hu
      refine ⟨(y.1, base.arg, names r y.2.1 base.arg), ⟨y, hy, base, hbase, rfl⟩, ?_⟩
      simp only
      split
      · rename_i t hn
        rw [if_neg (fun hm => hno ⟨t, hn, hm⟩)]
      · rfl
  · cases h

theorem mem_derivedDirectly (G : Graph) (v w : Spec.Identity.Vertex) :
    w ∈ derivedDirectly G v ↔ (w, v) ∈ G.edges := by
  unfold derivedDirectly
  simp only [List.mem_map, List.mem_filter]
  constructor
  · rintro ⟨⟨a, b⟩, ⟨h1, h2⟩, rfl⟩
    have : b = v := by simpa using h2
    subst this
    exact h1
  · intro h
    exact ⟨(w, v), ⟨h, by simp⟩, rfl⟩

theorem reach_derived {G : Graph} {c y : Spec.Identity.Vertex} (h : Reach (derivedDirectly G) c y) :
    c = y ∨ Derives G y c := by
  induction h with
  | refl a => exact Or.inl rfl
  | step hb _ ih =>
    have he := (mem_derivedDirectly G _ _).mp hb
    rcases ih with rfl | ih
    · exact Or.inr (Derives.base he)
    · exact Or.inr (derives_snoc ih he)

theorem derives_reach {G : Graph} {y i : Spec.Identity.Vertex} (hd : Derives G y i) :
    ∃ c, c ∈ (derivedDirectly G i).eraseDups ∧ Reach (derivedDirectly G) c y := by
  induction hd with
  | base h => exact ⟨_, List.mem_eraseDups.mpr ((mem_derivedDirectly G _ _).mpr h), Reach.refl _⟩
  | step h _ ih =>
    obtain ⟨c, hc, hr⟩ := ih
    exact ⟨c, hc, Reach.trans hr (Reach.single ((mem_derivedDirectly G _ _).mpr h))⟩

theorem derives_trans {G : Graph} {a b c : Spec.Identity.Vertex} (h1 : Derives G a b) (h2 : Derives G b c) :
    Derives G a c := by
  induction h1 with
  | base h => exact Derives.step h h2
  | step h _ ih => exact Derives.step h (ih h2)

/-- `derived G i` holds exactly the vertices derived from `i`. -/
theorem derived_spec {G : Graph} {i : Spec.Identity.Vertex} {d : List Spec.Identity.Vertex}
    (h : derived G i = some d) (y : Spec.Identity.Vertex) : y ∈ d ↔ Derives G y i := by
  unfold derived at h
  rw [closure_spec _ _ _ _ h y]
  constructor
  · rintro ⟨c, hc, hr⟩
    have hci : (c, i) ∈ G.edges := (mem_derivedDirectly G i c).mp (List.mem_eraseDups.mp hc)
    rcases reach_derived hr with rfl | hd
    · exact Derives.base hci
    · exact derives_snoc hd hci
  · intro hd
    obtain ⟨c, hc, hr⟩ := derives_reach hd
    exact ⟨c, hc, hr⟩

theorem derived_some (G : Graph) (i : Spec.Identity.Vertex) : ∃ d, derived G i = some d := by
  unfold derived
  apply closure_some (derivedDirectly G) (G.edges.map (·.1))
  · intro x _ y hy
    exact List.mem_map.mpr ⟨(y, x), (mem_derivedDirectly G x y).mp hy, rfl⟩
  · intro x hx
    rw [List.mem_eraseDups] at hx
    exact List.mem_map.mpr ⟨(x, i), (mem_derivedDirectly G i x).mp hx, rfl⟩
  · have := unv_mono (G.edges.map (·.1)) (ids := []) (ids' := (derivedDirectly G i).eraseDups)
      (by intro _ h; cases h)
    rw [unv_nil, List.length_map] at this
    omega

theorem mapM_option_some {α β : Type} (f : α → Option β) : ∀ (l : List α), (∀ a ∈ l, ∃ b, f a = some b) →
    ∃ bs, l.mapM f = some bs ∧ ∀ b, b ∈ bs → ∃ a ∈ l, f a = some b := by
  intro l
  induction l with
  | nil => intro _; exact ⟨[], by simp, by intro b hb; cases hb⟩
  | cons a l ih =>
    intro h
    obtain ⟨b, hb⟩ := h a (List.mem_cons_self ..)
    obtain ⟨bs, hbs, hmem⟩ := ih (fun a' ha' => h a' (List.mem_cons_of_mem _ ha'))
    refine ⟨b :: bs, by simp [List.mapM_cons, hb, hbs], ?_⟩
    intro b' hb'
    rcases List.mem_cons.mp hb' with rfl | hb'
    · exact ⟨a, List.mem_cons_self .., hb⟩
    · obtain ⟨a', ha', hf⟩ := hmem b' hb'
      exact ⟨a', List.mem_cons_of_mem _ ha', hf⟩

/-- The table of derived lists exists, and every row is the list of a vertex. -/
theorem derivedTable_some (G : Graph) :
    ∃ T, derivedTable G = some T ∧ ∀ v d, (v, d) ∈ T → derived G v = some d := by
  unfold derivedTable
  obtain ⟨T, hT, hmem⟩ := mapM_option_some (fun v => (derived G v).map fun d => (v, d)) G.verts.eraseDups
    (fun v _ => by obtain ⟨d, hd⟩ := derived_some G v; exact ⟨(v, d), by simp [hd]⟩)
  refine ⟨T, hT, ?_⟩
  intro v d hvd
  obtain ⟨a, _, hf⟩ := hmem (v, d) hvd
  obtain ⟨d', hd', he⟩ := Option.map_eq_some_iff.mp hf
  cases he
  exact hd'

/-- When every cyclic vertex has a statement whose position carries a cycle error, and every
undefined base statement an undefined-base error at its text, the verdict is "holds". -/
theorem judgeReports_holds (r : Registry) (G : Graph) (stmts : List Surv) (errs : List Err)
    (hverts : ∀ v, Derives G v v → ∃ x ∈ stmts, x.1 = v)
    (hcyc : ∀ x ∈ stmts, Derives G x.1 x.1 → ∃ e ∈ errs, e.cls = cycleClass ∧ locatedAt e x.2.2 = true)
    (hbase : ∀ u ∈ undefinedBases r G stmts,
      ∃ e ∈ errs, e.cls ∈ undefinedBaseClasses ∧ locatedAt e u.2.1.stmt = true) :
    judgeReports r G stmts errs = Verdict.holds := by
  obtain ⟨T, hT, hrow⟩ := derivedTable_some G
  have h1 : unreportedCycle T stmts errs = none := by
    unfold unreportedCycle
    rw [List.findSome?_eq_none_iff]
    rintro ⟨v, d⟩ hvd
    simp only
    split
    · rfl
    · rename_i hc
      exfalso
      apply hc
      simp only [Bool.or_eq_true]
      by_cases hemp : (cycleOf T v d).isEmpty = true
      · exact Or.inl hemp
      · right
        obtain ⟨w, hw⟩ : ∃ w, w ∈ cycleOf T v d := by
          cases hl : cycleOf T v d with
          | nil => rw [hl] at hemp; simp at hemp
          | cons w _ => exact ⟨w, List.mem_cons_self ..⟩
        have hw' := hw
        unfold cycleOf at hw'
        obtain ⟨hwd, hany⟩ := List.mem_filter.mp hw'
        obtain ⟨⟨w', d'⟩, hrow', hp⟩ := List.any_eq_true.mp hany
        simp only [Bool.and_eq_true, beq_iff_eq, List.contains_iff_mem] at hp
        obtain ⟨rfl, hvd'⟩ := hp
        have hwv : Derives G w' v := (derived_spec (hrow v d hvd) w').mp hwd
        have hvw : Derives G v w' := (derived_spec (hrow w' d' hrow') v).mp hvd'
        have hww : Derives G w' w' := derives_trans hwv hvw
        obtain ⟨x, hx, hxw⟩ := hverts w' hww
        obtain ⟨e, he, hecls, heloc⟩ := hcyc x hx (by rw [hxw]; exact hww)
        unfold cycleReported
        refine List.any_eq_true.mpr ⟨x, hx, ?_⟩
        obtain ⟨xv, xm, xs⟩ := x
        simp only [Bool.and_eq_true, List.contains_iff_mem]
        subst hxw
        exact ⟨hw, List.any_eq_true.mpr ⟨e, he, by simp [hecls, heloc]⟩⟩
  have h2 : unreportedBase r G stmts errs = none := by
    unfold unreportedBase
    rw [List.find?_eq_none]
    rintro ⟨v, m, a⟩ hu
    obtain ⟨e, he, hecls, heloc⟩ := hbase (v, m, a) hu
    simp only [Bool.not_eq_true']
    simp only [Bool.not_eq_false]
    exact List.any_eq_true.mpr ⟨e, he, by simp [hecls, heloc]⟩
  unfold judgeReports
  simp only [hT, h1, h2]

end Goyang.Lemmas.Identity
