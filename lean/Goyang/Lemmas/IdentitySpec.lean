import Goyang.Lemmas.IdentityMain
/-
Helper lemmas for C11, part 5: the specification's graph, unfolded, and its agreement with the
model's dictionary and edges.
-/
namespace Goyang.Lemmas.Identity
open Goyang.Model Goyang.Model.Identity
open Goyang.Spec.Identity (Reach closure includedBy loadedModules names parts graph Graph vertexStmts
  Derives OneStatementPerVertex)

theorem mem_vertexStmts {r : Registry} {m : Mod} {vs : Spec.Identity.Vertex × Stmt} :
    vs ∈ vertexStmts r m ↔ ∃ ow, r.owner m = some ow ∧ vs.2 ∈ identities m ∧ vs.1 = (ow.name, vs.2.arg) := by
  unfold vertexStmts identities
  cases h : r.owner m with
  | none => simp
  | some ow =>
    simp only [List.mem_map, Option.some.injEq, exists_eq_left']
    constructor
    · rintro ⟨s, hs, rfl⟩; exact ⟨hs, rfl⟩
    · rintro ⟨hs, hv⟩; exact ⟨vs.2, hs, Prod.ext hv.symm rfl⟩

/-- The parts of the schema, as the specification computes them, are the (sub)modules in the schema. -/
theorem parts_spec {r : Registry} {ps : List Mod} (h : parts r = some ps) (m : Mod) :
    m ∈ ps ↔ ∃ s, InSchema r s ∧ r.byId s = some m := by
  unfold parts at h
  obtain ⟨ss, hss, rfl⟩ := Option.map_eq_some_iff.mp h
  have hc := closure_spec (includedBy r) _ _ _ hss
  simp only [List.mem_filterMap]
  constructor
  · rintro ⟨s, hs, hm⟩
    refine ⟨s, ?_, hm⟩
    obtain ⟨c, hc', hr⟩ := (hc s).mp hs
    rw [List.mem_eraseDups] at hc'
    obtain ⟨md, hmd, rfl⟩ := List.mem_map.mp hc'
    exact ⟨md, hmd, hr⟩
  · rintro ⟨s, ⟨md, hmd, hr⟩, hm⟩
    refine ⟨s, (hc s).mpr ⟨md.seq, ?_, hr⟩, hm⟩
    rw [List.mem_eraseDups]
    exact List.mem_map.mpr ⟨md, hmd, rfl⟩

/-- The base statements of the schema: (vertex of the identity, argument, vertex named). -/
def basesOf (r : Registry) (ps : List Mod) : List (Spec.Identity.Vertex × String × Option Spec.Identity.Vertex) :=
  ps.flatMap fun m =>
    (vertexStmts r m).flatMap fun (v, s) => (s.all "base").map fun b => (v, b.arg, names r m b.arg)

theorem mem_basesOf {r : Registry} {ps : List Mod} {x : Spec.Identity.Vertex × String × Option Spec.Identity.Vertex} :
    x ∈ basesOf r ps ↔ ∃ m ∈ ps, ∃ vs ∈ vertexStmts r m, ∃ b ∈ vs.2.all "base",
      x = (vs.1, b.arg, names r m b.arg) := by
  unfold basesOf
  simp only [List.mem_flatMap, List.mem_map]
  constructor
  · rintro ⟨m, hm, ⟨v, s⟩, hvs, b, hb, rfl⟩
    exact ⟨m, hm, (v, s), hvs, b, hb, rfl⟩
  · rintro ⟨m, hm, ⟨v, s⟩, hvs, b, hb, rfl⟩
    exact ⟨m, hm, (v, s), hvs, b, hb, rfl⟩

structure GraphFacts (r : Registry) (G : Graph) (ps : List Mod) : Prop where
  parts : parts r = some ps
  vertsEq : G.verts = (ps.flatMap (vertexStmts r)).map (·.1)
  verts : ∀ v, v ∈ G.verts ↔ ∃ m ∈ ps, ∃ vs ∈ vertexStmts r m, vs.1 = v
  edges : ∀ i b, (i, b) ∈ G.edges ↔ ∃ m ∈ ps, ∃ vs ∈ vertexStmts r m, vs.1 = i ∧ ∃ base ∈ vs.2.all "base",
    names r m base.arg = some b ∧ b ∈ G.verts
  dangling : G.dangling = [] ↔ ∀ m ∈ ps, ∀ vs ∈ vertexStmts r m, ∀ base ∈ vs.2.all "base",
    ∃ b, names r m base.arg = some b ∧ b ∈ G.verts
  orphans : G.orphans = [] ↔ ∀ m ∈ ps, ∃ ow, r.owner m = some ow

theorem graph_facts {r : Registry} {G : Graph} (h : graph r = some G) : ∃ ps, GraphFacts r G ps := by
  unfold graph at h
  obtain ⟨ps, hps, rfl⟩ := Option.map_eq_some_iff.mp h
  refine ⟨ps, hps, rfl, ?_, ?_, ?_, ?_⟩
  · intro v
    simp only [List.mem_map, List.mem_flatMap]
    constructor
    · rintro ⟨vs, ⟨m, hm, hvs⟩, rfl⟩; exact ⟨m, hm, vs, hvs, rfl⟩
    · rintro ⟨m, hm, vs, hvs, rfl⟩; exact ⟨vs, ⟨m, hm, hvs⟩, rfl⟩
  · intro i b
    show (i, b) ∈ (basesOf r ps).filterMap _ ↔ _
    simp only [List.mem_filterMap, mem_basesOf]
    constructor
    · rintro ⟨x, ⟨m, hm, vs, hvs, base, hbase, rfl⟩, hx⟩
      simp only at hx
      split at hx
      · rename_i b' hb'
        split at hx
        · rename_i hmem
          simp only [Option.some.injEq, Prod.mk.injEq] at hx
          obtain ⟨rfl, rfl⟩ := hx
          exact ⟨m, hm, vs, hvs, rfl, base, hbase, hb', hmem⟩
        · cases hx
      · cases hx
    · rintro ⟨m, hm, vs, hvs, rfl, base, hbase, hn, hmem⟩
      refine ⟨(vs.1, base.arg, names r m base.arg), ⟨m, hm, vs, hvs, base, hbase, rfl⟩, ?_⟩
      simp only [hn]
      rw [if_pos hmem]
  · show (basesOf r ps).filterMap _ = [] ↔ _
    rw [List.filterMap_eq_nil_iff]
    constructor
    · intro hall m hm vs hvs base hbase
      have := hall (vs.1, base.arg, names r m base.arg) (mem_basesOf.mpr ⟨m, hm, vs, hvs, base, hbase, rfl⟩)
      simp only at this
      split at this
      · rename_i b hb
        split at this
        · rename_i hmem; exact ⟨b, hb, hmem⟩
        · cases this
      · cases this
    · intro hall x hx
      obtain ⟨m, hm, vs, hvs, base, hbase, rfl⟩ := mem_basesOf.mp hx
      obtain ⟨b, hb, hmem⟩ := hall m hm vs hvs base hbase
      simp only [hb]
      rw [if_pos hmem]
  · show ((ps.filter fun m => (r.owner m).isNone).map (·.name)) = [] ↔ _
    rw [List.map_eq_nil_iff, List.filter_eq_nil_iff]
    constructor
    · intro hall m hm
      have := hall m hm
      cases ho : r.owner m with
      | none => simp [ho] at this
      | some ow => exact ⟨ow, rfl⟩
    · intro hall m hm
      obtain ⟨ow, ho⟩ := hall m hm
      simp [ho]

/-! ### agreement of dictionary and graph -/

theorem nodup_map_inj {β γ : Type} (g : β → γ) : ∀ (l : List β), (l.map g).Nodup →
    ∀ b1 ∈ l, ∀ b2 ∈ l, g b1 = g b2 → b1 = b2 := by
  intro l
  induction l with
  | nil => intro _ b1 h; cases h
  | cons b l ih =>
    intro hnd b1 h1 b2 h2 hg
    simp only [List.map_cons, List.nodup_cons, List.mem_map, not_exists, not_and] at hnd
    rcases List.mem_cons.mp h1 with rfl | h1'
    · rcases List.mem_cons.mp h2 with rfl | h2'
      · rfl
      · exact absurd hg.symm (hnd.1 b2 h2')
    · rcases List.mem_cons.mp h2 with rfl | h2'
      · exact absurd hg (hnd.1 b1 h1')
      · exact ih hnd.2 b1 h1' b2 h2' hg

theorem flatMap_map_nodup_inj {α β γ : Type} (f : α → List β) (g : β → γ) : ∀ (l : List α),
    ((l.flatMap f).map g).Nodup → ∀ a1 ∈ l, ∀ a2 ∈ l, ∀ b1 ∈ f a1, ∀ b2 ∈ f a2, g b1 = g b2 →
    a1 = a2 ∧ b1 = b2 := by
  intro l
  induction l with
  | nil => intro _ a1 h; cases h
  | cons a l ih =>
    intro hnd a1 h1 a2 h2 b1 hb1 b2 hb2 hg
    simp only [List.flatMap_cons, List.map_append, List.nodup_append] at hnd
    obtain ⟨hl, hr, hdis⟩ := hnd
    have inTail : ∀ a' ∈ l, ∀ b' ∈ f a', g b' ∈ (l.flatMap f).map g :=
      fun a' ha' b' hb' => List.mem_map.mpr ⟨b', List.mem_flatMap.mpr ⟨a', ha', hb'⟩, rfl⟩
    rcases List.mem_cons.mp h1 with rfl | h1'
    · rcases List.mem_cons.mp h2 with rfl | h2'
      · exact ⟨rfl, nodup_map_inj g _ hl b1 hb1 b2 hb2 hg⟩
      · exact absurd hg (hdis _ (List.mem_map.mpr ⟨b1, hb1, rfl⟩) _ (inTail a2 h2' b2 hb2))
    · rcases List.mem_cons.mp h2 with rfl | h2'
      · exact absurd hg.symm (hdis _ (List.mem_map.mpr ⟨b2, hb2, rfl⟩) _ (inTail a1 h1' b1 hb1))
      · exact ih hr a1 h1' a2 h2' b1 hb1 b2 hb2 hg

/-- Well-formedness of the loaded set that the agreement needs. -/
structure Hyp (r : Registry) : Prop where
  reg : RegOK r
  noColon : ∀ m ∈ r.mods, ':' ∉ m.name.toList
  one : ∀ G, graph r = some G → OneStatementPerVertex G

theorem owner_mem {r : Registry} {m ow : Mod} (h : r.owner m = some ow) (hm : m ∈ r.mods) : ow ∈ r.mods := by
  unfold Registry.owner at h
  split at h
  · unfold Registry.getModule at h
    obtain ⟨id, _, hid⟩ := Option.bind_eq_some_iff.mp h
    exact byId_mem hid
  · cases h; exact hm

theorem names_mem {r : Registry} {m : Mod} {arg : String} {v : Spec.Identity.Vertex}
    (h : names r m arg = some v) (hm : m ∈ r.mods) : ∃ t ∈ r.mods, v.1 = t.name := by
  unfold names at h
  simp only at h
  obtain ⟨t, ht, rfl⟩ := Option.map_eq_some_iff.mp h
  refine ⟨t, ?_, rfl⟩
  unfold Spec.Identity.moduleOfPrefix at ht
  simp only at ht
  split at ht
  · exact owner_mem ht hm
  · split at ht
    · exact owner_mem ht hm
    · split at ht
      · obtain ⟨id, hid⟩ := findModule_byId ht
        exact byId_mem hid
      · cases ht

/-- Derivation in the graph is "below" in the model, given that the edges agree. -/
theorem derives_snoc {G : Graph} {j k i : Spec.Identity.Vertex} (h1 : Derives G j k) (h2 : (k, i) ∈ G.edges) :
    Derives G j i := by
  induction h1 with
  | base h => exact Derives.step h (Derives.base h2)
  | step h _ ih => exact Derives.step h (ih h2)

theorem below_iff_derives {G : Graph} {E : Vtx → Vtx → Prop} (hE : ∀ b i, E b i ↔ (i, b) ∈ G.edges)
    (i j : Vtx) : Below E i j ↔ Derives G j i := by
  constructor
  · intro h
    induction h with
    | direct h => exact Derives.base ((hE _ _).mp h)
    | step h _ ih => exact derives_snoc ih ((hE _ _).mp h)
  · intro h
    induction h with
    | base h => exact Below.direct ((hE _ _).mpr h)
    | step h _ ih => exact Below.trans ih (Below.direct ((hE _ _).mpr h))

section Agree
variable {r : Registry} {G : Graph} {ps : List Mod} {dict : Dict}

/-- A1: a dictionary entry is an identity statement of the schema. -/
theorem entry_vertex (gf : GraphFacts r G ps) (hs : ∀ e ∈ dict, Sound r e) {e : DEntry} (he : e ∈ dict) :
    ∃ m ∈ ps, r.byId e.root = some m ∧ (e.vtx, e.stmt) ∈ vertexStmts r m ∧ e.key = Vtx.key e.vtx ∧
      e.vtx ∈ G.verts ∧ ∃ ow ∈ r.mods, e.vtx.1 = ow.name := by
  obtain ⟨m, ow, hin, hroot, how, hst, hv, hk⟩ := hs e he
  have hmps : m ∈ ps := (parts_spec gf.parts m).mpr ⟨m.seq, hin, byId_self hroot⟩
  have hvs : (e.vtx, e.stmt) ∈ vertexStmts r m := mem_vertexStmts.mpr ⟨ow, how, hst, hv⟩
  refine ⟨m, hmps, hroot, hvs, hk, (gf.verts _).mpr ⟨m, hmps, _, hvs, rfl⟩, ow, owner_mem how (byId_mem hroot), ?_⟩
  rw [hv]

/-- A2: every identity statement of the schema has its dictionary entry. -/
theorem vertex_entry (hyp : Hyp r) (hone : G.verts.Nodup) (gf : GraphFacts r G ps) (hs : ∀ e ∈ dict, Sound r e)
    (hc : ∀ s, InSchema r s → ∀ m ow, r.byId s = some m → r.owner m = some ow → ∀ st ∈ identities m,
      ∃ x ∈ dict, x.key = Vtx.key (ow.name, st.arg))
    {m : Mod} (hm : m ∈ ps) {vs : Spec.Identity.Vertex × Stmt} (hvs : vs ∈ vertexStmts r m) :
    ∃ e ∈ dict, e.vtx = vs.1 ∧ e.stmt = vs.2 ∧ r.byId e.root = some m := by
  obtain ⟨s, hin, hbyid⟩ := (parts_spec gf.parts m).mp hm
  obtain ⟨ow, how, hst, hv⟩ := mem_vertexStmts.mp hvs
  obtain ⟨x, hx, hxk⟩ := hc s hin m ow hbyid how vs.2 hst
  obtain ⟨m', hm', hroot', hvs', hk', _, ow', how', hname'⟩ := entry_vertex gf hs hx
  have hkey : Vtx.key x.vtx = Vtx.key vs.1 := by rw [← hk', hxk, hv]
  have hvtx : x.vtx = vs.1 := by
    apply key_inj _ _ hkey
    · rw [hname']; exact hyp.noColon ow' how'
    · rw [hv]; exact hyp.noColon ow (owner_mem how (byId_mem hbyid))
  obtain ⟨e1, e2⟩ := flatMap_map_nodup_inj (vertexStmts r) (·.1) ps (gf.vertsEq ▸ hone) m' hm' m hm _ hvs' _ hvs hvtx
  exact ⟨x, hx, hvtx, congrArg Prod.snd e2, e1 ▸ hroot'⟩

/-- A3: looking up the key of a vertex named from a loaded (sub)module. -/
theorem get?_vertex (hyp : Hyp r) (gf : GraphFacts r G ps) (hs : ∀ e ∈ dict, Sound r e)
    {m : Mod} (hm : m ∈ r.mods) {arg : String} {v : Spec.Identity.Vertex} (hn : names r m arg = some v)
    {e : DEntry} (hg : dict.get? (Vtx.key v) = some e) : e ∈ dict ∧ e.vtx = v := by
  obtain ⟨he, hk⟩ := get?_some hg
  obtain ⟨_, _, _, _, hk', _, ow', how', hname'⟩ := entry_vertex gf hs he
  obtain ⟨t, ht, hvt⟩ := names_mem hn hm
  refine ⟨he, key_inj ?_ ?_ (hk' ▸ hk)⟩
  · rw [hname']; exact hyp.noColon ow' how'
  · rw [hvt]; exact hyp.noColon t ht

theorem parts_mem_mods (gf : GraphFacts r G ps) {m : Mod} (hm : m ∈ ps) : m ∈ r.mods := by
  obtain ⟨s, _, hb⟩ := (parts_spec gf.parts m).mp hm
  exact byId_mem hb

/-- Resolution of one base argument written in part `m` of the schema, both ways. -/
theorem resolve_agrees (hyp : Hyp r) (hone : G.verts.Nodup) (gf : GraphFacts r G ps) (hs : ∀ e ∈ dict, Sound r e)
    (hc : ∀ s, InSchema r s → ∀ m ow, r.byId s = some m → r.owner m = some ow → ∀ st ∈ identities m,
      ∃ x ∈ dict, x.key = Vtx.key (ow.name, st.arg))
    {m : Mod} (hm : m ∈ r.mods) (arg : String) (b : Vtx) :
    (∃ eb, findIdentityBase r dict m arg = .ok eb ∧ eb.vtx = b) ↔ (names r m arg = some b ∧ b ∈ G.verts) := by
  constructor
  · rintro ⟨eb, hf, hb⟩
    obtain ⟨v, hn, hg⟩ := (findIdentityBase_ok r hyp.reg dict m arg eb).mp hf
    obtain ⟨hmem, hv⟩ := get?_vertex hyp gf hs hm hn hg
    obtain ⟨_, _, _, _, _, hvert, _⟩ := entry_vertex gf hs hmem
    rw [← hb, hv]
    exact ⟨hn, hv ▸ hvert⟩
  · rintro ⟨hn, hb⟩
    obtain ⟨m', hm', vs', hvs', hv'⟩ := (gf.verts b).mp hb
    obtain ⟨x, hx, hxv, _, _⟩ := vertex_entry hyp hone gf hs hc hm' hvs'
    obtain ⟨_, _, _, _, hk, _⟩ := entry_vertex gf hs hx
    obtain ⟨eb, hg⟩ := get?_of_key (d := dict) (k := Vtx.key b) ⟨x, hx, by rw [hk, hxv, hv']⟩
    exact ⟨eb, (findIdentityBase_ok r hyp.reg dict m arg eb).mpr ⟨b, hn, hg⟩, (get?_vertex hyp gf hs hm hn hg).2⟩

/-- A4: the model's edges are the graph's edges. -/
theorem medge_iff (hyp : Hyp r) (hone : G.verts.Nodup) (gf : GraphFacts r G ps) (hs : ∀ e ∈ dict, Sound r e)
    (hc : ∀ s, InSchema r s → ∀ m ow, r.byId s = some m → r.owner m = some ow → ∀ st ∈ identities m,
      ∃ x ∈ dict, x.key = Vtx.key (ow.name, st.arg))
    (b i : Vtx) : MEdge r dict b i ↔ (i, b) ∈ G.edges := by
  rw [gf.edges]
  constructor
  · rintro ⟨e, he, hei, eb, hrb, hebb⟩
    obtain ⟨m, hm, hroot, hvs, _, _, _⟩ := entry_vertex gf hs he
    unfold resolvedBases at hrb
    rw [hroot] at hrb
    obtain ⟨base, hbase, hf⟩ := List.mem_map.mp hrb
    obtain ⟨hn, hb⟩ := (resolve_agrees hyp hone gf hs hc (parts_mem_mods gf hm) base.arg b).mp ⟨eb, hf, hebb⟩
    exact ⟨m, hm, _, hvs, hei, base, hbase, hn, hb⟩
  · rintro ⟨m, hm, vs, hvs, hi, base, hbase, hn, hb⟩
    obtain ⟨e, he, hev, hest, hroot⟩ := vertex_entry hyp hone gf hs hc hm hvs
    obtain ⟨eb, hf, hebb⟩ := (resolve_agrees hyp hone gf hs hc (parts_mem_mods gf hm) base.arg b).mpr ⟨hn, hb⟩
    refine ⟨e, he, hev.trans hi, eb, ?_, hebb⟩
    unfold resolvedBases
    rw [hroot]
    exact List.mem_map.mpr ⟨base, hest ▸ hbase, hf⟩

/-- A6: no base statement fails in the model iff the graph has no dangling base. -/
theorem baseErrs_iff (hyp : Hyp r) (hone : G.verts.Nodup) (gf : GraphFacts r G ps) (hs : ∀ e ∈ dict, Sound r e)
    (hc : ∀ s, InSchema r s → ∀ m ow, r.byId s = some m → r.owner m = some ow → ∀ st ∈ identities m,
      ∃ x ∈ dict, x.key = Vtx.key (ow.name, st.arg)) :
    (∀ e ∈ dict, baseErrs r dict e = []) ↔ G.dangling = [] := by
  rw [gf.dangling]
  constructor
  · intro hall m hm vs hvs base hbase
    obtain ⟨e, he, _, hest, hroot⟩ := vertex_entry hyp hone gf hs hc hm hvs
    have hnil := hall e he
    unfold baseErrs resolvedBases at hnil
    rw [hroot, List.filterMap_eq_nil_iff] at hnil
    have := hnil (findIdentityBase r dict m base.arg) (List.mem_map.mpr ⟨base, hest ▸ hbase, rfl⟩)
    cases hf : findIdentityBase r dict m base.arg with
    | error err => simp [hf] at this
    | ok eb =>
      exact ⟨eb.vtx, (resolve_agrees hyp hone gf hs hc (parts_mem_mods gf hm) base.arg eb.vtx).mp ⟨eb, hf, rfl⟩⟩
  · intro hall e he
    obtain ⟨m, hm, hroot, hvs, _, _, _⟩ := entry_vertex gf hs he
    unfold baseErrs resolvedBases
    rw [hroot, List.filterMap_eq_nil_iff]
    intro rb hrb
    obtain ⟨base, hbase, rfl⟩ := List.mem_map.mp hrb
    obtain ⟨b, hn, hb⟩ := hall m hm _ hvs base hbase
    obtain ⟨eb, hf, _⟩ := (resolve_agrees hyp hone gf hs hc (parts_mem_mods gf hm) base.arg b).mpr ⟨hn, hb⟩
    simp [hf]

end Agree

theorem derives_right_vertex {r : Registry} {G : Graph} {ps : List Mod} (gf : GraphFacts r G ps)
    {j i : Spec.Identity.Vertex} (h : Derives G j i) : i ∈ G.verts := by
  induction h with
  | base h =>
    obtain ⟨_, _, _, _, _, _, _, _, hb⟩ := (gf.edges _ _).mp h
    exact hb
  | step _ _ ih => exact ih

theorem derives_left_vertex {r : Registry} {G : Graph} {ps : List Mod} (gf : GraphFacts r G ps)
    {j i : Spec.Identity.Vertex} (h : Derives G j i) : j ∈ G.verts := by
  cases h with
  | base h =>
    obtain ⟨m, hm, vs, hvs, hj, _⟩ := (gf.edges _ _).mp h
    exact (gf.verts _).mpr ⟨m, hm, vs, hvs, hj⟩
  | step h _ =>
    obtain ⟨m, hm, vs, hvs, hj, _⟩ := (gf.edges _ _).mp h
    exact (gf.verts _).mpr ⟨m, hm, vs, hvs, hj⟩

/-- `resolveIdentities` against the specification's graph, for every admissible oracle, started
from `Values` lists that hold derived identities only (all empty on fresh `Modules`; the lists
of an earlier `Process` on a later one). -/
theorem resolveIdentities_graph (o : Oracle) (ho : o.Valid) (r : Registry) (lk : Link) (hlk : LinkOK r lk)
    (hyp : Hyp r) (G : Graph) (hG : graph r = some G)
    (vals0 : Vtx → List Vtx) (hv0 : ∀ x j, j ∈ vals0 x → Derives G j x) :
    ∃ res, resolveIdentities o r lk vals0 = some res ∧
      (∀ v, (∃ e ∈ res.dict, e.vtx = v) ↔ v ∈ G.verts) ∧
      (∀ i ∈ G.verts, (∀ j, j ∈ res.vals i ↔ Derives G j i) ∧
        (res.vals i).Pairwise (fun a b => vtxLt a b = true)) ∧
      (∀ x, x ∉ G.verts → res.vals x = []) ∧
      (res.errs = [] ↔ G.orphans = [] ∧ G.dangling = [] ∧ ∀ v ∈ G.verts, ¬ Derives G v v) := by
  obtain ⟨ps, gf⟩ := graph_facts hG
  have hone : G.verts.Nodup := hyp.one G hG
  obtain ⟨dict', errs1', hbd', hs, hc, herr1⟩ := buildDict_spec o ho r lk hlk
  obtain ⟨res, errs1, hbd, hres, _, hclosed, hout, herrs⟩ :=
    resolveIdentities_model o ho r lk hlk vals0 (by
      intro dict errs hb x j hj
      rw [hbd'] at hb
      simp only [Option.some.injEq, Prod.mk.injEq] at hb
      obtain ⟨rfl, rfl⟩ := hb
      exact (below_iff_derives (medge_iff hyp hone gf hs hc) x j).mpr (hv0 x j hj))
  rw [hbd] at hbd'
  simp only [Option.some.injEq, Prod.mk.injEq] at hbd'
  obtain ⟨rfl, rfl⟩ := hbd'
  have hE := medge_iff hyp hone gf hs hc
  have hverts : ∀ v, (∃ e ∈ res.dict, e.vtx = v) ↔ v ∈ G.verts := by
    intro v
    constructor
    · rintro ⟨e, he, rfl⟩
      obtain ⟨_, _, _, _, _, hv, _⟩ := entry_vertex gf hs he
      exact hv
    · intro hv
      obtain ⟨m, hm, vs, hvs, rfl⟩ := (gf.verts v).mp hv
      obtain ⟨e, he, hev, _⟩ := vertex_entry hyp hone gf hs hc hm hvs
      exact ⟨e, he, hev⟩
  refine ⟨res, hres, hverts, ?_, ?_, ?_⟩
  · intro i hi
    obtain ⟨e, he, rfl⟩ := (hverts i).mpr hi
    obtain ⟨h1, h2⟩ := hclosed e he
    exact ⟨fun j => (h1 j).trans (below_iff_derives hE e.vtx j), h2⟩
  · intro x hx
    have hnone : ∀ e ∈ res.dict, e.vtx ≠ x := fun e he hev => hx ((hverts x).mp ⟨e, he, hev⟩)
    apply List.eq_nil_iff_forall_not_mem.mpr
    intro j hj
    have := (hout x hnone j).mp hj
    exact hx (derives_right_vertex gf (hv0 x j this))
  · rw [herrs, herr1, baseErrs_iff hyp hone gf hs hc, gf.orphans]
    constructor
    · rintro ⟨h1, h2, h3⟩
      refine ⟨?_, h2, ?_⟩
      · intro m hm
        obtain ⟨s, hin, hb⟩ := (parts_spec gf.parts m).mp hm
        exact h1 s hin m hb
      · intro v hv hd
        obtain ⟨e, he, rfl⟩ := (hverts v).mpr hv
        exact h3 e he ((below_iff_derives hE _ _).mpr hd)
    · rintro ⟨h1, h2, h3⟩
      refine ⟨?_, h2, ?_⟩
      · intro s hin m hb
        exact h1 m ((parts_spec gf.parts m).mpr ⟨s, hin, hb⟩)
      · intro e he hb
        exact h3 e.vtx ((hverts _).mp ⟨e, he, rfl⟩) ((below_iff_derives hE _ _).mp hb)

theorem pairwise_before {l : List Vtx} (h : l.Pairwise (fun a b => vtxLt a b = true)) :
    l.Pairwise Spec.Identity.Before :=
  h.imp (fun hab => (vtxLt_iff _ _).mp hab)

/-! ### finite checks that establish the hypotheses for a concrete loaded set -/

theorem regOK_of_entries {r : Registry}
    (h : ∀ kv ∈ r.modules, ∀ m, r.byId kv.2 = some m → m.isSub = false) : RegOK r := by
  intro k m hk
  unfold Registry.getModule KeyMap.get? at hk
  obtain ⟨id, hid, hb⟩ := Option.bind_eq_some_iff.mp hk
  obtain ⟨kv, hkv, rfl⟩ := Option.map_eq_some_iff.mp hid
  exact h kv (List.mem_of_find?_eq_some hkv) m hb

theorem linkOK_of_all {r : Registry} {lk : Link}
    (h : ∀ m ∈ r.mods, includeSucc r lk m.seq = includedBy r m.seq) : LinkOK r lk := by
  intro s _
  cases hb : r.byId s with
  | none => simp [includeSucc, includedBy, hb]
  | some m =>
    have := h m (byId_mem hb)
    rw [byId_seq hb] at this
    exact this

theorem acyclic_of_rank {G : Graph} (rank : Spec.Identity.Vertex → Nat)
    (h : ∀ e ∈ G.edges, rank e.2 < rank e.1) : Spec.Identity.Acyclic G := by
  have key : ∀ j i, Derives G j i → rank i < rank j := by
    intro j i hd
    induction hd with
    | base he => exact h _ he
    | step he _ ih => exact Nat.lt_trans ih (h _ he)
  intro v hv
  exact Nat.lt_irrefl _ (key v v hv)

end Goyang.Lemmas.Identity
