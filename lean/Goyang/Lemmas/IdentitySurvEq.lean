import Goyang.Lemmas.IdentityTotal
/-
Helper lemmas for C11, part 13: on a schema with one identity statement per vertex the graph of the
surviving statements (`survivorGraph`) is the identity graph (`graph`) up to the order of its lists.
-/
namespace Goyang.Lemmas.Identity
open Goyang.Model Goyang.Model.Identity
open Goyang.Spec.Identity (Reach includedBy loadedModules preorder preorderSteps statementsOf ascendingKeys
  registrationsFor registrations survivors vertexStmts parts graph Graph survivorGraph names Derives
  ValuesOK Acyclic AllBasesResolve OneStatementPerVertex)

/-- The two graphs hold the same vertices, edges and dangling bases, each the same number of times,
and the same orphans and missing references. -/
structure GraphPerm (G' G : Graph) : Prop where
  verts : G'.verts.Perm G.verts
  edges : G'.edges.Perm G.edges
  dangling : G'.dangling.Perm G.dangling
  orphans : G'.orphans = G.orphans
  missing : G'.missing = G.missing

theorem GraphPerm.symm {G' G : Graph} (h : GraphPerm G' G) : GraphPerm G G' :=
  ⟨h.verts.symm, h.edges.symm, h.dangling.symm, h.orphans.symm, h.missing.symm⟩

theorem GraphPerm.derives {G' G : Graph} (h : GraphPerm G' G) {j i : Spec.Identity.Vertex}
    (hd : Derives G' j i) : Derives G j i := by
  induction hd with
  | base he => exact Derives.base (h.edges.mem_iff.mp he)
  | step he _ ih => exact Derives.step (h.edges.mem_iff.mp he) ih

theorem GraphPerm.derives_iff {G' G : Graph} (h : GraphPerm G' G) (j i : Spec.Identity.Vertex) :
    Derives G' j i ↔ Derives G j i := ⟨h.derives, h.symm.derives⟩

theorem GraphPerm.valuesOK_iff {G' G : Graph} (h : GraphPerm G' G) (i : Spec.Identity.Vertex)
    (l : List Spec.Identity.Vertex) : ValuesOK G' i l ↔ ValuesOK G i l :=
  ⟨fun hv => ⟨fun j => (hv.exact j).trans (h.derives_iff j i), hv.ascending⟩,
   fun hv => ⟨fun j => (hv.exact j).trans (h.derives_iff j i).symm, hv.ascending⟩⟩

theorem GraphPerm.acyclic_iff {G' G : Graph} (h : GraphPerm G' G) : Acyclic G' ↔ Acyclic G :=
  ⟨fun ha v hv => ha v ((h.derives_iff v v).mpr hv), fun ha v hv => ha v ((h.derives_iff v v).mp hv)⟩

theorem perm_nil_iff {α : Type} {l1 l2 : List α} (h : l1.Perm l2) : l1 = [] ↔ l2 = [] :=
  ⟨fun e => (e ▸ h).symm.eq_nil, fun e => (e ▸ h).eq_nil⟩

theorem GraphPerm.allBasesResolve_iff {G' G : Graph} (h : GraphPerm G' G) :
    AllBasesResolve G' ↔ AllBasesResolve G := by
  unfold AllBasesResolve
  rw [perm_nil_iff h.dangling, h.orphans]

theorem GraphPerm.one_iff {G' G : Graph} (h : GraphPerm G' G) :
    OneStatementPerVertex G' ↔ OneStatementPerVertex G := h.verts.nodup_iff

/-! ### who is registered -/

/-- Every identity statement of the parts `ps`, with its vertex and declaring (sub)module. -/
def fullStmts (r : Registry) (ps : List Mod) : List Surv :=
  ps.flatMap fun m => (vertexStmts r m).map fun (v, s) => (v, m, s)

theorem statementsOf_eq (r : Registry) (ss : List Nat) : statementsOf r ss = fullStmts r (ss.filterMap r.byId) := rfl

theorem mem_fullStmts {r : Registry} {ps : List Mod} {x : Surv} :
    x ∈ fullStmts r ps ↔ ∃ m ∈ ps, ∃ vs ∈ vertexStmts r m, x = (vs.1, m, vs.2) := by
  unfold fullStmts
  simp only [List.mem_flatMap, List.mem_map]
  constructor
  · rintro ⟨m, hm, ⟨v, s⟩, hvs, rfl⟩; exact ⟨m, hm, (v, s), hvs, rfl⟩
  · rintro ⟨m, hm, ⟨v, s⟩, hvs, rfl⟩; exact ⟨m, hm, (v, s), hvs, rfl⟩

theorem fullStmts_verts (r : Registry) (ps : List Mod) :
    (fullStmts r ps).map (·.1) = (ps.flatMap (vertexStmts r)).map (·.1) := by
  unfold fullStmts
  rw [List.map_flatMap, List.map_flatMap]
  congr 1
  funext m
  rw [List.map_map]
  apply List.map_congr_left
  rintro ⟨v, s⟩ _
  rfl

theorem mem_registrationsFor (r : Registry) : ∀ (L : List Mod) (R : List Surv), registrationsFor r L = some R →
    ∀ x, x ∈ R ↔ ∃ md ∈ L, ∃ ss, preorder (includedBy r) (preorderSteps r) [md.seq] [] = some ss ∧
      x ∈ statementsOf r ss := by
  intro L
  induction L with
  | nil =>
    intro R h x
    simp only [registrationsFor, Option.some.injEq] at h
    subst h
    simp
  | cons md L ih =>
    intro R h x
    unfold registrationsFor at h
    cases hp : preorder (includedBy r) (preorderSteps r) [md.seq] [] with
    | none => simp [hp] at h
    | some ss =>
      simp only [hp] at h
      obtain ⟨R', hR', rfl⟩ := Option.map_eq_some_iff.mp h
      rw [List.mem_append, ih R' hR' x]
      constructor
      · rintro (hx | ⟨md', hmd', ss', hss', hx⟩)
        · exact ⟨md, List.mem_cons_self .., ss, hp, hx⟩
        · exact ⟨md', List.mem_cons_of_mem _ hmd', ss', hss', hx⟩
      · rintro ⟨md', hmd', ss', hss', hx⟩
        rcases List.mem_cons.mp hmd' with rfl | hmd'
        · rw [hp] at hss'
          cases hss'
          exact Or.inl hx
        · exact Or.inr ⟨md', hmd', ss', hss', hx⟩

/-- What the explicit-stack traversal lists from a (sub)module of the registry is what is reachable. -/
theorem preorder_reach (r : Registry) (md : Mod) (hmd : md ∈ r.mods) (ss : List Nat)
    (hp : preorder (includedBy r) (preorderSteps r) [md.seq] [] = some ss) (y : Nat) :
    y ∈ ss ↔ Reach (includedBy r) md.seq y := by
  obtain ⟨out, hw, _, hout⟩ := walk_nil (includedBy r) (r.mods.map (·.seq))
    (fun x _ y hy => includedBy_mem r x y hy) (r.mods.length + 1) md.seq
    (List.mem_map.mpr ⟨md, hmd, rfl⟩) (by rw [List.length_map]; omega)
  rw [walk_eq_preorder _ _ _ _ _ _ hw hp]
  exact hout y

theorem mem_ascendingKeys (l : List (String × Nat)) (kv : String × Nat) : kv ∈ ascendingKeys l ↔ kv ∈ l := by
  rw [ascendingKeys_eq, (sortStable_perm _ _).mem_iff, List.mem_reverse]

/-- The registered statements are the identity statements of the parts of the schema (each possibly
several times). -/
theorem mem_registrations {r : Registry} {ps : List Mod} {R : List Surv} (hps : parts r = some ps)
    (hR : registrations r = some R) (x : Surv) : x ∈ R ↔ x ∈ fullStmts r ps := by
  unfold registrations at hR
  rw [mem_registrationsFor r _ R hR x, mem_fullStmts]
  constructor
  · rintro ⟨md, hmd, ss, hss, hx⟩
    rw [statementsOf_eq, mem_fullStmts] at hx
    obtain ⟨m, hm, vs, hvs, rfl⟩ := hx
    refine ⟨m, ?_, vs, hvs, rfl⟩
    obtain ⟨s, hs, hsm⟩ := List.mem_filterMap.mp hm
    obtain ⟨kv, hkv, hkvm⟩ := List.mem_filterMap.mp hmd
    have hmd' : md ∈ moduleEntries r :=
      List.mem_filterMap.mpr ⟨kv, (mem_ascendingKeys _ _).mp hkv, hkvm⟩
    exact (parts_spec hps m).mpr ⟨s, ⟨md, hmd', (preorder_reach r md (byId_mem hkvm) ss hss s).mp hs⟩, hsm⟩
  · rintro ⟨m, hm, vs, hvs, rfl⟩
    obtain ⟨s, ⟨md, hmd, hreach⟩, hsm⟩ := (parts_spec hps m).mp hm
    obtain ⟨kv, hkv, hkvm⟩ := List.mem_filterMap.mp hmd
    obtain ⟨ss, hss⟩ := preorder_root_some r md.seq
    refine ⟨md, List.mem_filterMap.mpr ⟨kv, (mem_ascendingKeys _ _).mpr hkv, hkvm⟩, ss, hss, ?_⟩
    rw [statementsOf_eq, mem_fullStmts]
    exact ⟨m, List.mem_filterMap.mpr ⟨s, (preorder_reach r md (byId_mem hkvm) ss hss s).mpr hreach, hsm⟩,
      vs, hvs, rfl⟩

/-! ### survivors -/

theorem survivors_sub {β : Type} (L : List (Spec.Identity.Vertex × β)) (x : Spec.Identity.Vertex × β)
    (h : x ∈ survivors L) : x ∈ L := ((mem_survivors L x).mp h).mem

/-- Every registered vertex has a surviving statement. -/
theorem survivors_cover {β : Type} : ∀ (L : List (Spec.Identity.Vertex × β)) (x : Spec.Identity.Vertex × β),
    x ∈ L → ∃ y ∈ survivors L, y.1 = x.1 := by
  intro L
  induction L with
  | nil => intro x h; cases h
  | cons a rest ih =>
    intro x hx
    simp only [survivors]
    split
    · rename_i hany
      rcases List.mem_cons.mp hx with rfl | hx
      · obtain ⟨z, hz, hzk⟩ := List.any_eq_true.mp hany
        obtain ⟨y, hy, hyk⟩ := ih z hz
        exact ⟨y, hy, hyk.trans (beq_iff_eq.mp hzk)⟩
      · exact ih x hx
    · rcases List.mem_cons.mp hx with rfl | hx
      · exact ⟨x, List.mem_cons_self .., rfl⟩
      · obtain ⟨y, hy, hyk⟩ := ih x hx
        exact ⟨y, List.mem_cons_of_mem _ hy, hyk⟩

theorem nodup_of_map {α β : Type} (f : α → β) {l : List α} (h : (l.map f).Nodup) : l.Nodup :=
  List.Pairwise.of_map f (fun _ _ hne e => hne (congrArg f e)) h

/-- With one statement per vertex every statement survives: the survivors are the identity
statements of the parts, in another order. -/
theorem survivors_perm_full {r : Registry} {ps : List Mod} {R : List Surv} (hps : parts r = some ps)
    (hR : registrations r = some R) (hone : ((ps.flatMap (vertexStmts r)).map (·.1)).Nodup) :
    (survivors R).Perm (fullStmts r ps) := by
  have hfull : ((fullStmts r ps).map (·.1)).Nodup := by rw [fullStmts_verts]; exact hone
  apply (List.perm_ext_iff_of_nodup (nodup_of_map _ (survivors_nodup R)) (nodup_of_map _ hfull)).mpr
  intro x
  constructor
  · intro hx
    exact (mem_registrations hps hR x).mp (survivors_sub R x hx)
  · intro hx
    obtain ⟨y, hy, hyk⟩ := survivors_cover R x ((mem_registrations hps hR x).mpr hx)
    have hyf := (mem_registrations hps hR y).mp (survivors_sub R y hy)
    have : y = x := nodup_map_inj (·.1) _ hfull y hyf x hx hyk
    exact this ▸ hy

/-! ### the two graphs -/

/-- One base statement kept as an edge. -/
def edgeOf (verts : List Spec.Identity.Vertex) :
    Spec.Identity.Vertex × String × Option Spec.Identity.Vertex → Option (Spec.Identity.Vertex × Spec.Identity.Vertex) :=
  fun (v, _, t) =>
    match t with
    | some b => if b ∈ verts then some (v, b) else none
    | none => none

/-- One base statement kept as dangling. -/
def danglingOf (verts : List Spec.Identity.Vertex) :
    Spec.Identity.Vertex × String × Option Spec.Identity.Vertex → Option (Spec.Identity.Vertex × String) :=
  fun (v, a, t) =>
    match t with
    | some b => if b ∈ verts then none else some (v, a)
    | none => some (v, a)

theorem edgeOf_congr {V V' : List Spec.Identity.Vertex} (h : ∀ b, b ∈ V' ↔ b ∈ V) : edgeOf V' = edgeOf V := by
  funext ⟨v, a, t⟩
  cases t with
  | none => rfl
  | some b => simp only [edgeOf, h b]

theorem danglingOf_congr {V V' : List Spec.Identity.Vertex} (h : ∀ b, b ∈ V' ↔ b ∈ V) :
    danglingOf V' = danglingOf V := by
  funext ⟨v, a, t⟩
  cases t with
  | none => rfl
  | some b => simp only [danglingOf, h b]

theorem basesOf_eq (r : Registry) (ps : List Mod) : basesOf r ps = survBases r (fullStmts r ps) := by
  unfold basesOf survBases fullStmts
  rw [List.flatMap_assoc]
  congr 1
  funext m
  rw [List.flatMap_map]

/-- On a schema with one identity statement per vertex, `survivorGraph` answers and is `graph` up
to the order of the lists. -/
theorem survivorGraph_perm_graph {r : Registry} {G : Graph} (hG : graph r = some G)
    (hone : OneStatementPerVertex G) : ∃ G', survivorGraph r = some G' ∧ GraphPerm G' G := by
  unfold graph at hG
  obtain ⟨ps, hps, rfl⟩ := Option.map_eq_some_iff.mp hG
  obtain ⟨R, hR⟩ := registrations_some r
  have hp := survivors_perm_full hps hR hone
  have hverts : ((survivors R).map (·.1)).Perm ((ps.flatMap (vertexStmts r)).map (·.1)) := by
    rw [← fullStmts_verts]
    exact hp.map _
  have hmem : ∀ b, b ∈ (survivors R).map (·.1) ↔ b ∈ (ps.flatMap (vertexStmts r)).map (·.1) :=
    fun b => hverts.mem_iff
  have hbases : (survBases r (survivors R)).Perm (basesOf r ps) := by
    rw [basesOf_eq]
    exact hp.flatMap_right _
  refine ⟨_, by unfold survivorGraph; rw [hps, hR], ?_⟩
  refine ⟨hverts, ?_, ?_, rfl, rfl⟩
  · show ((survBases r (survivors R)).filterMap (edgeOf ((survivors R).map (·.1)))).Perm
      ((basesOf r ps).filterMap (edgeOf ((ps.flatMap (vertexStmts r)).map (·.1))))
    rw [edgeOf_congr hmem]
    exact hbases.filterMap _
  · show ((survBases r (survivors R)).filterMap (danglingOf ((survivors R).map (·.1)))).Perm
      ((basesOf r ps).filterMap (danglingOf ((ps.flatMap (vertexStmts r)).map (·.1))))
    rw [danglingOf_congr hmem]
    exact hbases.filterMap _

end Goyang.Lemmas.Identity
