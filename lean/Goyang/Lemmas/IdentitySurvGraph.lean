import Goyang.Lemmas.IdentitySurvive
/-
Helper lemmas for C11, part 11: `resolveIdentities` against the specification's graph of the
surviving statements (`survivorGraph`), for schemas with any number of identity statements per
vertex.  Same route as part 5 (`IdentitySpec`), with "the dictionary holds the survivors"
(`Agrees`) in the place of "one statement per vertex".
-/
namespace Goyang.Lemmas.Identity
open Goyang.Model Goyang.Model.Identity
open Goyang.Spec.Identity (Reach names parts graph Graph Derives survivorGraph registrations survivors)

abbrev Surv := Spec.Identity.Vertex × Mod × Stmt

/-- The base statements of the surviving statements: (vertex of the identity, argument, vertex named). -/
def survBases (r : Registry) (sv : List Surv) : List (Spec.Identity.Vertex × String × Option Spec.Identity.Vertex) :=
  sv.flatMap fun (v, m, s) => (s.all "base").map fun b => (v, b.arg, names r m b.arg)

theorem mem_survBases {r : Registry} {sv : List Surv} {x : Spec.Identity.Vertex × String × Option Spec.Identity.Vertex} :
    x ∈ survBases r sv ↔ ∃ y ∈ sv, ∃ b ∈ y.2.2.all "base", x = (y.1, b.arg, names r y.2.1 b.arg) := by
  unfold survBases
  simp only [List.mem_flatMap, List.mem_map]
  constructor
  · rintro ⟨⟨v, m, s⟩, hy, b, hb, rfl⟩
    exact ⟨(v, m, s), hy, b, hb, rfl⟩
  · rintro ⟨⟨v, m, s⟩, hy, b, hb, rfl⟩
    exact ⟨(v, m, s), hy, b, hb, rfl⟩

structure SurvFacts (r : Registry) (G : Graph) (ps : List Mod) (sv : List Surv) : Prop where
  parts : parts r = some ps
  vertsEq : G.verts = sv.map (·.1)
  verts : ∀ v, v ∈ G.verts ↔ ∃ x ∈ sv, x.1 = v
  edges : ∀ i b, (i, b) ∈ G.edges ↔ ∃ x ∈ sv, x.1 = i ∧ ∃ base ∈ x.2.2.all "base",
    names r x.2.1 base.arg = some b ∧ b ∈ G.verts
  dangling : G.dangling = [] ↔ ∀ x ∈ sv, ∀ base ∈ x.2.2.all "base",
    ∃ b, names r x.2.1 base.arg = some b ∧ b ∈ G.verts
  orphans : G.orphans = [] ↔ ∀ m ∈ ps, ∃ ow, r.owner m = some ow

theorem survivorGraph_facts {r : Registry} {G : Graph} (h : survivorGraph r = some G) :
    ∃ ps R, registrations r = some R ∧ SurvFacts r G ps (survivors R) := by
  unfold survivorGraph at h
  split at h
  · rename_i ps R hps hR
    simp only [Option.some.injEq] at h
    subst h
    refine ⟨ps, R, hR, hps, rfl, ?_, ?_, ?_, ?_⟩
    · intro v
      simp only [List.mem_map]
    · intro i b
      show (i, b) ∈ (survBases r (survivors R)).filterMap _ ↔ _
      simp only [List.mem_filterMap, mem_survBases]
      constructor
      · rintro ⟨x, ⟨y, hy, base, hbase, rfl⟩, hx⟩
        simp only at hx
        split at hx
        · rename_i b' hb'
          split at hx
          · rename_i hmem
            simp only [Option.some.injEq, Prod.mk.injEq] at hx
            obtain ⟨rfl, rfl⟩ := hx
            exact ⟨y, hy, rfl, base, hbase, hb', hmem⟩
          · cases hx
        · cases hx
      · rintro ⟨y, hy, rfl, base, hbase, hn, hmem⟩
        refine ⟨(y.1, base.arg, names r y.2.1 base.arg), ⟨y, hy, base, hbase, rfl⟩, ?_⟩
        simp only [hn]
        rw [if_pos hmem]
    · show (survBases r (survivors R)).filterMap _ = [] ↔ _
      rw [List.filterMap_eq_nil_iff]
      constructor
      · intro hall y hy base hbase
        have := hall (y.1, base.arg, names r y.2.1 base.arg) (mem_survBases.mpr ⟨y, hy, base, hbase, rfl⟩)
        simp only at this
        split at this
        · rename_i b hb
          split at this
          · rename_i hmem; exact ⟨b, hb, hmem⟩
          · cases this
        · cases this
      · intro hall x hx
        obtain ⟨y, hy, base, hbase, rfl⟩ := mem_survBases.mp hx
        obtain ⟨b, hb, hmem⟩ := hall y hy base hbase
        simp only [hb]
        rw [if_pos hmem]
    · show ((ps.filter fun m => (r.owner m).isNone).map (·.name)) = [] ↔ _
      rw [List.map_eq_nil_iff, List.filter_eq_nil_iff]
      constructor
      · intro hall m hm
        have := hall m hm
        cases ho : r.owner m with
        | none => simp [ho] at this
        | some ow => exact ⟨ow, rfl⟩
      · intro hall m hm
        obtain ⟨ow, ho⟩ := hall m hm
        simp [ho]
  · cases h

/-- The surviving statements define distinct vertices. -/
theorem survivors_nodup {β : Type} : ∀ (L : List (Spec.Identity.Vertex × β)), ((survivors L).map (·.1)).Nodup := by
  intro L
  induction L with
  | nil => simp [survivors]
  | cons a rest ih =>
    simp only [survivors]
    split
    · exact ih
    · rename_i hany
      rw [List.map_cons, List.nodup_cons]
      refine ⟨?_, ih⟩
      intro hm
      obtain ⟨y, hy, hk⟩ := List.mem_map.mp hm
      have := ((mem_survivors rest y).mp hy).mem
      exact hany (List.any_eq_true.mpr ⟨y, this, by simp [hk]⟩)

section AgreeS
variable {r : Registry} {G : Graph} {ps : List Mod} {sv : List Surv} {dict : Dict}

theorem get?_vertexS (hnc : ∀ m ∈ r.mods, ':' ∉ m.name.toList) (ag : Agrees r dict sv)
    {m : Mod} (hm : m ∈ r.mods) {arg : String} {v : Spec.Identity.Vertex} (hn : names r m arg = some v)
    {e : DEntry} (hg : dict.get? (Vtx.key v) = some e) : e ∈ dict ∧ e.vtx = v := by
  obtain ⟨he, hk⟩ := get?_some hg
  obtain ⟨_, _, _, hk', ow', how', hname'⟩ := ag.a1 e he
  obtain ⟨t, ht, hvt⟩ := names_mem hn hm
  refine ⟨he, key_inj ?_ ?_ (hk' ▸ hk)⟩
  · rw [hname']; exact hnc ow' how'
  · rw [hvt]; exact hnc t ht

/-- Resolution of one base argument written in a loaded (sub)module `m`, both ways. -/
theorem resolve_agreesS (hreg : RegOK r) (hnc : ∀ m ∈ r.mods, ':' ∉ m.name.toList) (sf : SurvFacts r G ps sv)
    (ag : Agrees r dict sv) {m : Mod} (hm : m ∈ r.mods) (arg : String) (b : Vtx) :
    (∃ eb, findIdentityBase r dict m arg = .ok eb ∧ eb.vtx = b) ↔ (names r m arg = some b ∧ b ∈ G.verts) := by
  constructor
  · rintro ⟨eb, hf, hb⟩
    obtain ⟨v, hn, hg⟩ := (findIdentityBase_ok r hreg dict m arg eb).mp hf
    obtain ⟨hmem, hv⟩ := get?_vertexS hnc ag hm hn hg
    obtain ⟨m', _, hsv, _⟩ := ag.a1 eb hmem
    rw [← hb, hv]
    exact ⟨hn, (sf.verts v).mpr ⟨_, hsv, hv⟩⟩
  · rintro ⟨hn, hb⟩
    obtain ⟨x, hx, hxv⟩ := (sf.verts b).mp hb
    obtain ⟨e, he, hev, _, _⟩ := ag.a2 x hx
    obtain ⟨_, _, _, hk, _⟩ := ag.a1 e he
    obtain ⟨eb, hg⟩ := get?_of_key (d := dict) (k := Vtx.key b) ⟨e, he, by rw [hk, hev, hxv]⟩
    exact ⟨eb, (findIdentityBase_ok r hreg dict m arg eb).mpr ⟨b, hn, hg⟩, (get?_vertexS hnc ag hm hn hg).2⟩

/-- The model's edges are the edges of the survivors' graph. -/
theorem medge_iffS (hreg : RegOK r) (hnc : ∀ m ∈ r.mods, ':' ∉ m.name.toList) (sf : SurvFacts r G ps sv)
    (ag : Agrees r dict sv) (b i : Vtx) : MEdge r dict b i ↔ (i, b) ∈ G.edges := by
  rw [sf.edges]
  constructor
  · rintro ⟨e, he, hei, eb, hrb, hebb⟩
    obtain ⟨m, hroot, hsv, _, _⟩ := ag.a1 e he
    unfold resolvedBases at hrb
    rw [hroot] at hrb
    obtain ⟨base, hbase, hf⟩ := List.mem_map.mp hrb
    obtain ⟨hn, hb⟩ := (resolve_agreesS hreg hnc sf ag (byId_mem hroot) base.arg b).mp ⟨eb, hf, hebb⟩
    exact ⟨_, hsv, hei, base, hbase, hn, hb⟩
  · rintro ⟨x, hx, hi, base, hbase, hn, hb⟩
    obtain ⟨e, he, hev, hest, hroot⟩ := ag.a2 x hx
    obtain ⟨eb, hf, hebb⟩ := (resolve_agreesS hreg hnc sf ag (byId_mem hroot) base.arg b).mpr ⟨hn, hb⟩
    refine ⟨e, he, hev.trans hi, eb, ?_, hebb⟩
    unfold resolvedBases
    rw [hroot]
    exact List.mem_map.mpr ⟨base, hest ▸ hbase, hf⟩

/-- No base statement of a dictionary entry fails iff the survivors' graph has no dangling base. -/
theorem baseErrs_iffS (hreg : RegOK r) (hnc : ∀ m ∈ r.mods, ':' ∉ m.name.toList) (sf : SurvFacts r G ps sv)
    (ag : Agrees r dict sv) : (∀ e ∈ dict, baseErrs r dict e = []) ↔ G.dangling = [] := by
  rw [sf.dangling]
  constructor
  · intro hall x hx base hbase
    obtain ⟨e, he, _, hest, hroot⟩ := ag.a2 x hx
    have hnil := hall e he
    unfold baseErrs resolvedBases at hnil
    rw [hroot, List.filterMap_eq_nil_iff] at hnil
    have := hnil (findIdentityBase r dict x.2.1 base.arg) (List.mem_map.mpr ⟨base, hest ▸ hbase, rfl⟩)
    cases hf : findIdentityBase r dict x.2.1 base.arg with
    | error err => simp [hf] at this
    | ok eb =>
      exact ⟨eb.vtx, (resolve_agreesS hreg hnc sf ag (byId_mem hroot) base.arg eb.vtx).mp ⟨eb, hf, rfl⟩⟩
  · intro hall e he
    obtain ⟨m, hroot, hsv, _, _⟩ := ag.a1 e he
    unfold baseErrs resolvedBases
    rw [hroot, List.filterMap_eq_nil_iff]
    intro rb hrb
    obtain ⟨base, hbase, rfl⟩ := List.mem_map.mp hrb
    obtain ⟨b, hn, hb⟩ := hall _ hsv base hbase
    obtain ⟨eb, hf, _⟩ := (resolve_agreesS hreg hnc sf ag (byId_mem hroot) base.arg b).mpr ⟨hn, hb⟩
    simp [hf]

end AgreeS

theorem derives_left_vertexS {r : Registry} {G : Graph} {ps : List Mod} {sv : List Surv} (sf : SurvFacts r G ps sv)
    {j i : Spec.Identity.Vertex} (h : Derives G j i) : j ∈ G.verts := by
  cases h with
  | base h =>
    obtain ⟨x, hx, hj, _⟩ := (sf.edges _ _).mp h
    exact (sf.verts _).mpr ⟨x, hx, hj⟩
  | step h _ =>
    obtain ⟨x, hx, hj, _⟩ := (sf.edges _ _).mp h
    exact (sf.verts _).mpr ⟨x, hx, hj⟩

/-- `resolveIdentities` against the graph of the surviving statements, for every admissible oracle,
whatever the number of identity statements per vertex. -/
theorem resolveIdentities_survivors (o : Oracle) (ho : o.Valid) (r : Registry) (lk : Link) (hlk : LinkOK r lk)
    (hreg : RegOK r) (hk : KeysDistinct r) (hnc : ∀ m ∈ r.mods, ':' ∉ m.name.toList)
    (G : Graph) (hG : survivorGraph r = some G) :
    ∃ res, resolveIdentities o r lk (fun _ => []) = some res ∧
      (∀ v, (∃ e ∈ res.dict, e.vtx = v) ↔ v ∈ G.verts) ∧
      (∀ i ∈ G.verts, (∀ j, j ∈ res.vals i ↔ Derives G j i) ∧
        (res.vals i).Pairwise (fun a b => vtxLt a b = true)) ∧
      (∀ x, x ∉ G.verts → res.vals x = []) ∧
      (res.errs = [] ↔ G.orphans = [] ∧ G.dangling = [] ∧ ∀ v ∈ G.verts, ¬ Derives G v v) := by
  obtain ⟨ps, R, hR, sf⟩ := survivorGraph_facts hG
  obtain ⟨dict', errs1', hbd', _, _, herr1⟩ := buildDict_spec o ho r lk hlk
  obtain ⟨res, errs1, hbd, hres, _, hclosed, hout, herrs⟩ :=
    resolveIdentities_model o ho r lk hlk (fun _ => []) (by intro _ _ _ _ _ h; cases h)
  rw [hbd] at hbd'
  simp only [Option.some.injEq, Prod.mk.injEq] at hbd'
  obtain ⟨rfl, rfl⟩ := hbd'
  have ag : Agrees r res.dict (survivors R) := buildDict_survivors o ho r lk hlk hk hnc R hR _ _ hbd
  have hE := medge_iffS hreg hnc sf ag
  have hverts : ∀ v, (∃ e ∈ res.dict, e.vtx = v) ↔ v ∈ G.verts := by
    intro v
    constructor
    · rintro ⟨e, he, rfl⟩
      obtain ⟨m, _, hsv, _⟩ := ag.a1 e he
      exact (sf.verts _).mpr ⟨_, hsv, rfl⟩
    · intro hv
      obtain ⟨x, hx, rfl⟩ := (sf.verts v).mp hv
      obtain ⟨e, he, hev, _⟩ := ag.a2 x hx
      exact ⟨e, he, hev⟩
  refine ⟨res, hres, hverts, ?_, ?_, ?_⟩
  · intro i hi
    obtain ⟨e, he, rfl⟩ := (hverts i).mpr hi
    obtain ⟨h1, h2⟩ := hclosed e he
    exact ⟨fun j => (h1 j).trans (below_iff_derives hE e.vtx j), h2⟩
  · intro x hx
    have hnone : ∀ e ∈ res.dict, e.vtx ≠ x := fun e he hev => hx ((hverts x).mp ⟨e, he, hev⟩)
    apply List.eq_nil_iff_forall_not_mem.mpr
    intro j hj
    have := (hout x hnone j).mp hj
    cases this
  · rw [herrs, herr1, baseErrs_iffS hreg hnc sf ag, sf.orphans]
    constructor
    · rintro ⟨h1, h2, h3⟩
      refine ⟨?_, h2, ?_⟩
      · intro m hm
        obtain ⟨s, hin, hb⟩ := (parts_spec sf.parts m).mp hm
        exact h1 s hin m hb
      · intro v hv hd
        obtain ⟨e, he, rfl⟩ := (hverts v).mpr hv
        exact h3 e he ((below_iff_derives hE _ _).mpr hd)
    · rintro ⟨h1, h2, h3⟩
      refine ⟨?_, h2, ?_⟩
      · intro s hin m hb
        exact h1 m ((parts_spec sf.parts m).mpr ⟨s, hin, hb⟩)
      · intro e he hb
        exact h3 e.vtx ((hverts _).mp ⟨e, he, rfl⟩) ((below_iff_derives hE _ _).mp hb)

/-- `findIdentityBase` against the dictionary `resolveIdentities` builds, for every admissible
oracle: a base argument written in a loaded (sub)module resolves exactly when it names a surviving
vertex, and then to that vertex's dictionary entry. -/
theorem findIdentityBase_survivors (o : Oracle) (ho : o.Valid) (r : Registry) (lk : Link) (hlk : LinkOK r lk)
    (hreg : RegOK r) (hk : KeysDistinct r) (hnc : ∀ m ∈ r.mods, ':' ∉ m.name.toList)
    (G : Graph) (hG : survivorGraph r = some G) :
    ∃ res, resolveIdentities o r lk (fun _ => []) = some res ∧
      ∀ m ∈ r.mods, ∀ (arg : String) (v : Vtx),
        (∃ e, findIdentityBase r res.dict m arg = .ok e ∧ e ∈ res.dict ∧ e.vtx = v) ↔
          (names r m arg = some v ∧ v ∈ G.verts) := by
  obtain ⟨ps, R, hR, sf⟩ := survivorGraph_facts hG
  obtain ⟨res, errs1, hbd, hres, _⟩ :=
    resolveIdentities_model o ho r lk hlk (fun _ => []) (by intro _ _ _ _ _ h; cases h)
  have ag : Agrees r res.dict (survivors R) := buildDict_survivors o ho r lk hlk hk hnc R hR _ _ hbd
  refine ⟨res, hres, ?_⟩
  intro m hm arg v
  have hagree := resolve_agreesS hreg hnc sf ag hm arg v
  constructor
  · rintro ⟨e, hf, _, hv⟩
    exact hagree.mp ⟨e, hf, hv⟩
  · intro h
    obtain ⟨e, hf, hv⟩ := hagree.mpr h
    refine ⟨e, hf, ?_, hv⟩
    unfold findIdentityBase at hf
    simp only at hf
    repeat' split at hf
    all_goals first
      | (cases hf; done)
      | (cases hf; exact (get?_some (by assumption)).1)

end Goyang.Lemmas.Identity
