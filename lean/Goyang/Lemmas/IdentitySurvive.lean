import Goyang.Lemmas.IdentityNames
/-
Helper lemmas for C11, part 10: schemas with several identity statements for one vertex.  The
dictionary `buildDict` ends with holds, for every key, the entry that was bound last; read as
(vertex, declaring (sub)module, statement) these are the `survivors` of the specification's
`registrations`.
-/
namespace Goyang.Lemmas.Identity
open Goyang.Model Goyang.Model.Identity
open Goyang.Spec.Identity (Reach includedBy preorder insertKey ascendingKeys preorderSteps statementsOf
  registrationsFor registrations survivors vertexStmts)

/-! ### the last element with a given key -/

section Last
variable {β γ κ κ' : Type}

/-- `x` is in the list and no later element has the same key. -/
def LastIn (k : β → κ) : List β → β → Prop
  | [], _ => False
  | e :: E, x => (x = e ∧ ∀ y ∈ E, k y ≠ k x) ∨ LastIn k E x

theorem LastIn.mem {k : β → κ} : ∀ {E : List β} {x : β}, LastIn k E x → x ∈ E
  | [], _, h => nomatch h
  | e :: E, x, h => by
    rcases h with ⟨rfl, _⟩ | h
    · exact List.mem_cons_self ..
    · exact List.mem_cons_of_mem _ (LastIn.mem h)

theorem lastIn_map (k : β → κ) (k' : γ → κ') (f : β → γ) : ∀ (E : List β),
    (∀ e ∈ E, ∀ e' ∈ E, (k' (f e) = k' (f e') ↔ k e = k e')) →
    ∀ x, LastIn k' (E.map f) x ↔ ∃ e, LastIn k E e ∧ f e = x := by
  intro E
  induction E with
  | nil => intro _ x; simp [LastIn]
  | cons e0 E ih =>
    intro hk x
    have ih' := ih (fun a ha b hb => hk a (List.mem_cons_of_mem _ ha) b (List.mem_cons_of_mem _ hb)) x
    simp only [List.map_cons, LastIn]
    rw [ih']
    constructor
    · rintro (⟨rfl, hall⟩ | ⟨e, he, hfe⟩)
      · refine ⟨e0, Or.inl ⟨rfl, ?_⟩, rfl⟩
        intro y hy hky
        exact hall (f y) (List.mem_map.mpr ⟨y, hy, rfl⟩)
          ((hk y (List.mem_cons_of_mem _ hy) e0 (List.mem_cons_self ..)).mpr hky)
      · exact ⟨e, Or.inr he, hfe⟩
    · rintro ⟨e, (⟨rfl, hall⟩ | he), hfe⟩
      · left
        refine ⟨hfe.symm, ?_⟩
        intro y hy
        obtain ⟨y0, hy0, rfl⟩ := List.mem_map.mp hy
        intro hky
        rw [← hfe] at hky
        exact hall y0 hy0 ((hk y0 (List.mem_cons_of_mem _ hy0) e (List.mem_cons_self ..)).mp hky)
      · exact Or.inr ⟨e, he, hfe⟩

end Last

theorem mem_survivors {β : Type} : ∀ (L : List (Spec.Identity.Vertex × β)) (x : Spec.Identity.Vertex × β),
    x ∈ survivors L ↔ LastIn (·.1) L x := by
  intro L
  induction L with
  | nil => intro x; simp [survivors, LastIn]
  | cons a rest ih =>
    intro x
    simp only [survivors, LastIn]
    by_cases hany : rest.any (fun y => y.1 == a.1) = true
    · rw [if_pos hany, ih x]
      constructor
      · exact Or.inr
      · rintro (⟨rfl, hall⟩ | h)
        · obtain ⟨y, hy, hk⟩ := List.any_eq_true.mp hany
          exact absurd (beq_iff_eq.mp hk) (hall y hy)
        · exact h
    · rw [if_neg hany, List.mem_cons, ih x]
      constructor
      · rintro (rfl | h)
        · left
          refine ⟨rfl, ?_⟩
          intro y hy hk
          exact hany (List.any_eq_true.mpr ⟨y, hy, by simp [hk]⟩)
        · exact Or.inr h
      · rintro (⟨rfl, _⟩ | h)
        · exact Or.inl rfl
        · exact Or.inr h

/-! ### `dict[k] = e`, again: who is there at the end -/

theorem mem_bind_iff (d : Dict) (e x : DEntry) : x ∈ d.bind e ↔ x = e ∨ (x ∈ d ∧ x.key ≠ e.key) := by
  unfold Dict.bind
  split
  · rename_i hany
    simp only [List.mem_map]
    constructor
    · rintro ⟨y, hy, hxy⟩
      split at hxy
      · exact Or.inl hxy.symm
      · rename_i hne
        subst hxy
        exact Or.inr ⟨hy, fun h => hne (by simp [h])⟩
    · rintro (rfl | ⟨hx, hne⟩)
      · obtain ⟨y, hy, hk⟩ := List.any_eq_true.mp hany
        exact ⟨y, hy, by simp [hk]⟩
      · exact ⟨x, hx, by simp [hne]⟩
  · rename_i hany
    simp only [List.mem_append, List.mem_singleton]
    constructor
    · rintro (h | h)
      · refine Or.inr ⟨h, fun hk => hany (List.any_eq_true.mpr ⟨x, h, by simp [hk]⟩)⟩
      · exact Or.inl h
    · rintro (h | ⟨h, _⟩)
      · exact Or.inr h
      · exact Or.inl h

theorem mem_foldl_bind_iff : ∀ (E : List DEntry) (d : Dict) (x : DEntry),
    x ∈ E.foldl Dict.bind d ↔ LastIn (·.key) E x ∨ (x ∈ d ∧ ∀ y ∈ E, y.key ≠ x.key) := by
  intro E
  induction E with
  | nil => intro d x; simp [LastIn]
  | cons e E ih =>
    intro d x
    simp only [List.foldl_cons, LastIn]
    rw [ih, mem_bind_iff]
    constructor
    · rintro (h | ⟨(rfl | ⟨hx, hne⟩), hall⟩)
      · exact Or.inl (Or.inr h)
      · exact Or.inl (Or.inl ⟨rfl, hall⟩)
      · right
        refine ⟨hx, ?_⟩
        intro y hy
        rcases List.mem_cons.mp hy with rfl | hy
        · exact fun h => hne h.symm
        · exact hall y hy
    · rintro ((⟨rfl, hall⟩ | h) | ⟨hx, hall⟩)
      · exact Or.inr ⟨Or.inl rfl, hall⟩
      · exact Or.inl h
      · exact Or.inr ⟨Or.inr ⟨hx, fun h => hall e (List.mem_cons_self ..) h.symm⟩,
          fun y hy => hall y (List.mem_cons_of_mem _ hy)⟩

/-! ### the entries in the order in which they are bound -/

/-- The entries `registerMod` binds for (sub)module `m`, in order. -/
def entriesOf (r : Registry) (m : Mod) : List DEntry :=
  match r.owner m with
  | some ow => (identities m).zipIdx.map (mkEntry ow m)
  | none => []

def seqEntries (r : Registry) (s : Nat) : List DEntry :=
  match r.byId s with
  | some m => entriesOf r m
  | none => []

theorem regSeq_fst (r : Registry) (acc : Dict × List Err) (s : Nat) :
    (regSeq r acc s).1 = (seqEntries r s).foldl Dict.bind acc.1 := by
  unfold regSeq seqEntries
  cases hm : r.byId s with
  | none => rfl
  | some m =>
    simp only
    unfold entriesOf
    cases how : r.owner m with
    | none => simp only [List.foldl_nil]; exact (registerMod_none r m how acc).1
    | some ow => rw [registerMod_some r m ow how acc]

theorem regFold_fst (r : Registry) : ∀ (cl : List Nat) (acc : Dict × List Err),
    (cl.foldl (regSeq r) acc).1 = (cl.flatMap (seqEntries r)).foldl Dict.bind acc.1 := by
  intro cl
  induction cl with
  | nil => intro acc; rfl
  | cons s cl ih =>
    intro acc
    simp only [List.foldl_cons, List.flatMap_cons, List.foldl_append]
    rw [ih, regSeq_fst]

/-- An entry made from an identity statement of a loaded (sub)module with a loaded owner. -/
def EOK (r : Registry) (e : DEntry) : Prop :=
  ∃ m ow, r.byId e.root = some m ∧ r.owner m = some ow ∧ e.vtx = (ow.name, e.stmt.arg) ∧ e.key = Vtx.key e.vtx

theorem seqEntries_ok (r : Registry) (s : Nat) : ∀ e ∈ seqEntries r s, EOK r e := by
  intro e he
  unfold seqEntries at he
  cases hm : r.byId s with
  | none => simp [hm] at he
  | some m =>
    simp only [hm] at he
    unfold entriesOf at he
    cases how : r.owner m with
    | none => simp [how] at he
    | some ow =>
      simp only [how] at he
      obtain ⟨si, _, rfl⟩ := List.mem_map.mp he
      exact ⟨m, ow, byId_self hm, how, rfl, rfl⟩

/-- An entry read as the specification's (vertex, declaring (sub)module, statement). -/
def specOf (r : Registry) (e : DEntry) : Spec.Identity.Vertex × Mod × Stmt :=
  (e.vtx, (r.byId e.root).getD default, e.stmt)

theorem seqEntries_spec (r : Registry) : ∀ (cl : List Nat),
    (cl.flatMap (seqEntries r)).map (specOf r) = statementsOf r cl := by
  intro cl
  unfold statementsOf
  induction cl with
  | nil => rfl
  | cons s cl ih =>
    simp only [List.flatMap_cons, List.map_append, List.filterMap_cons]
    rw [ih]
    unfold seqEntries
    cases hm : r.byId s with
    | none => simp
    | some m =>
      simp only [List.flatMap_cons]
      congr 1
      unfold entriesOf vertexStmts
      cases how : r.owner m with
      | none => simp
      | some ow =>
        simp only [List.map_map]
        have hself := byId_self hm
        have : ∀ (k : Nat) (l : List Stmt),
            (l.zipIdx k).map (specOf r ∘ mkEntry ow m) =
              l.map ((fun (vs : Spec.Identity.Vertex × Stmt) => (vs.1, m, vs.2)) ∘ fun s => ((ow.name, s.arg), s)) := by
          intro k l
          induction l generalizing k with
          | nil => rfl
          | cons a l ih2 =>
            simp only [List.zipIdx_cons, List.map_cons, ih2]
            congr 1
            simp [specOf, mkEntry, hself]
        exact this 0 _

/-! ### the recursive walk and the explicit stack list the same -/

theorem preorder_mono {α : Type} [DecidableEq α] (succ : α → List α) : ∀ (n : Nat) (todo seen out : List α),
    preorder succ n todo seen = some out → ∀ k, preorder succ (n + k) todo seen = some out := by
  intro n
  induction n with
  | zero => intro todo seen out h; simp [preorder] at h
  | succ n ih =>
    intro todo seen out h k
    rw [Nat.add_right_comm]
    cases todo with
    | nil => simpa [preorder] using h
    | cons x todo =>
      simp only [preorder] at h ⊢
      split
      · rename_i hx; rw [if_pos hx] at h; exact ih _ _ _ h k
      · rename_i hx; rw [if_neg hx] at h; exact ih _ _ _ h k

theorem walk_preorder {α : Type} [DecidableEq α] (succ : α → List α) : ∀ (fuel : Nat) (r : α) (ids out : List α),
    walk succ fuel r ids = some out →
      ∃ c, ∀ n todo, preorder succ (n + c) (r :: todo) ids = preorder succ n todo out := by
  intro fuel
  induction fuel with
  | zero => intro r ids out h; simp [walk] at h
  | succ fuel ih =>
    intro r ids out h
    unfold walk at h
    by_cases hin : r ∈ ids
    · rw [if_pos hin] at h
      cases h
      exact ⟨1, fun n todo => by simp [preorder, hin]⟩
    · rw [if_neg hin] at h
      have fold : ∀ (cs acc out : List α), cs.foldlM (fun acc ch => walk succ fuel ch acc) acc = some out →
          ∃ c, ∀ n todo, preorder succ (n + c) (cs ++ todo) acc = preorder succ n todo out := by
        intro cs
        induction cs with
        | nil =>
          intro acc out h
          simp only [List.foldlM, pure, Option.some.injEq] at h
          subst h
          exact ⟨0, fun n todo => rfl⟩
        | cons c cs ihc =>
          intro acc out h
          simp only [List.foldlM_cons] at h
          cases hw : walk succ fuel c acc with
          | none => simp [hw] at h
          | some o1 =>
            simp only [hw, Option.bind_eq_bind, Option.bind_some] at h
            obtain ⟨c1, h1⟩ := ih c acc o1 hw
            obtain ⟨c2, h2⟩ := ihc o1 out h
            refine ⟨c2 + c1, fun n todo => ?_⟩
            rw [← Nat.add_assoc, List.cons_append, h1, h2]
      obtain ⟨c, hc⟩ := fold (succ r) (ids ++ [r]) out h
      refine ⟨c + 1, fun n todo => ?_⟩
      rw [← Nat.add_assoc]
      simp only [preorder, hin, if_false]
      exact hc n todo

/-- When both answer, the recursive walk from `r` and the explicit-stack traversal list the same
nodes in the same order. -/
theorem walk_eq_preorder {α : Type} [DecidableEq α] (succ : α → List α) (fuel steps : Nat) (r : α)
    (out ss : List α) (h1 : walk succ fuel r [] = some out) (h2 : preorder succ steps [r] [] = some ss) :
    ss = out := by
  obtain ⟨c, hc⟩ := walk_preorder succ fuel r [] out h1
  have h3 : preorder succ (1 + c) [r] [] = some out := by rw [hc 1 []]; rfl
  have a := preorder_mono succ _ _ _ _ h2 (1 + c)
  have b := preorder_mono succ _ _ _ _ h3 steps
  rw [Nat.add_comm] at b
  rw [a] at b
  exact Option.some.inj b

theorem foldlM_congr_opt {α β : Type} {f g : β → α → Option β} : ∀ (cs : List α) (a : β),
    (∀ acc, ∀ c ∈ cs, f acc c = g acc c) → cs.foldlM f a = cs.foldlM g a := by
  intro cs
  induction cs with
  | nil => intro a _; rfl
  | cons c cs ih =>
    intro a h
    simp only [List.foldlM_cons]
    rw [h a c (List.mem_cons_self ..)]
    cases g a c with
    | none => rfl
    | some b => exact ih b (fun acc x hx => h acc x (List.mem_cons_of_mem _ hx))

/-- The walk looks at the successors of what it reaches only. -/
theorem walk_congr {α : Type} [DecidableEq α] {s1 s2 : α → List α} : ∀ (fuel : Nat) (r : α) (ids : List α),
    (∀ x, Reach s2 r x → s1 x = s2 x) → walk s1 fuel r ids = walk s2 fuel r ids := by
  intro fuel
  induction fuel with
  | zero => intro r ids _; rfl
  | succ fuel ih =>
    intro r ids h
    unfold walk
    split
    · rfl
    · rw [h r (Reach.refl r)]
      apply foldlM_congr_opt
      intro acc c hc
      exact ih c acc (fun x hx => h x (Reach.step hc hx))

/-! ### ascending keys -/

theorem insertKey_eq (kv : String × Nat) (l : List (String × Nat)) :
    insertKey kv l = insertSorted (fun a b => decide (a.1 < b.1)) kv l := by
  induction l with
  | nil => rfl
  | cons x xs ih =>
    simp only [insertKey, insertSorted, decide_eq_true_eq]
    split
    · rfl
    · rw [ih]

theorem ascendingKeys_eq (l : List (String × Nat)) :
    ascendingKeys l = sortStable (fun a b => decide (a.1 < b.1)) l.reverse := by
  unfold ascendingKeys sortStable
  rw [List.foldl_reverse]
  congr 1
  funext kv acc
  exact insertKey_eq kv acc

/-- The dictionary loop visits the modules by ascending key, as the specification says. -/
theorem modulesByKey_ascending (o : Oracle) (ho : o.Valid) (r : Registry) (hk : KeysDistinct r) :
    modulesByKey o r = (ascendingKeys r.modules).filterMap fun kv => r.byId kv.2 := by
  unfold modulesByKey
  rw [ascendingKeys_eq]
  have hp : (o.order siteModules r.modules).Perm r.modules.reverse :=
    (ho _ siteModules r.modules).trans (List.reverse_perm _).symm
  have hnd : ((o.order siteModules r.modules).map (·.1)).Nodup :=
    ((ho _ siteModules r.modules).map _).nodup_iff.mpr hk
  rw [sortByKey_unique _ _ hp hnd]

/-! ### the dictionary holds the survivors -/

/-- The dictionary and the surviving statements are the same thing. -/
structure Agrees (r : Registry) (dict : Dict) (sv : List (Spec.Identity.Vertex × Mod × Stmt)) : Prop where
  a1 : ∀ e ∈ dict, ∃ m, r.byId e.root = some m ∧ (e.vtx, m, e.stmt) ∈ sv ∧ e.key = Vtx.key e.vtx ∧
    ∃ ow ∈ r.mods, e.vtx.1 = ow.name
  a2 : ∀ x ∈ sv, ∃ e ∈ dict, e.vtx = x.1 ∧ e.stmt = x.2.2 ∧ r.byId e.root = some x.2.1

theorem agrees_of_entries (r : Registry) (hnc : ∀ m ∈ r.mods, ':' ∉ m.name.toList) (E : List DEntry)
    (hE : ∀ e ∈ E, EOK r e) : Agrees r (E.foldl Dict.bind []) (survivors (E.map (specOf r))) := by
  have hkey : ∀ e ∈ E, ∀ e' ∈ E, ((specOf r e).1 = (specOf r e').1 ↔ e.key = e'.key) := by
    intro e he e' he'
    obtain ⟨m, ow, hm, how, hv, hk⟩ := hE e he
    obtain ⟨m', ow', hm', how', hv', hk'⟩ := hE e' he'
    show e.vtx = e'.vtx ↔ _
    constructor
    · intro h; rw [hk, hk', h]
    · intro h
      rw [hk, hk'] at h
      apply key_inj _ _ h
      · rw [hv]; exact hnc ow (owner_mem how (byId_mem hm))
      · rw [hv']; exact hnc ow' (owner_mem how' (byId_mem hm'))
  have hlast := lastIn_map (fun (e : DEntry) => e.key) (fun (x : Spec.Identity.Vertex × Mod × Stmt) => x.1)
    (specOf r) E hkey
  constructor
  · intro e he
    have hl : LastIn (·.key) E e := by
      rcases (mem_foldl_bind_iff E [] e).mp he with h | ⟨h, _⟩
      · exact h
      · cases h
    obtain ⟨m, ow, hm, how, hv, hk⟩ := hE e hl.mem
    refine ⟨m, hm, ?_, hk, ow, owner_mem how (byId_mem hm), by rw [hv]⟩
    have : specOf r e = (e.vtx, m, e.stmt) := by simp [specOf, hm]
    rw [← this, mem_survivors]
    exact (hlast _).mpr ⟨e, hl, rfl⟩
  · intro x hx
    obtain ⟨e, hl, rfl⟩ := (hlast x).mp ((mem_survivors _ _).mp hx)
    obtain ⟨m, ow, hm, how, hv, hk⟩ := hE e hl.mem
    refine ⟨e, (mem_foldl_bind_iff E [] e).mpr (Or.inl hl), rfl, rfl, ?_⟩
    simp [specOf, hm]

/-- The dictionary loop over the modules `L`, against the specification's registrations for `L`. -/
theorem dictFold_entries (r : Registry) (lk : Link) (hlk : LinkOK r lk) : ∀ (L : List Mod),
    (∀ md ∈ L, md ∈ moduleEntries r) → ∀ (acc res : Dict × List Err) (R : List (Spec.Identity.Vertex × Mod × Stmt)),
    L.foldlM (dictStep r lk) acc = some res → registrationsFor r L = some R →
    ∃ E : List DEntry, res.1 = E.foldl Dict.bind acc.1 ∧ E.map (specOf r) = R ∧ ∀ e ∈ E, EOK r e := by
  intro L
  induction L with
  | nil =>
    intro _ acc res R h hR
    have h : acc = res := by simpa using h
    simp only [registrationsFor, Option.some.injEq] at hR
    subst h hR
    exact ⟨[], rfl, rfl, by simp⟩
  | cons md L ih =>
    intro hL acc res R h hR
    simp only [List.foldlM_cons] at h
    have hmd := hL md (List.mem_cons_self ..)
    unfold dictStep at h
    cases hw : walk (includeSucc r lk) (r.mods.length + 1) md.seq [] with
    | none => simp [hw] at h
    | some cl =>
      simp only [hw, Option.bind_eq_bind, Option.bind_some] at h
      unfold registrationsFor at hR
      cases hp : preorder (includedBy r) (preorderSteps r) [md.seq] [] with
      | none => simp [hp] at hR
      | some ss =>
        simp only [hp] at hR
        obtain ⟨R', hR', rfl⟩ := Option.map_eq_some_iff.mp hR
        have hw' : walk (includedBy r) (r.mods.length + 1) md.seq [] = some cl := by
          rw [← hw]
          exact (walk_congr _ _ _ (fun x hx => hlk x ⟨md, hmd, hx⟩)).symm
        have hss : ss = cl := walk_eq_preorder _ _ _ _ _ _ hw' hp
        subst hss
        obtain ⟨E', hE1, hE2, hE3⟩ := ih (fun x hx => hL x (List.mem_cons_of_mem _ hx)) _ res R' h hR'
        refine ⟨ss.flatMap (seqEntries r) ++ E', ?_, ?_, ?_⟩
        · rw [hE1, regFold_fst, List.foldl_append]
        · rw [List.map_append, hE2, seqEntries_spec]
        · intro e he
          rcases List.mem_append.mp he with he | he
          · obtain ⟨s, _, hes⟩ := List.mem_flatMap.mp he
            exact seqEntries_ok r s e hes
          · exact hE3 e he

/-- For every admissible oracle: the dictionary the first loop of `resolveIdentities` builds holds
exactly the surviving statements of the specification. -/
theorem buildDict_survivors (o : Oracle) (ho : o.Valid) (r : Registry) (lk : Link) (hlk : LinkOK r lk)
    (hk : KeysDistinct r) (hnc : ∀ m ∈ r.mods, ':' ∉ m.name.toList)
    (R : List (Spec.Identity.Vertex × Mod × Stmt)) (hR : registrations r = some R)
    (dict : Dict) (errs : List Err) (hbd : buildDict o r lk = some (dict, errs)) :
    Agrees r dict (survivors R) := by
  rw [buildDict_eq] at hbd
  unfold registrations at hR
  rw [← modulesByKey_ascending o ho r hk] at hR
  obtain ⟨E, hE1, hE2, hE3⟩ := dictFold_entries r lk hlk (modulesByKey o r)
    (fun md hmd => (mem_modulesByKey o ho r md).mp hmd) ([], []) (dict, errs) R hbd hR
  simp only at hE1
  rw [hE1, ← hE2]
  exact agrees_of_entries r hnc E hE3

end Goyang.Lemmas.Identity
