import Goyang.Lemmas.IdentitySurvGraph
/-
Helper lemmas for C11, part 12: the specification always answers.  `preorder` finishes within
`preorderSteps r` steps, `closure` within `r.mods.length + 1` rounds — for EVERY registry, loaded or
not — so `parts`, `registrations`, `graph` and `survivorGraph` are `some`.
-/
namespace Goyang.Lemmas.Identity
open Goyang.Model Goyang.Model.Identity
open Goyang.Spec.Identity (Reach closure includedBy loadedModules preorder preorderSteps statementsOf
  registrationsFor registrations parts graph Graph survivorGraph)

/-! ### the explicit-stack traversal finishes -/

section PreorderSome
variable {α β : Type} [DecidableEq α]

/-- Total weight of the elements of the universe whose key has not been listed yet. -/
def potential (key : β → α) (w : β → Nat) : List β → List α → Nat
  | [], _ => 0
  | b :: U, seen => (if key b ∈ seen then 0 else w b) + potential key w U seen

theorem potential_mono (key : β → α) (w : β → Nat) (U : List β) {seen seen' : List α}
    (h : ∀ x ∈ seen, x ∈ seen') : potential key w U seen' ≤ potential key w U seen := by
  induction U with
  | nil => simp [potential]
  | cons u us ih =>
    simp only [potential]
    by_cases h1 : key u ∈ seen
    · have h2 : key u ∈ seen' := h _ h1
      simp only [h1, h2, if_true]; omega
    · by_cases h2 : key u ∈ seen'
      · simp only [h1, h2, if_true, if_false]; omega
      · simp only [h1, h2, if_false]; omega

theorem potential_drop (key : β → α) (w : β → Nat) (U : List β) {seen : List α} {x : α} {b : β}
    (hb : b ∈ U) (hk : key b = x) (hn : x ∉ seen) :
    potential key w U (seen ++ [x]) + w b ≤ potential key w U seen := by
  induction U with
  | nil => cases hb
  | cons u us ih =>
    simp only [potential]
    have hle := potential_mono key w us (seen := seen) (seen' := seen ++ [x])
      (fun y hy => List.mem_append_left _ hy)
    rcases List.mem_cons.mp hb with rfl | hb'
    · have h1 : key b ∉ seen := by rw [hk]; exact hn
      have h2 : key b ∈ seen ++ [x] := by rw [hk]; simp
      simp only [h1, h2, if_true, if_false]; omega
    · have := ih hb'
      by_cases h1 : key u ∈ seen
      · have h2 : key u ∈ seen ++ [x] := List.mem_append_left _ h1
        simp only [h1, h2, if_true]; omega
      · by_cases h2 : key u ∈ seen ++ [x]
        · simp only [h1, h2, if_true, if_false]; omega
        · simp only [h1, h2, if_false]; omega

theorem potential_nil (key : β → α) (w : β → Nat) (U : List β) : potential key w U [] = (U.map w).sum := by
  induction U with
  | nil => rfl
  | cons u us ih => simp [potential, ih]

/-- `preorder` answers when the step budget exceeds the length of the stack plus the number of
successors that can still be pushed. -/
theorem preorder_some (succ : α → List α) (key : β → α) (w : β → Nat) (U : List β)
    (hs : ∀ x, succ x = [] ∨ ∃ b ∈ U, key b = x ∧ (succ x).length ≤ w b) :
    ∀ (n : Nat) (todo seen : List α), todo.length + potential key w U seen + 1 ≤ n →
      ∃ out, preorder succ n todo seen = some out := by
  intro n
  induction n with
  | zero => intro todo seen h; omega
  | succ n ih =>
    intro todo seen h
    cases todo with
    | nil => exact ⟨seen, rfl⟩
    | cons x todo =>
      simp only [preorder]
      simp only [List.length_cons] at h
      by_cases hx : x ∈ seen
      · rw [if_pos hx]
        exact ih todo seen (by omega)
      · rw [if_neg hx]
        apply ih
        rw [List.length_append]
        rcases hs x with h0 | ⟨b, hb, hk, hw⟩
        · rw [h0]
          have := potential_mono key w U (seen := seen) (seen' := seen ++ [x])
            (fun y hy => List.mem_append_left _ hy)
          simp only [List.length_nil]; omega
        · have := potential_drop key w U hb hk hx
          omega

end PreorderSome

theorem includedBy_weight (r : Registry) (x : Nat) :
    includedBy r x = [] ∨ ∃ b ∈ r.mods, b.seq = x ∧ (includedBy r x).length ≤ b.includes.length := by
  unfold includedBy
  cases hm : r.byId x with
  | none => exact Or.inl rfl
  | some m => exact Or.inr ⟨m, byId_mem hm, byId_seq hm, List.length_filterMap_le _ _⟩

/-- The traversal the specification runs for one loaded module finishes within its step budget. -/
theorem preorder_root_some (r : Registry) (s : Nat) :
    ∃ ss, preorder (includedBy r) (preorderSteps r) [s] [] = some ss := by
  apply preorder_some (includedBy r) (fun m : Mod => m.seq) (fun m => m.includes.length) r.mods
    (includedBy_weight r)
  rw [potential_nil]
  unfold preorderSteps
  simp only [List.length_cons, List.length_nil]
  omega

theorem registrationsFor_some (r : Registry) : ∀ (L : List Mod), ∃ R, registrationsFor r L = some R := by
  intro L
  induction L with
  | nil => exact ⟨[], rfl⟩
  | cons md L ih =>
    obtain ⟨ss, hss⟩ := preorder_root_some r md.seq
    obtain ⟨R, hR⟩ := ih
    exact ⟨statementsOf r ss ++ R, by simp [registrationsFor, hss, hR]⟩

/-- The specification's list of registrations exists for every registry. -/
theorem registrations_some (r : Registry) : ∃ R, registrations r = some R :=
  registrationsFor_some r _

/-! ### the breadth-first rounds finish -/

section ClosureSome
variable {α : Type} [DecidableEq α]

theorem closure_some (succ : α → List α) (U : List α) (hU : ∀ x ∈ U, ∀ y ∈ succ x, y ∈ U) :
    ∀ (rounds : Nat) (s : List α), (∀ x ∈ s, x ∈ U) → unv U s < rounds →
      ∃ out, closure succ rounds s = some out := by
  intro rounds
  induction rounds with
  | zero => intro s _ h; omega
  | succ n ih =>
    intro s hs hlt
    unfold closure
    simp only
    split
    · exact ⟨s, rfl⟩
    · rename_i hne
      have hnew : ∀ z ∈ ((s.flatMap succ).filter (fun a => decide (a ∉ s))).eraseDups, z ∈ U ∧ z ∉ s := by
        intro z hz
        rw [List.mem_eraseDups] at hz
        simp only [List.mem_filter, List.mem_flatMap, decide_eq_true_eq] at hz
        obtain ⟨⟨x, hx, hzx⟩, hzs⟩ := hz
        exact ⟨hU x (hs x hx) z hzx, hzs⟩
      apply ih
      · intro x hx
        rcases List.mem_append.mp hx with hx | hx
        · exact hs x hx
        · exact (hnew x hx).1
      · cases hnl : ((s.flatMap succ).filter (fun a => decide (a ∉ s))).eraseDups with
        | nil => rw [hnl] at hne; simp at hne
        | cons z rest =>
          have hz := hnew z (by rw [hnl]; exact List.mem_cons_self ..)
          have h1 := unv_lt U hz.1 hz.2
          have h2 := unv_mono U (ids := s ++ [z]) (ids' := s ++ z :: rest) (by
            intro y hy
            rcases List.mem_append.mp hy with hy | hy
            · exact List.mem_append_left _ hy
            · simp only [List.mem_singleton] at hy
              subst hy
              exact List.mem_append_right _ (List.mem_cons_self ..))
          omega

end ClosureSome

theorem includedBy_mem (r : Registry) (x y : Nat) (hy : y ∈ includedBy r x) : y ∈ r.mods.map (·.seq) := by
  unfold includedBy at hy
  split at hy
  · obtain ⟨i, _, hi⟩ := List.mem_filterMap.mp hy
    obtain ⟨m', hm', rfl⟩ := Option.map_eq_some_iff.mp hi
    obtain ⟨id, hid⟩ := findModule_byId hm'
    exact List.mem_map.mpr ⟨m', byId_mem hid, rfl⟩
  · cases hy

/-- The parts of the schema exist for every registry. -/
theorem parts_some (r : Registry) : ∃ ps, parts r = some ps := by
  unfold parts
  obtain ⟨out, hout⟩ := closure_some (includedBy r) (r.mods.map (·.seq))
    (fun x _ y hy => includedBy_mem r x y hy) (r.mods.length + 1)
    ((loadedModules r).map (·.seq)).eraseDups
    (by
      intro x hx
      rw [List.mem_eraseDups] at hx
      obtain ⟨md, hmd, rfl⟩ := List.mem_map.mp hx
      unfold loadedModules at hmd
      obtain ⟨kv, _, hkv⟩ := List.mem_filterMap.mp hmd
      exact List.mem_map.mpr ⟨md, byId_mem hkv, rfl⟩)
    (by
      have := unv_le (r.mods.map (·.seq)) ((loadedModules r).map (·.seq)).eraseDups
      rw [List.length_map] at this
      omega)
  exact ⟨_, by rw [hout]; rfl⟩

theorem graph_some (r : Registry) : ∃ G, graph r = some G := by
  obtain ⟨ps, hps⟩ := parts_some r
  unfold graph
  rw [hps]
  exact ⟨_, rfl⟩

theorem survivorGraph_some (r : Registry) : ∃ G, survivorGraph r = some G := by
  obtain ⟨ps, hps⟩ := parts_some r
  obtain ⟨R, hR⟩ := registrations_some r
  unfold survivorGraph
  rw [hps, hR]
  exact ⟨_, rfl⟩

end Goyang.Lemmas.Identity
