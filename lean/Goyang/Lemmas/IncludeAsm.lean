import Goyang.Lemmas.IncludeAsmDefs
/-
C13 (third sentence), part 4b: the combinatorial side.  Splitting the top-level statements of a
module over an owner and included submodules gives, when the unsplit result is error free, an
error-free result with the same children in another order (`assembly`).

Structure: (1) appending children (`ext`) and what `add`, `merge none`, `importErrors` do when the
result is error free; (2) the field steps of a (sub)module statement over constant recursive calls
as functions of the entry alone (`stepE`, `pfold_fst`, `pfold_fst_indep`); (3) closed form of the
fold over the fields (`foldFs_iff`, `foldFs_eq`); (4) the permutation of the contributions.
-/
namespace Goyang.Lemmas.IncludeAsm
open Goyang.Model Goyang.Spec.Include Goyang.Lemmas.Tree Goyang.Spec.Tree Goyang.Lemmas.IncludeRel
open Goyang.Lemmas.IncludePure

/-! ### appending children -/

/-- Names of a list of entries. -/
def nm (l : List Entry) : List String := l.map Entry.name

/-- `e` with the children `L` appended. -/
def ext (e : Entry) (L : List Entry) : Entry := match e with | .mk d c i o => .mk d (c ++ L) i o

theorem ext_nil (e : Entry) : ext e [] = e := by cases e; simp [ext]
theorem ext_ext (e : Entry) (A B : List Entry) : ext (ext e A) B = ext e (A ++ B) := by cases e; simp [ext]
theorem ext_dir (e : Entry) (L : List Entry) : (ext e L).dir = e.dir ++ L := by cases e; rfl
theorem ext_d (e : Entry) (L : List Entry) : (ext e L).d = e.d := by cases e; rfl
theorem ext_inp (e : Entry) (L : List Entry) : (ext e L).inp = e.inp := by cases e; rfl
theorem ext_out (e : Entry) (L : List Entry) : (ext e L).out = e.out := by cases e; rfl

theorem clean_ext (e : Entry) (L : List Entry) : Clean (ext e L) ↔ Clean e ∧ ∀ x ∈ L, Clean x := by
  cases e
  simp only [ext, clean_mk, List.mem_append]
  constructor
  · rintro ⟨a, b, c, d⟩
    exact ⟨⟨fun x hx => a x (Or.inl hx), b, c, d⟩, fun x hx => a x (Or.inr hx)⟩
  · rintro ⟨⟨a, b, c, d⟩, h⟩
    exact ⟨fun x hx => hx.elim (a x) (h x), b, c, d⟩

theorem clean_dir {e : Entry} (h : Clean e) : ∀ x ∈ e.dir, Clean x := by
  cases e; exact ((clean_mk _ _ _ _).1 h).1

theorem child?_none_iff (e : Entry) (k : String) : e.child? k = none ↔ k ∉ nm e.dir := by
  unfold Entry.child? nm
  simp [List.find?_eq_none, List.mem_map]

theorem add_eq (e : Entry) (k : String) (c : Entry) (h : k ∉ nm e.dir) : e.add k c = ext e [c] := by
  unfold Entry.add
  rw [(child?_none_iff e k).2 h]
  cases e; rfl

theorem add_clean_iff (e : Entry) (k : String) (c : Entry) :
    Clean (e.add k c) ↔ Clean e ∧ Clean c ∧ k ∉ nm e.dir := by
  constructor
  · intro h
    obtain ⟨h1, h2, h3⟩ := clean_add e k c h
    exact ⟨h1, h2, (child?_none_iff e k).1 h3⟩
  · rintro ⟨h1, h2, h3⟩
    rw [add_eq e k c h3, clean_ext]
    exact ⟨h1, by simpa using h2⟩

theorem importErrors_clean (e c : Entry) (hc : Clean c) : e.importErrors c = e := by
  cases c
  unfold Clean at hc
  simp only [Entry.allErrors, List.append_eq_nil_iff] at hc
  cases e
  simp [Entry.importErrors, Entry.addErrs, Entry.withD, Entry.d, Entry.dir, Entry.inp, Entry.out, hc]

theorem mergeFold_eq (x : Err) (vs : List Entry) (e : Entry) (h : (nm (e.dir ++ vs)).Nodup) :
    vs.foldl (OrderIndep.step none x) e = ext e vs := by
  induction vs generalizing e with
  | nil => simp [ext_nil]
  | cons v vs ih =>
    simp only [List.foldl_cons]
    have hv : v.name ∉ nm e.dir := by
      unfold nm at h ⊢
      simp only [List.map_append, List.map_cons, List.nodup_append, List.mem_cons] at h
      intro hm
      exact h.2.2 _ hm _ (Or.inl rfl) rfl
    have hs : OrderIndep.step none x e v = ext e [v] := by
      unfold OrderIndep.step
      simp only [OrderIndep.stamp]
      rw [(child?_none_iff e v.name).2 hv]
      cases e; rfl
    rw [hs, ih, ext_ext]
    · rfl
    · rw [ext_dir]; simpa using h

theorem mergeFold_bwd (x : Err) (vs : List Entry) (e : Entry) (h : Clean (vs.foldl (OrderIndep.step none x) e))
    (hnd : (nm e.dir).Nodup) : Clean e ∧ (nm (e.dir ++ vs)).Nodup := by
  induction vs generalizing e with
  | nil => exact ⟨h, by simpa using hnd⟩
  | cons v vs ih =>
    simp only [List.foldl_cons] at h
    by_cases hv : v.name ∈ nm e.dir
    · exfalso
      have hs : OrderIndep.step none x e v = e.addErr x := by
        unfold OrderIndep.step
        simp only [OrderIndep.stamp]
        cases hc : e.child? v.name with
        | none => exact absurd hv ((child?_none_iff e v.name).1 hc)
        | some _ => rfl
      rw [hs] at h
      have hd : (e.addErr x).dir = e.dir := by cases e; rfl
      exact not_clean_addErr _ _ (ih _ h (by rw [hd]; exact hnd)).1
    · have hs : OrderIndep.step none x e v = ext e [v] := by
        unfold OrderIndep.step
        simp only [OrderIndep.stamp]
        rw [(child?_none_iff e v.name).2 hv]
        cases e; rfl
      rw [hs] at h
      have hnd' : (nm (ext e [v]).dir).Nodup := by
        rw [ext_dir]
        unfold nm at hnd hv ⊢
        simp only [List.map_append, List.map_cons, List.map_nil]
        rw [List.nodup_append]
        refine ⟨hnd, by simp, ?_⟩
        intro a ha b hb
        simp only [List.mem_singleton] at hb
        subst hb
        intro hab; subst hab; exact hv ha
      obtain ⟨h1, h2⟩ := ih _ h hnd'
      rw [ext_dir] at h2
      exact ⟨((clean_ext _ _).1 h1).1, by simpa using h2⟩

theorem merge_eq' (e oe : Entry) (hc : Clean oe) (h : (nm (e.dir ++ oe.dir)).Nodup) :
    e.merge none oe = ext e oe.dir := by
  rw [OrderIndep.merge_eq, importErrors_clean e oe hc]
  exact mergeFold_eq _ _ _ h

theorem merge_clean_iff (e oe : Entry) (hnd : (nm e.dir).Nodup) :
    Clean (e.merge none oe) ↔ Clean e ∧ Clean oe ∧ (nm (e.dir ++ oe.dir)).Nodup := by
  constructor
  · intro h
    obtain ⟨h1, h2⟩ := clean_merge e none oe h
    rw [OrderIndep.merge_eq, importErrors_clean e oe h2] at h
    exact ⟨h1, h2, (mergeFold_bwd _ _ _ h hnd).2⟩
  · rintro ⟨h1, h2, h3⟩
    rw [merge_eq' e oe h2 h3, clean_ext]
    exact ⟨h1, clean_dir h2⟩

theorem nodup_prefix {a b c : List Entry} (h : (nm (a ++ (b ++ c))).Nodup) : (nm (a ++ b)).Nodup := by
  rw [← List.append_assoc] at h
  unfold nm at *
  rw [List.map_append] at h
  exact (List.nodup_append.1 h).1

theorem nodup_snoc (l : List Entry) (x : Entry) : (nm (l ++ [x])).Nodup ↔ (nm l).Nodup ∧ x.name ∉ nm l := by
  unfold nm
  simp only [List.map_append, List.map_cons, List.map_nil]
  rw [List.nodup_append]
  constructor
  · rintro ⟨h1, _, h3⟩
    exact ⟨h1, fun hm => h3 _ hm _ (by simp) rfl⟩
  · rintro ⟨h1, h2⟩
    refine ⟨h1, by simp, ?_⟩
    intro a ha b hb
    simp only [List.mem_singleton] at hb
    subst hb
    intro hab; subst hab; exact h2 ha

/-! ### the five kinds of field steps of a (sub)module statement -/

inductive Cls | uses | rpc | add | imp | skip
  deriving DecidableEq

/-- Go: `e.RPC = &RPCEntry{}` on the entry of an rpc statement. -/
def setRpc (e : Entry) : Entry := e.withD fun d => { d with isRpc := true }

theorem setRpc_name (e : Entry) : (setRpc e).name = e.name := by cases e; rfl
theorem clean_setRpc (e : Entry) : Clean (setRpc e) ↔ Clean e := clean_withD e _ (fun _ => rfl)

section Op
variable {α : Type} (key : α → String) (val : α → Entry)

/-- The children that converting `c` contributes. -/
def contribC (k : Cls) (c : α) : List Entry :=
  match k with
  | .uses => (val c).dir
  | .rpc => [setRpc (val c)]
  | .add => [val c]
  | _ => []

/-- What converting `c` does to the entry under construction. -/
def opC (k : Cls) (e : Entry) (c : α) : Entry :=
  match k with
  | .uses => e.merge none (val c)
  | .rpc => e.add (key c) (setRpc (val c))
  | .add => e.add (key c) (val c)
  | .imp => e.importErrors (val c)
  | .skip => e

theorem contribC_clean (k : Cls) (c : α) (h : k ≠ .skip → Clean (val c)) : ∀ x ∈ contribC val k c, Clean x := by
  cases k
  · exact clean_dir (h (by decide))
  · intro x hx
    simp only [contribC, List.mem_singleton] at hx
    subst hx
    exact (clean_setRpc _).2 (h (by decide))
  · intro x hx
    simp only [contribC, List.mem_singleton] at hx
    subst hx
    exact h (by decide)
  · intro x hx; simp [contribC] at hx
  · intro x hx; simp [contribC] at hx

theorem opC_clean_left (k : Cls) (e : Entry) (c : α) (h : Clean (opC key val k e c)) : Clean e := by
  cases k
  · exact (clean_merge e none (val c) h).1
  · exact (clean_add e (key c) (setRpc (val c)) h).1
  · exact (clean_add e (key c) (val c) h).1
  · exact ((clean_importErrors e (val c)).1 h).1
  · exact h

theorem opC_iff (k : Cls) (e : Entry) (c : α)
    (hname : (k = .rpc ∨ k = .add) → Clean (val c) → (val c).name = key c) (hnd : (nm e.dir).Nodup) :
    Clean (opC key val k e c) ↔
      Clean e ∧ (k ≠ .skip → Clean (val c)) ∧ (nm (e.dir ++ contribC val k c)).Nodup := by
  cases k
  · simp only [opC, contribC]
    rw [merge_clean_iff e (val c) hnd]
    simp
  · simp only [opC, contribC]
    rw [add_clean_iff, nodup_snoc, setRpc_name, clean_setRpc]
    constructor
    · rintro ⟨h1, h2, h3⟩
      exact ⟨h1, fun _ => h2, hnd, by rw [hname (Or.inl rfl) h2]; exact h3⟩
    · rintro ⟨h1, h2, _, h3⟩
      have h2' := h2 (by decide)
      exact ⟨h1, h2', by rw [← hname (Or.inl rfl) h2']; exact h3⟩
  · simp only [opC, contribC]
    rw [add_clean_iff, nodup_snoc]
    constructor
    · rintro ⟨h1, h2, h3⟩
      exact ⟨h1, fun _ => h2, hnd, by rw [hname (Or.inr rfl) h2]; exact h3⟩
    · rintro ⟨h1, h2, _, h3⟩
      have h2' := h2 (by decide)
      exact ⟨h1, h2', by rw [← hname (Or.inr rfl) h2']; exact h3⟩
  · simp only [opC, contribC, List.append_nil]
    rw [clean_importErrors]
    constructor
    · rintro ⟨h1, h2⟩; exact ⟨h1, fun _ => h2, hnd⟩
    · rintro ⟨h1, h2, _⟩; exact ⟨h1, h2 (by decide)⟩
  · simp only [opC, contribC, List.append_nil]
    constructor
    · intro h; exact ⟨h, fun h => absurd rfl h, hnd⟩
    · rintro ⟨h, _⟩; exact h

theorem opC_eq (k : Cls) (e : Entry) (c : α)
    (hname : (k = .rpc ∨ k = .add) → Clean (val c) → (val c).name = key c)
    (h1 : k ≠ .skip → Clean (val c)) (h2 : (nm (e.dir ++ contribC val k c)).Nodup) :
    opC key val k e c = ext e (contribC val k c) := by
  cases k
  · exact merge_eq' e (val c) (h1 (by decide)) h2
  · simp only [opC, contribC] at h2 ⊢
    rw [nodup_snoc, setRpc_name, hname (Or.inl rfl) (h1 (by decide))] at h2
    exact add_eq _ _ _ h2.2
  · simp only [opC, contribC] at h2 ⊢
    rw [nodup_snoc, hname (Or.inr rfl) (h1 (by decide))] at h2
    exact add_eq _ _ _ h2.2
  · simp only [opC, contribC, ext_nil]
    exact importErrors_clean _ _ (h1 (by decide))
  · simp only [opC, contribC, ext_nil]

theorem foldC_clean_left (k : Cls) (l : List α) (e : Entry) (h : Clean (l.foldl (opC key val k) e)) : Clean e := by
  induction l generalizing e with
  | nil => exact h
  | cons c l ih => exact opC_clean_left key val k e c (ih _ h)

theorem foldC_eq (k : Cls) (l : List α)
    (hname : ∀ c ∈ l, (k = .rpc ∨ k = .add) → Clean (val c) → (val c).name = key c) (e : Entry)
    (h1 : k ≠ .skip → ∀ c ∈ l, Clean (val c)) (h2 : (nm (e.dir ++ l.flatMap (contribC val k))).Nodup) :
    l.foldl (opC key val k) e = ext e (l.flatMap (contribC val k)) := by
  induction l generalizing e with
  | nil => simp [ext_nil]
  | cons c l ih =>
    simp only [List.foldl_cons, List.flatMap_cons] at h2 ⊢
    rw [opC_eq key val k e c (hname c (List.mem_cons_self ..)) (fun hk => h1 hk c (List.mem_cons_self ..)) (nodup_prefix h2)]
    rw [ih (fun c hc => hname c (List.mem_cons_of_mem _ hc)) _ (fun hk c hc => h1 hk c (List.mem_cons_of_mem _ hc))
      (by rw [ext_dir, List.append_assoc]; exact h2), ext_ext]

theorem foldC_iff (k : Cls) (l : List α)
    (hname : ∀ c ∈ l, (k = .rpc ∨ k = .add) → Clean (val c) → (val c).name = key c) (e : Entry)
    (hnd : (nm e.dir).Nodup) :
    Clean (l.foldl (opC key val k) e) ↔
      Clean e ∧ (k ≠ .skip → ∀ c ∈ l, Clean (val c)) ∧ (nm (e.dir ++ l.flatMap (contribC val k))).Nodup := by
  constructor
  · intro h
    induction l generalizing e with
    | nil => exact ⟨h, fun _ _ hc => absurd hc (by simp), by simpa using hnd⟩
    | cons c l ih =>
      simp only [List.foldl_cons] at h
      have hc' := foldC_clean_left key val k l _ h
      obtain ⟨a1, a2, a3⟩ := (opC_iff key val k e c (hname c (List.mem_cons_self ..)) hnd).1 hc'
      have heq := opC_eq key val k e c (hname c (List.mem_cons_self ..)) a2 a3
      rw [heq] at h
      obtain ⟨_, b2, b3⟩ := ih (fun c hc => hname c (List.mem_cons_of_mem _ hc)) _ (by rw [ext_dir]; exact a3) h
      rw [ext_dir, List.append_assoc] at b3
      refine ⟨a1, ?_, by simpa only [List.flatMap_cons] using b3⟩
      intro hk x hx
      rcases List.mem_cons.1 hx with rfl | hx
      · exact a2 hk
      · exact b2 hk x hx
  · rintro ⟨h0, h1, h2⟩
    rw [foldC_eq key val k l hname e h1 h2, clean_ext]
    refine ⟨h0, ?_⟩
    intro x hx
    obtain ⟨c, hc, hxc⟩ := List.mem_flatMap.1 hx
    exact contribC_clean val k c (fun hk => h1 hk c hc) x hxc

end Op

/-! ### the field steps over constant recursive calls -/

/-- Keywords whose statements are converted and added under their argument, as they are. -/
def plainKws : List String := ["notification", "list", "leaf-list", "leaf", "container", "choice", "anyxml", "anydata"]

def cls (f : String) : Cls :=
  if f = "uses" then .uses
  else if f = "rpc" then .rpc
  else if f ∈ plainKws then .add
  else if f = "grouping" ∨ f = "deviation" then .imp
  else .skip

/-- The description step. -/
def descE (X : Stmt) (e : Entry) : Entry :=
  match X.argOf? "description" with
  | some s => e.withD fun d => { d with description := s }
  | none => e

def dIf (f : String) (X : Stmt) (e : Entry) : Entry := if f = "description" then descE X e else e

/-- The field step `f` of the (sub)module statement `X` as a function of the entry. -/
def stepE (v : Stmt → Entry) (X : Stmt) (f : String) (e : Entry) : Entry :=
  dIf f X ((X.all f).foldl (opC Stmt.arg v (cls f)) e)

theorem foldl_fst_eq {α : Type} (G : Entry → α → Entry) (H : Entry × TState → α → Entry × TState)
    (hH : ∀ a c, (H a c).1 = G a.1 c) (l : List α) (acc : Entry × TState) :
    (l.foldl H acc).1 = l.foldl G acc.1 := by
  induction l generalizing acc with
  | nil => rfl
  | cons c l ih => simp only [List.foldl_cons]; rw [ih, hH]

theorem foldl_skip {α : Type} (val : α → Entry) (key : α → String) (l : List α) (e : Entry) :
    l.foldl (opC key val .skip) e = e := by
  induction l generalizing e with
  | nil => rfl
  | cons c l ih => simp only [List.foldl_cons]; exact ih _

theorem stepFn_prefix (env : Env) (rec : Rec) (root : Mod) (X : Stmt) (sub : List Stmt) (vis : List NodeId) (isMod : Bool)
    (acc : Entry × TState) : stepFn env rec root X sub vis isMod acc "prefix" = acc := by
  rfl

theorem stepFn_identity (env : Env) (rec : Rec) (root : Mod) (X : Stmt) (sub : List Stmt) (vis : List NodeId) (isMod : Bool)
    (acc : Entry × TState) : stepFn env rec root X sub vis isMod acc "identity" = acc := by
  rfl

theorem stepFn_fst (env : Env) (v : Stmt → Entry) (root : Mod) (X : Stmt) (sub : List Stmt) (vis : List NodeId)
    (acc : Entry × TState) (f : String) (hf : f ∈ preFields ++ postFields) :
    (stepFn env (constRec v) root X sub vis true acc f).1 = stepE v X f acc.1 := by
  simp only [preFields, postFields, List.cons_append, List.nil_append, List.mem_cons, List.mem_nil_iff, or_false] at hf
  rcases hf with rfl | rfl | rfl | rfl | rfl | rfl | rfl | rfl | rfl | rfl | rfl | rfl | rfl | rfl | rfl | rfl
  case inr.inr.inl =>
    rw [stepFn_prefix]
    simp only [stepE, dIf, cls, plainKws, List.mem_cons, List.mem_nil_iff, String.reduceEq, if_false, or_self, foldl_skip]
  case inr.inr.inr.inr.inr.inr.inr.inl =>
    rw [stepFn_identity]
    simp only [stepE, dIf, cls, plainKws, List.mem_cons, List.mem_nil_iff, String.reduceEq, if_false, or_self, foldl_skip]
  all_goals unfold stepFn
  all_goals simp only []
  all_goals simp only [stepE, dIf, cls, plainKws, List.mem_cons, List.mem_nil_iff, String.reduceEq, if_true, if_false, or_false, or_true, or_self, foldl_skip]
  all_goals first
    | exact foldl_fst_eq _ _ (fun a c => rfl) _ _
    | (unfold addAllFn; exact foldl_fst_eq _ _ (fun a c => rfl) _ _)
    | rfl

/-- The field steps `fs` as a function of the entry. -/
def foldFs (v : Stmt → Entry) (X : Stmt) (fs : List String) (e : Entry) : Entry :=
  fs.foldl (fun e f => stepE v X f e) e

theorem pfold_fst (env : Env) (v : Stmt → Entry) (root : Mod) (X : Stmt) (fs : List String)
    (hfs : ∀ f ∈ fs, f ∈ preFields ++ postFields) (acc : Entry × TState) :
    (pfold env v root X fs acc).1 = foldFs v X fs acc.1 := by
  unfold pfold foldFs
  induction fs generalizing acc with
  | nil => rfl
  | cons f fs ih =>
    simp only [List.foldl_cons]
    rw [ih (fun g hg => hfs g (List.mem_cons_of_mem _ hg)), stepFn_fst _ _ _ _ _ _ _ _ (hfs f (List.mem_cons_self ..))]

theorem foldl_fst_congr {α : Type} (H : Entry × TState → α → Entry × TState)
    (hH : ∀ a b c, a.1 = b.1 → (H a c).1 = (H b c).1) (l : List α) (a b : Entry × TState) (h : a.1 = b.1) :
    (l.foldl H a).1 = (l.foldl H b).1 := by
  induction l generalizing a b with
  | nil => exact h
  | cons c l ih => simp only [List.foldl_cons]; exact ih _ _ (hH a b c h)

/-- Every field step but the include step (which consults the merged-submodule keys of the state)
computes the entry from the entry alone, when the recursive calls are constant. -/
theorem stepFn_fst_indep (env : Env) (v : Stmt → Entry) (root : Mod) (X : Stmt) (sub : List Stmt) (vis : List NodeId)
    (isMod : Bool) (a b : Entry × TState) (h : a.1 = b.1) (f : String)
    (hf : f = "include" → X.all "include" = []) :
    (stepFn env (constRec v) root X sub vis isMod a f).1 = (stepFn env (constRec v) root X sub vis isMod b f).1 := by
  obtain ⟨e, t⟩ := a
  obtain ⟨e', t'⟩ := b
  dsimp only at h
  subst h
  revert hf
  unfold stepFn
  dsimp only
  split
  all_goals intro hf
  all_goals first
    | rfl
    | (rw [hf rfl]; rfl)
    | (unfold addAllFn; exact foldl_fst_congr _ (fun a b c h => by dsimp only [constRec]; rw [h]) _ _ _ rfl)
    | exact foldl_fst_congr _ (fun a b c h => by dsimp only [constRec]; rw [h]) _ _ _ rfl
    | (split <;> rfl)
    | (split <;> (try split) <;> rfl)

/-- The entry that the field steps compute does not depend on the state they start from (no include
step among them, or no include substatement). -/
theorem pfold_fst_congr (env : Env) (v : Stmt → Entry) (root : Mod) (X : Stmt) (fs : List String)
    (hfs : "include" ∈ fs → X.all "include" = []) (a b : Entry × TState) (h : a.1 = b.1) :
    (pfold env v root X fs a).1 = (pfold env v root X fs b).1 := by
  unfold pfold
  induction fs generalizing a b with
  | nil => exact h
  | cons f fs ih =>
    simp only [List.foldl_cons]
    exact ih (fun hm => hfs (List.mem_cons_of_mem _ hm)) _ _
      (stepFn_fst_indep env v root X [X] [] true a b h f (fun hf => hfs (hf ▸ List.mem_cons_self ..)))

theorem pfold_fst_indep (env : Env) (v : Stmt → Entry) (root : Mod) (X : Stmt) (fs : List String)
    (hfs : "include" ∈ fs → X.all "include" = []) (e : Entry) (t t' : TState) :
    (pfold env v root X fs (e, t)).1 = (pfold env v root X fs (e, t')).1 :=
  pfold_fst_congr env v root X fs hfs (e, t) (e, t') rfl

/-- The same for field steps among `preFields ++ postFields` (no include step there). -/
theorem pfold_fst_indep' (env : Env) (v : Stmt → Entry) (root : Mod) (X : Stmt) (fs : List String)
    (hfs : ∀ f ∈ fs, f ∈ preFields ++ postFields) (e : Entry) (t t' : TState) :
    (pfold env v root X fs (e, t)).1 = (pfold env v root X fs (e, t')).1 :=
  pfold_fst_indep env v root X fs (fun h => absurd (hfs _ h) (by decide)) e t t'

/-! ### closed form of the fold over the fields -/

theorem descE_dir (X : Stmt) (e : Entry) : (descE X e).dir = e.dir := by
  unfold descE; split <;> cases e <;> rfl
theorem descE_inp (X : Stmt) (e : Entry) : (descE X e).inp = e.inp := by
  unfold descE; split <;> cases e <;> rfl
theorem descE_out (X : Stmt) (e : Entry) : (descE X e).out = e.out := by
  unfold descE; split <;> cases e <;> rfl
theorem clean_descE (X : Stmt) (e : Entry) : Clean (descE X e) ↔ Clean e := by
  unfold descE; split
  · exact clean_withD e _ (fun _ => rfl)
  · exact Iff.rfl
theorem descE_ext (X : Stmt) (e : Entry) (L : List Entry) : ext (descE X e) L = descE X (ext e L) := by
  unfold descE; split <;> cases e <;> rfl
theorem descE_ext_d (X : Stmt) (e : Entry) (L : List Entry) : (descE X (ext e L)).d = (descE X e).d := by
  unfold descE; split <;> cases e <;> rfl

theorem dIf_dir (f : String) (X : Stmt) (e : Entry) : (dIf f X e).dir = e.dir := by
  unfold dIf; split
  · exact descE_dir X e
  · rfl
theorem clean_dIf (f : String) (X : Stmt) (e : Entry) : Clean (dIf f X e) ↔ Clean e := by
  unfold dIf; split
  · exact clean_descE X e
  · exact Iff.rfl
theorem dIf_ext (f : String) (X : Stmt) (e : Entry) (L : List Entry) : ext (dIf f X e) L = dIf f X (ext e L) := by
  unfold dIf; split
  · exact descE_ext X e L
  · rfl

/-- The description steps among `fs`. -/
def D (X : Stmt) (fs : List String) (e : Entry) : Entry := fs.foldl (fun e f => dIf f X e) e

theorem D_dir (X : Stmt) (fs : List String) (e : Entry) : (D X fs e).dir = e.dir := by
  unfold D
  induction fs generalizing e with
  | nil => rfl
  | cons f fs ih => simp only [List.foldl_cons]; rw [ih, dIf_dir]

theorem clean_D (X : Stmt) (fs : List String) (e : Entry) : Clean (D X fs e) ↔ Clean e := by
  unfold D
  induction fs generalizing e with
  | nil => exact Iff.rfl
  | cons f fs ih => simp only [List.foldl_cons]; rw [ih, clean_dIf]

theorem D_pre (X : Stmt) (e : Entry) : D X preFields e = e := by
  simp [D, preFields, dIf]

theorem D_post (X : Stmt) (e : Entry) : D X postFields e = descE X e := by
  simp [D, postFields, dIf]

theorem D_all (X : Stmt) (e : Entry) : D X (preFields ++ postFields) e = descE X e := by
  simp [D, preFields, postFields, dIf]

/-- The children that the field steps `fs` of `X` contribute, in order. -/
def items (v : Stmt → Entry) (X : Stmt) (fs : List String) : List Entry :=
  fs.flatMap fun f => (X.all f).flatMap (contribC v (cls f))

theorem cls_nameKws (f : String) (h : cls f = .rpc ∨ cls f = .add) : f ∈ nameKws := by
  unfold cls at h
  split at h
  · simp at h
  · split at h
    · subst f; decide
    · split at h
      · rename_i hp
        simp only [plainKws, List.mem_cons, List.mem_nil_iff, or_false] at hp
        rcases hp with rfl | rfl | rfl | rfl | rfl | rfl | rfl | rfl <;> decide
      · split at h <;> simp at h

section Fields
variable (v : Stmt → Entry) (hshape : ∀ c, Clean (v c) → c.kw ∈ nameKws → (v c).name = c.arg)
include hshape

theorem hname_all (X : Stmt) (f : String) :
    ∀ c ∈ X.all f, (cls f = .rpc ∨ cls f = .add) → Clean (v c) → (v c).name = c.arg :=
  fun c hc hk hcl => hshape c hcl (by rw [mem_all_kw X f c hc]; exact cls_nameKws f hk)

theorem stepE_iff (X : Stmt) (f : String) (e : Entry) (hnd : (nm e.dir).Nodup) :
    Clean (stepE v X f e) ↔
      Clean e ∧ (cls f ≠ .skip → ∀ c ∈ X.all f, Clean (v c)) ∧
        (nm (e.dir ++ (X.all f).flatMap (contribC v (cls f)))).Nodup := by
  unfold stepE
  rw [clean_dIf]
  exact foldC_iff Stmt.arg v (cls f) (X.all f) (hname_all v hshape X f) e hnd

theorem stepE_eq (X : Stmt) (f : String) (e : Entry) (h1 : cls f ≠ .skip → ∀ c ∈ X.all f, Clean (v c))
    (h2 : (nm (e.dir ++ (X.all f).flatMap (contribC v (cls f)))).Nodup) :
    stepE v X f e = dIf f X (ext e ((X.all f).flatMap (contribC v (cls f)))) := by
  unfold stepE
  rw [foldC_eq Stmt.arg v (cls f) (X.all f) (hname_all v hshape X f) e h1 h2]

omit hshape in
theorem foldFs_clean_left (X : Stmt) (fs : List String) (e : Entry) (h : Clean (foldFs v X fs e)) : Clean e := by
  unfold foldFs at h
  induction fs generalizing e with
  | nil => exact h
  | cons f fs ih =>
    simp only [List.foldl_cons] at h
    have := ih _ h
    unfold stepE at this
    rw [clean_dIf] at this
    exact foldC_clean_left _ _ _ _ _ this

theorem foldFs_eq (X : Stmt) (fs : List String) (e : Entry)
    (h1 : ∀ f ∈ fs, cls f ≠ .skip → ∀ c ∈ X.all f, Clean (v c))
    (h2 : (nm (e.dir ++ items v X fs)).Nodup) :
    foldFs v X fs e = D X fs (ext e (items v X fs)) := by
  induction fs generalizing e with
  | nil => simp [foldFs, D, items, ext_nil]
  | cons f fs ih =>
    have hi : items v X (f :: fs) = (X.all f).flatMap (contribC v (cls f)) ++ items v X fs := by
      simp [items, List.flatMap_cons]
    rw [hi] at h2 ⊢
    have hs := stepE_eq v hshape X f e (h1 f (List.mem_cons_self ..)) (nodup_prefix h2)
    have hf : foldFs v X (f :: fs) e = foldFs v X fs (stepE v X f e) := by simp [foldFs]
    rw [hf, hs, ih _ (fun g hg => h1 g (List.mem_cons_of_mem _ hg))
      (by rw [dIf_dir, ext_dir, List.append_assoc]; exact h2), dIf_ext, ext_ext]
    simp [D]

omit hshape in
theorem items_clean (X : Stmt) (fs : List String)
    (h1 : ∀ f ∈ fs, cls f ≠ .skip → ∀ c ∈ X.all f, Clean (v c)) : ∀ x ∈ items v X fs, Clean x := by
  intro x hx
  obtain ⟨f, hf, hx⟩ := List.mem_flatMap.1 hx
  obtain ⟨c, hc, hx⟩ := List.mem_flatMap.1 hx
  exact contribC_clean v (cls f) c (fun hk => h1 f hf hk c hc) x hx

theorem foldFs_iff (X : Stmt) (fs : List String) (e : Entry) (hnd : (nm e.dir).Nodup) :
    Clean (foldFs v X fs e) ↔
      Clean e ∧ (∀ f ∈ fs, cls f ≠ .skip → ∀ c ∈ X.all f, Clean (v c)) ∧ (nm (e.dir ++ items v X fs)).Nodup := by
  constructor
  · intro h
    induction fs generalizing e with
    | nil => exact ⟨h, fun _ hf => absurd hf (by simp), by simpa [items] using hnd⟩
    | cons f fs ih =>
      have hf : foldFs v X (f :: fs) e = foldFs v X fs (stepE v X f e) := by simp [foldFs]
      rw [hf] at h
      have hc' := foldFs_clean_left v X fs _ h
      obtain ⟨a1, a2, a3⟩ := (stepE_iff v hshape X f e hnd).1 hc'
      have hs := stepE_eq v hshape X f e a2 a3
      rw [hs] at h
      obtain ⟨_, b2, b3⟩ := ih _ (by rw [dIf_dir, ext_dir]; exact a3) h
      rw [dIf_dir, ext_dir, List.append_assoc] at b3
      refine ⟨a1, ?_, by simpa [items, List.flatMap_cons] using b3⟩
      intro g hg
      rcases List.mem_cons.1 hg with rfl | hg
      · exact a2
      · exact b2 g hg
  · rintro ⟨h0, h1, h2⟩
    rw [foldFs_eq v hshape X fs e h1 h2, clean_D, clean_ext]
    exact ⟨h0, items_clean v X fs h1⟩

end Fields

/-! ### permutations of concatenations -/

theorem perm_flatMap_left {α β : Type} (l : List α) (f g : α → List β) (h : ∀ a ∈ l, (f a).Perm (g a)) :
    (l.flatMap f).Perm (l.flatMap g) := by
  induction l with
  | nil => exact List.Perm.refl _
  | cons a l ih =>
    simp only [List.flatMap_cons]
    exact (h a (List.mem_cons_self ..)).append (ih fun b hb => h b (List.mem_cons_of_mem _ hb))

theorem flatMap_append_perm {α β : Type} (l : List α) (f g : α → List β) :
    (l.flatMap fun a => f a ++ g a).Perm (l.flatMap f ++ l.flatMap g) := by
  induction l with
  | nil => exact List.Perm.refl _
  | cons a l ih =>
    simp only [List.flatMap_cons]
    -- (f a ++ g a) ++ R ~ (f a ++ F) ++ (g a ++ G)
    refine ((List.Perm.refl (f a ++ g a)).append ih).trans ?_
    rw [List.append_assoc, List.append_assoc]
    refine List.Perm.append_left _ ?_
    rw [← List.append_assoc, ← List.append_assoc]
    exact List.Perm.append_right _ List.perm_append_comm

theorem flatMap_nil' {α β : Type} (l : List α) : (l.flatMap fun _ => ([] : List β)) = [] := by
  induction l with
  | nil => rfl
  | cons a l ih => simp

theorem flatMap_swap_perm {α β γ : Type} (l₁ : List α) (l₂ : List β) (g : α → β → List γ) :
    (l₁.flatMap fun a => l₂.flatMap fun b => g a b).Perm (l₂.flatMap fun b => l₁.flatMap fun a => g a b) := by
  induction l₁ with
  | nil => simp
  | cons a l₁ ih =>
    simp only [List.flatMap_cons]
    exact ((List.Perm.refl _).append ih).trans (flatMap_append_perm l₂ (fun b => g a b) (fun b => l₁.flatMap fun a => g a b)).symm

theorem nodup_of_mem_flatMap {β : Type} (g : β → List Entry) (l : List β) (x : β) (hx : x ∈ l)
    (h : (nm (l.flatMap g)).Nodup) : (nm (g x)).Nodup := by
  induction l with
  | nil => cases hx
  | cons y l ih =>
    simp only [List.flatMap_cons, nm, List.map_append] at h
    rw [List.nodup_append] at h
    rcases List.mem_cons.1 hx with rfl | hx
    · exact h.1
    · exact ih hx h.2.1

/-! ### the contributions of the parts -/

theorem cls_ne_skip (f : String) (h : cls f ≠ .skip) : f ∈ bodyKws ∨ f = "deviation" := by
  unfold cls at h
  split at h
  · subst f; exact Or.inl (by decide)
  · split at h
    · subst f; exact Or.inl (by decide)
    · split at h
      · rename_i hp
        simp only [plainKws, List.mem_cons, List.mem_nil_iff, or_false] at hp
        rcases hp with rfl | rfl | rfl | rfl | rfl | rfl | rfl | rfl <;> exact Or.inl (by decide)
      · split at h
        · rename_i hg
          rcases hg with rfl | rfl
          · exact Or.inl (by decide)
          · exact Or.inr rfl
        · exact absurd rfl h

theorem contribC_nil_of_not_body {α : Type} (val : α → Entry) (f : String) (hf : f ∉ bodyKws) (c : α) :
    contribC val (cls f) c = [] := by
  by_cases hk : cls f = .skip
  · rw [hk]; rfl
  · rcases cls_ne_skip f hk with h | rfl
    · exact absurd h hf
    · rfl

/-- Field by field, the unsplit statement contributes a permutation of what the parts contribute. -/
theorem items_perm (v : Stmt → Entry) (m : Stmt) (parts : List Stmt) (fs : List String)
    (hbody : ∀ kw ∈ bodyKws, (m.all kw).Perm (parts.flatMap (·.all kw))) :
    (items v m fs).Perm (parts.flatMap fun P => items v P fs) := by
  unfold items
  refine (perm_flatMap_left fs _ (fun f => parts.flatMap fun P => (P.all f).flatMap (contribC v (cls f))) ?_).trans
    (flatMap_swap_perm fs parts _)
  intro f _
  by_cases hf : f ∈ bodyKws
  · rw [← List.flatMap_assoc]
    exact List.Perm.flatMap_right _ (hbody f hf)
  · have h0 : ∀ (l : List Stmt), l.flatMap (contribC v (cls f)) = [] := by
      intro l
      have : contribC v (cls f) = fun _ => [] := funext (contribC_nil_of_not_body v f hf)
      rw [this]; exact flatMap_nil' l
    rw [h0]
    simp only [h0]
    rw [flatMap_nil']

/-! ### the assembly -/

theorem clean_e0 (root : Mod) (X : Stmt) (h : X.kw = "module" ∨ X.kw = "submodule") : Clean (e0 root X) := by
  unfold e0 baseData
  rw [clean_mk]
  refine ⟨by simp, by simp, by simp, ?_⟩
  rcases h with h | h <;> simp [h]

theorem flatMap_congr' {α β : Type} (l : List α) (f g : α → List β) (h : ∀ a ∈ l, f a = g a) :
    l.flatMap f = l.flatMap g := by
  induction l with
  | nil => rfl
  | cons a l ih =>
    simp only [List.flatMap_cons]
    rw [h a (List.mem_cons_self ..), ih fun b hb => h b (List.mem_cons_of_mem _ hb)]

/-- Merging error-free entries whose children have fresh, pairwise distinct names appends the children. -/
theorem pmerge_eq (e : Entry) (l : List Entry) (h1 : ∀ ie ∈ l, Clean ie)
    (h2 : (nm (e.dir ++ l.flatMap Entry.dir)).Nodup) : pmerge e l = ext e (l.flatMap Entry.dir) :=
  foldC_eq (fun _ => "") id .uses l (fun _ _ h => by rcases h with h | h <;> cases h) e (fun _ => h1) h2

/-- The assembly on statements: `m` unsplit, `O` the owner's statement, `S` the submodules'. -/
theorem assembly_core (env : Env) (v : Stmt → Entry)
    (hshape : ∀ c, Clean (v c) → c.kw ∈ nameKws → (v c).name = c.arg)
    (root : Mod) (m O : Stmt) (S : List Stmt)
    (hOkw : O.kw = "module") (hSkw : ∀ X ∈ S, X.kw = "submodule")
    (hbody : ∀ kw ∈ bodyKws, (m.all kw).Perm ((O :: S).flatMap (·.all kw)))
    (hdevO : O.all "deviation" = m.all "deviation") (hdevS : ∀ X ∈ S, X.all "deviation" = [])
    (hclean : Clean (pmod env v root m)) :
    pmod env v root m = descE m (ext (e0 root m) (items v m (preFields ++ postFields))) ∧
    (∀ X ∈ S, Clean (pmod env v root X)) ∧
    ∃ L, L.Perm (items v m (preFields ++ postFields)) ∧ (∀ x ∈ L, Clean x) ∧
      powner env v root O S = descE O (ext (e0 root O) L) := by
  have hF : ∀ f ∈ preFields ++ postFields, f ∈ preFields ++ postFields := fun _ h => h
  have hnil : (nm ([] : List Entry)).Nodup := List.nodup_nil
  -- the unsplit statement
  have hM : pmod env v root m = foldFs v m (preFields ++ postFields) (e0 root m) := pfold_fst env v root m _ hF _
  rw [hM] at hclean ⊢
  obtain ⟨_, hM1, hM2⟩ := (foldFs_iff v hshape m _ (e0 root m) hnil).1 hclean
  have hMeq := foldFs_eq v hshape m _ (e0 root m) hM1 hM2
  rw [D_all] at hMeq
  have hM2' : (nm (items v m (preFields ++ postFields))).Nodup := hM2
  -- the permutation
  have hperm := items_perm v m (O :: S) (preFields ++ postFields) hbody
  simp only [List.flatMap_cons] at hperm
  -- the values of the statements of the parts
  have hval : ∀ P ∈ O :: S, ∀ f ∈ preFields ++ postFields, cls f ≠ .skip → ∀ c ∈ P.all f, Clean (v c) := by
    intro P hP f hf hk c hc
    rcases cls_ne_skip f hk with hb | rfl
    · exact hM1 f hf hk c ((hbody f hb).mem_iff.2 (List.mem_flatMap.2 ⟨P, hP, hc⟩))
    · rcases List.mem_cons.1 hP with rfl | hP
      · rw [hdevO] at hc; exact hM1 _ hf hk c hc
      · rw [hdevS P hP] at hc; cases hc
  have hnd : (nm (items v O (preFields ++ postFields) ++ S.flatMap fun P => items v P (preFields ++ postFields))).Nodup :=
    (hperm.map Entry.name).nodup_iff.1 hM2'
  -- the submodules
  have hsub : ∀ X ∈ S, pmod env v root X = descE X (ext (e0 root X) (items v X (preFields ++ postFields))) ∧
      Clean (pmod env v root X) := by
    intro X hX
    have h1 := hval X (List.mem_cons_of_mem _ hX)
    have h2 : (nm (items v X (preFields ++ postFields))).Nodup :=
      nodup_of_mem_flatMap (fun P => items v P (preFields ++ postFields)) S X hX (by
        unfold nm at hnd ⊢; rw [List.map_append, List.nodup_append] at hnd; exact hnd.2.1)
    have heq : pmod env v root X = foldFs v X (preFields ++ postFields) (e0 root X) := pfold_fst env v root X _ hF _
    rw [heq, foldFs_eq v hshape X _ (e0 root X) h1 h2, D_all]
    refine ⟨rfl, ?_⟩
    rw [clean_descE, clean_ext]
    exact ⟨clean_e0 root X (Or.inr (hSkw X hX)), items_clean v X _ h1⟩
  refine ⟨hMeq, fun X hX => (hsub X hX).2, ?_⟩
  -- the owner
  have hitemsO : items v O (preFields ++ postFields) = items v O preFields ++ items v O postFields := by
    simp [items, List.flatMap_append]
  rw [hitemsO] at hnd hperm
  have hvalO := hval O (List.mem_cons_self ..)
  have hdirs : (S.map (pmod env v root)).flatMap Entry.dir = S.flatMap fun P => items v P (preFields ++ postFields) := by
    rw [List.flatMap_map]
    refine flatMap_congr' _ _ _ ?_
    intro X hX
    rw [(hsub X hX).1, descE_dir, ext_dir]; rfl
  generalize hA : items v O preFields = A at hnd hperm
  generalize hC : items v O postFields = C at hnd hperm
  generalize hB : (S.flatMap fun P => items v P (preFields ++ postFields)) = B at hnd hperm hdirs
  have hp2 : (A ++ B ++ C).Perm (A ++ C ++ B) := by
    rw [List.append_assoc, List.append_assoc]
    exact List.Perm.append_left _ List.perm_append_comm
  have hnd' : (nm (A ++ B ++ C)).Nodup := (hp2.map Entry.name).nodup_iff.2 hnd
  have hndAB : (nm (A ++ B)).Nodup := by
    unfold nm at hnd' ⊢; rw [List.map_append, List.nodup_append] at hnd'; exact hnd'.1
  have hndA : (nm A).Nodup := by
    unfold nm at hndAB ⊢; rw [List.map_append, List.nodup_append] at hndAB; exact hndAB.1
  refine ⟨A ++ B ++ C, hp2.trans hperm.symm, ?_, ?_⟩
  · intro x hx
    have : x ∈ items v m (preFields ++ postFields) := (hp2.trans hperm.symm).mem_iff.1 hx
    exact items_clean v m _ hM1 x this
  · have hpre : (pfold env v root O preFields (e0 root O, {})).1 = ext (e0 root O) A := by
      rw [pfold_fst env v root O preFields (fun f hf => List.mem_append_left _ hf),
        foldFs_eq v hshape O preFields (e0 root O) (fun f hf => hvalO f (List.mem_append_left _ hf))
          (by rw [hA]; exact hndA),
        D_pre, hA]
    have hmerge : pmerge (ext (e0 root O) A) (S.map (pmod env v root)) = ext (e0 root O) (A ++ B) := by
      rw [pmerge_eq _ _ (fun ie hie => by
          obtain ⟨X, hX, rfl⟩ := List.mem_map.1 hie
          exact (hsub X hX).2)
        (by rw [hdirs, ext_dir]; exact hndAB),
        hdirs, ext_ext]
    unfold powner
    rw [hpre, hmerge, pfold_fst env v root O postFields (fun f hf => List.mem_append_right _ hf),
      foldFs_eq v hshape O postFields _ (fun f hf => hvalO f (List.mem_append_right _ hf))
        (by rw [hC, ext_dir]; exact hnd'),
      D_post, hC, ext_ext]

theorem argOf?_of_all {X Y : Stmt} {k : String} (h : X.all k = Y.all k) : X.argOf? k = Y.argOf? k := by
  unfold Stmt.argOf? Stmt.one?
  rw [← List.head?_filter, ← List.head?_filter]
  unfold Stmt.all at h
  rw [h]

theorem sameData_desc (root : Mod) (O m : Stmt) (hO : O.kw = "module") (hm : m.kw = "module") (harg : O.arg = m.arg)
    (hd : O.argOf? "description" = m.argOf? "description") :
    SameData (descE O (e0 root O)).d (descE m (e0 root m)).d := by
  unfold descE
  rw [hd]
  unfold SameData e0 baseData
  cases m.argOf? "description" <;> simp [hO, hm, harg, Entry.withD, Entry.d]

/-- **The assembly.**  When the entry of the unsplit module statement over the values `v` is error
free, so are the entries of the submodules and of the owner (its own statements before the include
step, the submodules' entries merged, its own statements after the include step), and the owner's
entry has the unsplit one's data and its children in another order. -/
theorem assembly (env : Env) (v : Stmt → Entry) (s : Split) (ht : TextOK s)
    (hshape : ∀ c, Clean (v c) → c.kw ∈ nameKws → (v c).name = c.arg)
    (hclean : Clean (pmod env v s.m s.m.stmt)) :
    Clean (powner env v s.m s.owner.stmt (s.subs.map (·.stmt))) ∧
    (∀ sb ∈ s.subs, Clean (pmod env v s.m sb.stmt)) ∧
    (powner env v s.m s.owner.stmt (s.subs.map (·.stmt))).dir.Perm (pmod env v s.m s.m.stmt).dir ∧
    SameData (powner env v s.m s.owner.stmt (s.subs.map (·.stmt))).d (pmod env v s.m s.m.stmt).d ∧
    (powner env v s.m s.owner.stmt (s.subs.map (·.stmt))).inp = [] ∧ (pmod env v s.m s.m.stmt).inp = [] ∧
    (powner env v s.m s.owner.stmt (s.subs.map (·.stmt))).out = [] ∧ (pmod env v s.m s.m.stmt).out = [] := by
  have hbody : ∀ kw ∈ bodyKws,
      (s.m.stmt.all kw).Perm ((s.owner.stmt :: s.subs.map (·.stmt)).flatMap (·.all kw)) := by
    intro kw hkw
    have := ht.body kw hkw
    simpa [Split.parts, List.flatMap_cons, List.flatMap_map] using this
  obtain ⟨hM, hS, L, hL, hLc, hP⟩ := assembly_core env v hshape s.m s.m.stmt s.owner.stmt (s.subs.map (·.stmt))
    ht.owner_kw
    (by intro X hX; obtain ⟨sb, hsb, rfl⟩ := List.mem_map.1 hX; exact ht.sub_kw sb hsb) hbody
    (ht.kept "deviation" (by decide))
    (by intro X hX; obtain ⟨sb, hsb, rfl⟩ := List.mem_map.1 hX; exact (ht.sub_no_aug sb hsb).2.1) hclean
  rw [hP, hM]
  refine ⟨?_, fun sb hsb => hS _ (List.mem_map_of_mem hsb), ?_, ?_, ?_, ?_, ?_, ?_⟩
  · rw [clean_descE, clean_ext]
    exact ⟨clean_e0 _ _ (Or.inl ht.owner_kw), hLc⟩
  · rw [descE_dir, descE_dir, ext_dir, ext_dir]
    exact hL
  · rw [descE_ext_d, descE_ext_d]
    exact sameData_desc s.m _ _ ht.owner_kw ht.m_kw ht.owner_arg (argOf?_of_all (ht.kept "description" (by decide)))
  · rw [descE_inp, ext_inp]; rfl
  · rw [descE_inp, ext_inp]; rfl
  · rw [descE_out, ext_out]; rfl
  · rw [descE_out, ext_out]; rfl

end Goyang.Lemmas.IncludeAsm
