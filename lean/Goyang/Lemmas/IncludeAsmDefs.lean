import Goyang.Lemmas.IncludePure
/-
C13 (third sentence), part 4a: the entry of a (sub)module statement as a pure fold over the values
of its top-level statements — definitions shared by the conversion side (IncludeMod.lean) and the
combinatorial side (IncludeAsm.lean).
-/
namespace Goyang.Lemmas.IncludeAsm
open Goyang.Model Goyang.Spec.Include Goyang.Lemmas.Tree Goyang.Spec.Tree Goyang.Lemmas.IncludeRel
open Goyang.Lemmas.IncludePure

/-- A recursive call that answers the value `v c` of the statement, whatever the place and state. -/
def constRec (v : Stmt → Entry) : Rec := fun _ _ c _ t => (v c, t)

/-- The field steps of a (sub)module statement before and after the include step. -/
def preFields : List String := ["uses", "rpc", "prefix", "notification", "list", "leaf-list", "leaf"]
def postFields : List String :=
  ["identity", "grouping", "deviation", "description", "container", "choice", "augment", "anyxml", "anydata"]

theorem fieldOrder_module : fieldOrder "module" = preFields ++ ["include"] ++ postFields := rfl
theorem fieldOrder_submodule : fieldOrder "submodule" = preFields ++ ["include"] ++ postFields := rfl

/-- The field steps `fs` of the (sub)module statement `X` over the values `v` of its substatements;
every node made here belongs to `root`. -/
def pfold (env : Env) (v : Stmt → Entry) (root : Mod) (X : Stmt) (fs : List String) (acc : Entry × TState) :
    Entry × TState :=
  fs.foldl (stepFn env (constRec v) root X [X] [] true) acc

/-- The entry of a (sub)module statement without include substatements, over the values `v`. -/
def pmod (env : Env) (v : Stmt → Entry) (root : Mod) (X : Stmt) : Entry :=
  (pfold env v root X (preFields ++ postFields) (e0 root X, {})).1

/-- Merging the entries of included submodules, in order. -/
def pmerge (e : Entry) (l : List Entry) : Entry := l.foldl (fun e ie => e.merge none ie) e

/-- The entry of the owner: its own statements before the include step, the submodules' entries
merged, its own statements after the include step. -/
def powner (env : Env) (v : Stmt → Entry) (root : Mod) (O : Stmt) (subs : List Stmt) : Entry :=
  (pfold env v root O postFields
    (pmerge (pfold env v root O preFields (e0 root O, {})).1 (subs.map (pmod env v root)), {})).1

/-- Keywords of the top-level statements whose entry is added under the statement's argument. -/
def nameKws : List String :=
  ["rpc", "notification", "list", "leaf-list", "leaf", "container", "choice", "anyxml", "anydata"]


/-! ### nested includes -/

/-- The entry of a part of a split with nested includes, as goyang's depth-first conversion builds
it, over the values `v`: the part's own field steps before the include step; then, for every
submodule statement `Y` its include statements resolve to (`tgt X`, in order) that has not been
started yet (`S`: the names of the started submodules), `Y`'s entry — converted the same way, `Y`
marked as started first — merged; then the part's own remaining field steps.  Returns the entry and
the names started afterwards.  Recursion on fuel (the nesting depth). -/
def ppart (env : Env) (v : Stmt → Entry) (root : Mod) (tgt : Stmt → List Stmt) : Nat → List String → Stmt → Entry × List String
  | 0, S, X => (errorEntry root X "out-of-fuel", S)
  | f + 1, S, X =>
    let e1 := (pfold env v root X preFields (e0 root X, {})).1
    let r := (tgt X).foldl (fun (acc : Entry × List String) Y =>
      if acc.2.contains Y.arg then acc
      else
        let q := ppart env v root tgt f (acc.2 ++ [Y.arg]) Y
        (acc.1.merge none q.1, q.2)) (e1, S)
    ((pfold env v root X postFields (r.1, {})).1, r.2)

/-- `Y` is reached from `X` through `tgt`. -/
inductive TReach (tgt : Stmt → List Stmt) : Stmt → Stmt → Prop
  | refl (X : Stmt) : TReach tgt X X
  | step {X Y Z : Stmt} : TReach tgt X Y → Z ∈ tgt Y → TReach tgt X Z

end Goyang.Lemmas.IncludeAsm
