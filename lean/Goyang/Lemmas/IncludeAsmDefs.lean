import Goyang.Lemmas.IncludePure
/-
C13 (third sentence), part 4a: the entry of a (sub)module statement as a pure fold over the values
of its top-level statements — definitions shared by the conversion side (IncludeMod.lean) and the
combinatorial side (IncludeAsm.lean).
-/
namespace Goyang.Lemmas.IncludeAsm
open Goyang.Model Goyang.Spec.Include Goyang.Lemmas.Tree Goyang.Spec.Tree Goyang.Lemmas.IncludeRel
open Goyang.Lemmas.IncludePure

/-- A recursive call that answers the value `v c` of the statement, whatever the place and state. -/
def constRec (v : Stmt → Entry) : Rec := fun _ _ c _ t => (v c, t)

/-- The field steps of a (sub)module statement before and after the include step. -/
def preFields : List String := ["uses", "rpc", "prefix", "notification", "list", "leaf-list", "leaf"]
def postFields : List String :=
  ["identity", "grouping", "deviation", "description", "container", "choice", "augment", "anyxml", "anydata"]

theorem fieldOrder_module : fieldOrder "module" = preFields ++ ["include"] ++ postFields := rfl
theorem fieldOrder_submodule : fieldOrder "submodule" = preFields ++ ["include"] ++ postFields := rfl

/-- The field steps `fs` of the (sub)module statement `X` over the values `v` of its substatements;
every node made here belongs to `root`. -/
def pfold (env : Env) (v : Stmt → Entry) (root : Mod) (X : Stmt) (fs : List String) (acc : Entry × TState) :
    Entry × TState :=
  fs.foldl (stepFn env (constRec v) root X [X] [] true) acc

/-- The entry of a (sub)module statement without include substatements, over the values `v`. -/
def pmod (env : Env) (v : Stmt → Entry) (root : Mod) (X : Stmt) : Entry :=
  (pfold env v root X (preFields ++ postFields) (e0 root X, {})).1

/-- Merging the entries of included submodules, in order. -/
def pmerge (e : Entry) (l : List Entry) : Entry := l.foldl (fun e ie => e.merge none ie) e

/-- The entry of the owner: its own statements before the include step, the submodules' entries
merged, its own statements after the include step. -/
def powner (env : Env) (v : Stmt → Entry) (root : Mod) (O : Stmt) (subs : List Stmt) : Entry :=
  (pfold env v root O postFields
    (pmerge (pfold env v root O preFields (e0 root O, {})).1 (subs.map (pmod env v root)), {})).1

/-- Keywords of the top-level statements whose entry is added under the statement's argument. -/
def nameKws : List String :=
  ["rpc", "notification", "list", "leaf-list", "leaf", "container", "choice", "anyxml", "anydata"]

end Goyang.Lemmas.IncludeAsm
