import Goyang.Lemmas.IncludeAsm
/-
C13 (third sentence), part 4c: the combinatorial side for NESTED includes.  The entry of the owner
as goyang's depth-first conversion builds it (`ppart`: own steps before the include step, the
entries of the not yet started include targets — built the same way — merged, own remaining steps)
is, when the unsplit result is error free, error free with the unsplit module's children in
another order (`assemblyN`), and so is every entry produced on the way (`ppart_clean`).

Structure: (1) list facts; (2) the standing hypotheses `NestOK` and what they give together with
the error-free unsplit entry (`NestFacts`); (3) the invariant of the depth-first conversion
(`ppart_inv`, by induction on the fuel; `ptgt_fold` is the fold over the include targets);
(4) the top: everything reachable has been started, so the started submodules are all of them.
-/
namespace Goyang.Lemmas.IncludeAsm
open Goyang.Model Goyang.Spec.Include Goyang.Lemmas.Tree Goyang.Spec.Tree Goyang.Lemmas.IncludeRel
open Goyang.Lemmas.IncludePure

/-! ### lists -/

theorem filter_length_le' {α : Type} (l : List α) (p q : α → Bool) (hpq : ∀ a, p a = true → q a = true) :
    (l.filter p).length ≤ (l.filter q).length := by
  induction l with
  | nil => simp
  | cons x l ih =>
    simp only [List.filter_cons]
    by_cases hp : p x = true
    · rw [if_pos hp, if_pos (hpq x hp)]
      simp only [List.length_cons]
      omega
    · rw [if_neg hp]
      by_cases hq : q x = true
      · rw [if_pos hq]
        simp only [List.length_cons]
        omega
      · rw [if_neg hq]
        exact ih

theorem filter_length_lt' {α : Type} (l : List α) (p q : α → Bool) (hpq : ∀ a, p a = true → q a = true)
    (a : α) (ha : a ∈ l) (hq : q a = true) (hp : ¬ p a = true) : (l.filter p).length < (l.filter q).length := by
  induction l with
  | nil => cases ha
  | cons x l ih =>
    simp only [List.filter_cons]
    rcases List.mem_cons.1 ha with rfl | ha
    · rw [if_neg hp, if_pos hq]
      have := filter_length_le' l p q hpq
      simp only [List.length_cons]
      omega
    · have := ih ha
      by_cases hp' : p x = true
      · rw [if_pos hp', if_pos (hpq x hp')]
        simp only [List.length_cons]
        omega
      · rw [if_neg hp']
        by_cases hq' : q x = true
        · rw [if_pos hq']
          simp only [List.length_cons]
          omega
        · rw [if_neg hq']
          exact this

/-- Marking one more submodule of `Ss` as started leaves fewer to start. -/
theorem count_lt (Ss : List Stmt) (S S' : List String) (hsub : ∀ n ∈ S, n ∈ S') (Y : Stmt) (hY : Y ∈ Ss)
    (h1 : Y.arg ∉ S) (h2 : Y.arg ∈ S') :
    (Ss.filter fun Z => !S'.contains Z.arg).length < (Ss.filter fun Z => !S.contains Z.arg).length := by
  refine filter_length_lt' Ss _ _ ?_ Y hY ?_ ?_
  · intro a ha
    simp only [Bool.not_eq_true', List.contains_eq_mem, decide_eq_false_iff_not] at ha ⊢
    exact fun hm => ha (hsub _ hm)
  · simpa using h1
  · simpa using h2

theorem arg_inj_of_nodup (Ss : List Stmt) (h : (Ss.map (·.arg)).Nodup) :
    ∀ Y ∈ Ss, ∀ Z ∈ Ss, Y.arg = Z.arg → Y = Z := by
  induction Ss with
  | nil => intro Y hY; cases hY
  | cons x l ih =>
    simp only [List.map_cons, List.nodup_cons, List.mem_map, not_exists, not_and] at h
    intro Y hY Z hZ hYZ
    rcases List.mem_cons.1 hY with rfl | hY' <;> rcases List.mem_cons.1 hZ with rfl | hZ'
    · rfl
    · exact absurd hYZ.symm (h.1 Z hZ')
    · exact absurd hYZ (h.1 Y hY')
    · exact ih h.2 Y hY' Z hZ' hYZ

theorem nodup_of_nodup_map_arg (Ss : List Stmt) (h : (Ss.map (·.arg)).Nodup) : Ss.Nodup := by
  induction Ss with
  | nil => exact List.nodup_nil
  | cons x l ih =>
    simp only [List.map_cons, List.nodup_cons, List.mem_map, not_exists, not_and] at h
    exact List.nodup_cons.2 ⟨fun hm => h.1 x hm rfl, ih h.2⟩

/-- In a concatenation with distinct names, different members contribute different names. -/
theorem disj_of_nodup_flatMap {β : Type} (g : β → List Entry) (l : List β) (h : (nm (l.flatMap g)).Nodup)
    (P Q : β) (hP : P ∈ l) (hQ : Q ∈ l) (hne : P ≠ Q) : ∀ a ∈ nm (g P), a ∉ nm (g Q) := by
  induction l with
  | nil => cases hP
  | cons y l ih =>
    simp only [List.flatMap_cons, nm, List.map_append] at h
    rw [List.nodup_append] at h
    have hin : ∀ (R : β), R ∈ l → ∀ a ∈ nm (g R), a ∈ List.map Entry.name (l.flatMap g) := by
      intro R hR a ha
      obtain ⟨x, hx, rfl⟩ := List.mem_map.1 ha
      exact List.mem_map.2 ⟨x, List.mem_flatMap.2 ⟨R, hR, hx⟩, rfl⟩
    rcases List.mem_cons.1 hP with rfl | hP' <;> rcases List.mem_cons.1 hQ with rfl | hQ'
    · exact absurd rfl hne
    · intro a ha hb
      exact h.2.2 a ha a (hin Q hQ' a hb) rfl
    · intro a ha hb
      exact h.2.2 a hb a (hin P hP' a ha) rfl
    · exact ih h.2.1 hP' hQ'

theorem nodup_flatMap_of {β : Type} (g : β → List Entry) (Ps : List β) (hnd : Ps.Nodup)
    (h1 : ∀ P ∈ Ps, (nm (g P)).Nodup)
    (h2 : ∀ P ∈ Ps, ∀ Q ∈ Ps, P ≠ Q → ∀ a ∈ nm (g P), a ∉ nm (g Q)) : (nm (Ps.flatMap g)).Nodup := by
  induction Ps with
  | nil => exact List.nodup_nil
  | cons y l ih =>
    rw [List.nodup_cons] at hnd
    simp only [List.flatMap_cons, nm, List.map_append]
    rw [List.nodup_append]
    refine ⟨h1 y (List.mem_cons_self ..), ih hnd.2 (fun P hP => h1 P (List.mem_cons_of_mem _ hP))
      (fun P hP Q hQ => h2 P (List.mem_cons_of_mem _ hP) Q (List.mem_cons_of_mem _ hQ)), ?_⟩
    intro a ha b hb hab
    subst hab
    obtain ⟨x, hx, rfl⟩ := List.mem_map.1 hb
    obtain ⟨R, hR, hx⟩ := List.mem_flatMap.1 hx
    have hne : y ≠ R := fun e => hnd.1 (e ▸ hR)
    exact h2 y (List.mem_cons_self ..) R (List.mem_cons_of_mem _ hR) hne _ ha (List.mem_map.2 ⟨x, hx, rfl⟩)

/-- What is reached from `X` has every property that `X` has and that the targets inherit. -/
theorem treach_closed (tgt : Stmt → List Stmt) (P : Stmt → Prop) (hcl : ∀ Y, P Y → ∀ Z ∈ tgt Y, P Z)
    (X Y : Stmt) (hr : TReach tgt X Y) (hX : P X) : P Y := by
  induction hr with
  | refl => exact hX
  | step _ hZ ih => exact hcl _ ih _ hZ

/-! ### the standing hypotheses -/

/-- the standing hypotheses -/
structure NestOK (v : Stmt → Entry) (m O : Stmt) (Ss : List Stmt) (tgt : Stmt → List Stmt) : Prop where
  shape : ∀ c, Clean (v c) → c.kw ∈ nameKws → (v c).name = c.arg
  okw : O.kw = "module"
  skw : ∀ X ∈ Ss, X.kw = "submodule"
  body : ∀ kw ∈ bodyKws, (m.all kw).Perm ((O :: Ss).flatMap (·.all kw))
  devO : O.all "deviation" = m.all "deviation"
  devS : ∀ X ∈ Ss, X.all "deviation" = []
  descO : O.all "description" = m.all "description"
  argO : O.arg = m.arg
  mkw : m.kw = "module"
  names : (Ss.map (·.arg)).Nodup                       -- submodule names are distinct
  tgt_sub : ∀ X ∈ O :: Ss, ∀ Y ∈ tgt X, Y ∈ Ss           -- include statements resolve to submodules of the split
  cover : ∀ Y ∈ Ss, TReach tgt O Y                      -- every submodule is reached from the owner

/-- Everything a part contributes (all field steps but the include step). -/
def itemsA (v : Stmt → Entry) (P : Stmt) : List Entry := items v P (preFields ++ postFields)

theorem itemsA_eq (v : Stmt → Entry) (P : Stmt) : itemsA v P = items v P preFields ++ items v P postFields := by
  simp [itemsA, items, List.flatMap_append]

theorem e0_dir_nil (root : Mod) (X : Stmt) : (e0 root X).dir = [] := rfl

/-- What the hypotheses and the error-free unsplit entry give. -/
structure NestFacts (env : Env) (v : Stmt → Entry) (root : Mod) (m O : Stmt) (Ss : List Stmt) : Prop where
  val : ∀ P ∈ O :: Ss, ∀ f ∈ preFields ++ postFields, cls f ≠ .skip → ∀ c ∈ P.all f, Clean (v c)
  valm : ∀ f ∈ preFields ++ postFields, cls f ≠ .skip → ∀ c ∈ m.all f, Clean (v c)
  perm : (itemsA v m).Perm ((O :: Ss).flatMap (itemsA v))
  nd : ∀ Ps : List Stmt, Ps.Nodup → (∀ P ∈ Ps, P ∈ O :: Ss) → (nm (Ps.flatMap (itemsA v))).Nodup
  meq : pmod env v root m = descE m (ext (e0 root m) (itemsA v m))

theorem nestFacts (env : Env) (v : Stmt → Entry) (root : Mod) (m O : Stmt) (Ss : List Stmt) (tgt : Stmt → List Stmt)
    (h : NestOK v m O Ss tgt) (hclean : Clean (pmod env v root m)) : NestFacts env v root m O Ss := by
  have hF : ∀ f ∈ preFields ++ postFields, f ∈ preFields ++ postFields := fun _ h => h
  have hnil : (nm ([] : List Entry)).Nodup := List.nodup_nil
  have hM : pmod env v root m = foldFs v m (preFields ++ postFields) (e0 root m) := pfold_fst env v root m _ hF _
  rw [hM] at hclean
  obtain ⟨_, hM1, hM2⟩ := (foldFs_iff v h.shape m _ (e0 root m) hnil).1 hclean
  have hMeq := foldFs_eq v h.shape m _ (e0 root m) hM1 hM2
  rw [D_all] at hMeq
  have hM2' : (nm (items v m (preFields ++ postFields))).Nodup := hM2
  have hperm := items_perm v m (O :: Ss) (preFields ++ postFields) h.body
  have hval : ∀ P ∈ O :: Ss, ∀ f ∈ preFields ++ postFields, cls f ≠ .skip → ∀ c ∈ P.all f, Clean (v c) := by
    intro P hP f hf hk c hc
    rcases cls_ne_skip f hk with hb | rfl
    · exact hM1 f hf hk c ((h.body f hb).mem_iff.2 (List.mem_flatMap.2 ⟨P, hP, hc⟩))
    · rcases List.mem_cons.1 hP with rfl | hP
      · rw [h.devO] at hc; exact hM1 _ hf hk c hc
      · rw [h.devS P hP] at hc; cases hc
  have hnd : (nm ((O :: Ss).flatMap fun P => items v P (preFields ++ postFields))).Nodup :=
    (hperm.map Entry.name).nodup_iff.1 hM2'
  refine ⟨hval, hM1, hperm, ?_, hM.trans hMeq⟩
  intro Ps hPs hsub
  refine nodup_flatMap_of _ Ps hPs (fun P hP => nodup_of_mem_flatMap _ (O :: Ss) P (hsub P hP) hnd) ?_
  intro P hP Q hQ hne
  exact disj_of_nodup_flatMap _ (O :: Ss) hnd P Q (hsub P hP) (hsub Q hQ) hne

section Nest
variable (env : Env) (v : Stmt → Entry) (root : Mod) (m O : Stmt) (Ss : List Stmt) (tgt : Stmt → List Stmt)

theorem itemsA_clean (F : NestFacts env v root m O Ss) (P : Stmt) (hP : P ∈ O :: Ss) : ∀ x ∈ itemsA v P, Clean x :=
  items_clean v P _ (F.val P hP)

/-- The names of what a part and other, pairwise different submodules contribute are distinct. -/
theorem nd_part (F : NestFacts env v root m O Ss) (X : Stmt) (hX : X ∈ O :: Ss) (N : List Stmt) (hN : N.Nodup)
    (hsub : ∀ Y ∈ N, Y ∈ Ss) (hXN : X ∉ N) : (nm (itemsA v X ++ N.flatMap (itemsA v))).Nodup := by
  have := F.nd (X :: N) (List.nodup_cons.2 ⟨hXN, hN⟩) (by
    intro P hP
    rcases List.mem_cons.1 hP with rfl | hP
    · exact hX
    · exact List.mem_cons_of_mem _ (hsub P hP))
  simpa only [List.flatMap_cons] using this

theorem nd_pre (F : NestFacts env v root m O Ss) (X : Stmt) (hX : X ∈ O :: Ss) (N : List Stmt) (hN : N.Nodup)
    (hsub : ∀ Y ∈ N, Y ∈ Ss) (hXN : X ∉ N) : (nm (items v X preFields ++ N.flatMap (itemsA v))).Nodup := by
  have h := nd_part env v root m O Ss F X hX N hN hsub hXN
  rw [itemsA_eq, List.append_assoc] at h
  refine List.Nodup.sublist ?_ h
  exact ((List.Sublist.refl _).append (List.sublist_append_right _ _)).map _

theorem clean_of_perm (F : NestFacts env v root m O Ss) (X : Stmt) (hX : X ∈ O :: Ss) (N : List Stmt)
    (hsub : ∀ Y ∈ N, Y ∈ Ss) (L : List Entry) (hL : L.Perm (itemsA v X ++ N.flatMap (itemsA v))) :
    ∀ x ∈ L, Clean x := by
  intro x hx
  rcases List.mem_append.1 (hL.mem_iff.1 hx) with hx | hx
  · exact itemsA_clean env v root m O Ss F X hX x hx
  · obtain ⟨Y, hY, hx⟩ := List.mem_flatMap.1 hx
    exact itemsA_clean env v root m O Ss F Y (List.mem_cons_of_mem _ (hsub Y hY)) x hx

/-! ### the depth-first conversion -/

/-- One include target in the depth-first conversion. -/
def ptgt (f : Nat) (acc : Entry × List String) (Y : Stmt) : Entry × List String :=
  if acc.2.contains Y.arg then acc
  else (acc.1.merge none (ppart env v root tgt f (acc.2 ++ [Y.arg]) Y).1,
    (ppart env v root tgt f (acc.2 ++ [Y.arg]) Y).2)

theorem ppart_succ_eq (f : Nat) (S : List String) (X : Stmt) :
    ppart env v root tgt (f + 1) S X =
      ((pfold env v root X postFields
          (((tgt X).foldl (ptgt env v root tgt f) ((pfold env v root X preFields (e0 root X, {})).1, S)).1, {})).1,
        ((tgt X).foldl (ptgt env v root tgt f) ((pfold env v root X preFields (e0 root X, {})).1, S)).2) := rfl

theorem ptgt_skip (f : Nat) (acc : Entry × List String) (Y : Stmt) (hc : Y.arg ∈ acc.2) :
    ptgt env v root tgt f acc Y = acc := by
  unfold ptgt
  rw [if_pos (List.contains_iff_mem.2 hc)]

theorem ptgt_go (f : Nat) (acc : Entry × List String) (Y : Stmt) (hc : Y.arg ∉ acc.2) :
    ptgt env v root tgt f acc Y =
      (acc.1.merge none (ppart env v root tgt f (acc.2 ++ [Y.arg]) Y).1,
        (ppart env v root tgt f (acc.2 ++ [Y.arg]) Y).2) := by
  unfold ptgt
  rw [if_neg (fun hm => hc (List.contains_iff_mem.1 hm))]

/-- The submodules `N` newly started in a conversion that began with the names `S` started: members
of the split, pairwise different, not started before, and whatever their include statements resolve
to has been started. -/
structure Started (S : List String) (N : List Stmt) : Prop where
  sub : ∀ Y ∈ N, Y ∈ Ss
  nd : N.Nodup
  fresh : ∀ Y ∈ N, Y.arg ∉ S
  clos : ∀ Z ∈ N, ∀ Y ∈ tgt Z, Y.arg ∈ S ++ N.map (·.arg)

/-- The invariant of the depth-first conversion of the part `X` with the names `S` started. -/
def PartInv (f : Nat) (S : List String) (X : Stmt) : Prop :=
  ∃ (N : List Stmt) (L : List Entry), Started Ss tgt S N ∧
    (∀ Y ∈ tgt X, Y.arg ∈ S ++ N.map (·.arg)) ∧
    (ppart env v root tgt f S X).2 = S ++ N.map (·.arg) ∧
    (ppart env v root tgt f S X).1 = descE X (ext (e0 root X) L) ∧
    L.Perm (itemsA v X ++ N.flatMap (itemsA v))

theorem not_mem_started (S : List String) (X : Stmt) (hXS : X ∈ Ss → X.arg ∈ S) (N : List Stmt)
    (hst : Started Ss tgt S N) : X ∉ N :=
  fun hm => hst.fresh X hm (hXS (hst.sub X hm))

/-- The fold over the include targets `T` of `X`. -/
theorem ptgt_fold (h : NestOK v m O Ss tgt) (F : NestFacts env v root m O Ss) (f : Nat)
    (ih : ∀ (S : List String) (X : Stmt), X ∈ O :: Ss → (∀ n ∈ S, ∃ Y ∈ Ss, Y.arg = n) →
      (X ∈ Ss → X.arg ∈ S) → (Ss.filter fun Y => !S.contains Y.arg).length < f →
      PartInv env v root Ss tgt f S X)
    (S : List String) (X : Stmt) (hX : X ∈ O :: Ss) (hS : ∀ n ∈ S, ∃ Y ∈ Ss, Y.arg = n)
    (hXS : X ∈ Ss → X.arg ∈ S) (hf : (Ss.filter fun Y => !S.contains Y.arg).length < f + 1)
    (T : List Stmt) (hT : ∀ Y ∈ T, Y ∈ Ss) (N0 : List Stmt) (L0 : List Entry) (hst : Started Ss tgt S N0)
    (hL0 : L0.Perm (items v X preFields ++ N0.flatMap (itemsA v))) :
    ∃ N1 L1, Started Ss tgt S N1 ∧ (∀ Y ∈ N0, Y ∈ N1) ∧ (∀ Y ∈ T, Y.arg ∈ S ++ N1.map (·.arg)) ∧
      L1.Perm (items v X preFields ++ N1.flatMap (itemsA v)) ∧
      T.foldl (ptgt env v root tgt f) (ext (e0 root X) L0, S ++ N0.map (·.arg)) =
        (ext (e0 root X) L1, S ++ N1.map (·.arg)) := by
  induction T generalizing N0 L0 with
  | nil => exact ⟨N0, L0, hst, fun _ hY => hY, fun _ hY => absurd hY (by simp), hL0, rfl⟩
  | cons Y T ihT =>
    have hY : Y ∈ Ss := hT Y (List.mem_cons_self ..)
    have hT' : ∀ Z ∈ T, Z ∈ Ss := fun Z hZ => hT Z (List.mem_cons_of_mem _ hZ)
    simp only [List.foldl_cons]
    by_cases hc : Y.arg ∈ S ++ N0.map (·.arg)
    · rw [ptgt_skip env v root tgt f _ Y hc]
      obtain ⟨N1, L1, a1, a2, a3, a4, a5⟩ := ihT hT' N0 L0 hst hL0
      refine ⟨N1, L1, a1, a2, ?_, a4, a5⟩
      intro Z hZ
      rcases List.mem_cons.1 hZ with rfl | hZ
      · rcases List.mem_append.1 hc with hc | hc
        · exact List.mem_append_left _ hc
        · obtain ⟨W, hW, hWa⟩ := List.mem_map.1 hc
          exact List.mem_append_right _ (List.mem_map.2 ⟨W, a2 W hW, hWa⟩)
      · exact a3 Z hZ
    · rw [ptgt_go env v root tgt f _ Y hc]
      dsimp only
      have hcS : Y.arg ∉ S := fun hm => hc (List.mem_append_left _ hm)
      have hcN : ∀ Z ∈ N0, Z.arg ≠ Y.arg := fun Z hZ e =>
        hc (List.mem_append_right _ (List.mem_map.2 ⟨Z, hZ, e⟩))
      -- the nested conversion
      have hS' : ∀ n ∈ S ++ N0.map (·.arg) ++ [Y.arg], ∃ Z ∈ Ss, Z.arg = n := by
        intro n hn
        rcases List.mem_append.1 hn with hn | hn
        · rcases List.mem_append.1 hn with hn | hn
          · exact hS n hn
          · obtain ⟨W, hW, hWa⟩ := List.mem_map.1 hn
            exact ⟨W, hst.sub W hW, hWa⟩
        · rw [List.mem_singleton] at hn
          exact ⟨Y, hY, hn.symm⟩
      have hfuel : (Ss.filter fun Z => !(S ++ N0.map (·.arg) ++ [Y.arg]).contains Z.arg).length < f := by
        have := count_lt Ss S (S ++ N0.map (·.arg) ++ [Y.arg])
          (fun n hn => List.mem_append_left _ (List.mem_append_left _ hn)) Y hY hcS
          (List.mem_append_right _ (List.mem_singleton.2 rfl))
        omega
      obtain ⟨N', L', hst', hclY, h2, h1, hL'⟩ := ih (S ++ N0.map (·.arg) ++ [Y.arg]) Y (List.mem_cons_of_mem _ hY) hS'
        (fun _ => List.mem_append_right _ (List.mem_singleton.2 rfl)) hfuel
      have hfr' : ∀ Z ∈ N', Z.arg ∉ S ∧ (∀ W ∈ N0, W.arg ≠ Z.arg) ∧ Z.arg ≠ Y.arg := by
        intro Z hZ
        have := hst'.fresh Z hZ
        refine ⟨fun hm => this (List.mem_append_left _ (List.mem_append_left _ hm)), ?_, ?_⟩
        · intro W hW e
          exact this (List.mem_append_left _ (List.mem_append_right _ (List.mem_map.2 ⟨W, hW, e⟩)))
        · intro e
          exact this (List.mem_append_right _ (List.mem_singleton.2 e))
      have heq : S ++ (N0 ++ Y :: N').map (·.arg) = S ++ N0.map (·.arg) ++ [Y.arg] ++ N'.map (·.arg) := by
        simp [List.map_append, List.append_assoc]
      have hst0 : Started Ss tgt S (N0 ++ Y :: N') := by
        refine ⟨?_, ?_, ?_, ?_⟩
        · intro Z hZ
          rcases List.mem_append.1 hZ with hZ | hZ
          · exact hst.sub Z hZ
          · rcases List.mem_cons.1 hZ with rfl | hZ
            · exact hY
            · exact hst'.sub Z hZ
        · rw [List.nodup_append]
          refine ⟨hst.nd, List.nodup_cons.2 ⟨fun hm => (hfr' Y hm).2.2 rfl, hst'.nd⟩, ?_⟩
          intro a ha b hb e
          subst e
          rcases List.mem_cons.1 hb with rfl | hb
          · exact hcN a ha rfl
          · exact (hfr' a hb).2.1 a ha rfl
        · intro Z hZ
          rcases List.mem_append.1 hZ with hZ | hZ
          · exact hst.fresh Z hZ
          · rcases List.mem_cons.1 hZ with rfl | hZ
            · exact hcS
            · exact (hfr' Z hZ).1
        · intro Z hZ W hW
          rw [heq]
          rcases List.mem_append.1 hZ with hZ | hZ
          · exact List.mem_append_left _ (List.mem_append_left _ (hst.clos Z hZ W hW))
          · rcases List.mem_cons.1 hZ with rfl | hZ
            · exact hclY W hW
            · exact hst'.clos Z hZ W hW
      have hXN0 : X ∉ N0 ++ Y :: N' := not_mem_started Ss tgt S X hXS _ hst0
      have hL0' : (L0 ++ L').Perm (items v X preFields ++ (N0 ++ Y :: N').flatMap (itemsA v)) := by
        refine (hL0.append hL').trans ?_
        simp only [List.flatMap_append, List.flatMap_cons, List.append_assoc]
        exact List.Perm.refl _
      have hndm : (nm (L0 ++ L')).Nodup :=
        (hL0'.map Entry.name).nodup_iff.2 (nd_pre env v root m O Ss F X hX _ hst0.nd hst0.sub hXN0)
      have hclq : Clean (descE Y (ext (e0 root Y) L')) := by
        rw [clean_descE, clean_ext]
        exact ⟨clean_e0 root Y (Or.inr (h.skw Y hY)),
          clean_of_perm env v root m O Ss F Y (List.mem_cons_of_mem _ hY) N' hst'.sub L' hL'⟩
      have hmerge : (ext (e0 root X) L0).merge none (descE Y (ext (e0 root Y) L')) = ext (e0 root X) (L0 ++ L') := by
        rw [merge_eq' _ _ hclq (by
          rw [ext_dir, descE_dir, ext_dir, e0_dir_nil, e0_dir_nil, List.nil_append, List.nil_append]; exact hndm),
          descE_dir, ext_dir, e0_dir_nil, List.nil_append, ext_ext]
      rw [h1, h2, hmerge, ← heq]
      obtain ⟨N1, L1, a1, a2, a3, a4, a5⟩ := ihT hT' (N0 ++ Y :: N') (L0 ++ L') hst0 hL0'
      refine ⟨N1, L1, a1, fun Z hZ => a2 Z (List.mem_append_left _ hZ), ?_, a4, a5⟩
      intro Z hZ
      rcases List.mem_cons.1 hZ with rfl | hZ
      · exact List.mem_append_right _ (List.mem_map.2
          ⟨Z, a2 Z (List.mem_append_right _ (List.mem_cons_self ..)), rfl⟩)
      · exact a3 Z hZ

/-- **The invariant of the depth-first conversion.** -/
theorem ppart_inv (h : NestOK v m O Ss tgt) (hclean : Clean (pmod env v root m)) :
    ∀ (f : Nat) (S : List String) (X : Stmt), X ∈ O :: Ss → (∀ n ∈ S, ∃ Y ∈ Ss, Y.arg = n) →
      (X ∈ Ss → X.arg ∈ S) → (Ss.filter fun Y => !S.contains Y.arg).length < f →
      PartInv env v root Ss tgt f S X := by
  have F := nestFacts env v root m O Ss tgt h hclean
  intro f
  induction f with
  | zero => intro S X _ _ _ hf; exact absurd hf (Nat.not_lt_zero _)
  | succ f ih =>
    intro S X hX hS hXS hf
    have hvalX := F.val X hX
    have hst0 : Started Ss tgt S [] :=
      ⟨fun _ hY => absurd hY (by simp), List.nodup_nil, fun _ hY => absurd hY (by simp), fun _ hZ => absurd hZ (by simp)⟩
    have hndA : (nm (items v X preFields)).Nodup := by
      simpa using nd_pre env v root m O Ss F X hX [] List.nodup_nil (fun _ hY => absurd hY (by simp)) (by simp)
    have hpre : (pfold env v root X preFields (e0 root X, {})).1 = ext (e0 root X) (items v X preFields) := by
      rw [pfold_fst env v root X preFields (fun f hf => List.mem_append_left _ hf),
        foldFs_eq v h.shape X preFields (e0 root X) (fun f hf => hvalX f (List.mem_append_left _ hf))
          (by rw [e0_dir_nil, List.nil_append]; exact hndA),
        D_pre]
    obtain ⟨N1, L1, a1, _, a3, a4, a5⟩ := ptgt_fold env v root m O Ss tgt h F f ih S X hX hS hXS hf (tgt X)
      (h.tgt_sub X hX) [] (items v X preFields) hst0 (by simp)
    have hXN1 : X ∉ N1 := not_mem_started Ss tgt S X hXS _ a1
    have hLp : (L1 ++ items v X postFields).Perm (itemsA v X ++ N1.flatMap (itemsA v)) := by
      rw [itemsA_eq]
      refine (a4.append_right _).trans ?_
      rw [List.append_assoc, List.append_assoc]
      exact List.Perm.append_left _ List.perm_append_comm
    have hndp : (nm (L1 ++ items v X postFields)).Nodup :=
      (hLp.map Entry.name).nodup_iff.2 (nd_part env v root m O Ss F X hX N1 a1.nd a1.sub hXN1)
    simp only [List.map_nil, List.append_nil] at a5
    rw [← hpre] at a5
    refine ⟨N1, L1 ++ items v X postFields, a1, a3, ?_, ?_, hLp⟩
    · rw [ppart_succ_eq, a5]
    · rw [ppart_succ_eq, a5]
      dsimp only
      rw [pfold_fst env v root X postFields (fun f hf => List.mem_append_right _ hf),
        foldFs_eq v h.shape X postFields _ (fun f hf => hvalX f (List.mem_append_right _ hf))
          (by rw [ext_dir, e0_dir_nil, List.nil_append]; exact hndp),
        D_post, ext_ext]

/-- every entry the depth-first conversion produces on the way is error free -/
theorem ppart_clean (h : NestOK v m O Ss tgt) (hclean : Clean (pmod env v root m))
    (f : Nat) (S : List String) (X : Stmt) (hX : X ∈ O :: Ss) (hS : ∀ n ∈ S, ∃ Y ∈ Ss, Y.arg = n)
    (hXS : X ∈ Ss → X.arg ∈ S) (hf : (Ss.filter fun Y => !S.contains Y.arg).length < f) :
    Clean (ppart env v root tgt f S X).1 := by
  have F := nestFacts env v root m O Ss tgt h hclean
  obtain ⟨N, L, hst, _, _, h1, hL⟩ := ppart_inv env v root m O Ss tgt h hclean f S X hX hS hXS hf
  rw [h1, clean_descE, clean_ext]
  refine ⟨clean_e0 root X ?_, clean_of_perm env v root m O Ss F X hX N hst.sub L hL⟩
  rcases List.mem_cons.1 hX with rfl | hX
  · exact Or.inl h.okw
  · exact Or.inr (h.skw X hX)

/-- the owner's entry is the unsplit module's, children in another order -/
theorem assemblyN (h : NestOK v m O Ss tgt) (hclean : Clean (pmod env v root m)) (F : Nat) (hF : Ss.length < F) :
    Clean (ppart env v root tgt F [] O).1 ∧
    (ppart env v root tgt F [] O).1.dir.Perm (pmod env v root m).dir ∧
    SameData (ppart env v root tgt F [] O).1.d (pmod env v root m).d ∧
    (ppart env v root tgt F [] O).1.inp = [] ∧ (pmod env v root m).inp = [] ∧
    (ppart env v root tgt F [] O).1.out = [] ∧ (pmod env v root m).out = [] ∧
    (∀ Y ∈ Ss, Y.arg ∈ (ppart env v root tgt F [] O).2) := by
  have Fc := nestFacts env v root m O Ss tgt h hclean
  have hO : O ∈ O :: Ss := List.mem_cons_self ..
  have hOS : O ∉ Ss := fun hm => by
    have := h.skw O hm
    rw [h.okw] at this
    exact absurd this (by decide)
  have hfuel : (Ss.filter fun Y => !([] : List String).contains Y.arg).length < F :=
    Nat.lt_of_le_of_lt (List.length_filter_le _ _) hF
  have hS0 : ∀ n ∈ ([] : List String), ∃ Y ∈ Ss, Y.arg = n := fun _ hn => absurd hn (by simp)
  have hcl := ppart_clean env v root m O Ss tgt h hclean F [] O hO hS0 (fun hm => absurd hm hOS) hfuel
  obtain ⟨N, L, hst, hclO, h2, h1, hL⟩ := ppart_inv env v root m O Ss tgt h hclean F [] O hO hS0
    (fun hm => absurd hm hOS) hfuel
  simp only [List.nil_append] at hclO h2
  have hclos := hst.clos
  simp only [List.nil_append] at hclos
  have hinj := arg_inj_of_nodup Ss h.names
  -- everything reached from the owner is the owner or has been started
  have hmemN : ∀ (W Z : Stmt), (W = O ∨ W ∈ N) → Z ∈ tgt W → Z ∈ N := by
    intro W Z hW hZ
    have hWp : W ∈ O :: Ss := by
      rcases hW with rfl | hW
      · exact hO
      · exact List.mem_cons_of_mem _ (hst.sub W hW)
    have hZs : Z ∈ Ss := h.tgt_sub W hWp Z hZ
    have hZa : Z.arg ∈ N.map (·.arg) := by
      rcases hW with rfl | hW
      · exact hclO Z hZ
      · exact hclos W hW Z hZ
    obtain ⟨U, hU, hUa⟩ := List.mem_map.1 hZa
    have : U = Z := hinj U (hst.sub U hU) Z hZs hUa
    exact this ▸ hU
  have hall : ∀ Y ∈ Ss, Y ∈ N := by
    intro Y hY
    have := treach_closed tgt (fun W => W = O ∨ W ∈ N) (fun W hW Z hZ => Or.inr (hmemN W Z hW hZ)) O Y
      (h.cover Y hY) (Or.inl rfl)
    rcases this with rfl | this
    · exact absurd hY hOS
    · exact this
  have hNS : N.Perm Ss :=
    (List.perm_ext_iff_of_nodup hst.nd (nodup_of_nodup_map_arg Ss h.names)).2
      (fun a => ⟨hst.sub a, hall a⟩)
  have hLm : L.Perm (itemsA v m) := by
    refine hL.trans (List.Perm.trans ?_ Fc.perm.symm)
    simp only [List.flatMap_cons]
    exact List.Perm.append_left _ (List.Perm.flatMap_right _ hNS)
  refine ⟨hcl, ?_, ?_, ?_, ?_, ?_, ?_, ?_⟩
  · rw [h1, Fc.meq, descE_dir, descE_dir, ext_dir, ext_dir]
    exact List.Perm.append_left _ hLm
  · rw [h1, Fc.meq, descE_ext_d, descE_ext_d]
    exact sameData_desc root O m h.okw h.mkw h.argO (argOf?_of_all h.descO)
  · rw [h1, descE_inp, ext_inp]; rfl
  · rw [Fc.meq, descE_inp, ext_inp]; rfl
  · rw [h1, descE_out, ext_out]; rfl
  · rw [Fc.meq, descE_out, ext_out]; rfl
  · intro Y hY
    rw [h2]
    exact List.mem_map.2 ⟨Y, hall Y hY, rfl⟩

end Nest

end Goyang.Lemmas.IncludeAsm
