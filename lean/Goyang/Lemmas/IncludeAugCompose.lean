import Goyang.Lemmas.IncludeAugOrder
import Goyang.Lemmas.IncludeAugView
import Goyang.Lemmas.IncludeAugFix
import Goyang.Lemmas.IncludeAugFinal
/-
C13 (third sentence), augments — (E) and (F) applied to `include_augment_loop_order`: on the canonical DUMP
(not only on the flat view) the result of `Process` on the split set is what the augment loop run in the
module order of the UNSPLIT set gives, followed by `FixChoice` — for sets whose loop leaves nothing
pending and without deviation statements.  Hypotheses that are not yet derived: `IOShape` of the two trees
and `SameIO` (the same rpc inputs / outputs created by the two runs).
-/
namespace Goyang.Lemmas.IncludeAugCompose
open Goyang.Model Goyang.Spec.Include Goyang.Spec.Augment Goyang.Spec.Tree Goyang.Lemmas.Tree
open Goyang.Lemmas.IncludeAugOrder Goyang.Lemmas.IncludeAugDump Goyang.Lemmas.IncludeAugView Goyang.Lemmas.IncludeAugFix
open Goyang.Lemmas.AugmentStep (FVisErr)
open Goyang.Lemmas.IncludeRel Goyang.Lemmas.IncludeMain

/-- Along the augment loop (any fuel, any module order), started where `processAll` starts it, every
error-free tree has `KeysUnique`. -/
theorem keysUnique_loop (reg : Registry) (opts : Opts) (plug : Plug) (fuel : Nat) (mods : Array Nat) :
    ∀ t ∈ (augmentLoop reg fuel mods (pstate0 reg opts plug)).2.forest.trees, NoErrors t.2 → KeysUnique t.2 := by
  have hq := localOK_wfq (envOf reg opts plug)
  have h1 := augmentLoop_ainv (augClosed_treeInv hq) reg fuel mods (pstate0 reg opts plug) (ainv_pstate0 reg opts plug hq)
  intro t ht hne
  exact everyNode_imp wfq keysUniqueHere Bridge.wfq_keysUnique _ ((h1.trees t ht).1.2 hne)

theorem mem_of_tree? {f : Forest} {id : Nat} {t : Entry} (h : f.tree? id = some t) : (id, t) ∈ f.trees := by
  unfold Forest.tree? at h
  cases hf : f.trees.find? (·.1 == id) with
  | none => rw [hf] at h; cases h
  | some p =>
    rw [hf] at h
    have hk : p.1 = id := by simpa using List.find?_some hf
    have hp := List.mem_of_find?_eq_some hf
    cases p with | mk a b =>
    simp only [Option.map_some, Option.some.injEq] at h
    subst h
    dsimp only at hk
    subst hk
    exact hp

/-- The state after the loop over the split set run in the module order of the unsplit set. -/
def loopU (R R' : Registry) (opts : Opts) (plug' : Plug) : PState :=
  (augmentLoop R' (loopFuel R' opts plug') ((augOrder R).map (·.seq)).toArray (pstate0 R' opts plug')).2

section Split
variable {s : Split} {R R' : Registry} (opts : Opts) (plug plug' : Plug) (h : IsSplitOf s R R' plug plug')

include h in
theorem split_dump_in_unsplit_order (hL : Fuel.LoadedShape R') (hpos : Bridge.AugPosDistinct R') (hplain : Bridge.AugArgsPlain R')
    (h1 : stage1Errs R' plug' = []) (h2 : forestErrs (forest0 R' opts plug') = [])
    (hdev : ∀ x ∈ R'.mods, x.stmt.all "deviation" = []) (hn : NoLeftover R' opts plug')
    (hclean : (processAll R' opts plug').errors = []) (m : Mod) {ts tu : Entry}
    (hts : (afterLoop R' opts plug').2.forest.tree? m.seq = some ts) (htu : (loopU R R' opts plug').forest.tree? m.seq = some tu)
    (hss : IOShape ts) (hsu : IOShape tu) (hio : SameIO ts tu) :
    dumpOf (processAll R' opts plug') m =
      dumpOf { errors := [], forest := AugmentReport.fixAll (loopU R R' opts plug').forest, reg := R' } m := by
  obtain ⟨pe, pf⟩ := processAll_noLeftover R' opts plug' hn hdev h1 h2
  rw [pe] at hclean
  have e0 := canonErrs_eq_nil _ hclean
  have hfa : ForestAll NoErrors (fixAll (afterLoop R' opts plug').2).forest := (forestErrs_eq_nil _).1 e0
  have hNs : ForestAll NoErrors (afterLoop R' opts plug').2.forest := by
    intro t ht
    have : (t.1, fixChoice t.2) ∈ (fixAll (afterLoop R' opts plug').2).forest.trees := by
      unfold fixAll
      exact List.mem_map.2 ⟨t, ht, rfl⟩
    exact (noErrors_fixChoice _).1 (hfa _ this)
  have hall : AugmentReport.allErrs (afterLoop R' opts plug').2.forest = [] := (forestErrs_eq_nil _).2 hNs
  have hfree : ∀ er, FVisErr (afterLoop R' opts plug').2.forest er → er.cls ≠ "duplicate-node" := by
    intro er hv
    have := AugmentReport.fVisErr_allErrs hv
    rw [hall] at this
    cases this
  obtain ⟨hview, _⟩ := split_loop_in_unsplit_order opts plug plug' h hL hpos hplain hfree
  have hallu := (split_loop_clean_iff opts plug plug' h hL hpos hplain h2).1 hall
  have hNu : ForestAll NoErrors (loopU R R' opts plug').forest := (forestErrs_eq_nil _).1 hallu
  have hms := mem_of_tree? hts
  have hmu := mem_of_tree? htu
  have hks : KeysUnique ts := keysUnique_loop R' opts plug' _ _ (m.seq, ts) hms (hNs _ hms)
  have hku : KeysUnique tu := keysUnique_loop R' opts plug' _ _ (m.seq, tu) hmu (hNu _ hmu)
  have hp : PEq ts tu := peq_of_veq (veq_of_viewOf hts htu (fun P d => by
    show viewOf (afterLoop R' opts plug').2.forest (m.seq, P) d ↔ viewOf (loopU R R' opts plug').forest (m.seq, P) d
    unfold loopU
    rw [hview])) hss hsu hio
  have key := dumpTree_fix_peq R' htu hts hp hks hku (hNs _ hms) (hNu _ hmu) m.fullName
  unfold dumpOf
  rw [pf, IncludeDump.processAll_reg]
  have e1 : (fixAll (afterLoop R' opts plug').2).forest = AugmentReport.fixAll (afterLoop R' opts plug').2.forest := rfl
  rw [e1]
  simp only [AugmentReport.tree?_fixAll, hts, htu, Option.map_some]
  exact key

end Split
section Split2
variable {s : Split} {R R' : Registry} (opts : Opts) (plug plug' : Plug) (h : IsSplitOf s R R' plug plug')

include h in
/-- `Process` on the split set (nothing left pending, no deviation statements) is error free iff the loop run
in the module order of the unsplit set records no error. -/
theorem split_clean_in_unsplit_order (hL : Fuel.LoadedShape R') (hpos : Bridge.AugPosDistinct R') (hplain : Bridge.AugArgsPlain R')
    (h1 : stage1Errs R' plug' = []) (h2 : forestErrs (forest0 R' opts plug') = [])
    (hdev : ∀ x ∈ R'.mods, x.stmt.all "deviation" = []) (hn : NoLeftover R' opts plug') :
    (processAll R' opts plug').errors = [] ↔ AugmentReport.allErrs (loopU R R' opts plug').forest = [] := by
  obtain ⟨pe, _⟩ := processAll_noLeftover R' opts plug' hn hdev h1 h2
  rw [pe]
  unfold loopU
  rw [← split_loop_clean_iff opts plug plug' h hL hpos hplain h2]
  have key : ForestAll NoErrors (fixAll (afterLoop R' opts plug').2).forest ↔ ForestAll NoErrors (afterLoop R' opts plug').2.forest := by
    constructor
    · intro hfa t ht
      have : (t.1, fixChoice t.2) ∈ (fixAll (afterLoop R' opts plug').2).forest.trees := by
        unfold fixAll
        exact List.mem_map.2 ⟨t, ht, rfl⟩
      exact (noErrors_fixChoice _).1 (hfa _ this)
    · intro hfa t ht
      unfold fixAll at ht
      obtain ⟨t0, ht0, rfl⟩ := List.mem_map.1 ht
      exact (noErrors_fixChoice _).2 (hfa _ ht0)
  constructor
  · intro hc
    exact (forestErrs_eq_nil _).2 (key.1 ((forestErrs_eq_nil _).1 (canonErrs_eq_nil _ hc)))
  · intro hc
    have : forestErrs (fixAll (afterLoop R' opts plug').2).forest = [] :=
      (forestErrs_eq_nil _).2 (key.2 ((forestErrs_eq_nil _).1 hc))
    rw [this]
    exact IncludeNoAug.canonErrs_nil

end Split2
section NLwrap
open Goyang.Lemmas.AugmentLoop Goyang.Lemmas.AugmentReport Goyang.Lemmas.AugmentModel Goyang.Lemmas.Bridge Goyang.Lemmas.AugmentStep
/-- With one row per key, a row of the pending table is what `pendingOf` answers for its key. -/
theorem pendingOf_of_mem (s : PState) (hk : (keys s).Nodup) {p : Nat × List Entry} (hp : p ∈ s.pending) :
    s.pendingOf p.1 = p.2 := by
  unfold PState.pendingOf
  have : s.pending.find? (·.1 == p.1) = some p := by
    unfold keys at hk
    generalize s.pending = l at hk hp
    induction l with
    | nil => cases hp
    | cons q qs ih =>
      rw [List.map_cons, List.nodup_cons] at hk
      rcases List.mem_cons.1 hp with rfl | hq
      · simp
      · have hne : (q.1 == p.1) = false := by
          rw [beq_eq_false_iff_ne]
          intro e
          exact hk.1 (e ▸ List.mem_map_of_mem (f := fun x : Nat × List Entry => x.1) hq)
        rw [List.find?_cons, hne]
        exact ih hk.2 hq
  rw [this]; rfl

section NL
variable {s : Split} {R R' : Registry} (opts : Opts) (plug plug' : Plug) (h : IsSplitOf s R R' plug plug')

include h in
/-- The loop over the split set leaves nothing pending when the run in the module order of the unsplit set
records no error and leaves nothing pending. -/
theorem noLeftover_split (hL : Fuel.LoadedShape R') (hpos : AugPosDistinct R') (hplain : AugArgsPlain R')
    (h2 : forestErrs (forest0 R' opts plug') = [])
    (hcu : allErrs (loopU R R' opts plug').forest = []) (hpu : ∀ id, (loopU R R' opts plug').pendingOf id = []) :
    NoLeftover R' opts plug' := by
  have hall := (split_loop_clean_iff opts plug plug' h hL hpos hplain h2).2 hcu
  have hfree : ∀ er, FVisErr (afterLoop R' opts plug').2.forest er → er.cls ≠ "duplicate-node" := by
    intro er hv
    have := fVisErr_allErrs hv
    rw [hall] at this
    cases this
  obtain ⟨_, hpend⟩ := split_loop_in_unsplit_order opts plug plug' h hL hpos hplain hfree
  have hin := phaseInput_pstate0 R' opts plug' hL hpos hplain
  have hkeys : (keys (afterLoop R' opts plug').2).Nodup := by
    have e : afterLoop R' opts plug' =
        augmentLoop R' (loopFuel R' opts plug') ((augOrder R').map (·.seq)).toArray (pstate0 R' opts plug') := rfl
    rw [e, Goyang.Props.C07.model_loop_eq R' _ _ _ hin.plain]
    obtain ⟨_, _, _, _, hk, _⟩ := loop_spec (Res.ofReg R') (pstate0 R' opts plug').forest (loopFuel R' opts plug')
      ((augOrder R').map (·.seq)).toArray (pstate0 R' opts plug') [] (FLe.refl _) hin.nodup (cover_pstate0 R' opts plug')
    show (keys (augmentLoopR (Res.ofReg R') (loopFuel R' opts plug') ((augOrder R').map (·.seq)).toArray
      (pstate0 R' opts plug') []).2.1).Nodup
    rw [hk]
    exact hin.keys
  intro p hp
  have e1 := pendingOf_of_mem _ hkeys hp
  apply List.eq_nil_iff_forall_not_mem.2
  intro a ha
  have : a ∈ (afterLoop R' opts plug').2.pendingOf p.1 := by rw [e1]; exact ha
  have := (hpend p.1 a).2 this
  have hh : a ∈ (loopU R R' opts plug').pendingOf p.1 := this
  rw [hpu p.1] at hh
  cases hh

end NL
end NLwrap

/-- No deviation statement in the unsplit set: none in the split set (they stay with the owner). -/
theorem dev_split {s : Split} {R R' : Registry} {plug plug' : Plug} (h : IsSplitOf s R R' plug plug')
    (hdev : ∀ x ∈ R.mods, x.stmt.all "deviation" = []) : ∀ x ∈ R'.mods, x.stmt.all "deviation" = [] := by
  intro x hx
  rw [IncludeLink.mods_split h.regs] at hx
  rcases List.mem_append.1 hx with hx | hx
  · obtain ⟨y, hy, rfl⟩ := List.mem_map.1 hx
    by_cases hym : y.seq = s.m.seq
    · have : y = s.m := IncludeLink.eq_m_of_seq h.regs hy hym
      subst this
      rw [IncludeLink.repl_m, h.text.kept "deviation" (by decide)]
      exact hdev s.m hy
    · rw [IncludeLink.repl_of_ne hym]; exact hdev y hy
  · exact (h.text.sub_no_aug x hx).2.1

section Reduce
variable {s : Split} {R R' : Registry} (opts : Opts) (plug plug' : Plug) (h : IsSplitOf s R R' plug plug')

/-- What the pieces (A) and (S) (and the bookkeeping of rpc inputs / outputs) have to deliver about the two
augment loops run in the SAME module order (that of the unsplit set): the loop over the split set records no
error and leaves nothing pending, and the owner's tree is the unsplit module's up to `SameTop σ`; `ts` is the owner's tree after the
split set's loop in its own order. -/
def LoopsRelated (s : Split) (R R' : Registry) (opts : Opts) (plug plug' : Plug) : Prop :=
  AugmentReport.allErrs (loopU R R' opts plug').forest = [] ∧ (∀ id, (loopU R R' opts plug').pendingOf id = []) ∧
  ∃ t ts tu, (afterLoop R opts plug).2.forest.tree? s.m.seq = some t ∧
    (afterLoop R' opts plug').2.forest.tree? s.m.seq = some ts ∧ (loopU R R' opts plug').forest.tree? s.m.seq = some tu ∧
    SameTop s.σ tu t ∧ IOShape ts ∧ IOShape tu ∧ SameIO ts tu

include h in
theorem eq_inline_of_loopsRelated (hL : Fuel.LoadedShape R') (hpos : Bridge.AugPosDistinct R') (hplain : Bridge.AugArgsPlain R')
    (hdev : ∀ x ∈ R.mods, x.stmt.all "deviation" = []) (hn : NoLeftover R opts plug)
    (hclean : (processAll R opts plug).errors = []) (hS : LoopsRelated s R R' opts plug plug') :
    (processAll R' opts plug').errors = [] ∧ dumpOf (processAll R' opts plug') s.owner = dumpOf (processAll R opts plug) s.m := by
  have hdev' := dev_split h hdev
  obtain ⟨a1, a2⟩ := IncludeNoAug.processAll_clean_stages R opts plug hclean
  obtain ⟨hlink, b1⟩ := stage1_split plug plug' h a1
  have b2 := (conv_split opts plug plug' h hlink a2).1
  obtain ⟨hcu, hpu, t, ts, tu, ht, hts, htu, hst, hss, hsu, hio⟩ := hS
  have hn' : NoLeftover R' opts plug' := noLeftover_split opts plug plug' h hL hpos hplain b2 hcu hpu
  have hclean' : (processAll R' opts plug').errors = [] :=
    (split_clean_in_unsplit_order opts plug plug' h hL hpos hplain b1 b2 hdev' hn').2 hcu
  refine ⟨hclean', ?_⟩
  obtain ⟨_, pf⟩ := processAll_noLeftover R opts plug hn hdev a1 a2
  have hseq : s.owner.seq = s.m.seq := h.regs.owner_seq
  have k1 := split_dump_in_unsplit_order opts plug plug' h hL hpos hplain b1 b2 hdev' hn' hclean' s.owner
    (by rw [hseq]; exact hts) (by rw [hseq]; exact htu) hss hsu hio
  rw [k1]
  have e1 : (fixAll (afterLoop R opts plug).2).forest = AugmentReport.fixAll (afterLoop R opts plug).2.forest := rfl
  have hT : (processAll R opts plug).forest.tree? s.m.seq = some (fixChoice t) := by
    rw [pf, e1, AugmentReport.tree?_fixAll, ht]; rfl
  have hnd := names_nodup_of_clean R opts plug hclean _ _ hT
  exact IncludeAugFinal.dumpOf_sameTop h (processAll R opts plug)
    { errors := [], forest := AugmentReport.fixAll (loopU R R' opts plug').forest, reg := R' }
    (IncludeDump.processAll_reg R opts plug) rfl hT (by rw [AugmentReport.tree?_fixAll, htu]; rfl)
    (sameTop_fixChoice s.σ tu t hst) hnd

end Reduce

/-! ### `IOShape` / `NoRpc` under `ren σ` and `SameTop` (for the non-vacuity examples) -/

theorem everyNode_ren (σ : Nat → Nat) (q : Entry → Bool)
    (hq : ∀ d c i o, q (.mk (renD σ d) (c.map (ren σ)) (i.map (ren σ)) (o.map (ren σ))) = q (.mk d c i o)) (e : Entry) :
    everyNode q (ren σ e) = true ↔ everyNode q e = true := by
  induction e using entry_ind with
  | h d c i o hc hi ho =>
    rw [ren_mk, everyNode_mk, everyNode_mk, hq]
    have hl : ∀ l : List Entry, (∀ x ∈ l, everyNode q (ren σ x) = true ↔ everyNode q x = true) →
        ((∀ x ∈ l.map (ren σ), everyNode q x = true) ↔ ∀ x ∈ l, everyNode q x = true) := by
      intro l hl
      constructor
      · intro h1 x hx; exact (hl x hx).1 (h1 _ (List.mem_map_of_mem hx))
      · intro h1 y hy
        obtain ⟨x, hx, rfl⟩ := List.mem_map.1 hy
        exact (hl x hx).2 (h1 x hx)
    rw [hl c hc, hl i hi, hl o ho]

theorem ioShapeHere_ren (σ : Nat → Nat) (d : EData) (c i o : List Entry) :
    ioShapeHere (.mk (renD σ d) (c.map (ren σ)) (i.map (ren σ)) (o.map (ren σ))) = ioShapeHere (.mk d c i o) := by
  cases hr : d.isRpc <;> simp [ioShapeHere, Entry.d, Entry.dir, Entry.inp, Entry.out, renD, hr]

theorem noRpcHere_ren (σ : Nat → Nat) (d : EData) (c i o : List Entry) :
    noRpcHere (.mk (renD σ d) (c.map (ren σ)) (i.map (ren σ)) (o.map (ren σ))) = noRpcHere (.mk d c i o) := by
  simp [noRpcHere, Entry.d, renD]

theorem sameTop_children (σ : Nat → Nat) (q : Entry → Bool)
    (hq : ∀ d c i o, q (.mk (renD σ d) (c.map (ren σ)) (i.map (ren σ)) (o.map (ren σ))) = q (.mk d c i o))
    {t' t : Entry} (h : SameTop σ t' t) (ht : ∀ x ∈ t.dir, everyNode q x = true) : ∀ x ∈ t'.dir, everyNode q x = true := by
  intro x hx
  have : ren σ x ∈ t.dir := by
    apply h.2.1.mem_iff.1
    rw [renL_eq_map]
    exact List.mem_map_of_mem hx
  exact (everyNode_ren σ q hq x).1 (ht _ this)

theorem ioShape_sameTop (σ : Nat → Nat) {t' t : Entry} (h : SameTop σ t' t) (ht : IOShape t) : IOShape t' := by
  cases t' with | mk d' c' i' o' =>
  cases t with | mk d c i o =>
  have hch := sameTop_children σ ioShapeHere (ioShapeHere_ren σ) h
  obtain ⟨hd, hp, ⟨hi', hi⟩, ⟨ho', ho⟩⟩ := h
  simp only [Entry.d, Entry.dir, Entry.inp, Entry.out] at hd hp hi' hi ho' ho hch
  subst hi' hi ho' ho
  unfold IOShape at ht ⊢
  rw [everyNode_mk] at ht ⊢
  refine ⟨?_, hch ht.2.1, by simp, by simp⟩
  have hr : d'.isRpc = d.isRpc := by unfold SameData at hd; rw [hd]
  have hlen : c'.isEmpty = c.isEmpty := by
    have := hp.length_eq
    rw [renL_eq_map, List.length_map] at this
    cases c' <;> cases c <;> simp_all
  have := ht.1
  simp only [ioShapeHere, Entry.d, Entry.dir, Entry.inp, Entry.out] at this ⊢
  simp only [hr, hlen]
  exact this

theorem noRpc_sameTop (σ : Nat → Nat) {t' t : Entry} (h : SameTop σ t' t) (ht : NoRpc t) : NoRpc t' := by
  cases t' with | mk d' c' i' o' =>
  cases t with | mk d c i o =>
  have hch := sameTop_children σ noRpcHere (noRpcHere_ren σ) h
  obtain ⟨hd, hp, ⟨hi', hi⟩, ⟨ho', ho⟩⟩ := h
  simp only [Entry.d, Entry.dir, Entry.inp, Entry.out] at hd hp hi' hi ho' ho hch
  subst hi' hi ho' ho
  unfold NoRpc at ht ⊢
  rw [everyNode_mk] at ht ⊢
  refine ⟨?_, hch ht.2.1, by simp, by simp⟩
  have hr : d'.isRpc = d.isRpc := by unfold SameData at hd; rw [hd]
  have := ht.1
  simp only [noRpcHere, Entry.d] at this ⊢
  rw [hr]
  exact this

end Goyang.Lemmas.IncludeAugCompose
