import Goyang.Lemmas.IncludeAugOrder
import Goyang.Lemmas.IncludeAugView
import Goyang.Lemmas.IncludeAugFix
/-
C13 (third sentence), augments — (E) and (F) applied to `include_augment_loop_order`: on the canonical DUMP
(not only on the flat view) the result of `Process` on the split set is what the augment loop run in the
module order of the UNSPLIT set gives, followed by `FixChoice` — for sets whose loop leaves nothing
pending and without deviation statements.  Hypotheses that are not yet derived: `IOShape` of the two trees
and `SameIO` (the same rpc inputs / outputs created by the two runs).
-/
namespace Goyang.Lemmas.IncludeAugCompose
open Goyang.Model Goyang.Spec.Include Goyang.Spec.Augment Goyang.Spec.Tree Goyang.Lemmas.Tree
open Goyang.Lemmas.IncludeAugOrder Goyang.Lemmas.IncludeAugDump Goyang.Lemmas.IncludeAugView Goyang.Lemmas.IncludeAugFix
open Goyang.Lemmas.AugmentStep (FVisErr)

/-- Along the augment loop (any fuel, any module order), started where `processAll` starts it, every
error-free tree has `KeysUnique`. -/
theorem keysUnique_loop (reg : Registry) (opts : Opts) (plug : Plug) (fuel : Nat) (mods : Array Nat) :
    ∀ t ∈ (augmentLoop reg fuel mods (pstate0 reg opts plug)).2.forest.trees, NoErrors t.2 → KeysUnique t.2 := by
  have hq := localOK_wfq (envOf reg opts plug)
  have h1 := augmentLoop_ainv (augClosed_treeInv hq) reg fuel mods (pstate0 reg opts plug) (ainv_pstate0 reg opts plug hq)
  intro t ht hne
  exact everyNode_imp wfq keysUniqueHere Bridge.wfq_keysUnique _ ((h1.trees t ht).1.2 hne)

theorem mem_of_tree? {f : Forest} {id : Nat} {t : Entry} (h : f.tree? id = some t) : (id, t) ∈ f.trees := by
  unfold Forest.tree? at h
  cases hf : f.trees.find? (·.1 == id) with
  | none => rw [hf] at h; cases h
  | some p =>
    rw [hf] at h
    have hk : p.1 = id := by simpa using List.find?_some hf
    have hp := List.mem_of_find?_eq_some hf
    cases p with | mk a b =>
    simp only [Option.map_some, Option.some.injEq] at h
    subst h
    dsimp only at hk
    subst hk
    exact hp

/-- The state after the loop over the split set run in the module order of the unsplit set. -/
def loopU (R R' : Registry) (opts : Opts) (plug' : Plug) : PState :=
  (augmentLoop R' (loopFuel R' opts plug') ((augOrder R).map (·.seq)).toArray (pstate0 R' opts plug')).2

section Split
variable {s : Split} {R R' : Registry} (opts : Opts) (plug plug' : Plug) (h : IsSplitOf s R R' plug plug')

include h in
theorem split_dump_in_unsplit_order (hL : Fuel.LoadedShape R') (hpos : Bridge.AugPosDistinct R') (hplain : Bridge.AugArgsPlain R')
    (h1 : stage1Errs R' plug' = []) (h2 : forestErrs (forest0 R' opts plug') = [])
    (hdev : ∀ x ∈ R'.mods, x.stmt.all "deviation" = []) (hn : NoLeftover R' opts plug')
    (hclean : (processAll R' opts plug').errors = []) (m : Mod) {ts tu : Entry}
    (hts : (afterLoop R' opts plug').2.forest.tree? m.seq = some ts) (htu : (loopU R R' opts plug').forest.tree? m.seq = some tu)
    (hss : IOShape ts) (hsu : IOShape tu) (hio : SameIO ts tu) :
    dumpOf (processAll R' opts plug') m =
      dumpOf { errors := [], forest := AugmentReport.fixAll (loopU R R' opts plug').forest, reg := R' } m := by
  obtain ⟨pe, pf⟩ := processAll_noLeftover R' opts plug' hn hdev h1 h2
  rw [pe] at hclean
  have e0 := canonErrs_eq_nil _ hclean
  have hfa : ForestAll NoErrors (fixAll (afterLoop R' opts plug').2).forest := (forestErrs_eq_nil _).1 e0
  have hNs : ForestAll NoErrors (afterLoop R' opts plug').2.forest := by
    intro t ht
    have : (t.1, fixChoice t.2) ∈ (fixAll (afterLoop R' opts plug').2).forest.trees := by
      unfold fixAll
      exact List.mem_map.2 ⟨t, ht, rfl⟩
    exact (noErrors_fixChoice _).1 (hfa _ this)
  have hall : AugmentReport.allErrs (afterLoop R' opts plug').2.forest = [] := (forestErrs_eq_nil _).2 hNs
  have hfree : ∀ er, FVisErr (afterLoop R' opts plug').2.forest er → er.cls ≠ "duplicate-node" := by
    intro er hv
    have := AugmentReport.fVisErr_allErrs hv
    rw [hall] at this
    cases this
  obtain ⟨hview, _⟩ := split_loop_in_unsplit_order opts plug plug' h hL hpos hplain hfree
  have hallu := (split_loop_clean_iff opts plug plug' h hL hpos hplain h2).1 hall
  have hNu : ForestAll NoErrors (loopU R R' opts plug').forest := (forestErrs_eq_nil _).1 hallu
  have hms := mem_of_tree? hts
  have hmu := mem_of_tree? htu
  have hks : KeysUnique ts := keysUnique_loop R' opts plug' _ _ (m.seq, ts) hms (hNs _ hms)
  have hku : KeysUnique tu := keysUnique_loop R' opts plug' _ _ (m.seq, tu) hmu (hNu _ hmu)
  have hp : PEq ts tu := peq_of_veq (veq_of_viewOf hts htu (fun P d => by
    show viewOf (afterLoop R' opts plug').2.forest (m.seq, P) d ↔ viewOf (loopU R R' opts plug').forest (m.seq, P) d
    unfold loopU
    rw [hview])) hss hsu hio
  have key := dumpTree_fix_peq R' htu hts hp hks hku (hNs _ hms) (hNu _ hmu) m.fullName
  unfold dumpOf
  rw [pf, IncludeDump.processAll_reg]
  have e1 : (fixAll (afterLoop R' opts plug').2).forest = AugmentReport.fixAll (afterLoop R' opts plug').2.forest := rfl
  rw [e1]
  simp only [AugmentReport.tree?_fixAll, hts, htu, Option.map_some]
  exact key

end Split
end Goyang.Lemmas.IncludeAugCompose
